import EpdVerif.Basic
import EpdVerif.Wire
import EpdVerif.Ctrl.Common
import EpdVerif.Ctrl.Ssd
import EpdVerif.Ctrl.Uc
