import EpdVerif.Basic
import EpdVerif.Wire
import EpdVerif.Ctrl.Common
import EpdVerif.Ctrl.Ssd
import EpdVerif.Ctrl.Uc
import EpdVerif.Drivers.Dsl
import EpdVerif.Drivers.Epd1in54
import EpdVerif.Scenario
