import EpdVerif.Table
import EpdVerif.Scenario
import EpdVerif.Pure
import EpdVerif.Oracle.Pure
import EpdVerif.Oracle.All
import EpdVerif.Props.Structural
import EpdVerif.Big
import EpdVerif.BigSim
import EpdVerif.E2E
import EpdVerif.Lemmas.SsdAddr
import EpdVerif.Lemmas.UcFlags
/-!
# epdmodel — runs the Lean model on scenario lines and compares it with the harness trace

usage: epdmodel check <scenario-file> <trace-file> [feat]
For every scenario: `C <id> same` or `C <id> drift op=<i> ev=<j> model=<…> impl=<…>`.
-/
open EpdVerif

/-- read the trace block of one scenario: lines after `S <id>` up to `T` -/
partial def readBlock (h : IO.FS.Handle) (acc : Array String) : IO (Array String) := do
  let line ← h.getLine
  if line.isEmpty then return acc
  let l := line.trimAsciiEnd.toString
  if l == "T" then return acc
  readBlock h (acc.push l)

/-- split a block into per-op traces -/
def parseBlock (lines : Array String) : Except String (List OpTrace) := do
  let mut ops : Array OpTrace := #[]
  let mut evs : Array Ev := #[]
  for l in lines do
    if l.startsWith "S " then continue
    if l.startsWith "E " then
      match l.splitOn " " with
      | ["E", _, r, bg] =>
        match parseRes r with
        | some res =>
          let b := (bg.drop 3).toString.toNat?
          ops := ops.push { evs := evs.toList, res, bg := b }
          evs := #[]
        | none => throw s!"bad result line {l}"
      | _ => throw s!"bad result line {l}"
    else
      match parseEvLine l with
      | some es => evs := evs ++ es.toArray
      | none => throw s!"bad trace line {l.take 80}"
  return ops.toList

def firstDiff (a b : List CEv) : Option (Nat × String × String) :=
  let rec go : List CEv → List CEv → Nat → Option (Nat × String × String)
    | [], [], _ => none
    | x :: xs, y :: ys, i => if x = y then go xs ys (i + 1) else some (i, x.toString, y.toString)
    | x :: _, [], i => some (i, x.toString, "<end>")
    | [], y :: _, i => some (i, "<end>", y.toString)
  go a b 0

def blkShow : Blk → String
  | .c c ps => s!"{hexByte c}[{ps.length}:{if ps.length ≤ 12 then hexOf ps else hexOf (ps.take 6) ++ ".." ++ String.ofList (Nat.toDigits 16 (fnv1a ps).toNat)}]"
  | .rst => "RST"
  | .stray bs => s!"stray[{bs.length}]"

/-- compare per-op traces under a view.  `raw`: every event (framing, polls, delays, reset
    waveform).  `logical`: only what the controller sees — the (command | data) blocks and hardware
    resets — plus results and accessor values; an extra wait, a different chunking or delay does
    not disturb it.  A hanging op is compared on the model's prefix only. -/
def compareOps (view : String) : List OpTrace → List OpTrace → Nat → Option String
  | [], [], _ => none
  | m :: ms, i :: is, k =>
    if m.res ≠ i.res then some s!"op={k} result model={m.res.toString} impl={i.res.toString}"
    else if m.bg ≠ i.bg then some s!"op={k} bg model={m.bg} impl={i.bg}"
    else if view == "logical" then
      let bm := blocksOfEvs m.evs
      let bi := blocksOfEvs i.evs
      if m.res = .hang ∨ bm = bi then compareOps view ms is (k + 1)
      else
        let rec fd : List Blk → List Blk → Nat → String
          | x :: xs, y :: ys, j => if x = y then fd xs ys (j + 1) else s!"blk={j} model=[{blkShow x}] impl=[{blkShow y}]"
          | x :: _, [], j => s!"blk={j} model=[{blkShow x}] impl=[<end>]"
          | [], y :: _, j => s!"blk={j} model=[<end>] impl=[{blkShow y}]"
          | [], [], j => s!"blk={j}"
        some s!"op={k} {fd bm bi 0}"
    else
      let cm := canon m.evs
      let ci := canon i.evs
      let ci := if m.res = .hang then ci.take cm.length else ci
      match firstDiff cm ci with
      | some (j, a, b) => some s!"op={k} ev={j} model=[{a}] impl=[{b}]"
      | none => compareOps view ms is (k + 1)
  | m :: _, [], k => some s!"op={k} missing in impl (model {m.res.toString})"
  | [], i :: _, k => some s!"op={k} missing in model (impl {i.res.toString})"

structure Cfg where
  f : Feat := {}
  props : List String := []
  view : String := "raw"

/-- oracle verdicts for a pure scenario, from the implementation's printed results:
    one `V … FAIL` line per failure, or one `V … ok n=<evaluations>` line -/
def pureVerdicts (cfg : Cfg) (sc : Scenario) (xs : List String) : List String := Id.run do
  let mut out : List String := []
  for prop in cfg.props do
    let mut n := 0
    let mut bad : List String := []
    let mut k := 0
    for op in sc.ops do
      let got := ((xs.getD k "").splitOn " ").drop 2 |> " ".intercalate
      let r : Option (List String) :=
        match prop, op with
        | "C16", "rect" :: rest => (rest.mapM String.toNat?).map (fun v => (Oracle.C16.check v got).toList)
        | "C14", "color" :: _ => some (Oracle.C14.check op got)
        | "C03", "setpx" :: _ =>
          -- the proved model determines the effect of every call exactly (Props/C03): a result that
          -- differs from the model's is a concrete failing input, not only a broken correspondence
          let base := Oracle.C03.check op got
          let want := pureOp op
          some (if base.isEmpty ∧ got ≠ want ∧ got ≠ "R=err" then
            [s!"site=graphics/set_pixel/{op.getD 1 "?"} reason=effect-differs-from-proved-model got={(got.take 120).toString} want={(want.take 120).toString}"]
          else base)
        | "C03", "setone" :: _ => some (Oracle.C03.check op got)
        | "C13", "alias" :: _ => some (Oracle.C13.check op got)
        | "C13", "vardisp" :: _ => some (Oracle.C13.check op got)
        | "C13", "vargrid" :: _ => some (Oracle.C13.check op got)
        | "C13", "buflen" :: _ => some []
        | _, _ => none
      match r with
      | some res =>
        n := n + 1
        bad := bad ++ res.map (fun f => s!"{f} op={k}")
      | none => pure ()
      k := k + 1
    if n > 0 then
      if bad.isEmpty then out := out ++ [s!"V {sc.id} {prop} ok n={n}"]
      else out := out ++ bad.map (fun f => s!"V {sc.id} {prop} FAIL {f}")
  return out

partial def loop (hs ht : IO.FS.Handle) (cfg : Cfg) (n drift : Nat) : IO (Nat × Nat) := do
  let f := cfg.f
  let line ← hs.getLine
  if line.isEmpty then return (n, drift)
  let l := line.trimAscii.toString
  if l.isEmpty || l.startsWith "#" then loop hs ht cfg n drift else
  match parseScenario l with
  | .error e => do
    IO.println s!"X bad scenario: {e}: {l}"
    loop hs ht cfg (n + 1) (drift + 1)
  | .ok sc => do
    let block ← readBlock ht #[]
    if sc.panel == "pure" then
      let xs := block.toList.filter (·.startsWith "X ")
      let mut bad : Option String := none
      let mut k := 0
      for op in sc.ops do
        let want := s!"X {k} {pureOp op}"
        let got := xs.getD k "<missing>"
        if bad.isNone && want ≠ got then
          bad := some s!"op={k} ({op.head!}) model=[{(want.take 300).toString}] impl=[{(got.take 300).toString}]"
        k := k + 1
      for v in pureVerdicts cfg sc xs do IO.println v
      match bad with
      | none =>
        IO.println s!"C {sc.id} same"
        loop hs ht cfg (n + 1) drift
      | some d =>
        IO.println s!"C {sc.id} drift {d}"
        loop hs ht cfg (n + 1) (drift + 1)
    else if sc.panel == "epd12in48b_v2" then
      match Big.parseBlockB block with
      | .error e => do
        IO.println s!"X {sc.id} bad trace: {e}"
        loop hs ht cfg (n + 1) (drift + 1)
      | .ok impl => do
        let model := Big.runOpsB sc sc.ops (Big.mkBEnv sc)
        if cfg.props.contains "C15" then
          let (k, fs) := Big.c15Verdicts sc impl
          if fs.isEmpty then IO.println s!"V {sc.id} C15 ok n={k}"
          else for ftxt in fs.eraseDups do IO.println s!"V {sc.id} C15 FAIL {ftxt}"
          for ftxt in (Big.c15Verdicts sc model).2.eraseDups do IO.println s!"VM {sc.id} C15 FAIL {ftxt}"
        for (pr, fn) in [("C01", Big.c01B), ("C06", Big.c06B), ("C11", Big.c11B)] do
          if cfg.props.contains pr then
            let (k, fs) := Big.perOpVerdicts fn sc impl
            if fs.isEmpty then IO.println s!"V {sc.id} {pr} ok n={k}"
            else for ftxt in fs.eraseDups do IO.println s!"V {sc.id} {pr} FAIL {ftxt}"
            for ftxt in (Big.perOpVerdicts fn sc model).2.eraseDups do IO.println s!"VM {sc.id} {pr} FAIL {ftxt}"
        -- state-based verdicts on four simulated controllers (C02, C06, C08, C18)
        if cfg.props.any (fun p => p == "C02" ∨ p == "C08" ∨ p == "C18" ∨ p == "C06") then
          let vi := BigSim.verdicts cfg.props sc impl BigSim.freshInit
          let vm := BigSim.verdicts cfg.props sc model BigSim.freshInit
          for (pr, k, fs) in vi do
            if cfg.props.contains pr ∧ pr ≠ "C06" then
              if fs.isEmpty then IO.println s!"V {sc.id} {pr} ok n={k}"
              else for ftxt in fs do IO.println s!"V {sc.id} {pr} FAIL {ftxt}"
            else if pr == "C06" ∧ cfg.props.contains pr then
              -- (the per-operation verdict line of C06 is printed above; failures only here)
              for ftxt in fs do IO.println s!"V {sc.id} {pr} FAIL {ftxt}"
          for (pr, _, fs) in vm do
            if cfg.props.contains pr then
              for ftxt in fs do IO.println s!"VM {sc.id} {pr} FAIL {ftxt}"
        if cfg.props.contains "C05" then
          let (k, fs) := Big.c05Scan sc impl
          if fs.isEmpty then IO.println s!"V {sc.id} C05 ok n={k}"
          else for ftxt in fs do IO.println s!"V {sc.id} C05 FAIL {ftxt}"
          for ftxt in (Big.c05Scan sc model).2 do IO.println s!"VM {sc.id} C05 FAIL {ftxt}"
        if cfg.props.contains "C09" then
          let (k, fs) := Big.c09Scan sc.ops impl
          if fs.isEmpty then IO.println s!"V {sc.id} C09 ok n={k}"
          else for ftxt in fs do IO.println s!"V {sc.id} C09 FAIL {ftxt}"
          for ftxt in (Big.c09Scan sc.ops model).2 do IO.println s!"VM {sc.id} C09 FAIL {ftxt}"
        if cfg.props.contains "C04" then
          let (k, fs) := Big.c04Verdicts sc impl
          if fs.isEmpty then IO.println s!"V {sc.id} C04 ok n={k}"
          else for ftxt in fs.eraseDups do IO.println s!"V {sc.id} C04 FAIL {ftxt}"
          for ftxt in (Big.c04Verdicts sc model).2.eraseDups do IO.println s!"VM {sc.id} C04 FAIL {ftxt}"
          -- recovery: the suffix after [reset; init; op] against the never-failed twin
          IO.println s!"O {sc.id} C04 {Big.suffixDigest impl 3}"
        if cfg.props.contains "C10" then
          let (k, fs0) := Big.c10Verdicts sc impl
          let fs := fs0 ++ Big.c10Cmds sc.ops model impl
          if fs.isEmpty then IO.println s!"V {sc.id} C10 ok n={k}"
          else for ftxt in fs.eraseDups do IO.println s!"V {sc.id} C10 FAIL {ftxt}"
          for ftxt in (Big.c10Verdicts sc model).2.eraseDups do IO.println s!"VM {sc.id} C10 FAIL {ftxt}"
        match Big.compareB model impl 0 with
        | none => do
          IO.println s!"C {sc.id} same"
          loop hs ht cfg (n + 1) drift
        | some d => do
          IO.println s!"C {sc.id} drift {d}"
          loop hs ht cfg (n + 1) (drift + 1)
    else
    match findPanel f sc.panel, sc.ops.mapM parseOp, parseBlock block with
    | none, _, _ => do
      IO.println s!"X {sc.id} unknown panel {sc.panel}"
      loop hs ht cfg (n + 1) (drift + 1)
    | _, none, _ => do
      IO.println s!"X {sc.id} bad ops"
      loop hs ht cfg (n + 1) (drift + 1)
    | _, _, .error e => do
      IO.println s!"X {sc.id} bad trace: {e}"
      loop hs ht cfg (n + 1) (drift + 1)
    | some p, some ops, .ok impl => do
      let model := runOps p sc.scribble ops (mkEnv p sc) none
      if !cfg.props.isEmpty then
        let ai := Oracle.panelVerdicts cfg.f cfg.props p sc sc.ops ops impl model
        for (pr, n) in ai.evals do
          let fs := ai.fails.filter (·.1 == pr)
          if fs.isEmpty then IO.println s!"V {sc.id} {pr} ok n={n}"
          else for (_, ftxt) in fs.eraseDups do IO.println s!"V {sc.id} {pr} FAIL {ftxt}"
        for o in ai.notes do IO.println s!"O {sc.id} {o}"
        let am := Oracle.panelVerdicts cfg.f cfg.props p sc sc.ops ops model model
        for (pr, ftxt) in am.fails.eraseDups do IO.println s!"VM {sc.id} {pr} FAIL {ftxt}"
      match compareOps cfg.view model impl 0 with
      | none => do
        IO.println s!"C {sc.id} same"
        loop hs ht cfg (n + 1) drift
      | some d => do
        IO.println s!"C {sc.id} drift {d}"
        loop hs ht cfg (n + 1) (drift + 1)

def main (args : List String) : IO UInt32 := do
  match args with
  | "selftest" :: _ => do
    IO.println s!"fnv {String.ofList (Nat.toDigits 16 (fnv1a "epd-waveshare".toUTF8.toList).toNat)}"
    IO.println s!"prng {hexOf (prngBytes 42 8)}"
    IO.println s!"pos {hexOf ((List.range 8).map fun i => posByte (i * 100))}"
    return 0
  | "table" :: rest => do
    let f : Feat := { v2 := rest.contains "v2", alt := rest.contains "alt" }
    for p in panels f do
      let fam := match p.family with | .ssd => "ssd" | .uc => "uc" | .acep => "acep"
      let raise := ",".intercalate ((Spec.raiseSet p.name p.family).map hexByte)
      let supports (o : Op) : Bool := (p.prog p.init o).isSome
      let opsS := [("wake", Op.wake), ("sleep", .sleep), ("disp", .disp), ("clear", .clear), ("wait", .wait),
        ("bg", .bg 0), ("lut", .lut none), ("lutsel", .lut (some .quick)), ("upd", .upd []), ("updisp", .updisp []), ("part", .part [] 0 0 8 8),
        ("old", .old []), ("newf", .newf []), ("dispnew", .dispnew), ("updispnew", .updispnew []),
        ("pold", .pold [] 0 0 8 8), ("pnew", .pnew [] 0 0 8 8), ("pclear", .pclear 0 0 8 8),
        ("color", .color [] []), ("achro", .achro []), ("chro", .chro []), ("base", .base []),
        ("refresh", .refresh .full), ("border", .border 0), ("part2", .part2 [] 0 0 8 8),
        ("dpart", .dpart 0 0 8 8), ("pachro", .pachro [] 0 0 8 8), ("pchro", .pchro [] 0 0 8 8),
        ("basedisp", .basedisp [] none), ("disppart", .disppart), ("7block", .sevenBlock)]
      let impl (o : Op) : Bool := match p.prog p.init o, o with
        | some [Act.panic], _ => false
        | some [], .lut (some _) => true      -- `set_lut` that accepts and ignores the mode
        | some [], _ => false
        | some _, _ => true
        | none, _ => false
      let sup := ",".intercalate ((opsS.filter fun (_, o) => supports o).map fun (n, o) => if impl o then n else n ++ "!")
      IO.println s!"P {p.name} {p.width} {p.height} {fam} {if p.single then 1 else 0} {if p.busyLow then 1 else 0} {p.colors} {raise} {if Spec.busyLevel p.family then 1 else 0} {sup}"
    return 0
  | "structural" :: rest => do
    -- facts about every (panel, op) on canonical arguments: which per-panel theorems to state
    let f : Feat := { v2 := rest.contains "v2", alt := rest.contains "alt" }
    for p in panels f do
      let n := (p.width + 7) / 8 * p.height
      let b : Bytes := List.replicate (if p.name == "epd7in5b_v2" then 2 * n else n) 0
      let opsS : List (String × Op) := [("new", .new), ("wake", .wake), ("sleep", .sleep), ("disp", .disp), ("clear", .clear),
        ("wait", .wait), ("bg", .bg 0), ("lutnone", .lut none), ("lutfull", .lut (some .full)), ("lutquick", .lut (some .quick)),
        ("upd", .upd b), ("updisp", .updisp b), ("old", .old b), ("newf", .newf b), ("dispnew", .dispnew),
        ("updispnew", .updispnew b), ("color", .color b b), ("achro", .achro b), ("chro", .chro b), ("base", .base b),
        ("refreshfull", .refresh .full), ("refreshquick", .refresh .quick), ("border", .border 0),
        ("basedisp", .basedisp b none), ("disppart", .disppart)]
      let fam := Props.famOf p
      let raise := Spec.raiseSet p.name p.family
      let lvl := Spec.busyLevel p.family
      for (name, op) in opsS do
        -- over the control-relevant driver field combinations
        let ds : List DState := [.full, .quick].flatMap fun r => [false, true].flatMap fun o => [false, true].flatMap fun pf =>
          (List.range p.colors).map fun bgc => { p.init with refresh := r, isOn := o, partialFlag := pf, bg := bgc }
        match p.prog p.init op with
        | none => pure ()
        | some [Act.panic] => pure ()
        | some _ =>
          let progs := ds.filterMap fun d => p.prog d op
          let all (g : List Act → Bool) : Bool := progs.all g
          let s0 := progs.map fun a => Props.C05.absSafe fam raise lvl a false
          let s1 := progs.map fun a => Props.C05.absSafe fam raise lvl a true
          let show1 (l : List (Option Bool)) : String :=
            if l.all (· == some false) then "F" else if l.all (· == some true) then "T" else if l.all (·.isSome) then "M" else "x"
          let dsProgs := ds.filterMap fun d => (p.prog d op).map fun a => (d, a)
          let sleepDeep := name == "sleep" && all (Props.sleepEndsDeep p)
          let wakeNew := name == "wake" && dsProgs.all fun (d, a) => Props.wakeLikeNew p a ((p.prog d .new).getD [])
          let hasRef := (Spec.lutRef f p.name .full).isSome
          let lutSel := hasRef && (if name == "lutfull" then all (Props.lutMatches f p .full)
            else if name == "lutquick" then all (Props.lutMatches f p .quick) else false)
          let lutCur := hasRef && (name == "lutnone" || ((name == "wake" || name == "new") && Spec.initUploads p.name)) &&
            dsProgs.all fun (d, a) => Props.lutMatches f p d.refresh a
          let keeps := name != "sleep" && name != "new" && name != "wake" && all (Props.keepsModeP p)
          let estab := (name == "new" || name == "wake") && all (Props.establishesModeP p)
          let notEdge := name != "sleep" && name != "new" && name != "wake"
          let pwOn := notEdge && all (fun a => Props.powerSafeP p a true == some true)
          let pwAny := notEdge && all (fun a => (Props.powerSafeP p a true).isSome && (Props.powerSafeP p a false).isSome)
          let pwEstOn := !notEdge && name != "sleep" && all (fun a => Props.powerEstablishP p a == some true)
          let pwEst := !notEdge && name != "sleep" && all (fun a => (Props.powerEstablishP p a).isSome)
          IO.println s!"S {p.name} {name} pwOn={pwOn} pwAny={pwAny} pwEstOn={pwEstOn} pwEst={pwEst} keeps={keeps} estab={estab} sleepDeep={sleepDeep} wakeNew={wakeNew} lutSel={lutSel} lutCur={lutCur} resetFirst={all (Props.C11.goodResets true)} resetAny={all (Props.C11.goodResets false)} abs0={show1 s0} abs1={show1 s1} conforms={all (Props.opConforms p (if name.startsWith "lut" then "lut" else if name.startsWith "refresh" then "refresh" else name))}"
    return 0
  | "e2e" :: rest => do
    -- material for the end-to-end theorems: for every panel / full-frame entry point, from a fresh
    -- driver (and, with `hist`, after every unit of a fixed history alphabet): the controller blocks
    -- for two different buffer contents (which blocks depend on the buffer?) and the addressing
    -- state of the companion run when each data block arrives
    let f : Feat := { v2 := rest.contains "v2", alt := rest.contains "alt" }
    let hist := rest.contains "hist"
    for p in panels f do
      let n := (p.width + 7) / 8 * p.height
      let nb := if p.name == "epd7in5b_v2" then 2 * n else if Spec.isOct p.name then p.width / 2 * p.height else n
      let emit (name hname : String) (len : Nat) (opsA opsB : List Op) (src : String) : IO Unit := do
        let tg := Spec.fullTargets p.name name
        if tg.isEmpty then return
        let za : Bytes := List.replicate len 0
        let _ := za
        let blocksA := p.blocks opsA
        let blocksB := p.blocks opsB
        let zb : Bytes := (List.range len).map fun i => posByte i
        let zc : Bytes := (List.range len).map fun i => posByte (i + 7)
        let holes := ((List.range blocksA.length).filter fun i => blocksA[i]? != blocksB[i]?)
        let srcOf (ps : Bytes) : String :=
          let encs : List (String × Spec.Enc) := [("id", .id), ("inv", .inv), ("bpp2", .bpp2), ("bpp4", .bpp4), ("lo", .lo), ("hi", .hi)]
          match (encs.flatMap fun (en, e) => [(0, zb), (1, zc)].filterMap fun (ai, z) =>
              if ps == e.apply z then some s!"{ai}/{en}" else none) with
          | x :: _ => x
          | [] => "?"
        let desc (i : Nat) : String := match blocksA[i]?, blocksB[i]? with
          | some (.c c ps), some (.c _ psB) => s!"{i}:{hexByte c}:{ps.length}:{srcOf psB}"
          | _, _ => s!"{i}:??:0:?"
        let comp (i : Nat) : String := match p.ctrl with
          | .ssd s0 =>
            let c := Ssd.compRun (s0.withPlanes #[] #[]) (blocksA.take i)
            s!"{c.xs},{c.xe},{c.ys},{c.ye},{c.stride},{c.rows},{Ssd.ready c ((blocksA[i]?.map fun b => match b with | .c _ ps => ps.length | _ => 0).getD 0)}"
          | .uc u0 => s!"{u0.p1.size},{u0.p2.size},{Uc.ready (Uc.compRun (u0.withData #[] #[] []) (blocksA.take i))}"
        let fam := match p.family with | .ssd => "ssd" | .uc => "uc" | .acep => "acep"
        let tgs := ";".intercalate (tg.map fun t => s!"{t.plane},{reprStr t.enc},{t.arg}")
        IO.println s!"E {p.name} {fam} {name} hist={hname} len={len} nblocks={blocksA.length} sameLen={blocksA.length == blocksB.length} nopanic={p.noPanic opsA} holes={",".intercalate (holes.map desc)} comp={"|".intercalate (holes.map comp)} targets={tgs} src={src.replace " " "~"}"
      let ok (o : Op) : Bool := match p.prog p.init o with
        | none => false
        | some [Act.panic] => false
        | some _ => true
      if !hist then
        let opsS : List (String × Nat × (Bytes → Bytes → Op) × String) := [
          ("upd", nb, fun b _ => .upd b, ".upd b0"), ("updisp", nb, fun b _ => .updisp b, ".updisp b0"),
          ("old", n, fun b _ => .old b, ".old b0"), ("newf", n, fun b _ => .newf b, ".newf b0"),
          ("updispnew", n, fun b _ => .updispnew b, ".updispnew b0"), ("color", n, fun b c => .color b c, ".color b0 b1"),
          ("achro", n, fun b _ => .achro b, ".achro b0"), ("chro", n, fun b _ => .chro b, ".chro b0"),
          ("base", n, fun b _ => .base b, ".base b0")]
        for (name, len, mk, src) in opsS do
          if !ok (mk [] []) then continue
          let za : Bytes := List.replicate len 0
          let zb : Bytes := (List.range len).map fun i => posByte i
          let zc : Bytes := (List.range len).map fun i => posByte (i + 7)
          emit name "fresh" len [.new, mk za za] [.new, mk zb zc] s!"[.new, {src}]"
      else
        -- one unit of history between construction and a full-frame update (C02)
        let Z (k : Nat) : Bytes × String := (List.replicate k 0, s!"(List.replicate {k} 0)")
        let (zn, zns) := Z n
        let (znb, znbs) := Z nb
        let (zw, zws) := Z 16
        let cand : List (String × List Op × String) := [
          ("wake", [.wake], ".wake"), ("sleepwake", [.sleep, .wake], ".sleep, .wake"), ("disp", [.disp], ".disp"),
          ("clear", [.clear], ".clear"), ("bg1clear", [.bg 1, .clear], ".bg 1, .clear"), ("wait", [.wait], ".wait"),
          ("upd", [.upd znb], s!".upd {znbs}"), ("updisp", [.updisp znb], s!".updisp {znbs}"),
          ("upddisp", [.upd znb, .disp], s!".upd {znbs}, .disp"),
          ("part", [.part zw 8 16 16 8], s!".part {zws} 8 16 16 8"),
          ("partdisp", [.part zw 8 16 16 8, .disp], s!".part {zws} 8 16 16 8, .disp"),
          ("lutq", [.lut (some .quick)], ".lut (some .quick)"), ("lutf", [.lut (some .full)], ".lut (some .full)"),
          ("lutqdisp", [.lut (some .quick), .disp], ".lut (some .quick), .disp"),
          ("refq", [.refresh .quick], ".refresh .quick"), ("reff", [.refresh .full], ".refresh .full"),
          ("refqupdisp", [.refresh .quick, .updisp znb], s!".refresh .quick, .updisp {znbs}"),
          ("oldnew", [.old zn, .newf zn, .dispnew], s!".old {zns}, .newf {zns}, .dispnew"),
          ("color", [.color zn zn], s!".color {zns} {zns}"), ("base", [.base zn], s!".base {zns}"),
          ("poldpnew", [.pold zw 8 16 16 8, .pnew zw 8 16 16 8], s!".pold {zws} 8 16 16 8, .pnew {zws} 8 16 16 8"),
          ("pclear", [.pclear 8 16 16 8], ".pclear 8 16 16 8"), ("border", [.border 0], ".border 0"),
          ("sleepwakeclear", [.sleep, .wake, .clear], ".sleep, .wake, .clear")]
        if !ok (.upd []) then continue
        let zb : Bytes := (List.range nb).map fun i => posByte i
        for (hname, ops, src) in cand do
          if !(ops.all ok) then continue
          emit "upd" hname nb ([.new] ++ ops ++ [.upd znb]) ([.new] ++ ops ++ [.upd zb]) s!"[.new, {src}, .upd b0]"
    return 0
  | "e2eany" :: rest => do
    -- material for the from-any-state theorems: every full-frame entry point alone, per combination
    -- of the control-relevant driver fields, from a scrambled addressing state
    let f : Feat := { v2 := rest.contains "v2", alt := rest.contains "alt" }
    for p in panels f do
      let n := (p.width + 7) / 8 * p.height
      let nb := if p.name == "epd7in5b_v2" then 2 * n else if Spec.isOct p.name then p.width / 2 * p.height else n
      let opsS : List (String × Nat × (Bytes → Bytes → Op) × String) := [
        ("upd", nb, fun b _ => .upd b, ".upd b0"), ("updisp", nb, fun b _ => .updisp b, ".updisp b0"),
        ("old", n, fun b _ => .old b, ".old b0"), ("newf", n, fun b _ => .newf b, ".newf b0"),
        ("updispnew", n, fun b _ => .updispnew b, ".updispnew b0"), ("color", n, fun b c => .color b c, ".color b0 b1"),
        ("achro", n, fun b _ => .achro b, ".achro b0"), ("chro", n, fun b _ => .chro b, ".chro b0"),
        ("base", n, fun b _ => .base b, ".base b0")]
      for (name, len, mk, src) in opsS do
        let tg := Spec.fullTargets p.name name
        if tg.isEmpty then continue
        match p.prog p.init (mk [] []) with
        | none => continue
        | some [Act.panic] => continue
        | some _ => pure ()
        let za : Bytes := List.replicate len 0
        let zb : Bytes := (List.range len).map fun i => posByte i
        let zc : Bytes := (List.range len).map fun i => posByte (i + 7)
        let combos : List (Refresh × Bool × Bool) := [.full, .quick].flatMap fun r => [false, true].flatMap fun o => [false, true].map fun pf => (r, o, pf)
        let blocksFor (d : DState) (b c : Bytes) : List Blk := blocksOf ((p.prog d (mk b c)).getD [.panic])
        for (r, o, pf) in combos do
          let d : DState := { p.init with refresh := r, isOn := o, partialFlag := pf }
          let blocksA := blocksFor d za za
          let blocksB := blocksFor d zb zc
          let np := ((p.prog d (mk za za)).getD [.panic]).all (fun a => !a.isPanic)
          let holes := ((List.range blocksA.length).filter fun i => blocksA[i]? != blocksB[i]?)
          let srcOf (ps : Bytes) : String :=
            let encs : List (String × Spec.Enc) := [("id", .id), ("inv", .inv), ("bpp2", .bpp2), ("bpp4", .bpp4), ("lo", .lo), ("hi", .hi)]
            match (encs.flatMap fun (en, e) => [(0, zb), (1, zc)].filterMap fun (ai, z) =>
                if ps == e.apply z then some s!"{ai}/{en}" else none) with
            | x :: _ => x
            | [] => "?"
          let desc (i : Nat) : String := match blocksA[i]?, blocksB[i]? with
            | some (.c c ps), some (.c _ psB) => s!"{i}:{hexByte c}:{ps.length}:{srcOf psB}"
            | _, _ => s!"{i}:??:0:?"
          let comp (i : Nat) : String := match p.ctrl with
            | .ssd s0 =>
              let a0 : Ssd.Addr := ⟨s0.xPix, s0.stride, s0.rows, 3, 1, 2, 3, 4, 1, 3, false⟩
              let a := (blocksA.take i).foldl Ssd.feedA a0
              let len := (blocksA[i]?.map fun b => match b with | .c _ ps => ps.length | _ => 0).getD 0
              s!"{a.xs},{a.xe},{a.ys},{a.ye},{a.stride},{a.rows},{Ssd.readyA a len},{s0.xPix}"
            | .uc u0 =>
              let f1 := (blocksA.take i).foldl Uc.feedF ⟨false, false, u0.has14⟩
              let f2 := (blocksA.take i).foldl Uc.feedF ⟨false, true, u0.has14⟩
              s!"{u0.p1.size},{u0.p2.size},{Uc.readyF f1},{Uc.readyF f2},{u0.has14}"
          let fam := match p.family with | .ssd => "ssd" | .uc => "uc" | .acep => "acep"
          let tgs := ";".intercalate (tg.map fun t => s!"{t.plane},{reprStr t.enc},{t.arg}")
          let ds := s!"{if r == .full then "full" else "quick"},{o},{pf}"
          IO.println s!"A {p.name} {fam} {name} d={ds} len={len} nblocks={blocksA.length} sameLen={blocksA.length == blocksB.length} nopanic={np} holes={",".intercalate (holes.map desc)} comp={"|".intercalate (holes.map comp)} targets={tgs} src={src.replace " " "~"}"
    return 0
  | "e2eclear" :: rest => do
    -- material for the from-any-state theorems about `clear_frame` (C07)
    let f : Feat := { v2 := rest.contains "v2", alt := rest.contains "alt" }
    for p in panels f do
      match p.prog p.init .clear with
      | none => continue
      | some [Act.panic] => continue
      | some _ => pure ()
      let prim := (Spec.fullTargets p.name "upd").head?
      let combos : List (Refresh × Bool × Bool) := [.full, .quick].flatMap fun r => [false, true].flatMap fun o => [false, true].map fun pf => (r, o, pf)
      for bg in List.range p.colors do
        for (r, o, pf) in combos do
          let d : DState := { p.init with bg := bg, refresh := r, isOn := o, partialFlag := pf }
          let acts := (p.prog d .clear).getD [.panic]
          let blocks := blocksOf acts
          let np := acts.all (fun a => !a.isPanic)
          let planeOf (c : UInt8) : Option Nat := match p.ctrl with
            | .ssd _ => if c = 0x24 then some 0 else if c = 0x26 then some 1 else none
            | .uc _ => if c = 0x10 then some 0 else if c = 0x13 then some 1 else none
          for pl in [0, 1] do
            let idxs := (List.range blocks.length).filter fun i => match (blocks[i]? : Option Blk) with
              | some (Blk.c c _) => planeOf c == some pl
              | _ => false
            match idxs with
            | [i] =>
              match (blocks[i]? : Option Blk) with
              | some (Blk.c c ps) =>
                let v := ps.headD 0
                let uni := ps.all (· == v)
                let comp : String := match p.ctrl with
                  | .ssd s0 =>
                    let a0 : Ssd.Addr := ⟨s0.xPix, s0.stride, s0.rows, 3, 1, 2, 3, 4, 1, 3, false⟩
                    let a := (blocks.take i).foldl Ssd.feedA a0
                    s!"{a.xs},{a.xe},{a.ys},{a.ye},{a.stride},{a.rows},{Ssd.readyA a ps.length},{s0.xPix}"
                  | .uc u0 =>
                    let f1 := (blocks.take i).foldl Uc.feedF ⟨false, false, u0.has14⟩
                    let f2 := (blocks.take i).foldl Uc.feedF ⟨false, true, u0.has14⟩
                    s!"{u0.p1.size},{u0.p2.size},{Uc.readyF f1},{Uc.readyF f2},{u0.has14}"
                let isPrim := (prim.map (·.plane)) == some pl
                -- the byte a uniformly painted frame leaves in the primary plane
                let ub : UInt8 := if p.colors = 3 ∧ bg = 2 then
                    (match aliases.find? (fun al => al.panel == p.name ∧ al.kind == "TriColor") with
                     | some al => if al.bwr then 0x00 else 0xFF
                     | none => 0x00)
                  else Spec.uniformByte p.name bg
                let want : UInt8 := match prim with
                  | some t => (t.enc.apply [ub, ub]).headD 0
                  | none => ub
                let fam := match p.family with | .ssd => "ssd" | .uc => "uc" | .acep => "acep"
                let later := ((blocks.drop (i + 1)).all fun (b : Blk) => match b with
                  | Blk.c c2 _ => !(planeOf c2 == some pl) && !(c2 == 0x46 && pl == 1) && !(c2 == 0x47 && pl == 0)
                  | _ => true)
                IO.println s!"K {p.name} {fam} bg={bg} d={if r == .full then "full" else "quick"},{o},{pf} plane={pl} k={i} cmd={hexByte c} len={ps.length} val={v.toNat} uniform={uni} nopanic={np} later={later} comp={comp} primary={isPrim} want={want.toNat}"
              | _ => pure ()
            | _ => pure ()
    return 0
  | "check" :: sf :: tf :: rest => do
    let rec opt (k : String) : List String → Option String
      | a :: b :: r => if a == k then some b else opt k (b :: r)
      | _ => none
    let cfg : Cfg := {
      f := { v2 := rest.contains "v2", alt := rest.contains "alt" },
      props := ((opt "--props" rest).getD "").splitOn "," |>.filter (· ≠ ""),
      view := (opt "--view" rest).getD "raw" }
    let hs ← IO.FS.Handle.mk sf .read
    let ht ← IO.FS.Handle.mk tf .read
    let (n, d) ← loop hs ht cfg 0 0
    IO.println s!"SUMMARY scenarios={n} drift={d}"
    return 0
  | _ => do
    IO.eprintln "usage: epdmodel check <scenarios> <traces> [v2] [alt] | selftest"
    return 2
