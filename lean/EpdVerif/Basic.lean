/-!
# Basic helpers shared by the model, the oracles and the executable driver

Core Lean only (no Mathlib): everything here must link into the `epdmodel` executable.
-/

namespace EpdVerif

/-- low byte of a natural number (`as u8`) -/
@[inline] def u8 (n : Nat) : UInt8 := UInt8.ofNat (n % 256)

@[simp] theorem u8_toNat (n : Nat) : (u8 n).toNat = n % 256 := by
  simp [u8]

def hexDigit (n : Nat) : Char :=
  if n < 10 then Char.ofNat (48 + n) else Char.ofNat (87 + n)

def hexByte (b : UInt8) : String :=
  String.ofList [hexDigit (b.toNat / 16), hexDigit (b.toNat % 16)]

def hexOf (bs : List UInt8) : String :=
  String.ofList (bs.foldr (fun b acc => hexDigit (b.toNat / 16) :: hexDigit (b.toNat % 16) :: acc) [])

def hexVal (c : Char) : Option Nat :=
  if '0' ≤ c ∧ c ≤ '9' then some (c.toNat - 48)
  else if 'a' ≤ c ∧ c ≤ 'f' then some (c.toNat - 87)
  else if 'A' ≤ c ∧ c ≤ 'F' then some (c.toNat - 55)
  else none

/-- parse a hex string (even number of digits) into bytes -/
def parseHex (s : String) : Option (List UInt8) :=
  let rec go : List Char → List UInt8 → Option (List UInt8)
    | [], acc => some acc.reverse
    | [_], _ => none
    | a :: b :: rest, acc =>
      match hexVal a, hexVal b with
      | some x, some y => go rest (UInt8.ofNat (x * 16 + y) :: acc)
      | _, _ => none
  if s == "-" then some [] else go s.toList []

/-- FNV-1a 64 over bytes (used to print compact digests; cross-checked with the harness) -/
def fnv1a (bs : List UInt8) : UInt64 :=
  bs.foldl (fun h b => (h ^^^ b.toUInt64) * 0x100000001b3) 0xcbf29ce484222325

/-- xorshift64* step; the harness implements the identical function -/
def xorshift (s : UInt64) : UInt64 :=
  let s := s ^^^ (s >>> 12)
  let s := s ^^^ (s <<< 25)
  s ^^^ (s >>> 27)

def prngBytes (seed : UInt64) (n : Nat) : List UInt8 :=
  let rec go : Nat → UInt64 → List UInt8 → List UInt8
    | 0, _, acc => acc.reverse
    | k + 1, s, acc =>
      let s' := xorshift s
      let v := (s' * 0x2545F4914F6CDD1D) >>> 56
      go k s' (v.toUInt8 :: acc)
  go n (if seed == 0 then 0x9E3779B97F4A7C15 else seed) []

/-- position-coded byte: adjacent columns and rows differ -/
def posByte (i : Nat) : UInt8 := u8 (i * 167 + i / 251 + 13)

def posBytes (n : Nat) : List UInt8 := (List.range n).map posByte

/-! hashing helpers shared with the harness (FNV-style fold) -/
def H0 : UInt64 := 0xcbf29ce484222325
@[inline] def mix (h v : UInt64) : UInt64 := (h ^^^ v) * 0x100000001b3
def hex16 (h : UInt64) : String :=
  let s := String.ofList (Nat.toDigits 16 h.toNat)
  String.ofList (List.replicate (16 - s.length) '0') ++ s
def hexN (n width : Nat) : String :=
  let s := String.ofList (Nat.toDigits 16 n)
  String.ofList (List.replicate (width - s.length) '0') ++ s

def splitOn1 (s : String) (sep : String) : List String := s.splitOn sep

end EpdVerif
