import EpdVerif.Drivers.Dsl
import EpdVerif.Gen.Epd1in54
import EpdVerif.Gen.Type_a
/-! model of `src/epd1in54/mod.rs` -/
namespace EpdVerif.Drivers.Epd1in54
open EpdVerif
open EpdVerif.Gen.Epd1in54
open EpdVerif.Gen.Type_a

def W : Act := .wait IS_BUSY_LOW

def setRamArea (sx sy ex ey : Nat) : List Act :=
  [W] ++ assertA (sx < ex) ++ assertA (sy < ey) ++
  cmdData Command.SetRamXAddressStartEndPosition [shr8 sx 3, shr8 ex 3] ++
  cmdData Command.SetRamYAddressStartEndPosition [u8 sy, shr8 sy 8, u8 ey, shr8 ey 8]

def setRamCounter (x y : Nat) : List Act :=
  [W] ++ cmdData Command.SetRamXAddressCounter [shr8 x 3] ++
  cmdData Command.SetRamYAddressCounter [u8 y, shr8 y 8]

def useFullFrame : List Act := setRamArea 0 0 (WIDTH - 1) (HEIGHT - 1) ++ setRamCounter 0 0

def lutFull (f : Feat) : Bytes := if f.alt then LUT_FULL_UPDATE_alt else LUT_FULL_UPDATE_std

def setLutHelper (t : Bytes) : List Act :=
  [W] ++ assertA (t.length = 30) ++ cmdData Command.WriteLutRegister t

def setLut (f : Feat) (d : DState) (r : Option Refresh) : List Act :=
  (match r with | some m => [Act.upd (fun d => { d with refresh := m })] | none => []) ++
  (match r.getD d.refresh with
   | .full => setLutHelper (lutFull f)
   | .quick => setLutHelper LUT_PARTIAL_UPDATE)

def init (f : Feat) (d : DState) : List Act :=
  [.reset 10000 10000] ++
  cmdData Command.DriverOutputControl [u8 (HEIGHT - 1), shr8 (HEIGHT - 1) 8, 0x00] ++
  cmdData Command.BoosterSoftStartControl [0xD7, 0xD6, 0x9D] ++
  cmdData Command.WriteVcomRegister [0xA8] ++
  cmdData Command.SetDummyLinePeriod [0x1A] ++
  cmdData Command.SetGateLineWidth [0x08] ++
  cmdData Command.DataEntryModeSetting [0x03] ++
  setLut f d none ++ [W]

def updateFrame (b : Bytes) : List Act := [W] ++ useFullFrame ++ cmdData Command.WriteRam b

def displayFrame : List Act :=
  [W] ++ cmdData Command.DisplayUpdateControl2 [0xC4] ++ [.cmd Command.MasterActivation, .cmd Command.Nop]

def prog (f : Feat) (d : DState) : Op → Option (List Act)
  | .new => some (init f d)
  | .wake => some (init f d)
  | .sleep => some ([W] ++ cmdData Command.DeepSleepMode [0x00])
  | .upd b => some (updateFrame b)
  | .part b x y w h =>
    some ([W] ++ setRamArea x y (x + w) (y + h) ++ setRamCounter x y ++ cmdData Command.WriteRam b)
  | .disp => some displayFrame
  | .updisp b => some (updateFrame b ++ displayFrame)
  | .clear => some ([W] ++ useFullFrame ++ [.cmd Command.WriteRam, .rep (byteValue d.bg) (WIDTH / 8 * HEIGHT)])
  | .bg c => some [.upd (fun d => { d with bg := c })]
  | .lut r => some (setLut f d r)
  | .wait => some [W]
  | _ => none

def panel (f : Feat) : Panel :=
  { name := "epd1in54", width := WIDTH, height := HEIGHT, single := SINGLE_BYTE_WRITE,
    busyLow := IS_BUSY_LOW, family := .ssd, colors := 2,
    init := { bg := DEFAULT_BACKGROUND_COLOR, refresh := .full },
    prog := prog f,
    ctrl := .ssd (Ssd.por false 30 320) }

attribute [driver_simp] W setRamArea setRamCounter useFullFrame lutFull setLutHelper setLut init updateFrame displayFrame prog

end EpdVerif.Drivers.Epd1in54
