import EpdVerif.Drivers.Dsl
import EpdVerif.Gen.Epd7in3f
/-! model of `src/epd7in3f/mod.rs` -/
namespace EpdVerif.Drivers.Epd7in3f
open EpdVerif
open EpdVerif.Gen.Epd7in3f

/-- `self.wait_busy_low` = `interface.wait_until_idle(delay, true)` -/
def W : Act := .wait true

/-- `OctColor::colors_byte(a, b)` = `a.get_nibble() << 4 | b.get_nibble()` (u8) -/
def colorsByte (a b : Nat) : UInt8 := u8 ((a <<< 4) ||| b)

def init : List Act :=
  [.reset 20000 2000, W, .delayMs 30] ++
  cmdData Command.CMDH [0x49, 0x55, 0x20, 0x08, 0x09, 0x18] ++
  cmdData Command.Ox01 [0x3F, 0x00, 0x32, 0x2A, 0x0E, 0x2A] ++
  cmdData Command.Ox00 [0x5F, 0x69] ++
  cmdData Command.Ox03 [0x00, 0x54, 0x00, 0x44] ++
  cmdData Command.Ox05 [0x40, 0x1F, 0x1F, 0x2C] ++
  cmdData Command.Ox06 [0x6F, 0x1F, 0x1F, 0x22] ++
  cmdData Command.Ox08 [0x6F, 0x1F, 0x1F, 0x22] ++
  cmdData Command.IPC [0x00, 0x04] ++
  cmdData Command.Ox30 [0x3C] ++
  cmdData Command.TSE [0x00] ++
  cmdData Command.Ox50 [0x3F] ++
  cmdData Command.Ox60 [0x02, 0x00] ++
  cmdData Command.Ox61 [0x03, 0x20, 0x01, 0xE0] ++
  cmdData Command.Ox82 [0x1E] ++
  cmdData Command.Ox84 [0x00] ++
  cmdData Command.AGID [0x00] ++
  cmdData Command.OxE3 [0x2F] ++
  cmdData Command.CCSET [0x00] ++
  cmdData Command.TSSET [0x00]

def updateFrame (b : Bytes) : List Act := [W] ++ cmdData Command.DataStartTransmission b

def displayFrame : List Act :=
  [.cmd Command.PowerOn, W] ++
  cmdData Command.DataFresh [0x00] ++ [W] ++
  cmdData Command.PowerOff [0x00] ++ [W]

/-- the `color_7` array of `show_7block` (nibble values) -/
def color7 : List Nat := [0, 1, 2, 3, 4, 5, 6, 1]

/-- `for _ in 0..240 { for color in cs { for _ in 0..100 { data(&[colors_byte(c, c)]) } } }` -/
def blockRows (cs : List Nat) : List Act :=
  (List.replicate 240
    (cs.flatMap fun c => List.replicate 100 (Act.data [colorsByte c c]))).flatten

def show7block : List Act :=
  [.cmd Command.DataStartTransmission] ++
  blockRows (color7.take 4) ++
  blockRows (color7.drop 4) ++
  displayFrame

def prog (_f : Feat) (d : DState) : Op → Option (List Act)
  | .new => some init
  | .wake => some init
  | .sleep => some (cmdData Command.DeepSleep [0xA5])
  | .upd b => some (updateFrame b)
  | .part _ _ _ _ _ => some [.panic]
  | .disp => some displayFrame
  | .updisp b => some (updateFrame b ++ displayFrame)
  | .clear =>
    some ([W, .cmd Command.DataStartTransmission,
           .rep (colorsByte d.bg d.bg) (WIDTH * HEIGHT / 2)] ++ displayFrame)
  | .bg c => some [.upd (fun d => { d with bg := c })]
  | .lut _ => some [.panic]
  | .wait => some [W]
  | .sevenBlock => some show7block
  | _ => none

def panel (f : Feat) : Panel :=
  { name := "epd7in3f", width := WIDTH, height := HEIGHT, single := SINGLE_BYTE_WRITE,
    busyLow := true, family := .acep, colors := 8,
    init := { bg := DEFAULT_BACKGROUND_COLOR },
    prog := prog f,
    ctrl := .uc (Uc.por WIDTH HEIGHT 4 9 false) }

attribute [driver_simp] W colorsByte updateFrame displayFrame color7 prog

end EpdVerif.Drivers.Epd7in3f
