import EpdVerif.Drivers.Dsl
import EpdVerif.Gen.Epd7in3f
/-! model of `src/epd7in3f/mod.rs` (STUB: programs not yet transcribed) -/
namespace EpdVerif.Drivers.Epd7in3f
open EpdVerif
open EpdVerif.Gen.Epd7in3f

def prog (_f : Feat) (_d : DState) : Op → Option (List Act)
  | _ => none

def panel (f : Feat) : Panel :=
  { name := "epd7in3f", width := WIDTH, height := HEIGHT, single := SINGLE_BYTE_WRITE,
    busyLow := true, family := .acep, colors := 8,
    init := { bg := DEFAULT_BACKGROUND_COLOR },
    prog := prog f,
    ctrl := .uc (Uc.por WIDTH HEIGHT 4 9 false) }

end EpdVerif.Drivers.Epd7in3f
