import EpdVerif.Drivers.Dsl
import EpdVerif.Gen.Epd2in7_v2
import EpdVerif.Gen.Type_a
/-! model of `src/epd2in7_v2/mod.rs` -/
namespace EpdVerif.Drivers.Epd2in7_v2
open EpdVerif
open EpdVerif.Gen.Epd2in7_v2
open EpdVerif.Gen.Type_a

def W : Act := .wait IS_BUSY_LOW

/-- `set_ram_area`: asserts only, no wait; Y bytes are masked (`& 0xFF`, `(>> 8) & 0x01`) -/
def setRamArea (sx sy ex ey : Nat) : List Act :=
  assertA (sx < ex) ++ assertA (sy < ey) ++
  cmdData Command.SetRamXAddressStartEndPosition [shr8 sx 3, shr8 ex 3] ++
  cmdData Command.SetRamYAddressStartEndPosition
    [u8 (sy &&& 0xFF), u8 ((sy >>> 8) &&& 0x01), u8 (ey &&& 0xFF), u8 ((ey >>> 8) &&& 0x01)]

/-- `set_ram_counter`: the X counter is `(x & 0xFF) as u8` (no `>> 3` in this driver) -/
def setRamCounter (x y : Nat) : List Act :=
  [W] ++ cmdData Command.SetRamXAddressCounter [u8 (x &&& 0xFF)] ++
  cmdData Command.SetRamYAddressCounter [u8 (y &&& 0xFF), u8 ((y >>> 8) &&& 0x01)]

def useFullFrame : List Act := setRamArea 0 0 (WIDTH - 1) (HEIGHT - 1) ++ setRamCounter 0 0

def init : List Act :=
  [.reset 200000 2000, W, .cmd Command.SwReset, W] ++
  useFullFrame ++
  cmdData Command.DataEntryModeSetting [0x03]

def updateFrame (b : Bytes) : List Act := [W] ++ useFullFrame ++ cmdData Command.WriteRam b

def displayFrame (d : DState) : List Act :=
  [W] ++
  (match d.refresh with
   | .full => cmdData Command.DisplayUpdateControl2 [0xF7]
   | .quick => cmdData Command.DisplayUpdateControl2 [0xC7]) ++
  [.cmd Command.MasterActivation, W]

def prog (_f : Feat) (d : DState) : Op → Option (List Act)
  | .new => some init
  | .wake => some init
  | .sleep => some ([W] ++ cmdData Command.DeepSleepMode [0x01])
  | .upd b => some (updateFrame b)
  | .part b x y w h =>
    some ([W] ++ setRamArea x y (x + w) (y + h) ++ setRamCounter x y ++ cmdData Command.WriteRam b)
  | .disp => some (displayFrame d)
  | .updisp b => some (updateFrame b ++ displayFrame d)
  | .clear =>
    some ([W] ++ useFullFrame ++ [.cmd Command.WriteRam, .rep (byteValue d.bg) (WIDTH / 8 * HEIGHT)])
  | .bg c => some [.upd (fun d => { d with bg := c })]
  | .lut r =>
    some (match r with | some m => [Act.upd (fun d => { d with refresh := m })] | none => [])
  | .wait => some [W]
  | _ => none

def panel (f : Feat) : Panel :=
  { name := "epd2in7_v2", width := WIDTH, height := HEIGHT, single := SINGLE_BYTE_WRITE,
    busyLow := IS_BUSY_LOW, family := .ssd, colors := 2,
    init := { bg := DEFAULT_BACKGROUND_COLOR, refresh := .full },
    prog := prog f,
    ctrl := .ssd (Ssd.por false 22 296) }

attribute [driver_simp] W setRamArea setRamCounter useFullFrame init updateFrame displayFrame prog

end EpdVerif.Drivers.Epd2in7_v2
