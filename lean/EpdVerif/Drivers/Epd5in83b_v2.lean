import EpdVerif.Drivers.Dsl
import EpdVerif.Gen.Epd5in83b_v2
/-! model of `src/epd5in83b_v2/mod.rs` -/
namespace EpdVerif.Drivers.Epd5in83b_v2
open EpdVerif
open EpdVerif.Gen.Epd5in83b_v2

def W : Act := .wait IS_BUSY_LOW

def sendResolution : List Act :=
  [.cmd Command.TconResolution, .data [shr8 WIDTH 8], .data [u8 WIDTH],
   .data [shr8 HEIGHT 8], .data [u8 HEIGHT]]

def init : List Act :=
  [.reset 10000 10000] ++
  cmdData Command.BoosterSoftStart [0x17, 0x17, 0x1e, 0x17] ++
  cmdData Command.PowerSetting [0x07, 0x07, 0x3F, 0x3F] ++
  [.cmd Command.PowerOn, .delayUs 5000, W] ++
  cmdData Command.PanelSetting [0x0F] ++
  sendResolution ++
  cmdData Command.DualSPI [0x00] ++
  cmdData Command.VcomAndDataIntervalSetting [0x11, 0x07] ++
  cmdData Command.TconSetting [0x22] ++
  [W]

def updateAchromatic (b : Bytes) : List Act := [W] ++ cmdData Command.DataStartTransmission1 b
def updateChromatic (c : Bytes) : List Act := [W] ++ cmdData Command.DataStartTransmission2 c

def updateFrame (d : DState) (b : Bytes) : List Act :=
  [W] ++ updateAchromatic b ++
  [.cmd Command.DataStartTransmission2, .rep (byteValue d.bg) NUM_DISPLAY_BITS]

def displayFrame : List Act := [.cmd Command.DisplayRefresh, W]

/-- `update_partial_frame`: the window bytes with the Rust's casts (`as` binds tighter than
    `>>` and `&`, so the `u8` truncation happens before the shift / mask) -/
def updatePartial (b : Bytes) (x y w h : Nat) : List Act :=
  let hrstUpper : UInt8 := u8 (x / 8) >>> 6
  let hrstLower : UInt8 := u8 ((x / 8) <<< 3)
  let hredUpper : UInt8 := u8 ((x + w) / 8) >>> 6
  let hredLower : UInt8 := u8 (((x + w) / 8) <<< 3) &&& 0b111
  let vrstUpper : UInt8 := shr8 y 8
  let vrstLower : UInt8 := u8 y
  let vredUpper : UInt8 := shr8 (y + h) 8
  let vredLower : UInt8 := u8 (y + h)
  let ptScan : UInt8 := 0x01
  [W, .cmd Command.PartialIn, .cmd Command.PartialWindow,
   .data [hrstUpper, hrstLower, hredUpper, hredLower, vrstUpper, vrstLower, vredUpper,
          vredLower, ptScan],
   .cmd Command.DataStartTransmission1, .data b,
   .cmd Command.DataStartTransmission2, .rep 0x00 (w * h / 8),
   .cmd Command.DisplayRefresh, W,
   .cmd Command.PartialOut]

def prog (_f : Feat) (d : DState) : Op → Option (List Act)
  | .new => some init
  | .wake => some init
  | .sleep => some ([W, .cmd Command.PowerOff, W] ++ cmdData Command.DeepSleep [0xA5])
  | .upd b => some (updateFrame d b)
  | .part b x y w h => some (updatePartial b x y w h)
  | .disp => some displayFrame
  | .updisp b => some (updateFrame d b ++ displayFrame)
  | .clear =>
    some [W, .cmd Command.DataStartTransmission1, .rep 0xFF NUM_DISPLAY_BITS,
          .cmd Command.DataStartTransmission2, .rep 0x00 NUM_DISPLAY_BITS]
  | .bg c => some [.upd (fun d => { d with bg := c })]
  | .lut _ => some [.panic]
  | .wait => some [W]
  | .color b c => some (updateAchromatic b ++ updateChromatic c)
  | .achro b => some (updateAchromatic b)
  | .chro c => some (updateChromatic c)
  | _ => none

def panel (f : Feat) : Panel :=
  { name := "epd5in83b_v2", width := WIDTH, height := HEIGHT, single := SINGLE_BYTE_WRITE,
    busyLow := IS_BUSY_LOW, family := .uc, colors := 2,
    init := { bg := DEFAULT_BACKGROUND_COLOR },
    prog := prog f,
    ctrl := .uc (Uc.por WIDTH HEIGHT 1 9 false) }

attribute [driver_simp] W sendResolution init updateAchromatic updateChromatic updateFrame displayFrame updatePartial prog

end EpdVerif.Drivers.Epd5in83b_v2
