import EpdVerif.Drivers.Dsl
import EpdVerif.Gen.Epd7in5_v2
/-! model of `src/epd7in5_v2/mod.rs` (STUB: programs not yet transcribed) -/
namespace EpdVerif.Drivers.Epd7in5_v2
open EpdVerif
open EpdVerif.Gen.Epd7in5_v2

def prog (_f : Feat) (_d : DState) : Op → Option (List Act)
  | _ => none

def panel (f : Feat) : Panel :=
  { name := "epd7in5_v2", width := WIDTH, height := HEIGHT, single := SINGLE_BYTE_WRITE,
    busyLow := IS_BUSY_LOW, family := .uc, colors := 2,
    init := { bg := DEFAULT_BACKGROUND_COLOR },
    prog := prog f,
    ctrl := .uc (Uc.por WIDTH HEIGHT 1 9 false) }

end EpdVerif.Drivers.Epd7in5_v2
