import EpdVerif.Drivers.Dsl
import EpdVerif.Gen.Epd7in5_v2
/-! model of `src/epd7in5_v2/mod.rs` -/
namespace EpdVerif.Drivers.Epd7in5_v2
open EpdVerif
open EpdVerif.Gen.Epd7in5_v2

/-- `wait_until_idle` = `interface.wait_until_idle_with_cmd(.., IS_BUSY_LOW, GetStatus)` -/
def W : Act := .waitCmd IS_BUSY_LOW Command.GetStatus

def sendResolution : List Act :=
  [.cmd Command.TconResolution, .data [shr8 WIDTH 8], .data [u8 WIDTH],
   .data [shr8 HEIGHT 8], .data [u8 HEIGHT]]

def init : List Act :=
  [.reset 10000 2000] ++
  cmdData Command.PowerSetting [0x07, 0x07, 0x3f, 0x3f] ++
  cmdData Command.BoosterSoftStart [0x17, 0x17, 0x28, 0x17] ++
  [.cmd Command.PowerOn, .delayMs 100, W] ++
  cmdData Command.PanelSetting [0x1F] ++
  cmdData Command.TconResolution [0x03, 0x20, 0x01, 0xE0] ++
  cmdData Command.DualSpi [0x00] ++
  cmdData Command.VcomAndDataIntervalSetting [0x10, 0x07] ++
  cmdData Command.TconSetting [0x22]

def updateFrame (b : Bytes) : List Act := [W] ++ cmdData Command.DataStartTransmission2 b

def prog (_f : Feat) (_d : DState) : Op → Option (List Act)
  | .new => some init
  | .wake => some init
  | .sleep => some ([W, .cmd Command.PowerOff, W] ++ cmdData Command.DeepSleep [0xA5])
  | .upd b => some (updateFrame b)
  | .part _ _ _ _ _ => some [.panic]
  | .disp => some [W, .cmd Command.DisplayRefresh]
  | .updisp b => some (updateFrame b ++ [.cmd Command.DisplayRefresh])
  | .clear =>
    some ([W] ++ sendResolution ++
      [.cmd Command.DataStartTransmission1, .rep 0x00 (WIDTH / 8 * HEIGHT),
       .cmd Command.DataStartTransmission2, .rep 0x00 (WIDTH / 8 * HEIGHT),
       .cmd Command.DisplayRefresh])
  | .bg c => some [.upd (fun d => { d with bg := c })]
  | .lut _ => some [.panic]
  | .wait => some [W]
  | _ => none

def panel (f : Feat) : Panel :=
  { name := "epd7in5_v2", width := WIDTH, height := HEIGHT, single := SINGLE_BYTE_WRITE,
    busyLow := IS_BUSY_LOW, family := .uc, colors := 2,
    init := { bg := DEFAULT_BACKGROUND_COLOR },
    prog := prog f,
    ctrl := .uc (Uc.por WIDTH HEIGHT 1 9 false) }

attribute [driver_simp] W sendResolution init updateFrame prog

end EpdVerif.Drivers.Epd7in5_v2
