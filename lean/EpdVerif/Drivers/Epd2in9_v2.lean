import EpdVerif.Drivers.Dsl
import EpdVerif.Gen.Epd2in9_v2
import EpdVerif.Gen.Type_a
/-! model of `src/epd2in9_v2/mod.rs` -/
namespace EpdVerif.Drivers.Epd2in9_v2
open EpdVerif
open EpdVerif.Gen.Epd2in9_v2
open EpdVerif.Gen.Type_a

def W : Act := .wait IS_BUSY_LOW

/-- `&t[a..b]` (constant tables only, always in range) -/
def slice (t : Bytes) (a b : Nat) : Bytes := (t.drop a).take (b - a)

/-- `set_ram_area`: asserts only, no wait -/
def setRamArea (sx sy ex ey : Nat) : List Act :=
  assertA (sx < ex) ++ assertA (sy < ey) ++
  cmdData Command.SetRamXAddressStartEndPosition [shr8 sx 3, shr8 ex 3] ++
  cmdData Command.SetRamYAddressStartEndPosition [u8 sy, shr8 sy 8, u8 ey, shr8 ey 8]

/-- `set_ram_counter`: the X counter is sent as `x as u8` (no `>> 3` in this driver) -/
def setRamCounter (x y : Nat) : List Act :=
  [W] ++ cmdData Command.SetRamXAddressCounter [u8 x] ++
  cmdData Command.SetRamYAddressCounter [u8 y, shr8 y 8]

def useFullFrame : List Act := setRamArea 0 0 (WIDTH - 1) (HEIGHT - 1) ++ setRamCounter 0 0

def setLutHelper (t : Bytes) : List Act :=
  [W] ++ cmdData Command.WriteLutRegister t ++ [W]

def init : List Act :=
  [.reset 10000 2000, W, .cmd Command.SwReset, W] ++
  cmdData Command.DriverOutputControl [0x27, 0x01, 0x00] ++
  cmdData Command.DataEntryModeSetting [0x03] ++
  setRamArea 0 0 (WIDTH - 1) (HEIGHT - 1) ++
  cmdData Command.DisplayUpdateControl1 [0x00, 0x80] ++
  setRamCounter 0 0 ++
  [W] ++
  setLutHelper (slice WS_20_30 0 153) ++
  cmdData Command.WriteLutRegisterEnd (slice WS_20_30 153 154) ++
  cmdData Command.GateDrivingVoltage (slice WS_20_30 154 155) ++
  cmdData Command.SourceDrivingVoltage (slice WS_20_30 155 158) ++
  cmdData Command.WriteVcomRegister (slice WS_20_30 158 159)

def updateFrame (b : Bytes) : List Act := [W] ++ cmdData Command.WriteRam b

def displayFrame : List Act :=
  [W] ++ cmdData Command.DisplayUpdateControl2 [0xC7] ++ [.cmd Command.MasterActivation, W]

def updateNewFrame (b : Bytes) : List Act :=
  [W, .reset 10000 2000] ++
  setLutHelper LUT_PARTIAL_2IN9 ++
  cmdData Command.WriteOtpSelection [0x00, 0x00, 0x00, 0x00, 0x00, 0x40, 0x00, 0x00, 0x00, 0x00] ++
  cmdData Command.BorderWaveformControl [0x80] ++
  cmdData Command.DisplayUpdateControl2 [0xC0] ++
  [.cmd Command.MasterActivation, W] ++
  useFullFrame ++
  cmdData Command.WriteRam b

def displayNewFrame : List Act :=
  [W] ++ cmdData Command.DisplayUpdateControl2 [0x0F] ++ [.cmd Command.MasterActivation, W]

def prog (_f : Feat) (d : DState) : Op → Option (List Act)
  | .new => some init
  | .wake => some init
  | .sleep => some ([W] ++ cmdData Command.DeepSleepMode [0x01])
  | .upd b => some (updateFrame b)
  | .part b x y w h =>
    some ([W] ++ setRamArea x y (x + w) (y + h) ++ setRamCounter x y ++ cmdData Command.WriteRam b)
  | .disp => some displayFrame
  | .updisp b => some (updateFrame b ++ displayFrame)
  | .clear =>
    some ([W, .cmd Command.WriteRam, .rep (byteValue d.bg) (WIDTH / 8 * HEIGHT),
           .cmd Command.WriteRam2, .rep (byteValue d.bg) (WIDTH / 8 * HEIGHT)])
  | .bg c => some [.upd (fun d => { d with bg := c })]
  | .lut r =>
    some (match r with | some m => [Act.upd (fun d => { d with refresh := m })] | none => [])
  | .wait => some [W]
  -- QuickRefresh
  | .old b => some ([W] ++ cmdData Command.WriteRam b ++ cmdData Command.WriteRam2 b)
  | .newf b => some (updateNewFrame b)
  | .dispnew => some displayNewFrame
  | .updispnew b => some (updateNewFrame b ++ displayNewFrame)
  | .pold _ _ _ _ _ => some [.panic]
  | .pnew _ _ _ _ _ => some [.panic]
  | .pclear _ _ _ _ => some [.panic]
  | _ => none

def panel (f : Feat) : Panel :=
  { name := "epd2in9_v2", width := WIDTH, height := HEIGHT, single := SINGLE_BYTE_WRITE,
    busyLow := IS_BUSY_LOW, family := .ssd, colors := 2,
    init := { bg := DEFAULT_BACKGROUND_COLOR, refresh := .full },
    prog := prog f,
    ctrl := .ssd (Ssd.por false 22 296) }

attribute [driver_simp] W slice setRamArea setRamCounter useFullFrame setLutHelper init updateFrame displayFrame updateNewFrame displayNewFrame prog

end EpdVerif.Drivers.Epd2in9_v2
