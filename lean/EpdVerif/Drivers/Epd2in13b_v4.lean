import EpdVerif.Drivers.Dsl
import EpdVerif.Gen.Epd2in13b_v4
/-! model of `src/epd2in13b_v4/mod.rs` (and the byte builders of its `command.rs`) -/
namespace EpdVerif.Drivers.Epd2in13b_v4
open EpdVerif
open EpdVerif.Gen.Epd2in13b_v4

def W : Act := .wait IS_BUSY_LOW

/-! ## `command.rs` helpers -/

/-- `BitField::set_bit` on a `u8` -/
def setBit (v i : Nat) (b : Bool) : Nat :=
  (v &&& (0xFF ^^^ (1 <<< i))) ||| (if b then 1 <<< i else 0)

/-- `BitField::set_bits(lo..hi, x)` on a `u8` -/
def setBits (v lo hi x : Nat) : Nat :=
  (v &&& (0xFF ^^^ (((1 <<< (hi - lo)) - 1) <<< lo))) ||| (x <<< lo)

/-- `DriverOutput::to_bytes` -/
def driverOutputBytes (scanIsLinear scanG0IsFirst scanDirIncr : Bool) (width : Nat) : Bytes :=
  [u8 width, shr8 width 8,
   u8 (setBit (setBit (setBit 0 0 (!scanDirIncr)) 1 (!scanG0IsFirst)) 2 (!scanIsLinear))]

/-- `BorderWaveForm::to_u8` -/
def borderWaveForm (vbd fixLevel gsTrans : UInt8) : UInt8 :=
  u8 (setBits (setBits (setBits 0 6 8 vbd.toNat) 4 6 fixLevel.toNat) 0 2 gsTrans.toNat)

/-- `DisplayUpdateControl::to_bytes` -/
def displayUpdateControlBytes (redRamOption bwRamOption : UInt8) (sourceOutputMode : Bool) : Bytes :=
  [(redRamOption <<< 4) ||| bwRamOption, if sourceOutputMode then 128 else 0]

/-! ## private methods of the driver -/

/-- `set_ram_area`: no wait, no asserts -/
def setRamArea (sx sy ex ey : Nat) : List Act :=
  cmdData Command.SetRamXAddressStartEndPosition [shr8 sx 3, shr8 ex 3] ++
  cmdData Command.SetRamYAddressStartEndPosition [u8 sy, shr8 sy 8, u8 ey, shr8 ey 8]

def setRamAddressCounters (x y : Nat) : List Act :=
  [W] ++ cmdData Command.SetRamXAddressCounter [shr8 x 3] ++
  cmdData Command.SetRamYAddressCounter [u8 y, shr8 y 8]

/-- `buffer_len(WIDTH, HEIGHT)` -/
def bufferLen : Nat := (WIDTH + 7) / 8 * HEIGHT

def init : List Act :=
  [.reset 10000 10000, W, .cmd Command.SwReset, W] ++
  cmdData Command.DriverOutputControl (driverOutputBytes true true true ((HEIGHT - 1) % 65536)) ++
  cmdData Command.DataEntryModeSetting [DataEntryModeIncr.XIncrYIncr ||| DataEntryModeDir.XDir] ++
  setRamArea 0 0 (WIDTH - 1) (HEIGHT - 1) ++
  setRamAddressCounters 0 0 ++
  cmdData Command.BorderWaveformControl
    [borderWaveForm BorderWaveFormVbd.Gs BorderWaveFormFixLevel.Vss BorderWaveFormGs.Lut3] ++
  cmdData Command.WriteVcomRegister [0x36] ++
  cmdData Command.GateDrivingVoltageCtrl [0x17] ++
  cmdData Command.SourceDrivingVoltageCtrl [0x41, 0x00, 0x32] ++
  cmdData Command.DisplayUpdateControl1
    (displayUpdateControlBytes RamOption.Normal RamOption.Normal true) ++
  [W]

def updateFrame (b : Bytes) : List Act :=
  assertA (b.length = bufferLen) ++ cmdData Command.WriteRam b ++
  [.cmd Command.WriteRamRed, .rep (byteValue 0) bufferLen]   -- TriColor::Black.get_byte_value()

def displayFrame : List Act := [.cmd Command.MasterActivation, W]

/-- `clear_achromatic_frame`: White 0xFF, Chromatic 0xFF, Black 0x00 -/
def clearAchromatic (bg : Nat) : List Act :=
  [.cmd Command.WriteRam, .rep (if bg = 0 then 0x00 else 0xFF) bufferLen]

/-- `clear_chromatic_frame`: White 0x00, Chromatic 0xFF, Black 0x00 — sent with `WriteRamRed` since fix 97421a1 (was `WriteRam`)
    (not `WriteRamRed`), as the Rust does -/
def clearChromatic (bg : Nat) : List Act :=
  [.cmd Command.WriteRamRed, .rep (if bg = 2 then 0xFF else 0x00) bufferLen]   -- (fix 97421a1)

def achro (b : Bytes) : List Act := [.cmd Command.WriteRam, .data b]
def chro (c : Bytes) : List Act := [.cmd Command.WriteRamRed, .data c]

def prog (_f : Feat) (d : DState) : Op → Option (List Act)
  | .new => some init
  | .wake => some init
  | .sleep => some (cmdData Command.DeepSleepMode [DeepSleepMode.Normal])
  | .upd b => some (updateFrame b)
  | .part _ _ _ _ _ => some [.panic]
  | .disp => some displayFrame
  | .updisp b => some (updateFrame b ++ displayFrame)
  | .clear => some (clearAchromatic d.bg ++ clearChromatic d.bg)
  | .bg c => some [.upd (fun d => { d with bg := c })]
  | .lut _ => some [.panic]
  | .wait => some [W]
  -- WaveshareThreeColorDisplay
  | .color b c => some (achro b ++ chro c)
  | .achro b => some (achro b)
  | .chro c => some (chro c)
  | _ => none

def panel (f : Feat) : Panel :=
  { name := "epd2in13b_v4", width := WIDTH, height := HEIGHT, single := SINGLE_BYTE_WRITE,
    busyLow := IS_BUSY_LOW, family := .ssd, colors := 3,
    init := { bg := DEFAULT_BACKGROUND_COLOR },
    prog := prog f,
    ctrl := .ssd (Ssd.por false 22 296) }

attribute [driver_simp] W setBit setBits driverOutputBytes borderWaveForm displayUpdateControlBytes setRamArea setRamAddressCounters bufferLen init updateFrame displayFrame clearAchromatic clearChromatic achro chro prog

end EpdVerif.Drivers.Epd2in13b_v4
