import EpdVerif.Drivers.Dsl
import EpdVerif.Gen.Epd2in9b_v4
/-! model of `src/epd2in9b_v4/mod.rs` -/
namespace EpdVerif.Drivers.Epd2in9b_v4
open EpdVerif
open EpdVerif.Gen.Epd2in9b_v4

def W : Act := .wait IS_BUSY_LOW

/-- `DisplayMode` data byte of `turn_on_display` -/
inductive Mode | dflt | part | fast | base

def Mode.byte : Mode → UInt8
  | .dflt => 0xf7 | .part => 0x1c | .fast => 0xc7 | .base => 0xf4

def turnOnDisplay (m : Mode) : List Act :=
  [.cmd Command.TurnOnDisplay, .data [m.byte], .cmd Command.ActivateDisplayUpdateSequence, W]

def init : List Act :=
  let w := WIDTH
  let h := HEIGHT
  [.reset 200000 2000, W, .cmd Command.SwReset, W,
   .cmd Command.DriverOutputControl,
   .data [u8 ((h - 1) % 256)], .data [u8 ((h - 1) / 256)], .data [0],
   .cmd Command.DataEntryMode, .data [0x03],
   .cmd Command.RamXPosition, .data [0], .data [u8 (w / 8 - 1)],
   .cmd Command.RamYPosition, .data [0], .data [0],
   .data [u8 ((h - 1) % 256)], .data [u8 ((h - 1) / 256)],
   .cmd Command.BorderWavefrom, .data [0x05],
   .cmd Command.DisplayUpdateControl, .data [0x00], .data [0x80],
   .cmd Command.ReadBuiltInTemperatureSensor, .data [0x80],
   .cmd Command.RamXAddressCount, .data [0x00],
   .cmd Command.RamYAddressCount, .data [0x00], .data [0x00],
   W]

def updateAchromatic (b : Bytes) : List Act := [.cmd Command.WriteBlackData, .data b]

def updateChromatic (c : Bytes) : List Act := [.cmd Command.WriteRedData, .data c]

def updateFrame (b : Bytes) : List Act :=
  [.cmd Command.WriteBlackData, .data b, .cmd Command.WriteRedData, .rep 0x00 (WIDTH / 8 * HEIGHT)]

def displayFrame : List Act := turnOnDisplay .dflt

def updatePartialFrame (b : Bytes) (x y width height : Nat) : List Act :=
  let xs0 := x
  let xe0 := x + width
  let ys := y
  let ye0 := y + height
  let first : Bool :=
    (xs0 % 8 + xe0 % 8 == 8 && xs0 % 8 > xe0 % 8) || xs0 % 8 + xe0 % 8 == 0 ||
      (xe0 - xs0) % 8 == 0
  let xs1 := xs0 / 8
  let xe1 := if first then xe0 / 8 else (if xe0 % 8 == 0 then xe0 / 8 else xe0 / 8 + 1)
  let xe := xe1 - 1
  let ye := ye0 - 1
  let xStart := u8 xs1
  let xEnd := u8 xe
  assertA (width % 8 == 0) ++
  assertA (xe1 ≥ 1) ++ assertA (ye0 ≥ 1) ++
  [.cmd Command.RamXPosition, .data [xStart, xEnd],
   .cmd Command.RamYPosition, .data [u8 ys, shr8 ys 8], .data [u8 ye, shr8 ye 8],
   .cmd Command.RamXAddressCount, .data [xStart],
   .cmd Command.RamYAddressCount, .data [u8 ys, shr8 ys 8],
   .cmd Command.WriteBlackData, .data b]

def clearFrame : List Act :=
  let size := WIDTH / 8 * HEIGHT
  [.cmd Command.WriteBlackData, .rep 0xff size, .cmd Command.WriteRedData, .rep 0 size] ++
  displayFrame

def prog (_f : Feat) (_d : DState) : Op → Option (List Act)
  | .new => some init
  | .wake => some init
  | .sleep => some [.cmd Command.DeepSleep, .data [1], .delayMs 100]
  | .upd b => some (updateFrame b)
  | .part b x y w h => some (updatePartialFrame b x y w h)
  | .disp => some displayFrame
  | .updisp b => some (updateFrame b ++ displayFrame)
  | .clear => some clearFrame
  | .bg c => some [.upd (fun d => { d with bg := c })]
  | .lut _ => some []
  | .wait => some [W]
  | .color b c => some (updateAchromatic b ++ updateChromatic c)
  | .achro b => some (updateAchromatic b)
  | .chro c => some (updateChromatic c)
  | .basedisp b c =>
    some (updateFrame b ++ (match c with | some c => updateChromatic c | none => []) ++
      turnOnDisplay .base ++ [.cmd Command.WriteRedData, .data b])
  | .disppart => some (turnOnDisplay .part)
  | _ => none

def panel (f : Feat) : Panel :=
  { name := "epd2in9b_v4", width := WIDTH, height := HEIGHT, single := SINGLE_BYTE_WRITE,
    busyLow := IS_BUSY_LOW, family := .ssd, colors := 3,
    init := { bg := DEFAULT_BACKGROUND_COLOR },
    prog := prog f,
    ctrl := .ssd (Ssd.por false 22 296) }

attribute [driver_simp] W Mode.byte turnOnDisplay init updateAchromatic updateChromatic updateFrame displayFrame updatePartialFrame clearFrame prog

end EpdVerif.Drivers.Epd2in9b_v4
