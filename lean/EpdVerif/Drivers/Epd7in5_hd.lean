import EpdVerif.Drivers.Dsl
import EpdVerif.Gen.Epd7in5_hd
/-! model of `src/epd7in5_hd/mod.rs` (STUB: programs not yet transcribed) -/
namespace EpdVerif.Drivers.Epd7in5_hd
open EpdVerif
open EpdVerif.Gen.Epd7in5_hd

def prog (_f : Feat) (_d : DState) : Op → Option (List Act)
  | _ => none

def panel (f : Feat) : Panel :=
  { name := "epd7in5_hd", width := WIDTH, height := HEIGHT, single := SINGLE_BYTE_WRITE,
    busyLow := IS_BUSY_LOW, family := .ssd, colors := 2,
    init := { bg := DEFAULT_BACKGROUND_COLOR },
    prog := prog f,
    ctrl := .ssd (Ssd.por true 120 688) }

end EpdVerif.Drivers.Epd7in5_hd
