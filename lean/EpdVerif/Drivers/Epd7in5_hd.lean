import EpdVerif.Drivers.Dsl
import EpdVerif.Gen.Epd7in5_hd
/-! model of `src/epd7in5_hd/mod.rs` -/
namespace EpdVerif.Drivers.Epd7in5_hd
open EpdVerif
open EpdVerif.Gen.Epd7in5_hd

def W : Act := .wait IS_BUSY_LOW

def init : List Act :=
  [.reset 10000 2000, W, .cmd Command.SwReset, W] ++
  cmdData Command.AutoWriteRed [0xF7] ++ [W] ++
  cmdData Command.AutoWriteBw [0xF7] ++ [W] ++
  cmdData Command.SoftStart [0xAE, 0xC7, 0xC3, 0xC0, 0x40] ++
  cmdData Command.DriverOutputControl [0xAF, 0x02, 0x01] ++
  cmdData Command.DataEntry [0x01] ++
  cmdData Command.SetRamXStartEnd [0x00, 0x00, 0x6F, 0x03] ++
  cmdData Command.SetRamYStartEnd [0xAF, 0x02, 0x00, 0x00] ++
  cmdData Command.VbdControl [0x05] ++
  cmdData Command.TemperatureSensorControl [0x80] ++
  cmdData Command.DisplayUpdateControl2 [0xB1] ++
  [.cmd Command.MasterActivation, W] ++
  cmdData Command.SetRamXAc [0x00, 0x00] ++
  cmdData Command.SetRamYAc [0x00, 0x00]

def updateFrame (b : Bytes) : List Act :=
  [W] ++ cmdData Command.SetRamYAc [0x00, 0x00] ++ cmdData Command.WriteRamBw b ++
  cmdData Command.DisplayUpdateControl2 [0xF7]

def displayFrame : List Act := [.cmd Command.MasterActivation, W]

def clearFrame (d : DState) : List Act :=
  let pixelCount := WIDTH / 8 * HEIGHT
  let v := byteValue d.bg
  [W] ++ cmdData Command.SetRamYAc [0x00, 0x00] ++
  [.cmd Command.WriteRamBw, .rep v pixelCount, .cmd Command.WriteRamRed, .rep v pixelCount] ++
  cmdData Command.DisplayUpdateControl2 [0xF7] ++
  [.cmd Command.MasterActivation, W]

def prog (_f : Feat) (d : DState) : Op → Option (List Act)
  | .new => some init
  | .wake => some init
  | .sleep => some ([W] ++ cmdData Command.DeepSleep [0x01])
  | .upd b => some (updateFrame b)
  | .part _ _ _ _ _ => some [.panic]
  | .disp => some displayFrame
  | .updisp b => some (updateFrame b ++ displayFrame)
  | .clear => some (clearFrame d)
  | .bg c => some [.upd (fun d => { d with bg := c })]
  | .lut _ => some [.panic]
  | .wait => some [W]
  | _ => none

def panel (f : Feat) : Panel :=
  { name := "epd7in5_hd", width := WIDTH, height := HEIGHT, single := SINGLE_BYTE_WRITE,
    busyLow := IS_BUSY_LOW, family := .ssd, colors := 2,
    init := { bg := DEFAULT_BACKGROUND_COLOR },
    prog := prog f,
    ctrl := .ssd (Ssd.por true 120 688) }

attribute [driver_simp] W init updateFrame displayFrame clearFrame prog

end EpdVerif.Drivers.Epd7in5_hd
