import EpdVerif.Drivers.Dsl
import EpdVerif.Gen.Epd2in7b
/-! model of `src/epd2in7b/mod.rs` -/
namespace EpdVerif.Drivers.Epd2in7b
open EpdVerif
open EpdVerif.Gen.Epd2in7b

def W : Act := .wait IS_BUSY_LOW

def setLut : List Act :=
  [W] ++
  cmdData Command.LutForVcom LUT_VCOM_DC ++
  cmdData Command.LutWhiteToWhite LUT_WW ++
  cmdData Command.LutBlackToWhite LUT_BW ++
  cmdData Command.LutWhiteToBlack LUT_WB ++
  cmdData Command.LutBlackToBlack LUT_BB

def init : List Act :=
  [.reset 10000 2000] ++
  [.cmd Command.PowerOn, .delayUs 5000, W] ++
  cmdData Command.PanelSetting [0xaf] ++
  cmdData Command.PllControl [0x3a] ++
  cmdData Command.PowerSetting [0x03, 0x00, 0x2b, 0x2b, 0x09] ++
  cmdData Command.BoosterSoftStart [0x07, 0x07, 0x17] ++
  cmdData Command.PowerOptimization [0x60, 0xa5] ++
  cmdData Command.PowerOptimization [0x89, 0xa5] ++
  cmdData Command.PowerOptimization [0x90, 0x00] ++
  cmdData Command.PowerOptimization [0x93, 0x2a] ++
  cmdData Command.PowerOptimization [0x73, 0x41] ++
  cmdData Command.VcmDcSetting [0x12] ++
  cmdData Command.VcomAndDataIntervalSetting [0x87] ++
  setLut ++
  cmdData Command.PartialDisplayRefresh [0x00] ++ [W]

/-- `send_buffer_helper`: one `data(&[!b])` call per byte -/
def sendBufferHelper (b : Bytes) : List Act := dataEach (b.map (fun x => ~~~x))

def updateFrame (d : DState) (b : Bytes) : List Act :=
  [.cmd Command.DataStartTransmission1] ++ sendBufferHelper b ++
  [.cmd Command.DataStartTransmission2, .rep (~~~(byteValue d.bg)) (WIDTH / 8 * HEIGHT),
   .cmd Command.DataStop]

/-- the 8-byte window header, one `data` call per byte -/
def windowHeader (x y w h : Nat) : List Act :=
  dataEach [shr8 x 8, u8 (x &&& 0xf8), shr8 y 8, u8 (y &&& 0xff),
            shr8 w 8, u8 (w &&& 0xf8), shr8 h 8, u8 (h &&& 0xff)]

def updateAchromatic (b : Bytes) : List Act :=
  [.cmd Command.DataStartTransmission1] ++ sendBufferHelper b ++ [.cmd Command.DataStop]

def updateChromatic (c : Bytes) : List Act :=
  [.cmd Command.DataStartTransmission2] ++ sendBufferHelper c ++ [.cmd Command.DataStop, W]

def prog (_f : Feat) (d : DState) : Op → Option (List Act)
  | .new => some init
  | .wake => some init
  | .sleep => some ([W] ++ cmdData Command.VcomAndDataIntervalSetting [0xf7] ++
      [.cmd Command.PowerOff, W] ++ cmdData Command.DeepSleep [0xA5])
  | .upd b => some (updateFrame d b)
  | .part b x y w h => some ([.cmd Command.PartialDataStartTransmission1] ++
      windowHeader x y w h ++ [W] ++ sendBufferHelper b ++ [.cmd Command.DataStop])
  | .disp => some [.cmd Command.DisplayRefresh, W]
  | .updisp b => some (updateFrame d b ++ [.cmd Command.DisplayRefresh])
  | .clear => some [W,
      .cmd Command.DataStartTransmission1, .rep (byteValue d.bg) (WIDTH / 8 * HEIGHT),
      .cmd Command.DataStop,
      .cmd Command.DataStartTransmission2, .rep (byteValue d.bg) (WIDTH / 8 * HEIGHT),
      .cmd Command.DataStop]
  | .bg c => some [.upd (fun d => { d with bg := c })]
  | .lut _ => some setLut
  | .wait => some [W]
  | .color b c => some (updateAchromatic b ++ updateChromatic c)
  | .achro b => some (updateAchromatic b)
  | .chro c => some (updateChromatic c)
  | .dpart x y w h => some ([.cmd Command.PartialDisplayRefresh] ++ windowHeader x y w h ++ [W])
  | .pachro b x y w h => some ([.cmd Command.PartialDataStartTransmission1] ++
      windowHeader x y w h ++ [W] ++ sendBufferHelper b)
  | .pchro b x y w h => some ([.cmd Command.PartialDataStartTransmission2] ++
      windowHeader x y w h ++ [W] ++ sendBufferHelper b)
  | _ => none

def panel (f : Feat) : Panel :=
  { name := "epd2in7b", width := WIDTH, height := HEIGHT, single := SINGLE_BYTE_WRITE,
    busyLow := IS_BUSY_LOW, family := .uc, colors := 2,
    init := { bg := DEFAULT_BACKGROUND_COLOR },
    prog := prog f,
    ctrl := .uc (Uc.por WIDTH HEIGHT 1 9 true) }

attribute [driver_simp] W setLut init sendBufferHelper updateFrame windowHeader updateAchromatic updateChromatic prog

end EpdVerif.Drivers.Epd2in7b
