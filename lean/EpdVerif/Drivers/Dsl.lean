import EpdVerif.Ctrl.Uc
import EpdVerif.SimpAttr
/-!
# Vocabulary shared by the driver models

`Op` is the union of the public entry points of the 27 trait drivers; a `Panel` maps the
driver's fields and an `Op` to the program (`List Act`) the real method performs.
The driver models are hand transcriptions of `src/epd*/mod.rs`; the correspondence check
(`tools/check.py`, DESIGN §4.2) compares them with the real code on every run.
-/

namespace EpdVerif

abbrev Bytes := List UInt8

inductive Op
  | new | wake | sleep | disp | clear | wait
  | bg (c : Nat)
  | lut (r : Option Refresh)
  | upd (b : Bytes)
  | updisp (b : Bytes)
  | part (b : Bytes) (x y w h : Nat)
  | old (b : Bytes) | newf (b : Bytes) | dispnew | updispnew (b : Bytes)
  | pold (b : Bytes) (x y w h : Nat) | pnew (b : Bytes) (x y w h : Nat) | pclear (x y w h : Nat)
  | color (b c : Bytes) | achro (b : Bytes) | chro (c : Bytes)
  | base (b : Bytes) | refresh (r : Refresh) | border (c : Nat)
  | part2 (b : Bytes) (x y w h : Nat)
  | dpart (x y w h : Nat) | pachro (b : Bytes) (x y w h : Nat) | pchro (b : Bytes) (x y w h : Nat)
  | basedisp (b : Bytes) (c : Option Bytes) | disppart | sevenBlock
  deriving Repr, Inhabited, DecidableEq

inductive Family | ssd | uc | acep
  deriving DecidableEq, Repr, Inhabited

/-- build-time feature selection of the crate -/
structure Feat where
  v2 : Bool := false      -- `epd2in13_v2` instead of the default `epd2in13_v3`
  alt : Bool := false     -- `type_a_alternative_faster_lut`
  deriving DecidableEq, Repr, Inhabited

structure Panel where
  name : String
  width : Nat
  height : Nat
  single : Bool            -- SINGLE_BYTE_WRITE (generated)
  busyLow : Bool           -- IS_BUSY_LOW (generated)
  family : Family
  colors : Nat             -- number of values of the background colour type
  init : DState            -- fields right after the struct literal in `new`
  prog : DState → Op → Option (List Act)
  ctrl : Ctrl              -- controller at power-on
  deriving Inhabited

/-- `cmd_with_data` -/
def cmdData (c : UInt8) (bs : Bytes) : List Act := [.cmd c, .data bs]
/-- `assert!(b)` -/
def assertA (b : Bool) : List Act := if b then [] else [.panic]
/-- `(n >> k) as u8` -/
def shr8 (n k : Nat) : UInt8 := u8 (n >>> k)
/-- one `data(&[b])` call per byte -/
def dataEach (bs : Bytes) : List Act := bs.map (fun b => Act.data [b])
/-- colour byte values: `Color::get_byte_value` (Black 0x00, White 0xFF), TriColor the same
    with Chromatic 0x00 -/
def byteValue (c : Nat) : UInt8 := if c = 1 then 0xFF else 0x00

attribute [driver_simp] cmdData assertA shr8 dataEach byteValue

end EpdVerif
