import EpdVerif.Drivers.Dsl
import EpdVerif.Gen.Epd1in02
/-! model of `src/epd1in02/mod.rs` -/
namespace EpdVerif.Drivers.Epd1in02
open EpdVerif
open EpdVerif.Gen.Epd1in02

def W : Act := .wait IS_BUSY_LOW

/-- `crate::buffer_len` -/
def bufferLen (w h : Nat) : Nat := (w + 7) / 8 * h

/-- `set_lut`: `None` returns at once; nothing is stored -/
def setLut : Option Refresh → List Act
  | some .full =>
    cmdData Command.SetWhiteLut LUT_FULL_UPDATE_WHITE ++
    cmdData Command.SetBlackLut LUT_FULL_UPDATE_BLACK
  | some .quick =>
    cmdData Command.SetWhiteLut LUT_PARTIAL_UPDATE_WHITE ++
    cmdData Command.SetBlackLut LUT_PARTIAL_UPDATE_BLACK
  | none => []

def sendResolution : List Act :=
  [.cmd Command.TconResolution, .data [u8 HEIGHT], .data [u8 WIDTH]]

def init (d : DState) : List Act :=
  [.reset 20000 2000, .upd (fun d => { d with isOn := false })] ++   -- (fix 5eabf9f)
  cmdData Command.PanelSetting [0x6F] ++
  cmdData Command.PowerSetting [0x03, 0x00, 0x2b, 0x2b] ++
  cmdData Command.ChargePumpSetting [0x3F] ++
  cmdData Command.LutOption [0x00, 0x00] ++
  cmdData Command.PllControl [0x17] ++
  cmdData Command.VcomAndDataIntervalSetting [if d.bg = 0 then 0x57 else 0x97] ++
  cmdData Command.TconSetting [0x22] ++
  sendResolution ++
  cmdData Command.VcomDcSetting [0x12] ++
  cmdData Command.PowerSaving [0x33] ++
  setLut (some d.refresh) ++
  [W]

def turnOnIfTurnedOff (d : DState) : List Act :=
  if !d.isOn then [.cmd Command.PowerOn, W, .upd (fun d => { d with isOn := true })] else []

def turnOff : List Act :=
  [.cmd Command.PowerOff, W, .upd (fun d => { d with isOn := false })]

def setFullMode (d : DState) : List Act :=
  if d.refresh ≠ .full then
    [.cmd Command.PartialOut] ++ setLut (some .full) ++
    [.upd (fun d => { d with refresh := .full })]
  else []

def setPartialMode (d : DState) : List Act :=
  if d.refresh ≠ .quick then
    [.cmd Command.PartialIn] ++ setLut (some .quick) ++
    [.upd (fun d => { d with refresh := .quick })]
  else []

def isWindowSizeOk (x y width height : Nat) : Bool :=
  x + width ≤ WIDTH && y + height ≤ HEIGHT && x % 8 == 0 && width % 8 == 0

def setPartialWindow (x y width height : Nat) : List Act :=
  assertA (isWindowSizeOk x y width height) ++
  -- `x + width - 1`, `y + height - 1` in u32
  assertA (x + width ≥ 1) ++ assertA (y + height ≥ 1) ++
  cmdData Command.PartialWindow
    [u8 x, u8 (x + width - 1), u8 y, u8 (y + height - 1), 0x00]

def isBufferSizeOk (b : Bytes) (width height : Nat) : Bool :=
  bufferLen width height == b.length

def sleep : List Act :=
  [W] ++ turnOff ++ cmdData Command.DeepSleep [0xA5] ++
  [.upd (fun d => { d with refresh := .full })]

def updateFrame (d : DState) (b : Bytes) : List Act :=
  [W] ++ setFullMode d ++
  [.cmd Command.DataStartTransmission1, .rep (byteValue d.bg) NUMBER_OF_BYTES] ++
  cmdData Command.DataStartTransmission2 b

def displayFrame (d : DState) : List Act :=
  [W] ++ turnOnIfTurnedOff d ++ [.cmd Command.DisplayRefresh, W]

def clearFrame (d : DState) : List Act :=
  let c := byteValue d.bg
  [W] ++ setFullMode d ++
  [.cmd Command.DataStartTransmission1, .rep (~~~ c) NUMBER_OF_BYTES,
   .cmd Command.DataStartTransmission2, .rep c NUMBER_OF_BYTES]

def clearPartialFrame (d : DState) (x y width height : Nat) : List Act :=
  let c := byteValue d.bg
  let n := bufferLen width height
  [W] ++ setFullMode d ++ [.cmd Command.PartialIn] ++
  setPartialWindow x y width height ++
  [.cmd Command.DataStartTransmission1, .rep (~~~ c) n,
   .cmd Command.DataStartTransmission2, .rep c n,
   .cmd Command.PartialOut]

def prog (_f : Feat) (d : DState) : Op → Option (List Act)
  | .new => some (init d)
  | .wake => some (init d)
  | .sleep => some sleep
  | .upd b => some (updateFrame d b)
  | .part _ _ _ _ _ => some [.panic]
  | .disp => some (displayFrame d)
  | .updisp b => some (updateFrame d b ++ displayFrame d)
  | .clear => some (clearFrame d)
  | .bg c => some [.upd (fun d => { d with bg := c })]
  | .lut r => some (setLut r)
  | .wait => some [W]
  | .old b =>
    some (setPartialMode d ++ setPartialWindow 0 0 WIDTH HEIGHT ++
      cmdData Command.DataStartTransmission1 b)
  | .newf b => some (cmdData Command.DataStartTransmission2 b)
  | .dispnew => some [.panic]
  | .updispnew _ => some [.panic]
  | .pold b x y w h =>
    some (assertA (isBufferSizeOk b w h) ++ setPartialMode d ++ setPartialWindow x y w h ++
      cmdData Command.DataStartTransmission1 b)
  | .pnew b _ _ w h =>
    some (assertA (isBufferSizeOk b w h) ++ cmdData Command.DataStartTransmission2 b)
  | .pclear x y w h => some (clearPartialFrame d x y w h)
  | _ => none

def panel (f : Feat) : Panel :=
  { name := "epd1in02", width := WIDTH, height := HEIGHT, single := SINGLE_BYTE_WRITE,
    busyLow := IS_BUSY_LOW, family := .uc, colors := 2,
    init := { bg := DEFAULT_BACKGROUND_COLOR, isOn := false, refresh := .full },
    prog := prog f,
    ctrl := .uc (Uc.por WIDTH HEIGHT 1 5 false) }

attribute [driver_simp] W bufferLen setLut sendResolution init turnOnIfTurnedOff turnOff setFullMode setPartialMode isWindowSizeOk setPartialWindow isBufferSizeOk sleep updateFrame displayFrame clearFrame clearPartialFrame prog

end EpdVerif.Drivers.Epd1in02
