import EpdVerif.Drivers.Dsl
import EpdVerif.Gen.Epd3in7
/-! model of `src/epd3in7/mod.rs` -/
namespace EpdVerif.Drivers.Epd3in7
open EpdVerif
open EpdVerif.Gen.Epd3in7

def W : Act := .wait IS_BUSY_LOW

/-- `crate::buffer_len` -/
def bufferLen (w h : Nat) : Nat := (w + 7) / 8 * h

/-- `set_lut`: `Full | None` → GC table, `Quick` → DU table; nothing is stored -/
def setLut (r : Option Refresh) : List Act :=
  cmdData Command.WriteLutRegister
    (match r with
     | some .full | none => LUT_1GRAY_GC
     | some .quick => LUT_1GRAY_DU)

def init : List Act :=
  [.reset 30 10, .cmd Command.SwReset, .delayUs 300000] ++
  cmdData Command.AutoWriteRedRamRegularPattern [0xF7] ++ [W] ++
  cmdData Command.AutoWriteBwRamRegularPattern [0xF7] ++ [W] ++
  cmdData Command.GateSetting [0xDF, 0x01, 0x00] ++
  cmdData Command.GateVoltage [0x00] ++
  cmdData Command.GateVoltageSource [0x41, 0xA8, 0x32] ++
  cmdData Command.DataEntrySequence [0x03] ++
  cmdData Command.BorderWaveformControl [0x03] ++
  cmdData Command.BoosterSoftStartControl [0xAE, 0xC7, 0xC3, 0xC0, 0xC0] ++
  cmdData Command.TemperatureSensorSelection [0x80] ++
  cmdData Command.WriteVcomRegister [0x44] ++
  cmdData Command.DisplayOption [0x00, 0xFF, 0xFF, 0xFF, 0xFF, 0x4F, 0xFF, 0xFF, 0xFF, 0xFF] ++
  cmdData Command.SetRamXAddressStartEndPosition [0x00, 0x00, 0x17, 0x01] ++
  cmdData Command.SetRamYAddressStartEndPosition [0x00, 0x00, 0xDF, 0x01] ++
  cmdData Command.DisplayUpdateSequenceSetting [0xCF] ++
  setLut (some .full)

def updateFrame (b : Bytes) : List Act :=
  assertA (b.length == bufferLen WIDTH HEIGHT) ++
  cmdData Command.SetRamXAddressCounter [0x00, 0x00] ++
  cmdData Command.SetRamYAddressCounter [0x00, 0x00] ++
  cmdData Command.WriteRam b

def displayFrame : List Act := [.cmd Command.DisplayUpdateSequence, W]

def clearFrame (d : DState) : List Act :=
  cmdData Command.SetRamXAddressCounter [0x00, 0x00] ++
  cmdData Command.SetRamYAddressCounter [0x00, 0x00] ++
  [.cmd Command.WriteRam, .rep (byteValue d.bg) (WIDTH / 8 * HEIGHT)]   -- (fix 86c3ee0; was WIDTH * HEIGHT)

def prog (_f : Feat) (d : DState) : Op → Option (List Act)
  | .new => some init
  | .wake => some init
  | .sleep =>
    some (cmdData Command.Sleep [0xF7] ++ [.cmd Command.PowerOff] ++ cmdData Command.Sleep2 [0xA5])
  | .upd b => some (updateFrame b)
  | .part _ _ _ _ _ => some [.panic]
  | .disp => some displayFrame
  | .updisp b => some (updateFrame b ++ displayFrame)
  | .clear => some (clearFrame d)
  | .bg c => some [.upd (fun d => { d with bg := c })]
  | .lut r => some (setLut r)
  | .wait => some [W]
  | _ => none

def panel (f : Feat) : Panel :=
  { name := "epd3in7", width := WIDTH, height := HEIGHT, single := SINGLE_BYTE_WRITE,
    busyLow := IS_BUSY_LOW, family := .ssd, colors := 2,
    init := { bg := DEFAULT_BACKGROUND_COLOR },
    prog := prog f,
    ctrl := .ssd (Ssd.por true 120 680) }

attribute [driver_simp] W bufferLen setLut init updateFrame displayFrame clearFrame prog

end EpdVerif.Drivers.Epd3in7
