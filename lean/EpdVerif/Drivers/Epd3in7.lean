import EpdVerif.Drivers.Dsl
import EpdVerif.Gen.Epd3in7
/-! model of `src/epd3in7/mod.rs` (STUB: programs not yet transcribed) -/
namespace EpdVerif.Drivers.Epd3in7
open EpdVerif
open EpdVerif.Gen.Epd3in7

def prog (_f : Feat) (_d : DState) : Op → Option (List Act)
  | _ => none

def panel (f : Feat) : Panel :=
  { name := "epd3in7", width := WIDTH, height := HEIGHT, single := SINGLE_BYTE_WRITE,
    busyLow := IS_BUSY_LOW, family := .ssd, colors := 2,
    init := { bg := DEFAULT_BACKGROUND_COLOR },
    prog := prog f,
    ctrl := .ssd (Ssd.por true 120 680) }

end EpdVerif.Drivers.Epd3in7
