import EpdVerif.Drivers.Dsl
import EpdVerif.Gen.Epd2in66b
/-! model of `src/epd2in66b/mod.rs` (STUB: programs not yet transcribed) -/
namespace EpdVerif.Drivers.Epd2in66b
open EpdVerif
open EpdVerif.Gen.Epd2in66b

def prog (_f : Feat) (_d : DState) : Op → Option (List Act)
  | _ => none

def panel (f : Feat) : Panel :=
  { name := "epd2in66b", width := WIDTH, height := HEIGHT, single := SINGLE_BYTE_WRITE,
    busyLow := false, family := .ssd, colors := 3,
    init := { bg := DEFAULT_BACKGROUND_COLOR },
    prog := prog f,
    ctrl := .ssd (Ssd.por false 20 296) }

end EpdVerif.Drivers.Epd2in66b
