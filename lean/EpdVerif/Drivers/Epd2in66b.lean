import EpdVerif.Drivers.Dsl
import EpdVerif.Gen.Epd2in66b
/-! model of `src/epd2in66b/mod.rs` -/
namespace EpdVerif.Drivers.Epd2in66b
open EpdVerif
open EpdVerif.Gen.Epd2in66b

/-- the private `wait_until_idle(delay)`: literal polarity `false` -/
def W : Act := .wait false

def hwReset : List Act := [.reset 20000 2000, W]

def swReset : List Act := [.cmd Command.Reset, W]

def dataEntryMode (row sign : UInt8) : List Act :=
  cmdData Command.DataEntryMode [row ||| sign]

def setDisplayWindow (xs ys xe ye : Nat) : List Act :=
  cmdData Command.SetXAddressRange [u8 ((xs >>> 3) &&& 0x1f), u8 ((xe >>> 3) &&& 0x1f)] ++
  cmdData Command.SetYAddressRange
    [u8 (ys &&& 0xff), u8 ((ys >>> 8) &&& 0x01), u8 (ye &&& 0xff), u8 ((ye >>> 8) &&& 0x01)]

def updateControl1 (redMode bwMode source : UInt8) : List Act :=
  cmdData Command.DisplayUpdateControl1 [(redMode <<< 4) ||| bwMode, source]

def setCursor (x y : Nat) : List Act :=
  cmdData Command.SetXAddressCounter [u8 ((x >>> 3) &&& 0x1f)] ++
  cmdData Command.SetYAddressCounter [u8 (y &&& 0xff), u8 ((y >>> 8) &&& 0x01)]

def blackWhitePattern (w h phase : UInt8) : List Act :=
  cmdData Command.BlackWhiteRAMTestPattern [phase ||| h ||| w] ++ [W]

def redPattern (w h phase : UInt8) : List Act :=
  cmdData Command.RedRAMTestPattern [phase ||| h ||| w] ++ [W]

def init : List Act :=
  hwReset ++ swReset ++
  dataEntryMode DataEntryRow.XMinor DataEntrySign.IncYIncX ++
  setDisplayWindow 0 0 (WIDTH - 1) (HEIGHT - 1) ++
  updateControl1 WriteMode.Normal WriteMode.Normal OutputSource.S8ToS167 ++
  setCursor 0 0

def updateAchromatic (b : Bytes) : List Act :=
  setCursor 0 0 ++ [.cmd Command.WriteBlackWhiteRAM, .data b]

def updateChromatic (c : Bytes) : List Act :=
  setCursor 0 0 ++ [.cmd Command.WriteRedRAM, .data c]

def updateFrame (b : Bytes) : List Act :=
  setCursor 0 0 ++ updateAchromatic b ++ redPattern PatW.W160 PatH.H296 StartWith.Zero

def displayFrame : List Act := [.cmd Command.MasterActivation, W]

def clearFrame (d : DState) : List Act :=
  let (white, red) :=
    if d.bg = 0 then (StartWith.Zero, StartWith.Zero)
    else if d.bg = 1 then (StartWith.One, StartWith.Zero)
    else (StartWith.Zero, StartWith.One)
  blackWhitePattern PatW.W160 PatH.H296 white ++ redPattern PatW.W160 PatH.H296 red

def prog (_f : Feat) (d : DState) : Op → Option (List Act)
  | .new => some init
  | .wake => some init
  | .sleep => some (cmdData Command.DeepSleepMode [DeepSleep.SleepLosingRAM])
  | .upd b => some (updateFrame b)
  | .part b x y w h =>
    some (setDisplayWindow x y (x + w) (y + h) ++ setCursor x y ++ updateAchromatic b ++
      setDisplayWindow 0 0 WIDTH HEIGHT)
  | .disp => some displayFrame
  | .updisp b => some (updateFrame b ++ displayFrame)
  | .clear => some (clearFrame d)
  | .bg c => some [.upd (fun d => { d with bg := c })]
  | .lut _ => some []
  | .wait => some [W]
  | .color b c => some (updateAchromatic b ++ updateChromatic c)
  | .achro b => some (updateAchromatic b)
  | .chro c => some (updateChromatic c)
  | _ => none

def panel (f : Feat) : Panel :=
  { name := "epd2in66b", width := WIDTH, height := HEIGHT, single := SINGLE_BYTE_WRITE,
    busyLow := false, family := .ssd, colors := 3,
    init := { bg := DEFAULT_BACKGROUND_COLOR },
    prog := prog f,
    ctrl := .ssd (Ssd.por false 20 296) }

attribute [driver_simp] W hwReset swReset dataEntryMode setDisplayWindow updateControl1 setCursor blackWhitePattern redPattern init updateAchromatic updateChromatic updateFrame displayFrame clearFrame prog

end EpdVerif.Drivers.Epd2in66b
