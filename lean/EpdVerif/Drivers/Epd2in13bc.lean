import EpdVerif.Drivers.Dsl
import EpdVerif.Gen.Epd2in13bc
/-! model of `src/epd2in13bc/mod.rs` -/
namespace EpdVerif.Drivers.Epd2in13bc
open EpdVerif
open EpdVerif.Gen.Epd2in13bc

def W : Act := .wait IS_BUSY_LOW

def sendResolution : List Act :=
  [.cmd Command.ResolutionSetting, .data [u8 WIDTH], .data [shr8 HEIGHT 8], .data [u8 HEIGHT]]

def init : List Act :=
  [.reset 10000 10000] ++
  cmdData Command.BoosterSoftStart [0x17, 0x17, 0x17] ++
  [.cmd Command.PowerOn, .delayUs 5000, W] ++
  cmdData Command.PanelSetting [0x8F] ++
  cmdData Command.VcomAndDataIntervalSetting [u8 (WHITE_BORDER ||| VCOM_DATA_INTERVAL)] ++
  sendResolution ++
  cmdData Command.VcmDcSetting [0x0A] ++ [W]

def updateAchromatic (b : Bytes) : List Act := [.cmd Command.DataStartTransmission1, .data b]

def updateChromatic (c : Bytes) : List Act := [.cmd Command.DataStartTransmission2, .data c, W]

def updateFrame (d : DState) (b : Bytes) : List Act :=
  [.cmd Command.DataStartTransmission1, .data b,
   .cmd Command.DataStartTransmission2, .rep (byteValue d.bg) NUM_DISPLAY_BITS, W]

def displayFrame : List Act := [.cmd Command.DisplayRefresh, W]

/-- `set_border_color` (argument: TriColor index) -/
def borderByte (c : Nat) : Nat :=
  if c = 0 then BLACK_BORDER else if c = 1 then WHITE_BORDER else CHROMATIC_BORDER

def prog (_f : Feat) (d : DState) : Op → Option (List Act)
  | .new => some init
  | .wake => some init
  | .sleep => some (
      cmdData Command.VcomAndDataIntervalSetting [u8 (FLOATING_BORDER ||| VCOM_DATA_INTERVAL)] ++
      [.cmd Command.PowerOff, W] ++ cmdData Command.DeepSleep [0xA5])
  | .upd b => some (updateFrame d b)
  | .part _ _ _ _ _ => some []
  | .disp => some displayFrame
  | .updisp b => some (updateFrame d b ++ displayFrame)
  | .clear => some (sendResolution ++
      [.cmd Command.DataStartTransmission1, .rep (byteValue DEFAULT_BACKGROUND_COLOR) NUM_DISPLAY_BITS,
       .cmd Command.DataStartTransmission2, .rep (byteValue DEFAULT_BACKGROUND_COLOR) NUM_DISPLAY_BITS,
       W])
  | .bg c => some [.upd (fun d => { d with bg := c })]
  | .lut _ => some []
  | .wait => some [W]
  | .color b c => some (updateAchromatic b ++ updateChromatic c)
  | .achro b => some (updateAchromatic b)
  | .chro c => some (updateChromatic c)
  | .border c => some (cmdData Command.VcomAndDataIntervalSetting [u8 (borderByte c ||| VCOM_DATA_INTERVAL)])
  | _ => none

def panel (f : Feat) : Panel :=
  { name := "epd2in13bc", width := WIDTH, height := HEIGHT, single := SINGLE_BYTE_WRITE,
    busyLow := IS_BUSY_LOW, family := .uc, colors := 3,
    init := { bg := DEFAULT_BACKGROUND_COLOR },
    prog := prog f,
    ctrl := .uc (Uc.por WIDTH HEIGHT 1 7 false) }

attribute [driver_simp] W sendResolution init updateAchromatic updateChromatic updateFrame displayFrame borderByte prog

end EpdVerif.Drivers.Epd2in13bc
