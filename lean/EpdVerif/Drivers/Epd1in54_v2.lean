import EpdVerif.Drivers.Dsl
import EpdVerif.Gen.Epd1in54_v2
import EpdVerif.Gen.Type_a
/-! model of `src/epd1in54_v2/mod.rs` -/
namespace EpdVerif.Drivers.Epd1in54_v2
open EpdVerif
open EpdVerif.Gen.Epd1in54_v2
open EpdVerif.Gen.Type_a hiding LUT_PARTIAL_UPDATE

def W : Act := .wait IS_BUSY_LOW

/-- `set_ram_area`: wait, the two asserts, then the X and Y windows -/
def setRamArea (sx sy ex ey : Nat) : List Act :=
  [W] ++ assertA (sx < ex) ++ assertA (sy < ey) ++
  cmdData Command.SetRamXAddressStartEndPosition [shr8 sx 3, shr8 ex 3] ++
  cmdData Command.SetRamYAddressStartEndPosition [u8 sy, shr8 sy 8, u8 ey, shr8 ey 8]

def setRamCounter (x y : Nat) : List Act :=
  [W] ++ cmdData Command.SetRamXAddressCounter [shr8 x 3] ++
  cmdData Command.SetRamYAddressCounter [u8 y, shr8 y 8]

def useFullFrame : List Act := setRamArea 0 0 (WIDTH - 1) (HEIGHT - 1) ++ setRamCounter 0 0

/-- `set_lut_helper`: the 159-byte table is cut into LUT, end option, gate, source, vcom -/
def setLutHelper (t : Bytes) : List Act :=
  [W] ++ assertA (t.length = 159) ++
  cmdData Command.WriteLutRegister (t.take 153) ++
  cmdData Command.WriteLutRegisterEnd [t.getD 153 0] ++
  [W] ++
  cmdData Command.GateDrivingVoltage [t.getD 154 0] ++
  cmdData Command.SourceDrivingVoltage [t.getD 155 0, t.getD 156 0, t.getD 157 0] ++
  cmdData Command.WriteVcomRegister [t.getD 158 0]

def setLut (d : DState) (r : Option Refresh) : List Act :=
  (match r with | some m => [Act.upd (fun d => { d with refresh := m })] | none => []) ++
  (match r.getD d.refresh with
   | .full => setLutHelper LUT_FULL_UPDATE
   | .quick =>
     setLutHelper LUT_PARTIAL_UPDATE ++
     cmdData Command.WriteOtpSelection [0x0, 0x0, 0x0, 0x0, 0x0, 0x40, 0x0, 0x0, 0x0, 0x0] ++
     cmdData Command.BorderWaveformControl [0x80] ++
     cmdData Command.DisplayUpdateControl2 [0xc0] ++
     [.cmd Command.MasterActivation, .cmd Command.Nop])

def init (d : DState) : List Act :=
  [.reset 10000 10000, W, .cmd Command.SwReset, W] ++
  cmdData Command.DriverOutputControl [u8 (HEIGHT - 1), 0x0, 0x00] ++
  cmdData Command.DataEntryModeSetting [0x3] ++
  setRamArea 0 0 (WIDTH - 1) (HEIGHT - 1) ++
  cmdData Command.TemperatureSensorSelection [0x80] ++
  cmdData Command.TemperatureSensorControl [0xB1, 0x20] ++
  setRamCounter 0 0 ++
  setLut d none ++ [W]

def updateFrame (b : Bytes) : List Act := [W] ++ useFullFrame ++ cmdData Command.WriteRam b

def displayFrame (d : DState) : List Act :=
  [W] ++
  (match d.refresh with
   | .full => cmdData Command.DisplayUpdateControl2 [0xC7]
   | .quick => cmdData Command.DisplayUpdateControl2 [0xCF]) ++
  [.cmd Command.MasterActivation, .cmd Command.Nop]

def prog (_f : Feat) (d : DState) : Op → Option (List Act)
  | .new => some (init d)
  | .wake => some (init d)
  | .sleep => some ([W] ++ cmdData Command.DeepSleepMode [0x01])
  | .upd b => some (updateFrame b)
  | .part b x y w h =>
    some ([W] ++ setRamArea x y (x + w) (y + h) ++ setRamCounter x y ++ cmdData Command.WriteRam b)
  | .disp => some (displayFrame d)
  | .updisp b => some (updateFrame b ++ displayFrame d)
  | .clear =>
    some ([W] ++ useFullFrame ++
      [.cmd Command.WriteRam, .rep (byteValue d.bg) (WIDTH / 8 * HEIGHT),
       .cmd Command.WriteRam2, .rep (byteValue d.bg) (WIDTH / 8 * HEIGHT)])
  | .bg c => some [.upd (fun d => { d with bg := c })]
  | .lut r => some (setLut d r)
  | .wait => some [W]
  | _ => none

def panel (f : Feat) : Panel :=
  { name := "epd1in54_v2", width := WIDTH, height := HEIGHT, single := SINGLE_BYTE_WRITE,
    busyLow := IS_BUSY_LOW, family := .ssd, colors := 2,
    init := { bg := DEFAULT_BACKGROUND_COLOR, refresh := .full },
    prog := prog f,
    ctrl := .ssd (Ssd.por false 25 200) }

attribute [driver_simp] W setRamArea setRamCounter useFullFrame setLutHelper setLut init updateFrame displayFrame prog

end EpdVerif.Drivers.Epd1in54_v2
