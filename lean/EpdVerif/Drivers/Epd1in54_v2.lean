import EpdVerif.Drivers.Dsl
import EpdVerif.Gen.Epd1in54_v2
/-! model of `src/epd1in54_v2/mod.rs` (STUB: programs not yet transcribed) -/
namespace EpdVerif.Drivers.Epd1in54_v2
open EpdVerif
open EpdVerif.Gen.Epd1in54_v2

def prog (_f : Feat) (_d : DState) : Op → Option (List Act)
  | _ => none

def panel (f : Feat) : Panel :=
  { name := "epd1in54_v2", width := WIDTH, height := HEIGHT, single := SINGLE_BYTE_WRITE,
    busyLow := IS_BUSY_LOW, family := .ssd, colors := 2,
    init := { bg := DEFAULT_BACKGROUND_COLOR },
    prog := prog f,
    ctrl := .ssd (Ssd.por false 25 200) }

end EpdVerif.Drivers.Epd1in54_v2
