import EpdVerif.Drivers.Dsl
import EpdVerif.Gen.Epd1in54b
/-! model of `src/epd1in54b/mod.rs` (STUB: programs not yet transcribed) -/
namespace EpdVerif.Drivers.Epd1in54b
open EpdVerif
open EpdVerif.Gen.Epd1in54b

def prog (_f : Feat) (_d : DState) : Op → Option (List Act)
  | _ => none

def panel (f : Feat) : Panel :=
  { name := "epd1in54b", width := WIDTH, height := HEIGHT, single := SINGLE_BYTE_WRITE,
    busyLow := IS_BUSY_LOW, family := .uc, colors := 2,
    init := { bg := DEFAULT_BACKGROUND_COLOR },
    prog := prog f,
    ctrl := .uc (Uc.por WIDTH HEIGHT 2 7 false) }

end EpdVerif.Drivers.Epd1in54b
