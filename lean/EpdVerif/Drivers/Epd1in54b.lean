import EpdVerif.Drivers.Dsl
import EpdVerif.Gen.Epd1in54b
/-! model of `src/epd1in54b/mod.rs` -/
namespace EpdVerif.Drivers.Epd1in54b
open EpdVerif
open EpdVerif.Gen.Epd1in54b

def W : Act := .wait IS_BUSY_LOW

/-- `expand_bits`: every bit of the input byte is doubled (u16 arithmetic) -/
def expandBits (b : UInt8) : Bytes :=
  let x := b.toNat
  let x := (x ||| (x <<< 4)) &&& 0x0F0F
  let x := (x ||| (x <<< 2)) &&& 0x3333
  let x := (x ||| (x <<< 1)) &&& 0x5555
  let x := (x ||| (x <<< 1)) &&& 0xFFFF
  [shr8 x 8, u8 (x &&& 0xFF)]

def sendResolution : List Act :=
  [.cmd Command.ResolutionSetting, .data [u8 WIDTH], .data [shr8 HEIGHT 8], .data [u8 HEIGHT]]

def setLut : List Act :=
  cmdData Command.LutForVcom LUT_VCOM0 ++
  cmdData Command.LutWhiteToWhite LUT_WHITE_TO_WHITE ++
  cmdData Command.LutBlackToWhite LUT_BLACK_TO_WHITE ++
  cmdData Command.LutG0 LUT_G1 ++
  cmdData Command.LutG1 LUT_G2 ++
  cmdData Command.LutRedVcom LUT_RED_VCOM ++
  cmdData Command.LutRed0 LUT_RED0 ++
  cmdData Command.LutRed1 LUT_RED1

def init : List Act :=
  [.reset 10000 10000] ++
  cmdData Command.PowerSetting [0x07, 0x00, 0x08, 0x00] ++
  cmdData Command.BoosterSoftStart [0x07, 0x07, 0x07] ++
  [.cmd Command.PowerOn, .delayUs 5000, W] ++
  cmdData Command.PanelSetting [0xCF] ++
  cmdData Command.VcomAndDataIntervalSetting [0x37] ++
  cmdData Command.PllControl [0x39] ++
  sendResolution ++
  cmdData Command.VcmDcSetting [0x0E] ++
  setLut ++ [W]

def updateAchromatic (b : Bytes) : List Act :=
  [W] ++ sendResolution ++ [.cmd Command.DataStartTransmission1] ++
  b.map (fun x => Act.data (expandBits x))

def updateChromatic (c : Bytes) : List Act :=
  [W, .cmd Command.DataStartTransmission2, .data c]   -- (fix 6d2fc85: waits first, like update_achromatic_frame)

def updateFrame (d : DState) (b : Bytes) : List Act :=
  [W] ++ sendResolution ++ [.cmd Command.DataStartTransmission1] ++
  b.map (fun x => Act.data (expandBits x)) ++
  [.cmd Command.DataStartTransmission2, .rep (byteValue d.bg) (WIDTH * (HEIGHT / 8))]

def displayFrame : List Act := [W, .cmd Command.DisplayRefresh]

def prog (_f : Feat) (d : DState) : Op → Option (List Act)
  | .new => some init
  | .wake => some init
  | .sleep => some ([W] ++
      cmdData Command.VcomAndDataIntervalSetting [0x17] ++
      cmdData Command.VcmDcSetting [0x00] ++
      cmdData Command.PowerSetting [0x02, 0x00, 0x00, 0x00] ++
      [W, .cmd Command.PowerOff])
  | .upd b => some (updateFrame d b)
  | .part _ _ _ _ _ => some [.panic]
  | .disp => some displayFrame
  | .updisp b => some (updateFrame d b ++ displayFrame)
  | .clear => some ([W] ++ sendResolution ++
      [.cmd Command.DataStartTransmission1,
       .rep (byteValue DEFAULT_BACKGROUND_COLOR) (2 * (WIDTH / 8 * HEIGHT)),
       .cmd Command.DataStartTransmission2,
       .rep (byteValue DEFAULT_BACKGROUND_COLOR) (WIDTH / 8 * HEIGHT)])
  | .bg c => some [.upd (fun d => { d with bg := c })]
  | .lut _ => some setLut
  | .wait => some [W]
  | .color b c => some (updateAchromatic b ++ updateChromatic c)
  | .achro b => some (updateAchromatic b)
  | .chro c => some (updateChromatic c)
  | _ => none

def panel (f : Feat) : Panel :=
  { name := "epd1in54b", width := WIDTH, height := HEIGHT, single := SINGLE_BYTE_WRITE,
    busyLow := IS_BUSY_LOW, family := .uc, colors := 2,
    init := { bg := DEFAULT_BACKGROUND_COLOR },
    prog := prog f,
    ctrl := .uc (Uc.por WIDTH HEIGHT 2 7 false) }

attribute [driver_simp] W expandBits sendResolution setLut init updateAchromatic updateChromatic updateFrame displayFrame prog

end EpdVerif.Drivers.Epd1in54b
