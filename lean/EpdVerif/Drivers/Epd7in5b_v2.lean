import EpdVerif.Drivers.Dsl
import EpdVerif.Gen.Epd7in5b_v2
/-! model of `src/epd7in5b_v2/mod.rs` -/
namespace EpdVerif.Drivers.Epd7in5b_v2
open EpdVerif
open EpdVerif.Gen.Epd7in5b_v2

/-- `wait_until_idle` = `interface.wait_until_idle_with_cmd(.., IS_BUSY_LOW, GetStatus)` -/
def W : Act := .waitCmd IS_BUSY_LOW Command.GetStatus

def sendResolution : List Act :=
  [.cmd Command.TconResolution, .data [shr8 WIDTH 8], .data [u8 WIDTH],
   .data [shr8 HEIGHT 8], .data [u8 HEIGHT]]

def init : List Act :=
  [.reset 200000 2000] ++
  cmdData Command.PowerSetting [0x07, 0x07, 0x3F, 0x3F] ++
  [.cmd Command.PowerOn, W] ++
  cmdData Command.PanelSetting [0x0F] ++
  cmdData Command.TconResolution [0x03, 0x20, 0x01, 0xE0] ++
  cmdData Command.DualSpi [0x00] ++
  cmdData Command.VcomAndDataIntervalSetting [0x11, 0x07] ++
  cmdData Command.TconSetting [0x22] ++
  cmdData Command.SpiFlashControl [0x00, 0x00, 0x00, 0x00] ++
  [W]

def updateAchromatic (b : Bytes) : List Act :=
  [.cmd Command.DataStartTransmission1, .data b, .cmd Command.DataStop]

def updateChromatic (c : Bytes) : List Act :=
  [.cmd Command.DataStartTransmission2, .data c, .cmd Command.DataStop, W]

/-- `update_frame`: `&buffer[..NUM_DISPLAY_BITS]` is evaluated (and may panic) before the
    `cmd_with_data` call it is an argument of -/
def updateFrame (b : Bytes) : List Act :=
  [W] ++ assertA (NUM_DISPLAY_BITS ≤ b.length) ++
  cmdData Command.DataStartTransmission1 (b.take NUM_DISPLAY_BITS) ++
  cmdData Command.DataStartTransmission2 (b.drop NUM_DISPLAY_BITS) ++
  [.cmd Command.DataStop]

/-- `update_partial_frame2` -/
def updatePartial2 (b : Bytes) (x y w h : Nat) : List Act :=
  let hrstUpper : UInt8 := u8 (x / 8) >>> 5
  let hrstLower : UInt8 := u8 ((x / 8) <<< 3)
  let hredUpper : UInt8 := u8 ((x + w) / 8 - 1) >>> 5
  let hredLower : UInt8 := u8 (((x + w) / 8 - 1) <<< 3) ||| 0b111
  let vrstUpper : UInt8 := shr8 y 8
  let vrstLower : UInt8 := u8 y
  let vredUpper : UInt8 := shr8 (y + h - 1) 8
  let vredLower : UInt8 := u8 (y + h - 1)
  let ptScan : UInt8 := 0x01
  let half := b.length / 2
  [W] ++
  assertA ((x + w) / 8 ≥ 1) ++      -- `(x + width) / 8 - 1`
  assertA (y + h ≥ 1) ++            -- `y + height - 1`
  [.cmd Command.PartialIn] ++
  cmdData Command.PartialWindow
    [hrstUpper, hrstLower, hredUpper, hredLower, vrstUpper, vrstLower, vredUpper, vredLower,
     ptScan] ++
  cmdData Command.DataStartTransmission1 (b.take half) ++
  cmdData Command.DataStartTransmission2 (b.drop half) ++
  [.cmd Command.DisplayRefresh, W, .cmd Command.PartialOut]

def prog (_f : Feat) (_d : DState) : Op → Option (List Act)
  | .new => some init
  | .wake => some init
  | .sleep => some ([W, .cmd Command.PowerOff, W] ++ cmdData Command.DeepSleep [0xA5])
  | .upd b => some (updateFrame b)
  | .part _ _ _ _ _ => some [.panic]
  | .disp => some [W, .cmd Command.DisplayRefresh]
  | .updisp b => some (updateFrame b ++ [.cmd Command.DisplayRefresh])
  | .clear =>
    some ([W] ++ sendResolution ++
      [.cmd Command.DataStartTransmission1, .rep 0xFF (WIDTH / 8 * HEIGHT),
       .cmd Command.DataStartTransmission2, .rep 0x00 (WIDTH / 8 * HEIGHT),
       .cmd Command.DataStop,
       .cmd Command.DisplayRefresh])
  | .bg c => some [.upd (fun d => { d with bg := c })]
  | .lut _ => some [.panic]
  | .wait => some [W]
  | .color b c => some (updateAchromatic b ++ updateChromatic c)
  | .achro b => some (updateAchromatic b)
  | .chro c => some (updateChromatic c)
  | .part2 b x y w h => some (updatePartial2 b x y w h)
  | _ => none

def panel (f : Feat) : Panel :=
  { name := "epd7in5b_v2", width := WIDTH, height := HEIGHT, single := SINGLE_BYTE_WRITE,
    busyLow := IS_BUSY_LOW, family := .uc, colors := 3,
    init := { bg := DEFAULT_BACKGROUND_COLOR },
    prog := prog f,
    ctrl := .uc (Uc.por WIDTH HEIGHT 1 9 false) }

attribute [driver_simp] W sendResolution init updateAchromatic updateChromatic updateFrame updatePartial2 prog

end EpdVerif.Drivers.Epd7in5b_v2
