import EpdVerif.Drivers.Dsl
import EpdVerif.Gen.Epd5in65f
/-! model of `src/epd5in65f/mod.rs` -/
namespace EpdVerif.Drivers.Epd5in65f
open EpdVerif
open EpdVerif.Gen.Epd5in65f

/-- `self.wait_until_idle` = `interface.wait_until_idle(delay, true)` -/
def W : Act := .wait true
/-- `self.wait_busy_low` = `interface.wait_until_idle(delay, false)` -/
def WLow : Act := .wait false

/-- `OctColor::colors_byte(a, b)` = `a.get_nibble() << 4 | b.get_nibble()` (u8) -/
def colorsByte (a b : Nat) : UInt8 := u8 ((a <<< 4) ||| b)

def sendResolution : List Act :=
  [.cmd Command.TconResolution, .data [shr8 WIDTH 8], .data [u8 WIDTH],
   .data [shr8 HEIGHT 8], .data [u8 HEIGHT]]

def updateVcom (d : DState) : List Act :=
  cmdData Command.VcomAndDataIntervalSetting [(0x17 : UInt8) ||| u8 ((d.bg &&& 0b111) <<< 5)]

def init (d : DState) : List Act :=
  [.reset 10000 2000] ++
  cmdData Command.PanelSetting [0xEF, 0x08] ++
  cmdData Command.PowerSetting [0x37, 0x00, 0x23, 0x23] ++
  cmdData Command.PowerOffSequenceSetting [0x00] ++
  cmdData Command.BoosterSoftStart [0xC7, 0xC7, 0x1D] ++
  cmdData Command.PllControl [0x3C] ++
  cmdData Command.TemperatureSensor [0x00] ++
  updateVcom d ++
  cmdData Command.TconSetting [0x22] ++
  sendResolution ++
  cmdData Command.FlashMode [0xAA] ++
  [.delayUs 100000] ++
  updateVcom d

def updateFrame (d : DState) (b : Bytes) : List Act :=
  [W] ++ updateVcom d ++ sendResolution ++ cmdData Command.DataStartTransmission1 b

def displayFrame : List Act :=
  [W, .cmd Command.PowerOn, W, .cmd Command.DisplayRefresh, W, .cmd Command.PowerOff, WLow]

def prog (_f : Feat) (d : DState) : Op → Option (List Act)
  | .new => some (init d)
  | .wake => some (init d)
  | .sleep => some (cmdData Command.DeepSleep [0xA5])
  | .upd b => some (updateFrame d b)
  | .part _ _ _ _ _ => some [.panic]
  | .disp => some displayFrame
  | .updisp b => some (updateFrame d b ++ displayFrame)
  | .clear =>
    some ([W] ++ updateVcom d ++ sendResolution ++
      [.cmd Command.DataStartTransmission1, .rep (colorsByte d.bg d.bg) (WIDTH * HEIGHT / 2)] ++
      displayFrame)
  | .bg c => some [.upd (fun d => { d with bg := c })]
  | .lut _ => some [.panic]
  | .wait => some [W]
  | _ => none

def panel (f : Feat) : Panel :=
  { name := "epd5in65f", width := WIDTH, height := HEIGHT, single := SINGLE_BYTE_WRITE,
    busyLow := true, family := .acep, colors := 8,
    init := { bg := DEFAULT_BACKGROUND_COLOR },
    prog := prog f,
    ctrl := .uc (Uc.por WIDTH HEIGHT 4 9 false) }

attribute [driver_simp] W WLow colorsByte sendResolution updateVcom init updateFrame displayFrame prog

end EpdVerif.Drivers.Epd5in65f
