import EpdVerif.Drivers.Dsl
import EpdVerif.Gen.Epd2in9d
/-! model of `src/epd2in9d/mod.rs` -/
namespace EpdVerif.Drivers.Epd2in9d
open EpdVerif
open EpdVerif.Gen.Epd2in9d

def W : Act := .wait IS_BUSY_LOW

def init : List Act :=
  [.reset 10000 2000] ++
  cmdData Command.PanelSetting [0x1f, 0x0D] ++
  cmdData Command.ResolutionSetting [0x80, 0x01, 0x28] ++
  [.cmd Command.PowerOn, W] ++
  cmdData Command.VcomAndDataIntervalSetting [0x97]

def setLutHelper (vcom ww bw wb bb : Bytes) : List Act :=
  cmdData Command.LutForVcom vcom ++
  cmdData Command.LutWhiteToWhite ww ++
  cmdData Command.LutBlackToWhite bw ++
  cmdData Command.LutWhiteToBlack wb ++
  cmdData Command.LutBlackToBlack bb

def setLut (r : Option Refresh) : List Act :=
  (match r with | some m => [Act.upd (fun d => { d with refresh := m })] | none => []) ++
  setLutHelper LUT_VCOM1 LUT_WW1 LUT_BW1 LUT_WB1 LUT_BB1

def setPartReg : List Act :=
  [.reset 10000 2000] ++
  cmdData Command.PowerSetting [0x03, 0x00, 0x2b, 0x2b, 0x03] ++
  cmdData Command.BoosterSoftStart [0x17, 0x17, 0x17] ++
  cmdData Command.PanelSetting [0xbf, 0x0D] ++
  cmdData Command.PllControl [0x3C] ++
  cmdData Command.ResolutionSetting [0x80, 0x01, 0x28] ++
  cmdData Command.VcmDcSetting [0x12] ++
  setLut none ++
  [.cmd Command.PowerOn, W]

def sleep : List Act :=
  [.upd (fun d => { d with partialFlag := false })] ++
  cmdData Command.VcomAndDataIntervalSetting [0xf7] ++
  [.cmd Command.PowerOff, W, .delayUs 100000] ++
  cmdData Command.DeepSleep [0xA5]

def updateFrame (d : DState) (b : Bytes) : List Act :=
  (if d.partialFlag then [Act.upd (fun d => { d with partialFlag := false })] else []) ++
  [W, .cmd Command.DataStartTransmission1, .rep 0xFF EPD_ARRAY] ++
  cmdData Command.DataStartTransmission2 b ++
  [.upd (fun d => { d with oldData := b })]

def updatePartialFrame (d : DState) (b : Bytes) (x y width height : Nat) : List Act :=
  let xa := x - x % 8
  (if !d.partialFlag then
     setPartReg ++ [Act.upd (fun d => { d with partialFlag := true })]
   else []) ++
  [.cmd Command.PartialIn, .cmd Command.PartialWindow,
   .data [u8 xa]] ++
  -- `((x - x % 8) + width - 1) - 1`
  assertA (xa + width ≥ 1) ++ assertA (xa + width - 1 ≥ 1) ++
  [.data [u8 ((xa + width - 1) - 1)],
   .data [u8 (y / 256)],
   .data [u8 (y % 256)]] ++
  -- `(y + height - 1) / 256`
  assertA (y + height ≥ 1) ++
  [.data [u8 ((y + height - 1) / 256)]] ++
  -- `(y + height - 1) % 256 - 1`
  assertA ((y + height - 1) % 256 ≥ 1) ++
  [.data [u8 ((y + height - 1) % 256 - 1)],
   .data [0x28]] ++
  cmdData Command.DataStartTransmission1 d.oldData ++
  cmdData Command.DataStartTransmission2 b ++
  [.upd (fun d => { d with oldData := b })]

def displayFrame : List Act := [.cmd Command.DisplayRefresh, .delayUs 1000, W]

def clearFrame : List Act :=
  [.cmd Command.DataStartTransmission1, .rep 0x00 EPD_ARRAY,
   .cmd Command.DataStartTransmission2, .rep 0xFF EPD_ARRAY] ++ displayFrame

def prog (_f : Feat) (d : DState) : Op → Option (List Act)
  | .new => some init
  | .wake => some init
  | .sleep => some sleep
  | .upd b => some (updateFrame d b)
  | .part b x y w h => some (updatePartialFrame d b x y w h)
  | .disp => some displayFrame
  | .updisp b => some (updateFrame d b ++ displayFrame)
  | .clear => some clearFrame
  | .bg c => some [.upd (fun d => { d with bg := c })]
  | .lut r => some (setLut r)
  | .wait => some [W]
  | _ => none

def panel (f : Feat) : Panel :=
  { name := "epd2in9d", width := WIDTH, height := HEIGHT, single := SINGLE_BYTE_WRITE,
    busyLow := IS_BUSY_LOW, family := .uc, colors := 2,
    init := { bg := DEFAULT_BACKGROUND_COLOR, refresh := .full, oldData := [],
              partialFlag := false },
    prog := prog f,
    ctrl := .uc (Uc.por WIDTH HEIGHT 1 7 false) }

attribute [driver_simp] W init setLutHelper setLut setPartReg sleep updateFrame updatePartialFrame displayFrame clearFrame prog

end EpdVerif.Drivers.Epd2in9d
