import EpdVerif.Drivers.Dsl
import EpdVerif.Gen.Epd2in9d
/-! model of `src/epd2in9d/mod.rs` (STUB: programs not yet transcribed) -/
namespace EpdVerif.Drivers.Epd2in9d
open EpdVerif
open EpdVerif.Gen.Epd2in9d

def prog (_f : Feat) (_d : DState) : Op → Option (List Act)
  | _ => none

def panel (f : Feat) : Panel :=
  { name := "epd2in9d", width := WIDTH, height := HEIGHT, single := SINGLE_BYTE_WRITE,
    busyLow := IS_BUSY_LOW, family := .uc, colors := 2,
    init := { bg := DEFAULT_BACKGROUND_COLOR },
    prog := prog f,
    ctrl := .uc (Uc.por WIDTH HEIGHT 1 7 false) }

end EpdVerif.Drivers.Epd2in9d
