import EpdVerif.Drivers.Dsl
import EpdVerif.Gen.Epd1in54c
/-! model of `src/epd1in54c/mod.rs` -/
namespace EpdVerif.Drivers.Epd1in54c
open EpdVerif
open EpdVerif.Gen.Epd1in54c

def W : Act := .wait IS_BUSY_LOW

/-- `send_resolution`: the second byte is `(w >> 8) as u8` (width, as written in the Rust) -/
def sendResolution : List Act :=
  [.cmd Command.ResolutionSetting, .data [u8 WIDTH &&& 0b11111000], .data [shr8 WIDTH 8],
   .data [u8 HEIGHT]]

def init : List Act :=
  [.reset 10000 2000] ++
  cmdData Command.BoosterSoftStart [0x17, 0x17, 0x17] ++
  [.cmd Command.PowerOn, .delayUs 5000, W] ++
  cmdData Command.PanelSetting [0x0f, 0x0d] ++
  sendResolution ++
  cmdData Command.VcomAndDataIntervalSetting [0x77]

def updateAchromatic (b : Bytes) : List Act := [W] ++ cmdData Command.DataStartTransmission1 b

def updateChromatic (c : Bytes) : List Act := [W] ++ cmdData Command.DataStartTransmission2 c

def updateFrame (d : DState) (b : Bytes) : List Act :=
  updateAchromatic b ++
  [.cmd Command.DataStartTransmission2, .rep (byteValue d.bg) NUM_DISPLAY_BITS]

def displayFrame : List Act := [.cmd Command.DisplayRefresh, W]

def prog (_f : Feat) (d : DState) : Op → Option (List Act)
  | .new => some init
  | .wake => some init
  | .sleep => some ([W, .cmd Command.PowerOff, W] ++ cmdData Command.DeepSleep [0xa5])
  | .upd b => some (updateFrame d b)
  | .part _ _ _ _ _ => some [.panic]
  | .disp => some displayFrame
  | .updisp b => some (updateFrame d b ++ displayFrame)
  | .clear => some [W,
      .cmd Command.DataStartTransmission1, .rep (byteValue DEFAULT_BACKGROUND_COLOR) NUM_DISPLAY_BITS,
      .cmd Command.DataStartTransmission2, .rep (byteValue DEFAULT_BACKGROUND_COLOR) NUM_DISPLAY_BITS]
  | .bg c => some [.upd (fun d => { d with bg := c })]
  | .lut _ => some []
  | .wait => some [W]
  | .color b c => some (updateAchromatic b ++ updateChromatic c)
  | .achro b => some (updateAchromatic b)
  | .chro c => some (updateChromatic c)
  | _ => none

def panel (f : Feat) : Panel :=
  { name := "epd1in54c", width := WIDTH, height := HEIGHT, single := SINGLE_BYTE_WRITE,
    busyLow := IS_BUSY_LOW, family := .uc, colors := 2,
    init := { bg := DEFAULT_BACKGROUND_COLOR },
    prog := prog f,
    ctrl := .uc (Uc.por WIDTH HEIGHT 1 7 false) }

attribute [driver_simp] W sendResolution init updateAchromatic updateChromatic updateFrame displayFrame prog

end EpdVerif.Drivers.Epd1in54c
