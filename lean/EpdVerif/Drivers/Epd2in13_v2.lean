import EpdVerif.Drivers.Dsl
import EpdVerif.Gen.Epd2in13_v2
/-! model of `src/epd2in13_v2/mod.rs` (STUB: programs not yet transcribed) -/
namespace EpdVerif.Drivers.Epd2in13_v2
open EpdVerif
open EpdVerif.Gen.Epd2in13_v2

def prog (_f : Feat) (_d : DState) : Op → Option (List Act)
  | _ => none

def panel (f : Feat) : Panel :=
  { name := "epd2in13_v2", width := WIDTH, height := HEIGHT, single := SINGLE_BYTE_WRITE,
    busyLow := IS_BUSY_LOW, family := .ssd, colors := 2,
    init := { bg := DEFAULT_BACKGROUND_COLOR },
    prog := prog f,
    ctrl := .ssd (Ssd.por false 20 296) }

end EpdVerif.Drivers.Epd2in13_v2
