import EpdVerif.Drivers.Dsl
import EpdVerif.Gen.Epd2in13_v2
/-! model of `src/epd2in13_v2/mod.rs` (and the byte builders of its `command.rs`) -/
namespace EpdVerif.Drivers.Epd2in13_v2
open EpdVerif
open EpdVerif.Gen.Epd2in13_v2

def W : Act := .wait IS_BUSY_LOW

/-! ## `command.rs` helpers -/

/-- `BitField::set_bit` on a `u8` -/
def setBit (v i : Nat) (b : Bool) : Nat :=
  (v &&& (0xFF ^^^ (1 <<< i))) ||| (if b then 1 <<< i else 0)

/-- `BitField::set_bits(lo..hi, x)` on a `u8` -/
def setBits (v lo hi x : Nat) : Nat :=
  (v &&& (0xFF ^^^ (((1 <<< (hi - lo)) - 1) <<< lo))) ||| (x <<< lo)

/-- `DriverOutput::to_bytes` -/
def driverOutputBytes (scanIsLinear scanG0IsFirst scanDirIncr : Bool) (width : Nat) : Bytes :=
  [u8 width, shr8 width 8,
   u8 (setBit (setBit (setBit 0 0 (!scanDirIncr)) 1 (!scanG0IsFirst)) 2 (!scanIsLinear))]

/-- `DisplayUpdateControl2` builder -/
def duc2New : Nat := 0x00
def disableClock (v : Nat) : Nat := setBit v 0 true
def disableAnalog (v : Nat) : Nat := setBit v 1 true
def display (v : Nat) : Nat := setBit v 2 true
def enableClock (v : Nat) : Nat := setBit v 6 true
def enableAnalog (v : Nat) : Nat := setBit v 7 true

/-- `BorderWaveForm::to_u8` -/
def borderWaveForm (vbd fixLevel gsTrans : UInt8) : UInt8 :=
  u8 (setBits (setBits (setBits 0 6 8 vbd.toNat) 4 6 fixLevel.toNat) 0 2 gsTrans.toNat)

/-- `I32Ext::vcom` (`none` = the `assert!` fails) -/
def vcom (v : Int) : Option UInt8 :=
  if -30 ≤ v ∧ v ≤ -2 then
    some (match (-v).toNat with
      | 2 => 0x08 | 3 => 0x0B | 4 => 0x10 | 5 => 0x14 | 6 => 0x17 | 7 => 0x1B | 8 => 0x20
      | 9 => 0x24 | 10 => 0x28 | 11 => 0x2C | 12 => 0x2F | 13 => 0x34 | 14 => 0x37 | 15 => 0x3C
      | 16 => 0x40 | 17 => 0x44 | 18 => 0x48 | 19 => 0x4B | 20 => 0x50 | 21 => 0x54 | 22 => 0x58
      | 23 => 0x5B | 24 => 0x5F | 25 => 0x64 | 26 => 0x68 | 27 => 0x6C | 28 => 0x6F | 29 => 0x73
      | 30 => 0x78 | _ => 0)
  else none

/-- `I32Ext::gate_driving_decivolt` -/
def gateDrivingDecivolt (v : Int) : Option UInt8 :=
  if (100 ≤ v ∧ v ≤ 210) ∧ Int.tmod v 5 = 0 then
    some (u8 (Int.tdiv (v - 100) 5 + 0x03).toNat)
  else none

/-- `I32Ext::source_driving_decivolt` -/
def sourceDrivingDecivolt (v : Int) : Option UInt8 :=
  if (24 ≤ v ∧ v ≤ 88) ∨ (Int.tmod v 5 = 0 ∧ (90 ≤ v.natAbs ∧ v.natAbs ≤ 180)) then
    if 24 ≤ v ∧ v ≤ 88 then some (u8 ((v - 24) + 0x8E).toNat)
    else if 90 ≤ v ∧ v ≤ 180 then some (u8 (Int.tdiv (v - 90) 2 + 0x23).toNat)
    else some (u8 (Int.tdiv (-v - 90) 5 * 2 + 0x1A).toNat)
  else none

/-- use a computed byte, or panic where the helper's `assert!` fails -/
def withV (o : Option UInt8) (k : UInt8 → List Act) : List Act :=
  match o with
  | some v => k v
  | none => [.panic]

/-! ## private methods of the driver -/

def setGateScanStartPosition (start : Nat) : List Act :=
  assertA (start ≤ 295) ++
  cmdData Command.GateScanStartPosition [u8 (start &&& 0xFF), u8 ((start >>> 8) &&& 0x1)]

def setBorderWaveform (vbd fixLevel gsTrans : UInt8) : List Act :=
  cmdData Command.BorderWaveformControl [borderWaveForm vbd fixLevel gsTrans]

def setVcomRegister (v : Int) : List Act :=
  withV (vcom v) fun b => cmdData Command.WriteVcomRegister [b]

def setGateDrivingVoltage (v : Int) : List Act :=
  withV (gateDrivingDecivolt v) fun b => cmdData Command.GateDrivingVoltageCtrl [b]

def setSourceDrivingVoltage (vsh1 vsh2 vsl : Int) : List Act :=
  withV (sourceDrivingDecivolt vsh1) fun a =>
  withV (sourceDrivingDecivolt vsh2) fun b =>
  withV (sourceDrivingDecivolt vsl) fun c =>
    cmdData Command.SourceDrivingVoltageCtrl [a, b, c]

def setDummyLinePeriod (n : Nat) : List Act :=
  assertA (n ≤ 127) ++ cmdData Command.SetDummyLinePeriod [u8 n]

def setGateLineWidth (w : Nat) : List Act :=
  cmdData Command.SetGateLineWidth [u8 (w &&& 0x0F)]

def setDisplayUpdateControl2 (v : Nat) : List Act :=
  cmdData Command.DisplayUpdateControl2 [u8 v]

def setSleepMode (m : UInt8) : List Act := cmdData Command.DeepSleepMode [m]

def setDataEntryMode (incr dir : UInt8) : List Act :=
  cmdData Command.DataEntryModeSetting [incr ||| dir]

/-- `set_ram_area`: no wait, no asserts -/
def setRamArea (sx sy ex ey : Nat) : List Act :=
  cmdData Command.SetRamXAddressStartEndPosition [shr8 sx 3, shr8 ex 3] ++
  cmdData Command.SetRamYAddressStartEndPosition [u8 sy, shr8 sy 8, u8 ey, shr8 ey 8]

def setRamAddressCounters (x y : Nat) : List Act :=
  [W] ++ cmdData Command.SetRamXAddressCounter [shr8 x 3] ++
  cmdData Command.SetRamYAddressCounter [u8 y, shr8 y 8]

def fullArea : List Act :=
  setRamArea 0 0 (WIDTH - 1) (HEIGHT - 1) ++ setRamAddressCounters 0 0

/-- `buffer_len(WIDTH, HEIGHT)` -/
def bufferLen : Nat := (WIDTH + 7) / 8 * HEIGHT

def lutFull (f : Feat) : Bytes := if f.v2 then LUT_FULL_UPDATE_v2 else LUT_FULL_UPDATE_v3
def lutPartial (f : Feat) : Bytes := if f.v2 then LUT_PARTIAL_UPDATE_v2 else LUT_PARTIAL_UPDATE_v3

/-- `set_lut`: does not store the mode; `None` means the full table -/
def setLut (f : Feat) (r : Option Refresh) : List Act :=
  cmdData Command.WriteLutRegister
    (match r with
     | some .quick => lutPartial f
     | _ => lutFull f)

/-- `init` with `self.refresh = r` -/
def init (f : Feat) (r : Refresh) : List Act :=
  [.reset 10000 10000] ++
  (match r with
   | .quick =>
     setVcomRegister (-9) ++ [W] ++
     setLut f (some r) ++
     setDisplayUpdateControl2 (enableClock (enableAnalog duc2New)) ++
     [.cmd Command.MasterActivation, W] ++
     setBorderWaveform BorderWaveFormVbd.Gs BorderWaveFormFixLevel.Vss BorderWaveFormGs.Lut1
   | .full =>
     [W, .cmd Command.SwReset, W] ++
     cmdData Command.DriverOutputControl (driverOutputBytes true true true ((HEIGHT - 1) % 65536)) ++
     setDummyLinePeriod 0x30 ++
     setGateScanStartPosition 0 ++
     setDataEntryMode DataEntryModeIncr.XIncrYIncr DataEntryModeDir.XDir ++
     setRamArea 0 0 (WIDTH - 1) (HEIGHT - 1) ++
     setRamAddressCounters 0 0 ++
     setBorderWaveform BorderWaveFormVbd.Gs BorderWaveFormFixLevel.Vss BorderWaveFormGs.Lut3 ++
     setVcomRegister (-21) ++
     setGateDrivingVoltage 190 ++
     setSourceDrivingVoltage 150 50 (-150) ++
     setGateLineWidth 10 ++
     setLut f (some r)) ++
  [W]

def setPartialBaseBuffer (b : Bytes) : List Act :=
  assertA (bufferLen = b.length) ++ fullArea ++ cmdData Command.WriteRamRed b

def updateFrame (d : DState) (b : Bytes) : List Act :=
  assertA (b.length = bufferLen) ++ fullArea ++ cmdData Command.WriteRam b ++
  (match d.refresh with
   | .full => fullArea ++ cmdData Command.WriteRamRed b
   | .quick => [])

def displayFrame (d : DState) : List Act :=
  (match d.refresh with
   | .full =>
     setDisplayUpdateControl2
       (disableClock (disableAnalog (display (enableAnalog (enableClock duc2New)))))
   | .quick => setDisplayUpdateControl2 (display duc2New)) ++
  [.cmd Command.MasterActivation, W]

def prog (f : Feat) (d : DState) : Op → Option (List Act)
  | .new => some (init f d.refresh)
  | .wake => some (init f d.refresh)
  | .sleep =>
    some ([W] ++
      setDisplayUpdateControl2 (disableClock (disableAnalog (enableClock (enableAnalog duc2New)))) ++
      [.cmd Command.MasterActivation] ++
      setSleepMode d.sleepMode)
  | .upd b => some (updateFrame d b)
  | .part b x y w h =>
    some (assertA (w * h / 8 = b.length) ++ assertA (d.refresh = .full) ++
      setRamArea x y (x + w) (y + h) ++ setRamAddressCounters x y ++
      cmdData Command.WriteRam b ++
      (match d.refresh with
       | .full =>
         setRamArea x y (x + w) (y + h) ++ setRamAddressCounters x y ++
         cmdData Command.WriteRamRed b
       | .quick => []))
  | .disp => some (displayFrame d)
  | .updisp b =>
    some (updateFrame d b ++ displayFrame d ++
      (match d.refresh with
       | .quick => setPartialBaseBuffer b
       | .full => []))
  | .clear =>
    some (fullArea ++ [.cmd Command.WriteRam, .rep (byteValue d.bg) bufferLen] ++
      (match d.refresh with
       | .full => fullArea ++ [.cmd Command.WriteRamRed, .rep (byteValue d.bg) bufferLen]
       | .quick => []))
  | .bg c => some [.upd (fun d => { d with bg := c })]
  | .lut r => some (setLut f r)
  | .wait => some [W]
  | .base b => some (setPartialBaseBuffer b)
  | .refresh r =>
    some (if d.refresh ≠ r then [Act.upd (fun d => { d with refresh := r })] ++ init f r else [])
  | _ => none

def panel (f : Feat) : Panel :=
  { name := "epd2in13_v2", width := WIDTH, height := HEIGHT, single := SINGLE_BYTE_WRITE,
    busyLow := IS_BUSY_LOW, family := .ssd, colors := 2,
    init := { bg := DEFAULT_BACKGROUND_COLOR, refresh := .full, sleepMode := DeepSleepMode.Mode1 },
    prog := prog f,
    ctrl := .ssd (Ssd.por false 20 296) }

attribute [driver_simp] W setBit setBits driverOutputBytes duc2New disableClock disableAnalog display enableClock enableAnalog borderWaveForm vcom gateDrivingDecivolt sourceDrivingDecivolt withV setGateScanStartPosition setBorderWaveform setVcomRegister setGateDrivingVoltage setSourceDrivingVoltage setDummyLinePeriod setGateLineWidth setDisplayUpdateControl2 setSleepMode setDataEntryMode setRamArea setRamAddressCounters fullArea bufferLen lutFull lutPartial setLut init setPartialBaseBuffer updateFrame displayFrame prog

end EpdVerif.Drivers.Epd2in13_v2
