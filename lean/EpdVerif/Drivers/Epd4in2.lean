import EpdVerif.Drivers.Dsl
import EpdVerif.Gen.Epd4in2
/-! model of `src/epd4in2/mod.rs` -/
namespace EpdVerif.Drivers.Epd4in2
open EpdVerif
open EpdVerif.Gen.Epd4in2

def W : Act := .wait IS_BUSY_LOW

def sendResolution : List Act :=
  [.cmd Command.ResolutionSetting, .data [shr8 WIDTH 8], .data [u8 WIDTH],
   .data [shr8 HEIGHT 8], .data [u8 HEIGHT]]

def setLutHelper (vcom ww bw wb bb : Bytes) : List Act :=
  [W] ++
  cmdData Command.LutForVcom vcom ++
  cmdData Command.LutWhiteToWhite ww ++
  cmdData Command.LutBlackToWhite bw ++
  cmdData Command.LutWhiteToBlack wb ++
  cmdData Command.LutBlackToBlack bb

def setLut (d : DState) (r : Option Refresh) : List Act :=
  (match r with | some m => [Act.upd (fun d => { d with refresh := m })] | none => []) ++
  (match r.getD d.refresh with
   | .full => setLutHelper LUT_VCOM0 LUT_WW LUT_BW LUT_WB LUT_BB
   | .quick => setLutHelper LUT_VCOM0_QUICK LUT_WW_QUICK LUT_BW_QUICK LUT_WB_QUICK LUT_BB_QUICK)

def init (d : DState) : List Act :=
  [.reset 10000 10000] ++
  cmdData Command.PowerSetting [0x03, 0x00, 0x2b, 0x2b, 0xff] ++
  cmdData Command.BoosterSoftStart [0x17, 0x17, 0x17] ++
  [.cmd Command.PowerOn, .delayUs 5000, W] ++
  cmdData Command.PanelSetting [0x3F] ++
  cmdData Command.PllControl [0x3A] ++
  sendResolution ++
  cmdData Command.VcmDcSetting [0x12] ++
  cmdData Command.VcomAndDataIntervalSetting [0x97] ++
  setLut d none ++ [W]

/-- `shift_display` (and the identical inline code of `update_partial_frame`): nine single-byte
    `data` calls; `tmp + width - 1` and `y + height - 1` are u32 expressions evaluated left to
    right, so they underflow (panic in the dev profile) exactly when the sum is 0 -/
def shiftDisplay (x y w h : Nat) : List Act :=
  let tmp := x &&& 0xf8
  let tmp2 := tmp + w - 1
  [.data [shr8 x 8], .data [u8 tmp]] ++
  assertA (tmp + w ≥ 1) ++
  [.data [shr8 tmp2 8], .data [u8 (tmp2 ||| 0x07)],
   .data [shr8 y 8], .data [u8 y]] ++
  assertA (y + h ≥ 1) ++
  [.data [shr8 (y + h - 1) 8], .data [u8 (y + h - 1)], .data [0x01]]

def updateFrame (d : DState) (b : Bytes) : List Act :=
  [W, .cmd Command.DataStartTransmission1, .rep (byteValue d.bg) (WIDTH / 8 * HEIGHT)] ++
  cmdData Command.DataStartTransmission2 b

def displayFrame : List Act := [W, .cmd Command.DisplayRefresh]

def updateNewFrame (b : Bytes) : List Act := [W, .cmd Command.DataStartTransmission2, .data b]

def prog (_f : Feat) (d : DState) : Op → Option (List Act)
  | .new => some (init d)
  | .wake => some (init d)
  | .sleep => some ([W] ++ cmdData Command.VcomAndDataIntervalSetting [0x17] ++
      [.cmd Command.VcmDcSetting, .cmd Command.PanelSetting, .cmd Command.PowerSetting] ++
      dataEach [0x00, 0x00, 0x00, 0x00] ++
      [.cmd Command.PowerOff, W] ++ cmdData Command.DeepSleep [0xA5])
  | .upd b => some (updateFrame d b)
  | .part b x y w h => some ([W, .cmd Command.PartialIn, .cmd Command.PartialWindow] ++
      shiftDisplay x y w h ++
      [.cmd Command.DataStartTransmission2, .data b, .cmd Command.PartialOut])
  | .disp => some displayFrame
  | .updisp b => some (updateFrame d b ++ [.cmd Command.DisplayRefresh])
  | .clear => some ([W] ++ sendResolution ++
      [.cmd Command.DataStartTransmission1, .rep (byteValue d.bg) (WIDTH / 8 * HEIGHT),
       .cmd Command.DataStartTransmission2, .rep (byteValue d.bg) (WIDTH / 8 * HEIGHT)])
  | .bg c => some [.upd (fun d => { d with bg := c })]
  | .lut r => some (setLut d r)
  | .wait => some [W]
  | .old b => some [W, .cmd Command.DataStartTransmission1, .data b]
  | .newf b => some (updateNewFrame b)
  | .dispnew => some displayFrame
  | .updispnew b => some (updateNewFrame b ++ displayFrame)
  | .pold b x y w h => some ([W, .cmd Command.PartialIn, .cmd Command.PartialWindow] ++
      shiftDisplay x y w h ++ [.cmd Command.DataStartTransmission1, .data b])
  | .pnew b x y w h => some ([W] ++ shiftDisplay x y w h ++
      [.cmd Command.DataStartTransmission2, .data b, .cmd Command.PartialOut])
  | .pclear x y w h => some ([W] ++ sendResolution ++
      [.cmd Command.PartialIn, .cmd Command.PartialWindow] ++
      shiftDisplay x y w h ++
      [.cmd Command.DataStartTransmission1, .rep (byteValue d.bg) (w / 8 * h),
       .cmd Command.DataStartTransmission2, .rep (byteValue d.bg) (w / 8 * h),
       .cmd Command.PartialOut])
  | _ => none

def panel (f : Feat) : Panel :=
  { name := "epd4in2", width := WIDTH, height := HEIGHT, single := SINGLE_BYTE_WRITE,
    busyLow := IS_BUSY_LOW, family := .uc, colors := 2,
    init := { bg := DEFAULT_BACKGROUND_COLOR, refresh := .full },
    prog := prog f,
    ctrl := .uc (Uc.por WIDTH HEIGHT 1 9 false) }

attribute [driver_simp] W sendResolution setLutHelper setLut init shiftDisplay updateFrame displayFrame updateNewFrame prog

end EpdVerif.Drivers.Epd4in2
