import EpdVerif.Drivers.Dsl
import EpdVerif.Gen.Epd2in7
/-! model of `src/epd2in7/mod.rs` (STUB: programs not yet transcribed) -/
namespace EpdVerif.Drivers.Epd2in7
open EpdVerif
open EpdVerif.Gen.Epd2in7

def prog (_f : Feat) (_d : DState) : Op → Option (List Act)
  | _ => none

def panel (f : Feat) : Panel :=
  { name := "epd2in7", width := WIDTH, height := HEIGHT, single := SINGLE_BYTE_WRITE,
    busyLow := IS_BUSY_LOW, family := .uc, colors := 2,
    init := { bg := DEFAULT_BACKGROUND_COLOR },
    prog := prog f,
    ctrl := .uc (Uc.por WIDTH HEIGHT 1 9 true) }

end EpdVerif.Drivers.Epd2in7
