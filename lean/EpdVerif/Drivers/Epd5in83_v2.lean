import EpdVerif.Drivers.Dsl
import EpdVerif.Gen.Epd5in83_v2
/-! model of `src/epd5in83_v2/mod.rs` -/
namespace EpdVerif.Drivers.Epd5in83_v2
open EpdVerif
open EpdVerif.Gen.Epd5in83_v2

def W : Act := .wait IS_BUSY_LOW

def sendResolution : List Act :=
  [.cmd Command.TconResolution, .data [shr8 WIDTH 8], .data [u8 WIDTH],
   .data [shr8 HEIGHT 8], .data [u8 HEIGHT]]

def init : List Act :=
  [.reset 2000 50] ++
  cmdData Command.PowerSetting [0x07, 0x07, 0x3F, 0x3F] ++
  [.cmd Command.PowerOn, .delayUs 5000, W] ++
  cmdData Command.PanelSetting [0x1F] ++
  sendResolution ++
  cmdData Command.DualSPI [0x00] ++
  cmdData Command.VcomAndDataIntervalSetting [0x10, 0x07] ++
  cmdData Command.TconSetting [0x22] ++
  [W]

def updateFrame (d : DState) (b : Bytes) : List Act :=
  [W, .cmd Command.DataStartTransmission1, .rep (byteValue d.bg) (WIDTH / 8 * HEIGHT)] ++
  cmdData Command.DataStartTransmission2 b

def displayFrame : List Act := [.cmd Command.DisplayRefresh, W]

def prog (_f : Feat) (d : DState) : Op → Option (List Act)
  | .new => some init
  | .wake => some init
  | .sleep => some ([W, .cmd Command.PowerOff, W] ++ cmdData Command.DeepSleep [0xA5])
  | .upd b => some (updateFrame d b)
  | .part _ _ _ _ _ => some [.panic]
  | .disp => some displayFrame
  | .updisp b => some (updateFrame d b ++ displayFrame)
  | .clear =>
    some [W, .cmd Command.DataStartTransmission1, .rep 0xFF NUM_DISPLAY_BITS,
          .cmd Command.DataStartTransmission2, .rep 0x00 NUM_DISPLAY_BITS]
  | .bg c => some [.upd (fun d => { d with bg := c })]
  | .lut _ => some [.panic]
  | .wait => some [W]
  | _ => none

def panel (f : Feat) : Panel :=
  { name := "epd5in83_v2", width := WIDTH, height := HEIGHT, single := SINGLE_BYTE_WRITE,
    busyLow := IS_BUSY_LOW, family := .uc, colors := 2,
    init := { bg := DEFAULT_BACKGROUND_COLOR },
    prog := prog f,
    ctrl := .uc (Uc.por WIDTH HEIGHT 1 9 false) }

attribute [driver_simp] W sendResolution init updateFrame displayFrame prog

end EpdVerif.Drivers.Epd5in83_v2
