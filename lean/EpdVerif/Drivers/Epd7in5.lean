import EpdVerif.Drivers.Dsl
import EpdVerif.Gen.Epd7in5
/-! model of `src/epd7in5/mod.rs` -/
namespace EpdVerif.Drivers.Epd7in5
open EpdVerif
open EpdVerif.Gen.Epd7in5

def W : Act := .wait IS_BUSY_LOW

def sendResolution : List Act :=
  [.cmd Command.TconResolution, .data [shr8 WIDTH 8], .data [u8 WIDTH],
   .data [shr8 HEIGHT 8], .data [u8 HEIGHT]]

def init : List Act :=
  [.reset 10000 10000] ++
  cmdData Command.PowerSetting [0x37, 0x00] ++
  cmdData Command.PanelSetting [0xCF, 0x08] ++
  cmdData Command.BoosterSoftStart [0xC7, 0xCC, 0x28] ++
  [.cmd Command.PowerOn, .delayUs 5000, W] ++
  cmdData Command.PllControl [0x3C] ++
  cmdData Command.TemperatureCalibration [0x00] ++
  cmdData Command.VcomAndDataIntervalSetting [0x77] ++
  cmdData Command.TconSetting [0x22] ++
  sendResolution ++
  cmdData Command.VcmDcSetting [0x1E] ++
  cmdData Command.FlashMode [0x03] ++
  [W]

/-- one iteration of the inner `for _ in 0..4` loop of `update_frame`: the data byte built
    from the two top bits of `temp`, and `temp` after the two `<<= 1` (u8 shifts) -/
def expandStep (temp : UInt8) : UInt8 × UInt8 :=
  let data : UInt8 := if temp &&& 0x80 == 0 then 0x00 else 0x03
  let data := data <<< 4
  let temp := temp <<< 1
  let data := data ||| (if temp &&& 0x80 == 0 then 0x00 else 0x03)
  let temp := temp <<< 1
  (data, temp)

/-- the four `send_data(&[data])` calls made for one input byte -/
def expandByte (b : UInt8) : List Act :=
  let s0 := expandStep b
  let s1 := expandStep s0.2
  let s2 := expandStep s1.2
  let s3 := expandStep s2.2
  [.data [s0.1], .data [s1.1], .data [s2.1], .data [s3.1]]

def updateFrame (b : Bytes) : List Act :=
  [W, .cmd Command.DataStartTransmission1] ++ b.flatMap expandByte

def prog (_f : Feat) (_d : DState) : Op → Option (List Act)
  | .new => some init
  | .wake => some init
  | .sleep => some ([W, .cmd Command.PowerOff, W] ++ cmdData Command.DeepSleep [0xA5])
  | .upd b => some (updateFrame b)
  | .part _ _ _ _ _ => some [.panic]
  | .disp => some [W, .cmd Command.DisplayRefresh]
  | .updisp b => some (updateFrame b ++ [.cmd Command.DisplayRefresh])
  | .clear =>
    some ([W] ++ sendResolution ++
      [.cmd Command.DataStartTransmission1, .rep 0x33 (WIDTH / 8 * HEIGHT * 4)])
  | .bg c => some [.upd (fun d => { d with bg := c })]
  | .lut _ => some [.panic]
  | .wait => some [W]
  | _ => none

def panel (f : Feat) : Panel :=
  { name := "epd7in5", width := WIDTH, height := HEIGHT, single := SINGLE_BYTE_WRITE,
    busyLow := IS_BUSY_LOW, family := .uc, colors := 2,
    init := { bg := DEFAULT_BACKGROUND_COLOR },
    prog := prog f,
    ctrl := .uc (Uc.por WIDTH HEIGHT 4 9 false) }

attribute [driver_simp] W sendResolution init expandStep expandByte updateFrame prog

end EpdVerif.Drivers.Epd7in5
