import Lean
/-! simp set holding the definitions of all driver models (unfolded by `prog_eval`) -/
register_simp_attr driver_simp
