import EpdVerif.Rect
import EpdVerif.Scenario
import EpdVerif.Gen.Epd12in48b_v2
/-!
# The 12.48in driver (`src/epd12in48b_v2/mod.rs`): transport, programs, oracle

Four UC81xx-class sub-controllers share one SPI bus; each listens while its chip select is low,
D/C comes from its pair's line.  `BAct` is the driver's own vocabulary (`spi_write(control, …)`,
`flush`, `wait_ready`, delays, the reset sequence); `runB` is the model of `spi_write` / `flush`
(control-state caching, bus flush and the two 100 ns delays before new pin levels, pins driven
before the first byte that needs them).
-/
namespace EpdVerif.Big
open EpdVerif
open EpdVerif.Gen.Epd12in48b_v2

inductive BAct
  | sw (control : Nat) (data : Bytes)     -- spi_write(control, data)
  | flush
  | waitReady                              -- wait_ready(CS_ALL), errors dropped
  | delayMs (n : Nat)
  | delayUs (n : Nat)
  | resetSeq
  | getStatus
  | busyQuery
  | panic
  deriving Repr, Inhabited, DecidableEq

inductive BEv
  | w (cs dc : Nat) (lens : List (Nat × Nat)) (bytes : Bytes)
  | flush
  | rst (line : Nat) (lvl : Bool)
  | busy (lvl : Bool) (pin : Nat)
  | delay (u : DUnit) (n : Nat)
  | read (cs dc len : Nat)
  | fail (cs dc len : Nat)          -- the failed `SpiBus::write` (injected fault)
  | failFlush                        -- the failed `SpiBus::flush`
  deriving Repr, Inhabited, DecidableEq

structure BEnv where
  ctl : Nat := 0            -- `control_state`
  sched : List Nat := []
  busy : Nat := 0
  raise : List UInt8 := []
  busyLvl : Bool := false
  cs : Nat := 0             -- chips currently selected (mask), as the pins stand
  dc : Nat := 0
  fault : Option Nat := none   -- the (k+1)-th fallible bus call (write or flush) from now on fails
  slow : Option Nat := none    -- only this controller's BUSY pin follows the episode; the others read idle
  deriving Repr, Inhabited

def BEnv.raiseBusy (e : BEnv) : BEnv :=
  match e.sched with
  | [] => { e with busy := 0 }
  | d :: ds => { e with busy := d, sched := ds }

def rect (r : Nat × Nat × Nat × Nat) : Rect := ⟨r.1, r.2.1, r.2.2.1, r.2.2.2⟩
def fullRect : Rect := rect FULL_RECT
def s2Rect : Rect := rect S2_RECT
def m2Rect : Rect := rect M2_RECT
def m1Rect : Rect := rect M1_RECT
def s1Rect : Rect := rect S1_RECT

/-- one pin read of the shared busy model -/
def pollOnce (e : BEnv) (pin : Nat) : Bool × BEnv :=
  if e.slow.isSome ∧ e.slow ≠ some pin then (!e.busyLvl, e) else
  if e.busy > 0 then (e.busyLvl, { e with busy := e.busy - 1 }) else (!e.busyLvl, e)

/-- `busy_chips(CS_ALL)`: four pin reads; a chip is busy when its pin is low -/
def busyChips (e : BEnv) : List BEv × Bool × BEnv :=
  let r1 := pollOnce e 0
  let r2 := pollOnce r1.2 1
  let r3 := pollOnce r2.2 2
  let r4 := pollOnce r3.2 3
  ([.busy r1.1 0, .busy r2.1 1, .busy r3.1 2, .busy r4.1 3], (!r1.1 || !r2.1 || !r3.1 || !r4.1), r4.2)

/-- `wait_ready`: `while busy_chips != 0 { delay_ms(200) }` (fuel = polls cannot exceed the pending
    duration + 1 rounds when the pin polarity is the family's; otherwise `hang`) -/
def waitReady : Nat → BEnv → List BEv × BEnv × Bool
  | 0, e => ([], e, true)
  | fuel + 1, e =>
    let r := busyChips e
    if r.2.1 then
      let rest := waitReady fuel r.2.2
      (r.1 ++ [BEv.delay .ms 200] ++ rest.1, rest.2.1, rest.2.2)
    else (r.1, r.2.2, false)

/-- `spi_write`'s pin update when the cached control state differs -/
def BEnv.select (e : BEnv) (control : Nat) : BEnv :=
  if e.ctl ≠ control then
    { e with ctl := control, cs := control % 16, dc := if control / 16 % 2 = 1 then 3 else 0 }
  else e

/-- the simulated panel raises BUSY on a one-byte command transfer of its trigger set -/
def BEnv.sent (e : BEnv) (data : Bytes) : BEnv :=
  match data with
  | [c] => if e.dc = 0 ∧ e.raise.contains c then e.raiseBusy else e
  | _ => e

def stepB (e : BEnv) : BAct → List BEv × BEnv × Res
  | .sw control data =>
    let pre : List BEv := if e.ctl ≠ control then [.flush, .delay .ns 100, .delay .ns 100] else []
    (pre ++ [.w (e.select control).cs (e.select control).dc [(data.length, 1)] data], (e.select control).sent data, .ok)
  | .flush => ([.flush], { e with ctl := 0, cs := 0, dc := 0 }, .ok)
  | .waitReady =>
    let r := waitReady (e.busy + 2) e
    (r.1, r.2.1, if r.2.2 then .hang else .ok)
  | .delayMs n => ([.delay .ms n], e, .ok)
  | .delayUs n => ([.delay .us n], e, .ok)
  | .resetSeq =>
    ([.rst 0 true, .rst 1 true, .delay .ms 1, .rst 0 false, .delay .us 100, .rst 0 true, .delay .ms 100,
      .rst 1 false, .delay .us 100, .rst 1 true, .delay .ms 100],
     { (e.raiseBusy.raiseBusy.raiseBusy.raiseBusy) with ctl := 0, cs := 0, dc := 0 }, .ok)
  | .getStatus =>
    let one (k : Nat) : List BEv :=
      [.delay .ns 100, .w (2 ^ k) 0 [(1, 1)] [0x71], .flush, .delay .ns 100, .delay .ns 100, .read (2 ^ k) (if k < 2 then 1 else 2) 1,
       .delay .ns 100, .delay .ns 100]
    (one 0 ++ one 1 ++ one 2 ++ one 3, { e with ctl := 0, cs := 0, dc := 0 }, .ok)
  | .busyQuery => let r := busyChips e; (r.1, r.2.2, .ok)
  | .panic => ([], e, .panic)

def runB (e : BEnv) : List BAct → List BEv × BEnv × Res
  | [] => ([], e, .ok)
  | a :: as =>
    let r := stepB e a
    match r.2.2 with
    | .ok => let r' := runB r.2.1 as; (r.1 ++ r'.1, r'.2.1, r'.2.2)
    | x => (r.1, r.2.1, x)


/-! ### the same with an injected bus fault (C04): `spi.write(..)?` / `spi.flush()?` -/

def BEnv.tick (e : BEnv) : Bool × BEnv :=
  match e.fault with
  | some 0 => (true, { e with fault := none })
  | some (k + 1) => (false, { e with fault := some k })
  | none => (false, e)

/-- one chip of `get_status` (index k: M1, S1, M2, S2): pins, write 0x71, flush, read -/
def statusOne (e : BEnv) (k : Nat) : List BEv × BEnv × Res :=
  let line := if k < 2 then 1 else 2
  let eLow : BEnv := { e with cs := e.cs ||| 2 ^ k, dc := e.dc &&& (3 - line) }
  let t := eLow.tick
  if t.1 then ([.delay .ns 100, .fail eLow.cs eLow.dc 1], t.2, .err) else
  let t2 := t.2.tick
  if t2.1 then ([.delay .ns 100, .w eLow.cs eLow.dc [(1, 1)] [0x71], .failFlush], t2.2, .err) else
  let eHigh : BEnv := { t2.2 with dc := t2.2.dc ||| line }
  ([.delay .ns 100, .w eLow.cs eLow.dc [(1, 1)] [0x71], .flush, .delay .ns 100, .delay .ns 100,
    .read eHigh.cs eHigh.dc 1, .delay .ns 100, .delay .ns 100],
   { eHigh with cs := eHigh.cs &&& (15 - 2 ^ k), dc := eHigh.dc &&& (3 - line) }, .ok)

def stepBF (e : BEnv) : BAct → List BEv × BEnv × Res
  | .sw control data =>
    if e.ctl ≠ control then
      let t := e.tick                      -- `self.peris.spi.flush()?`
      if t.1 then ([.failFlush], t.2, .err) else
      let e1 := t.2.select control
      let t2 := e1.tick                    -- `self.peris.spi.write(data)`
      if t2.1 then ([.flush, .delay .ns 100, .delay .ns 100, .fail e1.cs e1.dc data.length], t2.2, .err)
      else ([.flush, .delay .ns 100, .delay .ns 100, .w e1.cs e1.dc [(data.length, 1)] data], t2.2.sent data, .ok)
    else
      let t2 := e.tick
      if t2.1 then ([.fail e.cs e.dc data.length], t2.2, .err)
      else ([.w e.cs e.dc [(data.length, 1)] data], t2.2.sent data, .ok)
  | .flush =>
    let t := e.tick
    if t.1 then ([.failFlush], t.2, .err) else ([.flush], { t.2 with ctl := 0, cs := 0, dc := 0 }, .ok)
  | .getStatus =>
    -- `self.control_state = 0xFF` first; an error leaves it (and the pins) as they are
    let e0 : BEnv := { e with ctl := 255 }
    let r0 := statusOne e0 0
    if r0.2.2 ≠ .ok then r0 else
    let r1 := statusOne r0.2.1 1
    if r1.2.2 ≠ .ok then (r0.1 ++ r1.1, r1.2.1, r1.2.2) else
    let r2 := statusOne r1.2.1 2
    if r2.2.2 ≠ .ok then (r0.1 ++ r1.1 ++ r2.1, r2.2.1, r2.2.2) else
    let r3 := statusOne r2.2.1 3
    if r3.2.2 ≠ .ok then (r0.1 ++ r1.1 ++ r2.1 ++ r3.1, r3.2.1, r3.2.2) else
    (r0.1 ++ r1.1 ++ r2.1 ++ r3.1, { r3.2.1 with ctl := 0 }, .ok)
  | .resetSeq =>
    -- `reset()` is all pin traffic: no fallible bus call
    let r := stepB e .resetSeq
    (r.1, { r.2.1 with fault := e.fault }, r.2.2)
  | a => stepB e a

def runBF (e : BEnv) : List BAct → List BEv × BEnv × Res
  | [] => ([], e, .ok)
  | a :: as =>
    let r := stepBF e a
    match r.2.2 with
    | .ok => let r' := runBF r.2.1 as; (r.1 ++ r'.1, r'.2.1, r'.2.2)
    | x => (r.1, r.2.1, x)

/-! ## the driver's programs -/

def CS_ALLm : Nat := CS_ALL
def DATA : Nat := CS_DATA

def cmd (chips : Nat) (c : UInt8) : List BAct := [.sw chips [c]]
def cmdData (chips : Nat) (c : UInt8) (d : Bytes) : List BAct := [.sw chips [c], .sw (chips + DATA) d]

structure Cfg where
  invKw : Bool
  invR : Bool
  border : Nat      -- 0 LUTBD, 1 LUTK, 2 LUTW, 3 LUTR
  extLut : Bool
  deriving Repr, Inhabited, DecidableEq

def resData (r : Rect) : Bytes := [u8 (r.w / 256), u8 (r.w % 256), u8 (r.h / 256), u8 (r.h % 256)]

/-- DDX (bits 1:0 of the VCOM-and-data-interval register) -/
def ddxOf (c : Cfg) : Nat :=
  match c.invR, c.invKw with
  | false, true => 0 | false, false => 1 | true, true => 2 | true, false => 3

/-- BDV (bits 5:4): the border selector, whose meaning depends on DDX[0] -/
def bdvOf (c : Cfg) : Nat :=
  let ddx0 : Bool := ddxOf c % 2 == 1
  match ddx0, c.border with
  | false, 0 => 0 | false, 3 => 1 | false, 2 => 2 | false, _ => 3
  | true, 1 => 0 | true, 2 => 1 | true, 3 => 2 | true, _ => 3

def modeReg (c : Cfg) : Nat := (bdvOf c * 16) ||| ddxOf c

def setMode (c : Cfg) : List BAct :=
  let reg : Nat := if c.extLut then 32 else 0
  cmdData CS_M1 Command.PanelSetting [u8 (reg ||| 0x0F)] ++
  cmdData CS_S1 Command.PanelSetting [u8 (reg ||| 0x0F)] ++
  cmdData CS_M2 Command.PanelSetting [u8 (reg ||| 0x03)] ++
  cmdData CS_S2 Command.PanelSetting [u8 (reg ||| 0x03)] ++
  cmdData CS_ALLm Command.VcomAndDataIntervalSetting [u8 (modeReg c), 0x07] ++
  [.flush]

def initP (c : Cfg) : List BAct :=
  cmdData CS_ALLm Command.BoosterSoftStart [0x17, 0x17, 0x39, 0x17] ++
  cmdData CS_M1 Command.TconResolution (resData m1Rect) ++
  cmdData CS_S1 Command.TconResolution (resData s1Rect) ++
  cmdData CS_M2 Command.TconResolution (resData m2Rect) ++
  cmdData CS_S2 Command.TconResolution (resData s2Rect) ++
  cmdData CS_ALLm Command.DualSPI [0x20] ++
  cmdData CS_ALLm Command.TconSetting [0x22] ++
  cmdData CS_ALLm Command.PowerSaving [0x00] ++
  cmdData CS_ALLm Command.CascadeSetting [0x03] ++
  cmdData CS_ALLm Command.ForceTemperature [25] ++
  setMode c ++ [.flush]

/-- `a.intersect(b)` in the driver's use (all operands far from u32 overflow) -/
def isect (a b : Rect) : Rect := (a.intersect b).getD ⟨0, 0, 0, 0⟩

def partialWindowData (w : Rect) (reverse : Option Nat) : List BAct × Bytes :=
  if w.isEmpty then ([], [0x00, 0x00, 0xFF, 0xFF, 0x00, 0x00, 0xFF, 0xFF, 0x01])
  else
    let guard : List BAct := match reverse with
      | some width => if width ≥ w.x + w.w then [] else [.panic]
      | none => []
    let sx := match reverse with | some width => width - w.x - w.w | none => w.x
    let ex := sx + w.w - 1
    let sy := w.y
    let ey := sy + w.h - 1
    (guard, [u8 (sx / 256), u8 (sx % 256), u8 (ex / 256), u8 (ex % 256), u8 (sy / 256), u8 (sy % 256),
             u8 (ey / 256), u8 (ey % 256), 0x01])

/-- `window.intersect(R).sub_offset(R.x, R.y)` (the offset never exceeds the origin of a non-empty
    intersection; for an empty one `sub_offset` may underflow → panic in the dev profile) -/
def localPart (win r : Rect) : List BAct × Rect :=
  let i := isect win r
  match i.subOffset r.x r.y with
  | some l => ([], l)
  | none => ([.panic], i)

def setupPartialWindows (win : Rect) : List BAct :=
  if ¬ (win.x + win.w < Rect.U32 ∧ win.y + win.h < Rect.U32) then [.panic] else   -- `intersect` overflows
  let s2 := localPart win s2Rect
  let m2 := localPart win m2Rect
  let m1 := localPart win m1Rect
  let s1 := localPart win s1Rect
  let d2 := partialWindowData s2.2 (some s2Rect.w)
  let dm2 := partialWindowData m2.2 (some m2Rect.w)
  let dm1 := partialWindowData m1.2 none
  let ds1 := partialWindowData s1.2 none
  s2.1 ++ m2.1 ++ m1.1 ++ s1.1 ++
  d2.1 ++ cmdData CS_S2 Command.PartialWindow d2.2 ++
  dm2.1 ++ cmdData CS_M2 Command.PartialWindow dm2.2 ++
  dm1.1 ++ cmdData CS_M1 Command.PartialWindow dm1.2 ++
  ds1.1 ++ cmdData CS_S1 Command.PartialWindow ds1.2

/-- `row_offset` closure of `write_window_data` (`n` = `pixels.len()`) -/
def rowOffset (n stride row : Nat) : Nat :=
  let o := row * stride
  if o < n then o else o % n

/-- one `for y in 0..count { spi_write(chip | CS_DATA, &pixels[begin..end]) }` loop;
    a slice out of range panics -/
def rowsOf (px : Bytes) (stride chip count first off len : Nat) : List BAct :=
  (List.range count).flatMap fun yy =>
    let b := rowOffset px.length stride (first + yy) + off
    if b + len ≤ px.length then [BAct.sw (chip + DATA) ((px.drop b).take len)] else [BAct.panic]

/-- `write_window_data` -/
def writeWindowData (tc : UInt8) (win : Rect) (pixels : Bytes) : List BAct :=
  if pixels.isEmpty then [.panic] else
  let top := (isect win s2Rect).h
  let bottom := (isect win s1Rect).h
  let left := (isect win s2Rect).w / 8
  let right := (isect win s1Rect).w / 8
  (if top > 0 then
    (if left > 0 then cmd CS_S2 tc ++ rowsOf pixels (left + right) CS_S2 top 0 0 left else []) ++
    (if right > 0 then cmd CS_M2 tc ++ rowsOf pixels (left + right) CS_M2 top 0 left right else [])
   else []) ++
  (if bottom > 0 then
    (if left > 0 then cmd CS_M1 tc ++ rowsOf pixels (left + right) CS_M1 bottom top 0 left else []) ++
    (if right > 0 then cmd CS_S1 tc ++ rowsOf pixels (left + right) CS_S1 bottom top left right else [])
   else [])

def writePartial (tc : UInt8) (win : Rect) (pixels : Bytes) : List BAct :=
  (if win.x % 8 ≠ 0 ∨ win.w % 8 ≠ 0 then [.panic] else []) ++
  cmd CS_ALLm Command.PartialIn ++ setupPartialWindows win ++ writeWindowData tc win pixels ++
  cmd CS_ALLm Command.PartialOut

def beginRefresh : List BAct :=
  cmd CS_ALLm Command.PowerOn ++ [.waitReady, .delayMs 100] ++ cmd CS_ALLm Command.DisplayRefresh ++ [.flush]

def beginRefreshPartial (win : Rect) : List BAct :=
  setupPartialWindows win ++ cmd CS_ALLm Command.PowerOn ++ [.waitReady, .delayMs 100] ++
  cmd CS_ALLm Command.PartialIn ++ cmd CS_ALLm Command.DisplayRefresh ++ cmd CS_ALLm Command.PartialOut ++ [.flush]

def setLut (c : UInt8) (data : Bytes) (reqd : Nat) : List BAct :=
  cmdData CS_ALLm c data ++
  (if data.length < reqd then [.sw (CS_ALLm + DATA) (List.replicate (reqd - data.length) 0)] else []) ++ [.flush]

def parseCfg (s : String) : Option Cfg :=
  match s.toList with
  | [a, b, c, d] => some { invKw := a == '1', invR := b == '1', border := if c == '0' then 0 else if c == '1' then 1 else if c == '2' then 2 else 3, extLut := d == '1' }
  | _ => none

def parseWin (a : List String) : Option Rect :=
  match a.mapM String.toNat? with
  | some [x, y, w, h] => some ⟨x, y, w, h⟩
  | _ => none

/-- the public calls of `EpdDriver` with their arguments -/
inductive PubOp
  | reset | init (c : Cfg) | mode (c : Cfg)
  | d1 (px : Bytes) | d2 (px : Bytes)
  | d1p (win : Rect) (px : Bytes) | d2p (win : Rect) (px : Bytes)
  | refresh | brefresh | refreshp (win : Rect) | brefreshp (win : Rect)
  | poweroff | hibernate
  | lut (c : UInt8) (reqd : Nat) (d : Bytes)
  | status | busy
  deriving Repr, Inhabited

/-- the program of a public call -/
def progOf : PubOp → List BAct
  | .reset => [.resetSeq]
  | .init c => initP c
  | .mode c => setMode c
  | .d1 px => writeWindowData Command.DataStartTransmission1 fullRect px ++ [.flush]
  | .d2 px => writeWindowData Command.DataStartTransmission2 fullRect px ++ [.flush]
  | .d1p win px => writePartial Command.DataStartTransmission1 win px ++ [.flush]
  | .d2p win px => writePartial Command.DataStartTransmission2 win px ++ [.flush]
  | .refresh => beginRefresh ++ [.waitReady]
  | .brefresh => beginRefresh
  | .refreshp win => beginRefreshPartial win ++ [.waitReady]
  | .brefreshp win => beginRefreshPartial win
  | .poweroff => cmd CS_ALLm Command.PowerOff ++ [.waitReady, .flush]
  | .hibernate => cmd CS_ALLm Command.PowerOff ++ [.waitReady] ++ cmdData CS_ALLm Command.DeepSleep [0xA5] ++ [.flush]
  | .lut c n d => setLut c d n
  | .status => [.getStatus]
  | .busy => [.busyQuery]

/-- scenario token list → public call -/
def parseOp (a : List String) : Option PubOp :=
  match a with
  | ["reset"] => some .reset
  | ["init", c] => (parseCfg c).map .init
  | ["mode", c] => (parseCfg c).map .mode
  | ["d1", b] => (makeBuf b).map .d1
  | ["d2", b] => (makeBuf b).map .d2
  | ["d1p", x, y, w, h, b] => do pure (.d1p (← parseWin [x, y, w, h]) (← makeBuf b))
  | ["d2p", x, y, w, h, b] => do pure (.d2p (← parseWin [x, y, w, h]) (← makeBuf b))
  | ["refresh"] => some .refresh
  | ["brefresh"] => some .brefresh
  | ["refreshp", x, y, w, h] => (parseWin [x, y, w, h]).map .refreshp
  | ["brefreshp", x, y, w, h] => (parseWin [x, y, w, h]).map .brefreshp
  | ["poweroff"] => some .poweroff
  | ["hibernate"] => some .hibernate
  | ["lut", which, b] => do
    let d ← makeBuf b
    let (c, n) ← (if which == "c" then some (Command.LutC, 60) else if which == "ww" then some (Command.LutWW, 42)
      else if which == "kw" then some (Command.LutKW_LutR, 60) else if which == "wk" then some (Command.LutWK_LutW, 60)
      else if which == "kk" then some (Command.LutKK_LutK, 60) else if which == "bd" then some (Command.LutBD, 42) else none)
    pure (.lut c n d)
  | ["status"] => some .status
  | ["busy"] => some .busy
  | _ => none

def prog (a : List String) : Option (List BAct) := (parseOp a).map progOf

/-! ## traces -/

def canonB : List BEv → List BEv
  | [] => []
  | .w _ _ _ [] :: es => canonB es
  | .w cs dc lens0 bs :: es =>
    let lens := lens0.filter (·.1 ≠ 0)          -- zero-length transfers carry nothing
    match canonB es with
    | .w cs' dc' lens' bs' :: rest =>
      if cs = cs' ∧ dc = dc' then .w cs dc (rleAppend lens lens') (bs ++ bs') :: rest
      else .w cs dc lens bs :: .w cs' dc' lens' bs' :: rest
    | rest => .w cs dc lens bs :: rest
  | e :: es => e :: canonB es

def parseTag (t : String) : Option (Nat × Nat) :=
  -- c<hex>d<n>
  match t.toList with
  | ['c', h, 'd', d] => do pure (← hexVal h, d.toNat - 48)
  | _ => none

def parseBEv (line : String) : Option (List BEv) :=
  match line.splitOn " " with
  | ["W", tag, rle, hex] => do
    let (cs, dc) ← parseTag tag
    let lens ← parseRle rle
    let bs ← parseHex hex
    pure [BEv.w cs dc lens bs]
  | ["L"] => some [.flush]
  | ["F", "flush", _] => some [.failFlush]
  | ["F", tag, n] => do
    let (cs, dc) ← parseTag tag
    pure [.fail cs dc (← n.toNat?)]
  | ["R0", l] => some [.rst 0 (l == "1")]
  | ["R1", l] => some [.rst 1 (l == "1")]
  | ["B", l, k] => k.toNat?.map fun pin => [.busy (l == "1") pin]
  | ["D", "us", n] => n.toNat?.map fun k => [.delay .us k]
  | ["D", "ms", n] => n.toNat?.map fun k => [.delay .ms k]
  | ["D", "ns", n] => n.toNat?.map fun k => [.delay .ns k]
  | ["I", tag, n] => do
    let (cs, dc) ← parseTag tag
    pure [.read cs dc (← n.toNat?)]
  | _ => none

structure BOp where
  evs : List BEv
  res : OpRes
  pins : String          -- `c<mask>d<bits>` the op leaves behind
  deriving Repr, Inhabited

def runOpsB (sc : Scenario) : List (List String) → BEnv → List BOp
  | [], _ => []
  | a :: as, e =>
    match prog a with
    | none => [{ evs := [], res := .unsup, pins := s!"c{hexDigit e.cs}d{e.dc}" }]
    | some acts =>
      let r := if e.fault.isSome then runBF e acts else runB e acts
      let t : BOp := { evs := r.1, res := .ofRes r.2.2, pins := s!"c{hexDigit r.2.1.cs}d{r.2.1.dc}" }
      match r.2.2 with
      | .ok | .err => t :: runOpsB sc as r.2.1
      | _ => [t]

/-! ## C15 oracle on a trace -/

/-- the bytes each chip received as DATA of the last data command `tc` of this op -/
def chipData (evs : List BEv) (chip : Nat) (tc : UInt8) : Bytes × Bool :=
  -- (bytes, onlyThatChipSelected)
  let rec go : List BEv → Bool → Bytes → Bool → Bytes × Bool
    | [], _, acc, ok => (acc, ok)
    | .w cs dc _ bs :: rest, open_, acc, ok =>
      let listens := cs / chip % 2 = 1
      if !listens then go rest open_ acc ok
      else if dc = 0 then
        -- command bytes: the last one decides whether the data command is open
        match bs.getLast? with
        | some c => go rest (c == tc) (if c == tc then [] else acc) ok
        | none => go rest open_ acc ok
      else if open_ then go rest open_ (acc ++ bs) (ok && cs == chip)
      else go rest open_ acc ok
    | _ :: rest, open_, acc, ok => go rest open_ acc ok
  go evs false [] true

def chips : List (Nat × String × Rect × Bool) :=
  [(CS_S2, "S2", s2Rect, true), (CS_M2, "M2", m2Rect, true), (CS_M1, "M1", m1Rect, false), (CS_S1, "S1", s1Rect, false)]

/-- what chip `r` must receive for window `win` and pixel rows `pixels` (rows wrap) -/
def expectedFor (win r : Rect) (pixels : Bytes) : Bytes :=
  let i := isect win r
  if i.isEmpty ∨ pixels.isEmpty then [] else
  let rowBytes := win.w / 8
  let n := pixels.length
  (List.range i.h).flatMap fun yy =>
    let row := i.y + yy - win.y
    let o := row * rowBytes
    let o := if o < n then o else o % n
    (pixels.drop (o + (i.x - win.x) / 8)).take (i.w / 8)

/-- the 0x90 block a chip must get for `win` -/
def expectedWindow (win r : Rect) (mirror : Bool) : Bytes :=
  let i := isect win r
  if i.isEmpty then [0x00, 0x00, 0xFF, 0xFF, 0x00, 0x00, 0xFF, 0xFF, 0x01] else
  let lx := i.x - r.x
  let ly := i.y - r.y
  let sx := if mirror then r.w - lx - i.w else lx
  let ex := sx + i.w - 1
  let ey := ly + i.h - 1
  [u8 (sx / 256), u8 (sx % 256), u8 (ex / 256), u8 (ex % 256), u8 (ly / 256), u8 (ly % 256), u8 (ey / 256), u8 (ey % 256), 0x01]

/-- the property quantifies over windows inside the panel: a byte of a window that sticks out of
    the panel has no owning sub-display -/
def inPanel (win : Rect) : Bool := win.x + win.w ≤ fullRect.w && win.y + win.h ≤ fullRect.h

def c15 (a : List String) (t : BOp) : List String :=
  let site := s!"epd12in48b_v2/{a.headD "?"}"
  let pinsOk := if t.res == .ok ∧ t.pins ≠ "c0d0" then
      [s!"site={site} reason=lines-not-released got={t.pins} want=c0d0"] else []
  let data (tc : UInt8) (win : Rect) (px : Bytes) (partial_ : Bool) : List String :=
    chips.flatMap fun (chip, nm, r, mirror) =>
      let got := chipData t.evs chip tc
      let want := expectedFor win r px
      (if got.1 = want then [] else
        [s!"site={site} reason=tile-data got={nm}:{got.1.length}bytes:{String.ofList (Nat.toDigits 16 (fnv1a got.1).toNat)} want={nm}:{want.length}bytes:{String.ofList (Nat.toDigits 16 (fnv1a want).toNat)}"]) ++
      (if got.2 then [] else [s!"site={site} reason=other-chip-selected-during-data got={nm} want=only-{nm}"]) ++
      (if partial_ then
        let w := chipData t.evs chip 0x90
        if w.1 = expectedWindow win r mirror then [] else
          [s!"site={site} reason=tile-window got={nm}:{hexOf w.1} want={nm}:{hexOf (expectedWindow win r mirror)}"]
       else [])
  let body := if t.res ≠ .ok then [] else
    match a with
    | ["d1", b] => (makeBuf b).map (data 0x10 fullRect · false) |>.getD []
    | ["d2", b] => (makeBuf b).map (data 0x13 fullRect · false) |>.getD []
    | ["d1p", x, y, w, h, b] =>
      match parseWin [x, y, w, h], makeBuf b with
      | some win, some px => if inPanel win then data 0x10 win px true else []
      | _, _ => []
    | ["d2p", x, y, w, h, b] =>
      match parseWin [x, y, w, h], makeBuf b with
      | some win, some px => if inPanel win then data 0x13 win px true else []
      | _, _ => []
    | _ => []
  pinsOk ++ body

end EpdVerif.Big

namespace EpdVerif.Big
open EpdVerif

/-! ## correspondence: trace blocks of the harness against `runOpsB` -/

def parseBlockB (lines : Array String) : Except String (List BOp) := do
  let mut ops : Array BOp := #[]
  let mut evs : Array BEv := #[]
  for l in lines do
    if l.startsWith "S " then continue
    if l.startsWith "E " then
      match l.splitOn " " with
      | ["E", _, r, bg] =>
        match parseRes r with
        | some res =>
          ops := ops.push { evs := evs.toList, res, pins := (bg.drop 3).toString }
          evs := #[]
        | none => throw s!"bad result line {l}"
      | _ => throw s!"bad result line {l}"
    else
      match parseBEv l with
      | some es => evs := evs ++ es.toArray
      | none => throw s!"bad trace line {l.take 80}"
  return ops.toList

def BEv.show : BEv → String
  | .w cs dc lens bs =>
    s!"W c{hexDigit cs}d{dc} {lens.length}runs {bs.length}bytes {if bs.length ≤ 12 then hexOf bs else hexOf (bs.take 6) ++ ".." ++ String.ofList (Nat.toDigits 16 (fnv1a bs).toNat)}"
  | .flush => "L"
  | .rst l v => s!"R{l} {if v then 1 else 0}"
  | .busy v k => s!"B {if v then 1 else 0} {k}"
  | .delay .us n => s!"D us {n}"
  | .delay .ms n => s!"D ms {n}"
  | .delay .ns n => s!"D ns {n}"
  | .read cs dc n => s!"I c{hexDigit cs}d{dc} {n}"
  | .fail cs dc n => s!"F c{hexDigit cs}d{dc} {n}"
  | .failFlush => "F flush"

def compareB : List BOp → List BOp → Nat → Option String
  | [], [], _ => none
  | m :: ms, i :: is, k =>
    if m.res ≠ i.res then some s!"op={k} result model={m.res.toString} impl={i.res.toString}"
    else if m.pins ≠ i.pins then some s!"op={k} pins model={m.pins} impl={i.pins}"
    else
      let cm := canonB m.evs
      let ci := canonB i.evs
      let ci := if m.res = .hang then ci.take cm.length else ci
      let rec fd : List BEv → List BEv → Nat → Option String
        | x :: xs, y :: ys, j => if x = y then fd xs ys (j + 1) else some s!"ev={j} model=[{x.show}] impl=[{y.show}]"
        | x :: _, [], j => some s!"ev={j} model=[{x.show}] impl=[<end>]"
        | [], y :: _, j => some s!"ev={j} model=[<end>] impl=[{y.show}]"
        | [], [], _ => none
      match fd cm ci 0 with
      | some d => some s!"op={k} {d}"
      | none => compareB ms is (k + 1)
  | m :: _, [], k => some s!"op={k} missing in impl (model {m.res.toString})"
  | [], i :: _, k => some s!"op={k} missing in model (impl {i.res.toString})"

def mkBEnv (sc : Scenario) : BEnv :=
  { sched := sc.sched, raise := sc.raise, busyLvl := sc.busyLvl, fault := sc.fault, slow := sc.slow }

/-- C15 verdict lines of one scenario against a trace (implementation or model) -/
def c15Verdicts (sc : Scenario) (t : List BOp) : Nat × List String :=
  let rec go : List (List String) → List BOp → Nat → Nat → List String → Nat × List String
    | a :: as, o :: os, k, n, acc => go as os (k + 1) (n + 1) (acc ++ (c15 a o).map (· ++ s!" op={k}"))
    | _, _, _, n, acc => (n, acc)
  go sc.ops t 0 0 []

end EpdVerif.Big

namespace EpdVerif.Big
open EpdVerif

/-! ## C10 on the 12.48in driver's own transport -/

/-- D/C discipline and transfer sizes of one operation's trace: every transfer made with both D/C
    lines low is a single byte (one command), every other transfer has BOTH lines high, no
    transfer exceeds 4096 bytes -/
def c10B (a : List String) (t : BOp) : List String :=
  let site := s!"epd12in48b_v2/{a.headD "?"}"
  t.evs.flatMap fun e => match e with
    | .w _ dc lens bytes =>
      (if dc = 0 then
        (if lens.all (fun l => l.1 ≤ 1) then [] else
          [s!"site={site} reason=command-transfer-not-single-byte got={(lens.map (·.1)).foldl max 0}bytes-with-dc-low:{hexOf (bytes.take 4)} want=1"])
       else if dc = 3 then [] else
        [s!"site={site} reason=dc-lines-disagree got=d{dc} want=d0-or-d3"]) ++
      (if lens.all (fun l => l.1 ≤ 4096) then [] else
        [s!"site={site} reason=transfer-too-long got={(lens.map (·.1)).foldl max 0} want=<=4096"])
    | _ => []

/-- the opcodes a trace frames as commands (both D/C lines low), in order -/
def cmdSeq (evs : List BEv) : Bytes :=
  evs.flatMap fun e => match e with | .w _ 0 _ bs => bs | _ => []

/-- every opcode the call's program sends as a command arrives framed as a command, in order (and
    nothing else does): the implementation's command sequence against the model program's -/
def c10Cmds (ops : List (List String)) (model impl : List BOp) : List String :=
  let rec go : List (List String) → List BOp → List BOp → Nat → List String → List String
    | a :: as, m :: ms, i :: is, k, acc =>
      let bad := m.res == .ok ∧ i.res == .ok ∧ cmdSeq m.evs ≠ cmdSeq i.evs
      go as ms is (k + 1) (if bad then acc ++ [s!"site=epd12in48b_v2/{a.headD "?"} reason=command-framing-differs got={hexOf ((cmdSeq i.evs).take 12)}/{(cmdSeq i.evs).length} want={hexOf ((cmdSeq m.evs).take 12)}/{(cmdSeq m.evs).length} op={k}"] else acc)
    | _, _, _, _, acc => acc
  go ops model impl 0 []

def c10Verdicts (sc : Scenario) (t : List BOp) : Nat × List String :=
  let rec go : List (List String) → List BOp → Nat → Nat → List String → Nat × List String
    | a :: as, o :: os, k, n, acc => go as os (k + 1) (n + 1) (acc ++ (c10B a o).map (· ++ s!" op={k}"))
    | _, _, _, n, acc => (n, acc)
  go sc.ops t 0 0 []

end EpdVerif.Big

namespace EpdVerif.Big
open EpdVerif

/-! ## C04 on the 12.48in driver -/

def BEv.isFail : BEv → Bool
  | .fail .. => true
  | .failFlush => true
  | _ => false

/-- fail-stop: an operation hit by the injected fault reports the error, attempts no further bus
    call and does not panic -/
def c04B (a : List String) (t : BOp) : List String :=
  let site := s!"epd12in48b_v2/{a.headD "?"}"
  if !(t.evs.any BEv.isFail) then [] else
  let after := (t.evs.dropWhile fun e => !e.isFail).drop 1
  let traffic := after.any fun e => match e with
    | .w .. => true | .read .. => true | .flush => true | .fail .. => true | .failFlush => true | _ => false
  (if t.res == .err then [] else [s!"site={site} reason=error-not-reported got={t.res.toString} want=err"]) ++
  (if traffic then [s!"site={site} reason=traffic-after-failure got=bus-call want=none"] else [])

def c04Verdicts (sc : Scenario) (t : List BOp) : Nat × List String :=
  let rec go : List (List String) → List BOp → Nat → Nat → List String → Nat × List String
    | a :: as, o :: os, k, n, acc => go as os (k + 1) (n + 1) (acc ++ (c04B a o).map (· ++ s!" op={k}"))
    | _, _, _, n, acc => (n, acc)
  go sc.ops t 0 0 []

/-- what the recovery suffix (operations from index `from_` on) put on the bus, with the pins of
    every transfer, its results and the pins it left: compared with the never-failed twin -/
def mixStr (h : UInt64) (s : String) : UInt64 :=
  s.toUTF8.toList.foldl (fun a b => (a ^^^ b.toUInt64) * 1099511628211) h

def suffixDigest (t : List BOp) (from_ : Nat) : String :=
  let ops := t.drop from_
  let h := ops.foldl (fun acc o =>
    let acc := (canonB o.evs).foldl (fun a e => mixStr a (BEv.show e)) acc
    mixStr (mixStr acc o.res.toString) o.pins) (14695981039346656037 : UInt64)
  s!"ops={ops.length} trace={String.ofList (Nat.toDigits 16 h.toNat)}"

end EpdVerif.Big

namespace EpdVerif.Big
open EpdVerif

/-! ## the 12.48in driver under C01, C06, C09 and C11 (the properties name it) -/

/-- C01: a full-frame write delivers the frame (the tiling oracle on `write_data1/2`) -/
def c01B (a : List String) (t : BOp) : List String :=
  if a.headD "" == "d1" ∨ a.headD "" == "d2" then c15 a t else []

/-- C06: a partial write programs the requested window on every sub-display and fills it exactly
    once (the tiling oracle on `write_data1/2_partial`) -/
def c06B (a : List String) (t : BOp) : List String :=
  if a.headD "" == "d1p" ∨ a.headD "" == "d2p" then c15 a t else []

/-- per-chip power / initialisation / sleep flags, chips indexed 0..3 = M1, S1, M2, S2 -/
structure ChipSt where
  powered : Bool := false
  res : Bool := false        -- resolution programmed since the last reset
  panel : Bool := false      -- panel setting programmed since the last reset
  asleep : Bool := false
  deriving Repr, Inhabited

def updChips (st : List ChipSt) (mask : Nat) (f : ChipSt → ChipSt) : List ChipSt :=
  (List.range 4).map fun k => let c := st.getD k {}; if mask / 2 ^ k % 2 = 1 then f c else c

/-- C09: every DisplayRefresh reaches only chips that are awake, initialised since their last
    hardware reset, and powered on -/
def c09Scan (ops : List (List String)) (t : List BOp) : Nat × List String := Id.run do
  let mut st : List ChipSt := [{}, {}, {}, {}]
  let mut out : List String := []
  let mut n := 0
  let mut k := 0
  let mut lastCmd : Nat := 0x100
  let mut lastCs : Nat := 0
  for o in t do
    let site := s!"epd12in48b_v2/{(ops.getD k []).headD "?"}"
    let mut low : List Bool := [false, false]
    for e in canonB o.evs do
      match e with
      | .rst line lvl =>
        if !lvl then low := low.set line true
        else if low.getD line false then
          low := low.set line false
          st := updChips st (if line = 0 then 3 else 12) fun _ => {}
      | .w cs 0 _ bytes =>
        for c in bytes do
          lastCmd := c.toNat
          lastCs := cs
          if c = 0x04 then st := updChips st cs fun x => { x with powered := true }
          else if c = 0x02 then st := updChips st cs fun x => { x with powered := false }
          else if c = 0x61 then st := updChips st cs fun x => { x with res := true }
          else if c = 0x00 then st := updChips st cs fun x => { x with panel := true }
          else if c = 0x12 then
            n := n + 1
            for j in List.range 4 do
              if cs / 2 ^ j % 2 = 1 then
                let x := st.getD j {}
                if x.asleep then out := out ++ [s!"site={site} reason=refresh-asleep got=chip{j}:asleep want=awake op={k}"]
                else if !(x.res ∧ x.panel) then out := out ++ [s!"site={site} reason=refresh-uninitialised got=chip{j}:not-initialised-since-reset want=initialised op={k}"]
                else if !x.powered then out := out ++ [s!"site={site} reason=refresh-unpowered got=chip{j}:power-off want=power-on op={k}"]
      | .w cs 3 _ bytes =>
        -- DeepSleep takes effect with its check code: data byte 0xA5 right after command 0x07
        if lastCmd = 0x07 ∧ bytes.head? = some 0xA5 then
          st := updChips st (cs % 16 &&& lastCs % 16) fun x => { x with asleep := true, powered := false }
        lastCmd := 0x100
      | _ => pure ()
    k := k + 1
  return (n, out.eraseDups)

/-- C11: `reset()` gives BOTH reset lines a well-formed pulse — high, low for a non-zero time,
    high, non-zero settle — with no bus traffic meanwhile -/
def c11B (a : List String) (t : BOp) : List String :=
  if a.headD "" ≠ "reset" then [] else
  let site := "epd12in48b_v2/reset"
  let bus := t.evs.any fun e => match e with | .w .. => true | .read .. => true | _ => false
  let lineOk (line : Nat) : Option String := Id.run do
    -- phases: 0 want high, 1 high (waiting for low), 2 low (need delay), 3 low + delayed (want high),
    --         4 high again (need settle), 5 done
    let mut ph := 0
    let mut waited := false
    for e in t.evs do
      match e with
      | .rst l lvl =>
        if l = line then
          if lvl then
            if ph = 0 then ph := 1
            else if ph = 2 then return some "released-without-low-time"
            else if ph = 3 then ph := 4; waited := false
          else
            if ph = 1 then ph := 2; waited := false
            else if ph = 0 then return some "low-without-initial-high"
            else if ph ≥ 4 then return some "second-pulse"
      | .delay _ n =>
        if n > 0 then
          if ph = 2 then ph := 3
          else if ph = 4 then ph := 5
      | _ => pure ()
    if ph = 5 then return none
    else if ph = 4 then return some "no-settle-time"
    else return some s!"incomplete-pulse-phase{ph}"
  (if bus then [s!"site={site} reason=bus-traffic-during-reset got=transfer want=none"] else []) ++
  ([0, 1].filterMap fun l => (lineOk l).map fun why => s!"site={site} reason=malformed-pulse got=line{l}:{why} want=high-low-high-settle")

/-- the individual bus writes of a grouped `W` event -/
def splitTransfers : List (Nat × Nat) → Bytes → List Bytes
  | [], _ => []
  | (l, c) :: r, bs =>
    let rec rep : Nat → Bytes → List Bytes × Bytes
      | 0, b => ([], b)
      | n + 1, b => let x := rep n (b.drop l); (b.take l :: x.1, x.2)
    let x := rep c bs
    x.1 ++ splitTransfers r x.2

/-- C05: the busy episodes of the scenario replayed along a trace.  A one-byte command of the
    raise set starts an episode (duration from the schedule; with `slow = k` only controller k's pin
    follows it); every pin read consumes one poll of it.  Judged: no refresh trigger while an
    episode is pending; the synchronous calls (refresh, partial refresh, power_off, hibernate)
    return only when no controller is busy; a pin is not re-read without a non-zero delay in
    between (no spinning); the call does not hang although every episode is finite -/
def c05Scan (sc : Scenario) (t : List BOp) : Nat × List String := Id.run do
  let mut pending := 0
  let mut sched := sc.sched
  let mut out : List String := []
  let mut n := 0
  let mut k := 0
  for o in t do
    let name := (sc.ops.getD k []).headD "?"
    let site := s!"epd12in48b_v2/{name}"
    let mut readSince : List Nat := []      -- pins read since the last non-zero delay
    for e in o.evs do
      match e with
      | .w _ 0 lens bytes =>
        for tr in splitTransfers lens bytes do
          match tr with
          | [c] =>
            if c = 0x12 ∧ pending > 0 then
              out := out ++ [s!"site={site} reason=refresh-trigger-while-busy got=pending:{pending} want=idle op={k}"]
            if sc.raise.contains c then
              match sched with
              | [] => pending := 0
              | d :: ds => pending := d; sched := ds
          | _ => pure ()
      | .rst _ lvl =>
        -- (the mock panel starts an episode whenever a reset line is driven high)
        if lvl then
          match sched with
          | [] => pending := 0
          | d :: ds => pending := d; sched := ds
      | .busy _ pin =>
        if readSince.contains pin then
          out := out ++ [s!"site={site} reason=poll-without-delay got=pin{pin} want=delay-between-polls op={k}"]
        readSince := pin :: readSince
        if ¬ (sc.slow.isSome ∧ sc.slow ≠ some pin) ∧ pending > 0 then pending := pending - 1
      | .delay _ d => if d > 0 then readSince := []
      | _ => pure ()
    n := n + 1
    if o.res == .hang then
      out := out ++ [s!"site={site} reason=wait-does-not-terminate got=hang want=returns op={k}"]
    else if o.res == .ok ∧ pending > 0 ∧ (name == "refresh" ∨ name == "refreshp" ∨ name == "poweroff" ∨ name == "hibernate") then
      out := out ++ [s!"site={site} reason=returned-while-busy got=pending:{pending}{match sc.slow with | some p => s!":chip{p}" | none => ""} want=idle op={k}"]
    k := k + 1
  return (n, out.eraseDups)

def perOpVerdicts (f : List String → BOp → List String) (sc : Scenario) (t : List BOp) : Nat × List String :=
  let rec go : List (List String) → List BOp → Nat → Nat → List String → Nat × List String
    | a :: as, o :: os, k, n, acc =>
      let r := f a o
      go as os (k + 1) (n + 1) (acc ++ r.map (· ++ s!" op={k}"))
    | _, _, _, n, acc => (n, acc)
  go sc.ops t 0 0 []

end EpdVerif.Big
