import EpdVerif.Color
/-!
# Model of `src/graphics.rs` and `lib.rs::buffer_len`

`set_pixel` is modelled once, parametrised by the colour type's two constants and by the
`bitmask` of the colour drawn, exactly as the Rust shares it between `Display` and `VarDisplay`.
`none` = the Rust panics (i32 overflow in the rotation arithmetic — dev profile —, or slice
index out of range).
-/
namespace EpdVerif

inductive Rotation | r0 | r90 | r180 | r270
  deriving DecidableEq, Repr, Inhabited

/-- the two associated constants of `ColorType` -/
structure ColorKind where
  bpp : Nat       -- BITS_PER_PIXEL_PER_BUFFER
  planes : Nat    -- BUFFER_COUNT
  deriving DecidableEq, Repr, Inhabited

def kindBw : ColorKind := ⟨1, 1⟩
def kindTri : ColorKind := ⟨1, 2⟩
def kindOct : ColorKind := ⟨4, 1⟩

/-- `lib.rs::buffer_len` -/
def bufferLen (w h : Nat) : Nat := (w + 7) / 8 * h

/-- `graphics.rs::line_bytes` -/
def lineBytes (w bpp : Nat) : Nat := (w * bpp + 7) / 8

def inI32 (v : Int) : Bool := decide (-2147483648 ≤ v) && decide (v ≤ 2147483647)

/-- the rotation arithmetic in `i32`; `none` = overflow panic.  Each subtraction is checked in
    the order the Rust evaluates it. -/
def rotate (w h : Nat) (rot : Rotation) (px py : Int) : Option (Int × Int) :=
  match rot with
  | .r0 => some (px, py)
  | .r90 => if inI32 ((w : Int) - 1 - py) then some ((w : Int) - 1 - py, px) else none
  | .r180 =>
    if inI32 ((w : Int) - 1 - px) && inI32 ((h : Int) - 1 - py) then
      some ((w : Int) - 1 - px, (h : Int) - 1 - py) else none
  | .r270 => if inI32 ((h : Int) - 1 - px) then some (py, (h : Int) - 1 - px) else none

/-- the tail of `set_pixel`: the masked write(s) at `index` (and `index + len/2` for split
    buffers).  Returns the buffer and whether an index was out of range (panic); on a panic in
    the second plane the first plane's byte has already been written, exactly as in the Rust. -/
def writePix (buf : Array UInt8) (index planes : Nat) (mask : UInt8) (bits : Nat) : Array UInt8 × Bool :=
  if planes = 2 then
    if h1 : index < buf.size then
      let buf1 := buf.set index ((buf[index] &&& mask) ||| UInt8.ofNat (bits % 256))
      if h2 : index + buf.size / 2 < buf1.size then
        (buf1.set (index + buf.size / 2)
          ((buf1[index + buf.size / 2] &&& mask) ||| UInt8.ofNat (bits / 256 % 256)), false)
      else (buf1, true)
    else (buf, true)
  else
    if h1 : index < buf.size then
      (buf.set index ((buf[index] &&& mask) ||| UInt8.ofNat (bits % 256)), false)
    else (buf, true)

/-- `size()` of both display types -/
def displaySize (w h : Nat) : Rotation → Nat × Nat
  | .r0 | .r180 => (w, h)
  | .r90 | .r270 => (h, w)

/-- `graphics.rs::set_pixel` on a buffer slice; `bm` is the drawn colour's `bitmask(bwrbit, ·)`.
    Returns the buffer and whether the call panicked.  Points outside the rotated bounds are
    rejected before the rotation arithmetic (fix faca873); the second range check of the Rust is
    kept as it is. -/
def setPixel (buf : Array UInt8) (w h : Nat) (rot : Rotation) (k : ColorKind)
    (bm : Nat → UInt8 × Nat) (px py : Int) : Array UInt8 × Bool :=
  if px < 0 ∨ px ≥ (displaySize w h rot).1 ∨ py < 0 ∨ py ≥ (displaySize w h rot).2 then (buf, false) else
  match rotate w h rot px py with
  | none => (buf, true)
  | some (x, y) =>
    if x < 0 ∨ x ≥ w ∨ y < 0 ∨ y ≥ h then (buf, false) else
    writePix buf (x.toNat * k.bpp / 8 + y.toNat * lineBytes w k.bpp) k.planes
      (bm x.toNat).1 (bm x.toNat).2

/-- `VarDisplay::buffer_size` (fix 9b3cce6: every plane with its own padded lines) -/
def varBufferSize (w h : Nat) (k : ColorKind) : Nat := h * lineBytes w k.bpp * k.planes

/-- `VarDisplay::new`: accepted iff the slice is at least `buffer_size` long -/
def varNewOk (w h : Nat) (k : ColorKind) (len : Nat) : Bool := !(varBufferSize w h k > len)

/-- what every plane of the geometry needs -/
def requiredLen (w h : Nat) (k : ColorKind) : Nat := k.planes * (h * lineBytes w k.bpp)

end EpdVerif
