import Lean
/-!
`kernel_rfl` closes a goal `e = true` (`e : Bool`, any local context) by handing the KERNEL the
auxiliary theorem `∀ locals, e = true := fun locals => Eq.refl true`; `kernel_decide` does the same
for any proposition with a `Decidable` instance (`of_decide_eq_true (Eq.refl true)`).  The
elaborator's own definitional-equality check (`Meta.isDefEq`, orders of magnitude slower than the
kernel's on the long evaluations used here, and heartbeat-limited) is skipped; nothing is trusted
beyond the kernel, which type-checks the auxiliary declaration (`addDecl`) before the goal is
assigned — it is how `decide +kernel` works, without that tactic's restriction to closed
propositions.  A false goal is rejected by the kernel ("declaration type mismatch").
-/
open Lean Meta Elab Tactic

/-- abstract the local context, let the kernel check `prf : tgt`, close the goal with the new constant -/
def kernelClose (g : MVarId) (tgt prf : Expr) : MetaM Unit := do
  if tgt.hasExprMVar || prf.hasExprMVar then throwError "kernel tactic: goal contains metavariables"
  let lctx ← getLCtx
  let mut fvars : Array Expr := #[]
  for d in lctx do
    if !d.isImplementationDetail then fvars := fvars.push d.toExpr
  let ty ← instantiateMVars (← mkForallFVars fvars tgt)
  let val ← instantiateMVars (← mkLambdaFVars fvars prf)
  if ty.hasExprMVar || val.hasExprMVar then throwError "kernel tactic: context contains metavariables"
  let lvls := (collectLevelParams {} ty).params.toList
  let name ← mkAuxDeclName `_kernel_chk
  -- checked synchronously, so that a rejected declaration is an exception of THIS tactic (and
  -- `first | … | …` can fall through to the next alternative)
  withOptions (fun o => Elab.async.set o false) <|
    addDecl (.thmDecl { name, levelParams := lvls, type := ty, value := val })
  g.assign (mkAppN (mkConst name (lvls.map mkLevelParam)) fvars)

def reflTrue : Expr := mkApp2 (mkConst ``Eq.refl [Level.one]) (mkConst ``Bool) (mkConst ``Bool.true)

elab "kernel_rfl" : tactic => do
  let g ← getMainGoal
  g.withContext do
    let tgt ← instantiateMVars (← g.getType)
    kernelClose g tgt reflTrue

elab "kernel_decide" : tactic => do
  let g ← getMainGoal
  g.withContext do
    let tgt ← instantiateMVars (← g.getType)
    let inst ← instantiateMVars (← synthInstance (mkApp (mkConst ``Decidable) tgt))
    kernelClose g tgt (mkApp3 (mkConst ``of_decide_eq_true) tgt inst reflTrue)

example (b : Bool) (n : Nat) (l : List Nat) : (List.length (n :: 3 :: []) == 2 && (b || !b || l.isEmpty)) = true := by
  cases b <;> kernel_rfl
example (b : Bool) (n : Nat) : (if b then some (n :: []).length else some 1) = some 1 := by
  cases b <;> kernel_decide
example (b : Bool) : (b && !b) = false := by
  first | kernel_decide | (cases b <;> kernel_decide)
