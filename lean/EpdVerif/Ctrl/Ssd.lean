import EpdVerif.Ctrl.Common
/-!
# SSD16xx-family controller simulator (specification, trusted base)

Written from the SSD1608 / SSD1675 / SSD1677 / SSD1680 / SSD1681 datasheets: RAM window
(0x44/0x45), address counters (0x4E/0x4F), data entry mode (0x11), the two RAM planes (0x24
B/W, 0x26 RED), auto-fill (0x46 RED / 0x47 B/W), update control 2 (0x22), master activation
(0x20), deep sleep (0x10), software reset (0x12).  Everything else only lands in `regs`.

X addresses are in bytes (one parameter byte) on the small chips and in pixels (two
parameter bytes) on the SSD1677 (`xPix`); internally the simulator keeps byte columns.
Only address mode AM = 0 (counter moves in X first) is interpreted; AM = 1 sets `unsupported`.
-/

namespace EpdVerif

/-- a RAM write episode: the data block that followed one 0x24 / 0x26 command -/
structure Episode where
  plane : Nat            -- 0 = B/W (0x24) / DTM1 (0x10), 1 = RED (0x26) / DTM2 (0x13)
  count : Nat            -- bytes received
  stored : Nat           -- bytes that landed inside the RAM / window
  startAtOrigin : Bool   -- counter was at the window's start corner when the data began
  fill : Bool := false   -- produced by an auto-fill command
  win : Nat × Nat × Nat × Nat := (0, 0, 0, 0)  -- window registers when the data arrived: pixels (x0,y0,x1,y1) inclusive
  deriving DecidableEq, Repr, Inhabited

/-- state of the controller at the moment a refresh was triggered -/
structure Snap where
  asleep : Bool
  initialised : Bool
  powered : Bool
  partialWin : Bool := false
  deriving DecidableEq, Repr, Inhabited

structure Ssd where
  xPix : Bool
  stride : Nat
  rows : Nat
  entry : Nat := 3
  xs : Nat := 0
  xe : Nat
  ys : Nat := 0
  ye : Nat
  cx : Nat := 0
  cy : Nat := 0
  uc2 : UInt8 := 0xFF
  bw : Array UInt8
  red : Array UInt8
  asleep : Bool := false
  initialised : Bool := false
  resetSeen : Bool := false      -- a hardware reset happened inside the current operation
  unsupported : Bool := false
  ignored : Nat := 0             -- blocks sent to a sleeping controller
  epis : List Episode := []      -- newest first
  refreshes : List Snap := []    -- newest first
  regs : List (UInt8 × List UInt8) := []   -- newest first, every non-RAM block
  deriving Repr, Inhabited

namespace Ssd

def por (xPix : Bool) (stride rows : Nat) : Ssd :=
  { xPix, stride, rows, xe := stride - 1, ye := rows - 1,
    bw := Array.replicate (stride * rows) 0, red := Array.replicate (stride * rows) 0 }

/-- registers back to their power-on values (RAM, logs and sleep flag untouched) -/
def resetRegs (s : Ssd) : Ssd :=
  { s with entry := 3, xs := 0, xe := s.stride - 1, ys := 0, ye := s.rows - 1, cx := 0, cy := 0,
           uc2 := 0xFF }

def xInc (s : Ssd) : Bool := s.entry % 2 = 1
def yInc (s : Ssd) : Bool := (s.entry / 2) % 2 = 1

/-- the Y counter after a row is complete: wraps from the END register to the START register -/
def stepY (s : Ssd) : Nat :=
  if s.cy = s.ye then s.ys else if s.yInc then s.cy + 1 else s.cy - 1

/-- address counter after one data byte (AM = 0) -/
def advance (s : Ssd) : Ssd :=
  if s.cx = s.xe then { s with cx := s.xs, cy := s.stepY }
  else { s with cx := if s.xInc then s.cx + 1 else s.cx - 1 }

def inRam (s : Ssd) : Bool := s.cx < s.stride && s.cy < s.rows

def idx (s : Ssd) : Nat := s.cy * s.stride + s.cx

/-- store a byte list into a plane from the counter on; returns the state and how many
    bytes landed inside the RAM -/
def writeRam (plane : Nat) : Ssd → List UInt8 → Nat → Ssd × Nat
  | s, [], k => (s, k)
  | s, b :: bs, k =>
    -- (everything read from `s` first, so that its arrays are uniquely referenced when written)
    let inr := s.inRam
    let i := s.idx
    let k' := if inr then k + 1 else k
    let s' := if inr then
        (if plane = 0 then { s with bw := s.bw.setIfInBounds i b }
         else { s with red := s.red.setIfInBounds i b })
      else s
    writeRam plane s'.advance bs k'

def word (lo hi : UInt8) : Nat := lo.toNat + 256 * hi.toNat

def atOrigin (s : Ssd) : Bool := s.cx == s.xs && s.cy == s.ys

def fillPlane (s : Ssd) (plane : Nat) (v : UInt8) : Ssd :=
  let a := Array.replicate (s.stride * s.rows) v
  let ep : Episode := { plane, count := s.stride * s.rows, stored := s.stride * s.rows,
                        startAtOrigin := true, fill := true }
  if plane = 0 then { s with bw := a, epis := ep :: s.epis }
  else { s with red := a, epis := ep :: s.epis }

/-- a register (non-RAM-data) command on an awake controller, after it was logged -/
def regStep (cmd : UInt8) (ps : List UInt8) (s : Ssd) : Ssd :=
  if cmd = 0x12 then s.resetRegs
  else if cmd = 0x11 then
    match ps with
    | [m] => { s with entry := m.toNat % 4, unsupported := s.unsupported || m.toNat % 8 ≥ 4 }
    | _ => s
  else if cmd = 0x44 then
    match s.xPix, ps with
    | false, [a, b] => { s with xs := a.toNat % 64, xe := b.toNat % 64 }
    | true, [a, a', b, b'] => { s with xs := (word a a' % 1024) / 8, xe := (word b b' % 1024) / 8 }
    | _, _ => s
  else if cmd = 0x45 then
    match ps with
    | [a, a', b, b'] => { s with ys := word a a' % 1024, ye := word b b' % 1024 }
    | _ => s
  else if cmd = 0x4E then
    match s.xPix, ps with
    | false, [a] => { s with cx := a.toNat % 64 }
    | true, [a, a'] => { s with cx := (word a a' % 1024) / 8 }
    | _, _ => s
  else if cmd = 0x4F then
    match ps with
    | [a, a'] => { s with cy := word a a' % 1024 }
    | _ => s
  else if cmd = 0x22 then
    match ps with
    | [v] => { s with uc2 := v }
    | _ => s
  else if cmd = 0x20 then
    if s.uc2.toNat / 4 % 2 = 1 then
      { s with refreshes := { asleep := false, initialised := s.initialised, powered := true }
                             :: s.refreshes }
    else s
  else if cmd = 0x46 then
    match ps with
    | [v] => s.fillPlane 1 (if v.toNat ≥ 128 then 0xFF else 0x00)
    | _ => s
  else if cmd = 0x47 then
    match ps with
    | [v] => s.fillPlane 0 (if v.toNat ≥ 128 then 0xFF else 0x00)
    | _ => s
  else if cmd = 0x10 then
    match ps with
    | [m] => if m.toNat % 4 ≠ 0 then { s with asleep := true } else s
    | _ => s
  else if cmd = 0x07 then
    -- the vendor's reference sequence for the 3.7in panel ends with the UC-style deep sleep
    match ps with
    | [v] => if v = 0xA5 then { s with asleep := true } else s
    | _ => s
  else s

def feed (s : Ssd) : Blk → Ssd
  | .rst => { s.resetRegs with asleep := false, initialised := false, resetSeen := true }
  | .stray _ => s
  | .c cmd ps =>
    if s.asleep then
      { s with ignored := s.ignored + 1,
               refreshes := if cmd = 0x20 then
                   { asleep := true, initialised := s.initialised, powered := true } :: s.refreshes
                 else s.refreshes } else
    if cmd = 0x24 ∨ cmd = 0x26 then
      let plane := if cmd = 0x24 then 0 else 1
      let r := writeRam plane s ps 0
      { r.1 with epis := { plane, count := ps.length, stored := r.2, startAtOrigin := s.atOrigin,
                           win := (s.xs * 8, s.ys, s.xe * 8 + 7, s.ye) } :: s.epis }
    else
    regStep cmd ps { s with regs := (cmd, ps) :: s.regs }

/-- end of a driver operation: a reset issued inside an operation that completed counts as
    followed up by that operation's own (re-)initialisation (DESIGN, C09) -/
def opEnd (s : Ssd) (ok : Bool) : Ssd :=
  if s.resetSeen then { s with initialised := ok, resetSeen := false } else s

end Ssd
end EpdVerif
