import EpdVerif.Ctrl.Ssd
/-!
# UC81xx / IL03xx / ACeP controller simulator (specification, trusted base)

Two data planes DTM1 (0x10) and DTM2 (0x13); outside partial mode a data block fills the
plane linearly from its first byte, inside partial mode (0x91 … 0x92) it fills the window
programmed by 0x90 row by row.  The 2.7in controllers additionally have windowed data
commands 0x14 / 0x15 (8-byte header x,y,w,h then data) and a windowed refresh 0x16.
Power (0x04 / 0x02), deep sleep (0x07 0xA5), refresh (0x12).  Everything else → `regs`.
Bytes beyond the plane / window are dropped and show up as `count ≠ stored`.
-/

namespace EpdVerif

structure Uc where
  width : Nat               -- pixels per row
  height : Nat
  bpp1 : Nat := 1           -- bits per pixel of DTM1 (1, 2 or 4); DTM2 is 1 bpp
  winFmt : Nat := 9         -- parameter bytes of 0x90: 9 (large), 7 (UC8151 class), 5 (UC8175)
  has14 : Bool := false     -- 0x14 / 0x15 / 0x16 exist (2.7in)
  p1 : Array UInt8
  p2 : Array UInt8
  partialOn : Bool := false
  hs : Nat := 0             -- partial window, pixels, inclusive ends
  he : Nat := 0
  vs : Nat := 0
  ve : Nat := 0
  winSet : Bool := false
  powered : Bool := false
  asleep : Bool := false
  initialised : Bool := false
  resetSeen : Bool := false
  ignored : Nat := 0
  epis : List Episode := []
  refreshes : List Snap := []
  regs : List (UInt8 × List UInt8) := []
  deriving Repr, Inhabited

namespace Uc

def stride1 (u : Uc) : Nat := (u.width * u.bpp1 + 7) / 8
def stride2 (u : Uc) : Nat := (u.width + 7) / 8

def por (width height bpp1 winFmt : Nat) (has14 : Bool) : Uc :=
  { width, height, bpp1, winFmt, has14,
    p1 := Array.replicate ((width * bpp1 + 7) / 8 * height) 0,
    p2 := Array.replicate ((width + 7) / 8 * height) 0 }

def resetRegs (u : Uc) : Uc :=
  { u with partialOn := false, winSet := false, hs := 0, he := 0, vs := 0, ve := 0, powered := false }

/-- store `bs` at consecutive indices given by `pos k` for k = k0, k0+1, …; positions for
    which `pos` is `none` drop the byte -/
def storeAt (pos : Nat → Option Nat) : Array UInt8 → List UInt8 → Nat → Nat → Array UInt8 × Nat
  | a, [], _, n => (a, n)
  | a, b :: bs, k, n =>
    match pos k with
    | some i =>
      -- (the count is computed first so that the array is uniquely referenced when written)
      let n' := if i < a.size then n + 1 else n
      storeAt pos (a.setIfInBounds i b) bs (k + 1) n'
    | none => storeAt pos a bs (k + 1) n

/-- index of the k-th byte of a window write: window columns `c0 … c0+wb-1`, rows `r0 … r0+h-1` -/
def winPos (stride c0 wb r0 h : Nat) (k : Nat) : Option Nat :=
  if wb = 0 then none else
  if k / wb < h ∧ c0 + k % wb < stride then some ((r0 + k / wb) * stride + (c0 + k % wb)) else none

def linPos (size : Nat) (k : Nat) : Option Nat := if k < size then some k else none

/-- data block after 0x10 (plane 0) / 0x13 (plane 1) -/
def dtm (u : Uc) (plane : Nat) (bs : List UInt8) : Uc :=
  let arr := if plane = 0 then u.p1 else u.p2
  let stride := if plane = 0 then u.stride1 else u.stride2
  let pos := if u.partialOn then
      winPos stride (u.hs / 8) (u.he / 8 + 1 - u.hs / 8) u.vs (u.ve + 1 - u.vs)
    else linPos arr.size
  let r := storeAt pos arr bs 0 0
  let ep : Episode := { plane, count := bs.length, stored := r.2, startAtOrigin := true,
                        win := if u.partialOn then (u.hs / 8 * 8, u.vs, u.he / 8 * 8 + 7, u.ve)
                               else (0, 0, u.width - 1, u.height - 1) }
  if plane = 0 then { u with p1 := r.1, epis := ep :: u.epis }
  else { u with p2 := r.1, epis := ep :: u.epis }

def word (hi lo : UInt8) : Nat := 256 * hi.toNat + lo.toNat

/-- 2.7in windowed data command: 8 header bytes then the window's data -/
def dtmWin (u : Uc) (plane : Nat) (bs : List UInt8) : Uc :=
  match bs with
  | xh :: xl :: yh :: yl :: wh :: wl :: hh :: hl :: rest =>
    let x := word xh xl
    let y := word yh yl
    let w := word wh wl
    let h := word hh hl
    let arr := if plane = 0 then u.p1 else u.p2
    let stride := u.stride2
    let r := storeAt (winPos stride (x / 8) (w / 8) y h) arr rest 0 0
    let ep : Episode := { plane, count := rest.length, stored := r.2, startAtOrigin := true,
                          win := (x / 8 * 8, y, x + w - 1, y + h - 1) }
    let u := { u with hs := x, he := x + w - 1, vs := y, ve := y + h - 1, winSet := true }
    if plane = 0 then { u with p1 := r.1, epis := ep :: u.epis }
    else { u with p2 := r.1, epis := ep :: u.epis }
  | _ => u

def snap (u : Uc) : Snap :=
  { asleep := u.asleep, initialised := u.initialised, powered := u.powered, partialWin := u.partialOn }

/-- a register (non-data) command on an awake controller, after it was logged -/
def regStep (cmd : UInt8) (ps : List UInt8) (u : Uc) : Uc :=
  if cmd = 0x12 then { u with refreshes := u.snap :: u.refreshes }
  else if u.has14 ∧ cmd = 0x16 then
    if ps.length = 8 then { u with refreshes := u.snap :: u.refreshes } else u
  else if cmd = 0x04 then { u with powered := true }
  else if cmd = 0x02 then { u with powered := false }
  else if cmd = 0x07 then
    match ps with
    | [v] => if v = 0xA5 then { u with asleep := true, powered := false } else u
    | _ => u
  else if cmd = 0x91 then { u with partialOn := true }
  else if cmd = 0x92 then { u with partialOn := false }
  else if cmd = 0x90 then
    match u.winFmt, ps with
    | 9, [a, a', b, b', c, c', d, d', _] =>
      { u with hs := word a a', he := word b b', vs := word c c', ve := word d d', winSet := true }
    | 7, [a, b, c, c', d, d', _] =>
      { u with hs := a.toNat, he := b.toNat, vs := word c c', ve := word d d', winSet := true }
    | 5, [a, b, c, d, _] =>
      { u with hs := a.toNat, he := b.toNat, vs := c.toNat, ve := d.toNat, winSet := true }
    | _, _ => u
  else u

def feed (u : Uc) : Blk → Uc
  | .rst => { u.resetRegs with asleep := false, initialised := false, resetSeen := true }
  | .stray _ => u
  | .c cmd ps =>
    if u.asleep then
      { u with ignored := u.ignored + 1,
               refreshes := if cmd = 0x12 then { u.snap with asleep := true } :: u.refreshes
                            else u.refreshes } else
    if cmd = 0x10 then u.dtm 0 ps
    else if cmd = 0x13 then u.dtm 1 ps
    else if u.has14 ∧ cmd = 0x14 then u.dtmWin 0 ps
    else if u.has14 ∧ cmd = 0x15 then u.dtmWin 1 ps
    else
    regStep cmd ps { u with regs := (cmd, ps) :: u.regs }

def opEnd (u : Uc) (ok : Bool) : Uc :=
  if u.resetSeen then { u with initialised := ok, resetSeen := false } else u

end Uc

/-- either family -/
inductive Ctrl
  | ssd (s : Ssd)
  | uc (u : Uc)
  deriving Repr, Inhabited

namespace Ctrl
def feed : Ctrl → Blk → Ctrl
  | .ssd s, b => .ssd (s.feed b)
  | .uc u, b => .uc (u.feed b)
def opEnd : Ctrl → Bool → Ctrl
  | .ssd s, ok => .ssd (s.opEnd ok)
  | .uc u, ok => .uc (u.opEnd ok)
def run (c : Ctrl) (bs : List Blk) : Ctrl := bs.foldl feed c
def plane : Ctrl → Nat → Array UInt8
  | .ssd s, i => if i = 0 then s.bw else s.red
  | .uc u, i => if i = 0 then u.p1 else u.p2
def stride : Ctrl → Nat → Nat
  | .ssd s, _ => s.stride
  | .uc u, i => if i = 0 then u.stride1 else u.stride2
def epis : Ctrl → List Episode
  | .ssd s => s.epis
  | .uc u => u.epis
def refreshes : Ctrl → List Snap
  | .ssd s => s.refreshes
  | .uc u => u.refreshes
def regs : Ctrl → List (UInt8 × List UInt8)
  | .ssd s => s.regs
  | .uc u => u.regs
def asleep : Ctrl → Bool
  | .ssd s => s.asleep
  | .uc u => u.asleep
def ignored : Ctrl → Nat
  | .ssd s => s.ignored
  | .uc u => u.ignored
end Ctrl

end EpdVerif
