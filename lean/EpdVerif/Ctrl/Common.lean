import EpdVerif.Wire
/-!
# From the wire to controller blocks

Controllers of both families see a command byte (D/C low) followed by its parameter/data
bytes (D/C high).  `blocksOfEvs` regroups a trace into such blocks; the controller
simulators consume blocks.  A hardware reset (RST low → high) is a block of its own.
-/

namespace EpdVerif

inductive Blk
  | c (cmd : UInt8) (params : List UInt8)
  | rst
  | stray (bytes : List UInt8)      -- data bytes with no command open (after reset / at start)
  deriving DecidableEq, Repr, Inhabited

/-- grouping state: the command that is open and its data, as a reversed list of pieces -/
structure GState where
  cur : Option UInt8 := none
  pieces : List (List UInt8) := []
  rstLow : Bool := false
  out : List Blk := []             -- reversed
  deriving Repr, Inhabited

def GState.close (g : GState) : GState :=
  match g.cur with
  | some c => { g with cur := none, pieces := [], out := Blk.c c g.pieces.reverse.flatten :: g.out }
  | none =>
    if g.pieces.isEmpty then g
    else { g with pieces := [], out := Blk.stray g.pieces.reverse.flatten :: g.out }

def GState.cmds (g : GState) : List UInt8 → GState
  | [] => g
  | c :: cs => GState.cmds { g.close with cur := some c } cs

def GState.step (g : GState) : Ev → GState
  | .w false _ bs => g.cmds bs
  | .w true _ bs => { g with pieces := bs :: g.pieces }
  | .rst false => { g with rstLow := true }
  | .rst true =>
    if g.rstLow then { g.close with rstLow := false, out := Blk.rst :: g.close.out } else g
  | _ => g

def blocksOfEvs (evs : List Ev) : List Blk :=
  ((evs.foldl GState.step {}).close).out.reverse

/-- the same grouping computed directly from a program (no faults, waits ignored) -/
def actsToEvs : List Act → List Ev
  | [] => []
  | .cmd c :: as => Ev.w false 1 [c] :: actsToEvs as
  | .data bs :: as => Ev.w true 1 bs :: actsToEvs as
  | .rep v n :: as => Ev.w true 1 (List.replicate n v) :: actsToEvs as
  | .reset _ _ :: as => Ev.rst false :: Ev.rst true :: actsToEvs as
  | _ :: as => actsToEvs as

def blocksOf (acts : List Act) : List Blk := blocksOfEvs (actsToEvs acts)

end EpdVerif
