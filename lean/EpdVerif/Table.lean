import EpdVerif.Drivers.Epd1in02
import EpdVerif.Drivers.Epd1in54
import EpdVerif.Drivers.Epd1in54_v2
import EpdVerif.Drivers.Epd1in54b
import EpdVerif.Drivers.Epd1in54c
import EpdVerif.Drivers.Epd2in13_v2
import EpdVerif.Drivers.Epd2in13b_v4
import EpdVerif.Drivers.Epd2in13bc
import EpdVerif.Drivers.Epd2in66b
import EpdVerif.Drivers.Epd2in7
import EpdVerif.Drivers.Epd2in7_v2
import EpdVerif.Drivers.Epd2in7b
import EpdVerif.Drivers.Epd2in9
import EpdVerif.Drivers.Epd2in9_v2
import EpdVerif.Drivers.Epd2in9b_v4
import EpdVerif.Drivers.Epd2in9bc
import EpdVerif.Drivers.Epd2in9d
import EpdVerif.Drivers.Epd3in7
import EpdVerif.Drivers.Epd4in2
import EpdVerif.Drivers.Epd5in65f
import EpdVerif.Drivers.Epd5in83_v2
import EpdVerif.Drivers.Epd5in83b_v2
import EpdVerif.Drivers.Epd7in3f
import EpdVerif.Drivers.Epd7in5
import EpdVerif.Drivers.Epd7in5_hd
import EpdVerif.Drivers.Epd7in5_v2
import EpdVerif.Drivers.Epd7in5b_v2
/-! the panel table: the 27 drivers behind `WaveshareDisplay` (the 12.48in driver has its own
    transport and lives in `Big.lean`) -/
namespace EpdVerif

def panels (f : Feat) : List Panel :=
  [ Drivers.Epd1in02.panel f,
    Drivers.Epd1in54.panel f,
    Drivers.Epd1in54_v2.panel f,
    Drivers.Epd1in54b.panel f,
    Drivers.Epd1in54c.panel f,
    Drivers.Epd2in13_v2.panel f,
    Drivers.Epd2in13b_v4.panel f,
    Drivers.Epd2in13bc.panel f,
    Drivers.Epd2in66b.panel f,
    Drivers.Epd2in7.panel f,
    Drivers.Epd2in7_v2.panel f,
    Drivers.Epd2in7b.panel f,
    Drivers.Epd2in9.panel f,
    Drivers.Epd2in9_v2.panel f,
    Drivers.Epd2in9b_v4.panel f,
    Drivers.Epd2in9bc.panel f,
    Drivers.Epd2in9d.panel f,
    Drivers.Epd3in7.panel f,
    Drivers.Epd4in2.panel f,
    Drivers.Epd5in65f.panel f,
    Drivers.Epd5in83_v2.panel f,
    Drivers.Epd5in83b_v2.panel f,
    Drivers.Epd7in3f.panel f,
    Drivers.Epd7in5.panel f,
    Drivers.Epd7in5_hd.panel f,
    Drivers.Epd7in5_v2.panel f,
    Drivers.Epd7in5b_v2.panel f ]

def findPanel (f : Feat) (name : String) : Option Panel :=
  (panels f).find? (·.name == name)

end EpdVerif
