def hello := "world"
