import EpdVerif.Drivers.Dsl
/-!
# Scenario lines, trace lines, and running a scenario on the model

The grammar is shared verbatim with `harness/src/scen.rs` (notes/protocol_and_tables.md).
-/

namespace EpdVerif

structure Scenario where
  id : String
  panel : String
  delay : Option Nat
  sched : List Nat
  raise : List UInt8
  busyLvl : Bool
  fault : Option Nat
  scribble : Bool
  ops : List (List String)
  slow : Option Nat := none    -- 12.48in: the only controller whose BUSY pin stays low (others read idle)
  deriving Repr, Inhabited

def parseNatList (s : String) : Option (List Nat) :=
  if s == "-" then some [] else (s.splitOn ",").mapM String.toNat?

def parseHexByte (s : String) : Option UInt8 :=
  match parseHex (if s.length == 1 then "0" ++ s else s) with
  | some [b] => some b
  | _ => none

def lookupKey (kvs : List (String × String)) (k : String) : Option String :=
  (kvs.find? (fun p => p.1 == k)).map (·.2)

def parseScenario (line : String) : Except String Scenario := do
  let toks := (line.splitOn " ").filter (· ≠ "")
  let kvs := toks.filterMap (fun t =>
    match t.splitOn "=" with
    | k :: rest@(_ :: _) => some (k, "=".intercalate rest)
    | _ => none)
  let get (k : String) : Except String String :=
    match lookupKey kvs k with
    | some v => pure v
    | none => throw s!"missing key {k}"
  let delayS ← get "delay"
  let delay ← if delayS == "none" then pure none else
    match delayS.toNat? with
    | some n => pure (some n)
    | none => throw "bad delay"
  let sched ← match parseNatList (← get "sched") with
    | some l => pure l
    | none => throw "bad sched"
  let raiseS ← get "raise"
  let raise ← if raiseS == "-" then pure [] else
    match (raiseS.splitOn ",").mapM parseHexByte with
    | some l => pure l
    | none => throw "bad raise"
  let faultS ← get "fault"
  let fault ← if faultS == "-" then pure none else
    match faultS.toNat? with
    | some n => pure (some n)
    | none => throw "bad fault"
  let ops := ((← get "ops").splitOn ";").filter (· ≠ "") |>.map (·.splitOn ",")
  pure { id := ← get "id", panel := ← get "panel", delay, sched, raise,
         busyLvl := (← get "busylvl") == "1", fault, scribble := (← get "scribble") == "1", ops,
         slow := (lookupKey kvs "slow").bind String.toNat? }

/-- buffer descriptors: z:<len> | c:<hex>:<len> | pos:<len> | r:<seed>:<len> | bit:<i>:<len> | h:<hex> -/
def makeBuf (desc : String) : Option Bytes :=
  match desc.splitOn ":" with
  | ["z", n] => n.toNat?.map (List.replicate · 0)
  | ["c", v, n] => do
    let b ← parseHexByte v
    let k ← n.toNat?
    pure (List.replicate k b)
  | ["pos", n] => n.toNat?.map posBytes
  | ["r", seed, n] => do
    let s ← seed.toNat?
    let k ← n.toNat?
    pure (prngBytes (UInt64.ofNat s) k)
  | ["bit", i, n] => do
    let i ← i.toNat?
    let k ← n.toNat?
    pure ((List.range k).map (fun j => if j = i / 8 then u8 (0x80 >>> (i % 8)) else 0))
  | ["h", hex] => parseHex hex
  | _ => none

def parseLut (s : String) : Option (Option Refresh) :=
  if s == "full" then some (some .full) else if s == "quick" then some (some .quick)
  else if s == "none" then some none else none

/-- one op token list → `Op` -/
def parseOp (a : List String) : Option Op :=
  match a with
  | ["new"] => some .new
  | ["wake"] => some .wake
  | ["sleep"] => some .sleep
  | ["disp"] => some .disp
  | ["clear"] => some .clear
  | ["wait"] => some .wait
  | ["bg", c] => c.toNat?.map .bg
  | ["lut", r] => (parseLut r).map .lut
  | ["upd", b] => (makeBuf b).map .upd
  | ["updisp", b] => (makeBuf b).map .updisp
  | ["part", b, x, y, w, h] => do
    pure (.part (← makeBuf b) (← x.toNat?) (← y.toNat?) (← w.toNat?) (← h.toNat?))
  | ["old", b] => (makeBuf b).map .old
  | ["newf", b] => (makeBuf b).map .newf
  | ["dispnew"] => some .dispnew
  | ["updispnew", b] => (makeBuf b).map .updispnew
  | ["pold", b, x, y, w, h] => do
    pure (.pold (← makeBuf b) (← x.toNat?) (← y.toNat?) (← w.toNat?) (← h.toNat?))
  | ["pnew", b, x, y, w, h] => do
    pure (.pnew (← makeBuf b) (← x.toNat?) (← y.toNat?) (← w.toNat?) (← h.toNat?))
  | ["pclear", x, y, w, h] => do
    pure (.pclear (← x.toNat?) (← y.toNat?) (← w.toNat?) (← h.toNat?))
  | ["color", b, c] => do pure (.color (← makeBuf b) (← makeBuf c))
  | ["achro", b] => (makeBuf b).map .achro
  | ["chro", b] => (makeBuf b).map .chro
  | ["base", b] => (makeBuf b).map .base
  | ["refresh", r] => do
    match ← parseLut r with
    | some m => pure (.refresh m)
    | none => none
  | ["border", c] => c.toNat?.map .border
  | ["part2", b, x, y, w, h] => do
    pure (.part2 (← makeBuf b) (← x.toNat?) (← y.toNat?) (← w.toNat?) (← h.toNat?))
  | ["dpart", x, y, w, h] => do
    pure (.dpart (← x.toNat?) (← y.toNat?) (← w.toNat?) (← h.toNat?))
  | ["pachro", b, x, y, w, h] => do
    pure (.pachro (← makeBuf b) (← x.toNat?) (← y.toNat?) (← w.toNat?) (← h.toNat?))
  | ["pchro", b, x, y, w, h] => do
    pure (.pchro (← makeBuf b) (← x.toNat?) (← y.toNat?) (← w.toNat?) (← h.toNat?))
  | ["basedisp", b, c] => do
    pure (.basedisp (← makeBuf b) (← if c == "-" then some none else (makeBuf c).map some))
  | ["disppart"] => some .disppart
  | ["7block"] => some .sevenBlock
  | _ => none

/-- result of one operation as both sides report it -/
inductive OpRes | ok | err | panic | hang | unsup
  deriving DecidableEq, Repr, Inhabited

def OpRes.toString : OpRes → String
  | .ok => "ok" | .err => "err" | .panic => "panic" | .hang => "hang" | .unsup => "unsup"

def OpRes.ofRes : Res → OpRes
  | .ok => .ok | .err => .err | .panic => .panic | .hang => .hang

structure OpTrace where
  evs : List Ev
  res : OpRes
  bg : Option Nat
  d : DState := {}        -- model side only: the driver fields before the operation
  deriving Repr, Inhabited

def mkEnv (p : Panel) (sc : Scenario) : Env :=
  { single := p.single, delayUs := sc.delay.getD 10000, fault := sc.fault, sched := sc.sched,
    busy := 0, raise := sc.raise, busyLvl := sc.busyLvl }

/-- `scribble=1`: the harness complements every buffer an operation borrowed as soon as the
    operation returns.  A driver field that aliases such a buffer (epd2in9d `old_data`) therefore
    designates the complemented bytes from then on. -/
def scribbleAfter (scribble : Bool) (acts : List Act) (d d' : DState) : DState :=
  let sentinel : Bytes := [0xA5, 0x5A, 0xA5]
  if scribble ∧ (applyUpds { d with oldData := sentinel } acts).oldData ≠ sentinel then
    { d' with oldData := d'.oldData.map (~~~ ·) }
  else d'

/-- run the ops of a scenario on the model.  `drv = none` until `new` succeeded. -/
def runOps (p : Panel) (scribble : Bool := false) : List Op → Env → Option DState → List OpTrace
  | [], _, _ => []
  | op :: ops, e, drv =>
    match op, drv with
    | .new, _ =>
      match p.prog p.init .new with
      | none => [{ evs := [], res := .unsup, bg := none }]
      | some acts =>
        let r := runActs e p.init acts
        match r.2.2.2 with
        | .ok => { evs := r.1, res := .ok, bg := some r.2.2.1.bg, d := p.init } :: runOps p scribble ops r.2.1 (some r.2.2.1)
        | x => [{ evs := r.1, res := .ofRes x, bg := none }]
    | _, none => [{ evs := [], res := .unsup, bg := none }]
    | _, some d =>
      match p.prog d op with
      | none => [{ evs := [], res := .unsup, bg := some d.bg }]
      | some acts =>
        let r := runActs e d acts
        let t : OpTrace := { evs := r.1, res := .ofRes r.2.2.2, bg := some r.2.2.1.bg, d := d }
        match r.2.2.2 with
        | .ok | .err => t :: runOps p scribble ops r.2.1 (some (scribbleAfter scribble acts d r.2.2.1))
        | _ => [t]

/-! ## canonical form of a trace (what is compared with the implementation) -/

inductive CEv
  | w (dc : Bool) (lens : List (Nat × Nat)) (bytes : Bytes)
  | fail (dc : Bool) (len : Nat)
  | rst (lvl : Bool)
  | busy (lvl : Bool)
  | delay (u : DUnit) (n : Nat)
  deriving DecidableEq, Repr, Inhabited

def rleOf (chunk len : Nat) : List (Nat × Nat) :=
  (if len / chunk > 0 then [(chunk, len / chunk)] else []) ++
  (if len % chunk > 0 then [(len % chunk, 1)] else [])

def rleAppend (a b : List (Nat × Nat)) : List (Nat × Nat) :=
  match a.getLast?, b with
  | some (l, c), (l', c') :: rest => if l = l' then a.dropLast ++ (l, c + c') :: rest else a ++ b
  | _, _ => a ++ b

/-- merge adjacent bursts with the same D/C level -/
def canon : List Ev → List CEv
  | [] => []
  | .w _ _ [] :: es => canon es          -- zero bytes = zero transfers: nothing on the wire
  | .w dc c bs :: es =>
    let c' := if c = 0 then 1 else c
    match canon es with
    | .w dc' lens bs' :: rest =>
      if dc = dc' then .w dc (rleAppend (rleOf c' bs.length) lens) (bs ++ bs') :: rest
      else .w dc (rleOf c' bs.length) bs :: .w dc' lens bs' :: rest
    | rest => .w dc (rleOf c' bs.length) bs :: rest
  | .fail dc n :: es => .fail dc n :: canon es
  | .rst l :: es => .rst l :: canon es
  | .busy l :: es => .busy l :: canon es
  | .delay u n :: es => .delay u n :: canon es

def CEv.toString : CEv → String
  | .w dc lens bs =>
    let rle := ",".intercalate (lens.map fun (l, c) => s!"{l}*{c}")
    let hex := if bs.length ≤ 24 then hexOf bs else
      hexOf (bs.take 8) ++ ".." ++ hexOf (bs.drop (bs.length - 8)) ++ s!"#{bs.length}:" ++
        String.ofList (Nat.toDigits 16 (fnv1a bs).toNat)
    s!"W {if dc then 1 else 0} {rle} {hex}"
  | .fail dc n => s!"F {if dc then 1 else 0} {n}"
  | .rst l => s!"R {if l then 1 else 0}"
  | .busy l => s!"B {if l then 1 else 0}"
  | .delay u n => s!"D {match u with | .us => "us" | .ms => "ms" | .ns => "ns"} {n}"

/-! ## parsing implementation traces -/

def parseRle (s : String) : Option (List (Nat × Nat)) :=
  (s.splitOn ",").mapM fun t =>
    match t.splitOn "*" with
    | [l, c] => do pure (← l.toNat?, ← c.toNat?)
    | _ => none

def splitBytes : List (Nat × Nat) → Bytes → List (Nat × Bytes)
  | [], _ => []
  | (l, c) :: rest, bs => (l, bs.take (l * c)) :: splitBytes rest (bs.drop (l * c))

/-- one trace line → events (a `W` line with several run lengths becomes several bursts) -/
def parseEvLine (line : String) : Option (List Ev) :=
  match line.splitOn " " with
  | ["W", dc, rle, hex] => do
    let lens ← parseRle rle
    let bs ← parseHex hex
    let d := dc == "1"
    if dc ≠ "0" ∧ dc ≠ "1" then none else
    pure ((splitBytes lens bs).map fun (l, seg) => Ev.w d l seg)
  | ["F", dc, n] => do pure [Ev.fail (dc == "1") (← n.toNat?)]
  | ["R", l] => some [Ev.rst (l == "1")]
  | ["B", l] => some [Ev.busy (l == "1")]
  | ["D", "us", n] => n.toNat?.map fun k => [Ev.delay .us k]
  | ["D", "ms", n] => n.toNat?.map fun k => [Ev.delay .ms k]
  | ["D", "ns", n] => n.toNat?.map fun k => [Ev.delay .ns k]
  | _ => none

def parseRes (s : String) : Option OpRes :=
  match s with
  | "ok" => some .ok | "err" => some .err | "panic" => some .panic
  | "hang" => some .hang | "unsup" => some .unsup | _ => none

end EpdVerif
