import EpdVerif.Basic
/-!
# The action language and the model of `src/interface.rs`

A driver method is a *program*: a `List Act` computed from the driver's fields and the
call's arguments.  `stepAct`/`runActs` give the low-level semantics, i.e. what
`DisplayInterface` does with the HAL for each action, under an environment that decides the
only two things the environment can decide: which SPI transfer fails, and how long the busy
pin stays busy after a busy-raising command.
-/

namespace EpdVerif

inductive Refresh | full | quick
  deriving DecidableEq, Repr, Inhabited

/-- the union of the fields the 27 trait drivers keep between calls -/
structure DState where
  bg : Nat := 1                 -- background colour (index in the panel's colour type)
  refresh : Refresh := .full    -- `refresh` / `refresh_mode`
  isOn : Bool := false          -- epd1in02 `is_turned_on`
  partialFlag : Bool := false   -- epd2in9d `is_partial_refresh`
  sleepMode : UInt8 := 1        -- epd2in13_v2 `sleep_mode`
  oldData : List UInt8 := []    -- epd2in9d `old_data` (what the retained pointer designates)
  deriving Repr, Inhabited, DecidableEq

inductive Act
  | cmd (c : UInt8)                      -- `interface.cmd`
  | data (bs : List UInt8)               -- `interface.data` (one call)
  | rep (v : UInt8) (n : Nat)            -- `interface.data_x_times`
  | wait (busyLow : Bool)                -- `interface.wait_until_idle`
  | waitCmd (busyLow : Bool) (c : UInt8) -- `interface.wait_until_idle_with_cmd`
  | reset (a b : Nat)                    -- `interface.reset(delay, a, b)`
  | delayUs (n : Nat)                    -- `delay.delay_us(n)` called by a driver
  | delayMs (n : Nat)                    -- `delay.delay_ms(n)` called by a driver
  | upd (f : DState → DState)            -- assignment to a driver field at this point
  | panic                                -- assert!/panic!/unimplemented!/overflow here

inductive DUnit | us | ms | ns
  deriving DecidableEq, Repr, Inhabited

/-- what the mock HAL observes -/
inductive Ev
  /-- a burst of successful SPI transfers made with D/C at level `dc`: the bytes are cut into
      consecutive transfers of `chunk` bytes (the last one may be shorter) -/
  | w (dc : Bool) (chunk : Nat) (bytes : List UInt8)
  /-- the transfer that returned the injected error (attempted length) -/
  | fail (dc : Bool) (len : Nat)
  | rst (lvl : Bool)
  | busy (lvl : Bool)      -- one read of the busy pin and the level it returned
  | delay (u : DUnit) (n : Nat)
  deriving DecidableEq, Repr, Inhabited

inductive Res | ok | err | panic | hang
  deriving DecidableEq, Repr, Inhabited

structure Env where
  single : Bool := true         -- SINGLE_BYTE_WRITE of the driver's interface
  delayUs : Nat := 10000        -- effective idle delay (`delay_us.unwrap_or(10_000)`)
  fault : Option Nat := none    -- number of transfers that still succeed before the failing one
  sched : List Nat := []        -- durations (in polls) of the coming busy episodes
  busy : Nat := 0               -- polls for which the pin still shows busy
  raise : List UInt8 := []      -- command bytes that start a busy episode (family fact)
  busyLvl : Bool := false       -- pin level that means "busy" (family fact)
  deriving Repr, Inhabited

/-- number of SPI transfers a burst stands for -/
def nTransfers (chunk len : Nat) : Nat := (len + chunk - 1) / chunk

/-- start the next busy episode -/
def Env.raiseBusy (e : Env) : Env :=
  match e.sched with
  | [] => { e with busy := 0 }
  | d :: ds => { e with busy := d, sched := ds }

/-- a burst of transfers under the fault budget (a burst of zero bytes is zero transfers; the
    event is kept so that the trace has one event per interface call; `canon` drops it) -/
def burst (e : Env) (dc : Bool) (chunk : Nat) (bytes : List UInt8) : List Ev × Env × Bool :=
  let n := nTransfers chunk bytes.length
  match e.fault with
  | none => ([Ev.w dc chunk bytes], e, true)
  | some k =>
    if n ≤ k then
      ([Ev.w dc chunk bytes], { e with fault := some (k - n) }, true)
    else
      ((if k = 0 then [] else [Ev.w dc chunk (bytes.take (k * chunk))])
          ++ [Ev.fail dc (min chunk (bytes.length - k * chunk))],
        { e with fault := none }, false)

/-- `interface.cmd`: one single-byte transfer with D/C low; a successful busy-raising
    command starts the next busy episode -/
def doCmd (e : Env) (c : UInt8) : List Ev × Env × Bool :=
  let (evs, e', ok) := burst e false 1 [c]
  (evs, if ok && e.raise.contains c then e'.raiseBusy else e', ok)

def pinLevel (e : Env) : Bool := if e.busy = 0 then !e.busyLvl else e.busyLvl

def delayEvs (e : Env) : List Ev := if e.delayUs > 0 then [Ev.delay .us e.delayUs] else []

/-- `wait_until_idle`: `while is_busy { delay }`, one pin read per test (each read while the
    episode lasts consumes one poll of it).  With the wrong polarity the loop returns at once
    on a busy panel and spins on an idle one (`hang = true`).
    Returns (events, remaining busy polls, hang). -/
def waitLoop (e : Env) (busyLow : Bool) : (busy : Nat) → List Ev × Nat × Bool
  | 0 =>
    let lvl := !e.busyLvl
    ([Ev.busy lvl], 0, lvl != busyLow)
  | n + 1 =>
    let lvl := e.busyLvl
    if lvl != busyLow then
      let r := waitLoop e busyLow n
      (Ev.busy lvl :: (delayEvs e ++ r.1), r.2.1, r.2.2)
    else ([Ev.busy lvl], n, false)

/-- the polling part of `wait_until_idle_with_cmd` (the status command never raises busy) -/
def waitCmdLoop (busyLow : Bool) (c : UInt8) : (busy : Nat) → Env → List Ev × Env × Res
  | 0, e =>
    let lvl := !e.busyLvl
    ([Ev.busy lvl], { e with busy := 0 }, if lvl != busyLow then Res.hang else Res.ok)
  | n + 1, e =>
    let lvl := e.busyLvl
    if lvl != busyLow then
      let b := burst e false 1 [c]
      if b.2.2 then
        let r := waitCmdLoop busyLow c n b.2.1
        (Ev.busy lvl :: (b.1 ++ delayEvs e ++ r.1), r.2.1, r.2.2)
      else (Ev.busy lvl :: b.1, { b.2.1 with busy := n }, Res.err)
    else ([Ev.busy lvl], { e with busy := n }, Res.ok)

def resetEvs (a b : Nat) : List Ev :=
  [Ev.rst true, Ev.delay .us a, Ev.rst false, Ev.delay .us b, Ev.rst true, Ev.delay .us 200000]

/-- chunk size `interface.data` uses: byte-wise, or block-wise cut at 4096 (Linux) -/
def Env.chunk (e : Env) : Nat := if e.single then 1 else 4096

/-- one action: events, new environment, new driver fields, result -/
def stepAct (e : Env) (d : DState) : Act → List Ev × Env × DState × Res
  | .cmd c =>
    let r := doCmd e c
    (r.1, r.2.1, d, if r.2.2 then .ok else .err)
  | .data bs =>
    let r := burst e true e.chunk bs
    (r.1, r.2.1, d, if r.2.2 then .ok else .err)
  | .rep v n =>
    let r := burst e true 1 (List.replicate n v)
    (r.1, r.2.1, d, if r.2.2 then .ok else .err)
  | .wait busyLow =>
    let r := waitLoop e busyLow e.busy
    (r.1, { e with busy := r.2.1 }, d, if r.2.2 then .hang else .ok)
  | .waitCmd busyLow c =>
    let b := burst e false 1 [c]
    if b.2.2 then
      let r := waitCmdLoop busyLow c b.2.1.busy b.2.1
      (b.1 ++ delayEvs e ++ r.1, r.2.1, d, r.2.2)
    else (b.1, b.2.1, d, .err)
  | .reset a b => (resetEvs a b, e.raiseBusy, d, .ok)
  | .delayUs n => ([Ev.delay .us n], e, d, .ok)
  | .delayMs n => ([Ev.delay .ms n], e, d, .ok)
  | .upd f => ([], e, f d, .ok)
  | .panic => ([], e, d, .panic)

/-- a program: stops at the first action that does not return `ok` (the `?` operator, a
    panic unwinding, a wait that never returns) -/
def runActs (e : Env) (d : DState) : List Act → List Ev × Env × DState × Res
  | [] => ([], e, d, .ok)
  | a :: as =>
    let r := stepAct e d a
    match r.2.2.2 with
    | .ok =>
      let r' := runActs r.2.1 r.2.2.1 as
      (r.1 ++ r'.1, r'.2.1, r'.2.2.1, r'.2.2.2)
    | x => (r.1, r.2.1, r.2.2.1, x)

/-- driver fields after the whole program ran successfully -/
def applyUpds (d : DState) : List Act → DState
  | [] => d
  | .upd f :: as => applyUpds (f d) as
  | _ :: as => applyUpds d as

/-! ## Views of an event list -/

/-- the individual SPI transfers a burst stands for (`fuel` = an upper bound of the length) -/
def chunksAux (chunk : Nat) : Nat → List UInt8 → List (List UInt8)
  | 0, _ => []
  | fuel + 1, bs => if bs = [] then [] else bs.take chunk :: chunksAux chunk fuel (bs.drop chunk)

def chunks (chunk : Nat) (bs : List UInt8) : List (List UInt8) :=
  if chunk = 0 then (if bs = [] then [] else [bs]) else chunksAux chunk bs.length bs

/-- every SPI transfer of a trace as (D/C level, bytes) -/
def transfers : List Ev → List (Bool × List UInt8)
  | [] => []
  | .w dc c bs :: es => (chunks c bs).map (fun t => (dc, t)) ++ transfers es
  | _ :: es => transfers es

/-- the logical byte stream: (D/C level, byte) for every byte successfully sent -/
def byteStream : List Ev → List (Bool × UInt8)
  | [] => []
  | .w dc _ bs :: es => bs.map (fun b => (dc, b)) ++ byteStream es
  | _ :: es => byteStream es

/-- what the program means to send: (D/C, byte) -/
def logical : List Act → List (Bool × UInt8)
  | [] => []
  | .cmd c :: as => (false, c) :: logical as
  | .data bs :: as => bs.map (fun b => (true, b)) ++ logical as
  | .rep v n :: as => (List.replicate n v).map (fun b => (true, b)) ++ logical as
  | _ :: as => logical as

end EpdVerif
