import EpdVerif.Basic
/-!
# Model of `src/color.rs`

Function by function, same case splits.  `none` = the Rust panics.  embedded-graphics types are
modelled as far as the code uses them: an RGB colour is its three raw channel values with the
per-depth maxima, `RawU1/2/4` are numbers below 2/4/16, `BinaryColor` is a `Bool` (`On = true`).
-/
namespace EpdVerif

inductive Color | black | white
  deriving DecidableEq, Repr, Inhabited
inductive TriColor | black | white | chromatic
  deriving DecidableEq, Repr, Inhabited
inductive OctColor | black | white | green | blue | red | yellow | orange | hiZ
  deriving DecidableEq, Repr, Inhabited

/-- `0x80 >> (pos % 8)`: the bit of pixel `pos` in a 1 bpp byte -/
def oneBit (pos : Nat) : UInt8 := (0x80 : UInt8) >>> UInt8.ofNat (pos % 8)

namespace Color
def all : List Color := [.black, .white]
def idx : Color → Nat | .black => 0 | .white => 1
def getBitValue : Color → UInt8 | .white => 1 | .black => 0
def getByteValue : Color → UInt8 | .white => 0xFF | .black => 0x00
/-- `Color::from(u8)`: panics outside {0,1} -/
def fromU8 (v : UInt8) : Option Color := if v = 0 then some .black else if v = 1 then some .white else none
def inverse : Color → Color | .white => .black | .black => .white
/-- `ColorType::bitmask` → (mask, bits) -/
def bitmask (c : Color) (_bwr : Bool) (pos : Nat) : UInt8 × Nat :=
  let bit : UInt8 := oneBit pos
  match c with
  | .black => (~~~bit, 0)
  | .white => (~~~bit, bit.toNat)
/-- `From<RawU1>` -/
def fromRawU1 (b : Nat) : Color := if b = 0 then .white else .black
/-- `From<Color> for RawU1` (`RawU1::new` masks to one bit) -/
def toRawU1 (c : Color) : Nat := c.getBitValue.toNat % 2
def fromBinary (on : Bool) : Color := if on then .black else .white
end Color

namespace TriColor
def all : List TriColor := [.black, .white, .chromatic]
def idx : TriColor → Nat | .black => 0 | .white => 1 | .chromatic => 2
def getBitValue : TriColor → UInt8 | .white => 1 | _ => 0
def getByteValue : TriColor → UInt8 | .white => 0xFF | _ => 0x00
def bitmask (c : TriColor) (bwr : Bool) (pos : Nat) : UInt8 × Nat :=
  let bit : UInt8 := oneBit pos
  match c with
  | .black => (~~~bit, 0)
  | .white => (~~~bit, bit.toNat)
  | .chromatic => (~~~bit, if bwr then bit.toNat * 256 else bit.toNat * 256 + bit.toNat)
def fromRawU2 (b : Nat) : TriColor := if b = 0 then .white else if b = 1 then .black else .chromatic
def fromBinary (on : Bool) : TriColor := if on then .black else .white
end TriColor

namespace OctColor
def all : List OctColor := [.black, .white, .green, .blue, .red, .yellow, .orange, .hiZ]
def getNibble : OctColor → UInt8
  | .black => 0 | .white => 1 | .green => 2 | .blue => 3 | .red => 4 | .yellow => 5 | .orange => 6 | .hiZ => 7
def idx (c : OctColor) : Nat := c.getNibble.toNat
def colorsByte (a b : OctColor) : UInt8 := (a.getNibble <<< 4) ||| b.getNibble
/-- `from_nibble`: `Err` outside 0..7 (of the low four bits) -/
def fromNibble (n : UInt8) : Option OctColor :=
  match (n &&& 0xF).toNat with
  | 0 => some .black | 1 => some .white | 2 => some .green | 3 => some .blue
  | 4 => some .red | 5 => some .yellow | 6 => some .orange | 7 => some .hiZ | _ => none
/-- `split_byte` → (high, low) -/
def splitByte (b : UInt8) : Option (OctColor × OctColor) :=
  match fromNibble (b &&& 0xF), fromNibble ((b >>> 4) &&& 0xF) with
  | some lo, some hi => some (hi, lo)
  | _, _ => none
def rgb : OctColor → Nat × Nat × Nat
  | .white => (255, 255, 255) | .black => (0, 0, 0) | .green => (0, 255, 0) | .blue => (0, 0, 255)
  | .red => (255, 0, 0) | .yellow => (255, 255, 0) | .orange => (255, 128, 0) | .hiZ => (128, 128, 128)
def bitmask (c : OctColor) (_bwr : Bool) (pos : Nat) : UInt8 × Nat :=
  let mask : UInt8 := ~~~((0xF0 : UInt8) >>> (UInt8.ofNat ((pos % 2) * 4)))
  let bits := c.getNibble.toNat
  (mask, if pos % 2 = 1 then bits else bits * 16)
/-- `From<RawU4>`: `from_nibble(..).unwrap()` panics for 8..15 -/
def fromRawU4 (b : Nat) : Option OctColor := fromNibble (UInt8.ofNat (b % 16))
def fromBinary (on : Bool) : OctColor := if on then .black else .white
def dist (c : OctColor) (r g b : Nat) : Nat :=
  let (cr, cg, cb) := c.rgb
  let d (x y : Nat) : Nat := (if x ≥ y then x - y else y - x) ^ 2
  d cr r + d cg g + d cb b
/-- first element of minimal key (`Iterator::min_by_key`) -/
def minBy (key : OctColor → Nat) : List OctColor → OctColor → OctColor
  | [], best => best
  | c :: cs, best => minBy key cs (if key c < key best then c else best)
/-- `From<Rgb888>` -/
def fromRgb888 (r g b : Nat) : OctColor :=
  match all.find? (fun c => c.rgb == (r, g, b)) with
  | some c => c
  | none => minBy (fun c => c.dist r g b) all.tail .black
end OctColor

/-- channel maxima of an RGB depth -/
structure RgbDepth where
  mr : Nat
  mg : Nat
  mb : Nat
  deriving DecidableEq, Repr
def rgb888 : RgbDepth := ⟨255, 255, 255⟩
def rgb565 : RgbDepth := ⟨31, 63, 31⟩
def rgb555 : RgbDepth := ⟨31, 31, 31⟩

/-- the brightness threshold of the three `From<Rgb*> for Color` impls: `255 * 3 / 2` for
    Rgb888, half of the depth's maximal channel sum for Rgb565 / Rgb555 (fix b180c08) -/
def Color.threshold (dp : RgbDepth) : Nat :=
  if dp = rgb888 then 255 * 3 / 2 else (dp.mr + dp.mg + dp.mb) / 2

/-- `From<Rgb888/565/555> for Color` -/
def Color.fromRgb (dp : RgbDepth) (r g b : Nat) : Color :=
  if (r, g, b) = (0, 0, 0) then .black
  else if (r, g, b) = (dp.mr, dp.mg, dp.mb) then .white
  else if r + g + b > Color.threshold dp then .white else .black

/-- `From<Color> for Rgb*` -/
def Color.toRgb (dp : RgbDepth) : Color → Nat × Nat × Nat
  | .black => (0, 0, 0)
  | .white => (dp.mr, dp.mg, dp.mb)

/-- `From<Rgb888> for TriColor` -/
def TriColor.fromRgb888 (r g b : Nat) : TriColor :=
  if (r, g, b) = (0, 0, 0) then .black else if (r, g, b) = (255, 255, 255) then .white else .chromatic
def TriColor.toRgb888 : TriColor → Nat × Nat × Nat
  | .black => (0, 0, 0) | .white => (255, 255, 255) | .chromatic => (255, 0, 0)

/-- SPECIFICATION (C14): the brightness-nearest of black and white in a depth: nearer to white
    than to black in the channel sum (no ties: the maximal sums 765, 125, 93 are odd) -/
def nearestBW (dp : RgbDepth) (r g b : Nat) : Color :=
  if 2 * (r + g + b) > dp.mr + dp.mg + dp.mb then .white else .black

end EpdVerif
