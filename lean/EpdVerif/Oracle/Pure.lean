import EpdVerif.Pure
/-!
# Oracles for the pure-function properties, evaluated on the IMPLEMENTATION's printed results

Each returns `none` (holds) or `some "site=… reason=… got=… want=…"`.
-/
namespace EpdVerif.Oracle

def kvOf (text : String) (k : String) : Option String :=
  ((text.splitOn " ").filterMap fun t =>
    match t.splitOn "=" with
    | [a, b] => if a == k then some b else none
    | _ => none).head?

def parseRectStr (s : String) : Option (Option Rect) :=
  if s == "panic" then some none else
  match (s.splitOn ".").mapM String.toNat? with
  | some [x, y, w, h] => some (some ⟨x, y, w, h⟩)
  | _ => none

/-- interval [lo, hi) as a set equals the interval [x, x+w) -/
def sameInterval (lo hi x w : Nat) : Bool :=
  if hi ≤ lo then w == 0 else (x == lo && x + w == hi)

namespace C16

/-- pixel-set oracle on a small box -/
def pixelOk (a b r : Rect) (bound : Nat) : Bool :=
  (List.range bound).all fun px => (List.range bound).all fun py =>
    decide (r.covers px py) == (decide (a.covers px py) && decide (b.covers px py))

def check (v : List Nat) (impl : String) : Option String :=
  match v with
  | [ax, ay, aw, ah, bx, b_y, bw, bh, dx, dy] =>
    let a : Rect := ⟨ax, ay, aw, ah⟩
    let b : Rect := ⟨bx, b_y, bw, bh⟩
    match (kvOf impl "I").bind parseRectStr, (kvOf impl "J").bind parseRectStr,
          (kvOf impl "S").bind parseRectStr, kvOf impl "E" with
    | some i, some j, some s, some e =>
      let r1 :=
        if decide a.noOverflow && decide b.noOverflow then
          match i with
          | none => some s!"site=rect/intersect reason=panic got=panic want=rect"
          | some r =>
            if j ≠ some r then some s!"site=rect/intersect reason=not-commutative got={rectStr j} want={rectStr (some r)}"
            else if e ≠ b01 (r.w == 0 || r.h == 0) then some s!"site=rect/is_empty reason=is-empty got={e} want={b01 (r.w == 0 || r.h == 0)}"
            else
              let small := [ax, ay, aw, ah, bx, b_y, bw, bh, r.x, r.y, r.w, r.h].all (· ≤ 24)
              let okPix := if small then pixelOk a b r 50 else true
              -- exact pixel set by interval reasoning (any size); an empty result may sit anywhere
              let xs := sameInterval (max ax bx) (min (ax + aw) (bx + bw)) r.x r.w
              let ys := sameInterval (max ay b_y) (min (ay + ah) (b_y + bh)) r.y r.h
              let emptyBoth := (r.w == 0 || r.h == 0) &&
                (min (ax + aw) (bx + bw) ≤ max ax bx || min (ay + ah) (b_y + bh) ≤ max ay b_y)
              if okPix && ((xs && ys) || emptyBoth) then none
              else some s!"site=rect/intersect reason=pixel-set got={rectStr (some r)} want=common-pixels-of-{rectStr (some a)}-and-{rectStr (some b)}"
        else none
      match r1 with
      | some f => some f
      | none =>
        if dx ≤ ax ∧ dy ≤ ay then
          if s == some ⟨ax - dx, ay - dy, aw, ah⟩ then none
          else some s!"site=rect/sub_offset reason=translate got={rectStr s} want={ax - dx}.{ay - dy}.{aw}.{ah}"
        else none
    | _, _, _, _ => some s!"site=rect reason=unparsable got={(impl.take 60).toString} want=result"
  | _ => none

end C16

namespace C14

def specRgbSmall (dp : RgbDepth) : Nat × UInt64 := Id.run do
  let mut h := H0
  let mut whites := 0
  for r in [0:dp.mr+1] do
    for g in [0:dp.mg+1] do
      for b in [0:dp.mb+1] do
        let c := (nearestBW dp r g b).idx
        h := mix h (UInt64.ofNat c)
        whites := whites + c
  return (whites, h)

def specRgb888 (stride offset : Nat) : UInt64 := Id.run do
  let mut hc := H0
  let mut v := offset
  for _ in [0:(16777216 + stride - 1 - offset) / stride] do
    if v < 16777216 then
      hc := mix hc (UInt64.ofNat (nearestBW rgb888 (v / 65536) (v / 256 % 256) (v % 256)).idx)
      v := v + stride
  return hc

def digit (c : Char) : Nat := c.toNat - 48

/-- property checks on the implementation's printed results of one `color,<domain>` op -/
def check (a : List String) (impl : String) : List String :=
  match a with
  | ["color", "bytes"] =>
    let groups := (impl.splitOn ".").filter (· ≠ "")
    if groups.length ≠ 256 then [s!"site=color/bytes reason=unparsable got={groups.length} want=256"] else
    Option.toList <| (List.range 256).findSome? fun v =>
      match (groups.getD v "").toList with
      | [c, o, hi, lo] =>
        let wantC := if v = 0 then '0' else if v = 1 then '1' else 'p'
        let nlo := v % 16
        let nhi := v / 16
        let wantO := if nlo < 8 then Char.ofNat (48 + nlo) else 'e'
        let wantHi := if nlo < 8 ∧ nhi < 8 then Char.ofNat (48 + nhi) else 'e'
        let wantLo := if nlo < 8 ∧ nhi < 8 then Char.ofNat (48 + nlo) else 'e'
        if c ≠ wantC then some s!"site=color/from_u8 reason=decode got={c} want={wantC} byte={v}"
        else if o ≠ wantO then some s!"site=color/from_nibble reason=decode got={o} want={wantO} byte={v}"
        else if hi ≠ wantHi ∨ lo ≠ wantLo then some s!"site=color/split_byte reason=decode got={hi}{lo} want={wantHi}{wantLo} byte={v}"
        else none
      | _ => some s!"site=color/bytes reason=unparsable got={groups.getD v ""} want=4chars"
  | ["color", "raw"] =>
    match impl.splitOn ";" with
    | fromU1 :: toU1 :: fromU2 :: fromU4 :: bin :: _ =>
      let f := fromU1.toList.map digit
      let t := toU1.toList.map digit
      -- colour index c → raw t[c] → colour f[t[c]] must be c again
      let rt := (List.range 2).find? fun c => f.getD (t.getD c 9) 9 ≠ c
      let r1 := match rt with
        | some c => [s!"site=color/raw_u1 reason=roundtrip got={f.getD (t.getD c 9) 9} want={c}"]
        | none => []
      let r2 := if fromU2.toList.map digit ≠ [1, 0, 2, 2] then [s!"site=color/raw_u2 reason=decode got={fromU2} want=1022"] else []
      let r3 := if fromU4.toList.any (· == 'p') then
          [s!"site=color/raw_u4 reason=panic got={fromU4} want=no-panic"]
        else if (fromU4.toList.take 8).map digit ≠ List.range 8 then [s!"site=color/raw_u4 reason=decode got={fromU4} want=01234567.."]
        else []
      let r4 := if bin ≠ "111000" then [s!"site=color/binary reason=decode got={bin} want=111000"] else []
      r1 ++ r2 ++ r3 ++ r4
    | _ => [s!"site=color/raw reason=unparsable got={(impl.take 40).toString} want=fields"]
  | ["color", "rgb565"] =>
    let (w, h) := specRgbSmall rgb565
    if kvOf impl "W" ≠ some (toString w) ∨ kvOf impl "H" ≠ some (hex16 h) then
      [s!"site=color/from_rgb565 reason=brightness got=W={(kvOf impl "W").getD "?"} want=W={w}"]
    else []
  | ["color", "rgb555"] =>
    let (w, h) := specRgbSmall rgb555
    if kvOf impl "W" ≠ some (toString w) ∨ kvOf impl "H" ≠ some (hex16 h) then
      [s!"site=color/from_rgb555 reason=brightness got=W={(kvOf impl "W").getD "?"} want=W={w}"]
    else []
  | ["color", "rgb888", s, o] =>
    match s.toNat?, o.toNat? with
    | some s, some o =>
      if s = 0 then [] else
      if kvOf impl "C" ≠ some (hex16 (specRgb888 s o)) then
        [s!"site=color/from_rgb888 reason=brightness got=C={(kvOf impl "C").getD "?"} want=C={hex16 (specRgb888 s o)}"]
      else []
    | _, _ => []
  | ["color", "rgbone", d, r, g, b] =>
    match r.toNat?, g.toNat?, b.toNat? with
    | some r, some g, some b =>
      let dp := if d == "565" then rgb565 else if d == "555" then rgb555 else rgb888
      let want := (nearestBW dp r g b).idx
      let r1 := if kvOf impl "C" ≠ some (toString want) then
        [s!"site=color/from_rgb{d} reason=brightness got=C={(kvOf impl "C").getD "?"} want=C={want} rgb={r}.{g}.{b}"]
      else []
      -- OctColor: a palette colour of minimal squared distance (ties free), the exact one on a match
      let r2 := if d ≠ "888" then [] else
        match (kvOf impl "O").bind String.toNat? with
        | none => [s!"site=color/oct_from_rgb888 reason=no-result got=? want=palette-index rgb={r}.{g}.{b}"]
        | some oi =>
          match OctColor.all.find? (·.idx == oi) with
          | none => [s!"site=color/oct_from_rgb888 reason=not-a-colour got=O={oi} want=0..7 rgb={r}.{g}.{b}"]
          | some c =>
            let dmin := (OctColor.all.map fun x => x.dist r g b).foldl min (c.dist r g b)
            if c.dist r g b ≠ dmin then
              [s!"site=color/oct_from_rgb888 reason=not-nearest got=O={oi}@{c.dist r g b} want=distance{dmin} rgb={r}.{g}.{b}"]
            else []
      r1 ++ r2
    | _, _, _ => []
  | _ => []

end C14

namespace C03

/-- checks on the implementation's result of one `setpx` / `setone` batch -/
def check (a : List String) (impl : String) : List String :=
  match a with
  | ["setpx", target, rot, _col, _seed, mode] =>
    let isVar := target.startsWith "var:"
    let tag := if isVar then ((target.drop 4).toString.splitOn ":").getD 2 "bw"
      else match aliases.find? (·.panel == target) with
        | some al => kindTag al.kind
        | none => "bw"
    let site := if mode == "ext" then "graphics/rotation-overflow"
      else if isVar then s!"graphics/vardisplay/{tag}" else s!"graphics/display/{tag}"
    if impl == "R=err" then [] else
    let np := (kvOf impl "NP").getD "?"
    let r1 := if np ≠ "0" then [s!"site={site} reason=panic got=P={(kvOf impl "P").getD "?"} want=no-panic rot={rot}"] else []
    let r2 := if isVar ∧ kvOf impl "TAIL" ≠ some "1" then [s!"site={site} reason=outside-slice got=TAIL=0 want=TAIL=1"] else []
    -- reported size: swapped exactly for 90/270
    let dims : Option (Nat × Nat) :=
      if isVar then
        match (target.drop 4).toString.splitOn ":" with
        | w :: h :: _ => do pure (← w.toNat?, ← h.toNat?)
        | _ => none
      else (aliases.find? (·.panel == target)).map fun al => (al.drvW, al.drvH)
    let r3 := match dims, parseRot rot with
      | some (w, h), some r =>
        let (sw, sh) := displaySize w h r
        if kvOf impl "S" ≠ some s!"{sw}.{sh}" then [s!"site={site} reason=size got=S={(kvOf impl "S").getD "?"} want=S={sw}.{sh}"] else []
      | _, _ => []
    r1 ++ r2 ++ r3
  | "setone" :: _ =>
    if impl == "R=panic" then ["site=graphics/set_pixel reason=panic got=panic want=no-panic"] else []
  | _ => []

end C03

namespace C13

def check (a : List String) (impl : String) : List String :=
  match a with
  | ["alias"] =>
    let rows := (impl.splitOn ";").filter (· ≠ "")
    let r0 := if rows.length ≠ aliases.length then
      [s!"site=graphics/alias reason=count got={rows.length} want={aliases.length}"] else []
    r0 ++ rows.flatMap fun row =>
      let fields := row.splitOn ":"
      -- single-plane rows have no `order` field
      match (if fields.length = 9 then fields ++ ["1"] else fields) with
      | [name, w, h, len, zero, tag, _bwr, l1, l2, order] =>
        match aliases.find? (·.panel == name), w.toNat?, h.toNat?, len.toNat? with
        | some al, some w, some h, some len =>
          let k := ckOfTag tag
          let site := s!"graphics/alias/{name}"
          (if (w, h) ≠ (al.drvW, al.drvH) then [s!"site={site} reason=dimensions got={w}x{h} want={al.drvW}x{al.drvH}"] else []) ++
          (if len ≠ requiredLen w h k then [s!"site={site} reason=length got={len} want={requiredLen w h k}"] else []) ++
          (if zero ≠ "1" then [s!"site={site} reason=not-zero got={zero} want=1"] else []) ++
          (if tag == "tri" ∧ (l1.toNat? ≠ some (len / 2) ∨ l2.toNat? ≠ some (len / 2) ∨ len % 2 ≠ 0 ∨ order ≠ "1") then
            [s!"site={site} reason=halves got={l1}+{l2} want={len / 2}+{len / 2}"] else [])
        | _, _, _, _ => [s!"site=graphics/alias reason=unknown-row got={name} want=known-alias"]
      | _ => [s!"site=graphics/alias reason=unparsable got={(row.take 40).toString} want=row"]
  | ["vardisp", w, h, tag, len] =>
    match w.toNat?, h.toNat?, len.toNat? with
    | some w, some h, some len =>
      let k := ckOfTag tag
      let req := requiredLen w h k
      let site := s!"graphics/vardisplay-new/{tag}"
      if impl == "R=err" then
        if req ≤ len then [s!"site={site} reason=rejects-sufficient got=err want=ok geometry={w}x{h} len={len}"] else []
      else
        (if len < req then [s!"site={site} reason=accepts-short got=ok want=err geometry={w}x{h} len={len} need={req}"] else []) ++
        (if kvOf impl "L" ≠ some (toString req) then [s!"site={site} reason=exposed-length got=L={(kvOf impl "L").getD "?"} want=L={req} geometry={w}x{h}"] else []) ++
        (if tag == "tri" ∧ kvOf impl "BW" ≠ kvOf impl "CH" then [s!"site={site} reason=halves got={(kvOf impl "BW").getD "?"}+{(kvOf impl "CH").getD "?"} want=equal geometry={w}x{h}"] else [])
    | _, _, _ => []
  | ["vargrid", _, _] =>
    if kvOf impl "PANICS" ≠ some "0" then
      [s!"site=graphics/vardisplay/any reason=panic got=FIRST={(kvOf impl "FIRST").getD "?"} want=no-panic count={(kvOf impl "PANICS").getD "?"}"]
    else []
  | _ => []

end C13
end EpdVerif.Oracle
