import EpdVerif.Pure
/-!
# Oracles for the pure-function properties, evaluated on the IMPLEMENTATION's printed results

Each returns `none` (holds) or `some "site=… reason=… got=… want=…"`.
-/
namespace EpdVerif.Oracle

def kvOf (text : String) (k : String) : Option String :=
  ((text.splitOn " ").filterMap fun t =>
    match t.splitOn "=" with
    | [a, b] => if a == k then some b else none
    | _ => none).head?

def parseRectStr (s : String) : Option (Option Rect) :=
  if s == "panic" then some none else
  match (s.splitOn ".").mapM String.toNat? with
  | some [x, y, w, h] => some (some ⟨x, y, w, h⟩)
  | _ => none

/-- interval [lo, hi) as a set equals the interval [x, x+w) -/
def sameInterval (lo hi x w : Nat) : Bool :=
  if hi ≤ lo then w == 0 else (x == lo && x + w == hi)

namespace C16

/-- pixel-set oracle on a small box -/
def pixelOk (a b r : Rect) (bound : Nat) : Bool :=
  (List.range bound).all fun px => (List.range bound).all fun py =>
    decide (r.covers px py) == (decide (a.covers px py) && decide (b.covers px py))

def check (v : List Nat) (impl : String) : Option String :=
  match v with
  | [ax, ay, aw, ah, bx, b_y, bw, bh, dx, dy] =>
    let a : Rect := ⟨ax, ay, aw, ah⟩
    let b : Rect := ⟨bx, b_y, bw, bh⟩
    match (kvOf impl "I").bind parseRectStr, (kvOf impl "J").bind parseRectStr,
          (kvOf impl "S").bind parseRectStr, kvOf impl "E" with
    | some i, some j, some s, some e =>
      let r1 :=
        if decide a.noOverflow && decide b.noOverflow then
          match i with
          | none => some s!"site=rect/intersect reason=panic got=panic want=rect"
          | some r =>
            if j ≠ some r then some s!"site=rect/intersect reason=not-commutative got={rectStr j} want={rectStr (some r)}"
            else if e ≠ b01 (r.w == 0 || r.h == 0) then some s!"site=rect/is_empty reason=is-empty got={e} want={b01 (r.w == 0 || r.h == 0)}"
            else
              let small := [ax, ay, aw, ah, bx, b_y, bw, bh, r.x, r.y, r.w, r.h].all (· ≤ 24)
              let okPix := if small then pixelOk a b r 50 else true
              -- exact pixel set by interval reasoning (any size); an empty result may sit anywhere
              let xs := sameInterval (max ax bx) (min (ax + aw) (bx + bw)) r.x r.w
              let ys := sameInterval (max ay b_y) (min (ay + ah) (b_y + bh)) r.y r.h
              let emptyBoth := (r.w == 0 || r.h == 0) &&
                (min (ax + aw) (bx + bw) ≤ max ax bx || min (ay + ah) (b_y + bh) ≤ max ay b_y)
              if okPix && ((xs && ys) || emptyBoth) then none
              else some s!"site=rect/intersect reason=pixel-set got={rectStr (some r)} want=common-pixels-of-{rectStr (some a)}-and-{rectStr (some b)}"
        else none
      match r1 with
      | some f => some f
      | none =>
        if dx ≤ ax ∧ dy ≤ ay then
          if s == some ⟨ax - dx, ay - dy, aw, ah⟩ then none
          else some s!"site=rect/sub_offset reason=translate got={rectStr s} want={ax - dx}.{ay - dy}.{aw}.{ah}"
        else none
    | _, _, _, _ => some s!"site=rect reason=unparsable got={(impl.take 60).toString} want=result"
  | _ => none

end C16
end EpdVerif.Oracle
