import EpdVerif.Oracle.Panel
import EpdVerif.SpecLut
/-!
# Dispatch: which oracle looks at which operation of a panel scenario

`panelVerdicts` walks the per-op traces of one scenario with a controller simulation and
returns `(property, failure)` pairs plus the number of oracle evaluations per property.
The same function is applied to the implementation's trace and to the model's trace.
-/
namespace EpdVerif.Oracle
open EpdVerif Spec

structure Acc where
  fails : List (String × String) := []      -- (property, failure text)
  evals : List (String × Nat) := []
  notes : List String := []                  -- `O` lines: digests for cross-scenario comparison
  deriving Inhabited

def Acc.add (a : Acc) (prop : String) (fs0 : List String) (ctx : String := "") : Acc :=
  let fs := if ctx == "" then fs0 else fs0.map (· ++ s!" ctx={ctx}")
  let n := match a.evals.find? (·.1 == prop) with | some (_, k) => k | none => 0
  { a with fails := a.fails ++ fs.map (fun f => (prop, f)),
           evals := (prop, n + 1) :: a.evals.filter (·.1 != prop) }

def fullOps : List String := ["upd", "updisp", "old", "newf", "base", "achro", "chro", "color", "updispnew"]
def partOps : List String := ["part", "pold", "pnew", "part2", "pachro", "pchro"]

def hashBytes (h : UInt64) (bs : Bytes) : UInt64 := bs.foldl (fun h b => mix h b.toUInt64) h
def hashArr (h : UInt64) (a : Array UInt8) : UInt64 := a.foldl (fun h b => mix h b.toUInt64) h

/-- digest of the controller state C04 compares after recovery: the planes the recovery's
    full-frame update wrote, the addressing registers, power and sleep state -/
def stateDigest (p : Panel) (c : Ctrl) (planes : List Nat) : String :=
  -- the panel's region of each plane (RAM beyond the panel's columns / rows is not image memory)
  let h := planes.foldl (fun h pl =>
    let wb := planeBytes p pl c / p.height
    (List.range p.height).foldl (fun h r =>
      (List.range wb).foldl (fun h col => mix h (planeAt c pl (rowMap p.name r) col).toUInt64) h) (mix h (UInt64.ofNat pl))) H0
  match c with
  | .ssd s =>
    s!"planes={planes} ram={hex16 h} win={s.xs},{s.xe},{s.ys},{s.ye} ctr={s.cx},{s.cy} entry={s.entry} asleep={s.asleep}"
  | .uc u =>
    s!"planes={planes} ram={hex16 h} partial={u.partialOn} powered={u.powered} asleep={u.asleep}"

/-- digest of one plane's panel region -/
def planeDigest (p : Panel) (c : Ctrl) (pl : Nat) : String :=
  let wb := planeBytes p pl c / p.height
  hex16 ((List.range p.height).foldl (fun h r =>
    (List.range wb).foldl (fun h col => mix h (planeAt c pl (rowMap p.name r) col).toUInt64) h) (mix H0 (UInt64.ofNat pl)))

/-! ## C05 monitor over the events of a whole scenario -/

structure Mon where
  busy : Nat := 0
  sched : List Nat := []
  refreshEp : Bool := false     -- the current busy episode was started by a refresh trigger
  uc2 : UInt8 := 0xFF
  last22 : Bool := false        -- the previous command byte was 0x22 (its data byte is uc2)
  rstLow : Bool := false
  fails : List String := []
  deriving Inhabited

def Mon.raise (m : Mon) (refresh : Bool) : Mon :=
  match m.sched with
  | [] => { m with busy := 0, refreshEp := refresh }
  | d :: ds => { m with busy := d, sched := ds, refreshEp := refresh }

def c05Scan (p : Panel) (sc : Scenario) (site : String) (evs : List Ev) (m : Mon) : Mon :=
  let delay := sc.delay.getD 10000
  let refreshC := refreshCmds p.name p.family
  let imageC := imageCmds p.name p.family
  let rec go : List Ev → Mon → Mon
    | [], m => m
    | .w false _ bs :: rest, m =>
      let m := bs.foldl (fun m c =>
        let pending := m.busy > 0 ∧ m.refreshEp
        let isRefresh := refreshC.contains c ∧ (p.family != .ssd ∨ m.uc2.toNat / 4 % 2 = 1)
        let m := if pending ∧ imageC.contains c then
            { m with fails := m.fails ++ [s!"site={site} reason=image-write-during-refresh got={hexByte c}@busy{m.busy} want=wait-first"] }
          else if pending ∧ isRefresh then
            { m with fails := m.fails ++ [s!"site={site} reason=retrigger-during-refresh got={hexByte c}@busy{m.busy} want=wait-first"] }
          else m
        let m := { m with last22 := p.family == .ssd ∧ c = 0x22 }
        if sc.raise.contains c then m.raise isRefresh else m) m
      go rest m
    | .w true _ bs :: rest, m =>
      let m := if m.last22 then { m with uc2 := bs.headD m.uc2, last22 := false } else m
      go rest m
    | .rst false :: rest, m => go rest { m with rstLow := true }
    | .rst true :: rest, m => go rest (if m.rstLow then { (m.raise false) with rstLow := false } else m)
    | .busy lvl :: rest, m =>
      let wasBusy := m.busy > 0
      let m := if wasBusy then { m with busy := m.busy - 1 } else m
      if lvl = sc.busyLvl then
        -- a poll that saw "busy": the wait must go on: [status cmd] [delay] poll
        let rest' := match rest with
          | .w false _ [_] :: r => r
          | r => r
        match rest' with
        | .delay .us n :: .busy _ :: _ =>
          let m := if delay = 0 then
              { m with fails := m.fails ++ [s!"site={site} reason=delay-arg got={n} want=no-delay"] }
            else if n ≠ delay then
              { m with fails := m.fails ++ [s!"site={site} reason=delay-arg got={n} want={delay}"] }
            else m
          go rest m
        | .busy _ :: _ =>
          let m := if delay > 0 then
              { m with fails := m.fails ++ [s!"site={site} reason=delay-arg got=no-delay want={delay}"] }
            else m
          go rest m
        | _ =>
          go rest { m with fails := m.fails ++ [s!"site={site} reason=polarity got=wait-returned-while-busy want=wait-until-idle"] }
      else
        -- a poll that saw "idle": the loop must exit (no delay + re-poll)
        match rest with
        | .delay .us _ :: .busy _ :: _ =>
          go rest { m with fails := m.fails ++ [s!"site={site} reason=polls-after-idle got=re-poll want=return"] }
        | _ => go rest m
    | _ :: rest, m => go rest m
  go evs m

/-! ## the walk -/

def lutModeAfter (a : List String) (cur : Refresh) : Refresh :=
  match a with
  | ["lut", "full"] => .full
  | ["lut", "quick"] => .quick
  | ["refresh", "full"] => .full
  | ["refresh", "quick"] => .quick
  | _ => cur

def cleanEnv (p : Panel) : Env := { single := p.single }

/-- register commands the driver's own construction programs after its reset pulse (waveform
    tables, image data and refresh triggers aside): what "initialised since the last hardware
    reset" means for a reset issued anywhere else (C09) -/
def initRegCmds (p : Panel) (d : DState) : List UInt8 :=
  ((blocksOf ((p.prog d .new).getD [])).filterMap fun b => match b with
    | .c c _ =>
      if (Spec.lutCmds p.family).contains c ∨ (Spec.imageCmds p.name p.family).contains c ∨
         (Spec.refreshCmds p.name p.family).contains c then none else some c
    | _ => none).eraseDups

def showCmds (cs : List UInt8) : String := "+".intercalate (cs.map fun c => hexByte c)

def panelVerdicts (f : Feat) (props : List String) (p : Panel) (sc : Scenario) (opsTok : List (List String))
    (ops : List Op) (traces : List OpTrace) (model : List OpTrace) : Acc := Id.run do
  let want (pr : String) : Bool := props.contains pr
  let mut acc : Acc := {}
  let mut sim : Sim := { c := p.ctrl }
  let mut mon : Mon := { sched := sc.sched }
  let mut lutMode : Refresh := .full
  let mut prevBg : Option Nat := none
  let mut faultSeen := false
  let mut wakeSeen := false
  let mut prevFull := false
  -- history class of the driver: fresh (no wake_up since construction), woken (last wake_up
  -- followed a sleep), rewoken (last wake_up without a preceding sleep)
  let mut ctx := "fresh"
  let mut slept := false
  let mut probePlanes : List Nat := []
  let mut k := 0
  let mut wHash := H0
  -- C09 (wave 13): a hardware reset issued by a call other than construction / wake_up that is not
  -- followed, in that call, by the register commands the driver's own construction programs
  let mut uninit : Option String := none
  for t in traces do
    let a := opsTok.getD k []
    let op := ops.getD k .wait
    let name := opName a
    let site := s!"{p.name}/{name}"
    let dBefore : DState := (model.getD k default).d
    let acts := p.prog dBefore op
    let before := sim.peek
    sim := sim.feedEvs t.evs
    sim := sim.opEnd (t.res == .ok)
    let after := sim.peek
    let ok := t.res == .ok
    -- C10
    if want "C10" then acc := acc.add "C10" (c10 p a t.evs acts t.res)
    -- C11
    if want "C11" then
      let hasRst := t.evs.any fun e => match e with | .rst false => true | _ => false
      if (name == "new" ∨ name == "wake") ∧ (ok ∨ hasRst) then acc := acc.add "C11" (c11 p a t.evs true)
      else if hasRst then acc := acc.add "C11" (c11 p a t.evs false)
    -- C18
    if want "C18" ∧ ok then
      acc := acc.add "C18" (c18 p a t.evs)
      let blocks := opBlocks t.evs
      let isCmd (c : UInt8) (b : Blk) : Bool := match b with | .c c' _ => c' == c | _ => false
      let progsWindow := blocks.any (isCmd 0x44) ∧ blocks.any (isCmd 0x45)
      -- a window programmed after the operation's last image data can only be a restoration of
      -- the full frame
      let tail := (blocks.reverse.takeWhile fun b => !(isCmd 0x24 b || isCmd 0x26 b)).reverse
      let restores := tail.length < blocks.length ∧ tail.any (isCmd 0x44) ∧ tail.any (isCmd 0x45)
      if (progsWindow ∧ ["new", "wake", "upd", "updisp", "clear", "base", "newf", "updispnew"].contains name) ∨ restores then
        acc := acc.add "C18" (c18Window p a after)
    if ok ∧ (name == "upd") then
      probePlanes := ((newEpis before after).map (·.plane)).eraseDups.mergeSort (· ≤ ·)
    -- (a call that did not return Ok ends the judged part of the scenario: no probe to compare)
    if !ok ∧ want "C02" then probePlanes := []
    -- C01 / C02: full-frame delivery
    if ok ∧ fullOps.contains name ∧ !(fullTargets p.name name).isEmpty then
      if want "C01" then
        acc := acc.add "C01" (c01Full p a before after) ctx
        if name == "updisp" ∨ name == "updispnew" then
          let n := (newRefreshes before after).length
          acc := acc.add "C01" (if n = 1 then [] else [s!"site={site} reason=refresh-count got={n} want=1"]) ctx
      -- the probe: the full-frame update right before the final display call
      if want "C02" ∧ k + 2 = traces.length then acc := acc.add "C02" (c01Full p a before after) ctx
      -- C08 (iv): a full-frame update after sleep + wake_up has the effect it has after construction
      if want "C08" ∧ wakeSeen then acc := acc.add "C08" ((c01Full p a before after).map (· ++ " after=wake_up"))
    -- "a display call THEN triggers exactly one refresh": the display call that follows an update
    if ok ∧ want "C01" ∧ prevFull ∧ (name == "disp" ∨ name == "dispnew") then acc := acc.add "C01" (c01Disp p a before after) ctx
    -- C06
    if ok ∧ want "C06" ∧ (!(partTargets p.name name).isEmpty ∨ name == "pclear") then acc := acc.add "C06" (c06 p a t.evs before after) ctx

    if want "C06" ∧ partOps.contains name ∧ t.res == .panic then
      acc := acc.add "C06" [s!"site={site} reason=panic got=panic want=window-programmed"]
    -- C07
    if want "C07" then
      if ok ∧ name == "clear" then
        match (fullTargets p.name "upd").head?, prevBg with
        | some prim, some bg => acc := acc.add "C07" (c07 p a bg before after prim) ctx
        | _, _ => pure ()
      if name == "bg" then
        let wantBg := (a.getD 1 "").toNat?
        acc := acc.add "C07" (if t.bg = wantBg then [] else [s!"site={site} reason=bg-accessor got={t.bg} want={wantBg}"]) ctx
    -- C08
    if want "C08" then
      if ok ∧ name == "sleep" then acc := acc.add "C08" (c08Sleep p a t.evs after)
      if ok ∧ name == "wake" then
        let refActs := (p.prog dBefore .new).getD []
        let refEvs := actsToEvs refActs
        acc := acc.add "C08" (c08Wake p a t.evs refEvs ++ (c11 p a t.evs true).map (· ++ " (wake_up must start with a reset pulse)"))
    -- C09
    if want "C09" then
      acc := acc.add "C09" (c09 p a before after)
      let blocks := opBlocks t.evs
      let cmdsOf (bs : List Blk) : List UInt8 := bs.filterMap fun b => match b with | .c c _ => some c | _ => none
      let hasRst := blocks.any fun b => match b with | .rst => true | _ => false
      -- the commands of this call that follow its last reset pulse (all of them if it has none)
      let tailCmds := cmdsOf (blocks.reverse.takeWhile fun b => match b with | .rst => false | _ => true).reverse
      if hasRst ∧ ok then
        let missing := (initRegCmds p dBefore).filter fun c => !tailCmds.contains c
        if name == "new" ∨ name == "wake" ∨ Spec.vendorReinit p.name name ∨ missing.isEmpty then uninit := none
        else uninit := some s!"{name}:missing={showCmds missing}"
      match uninit with
      | some why =>
        -- refresh EVENTS of the simulator (SSD16xx: master activation with the display bit set), and for
        -- a call that pulses reset itself only if a trigger follows the pulse
        let nEv := (newRefreshes before after).length
        let nCmd := (tailCmds.filter fun c => (Spec.refreshCmds p.name p.family).contains c).length
        let n := if hasRst then min nEv nCmd else nEv
        if n > 0 then
          acc := acc.add "C09" [s!"site={site} reason=refresh-after-reset-without-init got=reset-by-{why} want=initialised-since-reset"]
      | none => pure ()
    -- C17
    lutMode := lutModeAfter a lutMode
    if want "C17" ∧ ok then
      match lutRef f p.name lutMode with
      | none => pure ()
      | some ref =>
        let check := name == "lut" ∨ (name == "refresh") ∨ ((name == "wake" ∨ name == "new") ∧ initUploads p.name)
        if check then
          let res := lutResident p after
          let bad := ref.filter fun r => !res.contains r
          let mname := match lutMode with | .full => "full" | .quick => "quick"
          -- the property speaks of UPLOADS: the call itself must send the tables (a controller that
          -- happens to hold them from before a reset does not count)
          let sent : List (UInt8 × Bytes) := (opBlocks t.evs).filterMap fun b => match b with
            | .c c ps => if (lutCmds p.family).contains c then some (c, ps) else none
            | _ => none
          let lastSent (c : UInt8) : Option Bytes := ((sent.filter (·.1 == c)).getLast?).map (·.2)
          let notSent := ref.filter fun r => lastSent r.1 != some r.2
          acc := acc.add "C17" ((if bad.isEmpty then [] else
            [s!"site={site} reason=resident-tables-differ got={showRegs ((res.filter fun r => !ref.contains r).map fun (c, b) => (c, b.take 4))} want={mname}:{showRegs (bad.map fun (c, b) => (c, b.take 4))}"]) ++
            (if notSent.isEmpty ∨ !bad.isEmpty then [] else
            [s!"site={site} reason=not-uploaded-by-this-call got={showRegs (sent.map fun (c, b) => (c, b.take 4))} want={mname}:{showRegs (notSent.map fun (c, b) => (c, b.take 4))}"]))
    -- C05
    if want "C05" then
      mon := { mon with fails := [] }
      mon := c05Scan p sc site t.evs mon
      let extra := if t.res == .hang then [s!"site={site} reason=hang got=spins-on-idle-panel want=returns"] else
        if name == "wait" ∧ ok ∧ mon.busy > 0 then [s!"site={site} reason=polarity got=wait-returned-while-busy want=wait-until-idle"] else []
      acc := acc.add "C05" (mon.fails ++ extra).eraseDups
    -- C04
    if want "C04" then
      let hasF := t.evs.any fun e => match e with | .fail .. => true | _ => false
      if hasF then
        faultSeen := true
        let afterF := (t.evs.dropWhile fun e => match e with | .fail .. => false | _ => true).drop 1
        let traffic := afterF.any fun e => match e with | .w .. => true | .fail .. => true | _ => false
        acc := acc.add "C04" (
          (if t.res == .err then [] else [s!"site={site} reason=error-not-reported got={t.res.toString} want=err"]) ++
          (if traffic then [s!"site={site} reason=traffic-after-failure got=transfer want=none"] else []))
      else if faultSeen ∧ t.res != .ok then
        acc := acc.add "C04" [s!"site={site} reason=recovery-failed got={t.res.toString} want=ok"]
    -- C12 digest: every transfer of the scenario
    for e in t.evs do
      match e with
      | .w dc _ bs => wHash := hashBytes (mix wHash (if dc then 1 else 0)) bs
      | _ => pure ()
    if name == "wake" then wakeSeen := true
    if ok ∧ name == "sleep" then slept := true
    if name == "wake" then
      ctx := if slept then "woken" else "rewoken"
      slept := false
    prevFull := ok ∧ fullOps.contains name
    prevBg := t.bg
    k := k + 1
  if want "C04" then acc := { acc with notes := acc.notes ++ [s!"C04 {stateDigest p sim.peek probePlanes}"] }
  -- C02: what the last full-frame update left in every plane, and which planes it wrote — compared
  -- with the same update after the history's setting calls only (tools/scenarios.py post_c02)
  if want "C02" then acc := { acc with notes := acc.notes ++
    [s!"C02 w={",".intercalate (probePlanes.map toString)} p0={planeDigest p sim.peek 0} p1={planeDigest p sim.peek 1}"] }
  if want "C12" then acc := { acc with notes := acc.notes ++ [s!"C12 wire={hex16 wHash}"] }
  return acc

end EpdVerif.Oracle
