import EpdVerif.Spec
import EpdVerif.Scenario
import EpdVerif.Aliases
/-!
# Oracles for the driver properties, evaluated on a trace (the implementation's or the model's)

Every oracle returns a list of failures `site=<panel>/<op> reason=<class> got=… want=…`.
The controller simulators (`Ctrl`) reconstruct controller memory from the (D/C, byte) stream.
-/
namespace EpdVerif.Oracle
open EpdVerif Spec

/-- controller simulation along a trace: blocks are fed when they close; `peek` shows the
    state as if the open block ended here -/
structure Sim where
  g : GState := {}
  c : Ctrl
  deriving Inhabited

/-- feed the blocks that `g.out` accumulated (reversed) and clear it -/
def Sim.flush (s : Sim) : Sim :=
  { g := { s.g with out := [] }, c := s.g.out.reverse.foldl Ctrl.feed s.c }

def Sim.feedEvs (s : Sim) (evs : List Ev) : Sim :=
  Sim.flush { s with g := evs.foldl GState.step s.g }

def Sim.peek (s : Sim) : Ctrl :=
  (Sim.flush { s with g := s.g.close }).c

def Sim.opEnd (s : Sim) (ok : Bool) : Sim := { s with c := s.c.opEnd ok }

/-- blocks of one operation's events, seen in isolation -/
def opBlocks (evs : List Ev) : List Blk := blocksOfEvs evs

def opName : List String → String
  | n :: _ => n
  | [] => "?"

/-- buffer argument number `i` of an op token list -/
def opBuf (a : List String) (i : Nat) : Option Bytes :=
  ((a.drop 1).filter fun t => t.contains ':').getD i "" |> makeBuf

/-- window arguments x y w h of a partial op -/
def opWin (a : List String) : Option (Nat × Nat × Nat × Nat) :=
  match ((a.drop 1).filter fun t => !t.contains ':').mapM String.toNat? with
  | some [x, y, w, h] => some (x, y, w, h)
  | _ => none

def planeAt (c : Ctrl) (plane : Nat) (row col : Nat) : UInt8 :=
  (c.plane plane).getD (row * c.stride plane + col) 0

/-- does plane `t.plane` hold `img` row-major from the panel origin (rows of `wb` bytes)? -/
def planeHolds (panel : String) (c : Ctrl) (plane wb rows : Nat) (img : Bytes) : Option (Nat × Nat) :=
  let arr := img.toArray
  (List.range rows).findSome? fun r =>
    (List.range wb).findSome? fun col =>
      if planeAt c plane (rowMap panel r) col = arr.getD (r * wb + col) 0 then none else some (r, col)

def allEq (a : Array UInt8) : Bool :=
  match a[0]? with
  | none => true
  | some v => a.all (· == v)

/-- is the panel region (rows × wb) of a plane uniform? returns the value -/
def regionUniform (panel : String) (c : Ctrl) (plane wb rows : Nat) : Option UInt8 :=
  let v := planeAt c plane (rowMap panel 0) 0
  if (List.range rows).all fun r => (List.range wb).all fun col => planeAt c plane (rowMap panel r) col == v
  then some v else none

/-- row bytes of a plane holding an image encoded with `e` -/
def rowBytes (p : Panel) (e : Enc) : Nat :=
  if isOct p.name then (p.width * 4 + 7) / 8 else (p.width + 7) / 8 * e.mult

/-- episodes added between two controller states (newest first) -/
def newEpis (before after : Ctrl) : List Episode :=
  after.epis.take (after.epis.length - before.epis.length)

def newRefreshes (before after : Ctrl) : List Snap :=
  after.refreshes.take (after.refreshes.length - before.refreshes.length)

def planeBytes (p : Panel) (plane : Nat) (c : Ctrl) : Nat :=
  match c with
  | .ssd _ => (p.width + 7) / 8 * p.height
  | .uc u => if plane = 0 then u.stride1 * p.height else u.stride2 * p.height

/-! ## C10 — wire framing (per operation, against the program the model says it runs) -/

def c10 (p : Panel) (a : List String) (evs : List Ev) (acts : Option (List Act)) (res : OpRes) : List String :=
  let site := s!"{p.name}/{opName a}"
  let bad0 := evs.findSome? fun e =>
    match e with
    | .w false chunk bs => if chunk ≠ 1 ∧ bs.length ≠ 1 then some s!"site={site} reason=command-transfer-not-single-byte got=len{chunk} want=1" else none
    | .w true chunk bs => if min chunk bs.length > 4096 then some s!"site={site} reason=transfer-too-long got={min chunk bs.length} want<=4096" else none
    | _ => none
  let r0 := bad0.toList
  let r1 := match acts, res with
    | some acts, .ok =>
      -- the status command of `wait_until_idle_with_cmd` is sent once per poll: it is part of the
      -- wire protocol but not of the program's payload, so it is left out on both sides
      let status := acts.filterMap fun a => match a with | .waitCmd _ c => some c | _ => none
      let want := (logical acts).filter fun x => !(x.1 == false && status.contains x.2)
      let got := (byteStream evs).filter fun x => !(x.1 == false && status.contains x.2)
      if got = want then []
      else
        let rec firstDiff : List (Bool × UInt8) → List (Bool × UInt8) → Nat → Nat
          | x :: xs, y :: ys, i => if x = y then firstDiff xs ys (i + 1) else i
          | _, _, i => i
        let i := firstDiff got want 0
        let show1 (x : Option (Bool × UInt8)) := match x with
          | some (dc, b) => s!"{if dc then "D" else "C"}{hexByte b}" | none => "end"
        [s!"site={site} reason=logical-stream got={show1 (got[i]?)}@{i}/len{got.length} want={show1 (want[i]?)}/len{want.length}"]
    | _, _ => []
  r0 ++ r1

/-! ## C11 — reset pulse -/

/-- phases of the reset-pulse automaton -/
inductive Ph | idle | low | lowWaited | highAgain
  deriving DecidableEq, Repr, Inhabited

structure RState where
  ph : Ph := .idle
  high : Bool := false      -- RST has been driven high (before the pulse)
  spi : Bool := false       -- an SPI transfer has been seen
  pulses : Nat := 0
  errs : List String := []
  deriving Repr, Inhabited

def isSpi : Ev → Bool
  | .w .. => true
  | .fail .. => true
  | _ => false

/-- one event of the automaton: RST high, [delay], RST low, delay > 0, RST high, delay > 0; no SPI
    transfer from RST low until the settle delay is over; with `first`, none before the pulse -/
def c11Step (first : Bool) (s : RState) (e : Ev) : RState :=
  match s.ph, e with
  | .idle, .rst true => { s with high := true }
  | .idle, .rst false =>
    { s with ph := .low,
             errs := s.errs ++ (if !s.high then ["reset-not-driven-high-first"] else []) ++
                     (if first && s.spi && s.pulses == 0 then ["spi-before-reset"] else []) }
  | .idle, ev => if isSpi ev then { s with spi := true } else s
  | .low, .delay _ d => { s with ph := .lowWaited, errs := s.errs ++ (if d = 0 then ["zero-low-time"] else []) }
  | .low, .rst true => { s with ph := .highAgain, errs := s.errs ++ ["low-time-not-waited"] }
  | .low, ev => { s with errs := s.errs ++ [if isSpi ev then "spi-while-reset-low" else "malformed-pulse"] }
  | .lowWaited, .rst true => { s with ph := .highAgain }
  | .lowWaited, ev => { s with errs := s.errs ++ [if isSpi ev then "spi-while-reset-low" else "malformed-pulse"] }
  | .highAgain, .delay _ d =>
    { s with ph := .idle, high := true, pulses := s.pulses + 1,
             errs := s.errs ++ (if d = 0 then ["zero-settle-time"] else []) }
  | .highAgain, ev =>
    { s with ph := .idle, high := true, pulses := s.pulses + 1, spi := s.spi || isSpi ev,
             errs := s.errs ++ [if isSpi ev then "spi-before-settle-time" else "settle-time-not-waited"] }

def c11Run (first : Bool) (evs : List Ev) : RState := evs.foldl (c11Step first) {}

/-- reasons why an operation's events do not contain only well-formed reset pulses -/
def c11Core (first : Bool) (evs : List Ev) : List String :=
  let s := c11Run first evs
  s.errs ++ (if s.ph ≠ .idle then ["reset-left-low-or-incomplete"] else []) ++
    (if s.pulses = 0 then ["no-reset-pulse"] else [])

def c11 (p : Panel) (a : List String) (evs : List Ev) (mustBeFirst : Bool) : List String :=
  let site := s!"{p.name}/{opName a}"
  (c11Core mustBeFirst evs).map fun r => s!"site={site} reason={r} got=malformed want=high,low,wait>0,high,wait>0,then-spi"

/-! ## C18 — protocol conformance -/

def ssdXPix : Ctrl → Bool
  | .ssd s => s.xPix
  | _ => false

def c18 (p : Panel) (a : List String) (evs : List Ev) : List String :=
  let site := s!"{p.name}/{opName a}"
  let blocks := opBlocks evs
  let xp := ssdXPix p.ctrl
  blocks.flatMap fun b =>
    match b with
    | .c cmd ps =>
      let r0 := if (definedCmds p.name p.family).contains cmd then [] else
        [s!"site={site} reason=undefined-command got={hexByte cmd} want=defined"]
      let r1 := match blockLen p.name p.family xp cmd with
        | some n => if ps.length = n then [] else
            [s!"site={site} reason=incomplete-block got={hexByte cmd}[{ps.length}] want={hexByte cmd}[{n}]"]
        | none => []
      -- geometry: resolution / full-frame window registers
      let r2 :=
        match p.family with
        | .ssd =>
          if cmd = 0x01 then
            match ps with
            | [lo, hi, _] =>
              -- driver output control: MUX gate lines = rows - 1 (SSD16xx register map: A[8:0] = MUX - 1)
              let v := lo.toNat + 256 * (hi.toNat % 4)
              if v = p.height - 1 ∨ p.name == "epd7in5_hd" then [] else
                [s!"site={site} reason=geometry got=gates{v} want={p.height - 1}"]
            | _ => []
          else []
        | _ =>
          if cmd = 0x61 then
            let ok : Bool := match ps with
              | [a, b, c, d] => a.toNat * 256 + b.toNat == p.width && c.toNat * 256 + d.toNat == p.height
              | [a, b, c] => a.toNat == p.width / 8 * 8 && b.toNat * 256 + c.toNat == p.height
              | [a, b] => (a.toNat == p.width && b.toNat == p.height) || (a.toNat == p.height && b.toNat == p.width)
              | _ => false
            if ok then [] else [s!"site={site} reason=geometry got=res{hexOf ps} want={p.width}x{p.height}"]
          else []
      r0 ++ r1 ++ r2
    | .stray bs => [s!"site={site} reason=stray-data got={bs.length}bytes want=command-first"]
    | .rst => []

/-- full-frame window check for SSD panels: whenever an op programs BOTH 0x44 and 0x45 and is a
    full-frame op (`new`, `wake`, `upd`, `clear`, …) the window must describe W x H -/
def c18Window (p : Panel) (a : List String) (c : Ctrl) : List String :=
  let site := s!"{p.name}/{opName a}"
  match c with
  | .ssd s =>
    let wb := (p.width + 7) / 8
    let cols := (if s.xe ≥ s.xs then s.xe - s.xs else s.xs - s.xe) + 1
    let rows := (if s.ye ≥ s.ys then s.ye - s.ys else s.ys - s.ye) + 1
    if cols = wb ∧ rows = p.height then []
    else [s!"site={site} reason=window-geometry got={cols * 8}x{rows} want={wb * 8}x{p.height}"]
  | _ => []

/-! ## C01 — full-frame delivery -/

def c01Full (p : Panel) (a : List String) (before after : Ctrl) : List String :=
  let site := s!"{p.name}/{opName a}"
  let targets := fullTargets p.name (opName a)
  let eps := newEpis before after
  let r0 := targets.flatMap fun t =>
    match opBuf a t.arg with
    | none => []
    | some buf =>
      let img := t.enc.apply buf
      let wb := rowBytes p t.enc
      let pe := eps.filter (·.plane == t.plane)
      let once := match pe with
        | [e] => if e.count = img.length ∧ e.stored = img.length then [] else
            [s!"site={site} reason=not-exactly-once got=plane{t.plane}:{e.count}/{e.stored} want={img.length}"]
        | _ => [s!"site={site} reason=not-exactly-once got=plane{t.plane}:{pe.length}episodes want=1"]
      let content := if img.length ≠ wb * p.height then [] else
        match planeHolds p.name after t.plane wb p.height img with
        | none => []
        | some (r, col) => [s!"site={site} reason=image-mismatch got=plane{t.plane}@row{r}col{col}={hexByte (planeAt after t.plane (rowMap p.name r) col)} want={hexByte (img.toArray.getD (r * wb + col) 0)}"]
      once ++ content
  -- every other plane written: complete uniform fill, or a complete copy of the image
  let others := (eps.map (·.plane)).eraseDups.filter fun pl => !(targets.any (·.plane == pl))
  let r1 := others.flatMap fun pl =>
    let wb := (planeBytes p pl after) / p.height
    match regionUniform p.name after pl wb p.height with
    | some _ =>
      let tot := (eps.filter (·.plane == pl)).foldl (fun acc e => acc + e.stored) 0
      if tot = planeBytes p pl after ∨ (eps.filter (·.plane == pl)).any (·.fill) then [] else
        [s!"site={site} reason=other-plane-partial got=plane{pl}:{tot} want={planeBytes p pl after}"]
    | none =>
      let isCopy := targets.any fun t =>
        match opBuf a t.arg with
        | some buf => (planeHolds p.name after pl (rowBytes p t.enc) p.height (t.enc.apply buf)).isNone
        | none => false
      if isCopy then [] else [s!"site={site} reason=other-plane-mixed got=plane{pl} want=uniform-or-copy"]
  r0 ++ r1

/-- `display_frame`: exactly one refresh, no image data -/
def c01Disp (p : Panel) (a : List String) (before after : Ctrl) : List String :=
  let site := s!"{p.name}/{opName a}"
  let n := (newRefreshes before after).length
  (if n = 1 then [] else [s!"site={site} reason=refresh-count got={n} want=1"]) ++
  (if (newEpis before after).isEmpty then [] else [s!"site={site} reason=display-sends-image-data got={(newEpis before after).length}episodes want=0"])

/-! ## C06 — partial updates -/

/-- the window registers of the controller in pixels (x0, y0, x1, y1), inclusive -/
def windowRegs : Ctrl → Nat × Nat × Nat × Nat
  | .ssd s => (s.xs * 8, s.ys, s.xe * 8 + 7, s.ye)
  | .uc u => (u.hs / 8 * 8, u.vs, u.he / 8 * 8 + 7, u.ve)

def c06 (p : Panel) (a : List String) (evs : List Ev) (before after : Ctrl) : List String :=
  let site := s!"{p.name}/{opName a}"
  match opWin a with
  | none => []
  | some (x, y, w, h) =>
    let eps := newEpis before after
    -- `clear_partial_frame` has no buffer: every plane it writes is judged on window and outside
    let targets := if opName a == "pclear" then (eps.map (·.plane)).eraseDups.map (fun pl => (⟨pl, .id, 99⟩ : Target))
      else partTargets p.name (opName a)
    let winTag := s!" win={x},{y},{w},{h}"
    let wbw := w / 8
    -- (i) window registers as they were when the window's data arrived
    let r0 := targets.flatMap fun t =>
      match (eps.filter (·.plane == t.plane)).head? with
      | none => []
      | some e =>
        let (x0, y0, x1, y1) := e.win
        if (x0, y0, x1, y1) = (x, y, x + w - 1, y + h - 1) then [] else
          [s!"site={site} reason=window-regs got=({x0},{y0},{x1},{y1}) want=({x},{y},{x + w - 1},{y + h - 1}){winTag}"]
    -- (iv) window parameters sent as parameters of the window command, no stray data
    let blocks := opBlocks evs
    let r4 := (blocks.filterMap fun b => match b with
      | .stray bs => some s!"site={site} reason=stray-window-bytes got={bs.length}bytes-before-any-command want=0{winTag}"
      | _ => none)
    -- a windowed fill without a buffer: everything outside the window unchanged
    let r5 := if opName a ≠ "pclear" then [] else targets.flatMap fun t =>
      let wb := (p.width + 7) / 8
      let out := (List.range p.height).findSome? fun r => (List.range wb).findSome? fun col =>
        if (y ≤ r ∧ r < y + h ∧ x / 8 ≤ col ∧ col < x / 8 + wbw) then none
        else if planeAt after t.plane (rowMap p.name r) col = planeAt before t.plane (rowMap p.name r) col then none
        else some (r, col)
      match out with
      | none => []
      | some (r, col) => [s!"site={site} reason=outside-changed got=plane{t.plane}@({col},{r}) want=unchanged{winTag}"]
    let r1 := targets.flatMap fun t =>
      match opBuf a t.arg with
      | none => []
      | some buf =>
        let img := (t.enc.apply buf).toArray
        let pe := eps.filter (·.plane == t.plane)
        let once := match pe with
          | [e] => if e.count = img.size ∧ e.stored = img.size then [] else
              [s!"site={site} reason=stray-window-bytes got=plane{t.plane}:{e.count}received/{e.stored}stored want={img.size}{winTag}"]
          | _ => [s!"site={site} reason=window-not-filled-once got=plane{t.plane}:{pe.length}episodes want=1{winTag}"]
        -- (ii) content of the window
        let bad := (List.range h).findSome? fun r => (List.range wbw).findSome? fun col =>
          if planeAt after t.plane (rowMap p.name (y + r)) (x / 8 + col) = img.getD (r * wbw + col) 0 then none
          else some (r, col)
        let content := match bad with
          | none => []
          | some (r, col) => [s!"site={site} reason=window-content got=plane{t.plane}@({x / 8 + col},{y + r})={hexByte (planeAt after t.plane (rowMap p.name (y + r)) (x / 8 + col))} want={hexByte (img.getD (r * wbw + col) 0)}{winTag}"]
        -- (iii) outside the window unchanged
        let wb := (p.width + 7) / 8
        let out := (List.range p.height).findSome? fun r => (List.range wb).findSome? fun col =>
          if (y ≤ r ∧ r < y + h ∧ x / 8 ≤ col ∧ col < x / 8 + wbw) then none
          else if planeAt after t.plane (rowMap p.name r) col = planeAt before t.plane (rowMap p.name r) col then none
          else some (r, col)
        let outside := match out with
          | none => []
          | some (r, col) => [s!"site={site} reason=outside-changed got=plane{t.plane}@({col},{r}) want=unchanged{winTag}"]
        once ++ content ++ outside
    -- (v) every data block of the call — also on a plane that merely receives a copy — starts at
    -- the origin of the window that is programmed when it arrives (SSD16xx address counter)
    let r6 := (eps.filter fun e => !e.fill ∧ !e.startAtOrigin).map fun e =>
      s!"site={site} reason=counter-not-at-window-origin got=plane{e.plane} want=origin{winTag}"
    r0 ++ r4 ++ r1 ++ r5 ++ r6.eraseDups

/-! ## C07 — clear_frame -/

def c07 (p : Panel) (a : List String) (bg : Nat) (before after : Ctrl) (primary : Target) : List String :=
  let site := s!"{p.name}/{opName a}"
  let eps := newEpis before after
  let planes := (eps.map (·.plane)).eraseDups
  let r0 := planes.flatMap fun pl =>
    let size := planeBytes p pl after
    let tot := (eps.filter (·.plane == pl)).foldl (fun acc e => acc + e.count) 0
    let wb := size / p.height
    (if tot = size ∨ (eps.filter (·.plane == pl)).any (·.fill) then [] else
      [s!"site={site} reason=plane-not-filled-exactly-once got=plane{pl}:{tot} want={size}"]) ++
    (if (regionUniform p.name after pl wb p.height).isSome then [] else
      [s!"site={site} reason=not-uniform got=plane{pl} want=single-value"])
  -- every image plane the driver's own full-frame entry points can write must be filled
  let required := (["upd", "old", "newf", "base", "achro", "chro", "color"].flatMap fun o => (fullTargets p.name o).map (·.plane)).eraseDups
  let r2 := (required.filter fun pl => !planes.contains pl).map fun pl =>
    s!"site={site} reason=plane-not-filled got=plane{pl}:0 want={planeBytes p pl after}"
  let want := (primary.enc.apply [uniformByte p.name bg, uniformByte p.name bg]).headD 0
  let wbp := rowBytes p primary.enc
  let r1 := if !planes.contains primary.plane then
      [s!"site={site} reason=primary-plane-not-addressed got=planes{planes} want=plane{primary.plane}"]
    -- tri-colour panels: what a chromatic background leaves in the black/white plane is what the
    -- panel's own Display alias holds there for a uniformly chromatic frame (BWRBIT convention,
    -- `TriColor.bitmask`): 0x00 with BWRBIT, 0xFF without; a panel without a tri-colour alias is
    -- judged on uniformity / completeness only
    else if p.colors = 3 ∧ bg = 2 then
      match aliases.find? (fun al => al.panel == p.name ∧ al.kind == "TriColor") with
      | none => []
      | some al =>
        let wantC : UInt8 := (primary.enc.apply [if al.bwr then 0x00 else 0xFF, if al.bwr then 0x00 else 0xFF]).headD 0
        match regionUniform p.name after primary.plane wbp p.height with
        | some v => if v = wantC then [] else
            [s!"site={site} reason=primary-differs-from-uniform-frame got={hexByte v} want={hexByte wantC} bg={bg}"]
        | none => []
    else match regionUniform p.name after primary.plane wbp p.height with
      | some v => if v = want then [] else
          [s!"site={site} reason=primary-differs-from-uniform-frame got={hexByte v} want={hexByte want} bg={bg}"]
      | none => []
  r0 ++ r1 ++ r2

/-! ## C08 / C09 / C17 helpers -/

/-- last (command, params) of an op -/
def lastBlock (evs : List Ev) : Option (UInt8 × Bytes) :=
  (opBlocks evs).reverse.findSome? fun b => match b with | .c c ps => some (c, ps) | _ => none

def c08Sleep (p : Panel) (a : List String) (evs : List Ev) (after : Ctrl) : List String :=
  let site := s!"{p.name}/{opName a}"
  match lastBlock evs with
  | none => [s!"site={site} reason=no-deep-sleep-command got=nothing want=deep-sleep"]
  | some (c, ps) =>
    if deepSleepOk p.name p.family c ps then
      (if after.asleep then [] else [s!"site={site} reason=controller-not-asleep got=awake want=asleep"])
    else [s!"site={site} reason=last-transfer-not-deep-sleep got={hexByte c}[{hexOf ps}] want=deep-sleep-command"]

/-- register writes of an op: last params per command, LUT and image commands excluded -/
def regWrites (p : Panel) (evs : List Ev) : List (UInt8 × Bytes) :=
  -- 0x71 (UC status read, sent by `wait_until_idle_with_cmd` once per poll) programs nothing
  let skip := lutCmds p.family ++ imageCmds p.name p.family ++ (if p.family == .ssd then [] else [0x71])
  let bs := (opBlocks evs).filterMap fun b => match b with
    | .c c ps => if skip.contains c then none else some (c, ps)
    | _ => none
  -- last write per command, sorted by command
  let cmds := (bs.map (·.1)).eraseDups
  (cmds.map fun c => (c, ((bs.filter (·.1 == c)).getLast?.map (·.2)).getD [])).mergeSort (fun x y => x.1 ≤ y.1)

def showRegs (l : List (UInt8 × Bytes)) : String :=
  ",".intercalate (l.map fun (c, ps) => s!"{hexByte c}[{hexOf ps}]")

/-- `wake_up` re-establishes the register configuration `new` programs for the current settings -/
def c08Wake (p : Panel) (a : List String) (evs : List Ev) (refNew : List Ev) : List String :=
  let site := s!"{p.name}/{opName a}"
  let got := regWrites p evs
  let want := regWrites p refNew
  if got = want then [] else
    let diff := (want.filter fun w => !got.contains w) ++ (got.filter fun g => !want.contains g)
    [s!"site={site} reason=registers-differ-from-construction got={showRegs (got.filter fun g => !want.contains g)} want={showRegs (want.filter fun w => !got.contains w)} n={diff.length}"]

def hasPowerOn : Family → Bool
  | .ssd => false
  | _ => true

def c09 (p : Panel) (a : List String) (before after : Ctrl) : List String :=
  let site := s!"{p.name}/{opName a}"
  (newRefreshes before after).flatMap fun s =>
    (if s.asleep then [s!"site={site} reason=refresh-into-sleeping-controller got=asleep want=awake"] else []) ++
    (if !s.asleep ∧ !s.initialised then [s!"site={site} reason=refresh-uninitialised got=not-initialised-since-reset want=initialised"] else []) ++
    (if !s.asleep ∧ hasPowerOn p.family ∧ !s.powered then [s!"site={site} reason=refresh-unpowered got=power-off want=power-on"] else [])

/-- resident waveform tables: last params of every LUT command -/
def lutResident (p : Panel) (c : Ctrl) : List (UInt8 × Bytes) :=
  let cmds := lutCmds p.family
  (cmds.filterMap fun cmd => (c.regs.find? (·.1 == cmd)).map fun r => (cmd, r.2))

end EpdVerif.Oracle
