import EpdVerif.Gen.Epd1in02
import EpdVerif.Gen.Epd1in54
import EpdVerif.Gen.Epd1in54_v2
import EpdVerif.Gen.Epd1in54b
import EpdVerif.Gen.Epd1in54c
import EpdVerif.Gen.Epd2in13_v2
import EpdVerif.Gen.Epd2in13b_v4
import EpdVerif.Gen.Epd2in13bc
import EpdVerif.Gen.Epd2in66b
import EpdVerif.Gen.Epd2in7
import EpdVerif.Gen.Epd2in7_v2
import EpdVerif.Gen.Epd2in7b
import EpdVerif.Gen.Epd2in9
import EpdVerif.Gen.Epd2in9_v2
import EpdVerif.Gen.Epd2in9b_v4
import EpdVerif.Gen.Epd2in9bc
import EpdVerif.Gen.Epd2in9d
import EpdVerif.Gen.Epd3in7
import EpdVerif.Gen.Epd4in2
import EpdVerif.Gen.Epd5in65f
import EpdVerif.Gen.Epd5in83_v2
import EpdVerif.Gen.Epd5in83b_v2
import EpdVerif.Gen.Epd7in3f
import EpdVerif.Gen.Epd7in5
import EpdVerif.Gen.Epd7in5_hd
import EpdVerif.Gen.Epd7in5_v2
import EpdVerif.Gen.Epd7in5b_v2
import EpdVerif.Graphics
/-!
# The 27 shipped `Display*` buffer types

Every field is a GENERATED constant (`tools/gen_consts.py` parses the `pub type Display… =`
declaration and evaluates its const expressions), so the theorems of C13 are re-checked against
the alias declarations of the current source on every run.  `epd1in54_v2` re-exports
`epd1in54::Display1in54`.
-/
namespace EpdVerif

structure Alias where
  panel : String
  w : Nat
  h : Nat
  bwr : Bool
  bytecount : Nat
  kind : String
  kindCode : Nat
  drvW : Nat
  drvH : Nat
  deriving Repr, Inhabited, DecidableEq

def kindOfName (s : String) : ColorKind :=
  if s == "TriColor" then kindTri else if s == "OctColor" then kindOct else kindBw

def kindTag (s : String) : String :=
  if s == "TriColor" then "tri" else if s == "OctColor" then "oct" else "bw"

def kindOfCode (c : Nat) : ColorKind := if c = 1 then kindTri else if c = 2 then kindOct else kindBw

def Alias.ck (a : Alias) : ColorKind := kindOfCode a.kindCode

def aliases : List Alias := [
  { panel := "epd1in02", w := Gen.Epd1in02.ALIAS_W, h := Gen.Epd1in02.ALIAS_H, bwr := Gen.Epd1in02.ALIAS_BWR,
    bytecount := Gen.Epd1in02.ALIAS_BYTECOUNT, kind := Gen.Epd1in02.ALIAS_KIND, kindCode := Gen.Epd1in02.ALIAS_KIND_CODE, drvW := Gen.Epd1in02.WIDTH, drvH := Gen.Epd1in02.HEIGHT },
  { panel := "epd1in54", w := Gen.Epd1in54.ALIAS_W, h := Gen.Epd1in54.ALIAS_H, bwr := Gen.Epd1in54.ALIAS_BWR,
    bytecount := Gen.Epd1in54.ALIAS_BYTECOUNT, kind := Gen.Epd1in54.ALIAS_KIND, kindCode := Gen.Epd1in54.ALIAS_KIND_CODE, drvW := Gen.Epd1in54.WIDTH, drvH := Gen.Epd1in54.HEIGHT },
  { panel := "epd1in54_v2", w := Gen.Epd1in54.ALIAS_W, h := Gen.Epd1in54.ALIAS_H, bwr := Gen.Epd1in54.ALIAS_BWR,
    bytecount := Gen.Epd1in54.ALIAS_BYTECOUNT, kind := Gen.Epd1in54.ALIAS_KIND, kindCode := Gen.Epd1in54.ALIAS_KIND_CODE, drvW := Gen.Epd1in54_v2.WIDTH, drvH := Gen.Epd1in54_v2.HEIGHT },
  { panel := "epd1in54b", w := Gen.Epd1in54b.ALIAS_W, h := Gen.Epd1in54b.ALIAS_H, bwr := Gen.Epd1in54b.ALIAS_BWR,
    bytecount := Gen.Epd1in54b.ALIAS_BYTECOUNT, kind := Gen.Epd1in54b.ALIAS_KIND, kindCode := Gen.Epd1in54b.ALIAS_KIND_CODE, drvW := Gen.Epd1in54b.WIDTH, drvH := Gen.Epd1in54b.HEIGHT },
  { panel := "epd1in54c", w := Gen.Epd1in54c.ALIAS_W, h := Gen.Epd1in54c.ALIAS_H, bwr := Gen.Epd1in54c.ALIAS_BWR,
    bytecount := Gen.Epd1in54c.ALIAS_BYTECOUNT, kind := Gen.Epd1in54c.ALIAS_KIND, kindCode := Gen.Epd1in54c.ALIAS_KIND_CODE, drvW := Gen.Epd1in54c.WIDTH, drvH := Gen.Epd1in54c.HEIGHT },
  { panel := "epd2in13_v2", w := Gen.Epd2in13_v2.ALIAS_W, h := Gen.Epd2in13_v2.ALIAS_H, bwr := Gen.Epd2in13_v2.ALIAS_BWR,
    bytecount := Gen.Epd2in13_v2.ALIAS_BYTECOUNT, kind := Gen.Epd2in13_v2.ALIAS_KIND, kindCode := Gen.Epd2in13_v2.ALIAS_KIND_CODE, drvW := Gen.Epd2in13_v2.WIDTH, drvH := Gen.Epd2in13_v2.HEIGHT },
  { panel := "epd2in13b_v4", w := Gen.Epd2in13b_v4.ALIAS_W, h := Gen.Epd2in13b_v4.ALIAS_H, bwr := Gen.Epd2in13b_v4.ALIAS_BWR,
    bytecount := Gen.Epd2in13b_v4.ALIAS_BYTECOUNT, kind := Gen.Epd2in13b_v4.ALIAS_KIND, kindCode := Gen.Epd2in13b_v4.ALIAS_KIND_CODE, drvW := Gen.Epd2in13b_v4.WIDTH, drvH := Gen.Epd2in13b_v4.HEIGHT },
  { panel := "epd2in13bc", w := Gen.Epd2in13bc.ALIAS_W, h := Gen.Epd2in13bc.ALIAS_H, bwr := Gen.Epd2in13bc.ALIAS_BWR,
    bytecount := Gen.Epd2in13bc.ALIAS_BYTECOUNT, kind := Gen.Epd2in13bc.ALIAS_KIND, kindCode := Gen.Epd2in13bc.ALIAS_KIND_CODE, drvW := Gen.Epd2in13bc.WIDTH, drvH := Gen.Epd2in13bc.HEIGHT },
  { panel := "epd2in66b", w := Gen.Epd2in66b.ALIAS_W, h := Gen.Epd2in66b.ALIAS_H, bwr := Gen.Epd2in66b.ALIAS_BWR,
    bytecount := Gen.Epd2in66b.ALIAS_BYTECOUNT, kind := Gen.Epd2in66b.ALIAS_KIND, kindCode := Gen.Epd2in66b.ALIAS_KIND_CODE, drvW := Gen.Epd2in66b.WIDTH, drvH := Gen.Epd2in66b.HEIGHT },
  { panel := "epd2in7", w := Gen.Epd2in7.ALIAS_W, h := Gen.Epd2in7.ALIAS_H, bwr := Gen.Epd2in7.ALIAS_BWR,
    bytecount := Gen.Epd2in7.ALIAS_BYTECOUNT, kind := Gen.Epd2in7.ALIAS_KIND, kindCode := Gen.Epd2in7.ALIAS_KIND_CODE, drvW := Gen.Epd2in7.WIDTH, drvH := Gen.Epd2in7.HEIGHT },
  { panel := "epd2in7_v2", w := Gen.Epd2in7_v2.ALIAS_W, h := Gen.Epd2in7_v2.ALIAS_H, bwr := Gen.Epd2in7_v2.ALIAS_BWR,
    bytecount := Gen.Epd2in7_v2.ALIAS_BYTECOUNT, kind := Gen.Epd2in7_v2.ALIAS_KIND, kindCode := Gen.Epd2in7_v2.ALIAS_KIND_CODE, drvW := Gen.Epd2in7_v2.WIDTH, drvH := Gen.Epd2in7_v2.HEIGHT },
  { panel := "epd2in7b", w := Gen.Epd2in7b.ALIAS_W, h := Gen.Epd2in7b.ALIAS_H, bwr := Gen.Epd2in7b.ALIAS_BWR,
    bytecount := Gen.Epd2in7b.ALIAS_BYTECOUNT, kind := Gen.Epd2in7b.ALIAS_KIND, kindCode := Gen.Epd2in7b.ALIAS_KIND_CODE, drvW := Gen.Epd2in7b.WIDTH, drvH := Gen.Epd2in7b.HEIGHT },
  { panel := "epd2in9", w := Gen.Epd2in9.ALIAS_W, h := Gen.Epd2in9.ALIAS_H, bwr := Gen.Epd2in9.ALIAS_BWR,
    bytecount := Gen.Epd2in9.ALIAS_BYTECOUNT, kind := Gen.Epd2in9.ALIAS_KIND, kindCode := Gen.Epd2in9.ALIAS_KIND_CODE, drvW := Gen.Epd2in9.WIDTH, drvH := Gen.Epd2in9.HEIGHT },
  { panel := "epd2in9_v2", w := Gen.Epd2in9_v2.ALIAS_W, h := Gen.Epd2in9_v2.ALIAS_H, bwr := Gen.Epd2in9_v2.ALIAS_BWR,
    bytecount := Gen.Epd2in9_v2.ALIAS_BYTECOUNT, kind := Gen.Epd2in9_v2.ALIAS_KIND, kindCode := Gen.Epd2in9_v2.ALIAS_KIND_CODE, drvW := Gen.Epd2in9_v2.WIDTH, drvH := Gen.Epd2in9_v2.HEIGHT },
  { panel := "epd2in9b_v4", w := Gen.Epd2in9b_v4.ALIAS_W, h := Gen.Epd2in9b_v4.ALIAS_H, bwr := Gen.Epd2in9b_v4.ALIAS_BWR,
    bytecount := Gen.Epd2in9b_v4.ALIAS_BYTECOUNT, kind := Gen.Epd2in9b_v4.ALIAS_KIND, kindCode := Gen.Epd2in9b_v4.ALIAS_KIND_CODE, drvW := Gen.Epd2in9b_v4.WIDTH, drvH := Gen.Epd2in9b_v4.HEIGHT },
  { panel := "epd2in9bc", w := Gen.Epd2in9bc.ALIAS_W, h := Gen.Epd2in9bc.ALIAS_H, bwr := Gen.Epd2in9bc.ALIAS_BWR,
    bytecount := Gen.Epd2in9bc.ALIAS_BYTECOUNT, kind := Gen.Epd2in9bc.ALIAS_KIND, kindCode := Gen.Epd2in9bc.ALIAS_KIND_CODE, drvW := Gen.Epd2in9bc.WIDTH, drvH := Gen.Epd2in9bc.HEIGHT },
  { panel := "epd2in9d", w := Gen.Epd2in9d.ALIAS_W, h := Gen.Epd2in9d.ALIAS_H, bwr := Gen.Epd2in9d.ALIAS_BWR,
    bytecount := Gen.Epd2in9d.ALIAS_BYTECOUNT, kind := Gen.Epd2in9d.ALIAS_KIND, kindCode := Gen.Epd2in9d.ALIAS_KIND_CODE, drvW := Gen.Epd2in9d.WIDTH, drvH := Gen.Epd2in9d.HEIGHT },
  { panel := "epd3in7", w := Gen.Epd3in7.ALIAS_W, h := Gen.Epd3in7.ALIAS_H, bwr := Gen.Epd3in7.ALIAS_BWR,
    bytecount := Gen.Epd3in7.ALIAS_BYTECOUNT, kind := Gen.Epd3in7.ALIAS_KIND, kindCode := Gen.Epd3in7.ALIAS_KIND_CODE, drvW := Gen.Epd3in7.WIDTH, drvH := Gen.Epd3in7.HEIGHT },
  { panel := "epd4in2", w := Gen.Epd4in2.ALIAS_W, h := Gen.Epd4in2.ALIAS_H, bwr := Gen.Epd4in2.ALIAS_BWR,
    bytecount := Gen.Epd4in2.ALIAS_BYTECOUNT, kind := Gen.Epd4in2.ALIAS_KIND, kindCode := Gen.Epd4in2.ALIAS_KIND_CODE, drvW := Gen.Epd4in2.WIDTH, drvH := Gen.Epd4in2.HEIGHT },
  { panel := "epd5in65f", w := Gen.Epd5in65f.ALIAS_W, h := Gen.Epd5in65f.ALIAS_H, bwr := Gen.Epd5in65f.ALIAS_BWR,
    bytecount := Gen.Epd5in65f.ALIAS_BYTECOUNT, kind := Gen.Epd5in65f.ALIAS_KIND, kindCode := Gen.Epd5in65f.ALIAS_KIND_CODE, drvW := Gen.Epd5in65f.WIDTH, drvH := Gen.Epd5in65f.HEIGHT },
  { panel := "epd5in83_v2", w := Gen.Epd5in83_v2.ALIAS_W, h := Gen.Epd5in83_v2.ALIAS_H, bwr := Gen.Epd5in83_v2.ALIAS_BWR,
    bytecount := Gen.Epd5in83_v2.ALIAS_BYTECOUNT, kind := Gen.Epd5in83_v2.ALIAS_KIND, kindCode := Gen.Epd5in83_v2.ALIAS_KIND_CODE, drvW := Gen.Epd5in83_v2.WIDTH, drvH := Gen.Epd5in83_v2.HEIGHT },
  { panel := "epd5in83b_v2", w := Gen.Epd5in83b_v2.ALIAS_W, h := Gen.Epd5in83b_v2.ALIAS_H, bwr := Gen.Epd5in83b_v2.ALIAS_BWR,
    bytecount := Gen.Epd5in83b_v2.ALIAS_BYTECOUNT, kind := Gen.Epd5in83b_v2.ALIAS_KIND, kindCode := Gen.Epd5in83b_v2.ALIAS_KIND_CODE, drvW := Gen.Epd5in83b_v2.WIDTH, drvH := Gen.Epd5in83b_v2.HEIGHT },
  { panel := "epd7in3f", w := Gen.Epd7in3f.ALIAS_W, h := Gen.Epd7in3f.ALIAS_H, bwr := Gen.Epd7in3f.ALIAS_BWR,
    bytecount := Gen.Epd7in3f.ALIAS_BYTECOUNT, kind := Gen.Epd7in3f.ALIAS_KIND, kindCode := Gen.Epd7in3f.ALIAS_KIND_CODE, drvW := Gen.Epd7in3f.WIDTH, drvH := Gen.Epd7in3f.HEIGHT },
  { panel := "epd7in5", w := Gen.Epd7in5.ALIAS_W, h := Gen.Epd7in5.ALIAS_H, bwr := Gen.Epd7in5.ALIAS_BWR,
    bytecount := Gen.Epd7in5.ALIAS_BYTECOUNT, kind := Gen.Epd7in5.ALIAS_KIND, kindCode := Gen.Epd7in5.ALIAS_KIND_CODE, drvW := Gen.Epd7in5.WIDTH, drvH := Gen.Epd7in5.HEIGHT },
  { panel := "epd7in5_hd", w := Gen.Epd7in5_hd.ALIAS_W, h := Gen.Epd7in5_hd.ALIAS_H, bwr := Gen.Epd7in5_hd.ALIAS_BWR,
    bytecount := Gen.Epd7in5_hd.ALIAS_BYTECOUNT, kind := Gen.Epd7in5_hd.ALIAS_KIND, kindCode := Gen.Epd7in5_hd.ALIAS_KIND_CODE, drvW := Gen.Epd7in5_hd.WIDTH, drvH := Gen.Epd7in5_hd.HEIGHT },
  { panel := "epd7in5_v2", w := Gen.Epd7in5_v2.ALIAS_W, h := Gen.Epd7in5_v2.ALIAS_H, bwr := Gen.Epd7in5_v2.ALIAS_BWR,
    bytecount := Gen.Epd7in5_v2.ALIAS_BYTECOUNT, kind := Gen.Epd7in5_v2.ALIAS_KIND, kindCode := Gen.Epd7in5_v2.ALIAS_KIND_CODE, drvW := Gen.Epd7in5_v2.WIDTH, drvH := Gen.Epd7in5_v2.HEIGHT },
  { panel := "epd7in5b_v2", w := Gen.Epd7in5b_v2.ALIAS_W, h := Gen.Epd7in5b_v2.ALIAS_H, bwr := Gen.Epd7in5b_v2.ALIAS_BWR,
    bytecount := Gen.Epd7in5b_v2.ALIAS_BYTECOUNT, kind := Gen.Epd7in5b_v2.ALIAS_KIND, kindCode := Gen.Epd7in5b_v2.ALIAS_KIND_CODE, drvW := Gen.Epd7in5b_v2.WIDTH, drvH := Gen.Epd7in5b_v2.HEIGHT } ]

end EpdVerif
