import EpdVerif.Props.C09Mode
import EpdVerif.Table
import EpdVerif.KernelRfl
/-!
# C09 for epd1in02 — the driver's cached power flag and the controller's power state stay coupled

epd1in02 is the one UC81xx driver whose `PowerOn` is steered by a driver field (`is_turned_on`):
`display_frame` powers the panel on only when the flag says it is off, `sleep` powers off and
clears the flag, `init` (construction / `wake_up`) pulses reset and — since `fix:` 5eabf9f — clears
it too.  The per-operation-for-every-driver-state form of `C09Mode` cannot express that: with
`isOn = true` on an unpowered controller `display_frame` refreshes an unpowered panel (that WAS
the defect).  What holds is an invariant that couples the two sides:

    `d.isOn = powered (controller)`     at every operation boundary.

`coupled p acts d`: from an awake, initialised controller whose power state is `d.isOn`, the
program logs only good refreshes (`powerSafeP`, sound for EVERY controller state with those
fields) and the flag after all of the program's `upd`s equals the power state at its end.
`coupledEst`: the same for a program that starts with a hardware reset, from ANY state and ANY
flag.  Per operation they are decided for all feature flags, all driver states and all
arguments; `epd1in02_history_coupled` is the induction over call histories of any length: the
simulator's refresh log contains only good snapshots and the coupling holds at the end.
`sleep` is a unit together with the `wake_up` that must follow it (`Unit.sleepWake`), with any
driver-field changes (`set_background_color`) in between.
-/
namespace EpdVerif.Props.C09
open EpdVerif

/-- one operation keeps "flag = controller power" and refreshes only a good controller -/
def coupled (p : Panel) (acts : List Act) (d : DState) : Bool :=
  match powerSafeP p acts d.isOn with
  | some fin => (applyUpds d acts).isOn == fin
  | none => false

/-- … a program that begins with a hardware reset establishes it from any state, any flag -/
def coupledEst (p : Panel) (acts : List Act) (d : DState) : Bool :=
  match powerEstablishP p acts with
  | some fin => (applyUpds d acts).isOn == fin
  | none => false

theorem coupled_sound (p : Panel) (u0 : Uc) (hp : p.ctrl = .uc u0) (acts : List Act) (d : DState) (u : Uc)
    (hs : Uc.pw u = settled u0 d.isOn) (hg : Uc.GoodLog u) (h : coupled p acts d = true) :
    Uc.GoodLog (((blocksOf acts).foldl Uc.feed u).opEnd true) ∧
    Uc.pw (((blocksOf acts).foldl Uc.feed u).opEnd true) = settled u0 (applyUpds d acts).isOn := by
  unfold coupled at h
  cases hq : powerSafeP p acts d.isOn with
  | none => rw [hq] at h; cases h
  | some fin =>
    rw [hq] at h
    simp only [beq_iff_eq] at h
    rw [h]
    exact op_power p u0 hp acts u d.isOn fin hs hg hq

theorem coupledEst_sound (p : Panel) (u0 : Uc) (hp : p.ctrl = .uc u0) (acts : List Act) (d : DState) (u : Uc)
    (h14 : u.has14 = u0.has14) (hg : Uc.GoodLog u) (h : coupledEst p acts d = true) :
    Uc.GoodLog (((blocksOf acts).foldl Uc.feed u).opEnd true) ∧
    Uc.pw (((blocksOf acts).foldl Uc.feed u).opEnd true) = settled u0 (applyUpds d acts).isOn := by
  unfold coupledEst at h
  cases hq : powerEstablishP p acts with
  | none => rw [hq] at h; cases h
  | some fin =>
    rw [hq] at h
    simp only [beq_iff_eq] at h
    rw [h]
    exact op_power_establish p u0 hp acts u fin h14 hg hq

/-! ## per operation, for every feature flag, driver state and argument -/

open Drivers.Epd1in02 in
/-- the driver fields that steer epd1in02's control flow, split into their cases (the background
    only through `bg = 0`) -/
macro "e102_decide " f:ident d:ident : tactic => `(tactic|
  (rcases $f:ident with ⟨v2, alt⟩
   rcases $d:ident with ⟨bg, refresh, isOn, partialFlag, sleepMode, oldData⟩
   rcases bg with _ | bg <;>
   cases v2 <;> cases alt <;> cases refresh <;> cases isOn <;>
     kernel_rfl))

abbrev P102 (f : Feat) : Panel := Drivers.Epd1in02.panel f
abbrev prog102 (f : Feat) (d : DState) (op : Op) : List Act := (Drivers.Epd1in02.prog f d op).getD []

theorem e102_new (f : Feat) (d : DState) : coupledEst (P102 f) (prog102 f d .new) d = true := by e102_decide f d
theorem e102_wake (f : Feat) (d : DState) : coupledEst (P102 f) (prog102 f d .wake) d = true := by e102_decide f d
theorem e102_disp (f : Feat) (d : DState) : coupled (P102 f) (prog102 f d .disp) d = true := by e102_decide f d
theorem e102_clear (f : Feat) (d : DState) : coupled (P102 f) (prog102 f d .clear) d = true := by e102_decide f d
theorem e102_wait (f : Feat) (d : DState) : coupled (P102 f) (prog102 f d .wait) d = true := by e102_decide f d
theorem e102_bg (f : Feat) (d : DState) (c : Nat) : coupled (P102 f) (prog102 f d (.bg c)) d = true := by e102_decide f d
theorem e102_lut (f : Feat) (d : DState) (r : Option Refresh) : coupled (P102 f) (prog102 f d (.lut r)) d = true := by
  rcases r with _ | r
  · e102_decide f d
  · cases r <;> e102_decide f d
theorem e102_upd (f : Feat) (d : DState) (b : Bytes) : coupled (P102 f) (prog102 f d (.upd b)) d = true := by e102_decide f d
theorem e102_updisp (f : Feat) (d : DState) (b : Bytes) : coupled (P102 f) (prog102 f d (.updisp b)) d = true := by e102_decide f d
theorem e102_old (f : Feat) (d : DState) (b : Bytes) : coupled (P102 f) (prog102 f d (.old b)) d = true := by e102_decide f d
theorem e102_newf (f : Feat) (d : DState) (b : Bytes) : coupled (P102 f) (prog102 f d (.newf b)) d = true := by e102_decide f d

/-- `sleep`: no refresh is sent at all, so the log stays good from the coupled state (the controller is
    asleep afterwards: only `wake_up` and driver-field setters may follow) -/
def sleepOk (p : Panel) (acts : List Act) (d : DState) : Bool :=
  match p.ctrl with
  | .uc u => (Uc.powerRun ⟨false, d.isOn, true, false, u.has14⟩ (blocksOf acts)).isSome
  | .ssd _ => false

theorem e102_sleep (f : Feat) (d : DState) : sleepOk (P102 f) (prog102 f d .sleep) d = true := by e102_decide f d

/-! ## every history -/

/-- the controller kind of the panel -/
abbrev u102 : Uc := Uc.por Gen.Epd1in02.WIDTH Gen.Epd1in02.HEIGHT 1 5 false

/-- one call of the history: the driver fields after all of its `upd`s, the controller after its
    blocks and the end-of-operation mark (as the run-time oracle replays a trace) -/
def step1 (f : Feat) (d : DState) (u : Uc) (op : Op) : DState × Uc :=
  (applyUpds d (prog102 f d op), ((blocksOf (prog102 f d op)).foldl Uc.feed u).opEnd true)

def step102 (f : Feat) (du : DState × Uc) (op : Op) : DState × Uc := step1 f du.1 du.2 op

theorem step_of_coupled (f : Feat) (d : DState) (u : Uc) (op : Op) (hg : Uc.GoodLog u)
    (hc : Uc.pw u = settled u102 d.isOn) (h : coupled (P102 f) (prog102 f d op) d = true) :
    Uc.GoodLog (step1 f d u op).2 ∧ Uc.pw (step1 f d u op).2 = settled u102 (step1 f d u op).1.isOn :=
  coupled_sound (P102 f) u102 rfl (prog102 f d op) d u hc hg h

theorem step_of_coupledEst (f : Feat) (d : DState) (u : Uc) (op : Op) (hg : Uc.GoodLog u)
    (h14 : u.has14 = u102.has14) (h : coupledEst (P102 f) (prog102 f d op) d = true) :
    Uc.GoodLog (step1 f d u op).2 ∧ Uc.pw (step1 f d u op).2 = settled u102 (step1 f d u op).1.isOn :=
  coupledEst_sound (P102 f) u102 rfl (prog102 f d op) d u h14 hg h

/-- calls that may be made on an awake driver (the partial-update calls carry assertions on their
    window arguments and are decided by the run-time oracle) -/
def single102 : Op → Bool
  | .new | .wake | .disp | .clear | .wait | .bg _ | .lut _ | .upd _ | .updisp _ | .old _ | .newf _ => true
  | _ => false

/-- the documented protocol: after `sleep` only `wake_up` (or a driver-field setter) may follow;
    returns whether the history ends asleep, `none` if it breaks the protocol -/
def okHist : Bool → List Op → Option Bool
  | s, [] => some s
  | false, .sleep :: r => okHist true r
  | false, op :: r => if single102 op then okHist false r else none
  | true, .wake :: r => okHist false r
  | true, .bg _ :: r => okHist true r
  | true, _ :: _ => none

theorem has14_of_pw (u : Uc) (p : Uc.PW) (h : Uc.pw u = p) : u.has14 = p.has14 := by rw [← h]; rfl

theorem single_step (f : Feat) (d : DState) (u : Uc) (op : Op) (hs : single102 op = true)
    (hg : Uc.GoodLog u) (hc : Uc.pw u = settled u102 d.isOn) :
    Uc.GoodLog (step1 f d u op).2 ∧ Uc.pw (step1 f d u op).2 = settled u102 (step1 f d u op).1.isOn := by
  have h14 : u.has14 = u102.has14 := has14_of_pw u _ hc
  cases op with
  | new => exact step_of_coupledEst f d u .new hg h14 (e102_new f d)
  | wake => exact step_of_coupledEst f d u .wake hg h14 (e102_wake f d)
  | disp => exact step_of_coupled f d u .disp hg hc (e102_disp f d)
  | clear => exact step_of_coupled f d u .clear hg hc (e102_clear f d)
  | wait => exact step_of_coupled f d u .wait hg hc (e102_wait f d)
  | bg c => exact step_of_coupled f d u (.bg c) hg hc (e102_bg f d c)
  | lut r => exact step_of_coupled f d u (.lut r) hg hc (e102_lut f d r)
  | upd b => exact step_of_coupled f d u (.upd b) hg hc (e102_upd f d b)
  | updisp b => exact step_of_coupled f d u (.updisp b) hg hc (e102_updisp f d b)
  | old b => exact step_of_coupled f d u (.old b) hg hc (e102_old f d b)
  | newf b => exact step_of_coupled f d u (.newf b) hg hc (e102_newf f d b)
  | _ => cases hs

theorem sleep_step (f : Feat) (d : DState) (u : Uc) (hg : Uc.GoodLog u) (hc : Uc.pw u = settled u102 d.isOn) :
    Uc.GoodLog (step1 f d u .sleep).2 ∧ (step1 f d u .sleep).2.has14 = u102.has14 := by
  have h := e102_sleep f d
  unfold sleepOk at h
  have hp : (P102 f).ctrl = .uc u102 := rfl
  rw [hp] at h
  simp only [Option.isSome_iff_exists] at h
  obtain ⟨r, hr⟩ := h
  have snd := Uc.powerRun_sound (blocksOf (prog102 f d .sleep)) u r hg (by rw [hc]; exact hr)
  unfold step1
  refine ⟨Uc.goodLog_opEnd _ snd.1, ?_⟩
  have e := has14_of_pw _ _ (Uc.pw_opEnd ((blocksOf (prog102 f d .sleep)).foldl Uc.feed u))
  rw [e, Uc.PW.opEnd_has14, snd.2]
  exact Uc.powerRun_has14 _ _ r hr

theorem asleep_bg_step (f : Feat) (d : DState) (u : Uc) (c : Nat) (hg : Uc.GoodLog u) (h14 : u.has14 = u102.has14) :
    Uc.GoodLog (step1 f d u (.bg c)).2 ∧ (step1 f d u (.bg c)).2.has14 = u102.has14 := by
  have e : (step1 f d u (.bg c)).2 = u.opEnd true := rfl
  rw [e]
  refine ⟨Uc.goodLog_opEnd _ hg, ?_⟩
  rw [has14_of_pw _ _ (Uc.pw_opEnd u), Uc.PW.opEnd_has14]
  exact h14

/-- **epd1in02, every protocol-respecting history of any length, any arguments**: every refresh the
    simulator logs reached an awake, initialised, POWERED controller, and whenever the history ends
    awake the driver's `is_turned_on` equals the controller's power state.  Start: any controller of
    the panel's kind whose log is good so far and — if awake — coupled to the driver's flag
    (in particular the state right after `new`, by `e102_new`). -/
theorem epd1in02_history_coupled (f : Feat) : ∀ (ops : List Op) (slept : Bool) (d : DState) (u : Uc) (fin : Bool),
    okHist slept ops = some fin → Uc.GoodLog u → u.has14 = u102.has14 →
    (slept = false → Uc.pw u = settled u102 d.isOn) →
    Uc.GoodLog (ops.foldl (step102 f) (d, u)).2 ∧
    (fin = false → Uc.pw (ops.foldl (step102 f) (d, u)).2 = settled u102 (ops.foldl (step102 f) (d, u)).1.isOn)
  | [], slept, d, u, fin, hk, hg, _, hc => by
    simp only [okHist, Option.some.injEq] at hk
    subst hk
    exact ⟨hg, hc⟩
  | op :: r, false, d, u, fin, hk, hg, _, hc => by
    simp only [List.foldl_cons]
    rw [show step102 f (d, u) op = step1 f d u op from rfl]
    have hc' := hc rfl
    by_cases hsl : op = .sleep
    · subst hsl
      simp only [okHist] at hk
      have st := sleep_step f d u hg hc'
      generalize step1 f d u .sleep = x at st ⊢
      exact epd1in02_history_coupled f r true x.1 x.2 fin hk st.1 st.2 (fun h => by cases h)
    · have hk' : (if single102 op then okHist false r else none) = some fin := by
        cases op <;> first | exact absurd rfl hsl | exact hk
      by_cases hs : single102 op = true
      · rw [if_pos hs] at hk'
        have st := single_step f d u op hs hg hc'
        generalize step1 f d u op = x at st ⊢
        exact epd1in02_history_coupled f r false x.1 x.2 fin hk' st.1 (has14_of_pw _ _ st.2) (fun _ => st.2)
      · rw [if_neg hs] at hk'; cases hk'
  | op :: r, true, d, u, fin, hk, hg, h14, _ => by
    simp only [List.foldl_cons]
    rw [show step102 f (d, u) op = step1 f d u op from rfl]
    cases op with
    | wake =>
      simp only [okHist] at hk
      have st := step_of_coupledEst f d u .wake hg h14 (e102_wake f d)
      generalize step1 f d u .wake = x at st ⊢
      exact epd1in02_history_coupled f r false x.1 x.2 fin hk st.1 (has14_of_pw _ _ st.2) (fun _ => st.2)
    | bg c =>
      simp only [okHist] at hk
      have st := asleep_bg_step f d u c hg h14
      generalize step1 f d u (.bg c) = x at st ⊢
      exact epd1in02_history_coupled f r true x.1 x.2 fin hk st.1 st.2 (fun h => by cases h)
    | _ => simp only [okHist] at hk <;> cases hk

/-- non-vacuity: a history with quick-refresh pairs, displays, a sleep / wake-up cycle with a
    background change in between and a wake-up without sleep respects the protocol -/
example : okHist false [.new, .upd [], .disp, .old [], .newf [], .disp, .sleep, .bg 0, .wake, .disp, .wake, .disp, .sleep]
    = some true := by decide

/-- the coupling is what makes `display_frame` safe: from a driver whose flag says "on" while the
    controller is NOT powered (the state the defect repaired in 5eabf9f produced) the check fails -/
example : powerSafeP (P102 {}) (prog102 {} { isOn := true } .disp) false = none := by decide +kernel

end EpdVerif.Props.C09
