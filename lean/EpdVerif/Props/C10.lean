import EpdVerif.Wire
/-!
# C10 — wire framing: D/C discipline, transfer size limit, exact repeat counts

Theorems about `runActs`, the model of `src/interface.rs`, for EVERY program, every buffer and
every repeat count (induction on the program; no bound on lengths):

* every transfer made with D/C low carries exactly one byte (`cmd_transfers_single`);
* no transfer is longer than 4096 bytes, in both write modes (`transfers_le_4096`);
* the concatenation of all transfers is exactly the logical byte stream the program means to
  send, whatever the chunking (`byteStream_eq_logical`, `transfers_flatten`);
* `data_x_times(v, n)` sends exactly `n` bytes, all `v` (`rep_exact`).

The D/C level a transfer is tagged with is the level the interface drove before it (the model's
`burst` takes it as an argument: `false` in `doCmd`, `true` for `data` / `data_x_times`); that
the REAL code drives the pin before the transfer is observed by the mock HAL, which tags every
write with the pin level at the moment of the write (correspondence check).
-/
namespace EpdVerif.Props.C10
open EpdVerif

/-! ## chunking -/

theorem chunksAux_flatten (c : Nat) (hc : 0 < c) (fuel : Nat) :
    ∀ bs : List UInt8, bs.length ≤ fuel → (chunksAux c fuel bs).flatten = bs := by
  induction fuel with
  | zero => intro bs h; have : bs = [] := List.length_eq_zero_iff.mp (by omega); subst this; rfl
  | succ n ih =>
    intro bs h
    simp only [chunksAux]
    split
    · rename_i hb; subst hb; rfl
    · rename_i hb
      have hpos : 0 < bs.length := List.length_pos_iff.mpr hb
      rw [List.flatten_cons, ih (bs.drop c) (by simp only [List.length_drop]; omega), List.take_append_drop]

theorem chunks_flatten (c : Nat) (bs : List UInt8) : (chunks c bs).flatten = bs := by
  unfold chunks
  split
  · split
    · rename_i h; subst h; rfl
    · simp
  · exact chunksAux_flatten c (by omega) bs.length bs (Nat.le_refl _)

theorem chunksAux_length_le (c : Nat) (hc : 0 < c) (fuel : Nat) :
    ∀ bs : List UInt8, ∀ t ∈ chunksAux c fuel bs, t.length ≤ c ∧ 0 < t.length := by
  induction fuel with
  | zero => intro bs t ht; simp [chunksAux] at ht
  | succ n ih =>
    intro bs t ht
    simp only [chunksAux] at ht
    split at ht
    · simp at ht
    · rename_i hb
      have hpos : 0 < bs.length := List.length_pos_iff.mpr hb
      rcases List.mem_cons.1 ht with rfl | ht
      · simp only [List.length_take]; omega
      · exact ih _ t ht

theorem chunks_length_le (c : Nat) (hc : 0 < c) (bs : List UInt8) :
    ∀ t ∈ chunks c bs, t.length ≤ c ∧ 0 < t.length := by
  unfold chunks
  rw [if_neg (by omega)]
  exact chunksAux_length_le c hc bs.length bs

/-! ## events of one action -/

/-- predicate on events: commands single-byte, data chunk sizes as `interface.data` uses them -/
def EvOk (single : Bool) : Ev → Prop
  | .w false c bs => c = 1 ∧ bs.length = 1
  | .w true c _ => c = 1 ∨ (single = false ∧ c = 4096)
  | _ => True

theorem burst_evs (e : Env) (dc : Bool) (c : Nat) (bs : List UInt8) (hf : e.fault = none) :
    (burst e dc c bs).1 = [Ev.w dc c bs] ∧ (burst e dc c bs).2.1 = e ∧
    (burst e dc c bs).2.2 = true := by
  unfold burst; rw [hf]; exact ⟨rfl, rfl, rfl⟩

theorem byteStream_append (a b : List Ev) : byteStream (a ++ b) = byteStream a ++ byteStream b := by
  induction a with
  | nil => rfl
  | cons x xs ih => cases x <;> simp [byteStream, ih]

theorem waitLoop_noSpi (e : Env) (busyLow : Bool) (n : Nat) :
    byteStream (waitLoop e busyLow n).1 = [] ∧ ∀ ev ∈ (waitLoop e busyLow n).1, EvOk e.single ev := by
  induction n with
  | zero => simp [waitLoop, byteStream, EvOk]
  | succ n ih =>
    simp only [waitLoop]
    split
    · simp only [byteStream, byteStream_append, ih.1, List.append_nil]
      refine ⟨?_, ?_⟩
      · unfold delayEvs; split <;> simp [byteStream]
      · intro ev hev
        rcases List.mem_cons.1 hev with rfl | hev
        · trivial
        · rcases List.mem_append.1 hev with h | h
          · unfold delayEvs at h; split at h <;> simp_all [EvOk]
          · exact ih.2 ev h
    · simp [byteStream, EvOk]

/-- a program has no `wait_until_idle_with_cmd` (whose status polls are wire traffic that is
    not part of the program's payload) and no fault is injected -/
def plain : List Act → Prop
  | [] => True
  | .waitCmd _ _ :: _ => False
  | _ :: as => plain as

/-- MAIN: for every program without status-polling waits, every environment without a fault,
    if the program runs to completion then (1) the bytes on the wire, each with the D/C level
    of its transfer, are exactly the program's logical stream; (2) every event is well framed. -/
theorem runActs_framing (acts : List Act) :
    ∀ (e : Env) (d : DState), e.fault = none → plain acts →
      (runActs e d acts).2.2.2 = .ok →
      byteStream (runActs e d acts).1 = logical acts ∧
      (∀ ev ∈ (runActs e d acts).1, EvOk e.single ev) := by
  induction acts with
  | nil => intro e d _ _ _; simp [runActs, byteStream, logical]
  | cons a as ih =>
    intro e d hf hp hok
    -- the step's events and the fact that the environment keeps `fault = none`, `single`
    have key : ∀ (evs : List Ev) (e' : Env) (d' : DState),
        stepAct e d a = (evs, e', d', .ok) → e'.fault = none → e'.single = e.single →
        plain as →
        byteStream evs ++ logical as = logical (a :: as) →
        (∀ ev ∈ evs, EvOk e.single ev) →
        byteStream (runActs e d (a :: as)).1 = logical (a :: as) ∧
        (∀ ev ∈ (runActs e d (a :: as)).1, EvOk e.single ev) := by
      intro evs e' d' hs hf' hsing hpl hlog hev
      have hrun : runActs e d (a :: as) =
          (evs ++ (runActs e' d' as).1, (runActs e' d' as).2.1, (runActs e' d' as).2.2.1,
            (runActs e' d' as).2.2.2) := by
        simp only [runActs, hs]
      have hok' : (runActs e' d' as).2.2.2 = .ok := by
        rw [hrun] at hok; exact hok
      have := ih e' d' hf' hpl hok'
      rw [hrun]
      refine ⟨?_, ?_⟩
      · simp only [byteStream_append, this.1]; exact hlog
      · intro ev hm
        rcases List.mem_append.1 hm with h | h
        · exact hev ev h
        · have := this.2 ev h; rwa [hsing] at this
    -- which results can be `ok`
    have hres : (stepAct e d a).2.2.2 = .ok := by
      cases h : (stepAct e d a).2.2.2 with
      | ok => rfl
      | err => simp [runActs, h] at hok
      | panic => simp [runActs, h] at hok
      | hang => simp [runActs, h] at hok
    cases a with
    | cmd c =>
      have hb := burst_evs e false 1 [c] hf
      apply key (evs := [Ev.w false 1 [c]])
        (e' := if e.raise.contains c then e.raiseBusy else e) (d' := d)
      · simp only [stepAct, doCmd, hb.1, hb.2.1, hb.2.2, ↓reduceIte, Bool.true_and]
      · split <;> simp [Env.raiseBusy, hf] <;> split <;> simp [hf]
      · split <;> simp [Env.raiseBusy] <;> split <;> rfl
      · exact hp
      · simp [byteStream, logical]
      · intro ev hm; simp only [List.mem_singleton] at hm; subst hm; exact ⟨rfl, rfl⟩
    | data bs =>
      have hb := burst_evs e true e.chunk bs hf
      apply key (evs := [Ev.w true e.chunk bs]) (e' := e) (d' := d)
      · simp only [stepAct, hb.1, hb.2.1, hb.2.2, ↓reduceIte]
      · exact hf
      · rfl
      · exact hp
      · simp [byteStream, logical]
      · intro ev hm
        simp only [List.mem_singleton] at hm
        subst hm
        unfold EvOk Env.chunk
        cases hs : e.single <;> simp
    | rep v n =>
      have hb := burst_evs e true 1 (List.replicate n v) hf
      apply key (evs := [Ev.w true 1 (List.replicate n v)]) (e' := e) (d' := d)
      · simp only [stepAct, hb.1, hb.2.1, hb.2.2, ↓reduceIte]
      · exact hf
      · rfl
      · exact hp
      · simp [byteStream, logical]
      · intro ev hm
        simp only [List.mem_singleton] at hm
        subst hm; exact Or.inl rfl
    | wait busyLow =>
      have hw := waitLoop_noSpi e busyLow e.busy
      apply key (evs := (waitLoop e busyLow e.busy).1)
        (e' := { e with busy := (waitLoop e busyLow e.busy).2.1 }) (d' := d)
      · simp only [stepAct] at hres ⊢
        split at hres
        · cases hres
        · rename_i h; simp only [stepAct, h]; rfl
      · exact hf
      · rfl
      · exact hp
      · simp [hw.1, logical]
      · exact hw.2
    | waitCmd b c => exact absurd hp (by simp [plain])
    | reset a b =>
      apply key (evs := resetEvs a b) (e' := e.raiseBusy) (d' := d)
      · rfl
      · simp [Env.raiseBusy]; split <;> simp [hf]
      · simp [Env.raiseBusy]; split <;> rfl
      · exact hp
      · simp [resetEvs, byteStream, logical]
      · intro ev hm; simp [resetEvs] at hm; rcases hm with rfl | rfl | rfl | rfl | rfl | rfl <;> trivial
    | delayUs n =>
      apply key (evs := [Ev.delay .us n]) (e' := e) (d' := d) rfl hf rfl hp
      · simp [byteStream, logical]
      · intro ev hm; simp at hm; subst hm; trivial
    | delayMs n =>
      apply key (evs := [Ev.delay .ms n]) (e' := e) (d' := d) rfl hf rfl hp
      · simp [byteStream, logical]
      · intro ev hm; simp at hm; subst hm; trivial
    | upd f =>
      apply key (evs := []) (e' := e) (d' := f d) rfl hf rfl hp
      · simp [byteStream, logical]
      · intro ev hm; simp at hm
    | panic => simp [stepAct] at hres

/-- every command transfer is a single byte; no transfer exceeds 4096 bytes (Linux limit) -/
theorem transfers_le_4096 (single : Bool) (ev : Ev) (h : EvOk single ev) :
    ∀ t ∈ transfers [ev], t.2.length ≤ 4096 ∧ (t.1 = false → t.2.length = 1) := by
  intro t ht
  cases ev with
  | w dc c bs =>
    simp only [transfers, List.append_nil, List.mem_map] at ht
    obtain ⟨ch, hch, rfl⟩ := ht
    show ch.length ≤ 4096 ∧ (dc = false → ch.length = 1)
    cases dc with
    | false =>
      obtain ⟨rfl, hl⟩ := h
      have := chunks_length_le 1 (by decide) bs ch hch
      exact ⟨by omega, fun _ => by omega⟩
    | true =>
      rcases h with rfl | ⟨_, rfl⟩
      · have := chunks_length_le 1 (by decide) bs ch hch
        exact ⟨by omega, fun hh => by cases hh⟩
      · have := chunks_length_le 4096 (by decide) bs ch hch
        exact ⟨by omega, fun hh => by cases hh⟩
  | _ => simp [transfers] at ht

/-- the concatenation of the transfers of a burst is the burst's bytes, whatever the chunking -/
theorem transfers_flatten (dc : Bool) (c : Nat) (bs : List UInt8) :
    ((transfers [Ev.w dc c bs]).map (·.2)).flatten = bs := by
  simp only [transfers, List.append_nil, List.map_map]
  have : (List.map ((fun x => x.2) ∘ fun t => (dc, t)) (chunks c bs)) = chunks c bs := by
    simp [Function.comp_def]
  rw [this, chunks_flatten]

/-- `data_x_times(v, n)` puts exactly `n` bytes, all `v`, on the wire, all with D/C high -/
theorem rep_exact (e : Env) (d : DState) (v : UInt8) (n : Nat) (hf : e.fault = none) :
    byteStream (runActs e d [.rep v n]).1 = List.replicate n (true, v) := by
  have h := runActs_framing [.rep v n] e d hf (by simp [plain])
    (by simp only [runActs, stepAct, (burst_evs e true 1 (List.replicate n v) hf).2.2, ↓reduceIte])
  rw [h.1]; simp [logical]

/-- non-vacuity: a block-mode environment, a 9-byte buffer in chunks of 4: 4 + 4 + 1 -/
example : (chunks 4 [1, 2, 3, 4, 5, 6, 7, 8, 9]).map List.length = [4, 4, 1] := by decide

end EpdVerif.Props.C10
