import EpdVerif.Props.C15
/-!
# C09 on the 12.48in driver — every refresh trigger reaches initialised, powered, awake chips

About the model of `src/epd12in48b_v2/mod.rs` in `EpdVerif/Big.lean` (tied to the source by the
correspondence runs of `./vcheck C09`, which contain that driver).  The four UC81xx-family
controllers are abstracted to what the property speaks about, per chip `k` (bit `k` of a control
word selects it): resolution programmed / panel setting programmed since the last hardware reset,
booster on, deep sleep.  `Chips.act` is the effect of one action of a program on them:

* a command transfer (`control < 16`, both D/C lines low) applies its opcode to every selected chip
  that is awake — PowerOn 0x04, PowerOff 0x02, TconResolution 0x61, PanelSetting 0x00, DeepSleep
  0x07 (taken to sleep at the opcode already: stricter than the chip, which needs the check code);
* `resetSeq` (pulses BOTH reset lines, `Props.C11` `big_reset_*`) makes all four forget everything;
* nothing else changes them (data transfers carry parameters / pixels).

`okActs s prog` says: every DisplayRefresh 0x12 in `prog`, at the point where it is sent, goes
only to chips that are initialised, powered and awake.

The caller is abstracted to what a protocol-respecting caller knows (`Host`): `reset()` makes the
panel `fresh`, `init` on a fresh or ready panel makes it `ready`, `hibernate` puts it to sleep.
`Respects h ops` = every refresh call (`refresh_display`, `begin_refresh_display`, and the two
partial forms) is made while the host knows the panel to be `ready`.

**`big_refresh_ready`** — for EVERY history of public calls that respects the protocol, with ANY
arguments (configurations, windows, buffers, tables), from ANY starting state of the four chips:
every refresh trigger the driver sends arrives at chips that are initialised since their last
reset, powered on and awake.  (`okActs` looks at the whole flattened program, i.e. also past a
panic or a hang, which is more than what is executed.)

The driver keeps no power bookkeeping of its own (it brackets every refresh with PowerOn), so the
"bookkeeping never diverges" clause has no content for it; `big_refresh_powers_itself` states the
bracket: the refresh programs power all four chips on before the trigger, whatever the state.
-/
namespace EpdVerif.Props.C09
open EpdVerif EpdVerif.Big EpdVerif.Gen.Epd12in48b_v2

/-- chip `k` is selected by control word `c` -/
def sel (c k : Nat) : Bool := c / 2 ^ k % 2 == 1

structure Chips where
  res : Nat → Bool
  panel : Nat → Bool
  powered : Nat → Bool
  asleep : Nat → Bool
  partialOn : Nat → Bool     -- between PartialIn 0x91 and PartialOut 0x92 (C02: where image data lands)

def Chips.blank : Chips := ⟨fun _ => false, fun _ => false, fun _ => false, fun _ => false, fun _ => false⟩

/-- opcode `b` sent with control word `c`; a sleeping chip ignores it -/
def Chips.cmd (s : Chips) (c : Nat) (b : UInt8) : Chips :=
  if b = 0x04 then { s with powered := fun k => (sel c k && !s.asleep k) || s.powered k }
  else if b = 0x02 then { s with powered := fun k => !(sel c k && !s.asleep k) && s.powered k }
  else if b = 0x61 then { s with res := fun k => (sel c k && !s.asleep k) || s.res k }
  else if b = 0x00 then { s with panel := fun k => (sel c k && !s.asleep k) || s.panel k }
  else if b = 0x07 then { s with asleep := fun k => sel c k || s.asleep k, powered := fun k => !sel c k && s.powered k }
  else if b = 0x91 then { s with partialOn := fun k => sel c k || s.partialOn k }
  else if b = 0x92 then { s with partialOn := fun k => !sel c k && s.partialOn k }
  else s

def Chips.act (s : Chips) : BAct → Chips
  | .sw c d => if c < 16 then d.foldl (fun s b => s.cmd c b) s else s
  | .resetSeq => Chips.blank
  | _ => s

def Chips.run (s : Chips) (acts : List BAct) : Chips := acts.foldl Chips.act s

/-- the refresh trigger with control word `c` only reaches ready chips -/
def Chips.refreshOk (s : Chips) (c : Nat) : Prop :=
  ∀ k, k < 4 → sel c k = true → s.res k = true ∧ s.panel k = true ∧ s.powered k = true ∧ s.asleep k = false

def okActs (s : Chips) : List BAct → Prop
  | [] => True
  | a :: r => (∀ c d, a = .sw c d → c < 16 → 0x12 ∈ d → s.refreshOk c) ∧ okActs (s.act a) r

/-- all four chips initialised since reset and awake -/
def Chips.Ready (s : Chips) : Prop := ∀ k, k < 4 → s.res k = true ∧ s.panel k = true ∧ s.asleep k = false
def Chips.Awake (s : Chips) : Prop := ∀ k, k < 4 → s.asleep k = false

/-! ## the caller -/

inductive Host | unknown | fresh | ready | asleep
  deriving DecidableEq, Repr

def isRefresh : PubOp → Bool
  | .refresh => true | .brefresh => true | .refreshp _ => true | .brefreshp _ => true | _ => false

def Host.next : Host → PubOp → Host
  | _, .reset => .fresh
  | .fresh, .init _ => .ready
  | _, .hibernate => .asleep
  | h, _ => h

def Respects : Host → List PubOp → Prop
  | _, [] => True
  | h, op :: r => (isRefresh op = true → h = .ready) ∧ Respects (h.next op) r

/-- the LUT upload entry points use the six LUT opcodes (the model's `lut` takes any) -/
def WfOp : PubOp → Prop
  | .lut c _ _ => c ∈ [Command.LutC, Command.LutWW, Command.LutKW_LutR, Command.LutWK_LutW, Command.LutKK_LutK, Command.LutBD]
  | _ => True

/-! ## programs by the opcodes they send -/

/-- no reset, and every command opcode of the program satisfies `P` -/
def CmdsIn (P : UInt8 → Prop) (acts : List BAct) : Prop :=
  ∀ a, a ∈ acts → a ≠ .resetSeq ∧ ∀ c d, a = BAct.sw c d → c < 16 → ∀ b, b ∈ d → P b

theorem CmdsIn_append {P} {a b : List BAct} (ha : CmdsIn P a) (hb : CmdsIn P b) : CmdsIn P (a ++ b) := by
  intro x hx
  rcases List.mem_append.1 hx with h | h
  · exact ha x h
  · exact hb x h

theorem CmdsIn_nil {P} : CmdsIn P [] := by intro x hx; cases hx

theorem CmdsIn_mono {P Q : UInt8 → Prop} (h : ∀ b, P b → Q b) {acts} (ha : CmdsIn P acts) : CmdsIn Q acts :=
  fun x hx => ⟨(ha x hx).1, fun c d he hc b hb => h b ((ha x hx).2 c d he hc b hb)⟩

theorem CmdsIn_cmd {P : UInt8 → Prop} (chips : Nat) (tc : UInt8) (h : P tc) : CmdsIn P (Big.cmd chips tc) := by
  intro x hx
  simp only [Big.cmd, List.mem_singleton] at hx
  subst hx
  refine ⟨(by intro hh; cases hh), ?_⟩
  intro c d he _ b hb
  injection he with h1 h2
  subst h2
  rw [List.mem_singleton] at hb
  rw [hb]; exact h

theorem CmdsIn_cmdData {P : UInt8 → Prop} (chips : Nat) (tc : UInt8) (ds : Bytes) (h : P tc) :
    CmdsIn P (Big.cmdData chips tc ds) := by
  intro x hx
  simp only [Big.cmdData, List.mem_cons, List.mem_nil_iff, or_false] at hx
  rcases hx with hx | hx
  · subst hx
    refine ⟨(by intro hh; cases hh), ?_⟩
    intro c d he _ b hb
    injection he with h1 h2
    subst h2
    rw [List.mem_singleton] at hb
    rw [hb]; exact h
  · subst hx
    refine ⟨(by intro hh; cases hh), ?_⟩
    intro c d he hc
    injection he with h1 h2
    subst h1
    simp only [DATA, CS_DATA] at hc
    omega

theorem CmdsIn_other {P} (a : BAct) (h : ∀ c d, a ≠ BAct.sw c d) (hr : a ≠ .resetSeq) : CmdsIn P [a] := by
  intro x hx
  simp only [List.mem_singleton] at hx
  subst hx
  exact ⟨hr, fun c d he => absurd he (h c d)⟩

theorem CmdsIn_guard {P} (g : List BAct) (h : g = [] ∨ g = [.panic]) : CmdsIn P g := by
  rcases h with h | h
  · rw [h]; exact CmdsIn_nil
  · rw [h]; exact CmdsIn_other _ (by intro c d hh; cases hh) (by intro hh; cases hh)

theorem CmdsIn_wwd {P : UInt8 → Prop} (tc : UInt8) (win : Rect) (px : Bytes) (h : P tc) :
    CmdsIn P (writeWindowData tc win px) := by
  intro x hx
  rcases C15.wwd_controls tc win px x hx with h1 | ⟨chip, hm, h1 | ⟨d', h1⟩⟩
  · rw [h1]; exact ⟨(by intro hh; cases hh), fun c d he => by cases he⟩
  · rw [h1]
    refine ⟨(by intro hh; cases hh), ?_⟩
    intro c d he _ b hb
    injection he with h2 h3
    subst h3
    rw [List.mem_singleton] at hb
    rw [hb]; exact h
  · rw [h1]
    refine ⟨(by intro hh; cases hh), ?_⟩
    intro c d he hc
    injection he with h2 h3
    subst h2
    simp only [CS_DATA] at hc
    omega

theorem CmdsIn_setup {P : UInt8 → Prop} (win : Rect) (h : P Command.PartialWindow) :
    CmdsIn P (setupPartialWindows win) := by
  unfold setupPartialWindows
  split
  · exact CmdsIn_other _ (by intro c d hh; cases hh) (by intro hh; cases hh)
  · simp only
    refine CmdsIn_append (CmdsIn_append (CmdsIn_append (CmdsIn_append (CmdsIn_append (CmdsIn_append (CmdsIn_append
      (CmdsIn_append (CmdsIn_append (CmdsIn_append (CmdsIn_append ?_ ?_) ?_) ?_) ?_) ?_) ?_) ?_) ?_) ?_) ?_) ?_
    all_goals first
      | exact CmdsIn_guard _ (C15.localPart_guard _ _)
      | exact CmdsIn_guard _ (C15.partialWindowData_guard _ _)
      | exact CmdsIn_cmdData _ _ _ h

theorem CmdsIn_setMode {P : UInt8 → Prop} (c : Cfg) (h0 : P Command.PanelSetting)
    (h1 : P Command.VcomAndDataIntervalSetting) : CmdsIn P (setMode c) := by
  unfold setMode
  simp only
  refine CmdsIn_append (CmdsIn_append (CmdsIn_append (CmdsIn_append (CmdsIn_append ?_ ?_) ?_) ?_) ?_) ?_
  all_goals first
    | exact CmdsIn_cmdData _ _ _ h0
    | exact CmdsIn_cmdData _ _ _ h1
    | exact CmdsIn_other _ (by intro c d hh; cases hh) (by intro hh; cases hh)

theorem CmdsIn_writePartial {P : UInt8 → Prop} (tc : UInt8) (win : Rect) (px : Bytes) (h : P tc)
    (hi : P Command.PartialIn) (ho : P Command.PartialOut) (hw : P Command.PartialWindow) :
    CmdsIn P (writePartial tc win px) := by
  unfold writePartial
  refine CmdsIn_append (CmdsIn_append (CmdsIn_append (CmdsIn_append ?_ (CmdsIn_cmd _ _ hi)) (CmdsIn_setup win hw))
    (CmdsIn_wwd tc win px h)) (CmdsIn_cmd _ _ ho)
  split
  · exact CmdsIn_other _ (by intro c d hh; cases hh) (by intro hh; cases hh)
  · exact CmdsIn_nil

/-- neither a refresh trigger nor a deep-sleep command -/
def Quiet (b : UInt8) : Prop := b ≠ 0x12 ∧ b ≠ 0x07
instance (b : UInt8) : Decidable (Quiet b) := by unfold Quiet; infer_instance

def quietOp : PubOp → Bool
  | .reset => false | .hibernate => false | op => !isRefresh op

theorem CmdsIn_one {P} (a : BAct) (h : ∀ c d, a ≠ BAct.sw c d) (hr : a ≠ .resetSeq) : CmdsIn P [a] :=
  CmdsIn_other a h hr

/-- every call other than reset, hibernate and the refresh family sends neither 0x12 nor 0x07 -/
theorem prog_quiet (op : PubOp) (hq : quietOp op = true) (hw : WfOp op) : CmdsIn Quiet (progOf op) := by
  have fl : CmdsIn Quiet [BAct.flush] := CmdsIn_other _ (by intro c d hh; cases hh) (by intro hh; cases hh)
  have wr : CmdsIn Quiet [BAct.waitReady] := CmdsIn_other _ (by intro c d hh; cases hh) (by intro hh; cases hh)
  cases op <;> unfold progOf
  case reset => cases hq
  case hibernate => cases hq
  case refresh => cases hq
  case brefresh => cases hq
  case refreshp w => cases hq
  case brefreshp w => cases hq
  case init c =>
    unfold initP
    refine CmdsIn_append (CmdsIn_append (CmdsIn_append (CmdsIn_append (CmdsIn_append (CmdsIn_append (CmdsIn_append (CmdsIn_append
      (CmdsIn_append (CmdsIn_append (CmdsIn_append ?_ ?_) ?_) ?_) ?_) ?_) ?_) ?_) ?_) ?_)
      (CmdsIn_setMode c (by decide) (by decide))) fl
    all_goals exact CmdsIn_cmdData _ _ _ (by decide)
  case mode c => exact CmdsIn_setMode c (by decide) (by decide)
  case d1 px => exact CmdsIn_append (CmdsIn_wwd _ _ _ (by decide)) fl
  case d2 px => exact CmdsIn_append (CmdsIn_wwd _ _ _ (by decide)) fl
  case d1p w px => exact CmdsIn_append (CmdsIn_writePartial _ _ _ (by decide) (by decide) (by decide) (by decide)) fl
  case d2p w px => exact CmdsIn_append (CmdsIn_writePartial _ _ _ (by decide) (by decide) (by decide) (by decide)) fl
  case poweroff =>
    exact CmdsIn_append (CmdsIn_cmd _ _ (by decide)) (show CmdsIn Quiet ([BAct.waitReady] ++ [BAct.flush]) from CmdsIn_append wr fl)
  case lut c n d =>
    unfold setLut
    have hc : Quiet c := by
      simp only [WfOp, List.mem_cons, List.mem_nil_iff, or_false] at hw
      rcases hw with h | h | h | h | h | h <;> (rw [h]; decide)
    refine CmdsIn_append (CmdsIn_append (CmdsIn_cmdData _ _ _ hc) ?_) fl
    split
    · intro x hx
      simp only [List.mem_singleton] at hx
      subst hx
      refine ⟨(by intro hh; cases hh), ?_⟩
      intro c' d' he hlt
      injection he with h1 h2
      subst h1
      simp only [CS_ALLm, CS_ALL, DATA, CS_DATA] at hlt
      omega
    · exact CmdsIn_nil
  case status => exact CmdsIn_other _ (by intro c d hh; cases hh) (by intro hh; cases hh)
  case busy => exact CmdsIn_other _ (by intro c d hh; cases hh) (by intro hh; cases hh)

/-! ## what quiet programs do to the chips -/

theorem okActs_append (s : Chips) (a b : List BAct) : okActs s (a ++ b) ↔ okActs s a ∧ okActs (s.run a) b := by
  induction a generalizing s with
  | nil => simp [okActs, Chips.run]
  | cons x xs ih =>
    simp only [List.cons_append, okActs, Chips.run, List.foldl_cons]
    rw [ih (s.act x)]
    simp only [Chips.run, and_assoc]

theorem run_append (s : Chips) (a b : List BAct) : s.run (a ++ b) = (s.run a).run b := by
  simp [Chips.run, List.foldl_append]

theorem cmd_ready (s : Chips) (c : Nat) (b : UInt8) (hb : b ≠ 0x07) (h : s.Ready) : (s.cmd c b).Ready := by
  intro k hk
  have := h k hk
  unfold Chips.cmd
  repeat' split
  all_goals first
    | exact this
    | simp only [this, Bool.or_true, and_self]
    | contradiction

theorem cmd_awake (s : Chips) (c : Nat) (b : UInt8) (hb : b ≠ 0x07) (h : s.Awake) : (s.cmd c b).Awake := by
  intro k hk
  have := h k hk
  unfold Chips.cmd
  repeat' split
  all_goals first
    | exact this
    | contradiction

theorem foldl_cmd_inv (P : UInt8 → Prop) (I : Chips → Prop) (c : Nat) (step : ∀ s b, P b → I s → I (s.cmd c b)) :
    ∀ (d : Bytes) (s : Chips), (∀ b, b ∈ d → P b) → I s → I (d.foldl (fun s b => s.cmd c b) s) := by
  intro d
  induction d with
  | nil => intro s _ h; exact h
  | cons x xs ih =>
    intro s hd h
    exact ih _ (fun b hb => hd b (List.mem_cons_of_mem _ hb)) (step s x (hd x List.mem_cons_self) h)

theorem act_inv (P : UInt8 → Prop) (I : Chips → Prop) (step : ∀ s c b, P b → I s → I (s.cmd c b)) (s : Chips) (a : BAct)
    (hr : a ≠ .resetSeq) (hs : ∀ c d, a = BAct.sw c d → c < 16 → ∀ b, b ∈ d → P b) (h : I s) : I (s.act a) := by
  cases a with
  | sw c d =>
    simp only [Chips.act]
    split
    · next hc => exact foldl_cmd_inv P I c (fun s b => step s c b) d s (hs c d rfl hc) h
    · exact h
  | resetSeq => exact absurd rfl hr
  | _ => exact h

/-- an invariant of the opcodes in `P` is an invariant of every reset-free program made of them -/
theorem run_inv (P : UInt8 → Prop) (I : Chips → Prop) (step : ∀ s c b, P b → I s → I (s.cmd c b)) :
    ∀ (acts : List BAct) (s : Chips), CmdsIn P acts → I s → I (s.run acts) := by
  intro acts
  induction acts with
  | nil => intro s _ h; exact h
  | cons a r ih =>
    intro s hc h
    simp only [Chips.run, List.foldl_cons]
    exact ih _ (fun x hx => hc x (List.mem_cons_of_mem _ hx))
      (act_inv P I step s a (hc a List.mem_cons_self).1 (hc a List.mem_cons_self).2 h)

theorem run_ready (acts : List BAct) (s : Chips) (hc : CmdsIn (· ≠ 0x07) acts) (h : s.Ready) : (s.run acts).Ready :=
  run_inv (· ≠ 0x07) Chips.Ready (fun s c b hb h => cmd_ready s c b hb h) acts s hc h

theorem run_awake (acts : List BAct) (s : Chips) (hc : CmdsIn (· ≠ 0x07) acts) (h : s.Awake) : (s.run acts).Awake :=
  run_inv (· ≠ 0x07) Chips.Awake (fun s c b hb h => cmd_awake s c b hb h) acts s hc h

def Chips.Powered (s : Chips) : Prop := ∀ k, k < 4 → s.powered k = true

theorem cmd_powered (s : Chips) (c : Nat) (b : UInt8) (hb : b ≠ 0x07 ∧ b ≠ 0x02 ∧ b ≠ 0x12) (h : s.Powered) : (s.cmd c b).Powered := by
  intro k hk
  have := h k hk
  have h7 := hb.1
  have h2 := hb.2.1
  unfold Chips.cmd
  repeat' split
  all_goals first
    | exact this
    | simp only [this, Bool.or_true]
    | contradiction

/-- a program without a refresh trigger is fine in every state -/
theorem okActs_noTrig : ∀ (acts : List BAct) (s : Chips), (∀ a, a ∈ acts → ∀ c d, a = BAct.sw c d → c < 16 → ∀ b, b ∈ d → b ≠ 0x12) →
    okActs s acts := by
  intro acts
  induction acts with
  | nil => intro _ _; trivial
  | cons a r ih =>
    intro s hc
    refine ⟨?_, ih _ (fun x hx => hc x (List.mem_cons_of_mem _ hx))⟩
    intro c d he hlt hm
    exact absurd rfl (hc a List.mem_cons_self c d he hlt 0x12 hm)

theorem quiet_ok (acts : List BAct) (s : Chips) (h : CmdsIn Quiet acts) : okActs s acts :=
  okActs_noTrig acts s (fun a ha c d he hc b hb => ((h a ha).2 c d he hc b hb).1)

theorem quiet_no07 {acts : List BAct} (h : CmdsIn Quiet acts) : CmdsIn (· ≠ 0x07) acts :=
  CmdsIn_mono (fun _ hb => hb.2) h

/-! ## the non-quiet programs -/

theorem sel_all (k : Nat) (hk : k < 4) : sel CS_ALLm k = true := by
  have : k = 0 ∨ k = 1 ∨ k = 2 ∨ k = 3 := by omega
  rcases this with h | h | h | h <;> (subst h; decide)

/-- PowerOn to all four, anything that neither powers off nor sleeps, then the trigger to all four:
    fine from every Ready state -/
theorem refresh_core (s : Chips) (h : s.Ready) (mid : List BAct) (hmid : CmdsIn (fun b => b ≠ 0x07 ∧ b ≠ 0x02 ∧ b ≠ 0x12) mid) :
    okActs s (Big.cmd CS_ALLm Command.PowerOn ++ mid ++ Big.cmd CS_ALLm Command.DisplayRefresh) := by
  rw [okActs_append, okActs_append]
  have hP : (s.run (Big.cmd CS_ALLm Command.PowerOn)).Powered := by
    intro k hk
    have hr := h k hk
    have hs := sel_all k hk
    simp only [CS_ALLm, CS_ALL] at hs
    simp [Big.cmd, Chips.run, Chips.act, CS_ALLm, CS_ALL, Chips.cmd, Command.PowerOn, hs, hr.2.2]
  have hR : (s.run (Big.cmd CS_ALLm Command.PowerOn)).Ready :=
    run_ready _ s (CmdsIn_cmd _ _ (by decide)) h
  have hP' := run_inv _ Chips.Powered (fun t c b hb ht => cmd_powered t c b hb ht) mid _ hmid hP
  have hR' := run_ready mid _ (CmdsIn_mono (fun _ hb => hb.1) hmid) hR
  refine ⟨⟨?_, ?_⟩, ?_⟩
  · refine ⟨?_, trivial⟩
    intro c d he _ hm
    injection he with h1 h2
    subst h2
    rw [List.mem_singleton] at hm
    exact absurd hm (by decide)
  · exact okActs_noTrig _ _ (fun a ha c d he hc b hb => ((hmid a ha).2 c d he hc b hb).2.2)
  · rw [run_append]
    refine ⟨?_, trivial⟩
    intro c d he _ _ k hk _
    exact ⟨(hR' k hk).1, (hR' k hk).2.1, hP' k hk, (hR' k hk).2.2⟩

theorem mid_wait : CmdsIn (fun b => b ≠ 0x07 ∧ b ≠ 0x02 ∧ b ≠ 0x12) [BAct.waitReady, BAct.delayMs 100] := by
  intro x hx
  simp only [List.mem_cons, List.mem_nil_iff, or_false] at hx
  rcases hx with h | h <;> (rw [h]; exact ⟨(by intro hh; cases hh), fun c d he => by cases he⟩)

/-- `begin_refresh_display` from a Ready state -/
theorem beginRefresh_ok (s : Chips) (h : s.Ready) : okActs s beginRefresh := by
  unfold beginRefresh
  rw [okActs_append]
  refine ⟨refresh_core s h _ mid_wait, ?_⟩
  exact okActs_noTrig _ _ (fun a ha c d he => by
    simp only [List.mem_singleton] at ha; subst ha; cases he)

/-- `begin_refresh_display_partial` from a Ready state, any window -/
theorem beginRefreshPartial_ok (s : Chips) (h : s.Ready) (w : Rect) : okActs s (beginRefreshPartial w) := by
  unfold beginRefreshPartial
  have hsetup : CmdsIn Quiet (setupPartialWindows w) := CmdsIn_setup w (by decide)
  have e : setupPartialWindows w ++ Big.cmd CS_ALLm Command.PowerOn ++ [BAct.waitReady, BAct.delayMs 100] ++
      Big.cmd CS_ALLm Command.PartialIn ++ Big.cmd CS_ALLm Command.DisplayRefresh ++ Big.cmd CS_ALLm Command.PartialOut ++ [BAct.flush]
      = setupPartialWindows w ++ ((Big.cmd CS_ALLm Command.PowerOn ++ ([BAct.waitReady, BAct.delayMs 100] ++
      Big.cmd CS_ALLm Command.PartialIn) ++ Big.cmd CS_ALLm Command.DisplayRefresh) ++ (Big.cmd CS_ALLm Command.PartialOut ++ [BAct.flush])) := by
    simp only [List.append_assoc]
  rw [e, okActs_append, okActs_append]
  refine ⟨quiet_ok _ s hsetup, ?_, ?_⟩
  · exact refresh_core _ (run_ready _ s (quiet_no07 hsetup) h) _ (CmdsIn_append mid_wait (CmdsIn_cmd _ _ (by decide)))
  · exact okActs_noTrig _ _ (fun a ha c d he hc b hb => by
      simp only [Big.cmd, List.cons_append, List.nil_append, List.mem_cons, List.mem_nil_iff, or_false] at ha
      rcases ha with ha | ha
      · subst ha
        injection he with h1 h2
        subst h2
        rw [List.mem_singleton] at hb
        rw [hb]; decide
      · subst ha; cases he)

/-- the refresh programs never contain a deep-sleep command or a reset -/
theorem refresh_no07 (op : PubOp) (h : isRefresh op = true) : CmdsIn (· ≠ 0x07) (progOf op) := by
  have fl : CmdsIn (· ≠ (0x07 : UInt8)) [BAct.flush] := CmdsIn_other _ (by intro c d hh; cases hh) (by intro hh; cases hh)
  have wr : CmdsIn (· ≠ (0x07 : UInt8)) [BAct.waitReady] := CmdsIn_other _ (by intro c d hh; cases hh) (by intro hh; cases hh)
  have mw : CmdsIn (· ≠ (0x07 : UInt8)) [BAct.waitReady, BAct.delayMs 100] := CmdsIn_mono (fun _ hb => hb.1) mid_wait
  have br : CmdsIn (· ≠ (0x07 : UInt8)) beginRefresh := by
    unfold beginRefresh
    exact CmdsIn_append (CmdsIn_append (CmdsIn_append (CmdsIn_cmd _ _ (by decide)) mw) (CmdsIn_cmd _ _ (by decide))) fl
  have brp : ∀ w, CmdsIn (· ≠ (0x07 : UInt8)) (beginRefreshPartial w) := by
    intro w
    unfold beginRefreshPartial
    exact CmdsIn_append (CmdsIn_append (CmdsIn_append (CmdsIn_append (CmdsIn_append (CmdsIn_append
      (CmdsIn_setup w (by decide)) (CmdsIn_cmd _ _ (by decide))) mw) (CmdsIn_cmd _ _ (by decide)))
      (CmdsIn_cmd _ _ (by decide))) (CmdsIn_cmd _ _ (by decide))) fl
  cases op <;> simp only [isRefresh] at h <;> unfold progOf
  case refresh => exact CmdsIn_append br wr
  case brefresh => exact br
  case refreshp w => exact CmdsIn_append (brp w) wr
  case brefreshp w => exact brp w
  all_goals cases h

/-- `init` from four awake chips leaves all four initialised -/
theorem init_ready (s : Chips) (h : s.Awake) (c : Cfg) : (s.run (initP c)).Ready := by
  intro k hk
  have hk' : k = 0 ∨ k = 1 ∨ k = 2 ∨ k = 3 := by omega
  have h0 := h 0 (by decide); have h1 := h 1 (by decide); have h2 := h 2 (by decide); have h3 := h 3 (by decide)
  rcases hk' with e | e | e | e <;> subst e <;>
    simp [initP, setMode, Big.cmdData, Chips.run, Chips.act, Chips.cmd, sel, CS_ALLm, CS_ALL, CS_M1, CS_S1, CS_M2, CS_S2,
      DATA, CS_DATA, Command.BoosterSoftStart, Command.TconResolution, Command.DualSPI, Command.TconSetting,
      Command.PowerSaving, Command.CascadeSetting, Command.ForceTemperature, Command.PanelSetting,
      Command.VcomAndDataIntervalSetting, h0, h1, h2, h3]

/-! ## the history theorem -/

/-- what the host knows is true of the chips -/
def Rel (h : Host) (s : Chips) : Prop :=
  (h = .ready → s.Ready) ∧ (h = .fresh → s.Awake)

theorem blank_awake : Chips.blank.Awake := fun _ _ => rfl

theorem ready_awake {s : Chips} (h : s.Ready) : s.Awake := fun k hk => (h k hk).2.2

theorem hibernate_ok (s : Chips) : okActs s (progOf .hibernate) := by
  unfold progOf
  refine okActs_noTrig _ _ ?_
  intro a ha c d he hc b hb
  simp only [Big.cmd, Big.cmdData, List.cons_append, List.nil_append, List.mem_cons, List.mem_nil_iff, or_false] at ha
  rcases ha with ha | ha | ha | ha | ha <;> subst ha
  · injection he with h1 h2; subst h2; rw [List.mem_singleton] at hb; rw [hb]; decide
  · cases he
  · injection he with h1 h2; subst h2; rw [List.mem_singleton] at hb; rw [hb]; decide
  · injection he with h1 h2; subst h1; simp only [CS_ALLm, CS_ALL, DATA, CS_DATA] at hc; omega
  · cases he

theorem rel_none (h : Host) (s : Chips) (h1 : h ≠ .ready) (h2 : h ≠ .fresh) : Rel h s :=
  ⟨fun hh => absurd hh h1, fun hh => absurd hh h2⟩

theorem rel_ready (s : Chips) (hs : s.Ready) : Rel .ready s :=
  ⟨fun _ => hs, fun hh => (by cases hh)⟩

theorem rel_fresh (s : Chips) (hs : s.Awake) : Rel .fresh s :=
  ⟨fun hh => (by cases hh), fun _ => hs⟩

/-- a program without reset and deep sleep keeps what the host knows true -/
theorem rel_keep (h : Host) (s : Chips) (acts : List BAct) (hc : CmdsIn (· ≠ 0x07) acts) (hrel : Rel h s) :
    Rel h (s.run acts) :=
  ⟨fun hh => run_ready _ s hc (hrel.1 hh), fun hh => run_awake _ s hc (hrel.2 hh)⟩

theorem next_quiet (h : Host) (op : PubOp) (hq : quietOp op = true) (hi : ∀ c, op ≠ .init c) : h.next op = h := by
  cases op <;> first
    | exact absurd rfl (hi _)
    | (cases h <;> rfl)
    | cases hq

/-- one call: fine, and what the host knows stays true -/
theorem step_ok (h : Host) (s : Chips) (op : PubOp) (hw : WfOp op) (hrel : Rel h s)
    (hresp : isRefresh op = true → h = .ready) :
    okActs s (progOf op) ∧ Rel (h.next op) (s.run (progOf op)) := by
  by_cases hq : quietOp op = true
  · have hQ := prog_quiet op hq hw
    refine ⟨quiet_ok _ s hQ, ?_⟩
    by_cases hi : ∃ c, op = .init c
    · obtain ⟨c, rfl⟩ := hi
      cases h
      case fresh => exact rel_ready _ (init_ready s (hrel.2 rfl) c)
      case ready => exact rel_keep _ s _ (quiet_no07 hQ) hrel
      case unknown => exact rel_none _ _ (by intro hh; cases hh) (by intro hh; cases hh)
      case asleep => exact rel_none _ _ (by intro hh; cases hh) (by intro hh; cases hh)
    · rw [next_quiet h op hq (fun c hc => hi ⟨c, hc⟩)]
      exact rel_keep _ s _ (quiet_no07 hQ) hrel
  · cases op
    case reset =>
      refine ⟨⟨fun c d he => (by cases he), trivial⟩, ?_⟩
      exact rel_fresh _ blank_awake
    case hibernate =>
      refine ⟨hibernate_ok s, ?_⟩
      cases h <;> exact rel_none _ _ (by intro hh; cases hh) (by intro hh; cases hh)
    case refresh =>
      have hr := hresp rfl; subst hr
      have hR := hrel.1 rfl
      refine ⟨?_, rel_keep _ s _ (refresh_no07 .refresh rfl) hrel⟩
      unfold progOf
      rw [okActs_append]
      exact ⟨beginRefresh_ok s hR, ⟨fun c d he => (by cases he), trivial⟩⟩
    case brefresh =>
      have hr := hresp rfl; subst hr
      exact ⟨beginRefresh_ok s (hrel.1 rfl), rel_keep _ s _ (refresh_no07 .brefresh rfl) hrel⟩
    case refreshp w =>
      have hr := hresp rfl; subst hr
      have hR := hrel.1 rfl
      refine ⟨?_, rel_keep _ s _ (refresh_no07 (.refreshp w) rfl) hrel⟩
      unfold progOf
      rw [okActs_append]
      exact ⟨beginRefreshPartial_ok s hR w, ⟨fun c d he => (by cases he), trivial⟩⟩
    case brefreshp w =>
      have hr := hresp rfl; subst hr
      exact ⟨beginRefreshPartial_ok s (hrel.1 rfl) w, rel_keep _ s _ (refresh_no07 (.brefreshp w) rfl) hrel⟩
    all_goals exact absurd rfl hq

/-- **C09, 12.48in driver.**  Every protocol-respecting history of public calls, with any
    arguments, from ANY state of the four chips that is consistent with what the host knows:
    every refresh trigger reaches only initialised, powered, awake chips. -/
theorem big_refresh_ready_from (ops : List PubOp) : ∀ (h : Host) (s : Chips), (∀ op, op ∈ ops → WfOp op) → Rel h s →
    Respects h ops → okActs s (ops.flatMap progOf) := by
  induction ops with
  | nil => intro _ _ _ _ _; trivial
  | cons op r ih =>
    intro h s hw hrel hresp
    simp only [List.flatMap_cons]
    rw [okActs_append]
    have st := step_ok h s op (hw op List.mem_cons_self) hrel hresp.1
    exact ⟨st.1, ih _ _ (fun o ho => hw o (List.mem_cons_of_mem _ ho)) st.2 hresp.2⟩

/-- … in particular from a panel about which nothing is known (any chip state at all) -/
theorem big_refresh_ready (ops : List PubOp) (s : Chips) (hw : ∀ op, op ∈ ops → WfOp op)
    (hresp : Respects .unknown ops) : okActs s (ops.flatMap progOf) :=
  big_refresh_ready_from ops .unknown s hw (rel_none _ _ (by intro hh; cases hh) (by intro hh; cases hh)) hresp

/-- the refresh programs power all four chips on before the trigger whatever the power state was:
    after `PowerOn` to `CS_ALL` every awake chip is powered -/
theorem big_refresh_powers_itself (s : Chips) (k : Nat) (hk : k < 4) (ha : s.asleep k = false) :
    ((s.run (Big.cmd CS_ALLm Command.PowerOn)).powered k) = true := by
  have hs := sel_all k hk
  simp only [CS_ALLm, CS_ALL] at hs
  simp [Big.cmd, Chips.run, Chips.act, CS_ALLm, CS_ALL, Chips.cmd, Command.PowerOn, hs, ha]

/-! ## non-vacuity and sensitivity -/

/-- the usual session respects the protocol … -/
example : Respects .unknown [.reset, .init ⟨false, false, 0, false⟩, .d1 [0], .refresh, .poweroff, .refresh,
    .hibernate, .reset, .init ⟨true, false, 1, false⟩, .refreshp ⟨0, 0, 8, 8⟩] := by
  simp [Respects, Host.next, isRefresh]

/-- … a refresh right after `hibernate; init` (no reset) does not, and indeed fails on the chips -/
example : ¬ Respects .unknown [.reset, .init ⟨false, false, 0, false⟩, .hibernate, .init ⟨false, false, 0, false⟩, .refresh] := by
  simp [Respects, Host.next, isRefresh]

/-- `hibernate; init; begin_refresh` from blank chips: the trigger reaches sleeping chips -/
example : ¬ okActs Chips.blank ([PubOp.hibernate, .init ⟨false, false, 0, false⟩, .brefresh].flatMap progOf) := by
  intro h
  simp only [List.flatMap_cons, List.flatMap_nil, List.append_nil] at h
  rw [okActs_append, okActs_append] at h
  have h3 := h.2.2
  simp only [progOf, beginRefresh, Big.cmd, List.cons_append, List.nil_append, okActs] at h3
  have := (h3.2.2.2.1 _ _ rfl (by decide) (by decide)) 0 (by decide) (by decide)
  revert this
  simp [progOf, initP, setMode, Big.cmd, Big.cmdData, Chips.run, Chips.act, Chips.cmd, Chips.blank, sel, CS_ALLm, CS_ALL, CS_M1, CS_S1, CS_M2, CS_S2,
      DATA, CS_DATA, Command.BoosterSoftStart, Command.TconResolution, Command.DualSPI, Command.TconSetting,
      Command.PowerSaving, Command.CascadeSetting, Command.ForceTemperature, Command.PanelSetting,
      Command.VcomAndDataIntervalSetting, Command.PowerOff, Command.DeepSleep, Command.PowerOn]

end EpdVerif.Props.C09
