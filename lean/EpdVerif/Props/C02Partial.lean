import EpdVerif.Props.C02Mode
import EpdVerif.Props.C06Win
import EpdVerif.Props.Panels.Epd4in2
import EpdVerif.Props.E2EA.Epd4in2_1
import EpdVerif.Props.E2EA.Epd4in2_2
/-!
# C02 (session 4): partial updates inside the history, and the composition for one panel

`Props/C02Mode.history_ready` needs a `keepsModeP` fact per program of the history; the generated
instances (`Props/Panels`, namespace `C02`) could not cover the partial-update calls because their
programs carry assertions on symbolic windows.  With the block lists of `Props/C06Win` (assertions
discharged from `0 < w`, `0 < h`) those facts are now theorems for EVERY window and buffer:
epd4in2 (`part`, `pclear`), epd7in5b_v2 (`part2`), epd2in7 (`part`), epd2in9b_v4 (`part`; keeps the
MODE — its window is what the listed C02 finding is about).
`epd4in2_any_history_then_update` composes `history_ready` with the eight `E2EA` instances of
`update_frame` (one per combination of driver fields) into ONE statement: any history, any driver
state, any buffer.
-/
namespace EpdVerif.Props.C02
open EpdVerif

/-! the partial-update calls keep the controller ready for a full-frame update — for EVERY window and
    buffer (their assertions are discharged from `0 < w`, `0 < h`), so `history_ready` also covers
    histories that contain them -/

theorem epd4in2_part_keeps_mode (f : Feat) (d : DState) (b : Bytes) (x y w h : Nat) (hw0 : 0 < w) (hh0 : 0 < h) :
    keepsModeP (Drivers.Epd4in2.panel f) ((Drivers.Epd4in2.prog f d (.part b x y w h)).getD []) = true := by
  unfold keepsModeP
  rw [C06.epd4in2_part_blocks f d b x y w h hw0 hh0]
  kernel_rfl

theorem epd4in2_pclear_keeps_mode (f : Feat) (d : DState) (x y w h : Nat) (hw0 : 0 < w) (hh0 : 0 < h) :
    keepsModeP (Drivers.Epd4in2.panel f) ((Drivers.Epd4in2.prog f d (.pclear x y w h)).getD []) = true := by
  unfold keepsModeP
  rw [C06.epd4in2_pclear_blocks f d x y w h hw0 hh0]
  kernel_rfl

theorem epd7in5b_v2_part2_keeps_mode (f : Feat) (d : DState) (b : Bytes) (x y w h : Nat) (hw0 : 8 ≤ w) (hh0 : 0 < h) :
    keepsModeP (Drivers.Epd7in5b_v2.panel f) ((Drivers.Epd7in5b_v2.prog f d (.part2 b x y w h)).getD []) = true := by
  unfold keepsModeP
  rw [C06.epd7in5b_v2_part2_blocks f d b x y w h hw0 hh0]
  kernel_rfl

theorem epd2in7_part_keeps_mode (f : Feat) (d : DState) (b : Bytes) (x y w h : Nat) :
    keepsModeP (Drivers.Epd2in7.panel f) ((Drivers.Epd2in7.prog f d (.part b x y w h)).getD []) = true := by
  unfold keepsModeP
  rw [C06.epd2in7_part_blocks f d b x y w h]
  kernel_rfl

theorem epd2in9b_v4_part_keeps_mode (f : Feat) (d : DState) (b : Bytes) (x y w h : Nat)
    (hx : x % 8 = 0) (hw : w % 8 = 0) (hw0 : 0 < w) (hh0 : 0 < h) :
    keepsModeP (Drivers.Epd2in9b_v4.panel f) ((Drivers.Epd2in9b_v4.prog f d (.part b x y w h)).getD []) = true := by
  unfold keepsModeP
  rw [C06.epd2in9b_v4_part_blocks f d b x y w h hx hw hw0 hh0]
  kernel_rfl

theorem uc_run (bs : List Blk) : ∀ (u : Uc), (Ctrl.uc u).run bs = .uc (bs.foldl Uc.feed u) := by
  induction bs with
  | nil => intro u; rfl
  | cons b bs ih => intro u; simp only [Ctrl.run, List.foldl_cons, Ctrl.feed] at ih ⊢; exact ih _

/-- a history of programs run on a UC81xx controller stays a UC81xx controller; its planes keep their size -/
theorem uc_history (progs : List (List Act)) : ∀ (u : Uc), ∃ u' : Uc,
    progs.foldl (fun c a => c.run (blocksOf a)) (Ctrl.uc u) = .uc u' ∧ u'.p2.size = u.p2.size ∧ u'.p1.size = u.p1.size := by
  induction progs with
  | nil => intro u; exact ⟨u, rfl, rfl, rfl⟩
  | cons a r ih =>
    intro u
    simp only [List.foldl_cons, uc_run]
    obtain ⟨u', h1, h2, h3⟩ := ih ((blocksOf a).foldl Uc.feed u)
    have sz := Uc.run_sizes (blocksOf a) u
    exact ⟨u', h1, by rw [h2, sz.2], by rw [h3, sz.1]⟩

/-- **C02 for epd4in2, composed: ANY history, then `update_frame`.**  Start: any awake epd4in2-kind
    controller outside partial mode (e.g. the state after `new`).  History: any list, of any length, of
    programs that each keep or establish the mode — every operation instance `C02.epd4in2_*_keeps_mode`
    of `Props/Panels` (all feature flags, driver states, buffers, colours) and, since session 4, the
    partial-update calls for EVERY window (`epd4in2_part_keeps_mode`, `epd4in2_pclear_keeps_mode`).
    Then for EVERY driver state and EVERY buffer of the frame's size the new-image plane after
    `update_frame` IS the buffer — whatever the history wrote, programmed or left behind. -/
theorem epd4in2_any_history_then_update (progs : List (List Act)) (u : Uc)
    (ha : u.asleep = false) (hp : u.partialOn = false) (h14 : u.has14 = false) (hsz : u.p2.size = 15000)
    (h : ∀ a, a ∈ progs → keepsModeP (Drivers.Epd4in2.panel {}) a = true ∨ establishesModeP (Drivers.Epd4in2.panel {}) a = true)
    (d : DState) (b0 : Bytes) (h0 : b0.length = 15000) :
    ∃ u' : Uc, progs.foldl (fun c a => c.run (blocksOf a)) (Ctrl.uc u) = .uc u' ∧
      (Uc.planeU 1 ((blocksOf (((Drivers.Epd4in2.panel {}).prog d (.upd b0)).getD [.panic])).foldl Uc.feed u')).toList = b0 := by
  obtain ⟨u', e, s2, _⟩ := uc_history progs u
  refine ⟨u', e, ?_⟩
  have hr := history_ready (Drivers.Epd4in2.panel {}) progs (.uc u) (by show u.has14 = _; rw [h14]; rfl)
    (by show (Uc.flags u).good = true; simp only [Uc.flags, ha, hp, h14]; rfl) h
  rw [e] at hr
  have g : (Uc.flags u').good = true := hr.1
  have l : u'.has14 = false := hr.2
  have ha' : u'.asleep = false := by
    have := g; simp only [Uc.flags, Uc.Flags.good] at this; revert this; cases u'.asleep <;> simp
  have hp' : u'.partialOn = false := by
    have := g; simp only [Uc.flags, Uc.Flags.good] at this; revert this; cases u'.asleep <;> cases u'.partialOn <;> simp
  have hs' : (Uc.planeU 1 u').size = 15000 := by show u'.p2.size = _; rw [s2, hsz]
  rcases d with ⟨bg, refresh, isOn, pf, sm, od⟩
  cases refresh <;> cases isOn <;> cases pf
  · exact (E2EA.Epd4in2_1.epd4in2_upd_from_any_state_full_off_nopf_plane1 u' ha' hp' l hs' bg sm od b0 h0).2
  · exact (E2EA.Epd4in2_1.epd4in2_upd_from_any_state_full_off_pf_plane1 u' ha' hp' l hs' bg sm od b0 h0).2
  · exact (E2EA.Epd4in2_1.epd4in2_upd_from_any_state_full_on_nopf_plane1 u' ha' hp' l hs' bg sm od b0 h0).2
  · exact (E2EA.Epd4in2_1.epd4in2_upd_from_any_state_full_on_pf_plane1 u' ha' hp' l hs' bg sm od b0 h0).2
  · exact (E2EA.Epd4in2_1.epd4in2_upd_from_any_state_quick_off_nopf_plane1 u' ha' hp' l hs' bg sm od b0 h0).2
  · exact (E2EA.Epd4in2_2.epd4in2_upd_from_any_state_quick_off_pf_plane1 u' ha' hp' l hs' bg sm od b0 h0).2
  · exact (E2EA.Epd4in2_2.epd4in2_upd_from_any_state_quick_on_nopf_plane1 u' ha' hp' l hs' bg sm od b0 h0).2
  · exact (E2EA.Epd4in2_2.epd4in2_upd_from_any_state_quick_on_pf_plane1 u' ha' hp' l hs' bg sm od b0 h0).2
theorem ssd_run (bs : List Blk) : ∀ (s : Ssd), (Ctrl.ssd s).run bs = .ssd (bs.foldl Ssd.feed s) := by
  induction bs with
  | nil => intro s; rfl
  | cons b bs ih => intro s; simp only [Ctrl.run, List.foldl_cons, Ctrl.feed] at ih ⊢; exact ih _

theorem ssd_history (progs : List (List Act)) : ∀ (s : Ssd), Ssd.WfSize s → ∃ s' : Ssd,
    progs.foldl (fun c a => c.run (blocksOf a)) (Ctrl.ssd s) = .ssd s' ∧ Ssd.WfSize s' := by
  induction progs with
  | nil => intro s hw; exact ⟨s, rfl, hw⟩
  | cons a r ih =>
    intro s hw
    simp only [List.foldl_cons, ssd_run]
    exact ih _ (Ssd.run_wf (blocksOf a) s hw)

theorem ssd_ready_facts (s : Ssd) (h : ready (.ssd s) = true) : s.asleep = false ∧ s.entry = 3 := by
  have : (Ssd.mode s).good = true := h
  have e1 : (Ssd.mode s).asleep = s.asleep := rfl
  have e2 : (Ssd.mode s).entry = s.entry := rfl
  simp only [Ssd.Mode.good, e1, e2, Bool.and_eq_true, Bool.not_eq_true', beq_iff_eq] at this
  exact this

/-- a program that establishes the mode (construction, wake_up) brings ANY controller of the panel's
    kind — asleep or not, in partial mode or not, whatever a failed or interrupted call left — to a ready one -/
theorem uc_recover (p : Panel) (u0 : Uc) (hp : p.ctrl = .uc u0) (first : List Act) (hf : establishesModeP p first = true)
    (u : Uc) (h14 : u.has14 = u0.has14) :
    ∃ u1 : Uc, (Ctrl.uc u).run (blocksOf first) = .uc u1 ∧ u1.asleep = false ∧ u1.partialOn = false ∧
      u1.has14 = u0.has14 ∧ u1.p1.size = u.p1.size ∧ u1.p2.size = u.p2.size := by
  have hl : Like p.ctrl (.uc u) := by rw [hp]; exact h14
  have hr := op_establishes_ready p first (.uc u) hl hf
  have hl' := run_like p.ctrl (.uc u) (blocksOf first) hl
  rw [uc_run] at hr hl' ⊢
  refine ⟨_, rfl, ?_, ?_, ?_, (Uc.run_sizes _ u).1, (Uc.run_sizes _ u).2⟩
  · have g : (Uc.flags ((blocksOf first).foldl Uc.feed u)).good = true := hr
    simp only [Uc.flags, Uc.Flags.good] at g; revert g; cases ((blocksOf first).foldl Uc.feed u).asleep <;> simp
  · have g : (Uc.flags ((blocksOf first).foldl Uc.feed u)).good = true := hr
    simp only [Uc.flags, Uc.Flags.good] at g; revert g
    cases ((blocksOf first).foldl Uc.feed u).asleep <;> cases ((blocksOf first).foldl Uc.feed u).partialOn <;> simp
  · rw [hp] at hl'; exact hl'

theorem ssd_recover (p : Panel) (s0 : Ssd) (hp : p.ctrl = .ssd s0) (first : List Act) (hf : establishesModeP p first = true)
    (s : Ssd) (hw : Ssd.WfSize s) (hx : s.xPix = s0.xPix) (hs : s.stride = s0.stride) (hr : s.rows = s0.rows) :
    ∃ s1 : Ssd, (Ctrl.ssd s).run (blocksOf first) = .ssd s1 ∧ Ssd.WfSize s1 ∧ s1.asleep = false ∧ s1.entry = 3 ∧
      s1.xPix = s0.xPix ∧ s1.stride = s0.stride ∧ s1.rows = s0.rows := by
  have hl : Like p.ctrl (.ssd s) := by rw [hp]; exact ⟨hx, hs, hr⟩
  have hrd := op_establishes_ready p first (.ssd s) hl hf
  have hl' := run_like p.ctrl (.ssd s) (blocksOf first) hl
  rw [ssd_run] at hrd hl' ⊢
  obtain ⟨a, e⟩ := ssd_ready_facts _ hrd
  rw [hp] at hl'
  exact ⟨_, rfl, Ssd.run_wf _ s hw, a, e, hl'.1, hl'.2.1, hl'.2.2⟩
/-- non-vacuity: construction, a partial update of an interior window, a display, a windowed clear — a
    history the hypothesis of `epd4in2_any_history_then_update` accepts (for every buffer and driver state) -/
example (d : DState) (b : Bytes) : ∀ a, a ∈ [((Drivers.Epd4in2.prog {} d .new).getD []),
      ((Drivers.Epd4in2.prog {} d (.part b 136 40 64 10)).getD []), ((Drivers.Epd4in2.prog {} d .disp).getD []),
      ((Drivers.Epd4in2.prog {} d (.pclear 0 0 400 300)).getD [])] →
    keepsModeP (Drivers.Epd4in2.panel {}) a = true ∨ establishesModeP (Drivers.Epd4in2.panel {}) a = true := by
  intro a ha
  simp only [List.mem_cons, List.not_mem_nil, or_false] at ha
  rcases ha with rfl | rfl | rfl | rfl
  · exact Or.inr (epd4in2_new_establishes_mode {} d)
  · exact Or.inl (epd4in2_part_keeps_mode {} d b 136 40 64 10 (by omega) (by omega))
  · exact Or.inl (epd4in2_disp_keeps_mode {} d)
  · exact Or.inl (epd4in2_pclear_keeps_mode {} d 0 0 400 300 (by omega) (by omega))

end EpdVerif.Props.C02
