import EpdVerif.Props.C09Big
/-!
# C02 / C08 on the 12.48in driver — no call leaves a controller in partial mode

About the model of `src/epd12in48b_v2/mod.rs` in `EpdVerif/Big.lean` (tied to the source by the
correspondence runs of `./vcheck C02` / `C08`, which contain that driver).  The driver object
keeps no image-related state (its only field besides the peripherals is the cached control word,
`released_always` in `Props/C15`), and the program of a public call does not depend on any
earlier call (`progOf` is a function of the call's own arguments).  What a history CAN leave behind
is controller state; the one piece that decides where image data lands is partial mode
(PartialIn 0x91 … PartialOut 0x92).  With `Chips` of `Props/C09Big` extended by that flag:

* `prog_no_partial_in` — only the four partial calls ever send PartialIn;
* `partial_call_leaves_off` — each of them, for EVERY window and buffer, ends with every chip out
  of partial mode, whatever the state before (the last partial-mode command is PartialOut to all
  four);
* **`big_history_leaves_partial_off`** — after EVERY history of public calls (any arguments), from
  any state in which the chips are out of partial mode (e.g. after `reset()`), every chip is out
  of partial mode; so a full-frame write (`write_data1/2`, whose own program sends no PartialIn:
  `full_frame_no_partial_in`) always finds the chips addressing their whole plane, and with
  `write_full_on_bus` (`Props/C15`: on every released bus the four data streams are the tiling of
  the buffer) the planes after it are the same whatever the history was.

(`Chips.run` looks at the whole flattened program, also past a panic, hang or bus error; a call
that is aborted between PartialIn and PartialOut is C04's subject: `reset()` clears the mode.)
-/
namespace EpdVerif.Props.C02
open EpdVerif EpdVerif.Big EpdVerif.Gen.Epd12in48b_v2 EpdVerif.Props.C09

def Chips.PartialOff (s : Chips) : Prop := ∀ k, k < 4 → s.partialOn k = false

def isPartialCall : PubOp → Bool
  | .d1p _ _ => true | .d2p _ _ => true | .refreshp _ => true | .brefreshp _ => true | _ => false

theorem cmd_partialOff (s : Chips) (c : Nat) (b : UInt8) (hb : b ≠ 0x91) (h : Chips.PartialOff s) :
    Chips.PartialOff (s.cmd c b) := by
  intro k hk
  have := h k hk
  unfold Chips.cmd
  repeat' split
  all_goals first
    | exact this
    | simp only [this, Bool.and_false]
    | contradiction

/-- a reset-free program without PartialIn keeps every chip out of partial mode -/
theorem run_partialOff (acts : List BAct) (s : Chips) (hc : CmdsIn (· ≠ 0x91) acts) (h : Chips.PartialOff s) :
    Chips.PartialOff (s.run acts) :=
  run_inv (· ≠ 0x91) Chips.PartialOff (fun s c b hb h => cmd_partialOff s c b hb h) acts s hc h

/-- PartialOut to all four chips: out of partial mode from ANY state -/
theorem partialOut_all (s : Chips) : Chips.PartialOff (s.run (Big.cmd CS_ALLm Command.PartialOut)) := by
  intro k hk
  have hs := sel_all k hk
  simp only [CS_ALLm, CS_ALL] at hs
  simp [Big.cmd, Chips.run, Chips.act, CS_ALLm, CS_ALL, Chips.cmd, Command.PartialOut, hs]

/-- anything, then PartialOut to all, then a tail without PartialIn -/
theorem ends_off (s : Chips) (pre tail : List BAct) (ht : CmdsIn (· ≠ 0x91) tail) :
    Chips.PartialOff (s.run (pre ++ Big.cmd CS_ALLm Command.PartialOut ++ tail)) := by
  rw [run_append, run_append]
  exact run_partialOff tail _ ht (partialOut_all _)

theorem no91_one (a : BAct) (h : ∀ c d, a ≠ BAct.sw c d) (hr : a ≠ .resetSeq) : CmdsIn (· ≠ (0x91 : UInt8)) [a] :=
  CmdsIn_other a h hr

/-- only the four partial calls (and nothing else) ever send PartialIn; no call but `reset` resets -/
theorem prog_no_partial_in (op : PubOp) (hp : isPartialCall op = false) (hr : op ≠ .reset) (hw : WfOp op) :
    CmdsIn (· ≠ 0x91) (progOf op) := by
  have fl : CmdsIn (· ≠ (0x91 : UInt8)) [BAct.flush] := CmdsIn_other _ (by intro c d hh; cases hh) (by intro hh; cases hh)
  have wr : CmdsIn (· ≠ (0x91 : UInt8)) [BAct.waitReady] := CmdsIn_other _ (by intro c d hh; cases hh) (by intro hh; cases hh)
  have mw : CmdsIn (· ≠ (0x91 : UInt8)) [BAct.waitReady, BAct.delayMs 100] := by
    intro x hx
    simp only [List.mem_cons, List.mem_nil_iff, or_false] at hx
    rcases hx with h | h <;> (rw [h]; exact ⟨(by intro hh; cases hh), fun c d he => (by cases he)⟩)
  have br : CmdsIn (· ≠ (0x91 : UInt8)) beginRefresh := by
    unfold beginRefresh
    exact CmdsIn_append (CmdsIn_append (CmdsIn_append (CmdsIn_cmd _ _ (by decide)) mw) (CmdsIn_cmd _ _ (by decide))) fl
  cases op <;> unfold progOf
  case reset => exact absurd rfl hr
  case d1p w px => cases hp
  case d2p w px => cases hp
  case refreshp w => cases hp
  case brefreshp w => cases hp
  case init c =>
    unfold initP
    refine CmdsIn_append (CmdsIn_append (CmdsIn_append (CmdsIn_append (CmdsIn_append (CmdsIn_append (CmdsIn_append (CmdsIn_append
      (CmdsIn_append (CmdsIn_append (CmdsIn_append ?_ ?_) ?_) ?_) ?_) ?_) ?_) ?_) ?_) ?_)
      (CmdsIn_setMode c (by decide) (by decide))) fl
    all_goals exact CmdsIn_cmdData _ _ _ (by decide)
  case mode c => exact CmdsIn_setMode c (by decide) (by decide)
  case d1 px => exact CmdsIn_append (CmdsIn_wwd _ _ _ (by decide)) fl
  case d2 px => exact CmdsIn_append (CmdsIn_wwd _ _ _ (by decide)) fl
  case refresh => exact CmdsIn_append br wr
  case brefresh => exact br
  case poweroff =>
    exact CmdsIn_append (CmdsIn_cmd _ _ (by decide)) (show CmdsIn (· ≠ (0x91 : UInt8)) ([BAct.waitReady] ++ [BAct.flush]) from CmdsIn_append wr fl)
  case hibernate =>
    exact CmdsIn_append (CmdsIn_append (CmdsIn_append (CmdsIn_cmd _ _ (by decide)) wr) (CmdsIn_cmdData _ _ _ (by decide))) fl
  case lut c n d =>
    unfold setLut
    have hc : c ≠ 0x91 := by
      simp only [WfOp, List.mem_cons, List.mem_nil_iff, or_false] at hw
      rcases hw with h | h | h | h | h | h <;> (rw [h]; decide)
    refine CmdsIn_append (CmdsIn_append (CmdsIn_cmdData _ _ _ hc) ?_) fl
    split
    · intro x hx
      simp only [List.mem_singleton] at hx
      subst hx
      refine ⟨(by intro hh; cases hh), ?_⟩
      intro c' d' he hlt
      injection he with h1 h2
      subst h1
      simp only [CS_ALLm, CS_ALL, DATA, CS_DATA] at hlt
      omega
    · exact CmdsIn_nil
  case status => exact CmdsIn_other _ (by intro c d hh; cases hh) (by intro hh; cases hh)
  case busy => exact CmdsIn_other _ (by intro c d hh; cases hh) (by intro hh; cases hh)

theorem full_frame_no_partial_in (px : Bytes) :
    CmdsIn (· ≠ 0x91) (progOf (.d1 px)) ∧ CmdsIn (· ≠ 0x91) (progOf (.d2 px)) :=
  ⟨prog_no_partial_in _ rfl (by intro h; cases h) trivial, prog_no_partial_in _ rfl (by intro h; cases h) trivial⟩

/-- each partial call ends with every chip out of partial mode, from ANY state, for every window and buffer -/
theorem partial_call_leaves_off (op : PubOp) (hp : isPartialCall op = true) (s : Chips) :
    Chips.PartialOff (s.run (progOf op)) := by
  have fl : CmdsIn (· ≠ (0x91 : UInt8)) [BAct.flush] := CmdsIn_other _ (by intro c d hh; cases hh) (by intro hh; cases hh)
  have flwr : CmdsIn (· ≠ (0x91 : UInt8)) [BAct.flush, BAct.waitReady] := by
    intro x hx
    simp only [List.mem_cons, List.mem_nil_iff, or_false] at hx
    rcases hx with h | h <;> (rw [h]; exact ⟨(by intro hh; cases hh), fun c d he => (by cases he)⟩)
  cases op <;> simp only [isPartialCall] at hp <;> try (cases hp)
  case d1p w px =>
    unfold progOf writePartial
    have := ends_off s ((if w.x % 8 ≠ 0 ∨ w.w % 8 ≠ 0 then [BAct.panic] else []) ++ Big.cmd CS_ALLm Command.PartialIn ++
      setupPartialWindows w ++ writeWindowData Command.DataStartTransmission1 w px) [BAct.flush] fl
    simpa only [List.append_assoc] using this
  case d2p w px =>
    unfold progOf writePartial
    have := ends_off s ((if w.x % 8 ≠ 0 ∨ w.w % 8 ≠ 0 then [BAct.panic] else []) ++ Big.cmd CS_ALLm Command.PartialIn ++
      setupPartialWindows w ++ writeWindowData Command.DataStartTransmission2 w px) [BAct.flush] fl
    simpa only [List.append_assoc] using this
  case refreshp w =>
    unfold progOf beginRefreshPartial
    have := ends_off s (setupPartialWindows w ++ Big.cmd CS_ALLm Command.PowerOn ++ [BAct.waitReady, BAct.delayMs 100] ++
      Big.cmd CS_ALLm Command.PartialIn ++ Big.cmd CS_ALLm Command.DisplayRefresh) [BAct.flush, BAct.waitReady] flwr
    simpa only [List.append_assoc, List.cons_append, List.nil_append] using this
  case brefreshp w =>
    unfold progOf beginRefreshPartial
    have := ends_off s (setupPartialWindows w ++ Big.cmd CS_ALLm Command.PowerOn ++ [BAct.waitReady, BAct.delayMs 100] ++
      Big.cmd CS_ALLm Command.PartialIn ++ Big.cmd CS_ALLm Command.DisplayRefresh) [BAct.flush] fl
    simpa only [List.append_assoc] using this

theorem blank_partialOff : Chips.PartialOff Chips.blank := fun _ _ => rfl

/-- one call keeps "every chip out of partial mode" -/
theorem call_keeps_off (op : PubOp) (hw : WfOp op) (s : Chips) (h : Chips.PartialOff s) :
    Chips.PartialOff (s.run (progOf op)) := by
  by_cases hp : isPartialCall op = true
  · exact partial_call_leaves_off op hp s
  · by_cases hr : op = .reset
    · subst hr; exact blank_partialOff
    · exact run_partialOff _ s (prog_no_partial_in op (by simpa using hp) hr hw) h

/-- **C02 / C08, 12.48in driver.**  After EVERY history of public calls, with any arguments, every
    chip is out of partial mode (given it was before — e.g. after the `reset()` every session begins with) -/
theorem big_history_leaves_partial_off (ops : List PubOp) : ∀ (s : Chips), (∀ op, op ∈ ops → WfOp op) →
    Chips.PartialOff s → Chips.PartialOff (s.run (ops.flatMap progOf)) := by
  induction ops with
  | nil => intro s _ h; exact h
  | cons op r ih =>
    intro s hw h
    simp only [List.flatMap_cons]
    rw [run_append]
    exact ih _ (fun o ho => hw o (List.mem_cons_of_mem _ ho)) (call_keeps_off op (hw op List.mem_cons_self) s h)

/-- … in particular any history that begins with `reset()`, from ANY state of the chips -/
theorem big_history_after_reset (ops : List PubOp) (s : Chips) (hw : ∀ op, op ∈ ops → WfOp op) :
    Chips.PartialOff (s.run ((PubOp.reset :: ops).flatMap progOf)) := by
  simp only [List.flatMap_cons]
  rw [run_append]
  exact big_history_leaves_partial_off ops _ hw blank_partialOff

/-- the program of a call is a function of its own arguments: the driver keeps no image state -/
theorem big_program_history_free (op : PubOp) (before after : List PubOp) :
    ((before ++ [op] ++ after).flatMap progOf) = before.flatMap progOf ++ progOf op ++ after.flatMap progOf := by
  simp [List.flatMap_append]

/-! ## sensitivity -/

/-- a partial write without its PartialOut would leave the chips in partial mode: the flag is real -/
example : ¬ Chips.PartialOff (Chips.blank.run (Big.cmd CS_ALLm Command.PartialIn)) := by
  intro h
  have := h 0 (by decide)
  revert this
  simp [Big.cmd, Chips.run, Chips.act, Chips.cmd, Chips.blank, sel, CS_ALLm, CS_ALL, Command.PartialIn]

end EpdVerif.Props.C02
