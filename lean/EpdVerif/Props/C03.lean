import EpdVerif.Graphics
import EpdVerif.Props.C14
/-!
# C03 — frame-buffer pixel addressing: rotation, bounds and bit layout

`setPixel` is the model of `graphics.rs::set_pixel` shared by `Display` and `VarDisplay`.
Everything here is for EVERY width and height (also not multiples of 8), every rotation, every
colour type (`bpp ∈ {1,4}`, `planes ∈ {1,2}`), every drawn colour (through its `bitmask`) and
every point of the integer plane; no bound on sizes.

Two genuine defects were found by this development (a proof attempt that needed an extra
hypothesis, then a replay on the real crate) and are repaired in /repo:
* the rotation arithmetic `width as i32 - 1 - point.y` overflowed for extreme coordinates and
  panicked in the dev/test profile — `set_pixel` now rejects points outside the rotated bounds
  before any subtraction (fix faca873), so the theorems below hold for EVERY point of the plane;
* `VarDisplay::<TriColor>` accepted buffers shorter than its two planes (fix 9b3cce6, see C13).
The only size hypothesis left is `w, h < 2^31` (`width as i32` is exact).
-/
namespace EpdVerif.Props.C03
open EpdVerif

/-- physical pixel the rotation maps a point to (exact integer arithmetic) -/
def phys (w h : Nat) : Rotation → Int × Int → Int × Int
  | .r0, (px, py) => (px, py)
  | .r90, (px, py) => ((w : Int) - 1 - py, px)
  | .r180, (px, py) => ((w : Int) - 1 - px, (h : Int) - 1 - py)
  | .r270, (px, py) => (py, (h : Int) - 1 - px)

def inBox (w h : Nat) (p : Int × Int) : Prop := 0 ≤ p.1 ∧ p.1 < w ∧ 0 ≤ p.2 ∧ p.2 < h
instance (w h : Nat) (p : Int × Int) : Decidable (inBox w h p) := by unfold inBox; infer_instance

/-- when the i32 arithmetic does not overflow, `rotate` is the exact rotation -/
theorem rotate_eq_phys (w h : Nat) (rot : Rotation) (px py : Int) (q : Int × Int)
    (hq : rotate w h rot px py = some q) : q = phys w h rot (px, py) := by
  cases rot <;> simp only [rotate, phys] at * <;> (try split at hq) <;> simp_all

/-- `rotate` overflows only far outside the buffer: never for points within 2^30 of the origin
    on buffers smaller than 2^30 -/
theorem rotate_total_near (w h : Nat) (rot : Rotation) (px py : Int)
    (hw : w < 1073741824) (hh : h < 1073741824)
    (hx : -1073741824 ≤ px ∧ px ≤ 1073741824) (hy : -1073741824 ≤ py ∧ py ≤ 1073741824) :
    rotate w h rot px py = some (phys w h rot (px, py)) := by
  cases rot <;> simp only [rotate, phys, inI32, Bool.and_eq_true, decide_eq_true_eq]
  · rw [if_pos (by omega)]
  · rw [if_pos (by omega)]
  · rw [if_pos (by omega)]

/-- the raw rotation arithmetic does overflow for extreme coordinates (this is why the bounds
    check has to come first): rotation 90, y = i32::MIN -/
theorem rotate_overflow_witness : rotate 200 200 .r90 0 (-2147483648) = none := by decide

/-- inside the rotated bounds the i32 arithmetic never overflows -/
theorem rotate_total_inBounds (w h : Nat) (rot : Rotation) (px py : Int)
    (hw : w < 2147483648) (hh : h < 2147483648)
    (hin : inBox (displaySize w h rot).1 (displaySize w h rot).2 (px, py)) :
    rotate w h rot px py = some (phys w h rot (px, py)) := by
  cases rot <;> simp only [displaySize, inBox] at hin <;>
    simp only [rotate, phys, inI32, Bool.and_eq_true, decide_eq_true_eq]
  · rw [if_pos (by omega)]
  · rw [if_pos (by omega)]
  · rw [if_pos (by omega)]

/-- the reported size swaps width and height exactly for 90° and 270° -/
theorem displaySize_swap (w h : Nat) :
    displaySize w h .r0 = (w, h) ∧ displaySize w h .r180 = (w, h) ∧
    displaySize w h .r90 = (h, w) ∧ displaySize w h .r270 = (h, w) := ⟨rfl, rfl, rfl, rfl⟩

/-- a point is inside the rotated bounds (the reported size) iff the physical pixel it is mapped
    to is inside the buffer geometry: the rotation is a bijection of the two boxes -/
theorem phys_inBox_iff (w h : Nat) (rot : Rotation) (px py : Int) :
    inBox w h (phys w h rot (px, py)) ↔
      inBox (displaySize w h rot).1 (displaySize w h rot).2 (px, py) := by
  cases rot <;> simp only [phys, displaySize, inBox] <;> omega

theorem phys_injective (w h : Nat) (rot : Rotation) (p q : Int × Int)
    (e : phys w h rot p = phys w h rot q) : p = q := by
  obtain ⟨p1, p2⟩ := p
  obtain ⟨q1, q2⟩ := q
  cases rot <;> simp only [phys, Prod.mk.injEq] at e <;> (ext <;> simp <;> omega)

/-- byte index of a physical pixel -/
def byteIndex (w : Nat) (k : ColorKind) (x y : Nat) : Nat := x * k.bpp / 8 + y * lineBytes w k.bpp

theorem byteIndex_lt (w h : Nat) (k : ColorKind) (hb : k.bpp = 1 ∨ k.bpp = 4) (x y : Nat)
    (hx : x < w) (hy : y < h) : byteIndex w k x y < h * lineBytes w k.bpp := by
  have h1 : x * k.bpp / 8 < lineBytes w k.bpp := by
    unfold lineBytes
    rcases hb with e | e <;> rw [e] <;> omega
  have h2 : (y + 1) * lineBytes w k.bpp ≤ h * lineBytes w k.bpp := Nat.mul_le_mul_right _ (by omega)
  rw [Nat.add_mul, Nat.one_mul] at h2
  unfold byteIndex
  omega

/-- distinct pixels of one plane that share a byte are distinguished by their position in it:
    byte index and in-byte position determine the pixel (1 bpp) -/
theorem byteIndex_inj_1bpp (w : Nat) (x y x' y' : Nat) (hx : x < w) (hx' : x' < w)
    (e : byteIndex w kindBw x y = byteIndex w kindBw x' y') (em : x % 8 = x' % 8) :
    x = x' ∧ y = y' := by
  simp only [byteIndex, kindBw, lineBytes, Nat.mul_one] at e
  have h1 : x / 8 < (w + 7) / 8 := by omega
  have h2 : x' / 8 < (w + 7) / 8 := by omega
  have hy : y = y' := by
    have e1 : (x / 8 + y * ((w + 7) / 8)) / ((w + 7) / 8) = y := by
      rw [Nat.add_mul_div_right _ _ (by omega), Nat.div_eq_of_lt h1, Nat.zero_add]
    have e2 : (x' / 8 + y' * ((w + 7) / 8)) / ((w + 7) / 8) = y' := by
      rw [Nat.add_mul_div_right _ _ (by omega), Nat.div_eq_of_lt h2, Nat.zero_add]
    rw [← e1, ← e2, e]
  subst hy
  refine ⟨?_, rfl⟩
  omega

/-- the masked write on one plane: only the byte at `index` changes -/
theorem writePix_single (buf : Array UInt8) (index planes : Nat) (mask : UInt8) (bits : Nat)
    (hp : planes ≠ 2) (hidx : index < buf.size) :
    (writePix buf index planes mask bits).2 = false ∧
    (writePix buf index planes mask bits).1.size = buf.size ∧
    ∀ i, (writePix buf index planes mask bits).1[i]? =
      if i = index then buf[i]?.map fun o => (o &&& mask) ||| UInt8.ofNat (bits % 256) else buf[i]? := by
  unfold writePix
  rw [if_neg hp, dif_pos hidx]
  refine ⟨rfl, by simp, ?_⟩
  intro i
  rw [Array.getElem?_set]
  by_cases h1 : index = i
  · subst h1
    rw [if_pos rfl, if_pos rfl, Array.getElem?_eq_getElem hidx]
    rfl
  · rw [if_neg h1, if_neg (fun e => h1 e.symm)]

/-- the masked write on a split buffer: only the bytes at `index` and `index + len/2` change -/
theorem writePix_split (buf : Array UInt8) (index : Nat) (mask : UInt8) (bits : Nat)
    (hidx : index < buf.size / 2) (heven : buf.size % 2 = 0) :
    (writePix buf index 2 mask bits).2 = false ∧
    (writePix buf index 2 mask bits).1.size = buf.size ∧
    ∀ i, (writePix buf index 2 mask bits).1[i]? =
      if i = index then buf[i]?.map fun o => (o &&& mask) ||| UInt8.ofNat (bits % 256)
      else if i = index + buf.size / 2 then
        buf[i]?.map fun o => (o &&& mask) ||| UInt8.ofNat (bits / 256 % 256)
      else buf[i]? := by
  have h1 : index < buf.size := by omega
  have h2' : index + buf.size / 2 < buf.size := by omega
  have h2 : index + buf.size / 2 <
      (buf.set index ((buf[index] &&& mask) ||| UInt8.ofNat (bits % 256)) h1).size := by
    simp only [Array.size_set]; exact h2'
  unfold writePix
  rw [if_pos rfl, dif_pos h1]
  simp only
  rw [dif_pos h2]
  refine ⟨rfl, by simp, ?_⟩
  intro i
  have hne : index ≠ index + buf.size / 2 := by omega
  rw [Array.getElem?_set, Array.getElem_set_ne (pj := h2') (h := hne), Array.getElem?_set]
  by_cases e1 : index = i
  · subst e1
    have hne' : ¬ (index + buf.size / 2 = index) := by omega
    rw [if_neg hne', if_pos rfl, if_pos rfl, Array.getElem?_eq_getElem h1]
    rfl
  · have e1' : ¬ i = index := fun e => e1 e.symm
    rw [if_neg e1, if_neg e1']
    by_cases e2 : index + buf.size / 2 = i
    · subst e2
      rw [if_pos rfl, if_pos rfl, Array.getElem?_eq_getElem h2']
      rfl
    · have e2' : ¬ i = index + buf.size / 2 := fun e => e2 e.symm
      rw [if_neg e2, if_neg e2']

/-- MAIN (single-plane colour types `Color` and `OctColor`).  For every geometry, rotation,
    drawn bitmask and EVERY point of the integer plane, on a buffer of exactly the geometry's
    length: no panic, same length; outside the rotated bounds nothing changes; inside, exactly
    the byte of the physical pixel is rewritten as `old & mask | bits` and every other byte is
    untouched (`[i]?` is `none` beyond the buffer: nothing outside the slice is ever written). -/
theorem setPixel_single (buf : Array UInt8) (w h : Nat) (rot : Rotation) (k : ColorKind)
    (hb : k.bpp = 1 ∨ k.bpp = 4) (hp : k.planes = 1) (bm : Nat → UInt8 × Nat) (px py : Int)
    (hw : w < 2147483648) (hh : h < 2147483648)
    (hl : buf.size = requiredLen w h k) :
    (setPixel buf w h rot k bm px py).2 = false ∧
    (setPixel buf w h rot k bm px py).1.size = buf.size ∧
    (¬ inBox w h (phys w h rot (px, py)) → (setPixel buf w h rot k bm px py).1 = buf) ∧
    (inBox w h (phys w h rot (px, py)) →
      byteIndex w k (phys w h rot (px, py)).1.toNat (phys w h rot (px, py)).2.toNat < buf.size ∧
      ∀ (i : Nat),
        (setPixel buf w h rot k bm px py).1[i]? =
          if i = byteIndex w k (phys w h rot (px, py)).1.toNat (phys w h rot (px, py)).2.toNat then
            buf[i]?.map fun o => (o &&& (bm (phys w h rot (px, py)).1.toNat).1) |||
              UInt8.ofNat ((bm (phys w h rot (px, py)).1.toNat).2 % 256)
          else buf[i]?) := by
  have hreq : buf.size = h * lineBytes w k.bpp := by rw [hl, requiredLen, hp, Nat.one_mul]
  unfold setPixel
  by_cases hrb : px < 0 ∨ px ≥ (displaySize w h rot).1 ∨ py < 0 ∨ py ≥ (displaySize w h rot).2
  · rw [if_pos hrb]
    refine ⟨rfl, rfl, fun _ => rfl, ?_⟩
    intro hin
    have := (phys_inBox_iff w h rot px py).1 hin
    exfalso; unfold inBox at this; simp only at this; omega
  · rw [if_neg hrb]
    have hrin : inBox (displaySize w h rot).1 (displaySize w h rot).2 (px, py) := by
      unfold inBox; simp only; omega
    have hov := rotate_total_inBounds w h rot px py hw hh hrin
    have hpin := (phys_inBox_iff w h rot px py).2 hrin
    rw [hov]
    generalize phys w h rot (px, py) = q at *
    obtain ⟨x, y⟩ := q
    simp only
    have hob : ¬ (x < 0 ∨ x ≥ w ∨ y < 0 ∨ y ≥ h) := by
      unfold inBox at hpin; simp only at hpin; omega
    rw [if_neg hob]
    have hxw : x.toNat < w := by omega
    have hyh : y.toNat < h := by omega
    have hidx : byteIndex w k x.toNat y.toNat < buf.size := by
      rw [hreq]; exact byteIndex_lt w h k hb _ _ hxw hyh
    have hp2 : k.planes ≠ 2 := by omega
    have hwp := writePix_single buf (byteIndex w k x.toNat y.toNat) k.planes (bm x.toNat).1 (bm x.toNat).2 hp2 hidx
    exact ⟨hwp.1, hwp.2.1, fun hn => absurd hpin hn, fun _ => ⟨hidx, hwp.2.2⟩⟩

/-- MAIN (two-plane colour type `TriColor`), buffer of exactly two planes, EVERY point. -/
theorem setPixel_tri (buf : Array UInt8) (w h : Nat) (rot : Rotation)
    (bm : Nat → UInt8 × Nat) (px py : Int)
    (hw : w < 2147483648) (hh : h < 2147483648)
    (hl : buf.size = requiredLen w h kindTri) :
    (setPixel buf w h rot kindTri bm px py).2 = false ∧
    (setPixel buf w h rot kindTri bm px py).1.size = buf.size ∧
    (¬ inBox w h (phys w h rot (px, py)) → (setPixel buf w h rot kindTri bm px py).1 = buf) ∧
    (inBox w h (phys w h rot (px, py)) →
      byteIndex w kindTri (phys w h rot (px, py)).1.toNat (phys w h rot (px, py)).2.toNat < buf.size / 2 ∧
      ∀ (i : Nat),
        (setPixel buf w h rot kindTri bm px py).1[i]? =
          if i = byteIndex w kindTri (phys w h rot (px, py)).1.toNat (phys w h rot (px, py)).2.toNat then
            buf[i]?.map fun o => (o &&& (bm (phys w h rot (px, py)).1.toNat).1) |||
              UInt8.ofNat ((bm (phys w h rot (px, py)).1.toNat).2 % 256)
          else if i = byteIndex w kindTri (phys w h rot (px, py)).1.toNat (phys w h rot (px, py)).2.toNat
                + buf.size / 2 then
            buf[i]?.map fun o => (o &&& (bm (phys w h rot (px, py)).1.toNat).1) |||
              UInt8.ofNat ((bm (phys w h rot (px, py)).1.toNat).2 / 256 % 256)
          else buf[i]?) := by
  have hreq : buf.size = 2 * (h * lineBytes w 1) := by rw [hl]; rfl
  unfold setPixel
  by_cases hrb : px < 0 ∨ px ≥ (displaySize w h rot).1 ∨ py < 0 ∨ py ≥ (displaySize w h rot).2
  · rw [if_pos hrb]
    refine ⟨rfl, rfl, fun _ => rfl, ?_⟩
    intro hin
    have := (phys_inBox_iff w h rot px py).1 hin
    exfalso; unfold inBox at this; simp only at this; omega
  · rw [if_neg hrb]
    have hrin : inBox (displaySize w h rot).1 (displaySize w h rot).2 (px, py) := by
      unfold inBox; simp only; omega
    have hov := rotate_total_inBounds w h rot px py hw hh hrin
    have hpin := (phys_inBox_iff w h rot px py).2 hrin
    rw [hov]
    generalize phys w h rot (px, py) = q at *
    obtain ⟨x, y⟩ := q
    simp only
    have hob : ¬ (x < 0 ∨ x ≥ w ∨ y < 0 ∨ y ≥ h) := by
      unfold inBox at hpin; simp only at hpin; omega
    rw [if_neg hob]
    have hxw : x.toNat < w := by omega
    have hyh : y.toNat < h := by omega
    have hlt := byteIndex_lt w h kindTri (Or.inl rfl) _ _ hxw hyh
    have hk1 : kindTri.bpp = 1 := rfl
    rw [hk1] at hlt
    have hidx : byteIndex w kindTri x.toNat y.toNat < buf.size / 2 := by omega
    have hwp := writePix_split buf (byteIndex w kindTri x.toNat y.toNat) (bm x.toNat).1 (bm x.toNat).2
      hidx (by omega)
    exact ⟨hwp.1, hwp.2.1, fun hn => absurd hpin hn, fun _ => ⟨hidx, hwp.2.2⟩⟩

/-- bit-level corollary for the two-level colour: exactly bit `x % 8` of the pixel's byte takes
    the colour's bit value; every other bit of every byte (other pixels, padding bits) keeps its
    value -/
theorem setPixel_color_bits (buf : Array UInt8) (w h : Nat) (rot : Rotation) (c : Color) (bwr : Bool)
    (px py : Int) (hw : w < 2147483648) (hh : h < 2147483648) (hl : buf.size = requiredLen w h kindBw)
    (hin : inBox w h (phys w h rot (px, py))) (i : Nat) (o o' : UInt8) (ho : buf[i]? = some o)
    (ho' : (setPixel buf w h rot kindBw (c.bitmask bwr) px py).1[i]? = some o') (j : Nat) (hj : j < 8) :
    bitAt o' j =
      if i = byteIndex w kindBw (phys w h rot (px, py)).1.toNat (phys w h rot (px, py)).2.toNat
          ∧ j = (phys w h rot (px, py)).1.toNat % 8
      then c.getBitValue == 1 else bitAt o j := by
  have hs := (setPixel_single buf w h rot kindBw (Or.inl rfl) rfl (c.bitmask bwr) px py hw hh hl).2.2.2 hin
  rw [hs.2 i, ho] at ho'
  by_cases h1 : i = byteIndex w kindBw (phys w h rot (px, py)).1.toNat (phys w h rot (px, py)).2.toNat
  · rw [if_pos h1] at ho'
    simp only [Option.map_some, Option.some.injEq] at ho'
    rw [← ho', C14.color_mask_pixel c bwr _ _ j hj]
    simp only [h1, true_and]
  · rw [if_neg h1] at ho'
    injection ho' with ho'
    rw [← ho', if_neg (fun hh => h1 hh.1)]

/-- the exact-length hypothesis is needed: on a two-plane buffer of only `h * lineBytes w 2`
    bytes (what `VarDisplay` accepted before fix 9b3cce6) the lower rows panic: 4x4, 4 bytes,
    pixel (0,3) -/
theorem setPixel_tri_short_buffer_panics :
    (setPixel (Array.replicate (4 * lineBytes 4 2) 0) 4 4 .r0 kindTri
      (TriColor.white.bitmask false) 0 3).2 = true := by decide

/-- non-vacuity of the hypotheses: a real geometry, a real point -/
example : inBox 122 250 (phys 122 250 .r270 (7, 9)) ∧ requiredLen 122 250 kindBw = 4000 := by decide

end EpdVerif.Props.C03
