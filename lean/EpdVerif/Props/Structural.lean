import EpdVerif.Props.C05
import EpdVerif.Props.C11
import EpdVerif.Oracle.All
import EpdVerif.Table
import EpdVerif.Lemmas.SsdMode
import EpdVerif.Lemmas.UcPower
import EpdVerif.KernelRfl
/-!
# Schedule-free / payload-free checks of a program, and the tactic that decides them per panel

Each check is a `Bool` function of a program whose soundness is a generic theorem
(`C05.absSafe_sound`, `C11.goodResets_oracle`; for C18 the check IS the oracle, applied to the
program's own block list which by `blocksOfEvs_runActs` is the block list of every complete
run).  Per panel and operation the check is decided by kernel evaluation with the call's
arguments (buffers, colours, driver fields that only flow into payload bytes) left universally
quantified: `panel_decide` destructures the driver fields and the feature flags into their
finitely many control-relevant cases and evaluates.
-/
namespace EpdVerif.Props
open EpdVerif

def famOf (p : Panel) : C05.Fam := ⟨Spec.refreshCmds p.name p.family, Spec.imageCmds p.name p.family⟩

/-- C05 per operation: accepted from BOTH abstract start states, in particular from "a refresh
    may still be pending" — so the operation is safe after any history -/
def opSafe (p : Panel) (acts : List Act) : Bool :=
  (C05.absSafe (famOf p) (Spec.raiseSet p.name p.family) (Spec.busyLevel p.family) acts true).isSome &&
  (C05.absSafe (famOf p) (Spec.raiseSet p.name p.family) (Spec.busyLevel p.family) acts false).isSome

/-- C18 per operation: the oracle on the program's own block list -/
def opConforms (p : Panel) (name : String) (acts : List Act) : Bool :=
  (Oracle.c18 p [name] (actsToEvs acts)).isEmpty

/-- C08 (i): the last command block of `sleep` is the family's deep-sleep command -/
def sleepEndsDeep (p : Panel) (acts : List Act) : Bool :=
  match Oracle.lastBlock (actsToEvs acts) with
  | some (c, ps) => Spec.deepSleepOk p.name p.family c ps
  | none => false

/-- C08 (iii): `wake_up` programs the same registers (LUT / image commands aside) as `new` does
    for the same driver fields -/
def wakeLikeNew (p : Panel) (wake new : List Act) : Bool :=
  Oracle.regWrites p (actsToEvs wake) == Oracle.regWrites p (actsToEvs new)

/-- C17: the waveform tables an operation uploads (last parameters per LUT command) -/
def lutUploads (p : Panel) (acts : List Act) : List (UInt8 × Bytes) :=
  (Spec.lutCmds p.family).filterMap fun c =>
    ((blocksOf acts).reverse.findSome? fun b => match b with
      | .c c' ps => if c' == c then some ps else none
      | _ => none).map fun ps => (c, ps)

def lutMatches (f : Feat) (p : Panel) (m : Refresh) (acts : List Act) : Bool :=
  lutUploads p acts == (Spec.lutRef f p.name m).getD []

/-- C02 (reachability half): the operation keeps the controller ready for a full-frame update —
    SSD16xx: awake and in data-entry mode 3; UC81xx / ACeP: awake and outside partial mode — whatever
    its window, counter, RAM, LUT and power state (`Ssd.keepsMode_sound`, `Uc.keepsFlags_sound`) -/
def keepsModeP (p : Panel) (acts : List Act) : Bool :=
  match p.ctrl with
  | .ssd s => Ssd.keepsMode s.xPix s.stride s.rows (blocksOf acts)
  | .uc u => Uc.keepsFlags u.has14 (blocksOf acts)

/-- … and construction / wake-up reach that mode from ANY mode (sleeping or not) -/
def establishesModeP (p : Panel) (acts : List Act) : Bool :=
  match p.ctrl with
  | .ssd s => Ssd.establishesMode s.xPix s.stride s.rows (blocksOf acts)
  | .uc u => Uc.establishesFlags u.has14 (blocksOf acts)

/-- C09 per operation (UC81xx / ACeP): run the power / sleep / initialisation fields through the
    program from an awake, initialised controller that is powered (`startOn`) or not; `some b` = every
    refresh trigger of the program is good and the controller is awake and initialised at the end of
    the operation, powered iff `b`; `none` = some refresh would reach a sleeping, uninitialised or
    unpowered controller (`Uc.powerRun_sound`: for EVERY controller state with those fields) -/
def powerSafeP (p : Panel) (acts : List Act) (startOn : Bool) : Option Bool :=
  match p.ctrl with
  | .uc u =>
    match Uc.powerRun ⟨false, startOn, true, false, u.has14⟩ (blocksOf acts) with
    | some r => if !r.opEnd.asleep && r.opEnd.initialised && !r.opEnd.resetSeen then some r.opEnd.powered else none
    | none => none
  | .ssd _ => none

/-- … construction / wake-up: the program starts with a hardware reset, so its effect on these
    fields does not depend on the state before -/
def powerEstablishP (p : Panel) (acts : List Act) : Option Bool :=
  match p.ctrl, blocksOf acts with
  | .uc u, .rst :: r =>
    match Uc.powerRun ⟨false, false, false, true, u.has14⟩ r with
    | some e => if !e.opEnd.asleep && e.opEnd.initialised && !e.opEnd.resetSeen then some e.opEnd.powered else none
    | none => none
  | _, _ => none

/-- (session 4: the evaluation is handed to the kernel alone — `kernel_decide`, see `KernelRfl.lean` —
    instead of being run twice, first by the elaborator's `isDefEq` under a heartbeat budget and then
    by the kernel)
    decide a closed-control-flow statement by kernel evaluation, after splitting the feature flags
    `f` and the control-relevant driver fields of `d` into cases -/
macro "panel_decide " f:ident d:ident : tactic => `(tactic| first
  | kernel_decide
  | (rcases $f:ident with ⟨v2, alt⟩
     rcases $d:ident with ⟨bg, refresh, isOn, partialFlag, sleepMode, oldData⟩
     cases v2 <;> cases alt <;> cases refresh <;> cases isOn <;> cases partialFlag <;>
       kernel_decide)
  | (rcases $f:ident with ⟨v2, alt⟩
     rcases $d:ident with ⟨bg, refresh, isOn, partialFlag, sleepMode, oldData⟩
     rcases bg with _ | _ | _ | bg <;>
     cases v2 <;> cases alt <;> cases refresh <;> cases isOn <;> cases partialFlag <;>
       kernel_decide))

end EpdVerif.Props
