import EpdVerif.Rect
/-!
# C16 — rectangle algebra is exact

For all rectangles whose right and bottom edges are representable (`noOverflow`): no panic,
commutative, idempotent, covers exactly the common pixels (hence inside both operands and
empty iff no common pixel), and `sub_offset` by an offset no larger than the origin moves the
origin and preserves the size.  Unbounded: every `u32` rectangle, proved with `omega`.
-/
namespace EpdVerif.Props.C16
open EpdVerif Rect

/-- under the precondition the real code does not panic -/
theorem intersect_total (a b : Rect) (ha : a.noOverflow) (hb : b.noOverflow) :
    ∃ r, a.intersect b = some r := by
  unfold noOverflow at ha hb
  unfold intersect
  rw [if_pos ⟨ha.1, hb.1, ha.2, hb.2⟩]
  exact ⟨_, rfl⟩

/-- and it panics exactly outside the precondition -/
theorem intersect_none_iff (a b : Rect) :
    a.intersect b = none ↔ ¬ (a.noOverflow ∧ b.noOverflow) := by
  unfold intersect noOverflow
  split <;> simp_all <;> omega

theorem intersect_comm (a b : Rect) : a.intersect b = b.intersect a := by
  unfold intersect
  by_cases h : a.x + a.w < U32 ∧ b.x + b.w < U32 ∧ a.y + a.h < U32 ∧ b.y + b.h < U32
  · have h' : b.x + b.w < U32 ∧ a.x + a.w < U32 ∧ b.y + b.h < U32 ∧ a.y + a.h < U32 :=
      ⟨h.2.1, h.1, h.2.2.2, h.2.2.1⟩
    rw [if_pos h, if_pos h']
    simp only [Nat.max_comm a.x b.x, Nat.max_comm a.y b.y, Nat.min_comm (a.x + a.w),
      Nat.min_comm (a.y + a.h)]
  · have h' : ¬ (b.x + b.w < U32 ∧ a.x + a.w < U32 ∧ b.y + b.h < U32 ∧ a.y + a.h < U32) :=
      fun hh => h ⟨hh.2.1, hh.1, hh.2.2.2, hh.2.2.1⟩
    rw [if_neg h, if_neg h']

theorem intersect_idem (a : Rect) (ha : a.noOverflow) : a.intersect a = some a := by
  unfold noOverflow at ha
  unfold intersect
  rw [if_pos ⟨ha.1, ha.1, ha.2, ha.2⟩]
  cases a with
  | mk x y w h => simp

/-- the result covers exactly the pixels both operands cover -/
theorem covers_intersect (a b r : Rect) (h : a.intersect b = some r) (px py : Nat) :
    r.covers px py ↔ a.covers px py ∧ b.covers px py := by
  unfold intersect at h
  split at h
  · injection h with h
    subst h
    simp only [covers]
    omega
  · cases h

/-- so it lies inside both operands -/
theorem intersect_inside (a b r : Rect) (h : a.intersect b = some r) (px py : Nat)
    (hc : r.covers px py) : a.covers px py ∧ b.covers px py :=
  (covers_intersect a b r h px py).1 hc

/-- `is_empty` means: covers no pixel -/
theorem isEmpty_iff (r : Rect) : r.isEmpty = true ↔ ∀ px py, ¬ r.covers px py := by
  unfold isEmpty covers
  constructor
  · intro h px py
    simp only [Bool.or_eq_true, beq_iff_eq] at h
    omega
  · intro h
    simp only [Bool.or_eq_true, beq_iff_eq]
    by_cases hw : r.w = 0
    · exact Or.inl hw
    · by_cases hh : r.h = 0
      · exact Or.inr hh
      · exact absurd ⟨Nat.le_refl _, by omega, Nat.le_refl _, by omega⟩ (h r.x r.y)

/-- empty exactly when the operands have no pixel in common -/
theorem intersect_empty_iff (a b r : Rect) (h : a.intersect b = some r) :
    r.isEmpty = true ↔ ¬ ∃ px py, a.covers px py ∧ b.covers px py := by
  rw [isEmpty_iff]
  constructor
  · intro hn ⟨px, py, hc⟩
    exact hn px py ((covers_intersect a b r h px py).2 hc)
  · intro hn px py hc
    exact hn ⟨px, py, (covers_intersect a b r h px py).1 hc⟩

/-- the result is again a `u32` rectangle with representable edges -/
theorem intersect_wf (a b r : Rect) (h : a.intersect b = some r) : r.x + r.w < U32 ∧ r.y + r.h < U32 := by
  unfold intersect at h
  split at h
  · injection h with h
    subst h
    simp only
    omega
  · cases h

/-- translation by an offset no larger than the origin: no panic, origin moved, size kept -/
theorem subOffset_spec (r : Rect) (dx dy : Nat) (hx : dx ≤ r.x) (hy : dy ≤ r.y) :
    r.subOffset dx dy = some { x := r.x - dx, y := r.y - dy, w := r.w, h := r.h } := by
  unfold subOffset
  rw [if_pos ⟨hx, hy⟩]

/-- … and it panics (u32 underflow) exactly when the offset is larger than the origin -/
theorem subOffset_none_iff (r : Rect) (dx dy : Nat) :
    r.subOffset dx dy = none ↔ ¬ (dx ≤ r.x ∧ dy ≤ r.y) := by
  unfold subOffset
  split <;> simp_all

/-- translation moves the pixel set rigidly -/
theorem covers_subOffset (r s : Rect) (dx dy : Nat) (h : r.subOffset dx dy = some s) (px py : Nat) :
    s.covers px py ↔ r.covers (px + dx) (py + dy) := by
  unfold subOffset at h
  split at h
  · injection h with h
    subst h
    simp only [covers]
    omega
  · cases h

/-- non-vacuity: the hypotheses are met by concrete overlapping rectangles, with the result
    the crate's own unit test expects -/
example : (Rect.mk 0 0 10 10).intersect (Rect.mk 6 3 10 10) = some (Rect.mk 6 3 4 7) := by decide
example : (Rect.mk 0 0 10 10).noOverflow ∧ (Rect.mk 4294967290 3 5 10).noOverflow := by decide
example : (Rect.mk 10 10 10 10).subOffset 10 5 = some (Rect.mk 0 5 10 10) := by decide

end EpdVerif.Props.C16
