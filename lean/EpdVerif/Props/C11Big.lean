import EpdVerif.Big
/-!
# C11 on the 12.48in driver — `reset()` pulses BOTH reset lines well-formedly

About the model of `src/epd12in48b_v2/mod.rs` in `EpdVerif/Big.lean` (tied to the source by the
correspondence runs of `./vcheck C11`, which contain that driver's `reset()` alone, repeated and
after every kind of call).  The model's `reset()` emits a fixed event sequence whatever the
environment (`big_reset_events`); the run-time oracle `Big.c11B` — the one that judges the
implementation's traces — accepts it (`big_reset_wellformed`): each of the two lines goes high,
low, is waited out for a non-zero time, goes high again and is followed by a non-zero settle
delay, with no bus transfer in between.  The oracle is not vacuous: it rejects a pulse whose low
time is not waited out, a missing settle time, a line that is never pulsed, a line left low, and
bus traffic inside the call (`big_oracle_rejects_*`).
-/
namespace EpdVerif.Props.C11
open EpdVerif EpdVerif.Big

/-- the events of the model's `reset()`: independent of the environment -/
theorem big_reset_events (e : BEnv) :
    (stepB e .resetSeq).1 =
      [.rst 0 true, .rst 1 true, .delay .ms 1, .rst 0 false, .delay .us 100, .rst 0 true, .delay .ms 100,
       .rst 1 false, .delay .us 100, .rst 1 true, .delay .ms 100] ∧ (stepB e .resetSeq).2.2 = .ok := ⟨rfl, rfl⟩

/-- … and the oracle accepts them: both lines high → low (waited out) → high → settle, no bus traffic -/
theorem big_reset_wellformed (e : BEnv) :
    c11B ["reset"] { evs := (stepB e .resetSeq).1, res := .ok, pins := "c0d0" } = [] := by
  rw [(big_reset_events e).1]
  decide

/-- `reset()` leaves every chip select and both D/C lines released and sends nothing on the bus -/
theorem big_reset_no_bus (e : BEnv) :
    (stepB e .resetSeq).1.all (fun ev => match ev with | .w .. => false | .read .. => false | .fail .. => false | _ => true) = true := by
  rw [(big_reset_events e).1]
  decide

/-! ## the oracle is sensitive -/

/-- low time not waited out on the second line -/
theorem big_oracle_rejects_unwaited_low :
    c11B ["reset"] { evs := [.rst 0 true, .rst 1 true, .delay .ms 1, .rst 0 false, .delay .us 100, .rst 0 true, .delay .ms 100,
       .rst 1 false, .rst 1 true, .delay .ms 100], res := .ok, pins := "c0d0" } ≠ [] := by decide

/-- zero-length low time -/
theorem big_oracle_rejects_zero_low :
    c11B ["reset"] { evs := [.rst 0 true, .rst 1 true, .delay .ms 1, .rst 0 false, .delay .us 0, .rst 0 true, .delay .ms 100,
       .rst 1 false, .delay .us 100, .rst 1 true, .delay .ms 100], res := .ok, pins := "c0d0" } ≠ [] := by decide

/-- no settle time after the last rising edge -/
theorem big_oracle_rejects_no_settle :
    c11B ["reset"] { evs := [.rst 0 true, .rst 1 true, .delay .ms 1, .rst 0 false, .delay .us 100, .rst 0 true, .delay .ms 100,
       .rst 1 false, .delay .us 100, .rst 1 true], res := .ok, pins := "c0d0" } ≠ [] := by decide

/-- the second line is never pulsed -/
theorem big_oracle_rejects_one_line :
    c11B ["reset"] { evs := [.rst 0 true, .rst 1 true, .delay .ms 1, .rst 0 false, .delay .us 100, .rst 0 true, .delay .ms 100], res := .ok, pins := "c0d0" } ≠ [] := by decide

/-- a line left low -/
theorem big_oracle_rejects_left_low :
    c11B ["reset"] { evs := [.rst 0 true, .rst 1 true, .delay .ms 1, .rst 0 false, .delay .us 100, .rst 0 true, .delay .ms 100,
       .rst 1 false, .delay .us 100], res := .ok, pins := "c0d0" } ≠ [] := by decide

/-- a bus transfer inside the call -/
theorem big_oracle_rejects_bus :
    c11B ["reset"] { evs := [.rst 0 true, .rst 1 true, .delay .ms 1, .rst 0 false, .delay .us 100, .w 15 0 [(1, 1)] [0x04], .rst 0 true, .delay .ms 100,
       .rst 1 false, .delay .us 100, .rst 1 true, .delay .ms 100], res := .ok, pins := "c0d0" } ≠ [] := by decide

end EpdVerif.Props.C11
