import EpdVerif.Wire
/-!
# C05 — busy handshake: a schedule-free check that is sound for EVERY busy schedule

Concrete semantics: `runActs` (the model of `interface.rs`) under an environment whose busy pin
stays busy for the next duration of the schedule after every busy-raising command or reset —
any schedule (`List Nat`), any number of episodes, any durations.  `mrun` runs the very same
`stepAct` and additionally watches for an image-memory command or a refresh trigger sent while
a refresh episode is still signalled busy.

`absSafe` is a check over the program alone (no schedule).  `absSafe_sound`: if it accepts, then
for every environment the run never hangs, never violates, and its explicit waits return only
with the panel idle.  Per panel the check is evaluated on every operation from the abstract
state "a refresh may be pending", which covers every ordered pair (indeed every history) at once
(files `Props/Panels/*.lean`).
-/
namespace EpdVerif.Props.C05
open EpdVerif

/-- what the monitor needs to know about the controller family -/
structure Fam where
  refresh : List UInt8     -- refresh triggers
  image : List UInt8       -- image-memory data / fill commands
  deriving Repr, Inhabited

structure Mon where
  refr : Bool := false     -- the current busy episode was started by a refresh trigger
  viol : Bool := false
  deriving Repr, Inhabited, DecidableEq

/-- monitor update for an action executed in environment `e` -/
def monStep (f : Fam) (m : Mon) (e : Env) : Act → Mon
  | .cmd c =>
    let pending := (e.busy != 0) && m.refr
    { viol := m.viol || (pending && (f.refresh.contains c || f.image.contains c)),
      refr := if e.raise.contains c then f.refresh.contains c else m.refr }
  | .reset _ _ => { m with refr := false }
  | _ => m

/-- the monitored run: exactly `runActs`' recursion, with the monitor alongside -/
def mrun (f : Fam) : List Act → Env → DState → Mon → Mon × Env × Res
  | [], e, _, m => (m, e, .ok)
  | a :: as, e, d, m =>
    let r := stepAct e d a
    match r.2.2.2 with
    | .ok => mrun f as r.2.1 r.2.2.1 (monStep f m e a)
    | x => (monStep f m e a, r.2.1, x)

/-- `mrun` follows `runActs`: same environment, same result -/
theorem mrun_runActs (f : Fam) (acts : List Act) : ∀ (e : Env) (d : DState) (m : Mon),
    (mrun f acts e d m).2.1 = (runActs e d acts).2.1 ∧ (mrun f acts e d m).2.2 = (runActs e d acts).2.2.2 := by
  induction acts with
  | nil => intro e d m; exact ⟨rfl, rfl⟩
  | cons a as ih =>
    intro e d m
    simp only [mrun, runActs]
    split <;> simp_all

/-- abstract state: `true` = a refresh episode may still be pending -/
def absStep (f : Fam) (raise : List UInt8) (busyLvl : Bool) : Act → Bool → Option Bool
  | .cmd c, may =>
    if (f.refresh.contains c || f.image.contains c) && may then none
    else some (if raise.contains c then f.refresh.contains c else may)
  | .wait busyLow, _ => if busyLow = !busyLvl then some false else none
  | .waitCmd busyLow c, _ =>
    if busyLow = !busyLvl ∧ !raise.contains c ∧ !f.refresh.contains c ∧ !f.image.contains c then some false
    else none
  | .reset _ _, _ => some false
  | _, may => some may

def absSafe (f : Fam) (raise : List UInt8) (busyLvl : Bool) : List Act → Bool → Option Bool
  | [], may => some may
  | a :: as, may =>
    match absStep f raise busyLvl a may with
    | none => none
    | some may' => absSafe f raise busyLvl as may'

theorem absSafe_append (f : Fam) (raise : List UInt8) (busyLvl : Bool) (a b : List Act) (may : Bool) :
    absSafe f raise busyLvl (a ++ b) may = (absSafe f raise busyLvl a may).bind (absSafe f raise busyLvl b) := by
  induction a generalizing may with
  | nil => rfl
  | cons x xs ih =>
    simp only [List.cons_append, absSafe]
    split
    · rfl
    · exact ih _

def Abstracts (may : Bool) (e : Env) (m : Mon) : Prop := may = false → ((e.busy != 0) && m.refr) = false

/-- a wait with the panel's polarity never hangs and returns idle -/
theorem waitLoop_match (e : Env) (busyLow : Bool) (h : busyLow = !e.busyLvl) (n : Nat) :
    (waitLoop e busyLow n).2.1 = 0 ∧ (waitLoop e busyLow n).2.2 = false := by
  induction n with
  | zero => subst h; simp [waitLoop]
  | succ n ih =>
    simp only [waitLoop]
    have : (e.busyLvl != busyLow) = true := by subst h; cases e.busyLvl <;> rfl
    rw [if_pos this]
    exact ih

theorem burst_busy (e : Env) (dc : Bool) (c : Nat) (bs : List UInt8) :
    (burst e dc c bs).2.1.busy = e.busy ∧ (burst e dc c bs).2.1.busyLvl = e.busyLvl ∧
    (burst e dc c bs).2.1.raise = e.raise := by
  unfold burst
  split
  · exact ⟨rfl, rfl, rfl⟩
  · simp only []
    split <;> exact ⟨rfl, rfl, rfl⟩

theorem waitCmdLoop_match (busyLow : Bool) (c : UInt8) (n : Nat) :
    ∀ (e : Env), busyLow = !e.busyLvl →
      (waitCmdLoop busyLow c n e).2.2 ≠ .hang ∧
      ((waitCmdLoop busyLow c n e).2.2 = .ok → (waitCmdLoop busyLow c n e).2.1.busy = 0) ∧
      (waitCmdLoop busyLow c n e).2.1.busyLvl = e.busyLvl ∧ (waitCmdLoop busyLow c n e).2.1.raise = e.raise := by
  induction n with
  | zero =>
    intro e h
    have : ((!e.busyLvl) != busyLow) = false := by subst h; cases e.busyLvl <;> rfl
    simp [waitCmdLoop, this]
  | succ n ih =>
    intro e h
    simp only [waitCmdLoop]
    have : (e.busyLvl != busyLow) = true := by subst h; cases e.busyLvl <;> rfl
    rw [if_pos this]
    have hb := burst_busy e false 1 [c]
    split
    · have := ih (burst e false 1 [c]).2.1 (by rw [hb.2.1]; exact h)
      refine ⟨this.1, this.2.1, ?_, ?_⟩
      · rw [this.2.2.1, hb.2.1]
      · rw [this.2.2.2, hb.2.2]
    · refine ⟨by simp, by simp, ?_, ?_⟩
      · exact hb.2.1
      · exact hb.2.2

/-- one action -/
theorem step_sound (f : Fam) (a : Act) (may may' : Bool) (e : Env) (d : DState) (m : Mon)
    (h : absStep f e.raise e.busyLvl a may = some may') (ha : Abstracts may e m) (hv : m.viol = false) :
    (stepAct e d a).2.2.2 ≠ .hang ∧ (monStep f m e a).viol = false ∧
    ((stepAct e d a).2.2.2 = .ok → Abstracts may' (stepAct e d a).2.1 (monStep f m e a)) ∧
    (stepAct e d a).2.1.raise = e.raise ∧ (stepAct e d a).2.1.busyLvl = e.busyLvl := by
  cases a with
  | cmd c =>
    simp only [absStep] at h
    split at h
    · cases h
    · rename_i hc
      simp only [Option.some.injEq] at h
      have hb := burst_busy e false 1 [c]
      have hnr : (((e.busy != 0) && m.refr) && (f.refresh.contains c || f.image.contains c)) = false := by
        cases hm : may
        · rw [ha hm]; rfl
        · rw [hm] at hc
          cases hx : (f.refresh.contains c || f.image.contains c)
          · simp
          · rw [hx] at hc; simp at hc
      have hraiseE : (stepAct e d (.cmd c)).2.1.raise = e.raise := by
        simp only [stepAct, doCmd]
        split
        · simp only [Env.raiseBusy]; split <;> exact hb.2.2
        · exact hb.2.2
      have hlvlE : (stepAct e d (.cmd c)).2.1.busyLvl = e.busyLvl := by
        simp only [stepAct, doCmd]
        split
        · simp only [Env.raiseBusy]; split <;> exact hb.2.1
        · exact hb.2.1
      refine ⟨?_, ?_, ?_, hraiseE, hlvlE⟩
      · simp only [stepAct]; split <;> simp
      · simp only [monStep, hv, hnr, Bool.false_or]
      · intro _ hm'
        unfold Abstracts at ha
        by_cases hr : e.raise.contains c = true
        · -- a raising command: the new episode is a refresh episode iff the command is a trigger
          simp only [hr, ↓reduceIte] at h
          simp only [monStep, hr, ↓reduceIte]
          rw [h, hm']; simp
        · have hr' : e.raise.contains c = false := by simpa using hr
          simp only [hr', Bool.false_eq_true, ↓reduceIte] at h
          subst h
          have hbusy : (stepAct e d (.cmd c)).2.1.busy = e.busy := by
            simp only [stepAct, doCmd, hr', Bool.and_false, Bool.false_eq_true, ↓reduceIte]
            exact hb.1
          simp only [monStep, hr', Bool.false_eq_true, ↓reduceIte]
          rw [hbusy]
          exact ha hm'
  | wait bl =>
    simp only [absStep] at h
    split at h
    · rename_i hbl
      simp only [Option.some.injEq] at h
      have hw := waitLoop_match e bl hbl e.busy
      refine ⟨?_, hv, ?_, rfl, rfl⟩
      · simp only [stepAct, hw.2]; simp
      · intro _ _
        simp only [stepAct, monStep, hw.1]; simp
    · cases h
  | waitCmd bl c =>
    simp only [absStep] at h
    split at h
    · rename_i hbl
      simp only [Option.some.injEq] at h
      have hb := burst_busy e false 1 [c]
      simp only [stepAct]
      split
      · have hw := waitCmdLoop_match bl c (burst e false 1 [c]).2.1.busy (burst e false 1 [c]).2.1
          (by rw [hb.2.1]; exact hbl.1)
        refine ⟨hw.1, hv, ?_, ?_, ?_⟩
        · intro hok _
          simp only [monStep]
          rw [hw.2.1 hok]; simp
        · rw [hw.2.2.2, hb.2.2]
        · rw [hw.2.2.1, hb.2.1]
      · refine ⟨by simp, hv, by simp, hb.2.2, hb.2.1⟩
    · cases h
  | reset a b =>
    simp only [absStep, Option.some.injEq] at h
    refine ⟨by simp [stepAct], hv, ?_, ?_, ?_⟩
    · intro _ _; simp [monStep]
    · simp [stepAct, Env.raiseBusy]; split <;> rfl
    · simp [stepAct, Env.raiseBusy]; split <;> rfl
  | data bs =>
    simp only [absStep, Option.some.injEq] at h; subst h
    have hb := burst_busy e true e.chunk bs
    refine ⟨?_, hv, ?_, hb.2.2, hb.2.1⟩
    · simp only [stepAct]; split <;> simp
    · intro _ hm; simp only [stepAct, monStep, hb.1]; exact ha hm
  | rep v n =>
    simp only [absStep, Option.some.injEq] at h; subst h
    have hb := burst_busy e true 1 (List.replicate n v)
    refine ⟨?_, hv, ?_, hb.2.2, hb.2.1⟩
    · simp only [stepAct]; split <;> simp
    · intro _ hm; simp only [stepAct, monStep, hb.1]; exact ha hm
  | delayUs n =>
    simp only [absStep, Option.some.injEq] at h; subst h
    exact ⟨by simp [stepAct], hv, fun _ hm => ha hm, rfl, rfl⟩
  | delayMs n =>
    simp only [absStep, Option.some.injEq] at h; subst h
    exact ⟨by simp [stepAct], hv, fun _ hm => ha hm, rfl, rfl⟩
  | upd g =>
    simp only [absStep, Option.some.injEq] at h; subst h
    exact ⟨by simp [stepAct], hv, fun _ hm => ha hm, rfl, rfl⟩
  | panic =>
    simp only [absStep, Option.some.injEq] at h; subst h
    exact ⟨by simp [stepAct], hv, fun _ hm => ha hm, rfl, rfl⟩

/-- MAIN: an accepted program, in EVERY environment (any busy schedule, any pending episode the
    abstract start state allows, any fault budget): the run does not hang, never sends image data
    or a refresh trigger into a refresh that is still signalled busy, and — if it completes — ends
    in a state the abstract result describes. -/
theorem absSafe_sound (f : Fam) (acts : List Act) : ∀ (may may' : Bool) (e : Env) (d : DState) (m : Mon),
    absSafe f e.raise e.busyLvl acts may = some may' → Abstracts may e m → m.viol = false →
    (mrun f acts e d m).2.2 ≠ .hang ∧ (mrun f acts e d m).1.viol = false ∧
    ((mrun f acts e d m).2.2 = .ok → Abstracts may' (mrun f acts e d m).2.1 (mrun f acts e d m).1) := by
  induction acts with
  | nil =>
    intro may may' e d m h ha hv
    simp only [absSafe, Option.some.injEq] at h; subst h
    exact ⟨by simp [mrun], hv, fun _ => ha⟩
  | cons a as ih =>
    intro may may' e d m h ha hv
    simp only [absSafe] at h
    split at h
    · cases h
    · rename_i mid hmid
      obtain ⟨h1, h2, h3, h4, h5⟩ := step_sound f a may mid e d m hmid ha hv
      simp only [mrun]
      split
      · rename_i hok
        have := ih mid may' (stepAct e d a).2.1 (stepAct e d a).2.2.1 (monStep f m e a)
          (by rw [h4, h5]; exact h) (h3 hok) h2
        exact this
      · rename_i x hx
        refine ⟨?_, h2, ?_⟩
        · intro hh; exact h1 (by simpa using hh)
        · intro hh; exact absurd hh (by simpa using hx)

/-- corollary: an explicit `wait_until_idle` (an accepted program ending in a wait) returns only
    with the panel idle -/
theorem wait_returns_idle (e : Env) (d : DState) (bl : Bool) (h : bl = !e.busyLvl) :
    (runActs e d [.wait bl]).2.2.2 = .ok ∧ (runActs e d [.wait bl]).2.1.busy = 0 := by
  have hw := waitLoop_match e bl h e.busy
  simp [runActs, stepAct, hw.1, hw.2]

/-- between polls the interface sleeps exactly the configured idle delay (none when 0) -/
theorem delay_between_polls (e : Env) :
    delayEvs e = if e.delayUs > 0 then [Ev.delay .us e.delayUs] else [] := rfl

/-- number of polls of a matching wait: the remaining busy duration plus exactly one idle poll -/
theorem polls_of_wait (e : Env) (bl : Bool) (h : bl = !e.busyLvl) (n : Nat) :
    ((waitLoop e bl n).1.filter fun ev => match ev with | .busy _ => true | _ => false).length = n + 1 := by
  induction n with
  | zero => subst h; simp [waitLoop]
  | succ n ih =>
    simp only [waitLoop]
    have : (e.busyLvl != bl) = true := by subst h; cases e.busyLvl <;> rfl
    rw [if_pos this]
    simp only [List.filter_cons, List.filter_append]
    have hd : (delayEvs e).filter (fun ev => match ev with | .busy _ => true | _ => false) = [] := by
      unfold delayEvs; split <;> rfl
    simp [hd, ih]

/-- non-vacuity: the check accepts a wait-first update and rejects a refresh without wait -/
example : absSafe ⟨[0x12], [0x10, 0x13]⟩ [0x04, 0x02, 0x12] false
    [.wait true, .cmd 0x10, .data [1, 2], .cmd 0x12, .wait true] true = some false := by decide
example : absSafe ⟨[0x12], [0x10, 0x13]⟩ [0x04, 0x02, 0x12] false
    [.cmd 0x12, .cmd 0x10] false = none := by decide

end EpdVerif.Props.C05
