import EpdVerif.Props.C02Bytewise
import EpdVerif.Props.C02Composed
import EpdVerif.Props.C08Sleep
/-!
# Non-vacuity of the session-4 theorems: concrete controller states meet their hypotheses

Every hypothesis about the controller state in `C01Bytewise`, `C02Composed` / `C02Bytewise`, `C06Win`,
`C07Clear`, `C08Sleep` is of the form "awake, (outside partial mode,) of the panel's kind, planes of the
panel's size".  The controller as the panel table constructs it (`Uc.por` / `Ssd.por` with the panel's
parameters) satisfies all of them, with a frame buffer of the documented length.
-/
namespace EpdVerif.Props.NonVacuity
open EpdVerif

-- epd2in7b (176 x 264, 1 bpp, 0x14 commands): C01Bytewise / C02Bytewise / C06Bytewise
example : (Uc.por 176 264 1 9 true).asleep = false ∧ (Uc.por 176 264 1 9 true).partialOn = false ∧
    (Uc.por 176 264 1 9 true).has14 = true ∧ (Uc.por 176 264 1 9 true).width = 176 ∧
    (List.replicate 5808 (0xA5 : UInt8)).length = (Uc.por 176 264 1 9 true).p1.size ∧
    (Uc.por 176 264 1 9 true).p2.size = Gen.Epd2in7b.WIDTH / 8 * Gen.Epd2in7b.HEIGHT := by decide +kernel

-- epd1in54b (200 x 200, 2-bpp first plane): two wire bytes per buffer byte
example : (Uc.por 200 200 2 7 false).asleep = false ∧ (Uc.por 200 200 2 7 false).partialOn = false ∧
    2 * (List.replicate 5000 (0x3C : UInt8)).length = (Uc.por 200 200 2 7 false).p1.size ∧
    (Uc.por 200 200 2 7 false).p2.size = Gen.Epd1in54b.WIDTH * (Gen.Epd1in54b.HEIGHT / 8) := by decide +kernel

-- epd7in5 (640 x 384, 4-bpp plane): four wire bytes per buffer byte
example : (Uc.por 640 384 4 9 false).asleep = false ∧ (Uc.por 640 384 4 9 false).partialOn = false ∧
    4 * (List.replicate 30720 (0x0F : UInt8)).length = (Uc.por 640 384 4 9 false).p1.size := by decide +kernel

-- SSD16xx composed theorems (epd2in9: RAM 30 x 320, data-entry mode 3 as after construction)
example : Ssd.WfSize (Ssd.por false 30 320) ∧ (Ssd.por false 30 320).asleep = false ∧ (Ssd.por false 30 320).entry = 3 ∧
    (Ssd.por false 30 320).xPix = false ∧ (Ssd.por false 30 320).stride = 30 ∧ (Ssd.por false 30 320).rows = 320 :=
  ⟨Ssd.por_wf _ _ _, rfl, rfl, rfl, rfl, rfl⟩

-- the recovery theorems assume NOTHING about the state but its kind: even a sleeping controller in partial mode
example : ({ Uc.por 400 300 1 9 false with asleep := true, partialOn := true } : Uc).has14 = false ∧
    ({ Uc.por 400 300 1 9 false with asleep := true, partialOn := true } : Uc).p2.size = 15000 := by decide +kernel

end EpdVerif.Props.NonVacuity
