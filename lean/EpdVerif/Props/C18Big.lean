import EpdVerif.Props.C02Big
/-!
# C18 on the 12.48in driver — defined opcodes, complete blocks, each chip's own geometry

About the model of `src/epd12in48b_v2/mod.rs` in `EpdVerif/Big.lean` (tied to the source by the
correspondence runs of `./vcheck C18`, which contain that driver; the opcode table
`Command.all` is regenerated from the driver's `Command` enum on every run).

* `big_prog_defined` — every opcode that ANY public call sends as a command, for any arguments,
  is one of the driver's defined commands (and none of them is sent as part of a longer
  command transfer: `prog_framed` in `Props/C15`);
* `big_lut_block_complete` — a LUT upload of a table not longer than the register sends exactly
  the register's length (table + zero padding), for all six tables and every table length;
* `big_resolution_geometry` — the TconResolution block of each chip is that chip's own width and
  height, big-endian: S2 / M1 648 × 492, M2 / S1 656 × 492;
* `big_window_block_length` — every 0x90 block has nine bytes, for every window.
-/
namespace EpdVerif.Props.C18
open EpdVerif EpdVerif.Big EpdVerif.Gen.Epd12in48b_v2 EpdVerif.Props.C09

def Defined (b : UInt8) : Prop := b ∈ Command.all
instance (b : UInt8) : Decidable (Defined b) := by unfold Defined; infer_instance

theorem big_prog_defined (op : PubOp) (hr : op ≠ .reset) (hw : WfOp op) : CmdsIn Defined (progOf op) := by
  have fl : CmdsIn Defined [BAct.flush] := CmdsIn_other _ (by intro c d hh; cases hh) (by intro hh; cases hh)
  have wr : CmdsIn Defined [BAct.waitReady] := CmdsIn_other _ (by intro c d hh; cases hh) (by intro hh; cases hh)
  have mw : CmdsIn Defined [BAct.waitReady, BAct.delayMs 100] := by
    intro x hx
    simp only [List.mem_cons, List.mem_nil_iff, or_false] at hx
    rcases hx with h | h <;> (rw [h]; exact ⟨(by intro hh; cases hh), fun c d he => (by cases he)⟩)
  have br : CmdsIn Defined beginRefresh := by
    unfold beginRefresh
    exact CmdsIn_append (CmdsIn_append (CmdsIn_append (CmdsIn_cmd _ _ (by decide)) mw) (CmdsIn_cmd _ _ (by decide))) fl
  have brp : ∀ w, CmdsIn Defined (beginRefreshPartial w) := by
    intro w
    unfold beginRefreshPartial
    exact CmdsIn_append (CmdsIn_append (CmdsIn_append (CmdsIn_append (CmdsIn_append (CmdsIn_append
      (CmdsIn_setup w (by decide)) (CmdsIn_cmd _ _ (by decide))) mw) (CmdsIn_cmd _ _ (by decide)))
      (CmdsIn_cmd _ _ (by decide))) (CmdsIn_cmd _ _ (by decide))) fl
  cases op <;> unfold progOf
  case reset => exact absurd rfl hr
  case init c =>
    unfold initP
    refine CmdsIn_append (CmdsIn_append (CmdsIn_append (CmdsIn_append (CmdsIn_append (CmdsIn_append (CmdsIn_append (CmdsIn_append
      (CmdsIn_append (CmdsIn_append (CmdsIn_append ?_ ?_) ?_) ?_) ?_) ?_) ?_) ?_) ?_) ?_)
      (CmdsIn_setMode c (by decide) (by decide))) fl
    all_goals exact CmdsIn_cmdData _ _ _ (by decide)
  case mode c => exact CmdsIn_setMode c (by decide) (by decide)
  case d1 px => exact CmdsIn_append (CmdsIn_wwd _ _ _ (by decide)) fl
  case d2 px => exact CmdsIn_append (CmdsIn_wwd _ _ _ (by decide)) fl
  case d1p w px => exact CmdsIn_append (CmdsIn_writePartial _ _ _ (by decide) (by decide) (by decide) (by decide)) fl
  case d2p w px => exact CmdsIn_append (CmdsIn_writePartial _ _ _ (by decide) (by decide) (by decide) (by decide)) fl
  case refresh => exact CmdsIn_append br wr
  case brefresh => exact br
  case refreshp w => exact CmdsIn_append (brp w) wr
  case brefreshp w => exact brp w
  case poweroff =>
    exact CmdsIn_append (CmdsIn_cmd _ _ (by decide)) (show CmdsIn Defined ([BAct.waitReady] ++ [BAct.flush]) from CmdsIn_append wr fl)
  case hibernate =>
    exact CmdsIn_append (CmdsIn_append (CmdsIn_append (CmdsIn_cmd _ _ (by decide)) wr) (CmdsIn_cmdData _ _ _ (by decide))) fl
  case lut c n d =>
    unfold setLut
    have hc : Defined c := by
      simp only [WfOp, List.mem_cons, List.mem_nil_iff, or_false] at hw
      rcases hw with h | h | h | h | h | h <;> (rw [h]; decide)
    refine CmdsIn_append (CmdsIn_append (CmdsIn_cmdData _ _ _ hc) ?_) fl
    split
    · intro x hx
      simp only [List.mem_singleton] at hx
      subst hx
      refine ⟨(by intro hh; cases hh), ?_⟩
      intro c' d' he hlt
      injection he with h1 h2
      subst h1
      simp only [CS_ALLm, CS_ALL, DATA, CS_DATA] at hlt
      omega
    · exact CmdsIn_nil
  case status => exact CmdsIn_other _ (by intro c d hh; cases hh) (by intro hh; cases hh)
  case busy => exact CmdsIn_other _ (by intro c d hh; cases hh) (by intro hh; cases hh)

/-- the data bytes a program sends (everything with `CS_DATA` set), in order -/
def dataOf : List BAct → Bytes
  | [] => []
  | .sw c d :: r => (if c ≥ 16 then d else []) ++ dataOf r
  | _ :: r => dataOf r

/-- a LUT table not longer than its register is completed to exactly the register's length -/
theorem big_lut_block_complete (c : UInt8) (data : Bytes) (reqd : Nat) (h : data.length ≤ reqd) :
    (dataOf (setLut c data reqd)).length = reqd := by
  unfold setLut
  by_cases hl : data.length < reqd
  · simp [hl, dataOf, Big.cmdData, CS_ALLm, CS_ALL, DATA, CS_DATA]; omega
  · simp [hl, dataOf, Big.cmdData, CS_ALLm, CS_ALL, DATA, CS_DATA]; omega

theorem big_resolution_geometry :
    resData s2Rect = [u8 (648 / 256), u8 (648 % 256), u8 (492 / 256), u8 (492 % 256)] ∧
    resData m1Rect = [u8 (648 / 256), u8 (648 % 256), u8 (492 / 256), u8 (492 % 256)] ∧
    resData m2Rect = [u8 (656 / 256), u8 (656 % 256), u8 (492 / 256), u8 (492 % 256)] ∧
    resData s1Rect = [u8 (656 / 256), u8 (656 % 256), u8 (492 / 256), u8 (492 % 256)] := by decide

theorem big_window_block_length (w : Rect) (r : Option Nat) : (partialWindowData w r).2.length = 9 := by
  unfold partialWindowData
  split
  · rfl
  · rfl

end EpdVerif.Props.C18
