import EpdVerif.Props.Structural
/-!
# C08 — sleep enters deep sleep; wake_up resets and restores

Controller side (both families): the deep-sleep block puts the simulator to sleep, in which
every block except a hardware reset is ignored; a hardware reset wakes it and restores the
power-on registers.  Driver side, per panel and for all driver fields (`Props/Panels/*.lean`,
namespace `C08`): the last command block of `sleep` is the family's deep-sleep command
(`*_sleep_ends_deep`), `wake_up` begins with a well-formed reset pulse (C11) and programs the
same registers as construction does for the current settings (`*_wake_like_new`).
Panels whose `sleep` does not end in deep sleep (1in54, 2in9, 2in13b_v4, 1in54b) have no
`sleep_ends_deep` instance: known findings.
-/
namespace EpdVerif.Props.C08
open EpdVerif

theorem uc_deep_sleep (u : Uc) (ha : u.asleep = false) : (u.feed (.c 0x07 [0xA5])).asleep = true := by
  have h1 : ¬ ((0x07 : UInt8) = 0x10) := by decide
  have h2 : ¬ ((0x07 : UInt8) = 0x13) := by decide
  have h3 : ¬ ((0x07 : UInt8) = 0x14) := by decide
  have h4 : ¬ ((0x07 : UInt8) = 0x15) := by decide
  simp [Uc.feed, Uc.regStep, ha]

theorem uc_asleep_ignores (u : Uc) (ha : u.asleep = true) (c : UInt8) (ps : List UInt8) :
    (u.feed (.c c ps)).p1 = u.p1 ∧ (u.feed (.c c ps)).p2 = u.p2 ∧ (u.feed (.c c ps)).asleep = true ∧
    (u.feed (.c c ps)).ignored = u.ignored + 1 := by
  simp [Uc.feed, Uc.regStep, ha]

theorem uc_reset_wakes (u : Uc) : (u.feed .rst).asleep = false ∧ (u.feed .rst).initialised = false := ⟨rfl, rfl⟩

theorem ssd_deep_sleep (s : Ssd) (ha : s.asleep = false) (m : UInt8) (hm : m.toNat % 4 ≠ 0) :
    (s.feed (.c 0x10 [m])).asleep = true := by
  simp [Ssd.feed, Ssd.regStep, ha, hm]

/-- mode 0 is "normal mode": the controller does NOT go to sleep (1in54, 2in9, 2in13b_v4) -/
theorem ssd_mode0_no_sleep (s : Ssd) (ha : s.asleep = false) : (s.feed (.c 0x10 [0x00])).asleep = false := by
  simp [Ssd.feed, Ssd.regStep, ha]

theorem ssd_asleep_ignores (s : Ssd) (ha : s.asleep = true) (c : UInt8) (ps : List UInt8) :
    (s.feed (.c c ps)).bw = s.bw ∧ (s.feed (.c c ps)).red = s.red ∧ (s.feed (.c c ps)).asleep = true := by
  simp [Ssd.feed, ha]

theorem ssd_reset_wakes (s : Ssd) : (s.feed .rst).asleep = false ∧ (s.feed .rst).initialised = false := ⟨rfl, rfl⟩

end EpdVerif.Props.C08
