import EpdVerif.Props.C07Clear
import EpdVerif.Drivers.Epd2in7b
import EpdVerif.Drivers.Epd1in54b
import EpdVerif.Drivers.Epd7in5
/-!
# C01 for a driver that sends the frame ONE BYTE PER TRANSFER through a re-encoding (session 4)

`Props/E2E/DROPPED.txt` lists 1in54b, 2in7b and 7in5 as "the shape of the program depends on the
buffer's spine": their `update_frame` loops `data(&[f(b)])` over the buffer, so no evaluation with a
free buffer variable can produce the block list.  `blocksOf_cmd_dataEach` removes the obstacle once
and for all: at the level of controller blocks, a command followed by its data sent byte by byte
and closed by the next command is THE SAME as the data sent in one transfer (induction over the
bytes on the grouping state).  First use: **`epd2in7b_update_frame_delivers`** — for every buffer of the
frame's size and every awake epd2in7b-kind controller outside partial mode, after `update_frame` the
B/W plane holds the bit-inverted buffer (the panel's documented encoding) and the other plane the
uniform inverted background.  `blocksOf_cmd_chunks` is the same for ANY sequence of transfers (one chunk each);
with it **`epd1in54b_update_frame_delivers`**: the 2-bpp plane receives the driver's two-byte expansion of
every buffer byte, in order.  `blocksOf_cmd_dataEach_end` covers data closed by the END of the call: **`epd7in5_update_frame_delivers`**
(4-bpp plane = the four-byte expansion of every buffer byte).  All three drivers of `E2E/DROPPED.txt`'s
"spine" class now have their `update_frame` theorem.
-/
namespace EpdVerif

theorem fold_dataEach (bs : List UInt8) : ∀ g : GState,
    (bs.map (fun x => Ev.w true 1 [x])).foldl GState.step g
      = { g with pieces := (bs.reverse.map fun x => [x]) ++ g.pieces } := by
  induction bs with
  | nil => intro g; rfl
  | cons x xs ih =>
    intro g
    simp only [List.map_cons, List.foldl_cons]
    rw [ih]
    simp only [GState.step, List.reverse_cons, List.map_append, List.map_cons, List.map_nil, List.append_assoc,
      List.cons_append, List.nil_append]

theorem flatten_singletons (bs : List UInt8) : (bs.map fun x => [x]).flatten = bs := by
  induction bs with
  | nil => rfl
  | cons x xs ih => simp only [List.map_cons, List.flatten_cons, ih, List.cons_append, List.nil_append]

theorem actsToEvs_dataEach (bs : List UInt8) (rest : List Act) :
    actsToEvs (dataEach bs ++ rest) = (bs.map fun x => Ev.w true 1 [x]) ++ actsToEvs rest := by
  induction bs with
  | nil => rfl
  | cons x xs ih =>
    show actsToEvs (Act.data [x] :: (dataEach xs ++ rest)) = _
    simp only [actsToEvs, ih, List.map_cons, List.cons_append]

theorem actsToEvs_append (a b : List Act) : actsToEvs (a ++ b) = actsToEvs a ++ actsToEvs b := by
  induction a with
  | nil => rfl
  | cons x xs ih =>
    cases x <;> simp only [List.cons_append, actsToEvs, ih, List.cons_append]

/-- with a command open, `bs` sent byte by byte and then closed by the next command leaves the same
    grouping state as `bs` sent in one transfer -/
theorem step_dataEach_then_cmd (g : GState) (c : UInt8) (hc : g.cur = some c) (bs : List UInt8) (c2 : UInt8) :
    GState.step ((bs.map (fun x => Ev.w true 1 [x])).foldl GState.step g) (Ev.w false 1 [c2])
      = GState.step (GState.step g (Ev.w true 1 bs)) (Ev.w false 1 [c2]) := by
  rw [fold_dataEach]
  simp only [GState.step, GState.cmds, GState.close, hc]
  have e : ((List.map (fun x => [x]) bs.reverse ++ g.pieces).reverse).flatten = ((bs :: g.pieces).reverse).flatten := by
    simp only [List.reverse_append, List.reverse_cons, List.flatten_append, ← List.map_reverse, List.reverse_reverse,
      flatten_singletons, List.flatten_cons, List.flatten_nil, List.append_nil]
  rw [e]

/-- a command, its data sent ONE BYTE PER TRANSFER, then the next command: the controller sees the same
    blocks as if the data had been sent in one transfer (block-level equivalence of `dataEach`) -/
theorem blocksOf_cmd_dataEach (pre : List Act) (c : UInt8) (bs : List UInt8) (c2 : UInt8) (rest : List Act) :
    blocksOf (pre ++ Act.cmd c :: (dataEach bs ++ Act.cmd c2 :: rest))
      = blocksOf (pre ++ Act.cmd c :: Act.data bs :: Act.cmd c2 :: rest) := by
  unfold blocksOf blocksOfEvs
  have h1 : actsToEvs (pre ++ Act.cmd c :: (dataEach bs ++ Act.cmd c2 :: rest))
      = actsToEvs pre ++ (Ev.w false 1 [c] :: ((bs.map fun x => Ev.w true 1 [x]) ++ (Ev.w false 1 [c2] :: actsToEvs rest))) := by
    rw [actsToEvs_append]; simp only [actsToEvs, actsToEvs_dataEach]
  have h2 : actsToEvs (pre ++ Act.cmd c :: Act.data bs :: Act.cmd c2 :: rest)
      = actsToEvs pre ++ (Ev.w false 1 [c] :: Ev.w true 1 bs :: Ev.w false 1 [c2] :: actsToEvs rest) := by
    rw [actsToEvs_append]; simp only [actsToEvs]
  rw [h1, h2]
  simp only [List.foldl_append, List.foldl_cons]
  have hcur : (GState.step (List.foldl GState.step {} (actsToEvs pre)) (Ev.w false 1 [c])).cur = some c := by
    simp only [GState.step, GState.cmds]
  rw [step_dataEach_then_cmd _ c hcur bs c2]
theorem fold_chunks (chunks : List (List UInt8)) : ∀ g : GState,
    (chunks.map (fun c => Ev.w true 1 c)).foldl GState.step g = { g with pieces := chunks.reverse ++ g.pieces } := by
  induction chunks with
  | nil => intro g; rfl
  | cons x xs ih =>
    intro g
    simp only [List.map_cons, List.foldl_cons]
    rw [ih]
    simp only [GState.step, List.reverse_cons, List.append_assoc, List.cons_append, List.nil_append]

theorem actsToEvs_chunks (chunks : List (List UInt8)) (rest : List Act) :
    actsToEvs (chunks.map Act.data ++ rest) = (chunks.map fun c => Ev.w true 1 c) ++ actsToEvs rest := by
  induction chunks with
  | nil => rfl
  | cons x xs ih => simp only [List.map_cons, List.cons_append, actsToEvs, ih]

theorem step_chunks_then_cmd (g : GState) (c : UInt8) (hc : g.cur = some c) (chunks : List (List UInt8)) (c2 : UInt8) :
    GState.step ((chunks.map (fun c => Ev.w true 1 c)).foldl GState.step g) (Ev.w false 1 [c2])
      = GState.step (GState.step g (Ev.w true 1 chunks.flatten)) (Ev.w false 1 [c2]) := by
  rw [fold_chunks]
  simp only [GState.step, GState.cmds, GState.close, hc]
  have e : ((chunks.reverse ++ g.pieces).reverse).flatten = ((chunks.flatten :: g.pieces).reverse).flatten := by
    simp only [List.reverse_append, List.reverse_reverse, List.reverse_cons, List.flatten_append, List.flatten_cons,
      List.flatten_nil, List.append_nil]
  rw [e]

/-- a command whose data is sent in ANY sequence of transfers (one chunk per transfer), closed by the next
    command: block-equivalent to the concatenated data sent in one transfer -/
theorem blocksOf_cmd_chunks (pre : List Act) (c : UInt8) (chunks : List (List UInt8)) (c2 : UInt8) (rest : List Act) :
    blocksOf (pre ++ Act.cmd c :: (chunks.map Act.data ++ Act.cmd c2 :: rest))
      = blocksOf (pre ++ Act.cmd c :: Act.data chunks.flatten :: Act.cmd c2 :: rest) := by
  unfold blocksOf blocksOfEvs
  have h1 : actsToEvs (pre ++ Act.cmd c :: (chunks.map Act.data ++ Act.cmd c2 :: rest))
      = actsToEvs pre ++ (Ev.w false 1 [c] :: ((chunks.map fun c => Ev.w true 1 c) ++ (Ev.w false 1 [c2] :: actsToEvs rest))) := by
    rw [actsToEvs_append]; simp only [actsToEvs, actsToEvs_chunks]
  have h2 : actsToEvs (pre ++ Act.cmd c :: Act.data chunks.flatten :: Act.cmd c2 :: rest)
      = actsToEvs pre ++ (Ev.w false 1 [c] :: Ev.w true 1 chunks.flatten :: Ev.w false 1 [c2] :: actsToEvs rest) := by
    rw [actsToEvs_append]; simp only [actsToEvs]
  rw [h1, h2]
  simp only [List.foldl_append, List.foldl_cons]
  have hcur : (GState.step (List.foldl GState.step {} (actsToEvs pre)) (Ev.w false 1 [c])).cur = some c := by
    simp only [GState.step, GState.cmds]
  rw [step_chunks_then_cmd _ c hcur chunks c2]
theorem close_dataEach (g : GState) (c : UInt8) (hc : g.cur = some c) (bs : List UInt8) :
    ((bs.map (fun x => Ev.w true 1 [x])).foldl GState.step g).close = (GState.step g (Ev.w true 1 bs)).close := by
  rw [fold_dataEach]
  simp only [GState.step, GState.close, hc]
  have e : ((List.map (fun x => [x]) bs.reverse ++ g.pieces).reverse).flatten = ((bs :: g.pieces).reverse).flatten := by
    simp only [List.reverse_append, List.reverse_cons, List.flatten_append, ← List.map_reverse, List.reverse_reverse,
      flatten_singletons, List.flatten_cons, List.flatten_nil, List.append_nil]
  rw [e]

/-- … and when the byte-by-byte data is closed by the END of the call instead of a command -/
theorem blocksOf_cmd_dataEach_end (pre : List Act) (c : UInt8) (bs : List UInt8) :
    blocksOf (pre ++ Act.cmd c :: dataEach bs) = blocksOf (pre ++ [Act.cmd c, Act.data bs]) := by
  unfold blocksOf blocksOfEvs
  have h1 : actsToEvs (pre ++ Act.cmd c :: dataEach bs)
      = actsToEvs pre ++ (Ev.w false 1 [c] :: (bs.map fun x => Ev.w true 1 [x])) := by
    rw [actsToEvs_append]
    have := actsToEvs_dataEach bs []
    rw [List.append_nil] at this
    simp only [actsToEvs, this, List.append_nil]
  have h2 : actsToEvs (pre ++ [Act.cmd c, Act.data bs]) = actsToEvs pre ++ [Ev.w false 1 [c], Ev.w true 1 bs] := by
    rw [actsToEvs_append]; simp only [actsToEvs]
  rw [h1, h2]
  simp only [List.foldl_append, List.foldl_cons, List.foldl_nil]
  have hcur : (GState.step (List.foldl GState.step {} (actsToEvs pre)) (Ev.w false 1 [c])).cur = some c := by
    simp only [GState.step, GState.cmds]
  rw [close_dataEach _ c hcur bs]
end EpdVerif

namespace EpdVerif.Props.C01
open EpdVerif Uc

/-- two complete data blocks outside partial mode, then a register command: both planes ARE the blocks -/
theorem uc_two_blocks_stop (u : Uc) (b1 b2 : List UInt8) (hu : u.asleep = false) (hp : u.partialOn = false)
    (h14 : u.has14 = true) (hl1 : b1.length = u.p1.size) (hl2 : b2.length = u.p2.size) :
    (u.run [Blk.c 0x10 b1, .c 0x13 b2, .c 0x11 []]).p1.toList = b1 ∧
    (u.run [Blk.c 0x10 b1, .c 0x13 b2, .c 0x11 []]).p2.toList = b2 := by
  have d1 := dtm_full u 0 b1 hp (by simpa using hl1)
  simp only [↓reduceIte] at d1
  have d2 := dtm_full (u.dtm 0 b1) 1 b2 d1.2.2.2.1 (by simp only [Nat.one_ne_zero, ↓reduceIte]; rw [d1.2.1]; exact hl2)
  simp only [Nat.one_ne_zero, ↓reduceIte] at d2
  have a1 := d1.2.2.2.2.2.1
  have a2 := d2.2.2.2.2.2.1
  have e : u.run [Blk.c 0x10 b1, .c 0x13 b2, .c 0x11 []] = ((u.dtm 0 b1).dtm 1 b2).feed (.c 0x11 []) := by
    simp (config := {decide := true}) only [Uc.run, List.foldl, Uc.feed, hu, a1, ↓reduceIte, Bool.false_eq_true]
  have a3 : ((u.dtm 0 b1).dtm 1 b2).asleep = false := by rw [a2, a1]; exact hu
  have k : (((u.dtm 0 b1).dtm 1 b2).feed (.c 0x11 [])).p1 = ((u.dtm 0 b1).dtm 1 b2).p1 ∧
      (((u.dtm 0 b1).dtm 1 b2).feed (.c 0x11 [])).p2 = ((u.dtm 0 b1).dtm 1 b2).p2 := by
    generalize (u.dtm 0 b1).dtm 1 b2 = z at a3 ⊢
    simp (config := {decide := true}) only [Uc.feed, Uc.regStep, a3, ↓reduceIte, Bool.false_eq_true, and_false, and_self, false_and]
  rw [e, k.1, k.2, d2.2.1]
  exact ⟨d1.1, d2.1⟩

open Drivers.Epd2in7b in
theorem epd2in7b_upd_blocks (f : Feat) (d : DState) (b : Bytes) :
    blocksOf ((prog f d (.upd b)).getD []) =
      [.c 0x10 (b.map (fun x => ~~~x) ++ []),
       .c 0x13 (List.replicate (Gen.Epd2in7b.WIDTH / 8 * Gen.Epd2in7b.HEIGHT) (~~~(byteValue d.bg)) ++ []), .c 0x11 []] := by
  have e : (prog f d (.upd b)).getD [] =
      [] ++ Act.cmd 0x10 :: (dataEach (b.map (fun x => ~~~x)) ++ Act.cmd 0x13 ::
        [.rep (~~~(byteValue d.bg)) (Gen.Epd2in7b.WIDTH / 8 * Gen.Epd2in7b.HEIGHT), .cmd 0x11]) := rfl
  rw [e, blocksOf_cmd_dataEach]
  rfl

open Drivers.Epd2in7b in
/-- **epd2in7b `update_frame`, EVERY buffer**: the B/W plane receives the bit-inverted buffer, byte for byte -/
theorem epd2in7b_update_frame_delivers (f : Feat) (d : DState) (b : Bytes) (u : Uc)
    (hu : u.asleep = false) (hp : u.partialOn = false) (h14 : u.has14 = true)
    (hl : b.length = u.p1.size) (h2 : u.p2.size = Gen.Epd2in7b.WIDTH / 8 * Gen.Epd2in7b.HEIGHT) :
    (u.run (blocksOf ((prog f d (.upd b)).getD []))).p1.toList = b.map (fun x => ~~~x) ∧
    (u.run (blocksOf ((prog f d (.upd b)).getD []))).p2.toList
      = List.replicate (Gen.Epd2in7b.WIDTH / 8 * Gen.Epd2in7b.HEIGHT) (~~~(byteValue d.bg)) := by
  rw [epd2in7b_upd_blocks]
  simp only [List.append_nil]
  exact uc_two_blocks_stop u _ _ hu hp h14 (by rw [List.length_map]; exact hl) (by rw [List.length_replicate]; exact h2.symm)

/-- a resolution block, then two complete data blocks outside partial mode: both planes ARE the blocks -/
theorem uc_res_two_blocks (u : Uc) (r b1 b2 : List UInt8) (hu : u.asleep = false) (hp : u.partialOn = false)
    (hl1 : b1.length = u.p1.size) (hl2 : b2.length = u.p2.size) :
    (u.run [Blk.c 0x61 r, .c 0x10 b1, .c 0x13 b2]).p1.toList = b1 ∧
    (u.run [Blk.c 0x61 r, .c 0x10 b1, .c 0x13 b2]).p2.toList = b2 := by
  have q := C07.feed_61 u r hu
  generalize hv : u.feed (.c 0x61 r) = v at q
  have e0 : u.run [Blk.c 0x61 r, .c 0x10 b1, .c 0x13 b2] = v.run [Blk.c 0x10 b1, .c 0x13 b2] := by
    rw [← hv]; rfl
  have hpv : v.partialOn = false := by rw [q.2.1]; exact hp
  have d1 := dtm_full v 0 b1 hpv (by simp only [↓reduceIte]; rw [q.2.2.1]; exact hl1)
  simp only [↓reduceIte] at d1
  have d2 := dtm_full (v.dtm 0 b1) 1 b2 d1.2.2.2.1 (by simp only [Nat.one_ne_zero, ↓reduceIte]; rw [d1.2.1, q.2.2.2.1]; exact hl2)
  simp only [Nat.one_ne_zero, ↓reduceIte] at d2
  have a1 := d1.2.2.2.2.2.1
  have e : v.run [Blk.c 0x10 b1, .c 0x13 b2] = (v.dtm 0 b1).dtm 1 b2 := by
    simp (config := {decide := true}) only [Uc.run, List.foldl, Uc.feed, q.1, a1, ↓reduceIte, Bool.false_eq_true]
  rw [e0, e, d2.2.1]
  exact ⟨d1.1, d2.1⟩

open Drivers.Epd1in54b in
theorem epd1in54b_upd_blocks (f : Feat) (d : DState) (b : Bytes) :
    blocksOf ((prog f d (.upd b)).getD []) =
      [.c 0x61 [u8 Gen.Epd1in54b.WIDTH, shr8 Gen.Epd1in54b.HEIGHT 8, u8 Gen.Epd1in54b.HEIGHT],
       .c 0x10 ((b.map expandBits).flatten ++ []),
       .c 0x13 (List.replicate (Gen.Epd1in54b.WIDTH * (Gen.Epd1in54b.HEIGHT / 8)) (byteValue d.bg) ++ [])] := by
  have e : (prog f d (.upd b)).getD [] =
      ([W] ++ sendResolution) ++ Act.cmd 0x10 :: ((b.map expandBits).map Act.data ++ Act.cmd 0x13 ::
        [.rep (byteValue d.bg) (Gen.Epd1in54b.WIDTH * (Gen.Epd1in54b.HEIGHT / 8))]) := by
    show updateFrame d b = _
    simp only [updateFrame, List.map_map, List.append_assoc, List.cons_append, List.nil_append]
    rfl
  rw [e, blocksOf_cmd_chunks]
  rfl

open Drivers.Epd1in54b in
theorem expandBits_length (x : UInt8) : (expandBits x).length = 2 := rfl

open Drivers.Epd1in54b in
theorem flatten_expand_length (b : Bytes) : ((b.map expandBits).flatten).length = 2 * b.length := by
  induction b with
  | nil => rfl
  | cons x xs ih =>
    simp only [List.map_cons, List.flatten_cons, List.length_append, expandBits_length, ih, List.length_cons]
    omega

open Drivers.Epd1in54b in
/-- **epd1in54b `update_frame`, EVERY buffer**: the 2-bpp B/W plane receives the driver's two-byte expansion
    of every buffer byte, in order (what `expand2_spec` relates to the pixels), the chromatic plane the
    uniform background -/
theorem epd1in54b_update_frame_delivers (f : Feat) (d : DState) (b : Bytes) (u : Uc)
    (hu : u.asleep = false) (hp : u.partialOn = false)
    (hl : 2 * b.length = u.p1.size) (h2 : u.p2.size = Gen.Epd1in54b.WIDTH * (Gen.Epd1in54b.HEIGHT / 8)) :
    (u.run (blocksOf ((prog f d (.upd b)).getD []))).p1.toList = (b.map expandBits).flatten ∧
    (u.run (blocksOf ((prog f d (.upd b)).getD []))).p2.toList
      = List.replicate (Gen.Epd1in54b.WIDTH * (Gen.Epd1in54b.HEIGHT / 8)) (byteValue d.bg) := by
  rw [epd1in54b_upd_blocks]
  simp only [List.append_nil]
  exact uc_res_two_blocks u _ _ _ hu hp (by rw [flatten_expand_length]; exact hl) (by rw [List.length_replicate]; exact h2.symm)


/-- the four wire bytes the driver sends for one buffer byte (1 bpp → 4 bpp, two pixels per byte) -/
def expand4 (b : UInt8) : List UInt8 :=
  let s0 := Drivers.Epd7in5.expandStep b
  let s1 := Drivers.Epd7in5.expandStep s0.2
  let s2 := Drivers.Epd7in5.expandStep s1.2
  let s3 := Drivers.Epd7in5.expandStep s2.2
  [s0.1, s1.1, s2.1, s3.1]

theorem flatMap_expandByte (b : Bytes) : b.flatMap Drivers.Epd7in5.expandByte = dataEach (b.flatMap expand4) := by
  induction b with
  | nil => rfl
  | cons x xs ih =>
    simp only [List.flatMap_cons, ih]
    show _ = List.map _ (expand4 x ++ List.flatMap expand4 xs)
    rw [List.map_append]
    rfl

theorem flatMap_expand4_length (b : Bytes) : (b.flatMap expand4).length = 4 * b.length := by
  induction b with
  | nil => rfl
  | cons x xs ih =>
    simp only [List.flatMap_cons, List.length_append, ih, List.length_cons]
    show 4 + 4 * xs.length = _
    omega

open Drivers.Epd7in5 in
theorem epd7in5_upd_blocks (f : Feat) (d : DState) (b : Bytes) :
    blocksOf ((prog f d (.upd b)).getD []) = [.c 0x10 (b.flatMap expand4 ++ [])] := by
  have e : (prog f d (.upd b)).getD [] = [W] ++ Act.cmd 0x10 :: dataEach (b.flatMap expand4) := by
    show updateFrame b = _
    unfold updateFrame
    rw [flatMap_expandByte]
    rfl
  rw [e, blocksOf_cmd_dataEach_end]
  rfl

open Drivers.Epd7in5 in
/-- **epd7in5 `update_frame`, EVERY buffer**: the 4-bpp plane receives the driver's four-byte expansion of
    every buffer byte, in order -/
theorem epd7in5_update_frame_delivers (f : Feat) (d : DState) (b : Bytes) (u : Uc)
    (hu : u.asleep = false) (hp : u.partialOn = false) (hl : 4 * b.length = u.p1.size) :
    (u.run (blocksOf ((prog f d (.upd b)).getD []))).p1.toList = b.flatMap expand4 := by
  rw [epd7in5_upd_blocks]
  simp only [List.append_nil]
  have d1 := dtm_full u 0 (b.flatMap expand4) hp (by simp only [↓reduceIte]; rw [flatMap_expand4_length]; exact hl)
  simp only [↓reduceIte] at d1
  have e : u.run [Blk.c 0x10 (b.flatMap expand4)] = u.dtm 0 (b.flatMap expand4) := by
    simp (config := {decide := true}) only [Uc.run, List.foldl, Uc.feed, hu, ↓reduceIte, Bool.false_eq_true]
  rw [e]
  exact d1.1

/-! ## epd2in7b colour-plane updates -/

/-- one complete data block outside partial mode, then a register command: the addressed plane IS the block,
    the other plane is untouched -/
theorem uc_block_stop (u : Uc) (plane : Nat) (cmd : UInt8) (hc : (cmd = 0x10 ∧ plane = 0) ∨ (cmd = 0x13 ∧ plane = 1))
    (bs : List UInt8) (hu : u.asleep = false) (hp : u.partialOn = false) (h14 : u.has14 = true)
    (hl : bs.length = (if plane = 0 then u.p1 else u.p2).size) :
    (if plane = 0 then (u.run [Blk.c cmd bs, .c 0x11 []]).p1 else (u.run [Blk.c cmd bs, .c 0x11 []]).p2).toList = bs ∧
    (if plane = 0 then (u.run [Blk.c cmd bs, .c 0x11 []]).p2 else (u.run [Blk.c cmd bs, .c 0x11 []]).p1)
      = (if plane = 0 then u.p2 else u.p1) := by
  have d1 := dtm_full u plane bs hp hl
  have a1 := d1.2.2.2.2.2.1
  have e : u.run [Blk.c cmd bs, .c 0x11 []] = (u.dtm plane bs).feed (.c 0x11 []) := by
    rcases hc with ⟨rfl, rfl⟩ | ⟨rfl, rfl⟩ <;>
      simp (config := {decide := true}) only [Uc.run, List.foldl, Uc.feed, hu, ↓reduceIte, Bool.false_eq_true]
  have a3 : (u.dtm plane bs).asleep = false := by rw [a1]; exact hu
  have k : ((u.dtm plane bs).feed (.c 0x11 [])).p1 = (u.dtm plane bs).p1 ∧ ((u.dtm plane bs).feed (.c 0x11 [])).p2 = (u.dtm plane bs).p2 := by
    generalize u.dtm plane bs = z at a3 ⊢
    simp (config := {decide := true}) only [Uc.feed, Uc.regStep, a3, ↓reduceIte, Bool.false_eq_true, and_false, and_self, false_and]
  rw [e, k.1, k.2]
  exact ⟨d1.1, d1.2.1⟩

open Drivers.Epd2in7b in
/-- **epd2in7b `update_achromatic_frame`, every buffer**: the B/W plane receives the inverted buffer, the chromatic
    plane is untouched -/
theorem epd2in7b_achromatic_delivers (f : Feat) (d : DState) (b : Bytes) (u : Uc)
    (hu : u.asleep = false) (hp : u.partialOn = false) (h14 : u.has14 = true) (hl : b.length = u.p1.size) :
    (u.run (blocksOf ((prog f d (.achro b)).getD []))).p1.toList = b.map (fun x => ~~~x) ∧
    (u.run (blocksOf ((prog f d (.achro b)).getD []))).p2 = u.p2 := by
  have e : (prog f d (.achro b)).getD [] = [] ++ Act.cmd 0x10 :: (dataEach (b.map (fun x => ~~~x)) ++ Act.cmd 0x11 :: []) := rfl
  have hb : blocksOf ((prog f d (.achro b)).getD []) = [.c 0x10 (b.map (fun x => ~~~x) ++ []), .c 0x11 []] := by
    rw [e, blocksOf_cmd_dataEach]; rfl
  rw [hb]
  simp only [List.append_nil]
  have k := uc_block_stop u 0 0x10 (Or.inl ⟨rfl, rfl⟩) (b.map (fun x => ~~~x)) hu hp h14 (by simp only [↓reduceIte, List.length_map]; exact hl)
  simp only [↓reduceIte] at k
  exact k

open Drivers.Epd2in7b in
/-- **epd2in7b `update_chromatic_frame`, every buffer**: the chromatic plane receives the inverted buffer, the B/W
    plane is untouched -/
theorem epd2in7b_chromatic_delivers (f : Feat) (d : DState) (c : Bytes) (u : Uc)
    (hu : u.asleep = false) (hp : u.partialOn = false) (h14 : u.has14 = true) (hl : c.length = u.p2.size) :
    (u.run (blocksOf ((prog f d (.chro c)).getD []))).p2.toList = c.map (fun x => ~~~x) ∧
    (u.run (blocksOf ((prog f d (.chro c)).getD []))).p1 = u.p1 := by
  have e : (prog f d (.chro c)).getD [] = [] ++ Act.cmd 0x13 :: (dataEach (c.map (fun x => ~~~x)) ++ Act.cmd 0x11 :: [W]) := rfl
  have hb : blocksOf ((prog f d (.chro c)).getD []) = [.c 0x13 (c.map (fun x => ~~~x) ++ []), .c 0x11 []] := by
    rw [e, blocksOf_cmd_dataEach]; rfl
  rw [hb]
  simp only [List.append_nil]
  have k := uc_block_stop u 1 0x13 (Or.inr ⟨rfl, rfl⟩) (c.map (fun x => ~~~x)) hu hp h14 (by simp only [Nat.one_ne_zero, ↓reduceIte, List.length_map]; exact hl)
  simp only [Nat.one_ne_zero, ↓reduceIte] at k
  exact k

end EpdVerif.Props.C01
