import EpdVerif.Props.C02Partial
import EpdVerif.Props.C01Bytewise
import EpdVerif.Props.Panels.Epd2in7b
import EpdVerif.Props.Panels.Epd1in54b
import EpdVerif.Props.Panels.Epd7in5
/-!
# C02 composed for the per-byte re-encoding drivers (session 4)

`uc_any_history` is the generic form of the generated composed theorems; with the `update_frame` theorems of
`Props/C01Bytewise` it gives "any history, any driver state, any buffer" for epd2in7b, epd1in54b and epd7in5 —
the three drivers for which no `E2EA` instance could be generated.
-/
namespace EpdVerif.Props.C02
open EpdVerif

/-- any history of mode-keeping / mode-establishing programs from a ready UC81xx-kind controller ends in a
    ready controller of the same kind with planes of the same size (generic form of the composed theorems) -/
theorem uc_any_history (p : Panel) (u0 : Uc) (hp : p.ctrl = .uc u0) (progs : List (List Act)) (u : Uc)
    (ha : u.asleep = false) (hpo : u.partialOn = false) (h14 : u.has14 = u0.has14)
    (h : ∀ a, a ∈ progs → keepsModeP p a = true ∨ establishesModeP p a = true) :
    ∃ u' : Uc, progs.foldl (fun c a => c.run (blocksOf a)) (Ctrl.uc u) = .uc u' ∧ u'.asleep = false ∧
      u'.partialOn = false ∧ u'.has14 = u0.has14 ∧ u'.p1.size = u.p1.size ∧ u'.p2.size = u.p2.size := by
  obtain ⟨u', e, s2, s1⟩ := uc_history progs u
  have hl : Like p.ctrl (.uc u) := by rw [hp]; exact h14
  have hr := history_ready p progs (.uc u) hl
    (by show (Uc.flags u).good = true; simp only [Uc.flags, ha, hpo]; rfl) h
  rw [e] at hr
  have g : (Uc.flags u').good = true := hr.1
  have l : u'.has14 = u0.has14 := by have := hr.2; rw [hp] at this; exact this
  refine ⟨u', e, ?_, ?_, l, s1, s2⟩
  · have := g; simp only [Uc.flags, Uc.Flags.good] at this; revert this; cases u'.asleep <;> simp
  · have := g; simp only [Uc.flags, Uc.Flags.good] at this; revert this; cases u'.asleep <;> cases u'.partialOn <;> simp

/-- **epd2in7b: any history, then `update_frame`** — every driver state, every buffer: the B/W plane holds the
    inverted buffer -/
theorem epd2in7b_any_history_then_update (progs : List (List Act)) (u : Uc)
    (ha : u.asleep = false) (hp : u.partialOn = false) (h14 : u.has14 = true)
    (h : ∀ a, a ∈ progs → keepsModeP (Drivers.Epd2in7b.panel {}) a = true ∨ establishesModeP (Drivers.Epd2in7b.panel {}) a = true)
    (d : DState) (b : Bytes) (hl : b.length = u.p1.size)
    (h2 : u.p2.size = Gen.Epd2in7b.WIDTH / 8 * Gen.Epd2in7b.HEIGHT) :
    ∃ u' : Uc, progs.foldl (fun c a => c.run (blocksOf a)) (Ctrl.uc u) = .uc u' ∧
      (u'.run (blocksOf ((Drivers.Epd2in7b.prog {} d (.upd b)).getD []))).p1.toList = b.map (fun x => ~~~x) := by
  obtain ⟨u', e, a', p', f', s1, s2⟩ := uc_any_history (Drivers.Epd2in7b.panel {}) _ rfl progs u ha hp (by rw [h14]; rfl) h
  exact ⟨u', e, (C01.epd2in7b_update_frame_delivers {} d b u' a' p' (by rw [f']; rfl) (by rw [s1]; exact hl) (by rw [s2]; exact h2)).1⟩

/-- **epd1in54b: any history, then `update_frame`** -/
theorem epd1in54b_any_history_then_update (progs : List (List Act)) (u : Uc)
    (ha : u.asleep = false) (hp : u.partialOn = false) (h14 : u.has14 = false)
    (h : ∀ a, a ∈ progs → keepsModeP (Drivers.Epd1in54b.panel {}) a = true ∨ establishesModeP (Drivers.Epd1in54b.panel {}) a = true)
    (d : DState) (b : Bytes) (hl : 2 * b.length = u.p1.size)
    (h2 : u.p2.size = Gen.Epd1in54b.WIDTH * (Gen.Epd1in54b.HEIGHT / 8)) :
    ∃ u' : Uc, progs.foldl (fun c a => c.run (blocksOf a)) (Ctrl.uc u) = .uc u' ∧
      (u'.run (blocksOf ((Drivers.Epd1in54b.prog {} d (.upd b)).getD []))).p1.toList = (b.map Drivers.Epd1in54b.expandBits).flatten := by
  obtain ⟨u', e, a', p', _, s1, s2⟩ := uc_any_history (Drivers.Epd1in54b.panel {}) _ rfl progs u ha hp (by rw [h14]; rfl) h
  exact ⟨u', e, (C01.epd1in54b_update_frame_delivers {} d b u' a' p' (by rw [s1]; exact hl) (by rw [s2]; exact h2)).1⟩

/-- **epd7in5: any history, then `update_frame`** -/
theorem epd7in5_any_history_then_update (progs : List (List Act)) (u : Uc)
    (ha : u.asleep = false) (hp : u.partialOn = false) (h14 : u.has14 = false)
    (h : ∀ a, a ∈ progs → keepsModeP (Drivers.Epd7in5.panel {}) a = true ∨ establishesModeP (Drivers.Epd7in5.panel {}) a = true)
    (d : DState) (b : Bytes) (hl : 4 * b.length = u.p1.size) :
    ∃ u' : Uc, progs.foldl (fun c a => c.run (blocksOf a)) (Ctrl.uc u) = .uc u' ∧
      (u'.run (blocksOf ((Drivers.Epd7in5.prog {} d (.upd b)).getD []))).p1.toList = b.flatMap C01.expand4 := by
  obtain ⟨u', e, a', p', _, s1, _⟩ := uc_any_history (Drivers.Epd7in5.panel {}) _ rfl progs u ha hp (by rw [h14]; rfl) h
  exact ⟨u', e, C01.epd7in5_update_frame_delivers {} d b u' a' p' (by rw [s1]; exact hl)⟩
/-- **epd2in7b — RECOVERY**: from ANY controller state of its kind `wake_up`, any history, `update_frame` delivers -/
theorem epd2in7b_wake_from_any_state_then_update (u : Uc) (h14 : u.has14 = true) (d0 : DState) (progs : List (List Act))
    (h : ∀ a, a ∈ progs → keepsModeP (Drivers.Epd2in7b.panel {}) a = true ∨ establishesModeP (Drivers.Epd2in7b.panel {}) a = true)
    (d : DState) (b : Bytes) (hl : b.length = u.p1.size) (h2 : u.p2.size = Gen.Epd2in7b.WIDTH / 8 * Gen.Epd2in7b.HEIGHT) :
    ∃ u1 u' : Uc, (Ctrl.uc u).run (blocksOf ((Drivers.Epd2in7b.prog {} d0 .wake).getD [])) = .uc u1 ∧
      progs.foldl (fun c a => c.run (blocksOf a)) (Ctrl.uc u1) = .uc u' ∧
      (u'.run (blocksOf ((Drivers.Epd2in7b.prog {} d (.upd b)).getD []))).p1.toList = b.map (fun x => ~~~x) := by
  obtain ⟨u1, e1, a1, p1, f1, z1, z2⟩ := uc_recover (Drivers.Epd2in7b.panel {}) _ rfl _ (epd2in7b_wake_establishes_mode {} d0) u (by rw [h14]; rfl)
  obtain ⟨u', e2, r⟩ := epd2in7b_any_history_then_update progs u1 a1 p1 (by rw [f1]; rfl) h d b (by rw [z1]; exact hl) (by rw [z2]; exact h2)
  exact ⟨u1, u', e1, e2, r⟩

/-- **epd1in54b — RECOVERY** -/
theorem epd1in54b_wake_from_any_state_then_update (u : Uc) (h14 : u.has14 = false) (d0 : DState) (progs : List (List Act))
    (h : ∀ a, a ∈ progs → keepsModeP (Drivers.Epd1in54b.panel {}) a = true ∨ establishesModeP (Drivers.Epd1in54b.panel {}) a = true)
    (d : DState) (b : Bytes) (hl : 2 * b.length = u.p1.size) (h2 : u.p2.size = Gen.Epd1in54b.WIDTH * (Gen.Epd1in54b.HEIGHT / 8)) :
    ∃ u1 u' : Uc, (Ctrl.uc u).run (blocksOf ((Drivers.Epd1in54b.prog {} d0 .wake).getD [])) = .uc u1 ∧
      progs.foldl (fun c a => c.run (blocksOf a)) (Ctrl.uc u1) = .uc u' ∧
      (u'.run (blocksOf ((Drivers.Epd1in54b.prog {} d (.upd b)).getD []))).p1.toList = (b.map Drivers.Epd1in54b.expandBits).flatten := by
  obtain ⟨u1, e1, a1, p1, f1, z1, z2⟩ := uc_recover (Drivers.Epd1in54b.panel {}) _ rfl _ (epd1in54b_wake_establishes_mode {} d0) u (by rw [h14]; rfl)
  obtain ⟨u', e2, r⟩ := epd1in54b_any_history_then_update progs u1 a1 p1 (by rw [f1]; rfl) h d b (by rw [z1]; exact hl) (by rw [z2]; exact h2)
  exact ⟨u1, u', e1, e2, r⟩

/-- **epd7in5 — RECOVERY** -/
theorem epd7in5_wake_from_any_state_then_update (u : Uc) (h14 : u.has14 = false) (d0 : DState) (progs : List (List Act))
    (h : ∀ a, a ∈ progs → keepsModeP (Drivers.Epd7in5.panel {}) a = true ∨ establishesModeP (Drivers.Epd7in5.panel {}) a = true)
    (d : DState) (b : Bytes) (hl : 4 * b.length = u.p1.size) :
    ∃ u1 u' : Uc, (Ctrl.uc u).run (blocksOf ((Drivers.Epd7in5.prog {} d0 .wake).getD [])) = .uc u1 ∧
      progs.foldl (fun c a => c.run (blocksOf a)) (Ctrl.uc u1) = .uc u' ∧
      (u'.run (blocksOf ((Drivers.Epd7in5.prog {} d (.upd b)).getD []))).p1.toList = b.flatMap C01.expand4 := by
  obtain ⟨u1, e1, a1, p1, f1, z1, _⟩ := uc_recover (Drivers.Epd7in5.panel {}) _ rfl _ (epd7in5_wake_establishes_mode {} d0) u (by rw [h14]; rfl)
  obtain ⟨u', e2, r⟩ := epd7in5_any_history_then_update progs u1 a1 p1 (by rw [f1]; rfl) h d b (by rw [z1]; exact hl)
  exact ⟨u1, u', e1, e2, r⟩

end EpdVerif.Props.C02
