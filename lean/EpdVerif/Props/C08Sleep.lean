import EpdVerif.Props.Structural
import EpdVerif.Table
/-!
# C08 (i), semantically: after `sleep` the controller IS in deep sleep — from any awake state

`sleepEndsDeep` (Props/Structural) is about the last block of the program.  Here the sleep / mode
fields of the simulators are run through the WHOLE program (`Uc.flags_run`, `Ssd.mode_run`: they
evolve on their own), from an awake controller in or out of partial mode / in any data-entry mode
of the panel's kind: `sleepsP p acts = true` ⇒ for EVERY such controller state (any RAM, window,
registers, power state) the state after the program is asleep.  Decided per panel for all feature
flags and driver states (`*_sleep_sleeps`); the four drivers whose `sleep` does not enter deep sleep
(known findings KF-C08-…) have no instance — the generator of this file tries every panel and keeps
what Lean accepts.
-/
namespace EpdVerif.Props.C08
open EpdVerif

/-- run the sleep-relevant fields through the program from an awake controller -/
def sleepsP (p : Panel) (acts : List Act) : Bool :=
  match p.ctrl with
  | .uc u =>
    ((blocksOf acts).foldl Uc.feedF ⟨false, false, u.has14⟩).asleep &&
    ((blocksOf acts).foldl Uc.feedF ⟨false, true, u.has14⟩).asleep
  | .ssd s =>
    (List.range 4).all fun e => ((blocksOf acts).foldl Ssd.feedM ⟨s.xPix, s.stride, s.rows, e, false⟩).asleep

theorem uc_sleeps_sound (p : Panel) (u0 : Uc) (hp : p.ctrl = .uc u0) (acts : List Act) (h : sleepsP p acts = true)
    (u : Uc) (ha : u.asleep = false) (h14 : u.has14 = u0.has14) :
    ((blocksOf acts).foldl Uc.feed u).asleep = true := by
  unfold sleepsP at h
  rw [hp] at h
  simp only [Bool.and_eq_true] at h
  have e : ((blocksOf acts).foldl Uc.feed u).asleep = (Uc.flags ((blocksOf acts).foldl Uc.feed u)).asleep := rfl
  rw [e, Uc.flags_run]
  have f : Uc.flags u = ⟨false, u.partialOn, u0.has14⟩ := by simp only [Uc.flags, ha, h14]
  rw [f]
  cases u.partialOn
  · exact h.1
  · exact h.2

theorem ssd_sleeps_sound (p : Panel) (s0 : Ssd) (hp : p.ctrl = .ssd s0) (acts : List Act) (h : sleepsP p acts = true)
    (s : Ssd) (ha : s.asleep = false) (he : s.entry < 4) (hx : s.xPix = s0.xPix) (hs : s.stride = s0.stride) (hr : s.rows = s0.rows) :
    ((blocksOf acts).foldl Ssd.feed s).asleep = true := by
  unfold sleepsP at h
  rw [hp] at h
  simp only [List.all_eq_true, List.mem_range] at h
  have e : ((blocksOf acts).foldl Ssd.feed s).asleep = (Ssd.mode ((blocksOf acts).foldl Ssd.feed s)).asleep := rfl
  rw [e, Ssd.mode_run]
  have f : Ssd.mode s = ⟨s0.xPix, s0.stride, s0.rows, s.entry, false⟩ := by
    show (⟨s.xPix, s.stride, s.rows, s.entry, s.asleep⟩ : Ssd.Mode) = _
    rw [hx, hs, hr, ha]
  rw [f]
  exact h s.entry he
/-! ## per panel (22 of 27: not the four listed C08 findings epd1in54 / epd2in9 / epd2in13b_v4 / epd1in54b, and not
   epd2in13_v2 whose deep-sleep mode is a caller-selected driver field) -/

theorem epd1in02_sleep_sleeps (f : Feat) (d : DState) : sleepsP (Drivers.Epd1in02.panel f) ((Drivers.Epd1in02.prog f d .sleep).getD []) = true := by panel_decide f d
theorem epd1in54_v2_sleep_sleeps (f : Feat) (d : DState) : sleepsP (Drivers.Epd1in54_v2.panel f) ((Drivers.Epd1in54_v2.prog f d .sleep).getD []) = true := by panel_decide f d
theorem epd1in54c_sleep_sleeps (f : Feat) (d : DState) : sleepsP (Drivers.Epd1in54c.panel f) ((Drivers.Epd1in54c.prog f d .sleep).getD []) = true := by panel_decide f d
theorem epd2in13bc_sleep_sleeps (f : Feat) (d : DState) : sleepsP (Drivers.Epd2in13bc.panel f) ((Drivers.Epd2in13bc.prog f d .sleep).getD []) = true := by panel_decide f d
theorem epd2in66b_sleep_sleeps (f : Feat) (d : DState) : sleepsP (Drivers.Epd2in66b.panel f) ((Drivers.Epd2in66b.prog f d .sleep).getD []) = true := by panel_decide f d
theorem epd2in7_sleep_sleeps (f : Feat) (d : DState) : sleepsP (Drivers.Epd2in7.panel f) ((Drivers.Epd2in7.prog f d .sleep).getD []) = true := by panel_decide f d
theorem epd2in7_v2_sleep_sleeps (f : Feat) (d : DState) : sleepsP (Drivers.Epd2in7_v2.panel f) ((Drivers.Epd2in7_v2.prog f d .sleep).getD []) = true := by panel_decide f d
theorem epd2in7b_sleep_sleeps (f : Feat) (d : DState) : sleepsP (Drivers.Epd2in7b.panel f) ((Drivers.Epd2in7b.prog f d .sleep).getD []) = true := by panel_decide f d
theorem epd2in9_v2_sleep_sleeps (f : Feat) (d : DState) : sleepsP (Drivers.Epd2in9_v2.panel f) ((Drivers.Epd2in9_v2.prog f d .sleep).getD []) = true := by panel_decide f d
theorem epd2in9b_v4_sleep_sleeps (f : Feat) (d : DState) : sleepsP (Drivers.Epd2in9b_v4.panel f) ((Drivers.Epd2in9b_v4.prog f d .sleep).getD []) = true := by panel_decide f d
theorem epd2in9bc_sleep_sleeps (f : Feat) (d : DState) : sleepsP (Drivers.Epd2in9bc.panel f) ((Drivers.Epd2in9bc.prog f d .sleep).getD []) = true := by panel_decide f d
theorem epd2in9d_sleep_sleeps (f : Feat) (d : DState) : sleepsP (Drivers.Epd2in9d.panel f) ((Drivers.Epd2in9d.prog f d .sleep).getD []) = true := by panel_decide f d
theorem epd3in7_sleep_sleeps (f : Feat) (d : DState) : sleepsP (Drivers.Epd3in7.panel f) ((Drivers.Epd3in7.prog f d .sleep).getD []) = true := by panel_decide f d
theorem epd4in2_sleep_sleeps (f : Feat) (d : DState) : sleepsP (Drivers.Epd4in2.panel f) ((Drivers.Epd4in2.prog f d .sleep).getD []) = true := by panel_decide f d
theorem epd5in65f_sleep_sleeps (f : Feat) (d : DState) : sleepsP (Drivers.Epd5in65f.panel f) ((Drivers.Epd5in65f.prog f d .sleep).getD []) = true := by panel_decide f d
theorem epd5in83_v2_sleep_sleeps (f : Feat) (d : DState) : sleepsP (Drivers.Epd5in83_v2.panel f) ((Drivers.Epd5in83_v2.prog f d .sleep).getD []) = true := by panel_decide f d
theorem epd5in83b_v2_sleep_sleeps (f : Feat) (d : DState) : sleepsP (Drivers.Epd5in83b_v2.panel f) ((Drivers.Epd5in83b_v2.prog f d .sleep).getD []) = true := by panel_decide f d
theorem epd7in3f_sleep_sleeps (f : Feat) (d : DState) : sleepsP (Drivers.Epd7in3f.panel f) ((Drivers.Epd7in3f.prog f d .sleep).getD []) = true := by panel_decide f d
theorem epd7in5_sleep_sleeps (f : Feat) (d : DState) : sleepsP (Drivers.Epd7in5.panel f) ((Drivers.Epd7in5.prog f d .sleep).getD []) = true := by panel_decide f d
theorem epd7in5_hd_sleep_sleeps (f : Feat) (d : DState) : sleepsP (Drivers.Epd7in5_hd.panel f) ((Drivers.Epd7in5_hd.prog f d .sleep).getD []) = true := by panel_decide f d
theorem epd7in5_v2_sleep_sleeps (f : Feat) (d : DState) : sleepsP (Drivers.Epd7in5_v2.panel f) ((Drivers.Epd7in5_v2.prog f d .sleep).getD []) = true := by panel_decide f d
theorem epd7in5b_v2_sleep_sleeps (f : Feat) (d : DState) : sleepsP (Drivers.Epd7in5b_v2.panel f) ((Drivers.Epd7in5b_v2.prog f d .sleep).getD []) = true := by panel_decide f d

/-- example of the composition: epd4in2, any awake controller of its kind is asleep after `sleep` -/
theorem epd4in2_sleep_from_any_state (f : Feat) (d : DState) (u : Uc) (ha : u.asleep = false) (h14 : u.has14 = false) :
    ((blocksOf ((Drivers.Epd4in2.prog f d .sleep).getD [])).foldl Uc.feed u).asleep = true :=
  uc_sleeps_sound (Drivers.Epd4in2.panel f) _ rfl _ (epd4in2_sleep_sleeps f d) u ha h14

end EpdVerif.Props.C08
