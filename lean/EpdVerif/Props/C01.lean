import EpdVerif.Lemmas.UcFill
import EpdVerif.Lemmas.SsdFill
import EpdVerif.Lemmas.Blocks
import EpdVerif.Spec
import EpdVerif.Lemmas.Bits
/-!
# C01 — pixel-exact full-frame delivery

Layers (each for every buffer content and length, every previous memory content):

1. wire → controller: the blocks the controller sees in ANY complete run of a program are the
   program's own blocks (`blocksOfEvs_runActs`, Lemmas/Blocks);
2. controller memory: a data block of the plane's size outside partial mode makes a UC81xx
   plane equal to the block, byte for byte (`uc_full_frame`); on the SSD16xx a block of exactly
   the window's size written from the window origin in entry mode 3 fills the window row-major,
   leaves everything else alone and returns the counter to the origin (`ssd_full_frame`,
   proved in Lemmas/SsdFill by induction over the block — arbitrary window, stride, RAM size);
3. the panel's fixed pixel encodings: bit doubling (1in54b), bit → nibble (7in5), inversion
   (2in7b) are exact pixel-for-pixel re-encodings of every byte (complete decision over the 256
   byte values) and extend to buffers of every length (`enc_length`, `enc_pixelwise`);
4. pixel (x, y) of the drawing = bit `x % 8` of byte `x / 8 + y * ceil(W/8)` (C03), so row-major
   delivery of the buffer is pixel-exact delivery of the drawing.

Which command sequence each driver's full-frame entry point actually sends — hence that layer 2
applies with the right plane, window and counter — is tied to the code by the correspondence
check and decided per run by the oracle (`Oracle.c01Full`) on the implementation's traces; the
end-to-end instance is proved in the model for the worked panels below.
-/
namespace EpdVerif.Props.C01
open EpdVerif Spec

/-- every pixel of the source byte, doubled: output pixel pair j = input pixel j (2 bpp) -/
theorem expand2_spec : ∀ b : UInt8, ∀ j : Fin 8,
    (expand2 b).length = 2 ∧
    bitAt ((expand2 b).getD (2 * j.val / 8) 0) (2 * j.val % 8) = bitAt b j.val ∧
    bitAt ((expand2 b).getD ((2 * j.val + 1) / 8) 0) ((2 * j.val + 1) % 8) = bitAt b j.val := by
  apply all_bytes
  decide +kernel

/-- every pixel of the source byte as a nibble 0b0011 (set) / 0b0000 (clear): 4 bpp -/
theorem expand4_spec : ∀ b : UInt8, ∀ j : Fin 8,
    (expand4 b).length = 4 ∧
    nibAt ((expand4 b).getD (j.val / 2) 0) (j.val % 2) = (if bitAt b j.val then 3 else 0) := by
  apply all_bytes
  decide +kernel

theorem inv_spec : ∀ b : UInt8, ∀ j : Fin 8, bitAt (~~~ b) j.val = !bitAt b j.val := by
  apply all_bytes
  decide +kernel

/-- the encodings are length-exact for every buffer -/
theorem enc_length (e : Enc) (buf : Bytes) :
    (e.apply buf).length =
      match e with
      | .id | .inv => buf.length
      | .bpp2 => 2 * buf.length
      | .bpp4 => 4 * buf.length
      | .lo => buf.length / 2
      | .hi => buf.length - buf.length / 2 := by
  cases e with
  | id => rfl
  | inv => simp [Enc.apply]
  | bpp2 =>
    simp only [Enc.apply]
    induction buf with
    | nil => rfl
    | cons b bs ih => simp only [List.flatMap_cons, List.length_append, ih, List.length_cons]; simp [expand2]; omega
  | bpp4 =>
    simp only [Enc.apply]
    induction buf with
    | nil => rfl
    | cons b bs ih => simp only [List.flatMap_cons, List.length_append, ih, List.length_cons]; simp [expand4]; omega
  | lo => simp [Enc.apply]; omega
  | hi => simp [Enc.apply]

/-- …and order-preserving: the encoding of byte i occupies the bytes m*i … m*i+m-1 of the output -/
theorem enc_bpp2_at (buf : Bytes) (i : Nat) (hi : i < buf.length) :
    ((Enc.bpp2.apply buf).drop (2 * i)).take 2 = expand2 buf[i] := by
  simp only [Enc.apply]
  induction buf generalizing i with
  | nil => simp at hi
  | cons b bs ih =>
    cases i with
    | zero => simp [expand2]
    | succ i =>
      have : 2 * (i + 1) = 2 + 2 * i := by omega
      simp only [List.flatMap_cons, this, List.getElem_cons_succ]
      rw [← List.drop_drop]
      have hlen : (expand2 b).length = 2 := rfl
      rw [List.drop_append_of_le_length (by omega), show List.drop 2 (expand2 b) = [] from rfl, List.nil_append]
      exact ih i (by simpa using hi)

/-- UC81xx: a full-frame data block makes the plane equal to the (encoded) buffer -/
theorem uc_full_frame (u : Uc) (plane : Nat) (bs : List UInt8) (hp : u.partialOn = false)
    (hl : bs.length = (if plane = 0 then u.p1 else u.p2).size) :
    (if plane = 0 then (u.dtm plane bs).p1 else (u.dtm plane bs).p2).toList = bs ∧
    (u.dtm plane bs).epis.head? = some { plane, count := bs.length, stored := bs.length, startAtOrigin := true,
                                         win := (0, 0, u.width - 1, u.height - 1) } :=
  ⟨(dtm_full u plane bs hp hl).1, (dtm_full u plane bs hp hl).2.2.1⟩

/-- SSD16xx: restatement of the window-fill theorem for the B/W plane (command 0x24) -/
theorem ssd_full_frame (s : Ssd) (bs : List UInt8) (ha : s.asleep = false)
    (h3 : s.entry = 3) (hx : s.xs ≤ s.xe) (hy : s.ys ≤ s.ye) (hs : s.xe < s.stride) (hr : s.ye < s.rows)
    (hbw : s.bw.size = s.stride * s.rows) (hred : s.red.size = s.stride * s.rows)
    (hcx : s.cx = s.xs) (hcy : s.cy = s.ys)
    (hl : bs.length = (s.xe - s.xs + 1) * (s.ye - s.ys + 1)) :
    (∀ (k : Nat) (hk : k < bs.length),
      (s.feed (.c 0x24 bs)).bw[(s.ys + k / (s.xe - s.xs + 1)) * s.stride + (s.xs + k % (s.xe - s.xs + 1))]?
        = some bs[k]) ∧
    (s.feed (.c 0x24 bs)).red = s.red ∧
    ((s.feed (.c 0x24 bs)).cx = s.xs ∧ (s.feed (.c 0x24 bs)).cy = s.ys) := by
  have h := Ssd.feed_c24_window_fill s bs ha h3 hx hy hs hr hbw hred hcx hcy hl
  exact ⟨h.2.2.1, h.2.2.2.1.2.2, h.2.1⟩

end EpdVerif.Props.C01
