import EpdVerif.Props.C02Big
/-!
# C08 on the 12.48in driver — `hibernate()` ends in deep sleep, `reset(); init()` restores

Sleep = `hibernate()`, wake-up = `reset()` then `init(&Config)` (model in `EpdVerif/Big.lean`, tied
to the source by the correspondence runs of `./vcheck C08`, which contain that driver).

* `big_hibernate_program` — the call is PowerOff, the wait, DeepSleep 0x07 with check code 0xA5 to
  all four controllers and a bus flush: nothing is sent after the check code;
* `big_hibernate_sleeps` — from ANY state of the chips all four are in deep sleep afterwards;
* `big_wake_ready` — from ANY state (asleep, half configured, in partial mode) `reset(); init(c)`
  leaves all four chips awake, out of partial mode, with resolution and panel setting programmed,
  for every configuration `c`;
* `big_wake_program` — the wake-up traffic is a function of the configuration alone
  (`progOf` does not look at the history), so it is the traffic of the very first initialisation.
-/
namespace EpdVerif.Props.C08
open EpdVerif EpdVerif.Big EpdVerif.Gen.Epd12in48b_v2 EpdVerif.Props.C09 EpdVerif.Props.C02

theorem big_hibernate_program :
    progOf .hibernate = [.sw CS_ALLm [Command.PowerOff], .waitReady, .sw CS_ALLm [Command.DeepSleep],
                         .sw (CS_ALLm + DATA) [0xA5], .flush] := rfl

theorem big_hibernate_sleeps (s : Chips) (k : Nat) (hk : k < 4) : (s.run (progOf .hibernate)).asleep k = true := by
  have hs := sel_all k hk
  simp only [CS_ALLm, CS_ALL] at hs
  rw [big_hibernate_program]
  simp [Chips.run, Chips.act, Chips.cmd, CS_ALLm, CS_ALL, DATA, CS_DATA, Command.PowerOff, Command.DeepSleep, hs]

theorem big_wake_ready (s : Chips) (c : Cfg) :
    Chips.Ready (s.run (progOf .reset ++ progOf (.init c))) ∧ Chips.PartialOff (s.run (progOf .reset ++ progOf (.init c))) := by
  rw [run_append]
  have hb : s.run (progOf .reset) = Chips.blank := rfl
  rw [hb]
  refine ⟨init_ready Chips.blank blank_awake c, ?_⟩
  exact run_partialOff _ _ (prog_no_partial_in (.init c) rfl (by intro h; cases h) trivial) blank_partialOff

theorem big_wake_program (c : Cfg) (before : List PubOp) :
    ((before ++ [PubOp.reset, PubOp.init c]).flatMap progOf) = before.flatMap progOf ++ (progOf PubOp.reset ++ initP c) := by
  simp [List.flatMap_append, progOf]

/-- sensitivity: without the reset pulse a sleeping panel is NOT restored by `init` alone -/
example : ¬ Chips.Ready ((Chips.blank.run (progOf .hibernate)).run (progOf (.init ⟨false, false, 0, false⟩))) := by
  intro h
  have := (h 0 (by decide)).2.2
  revert this
  simp [progOf, initP, setMode, Big.cmd, Big.cmdData, Chips.run, Chips.act, Chips.cmd, Chips.blank, sel, CS_ALLm, CS_ALL, CS_M1, CS_S1, CS_M2, CS_S2,
      DATA, CS_DATA, Command.BoosterSoftStart, Command.TconResolution, Command.DualSPI, Command.TconSetting,
      Command.PowerSaving, Command.CascadeSetting, Command.ForceTemperature, Command.PanelSetting,
      Command.VcomAndDataIntervalSetting, Command.PowerOff, Command.DeepSleep]

end EpdVerif.Props.C08
