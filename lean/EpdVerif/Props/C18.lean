import EpdVerif.Props.Structural
import EpdVerif.Lemmas.Blocks
/-!
# C18 — controller protocol conformance

`Oracle.c18` (defined commands, exact block lengths, geometry values — family tables in
`Spec.lean`) is the predicate the check evaluates on the implementation's traces.  It looks at a
trace only through its controller blocks, and by `blocksOfEvs_runActs` the blocks of EVERY
complete fault-free run of a program (any busy schedule, idle delay, chunking) are the program's
own block list.  So `opConforms` decided on the program (per panel and operation, with buffers
and payload-only fields universally quantified: `Props/Panels/*.lean`, namespace `C18`) is the
oracle's verdict on every run (`conforms_every_run`).
-/
namespace EpdVerif.Props.C18
open EpdVerif Oracle Props.C10

theorem c18_depends_on_blocks (p : Panel) (a : List String) (evs evs' : List Ev)
    (h : blocksOfEvs evs = blocksOfEvs evs') : c18 p a evs = c18 p a evs' := by
  unfold c18 opBlocks
  rw [h]

/-- the oracle accepts every complete fault-free run of a program that `opConforms` accepts -/
theorem conforms_every_run (p : Panel) (name : String) (acts : List Act) (e : Env) (d : DState)
    (hc : opConforms p name acts = true) (hf : e.fault = none) (hp : plain acts)
    (hok : (runActs e d acts).2.2.2 = .ok) :
    c18 p [name] (runActs e d acts).1 = [] := by
  have hb := blocksOfEvs_runActs acts e d hf hp hok
  rw [c18_depends_on_blocks p [name] (runActs e d acts).1 (actsToEvs acts) hb]
  unfold opConforms at hc
  exact List.isEmpty_iff.mp hc

/-- the family tables are consistent: every block kind the tables give a length for is itself a
    defined command of its family (complete decision over all 256 opcodes x the panel table) -/
theorem blockLen_defined : ∀ f : Feat, f ∈ [⟨false, false⟩, ⟨true, false⟩, ⟨false, true⟩] →
    ∀ p ∈ panels f, ∀ c : Fin 256, ∀ xp : Bool,
      (Spec.blockLen p.name p.family xp (UInt8.ofNat c)).isSome = true →
      (Spec.definedCmds p.name p.family).contains (UInt8.ofNat c) = true := by
  decide +kernel

end EpdVerif.Props.C18
