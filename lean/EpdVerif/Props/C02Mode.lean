import EpdVerif.Props.Structural
/-!
# C02 — every history keeps the controller ready for a full-frame update

`Props/E2EA` (540 instances): from ANY controller state that is *ready* — SSD16xx: awake, data
entry mode 3, the panel's geometry; UC81xx / ACeP: awake, outside partial mode — a full-frame
entry point delivers the buffer, for every buffer.  This file supplies the other half for
unbounded histories: `keepsModeP p prog` / `establishesModeP p prog` (`Props/Structural`) are
Bool functions of a program, decided per panel and operation for ALL feature flags, driver
states, buffers and colours (`Props/Panels/*`, namespace `C02`: `<panel>_<op>_keeps_mode`,
`<panel>_new_establishes_mode`, `<panel>_wake_establishes_mode`), and

* `op_keeps_ready` — a program that passes `keepsModeP` takes EVERY ready controller state of the
  panel's kind to a ready one (whatever its RAM, window, counter, LUT, power and log state);
* `op_establishes_ready` — a program that passes `establishesModeP` (construction, wake-up) takes
  EVERY state, sleeping or not, to a ready one;
* **`history_ready`** — any sequence of such programs, of any length, keeps the controller ready;
  so the precondition of the `E2EA` theorems holds after every history made of operations whose
  instance exists — every operation of every panel except `sleep` (to be followed by `wake_up`),
  the partial-update calls (their programs contain assertions on symbolic windows: decided at run
  time only), `update_old_frame` of 1in02 and construction of 7in5_hd (the generator does not emit
  what `epdmodel structural` finds false).
-/
namespace EpdVerif.Props.C02
open EpdVerif

def ready : Ctrl → Bool
  | .ssd s => (Ssd.mode s).good
  | .uc u => (Uc.flags u).good

/-- same controller kind and geometry as `c0` -/
def Like (c0 c : Ctrl) : Prop :=
  match c0, c with
  | .ssd a, .ssd b => (Ssd.mode b).xPix = a.xPix ∧ (Ssd.mode b).stride = a.stride ∧ (Ssd.mode b).rows = a.rows
  | .uc a, .uc b => b.has14 = a.has14
  | _, _ => False

theorem regStepF_has14 (cmd : UInt8) (ps : List UInt8) (f : Uc.Flags) : (Uc.regStepF cmd ps f).has14 = f.has14 := by
  unfold Uc.regStepF
  by_cases h0 : cmd = 0x12
  · rw [if_pos h0]
  rw [if_neg h0]
  by_cases h1 : f.has14 ∧ cmd = 0x16
  · rw [if_pos h1]
  rw [if_neg h1]
  by_cases h2 : cmd = 0x04
  · rw [if_pos h2]
  rw [if_neg h2]
  by_cases h3 : cmd = 0x02
  · rw [if_pos h3]
  rw [if_neg h3]
  by_cases h4 : cmd = 0x07
  · rw [if_pos h4]
    rcases ps with _ | ⟨p0, _ | ⟨p1, t⟩⟩
    · rfl
    · simp only []; split <;> rfl
    · rfl
  rw [if_neg h4]
  by_cases h5 : cmd = 0x91
  · rw [if_pos h5]
  rw [if_neg h5]
  by_cases h6 : cmd = 0x92
  · rw [if_pos h6]
  rw [if_neg h6]

theorem feedF_has14 (f : Uc.Flags) (b : Blk) : (Uc.feedF f b).has14 = f.has14 := by
  cases b with
  | rst => rfl
  | stray _ => rfl
  | c cmd ps =>
    unfold Uc.feedF
    simp only []
    by_cases h0 : f.asleep = true
    · rw [if_pos h0]
    rw [if_neg h0]
    by_cases h1 : cmd = 0x10
    · rw [if_pos h1]
    rw [if_neg h1]
    by_cases h2 : cmd = 0x13
    · rw [if_pos h2]
    rw [if_neg h2]
    by_cases h3 : f.has14 ∧ cmd = 0x14
    · rw [if_pos h3]
    rw [if_neg h3]
    by_cases h4 : f.has14 ∧ cmd = 0x15
    · rw [if_pos h4]
    rw [if_neg h4]
    exact regStepF_has14 cmd ps f

theorem uc_feed_has14 (u : Uc) (b : Blk) : (u.feed b).has14 = u.has14 := by
  have h := Uc.flags_feed u b
  have e : (Uc.flags (u.feed b)).has14 = (u.feed b).has14 := rfl
  rw [← e, h, feedF_has14]; rfl

theorem uc_run_has14 : ∀ (bs : List Blk) (u : Uc), (bs.foldl Uc.feed u).has14 = u.has14
  | [], _ => rfl
  | b :: bs, u => by simp only [List.foldl_cons]; rw [uc_run_has14 bs, uc_feed_has14]

theorem run_ssd (bs : List Blk) (s : Ssd) : (Ctrl.ssd s).run bs = .ssd (bs.foldl Ssd.feed s) := by
  unfold Ctrl.run
  induction bs generalizing s with
  | nil => rfl
  | cons b r ih => simp only [List.foldl_cons, Ctrl.feed]; exact ih _

theorem run_uc (bs : List Blk) (u : Uc) : (Ctrl.uc u).run bs = .uc (bs.foldl Uc.feed u) := by
  unfold Ctrl.run
  induction bs generalizing u with
  | nil => rfl
  | cons b r ih => simp only [List.foldl_cons, Ctrl.feed]; exact ih _

theorem run_like (c0 c : Ctrl) (bs : List Blk) (h : Like c0 c) : Like c0 (c.run bs) := by
  cases c0 with
  | ssd a =>
    cases c with
    | ssd b =>
      rw [run_ssd]
      have g := Ssd.mode_run_geom bs b
      simp only [Like] at h ⊢
      exact ⟨g.1.trans h.1, g.2.1.trans h.2.1, g.2.2.trans h.2.2⟩
    | uc b => exact h.elim
  | uc a =>
    cases c with
    | ssd b => exact h.elim
    | uc b =>
      rw [run_uc]
      simp only [Like] at h ⊢
      rw [uc_run_has14]; exact h

/-- a program that passes `keepsModeP` takes every ready state of the panel's kind to a ready one -/
theorem op_keeps_ready (p : Panel) (acts : List Act) (c : Ctrl) (hl : Like p.ctrl c) (hr : ready c = true)
    (hk : keepsModeP p acts = true) : ready (c.run (blocksOf acts)) = true := by
  unfold keepsModeP at hk
  cases hp : p.ctrl with
  | ssd a =>
    rw [hp] at hk hl
    cases c with
    | ssd b =>
      rw [run_ssd]
      simp only [Like] at hl
      simp only [ready] at hr ⊢
      refine Ssd.keepsMode_sound _ b hr ?_
      rw [hl.1, hl.2.1, hl.2.2]; exact hk
    | uc b => exact hl.elim
  | uc a =>
    rw [hp] at hk hl
    cases c with
    | ssd b => exact hl.elim
    | uc b =>
      rw [run_uc]
      simp only [Like] at hl
      simp only [ready] at hr ⊢
      refine Uc.keepsFlags_sound _ b hr ?_
      rw [hl]; exact hk

/-- construction / wake-up: from EVERY state, sleeping or not -/
theorem op_establishes_ready (p : Panel) (acts : List Act) (c : Ctrl) (hl : Like p.ctrl c)
    (hk : establishesModeP p acts = true) : ready (c.run (blocksOf acts)) = true := by
  unfold establishesModeP at hk
  cases hp : p.ctrl with
  | ssd a =>
    rw [hp] at hk hl
    cases c with
    | ssd b =>
      rw [run_ssd]
      simp only [Like] at hl
      simp only [ready]
      refine Ssd.establishesMode_sound _ b ?_
      rw [hl.1, hl.2.1, hl.2.2]; exact hk
    | uc b => exact hl.elim
  | uc a =>
    rw [hp] at hk hl
    cases c with
    | ssd b => exact hl.elim
    | uc b =>
      rw [run_uc]
      simp only [Like] at hl
      simp only [ready]
      refine Uc.establishesFlags_sound _ b ?_
      rw [hl]; exact hk

/-- **every history**: programs that each keep (or establish) the mode, one after the other -/
theorem history_ready (p : Panel) : ∀ (progs : List (List Act)) (c : Ctrl), Like p.ctrl c → ready c = true →
    (∀ a, a ∈ progs → keepsModeP p a = true ∨ establishesModeP p a = true) →
    ready (progs.foldl (fun c a => c.run (blocksOf a)) c) = true ∧ Like p.ctrl (progs.foldl (fun c a => c.run (blocksOf a)) c)
  | [], _, hl, hr, _ => ⟨hr, hl⟩
  | a :: r, c, hl, hr, h => by
    simp only [List.foldl_cons]
    have hr' : ready (c.run (blocksOf a)) = true := by
      rcases h a List.mem_cons_self with hk | hk
      · exact op_keeps_ready p a c hl hr hk
      · exact op_establishes_ready p a c hl hk
    exact history_ready p r _ (run_like _ _ _ hl) hr' (fun x hx => h x (List.mem_cons_of_mem _ hx))

/-- … and from ANY state once the history begins with construction or a wake-up -/
theorem history_ready_from_any (p : Panel) (first : List Act) (progs : List (List Act)) (c : Ctrl) (hl : Like p.ctrl c)
    (hf : establishesModeP p first = true)
    (h : ∀ a, a ∈ progs → keepsModeP p a = true ∨ establishesModeP p a = true) :
    ready ((first :: progs).foldl (fun c a => c.run (blocksOf a)) c) = true := by
  simp only [List.foldl_cons]
  exact (history_ready p progs _ (run_like _ _ _ hl) (op_establishes_ready p first c hl hf) h).1

end EpdVerif.Props.C02
