import EpdVerif.Table
/-!
# C12 — drivers never retain a caller's buffer

In the model a driver's state between calls is `DState`; the only field that can hold caller
data is `oldData`.  For 26 of the 27 trait drivers the program of EVERY operation is the same
whatever `oldData` holds (`Props/Panels/*.lean`, namespace `C12`, `*_no_retained_buffer`): what a
call transmits is a function of its own arguments and the driver's configuration only.
epd2in9d is the exception: `update_frame` / `update_partial_frame` store the caller's buffer
(`retains`) and the next `update_partial_frame` transmits it (`retransmits`) — in the Rust through
a raw pointer, i.e. whatever that memory holds by then.  The model can show the dependence; the
use of freed memory itself is outside what an executable model exhibits (DESIGN §9).
-/
namespace EpdVerif.Props.C12
open EpdVerif

/-- epd2in9d: after `update_frame b` the driver state holds `b` -/
theorem epd2in9d_retains (f : Feat) (d : DState) (b : Bytes) :
    (applyUpds d ((Drivers.Epd2in9d.prog f d (.upd b)).getD [])).oldData = b := by
  cases hp : d.partialFlag <;>
    simp [Drivers.Epd2in9d.prog, Drivers.Epd2in9d.updateFrame, hp, applyUpds, cmdData, Drivers.Epd2in9d.W]

/-- … and a later partial update transmits that retained buffer: two driver states that differ
    only in `oldData` transmit different bytes — FULL statement of C12 is false for this driver -/
theorem epd2in9d_retransmits :
    logical ((Drivers.Epd2in9d.prog {} { partialFlag := true, oldData := [1, 2] } (.part [9, 9] 0 0 8 2)).getD []) ≠
    logical ((Drivers.Epd2in9d.prog {} { partialFlag := true, oldData := [3, 4] } (.part [9, 9] 0 0 8 2)).getD []) := by
  decide

end EpdVerif.Props.C12
