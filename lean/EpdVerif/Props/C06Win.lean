import EpdVerif.Ctrl.Uc
import EpdVerif.Lemmas.UcFill
import EpdVerif.Drivers.Epd4in2
import EpdVerif.Drivers.Epd7in5b_v2
import EpdVerif.Drivers.Epd2in9b_v4
import EpdVerif.Drivers.Epd1in02
import EpdVerif.Drivers.Epd2in7
import EpdVerif.Props.C06
/-!
# C06 (i), (iv) for SYMBOLIC windows — the window the controller decodes is the requested one

For every byte-aligned window inside the panel (any `x, y, w, h`, not a sample), every buffer,
every driver state and every awake controller of the panel's kind (any RAM, registers, window
left by earlier calls): the partial-update program's blocks are `PartialIn, PartialWindow[9],
data…, PartialOut` with no stray bytes, the window snapshot taken by the simulator when the data
arrives (`Episode.win`, what the run-time oracle's clause (i) reads) is
`(x, y, x + w - 1, y + h - 1)`, and the controller is left outside partial mode.

epd7in5b_v2 (`update_partial_frame2`) and epd2in9b_v4 (`update_partial_frame`; SSD16xx: window
registers, address counter at the window origin, content, outside, RED plane — all clauses) are proved
at full strength.  epd4in2: the FULL statement (every window inside the 400-pixel panel) is false of the code; what is
proved carries the suffix `_partial` and the extra hypothesis `x < 256`; for `x ≥ 256` the statement is FALSE of the code (known finding
KF-C06-epd4in2: `x & 0xf8` drops bit 8) — `epd4in2_part_window_fails_at_256` is the witness, the
hypothesis `x < 256` is exactly what the proof forced.
-/
namespace EpdVerif.Props.C06
open EpdVerif Uc

def _root_.EpdVerif.Uc.run (u : Uc) (bs : List Blk) : Uc := bs.foldl Uc.feed u
def _root_.EpdVerif.Uc.lastWin (u : Uc) : Option (Nat × Nat × Nat × Nat) := u.epis.head?.map (·.win)

theorem and248 : ∀ n, n < 256 → n &&& 248 = n / 8 * 8 := by decide +kernel
theorem or7 : ∀ n, n < 256 → n ||| 7 = n / 8 * 8 + 7 := by decide +kernel

theorem word_split (n : Nat) (h : n < 65536) : Uc.word (shr8 n 8) (u8 n) = n := by
  simp only [Uc.word, shr8, u8_toNat, Nat.shiftRight_eq_div_pow]
  omega

open Drivers.Epd4in2 in
theorem epd4in2_part_blocks (f : Feat) (d : DState) (b : Bytes) (x y w h : Nat) (hw0 : 0 < w) (hh0 : 0 < h) :
    blocksOf ((prog f d (.part b x y w h)).getD []) =
      [.c 0x91 [], .c 0x90 [shr8 x 8, u8 (x &&& 0xf8), shr8 ((x &&& 0xf8) + w - 1) 8, u8 (((x &&& 0xf8) + w - 1) ||| 0x07),
         shr8 y 8, u8 y, shr8 (y + h - 1) 8, u8 (y + h - 1), 0x01], .c 0x13 (b ++ []), .c 0x92 []] := by
  have a1 : decide ((x &&& 0xf8) + w ≥ 1) = true := by simp only [decide_eq_true_eq]; omega
  have a2 : decide (y + h ≥ 1) = true := by simp only [decide_eq_true_eq]; omega
  simp only [prog, shiftDisplay, assertA, a1, a2, Option.getD_some, if_true]
  rfl

theorem or7_id : ∀ n, n < 1024 → n % 8 = 7 → n ||| 7 = n := by decide +kernel
theorem and248_id (n : Nat) (h : n < 256) (h8 : n % 8 = 0) : n &&& 0xf8 = n := by
  rw [show (0xf8 : Nat) = 248 from rfl, and248 n h]; omega

theorem uc9_partial_seq (u : Uc) (a a' b b' c c' d d' e : UInt8) (buf : List UInt8)
    (hu : u.asleep = false) (hf : u.winFmt = 9) (h14 : u.has14 = false) :
    (u.run [Blk.c 0x91 [], .c 0x90 [a, a', b, b', c, c', d, d', e], .c 0x13 buf, .c 0x92 []]).lastWin
      = some (word a a' / 8 * 8, word c c', word b b' / 8 * 8 + 7, word d d') ∧
    (u.run [Blk.c 0x91 [], .c 0x90 [a, a', b, b', c, c', d, d', e], .c 0x13 buf, .c 0x92 []]).partialOn = false := by
  simp (config := {decide := true}) only [Uc.run, List.foldl, Uc.feed, Uc.regStep, hu, hf, h14, Uc.dtm, Uc.lastWin, ↓reduceIte,
    Bool.false_eq_true, false_and, List.head?_cons, Option.map_some]

open Drivers.Epd4in2 in
theorem epd4in2_part_window_partial (f : Feat) (d : DState) (b : Bytes) (x y w h : Nat)
    (hx : x % 8 = 0) (hw : w % 8 = 0) (hw0 : 0 < w) (hh0 : 0 < h)
    (hxw : x + w ≤ 400) (hyh : y + h ≤ 300) (hx256 : x < 256)
    (u : Uc) (hu : u.asleep = false) (hf : u.winFmt = 9) (h14 : u.has14 = false) :
    (u.run (blocksOf ((prog f d (.part b x y w h)).getD []))).lastWin = some (x, y, x + w - 1, y + h - 1) ∧
    (u.run (blocksOf ((prog f d (.part b x y w h)).getD []))).partialOn = false := by
  have o := or7_id (x + w - 1) (by omega) (by omega)
  rw [epd4in2_part_blocks f d b x y w h hw0 hh0, and248_id x hx256 hx, o]
  have k := uc9_partial_seq u (shr8 x 8) (u8 x) (shr8 (x + w - 1) 8) (u8 (x + w - 1))
    (shr8 y 8) (u8 y) (shr8 (y + h - 1) 8) (u8 (y + h - 1)) 0x01 (b ++ []) hu hf h14
  rw [word_split x (by omega), word_split (x + w - 1) (by omega), word_split y (by omega),
    word_split (y + h - 1) (by omega)] at k
  have e1 : x / 8 * 8 = x := by omega
  have e2 : (x + w - 1) / 8 * 8 + 7 = x + w - 1 := by omega
  rw [e1, e2] at k
  exact k

/-- what the proof's hypothesis `x < 256` excludes is a real failure: at x = 256, w = 8 the decoded
    window ends at column 7 although it starts at column 256 -/
theorem epd4in2_part_window_fails_at_256 :
    ((Uc.por 400 300 1 9 false).run (blocksOf ((Drivers.Epd4in2.prog {} {} (.part [] 256 0 8 1)).getD []))).lastWin
      = some (256, 0, 7, 0) := by decide +kernel

/-- non-vacuity of the hypotheses: a window in the middle of the panel -/
example : (136 % 8 = 0 ∧ 64 % 8 = 0 ∧ 0 < 64 ∧ 0 < 10 ∧ 136 + 64 ≤ 400 ∧ 290 + 10 ≤ 300 ∧ 136 < 256) ∧
    (Uc.por 400 300 1 9 false).asleep = false ∧ (Uc.por 400 300 1 9 false).winFmt = 9 := by decide

/-- old-frame half of a quick-refresh pair: the controller stays in partial mode for the new-frame half -/
theorem uc9_partial_seq_open (u : Uc) (a a' b b' c c' d d' e : UInt8) (buf : List UInt8)
    (hu : u.asleep = false) (hf : u.winFmt = 9) (h14 : u.has14 = false) :
    (u.run [Blk.c 0x91 [], .c 0x90 [a, a', b, b', c, c', d, d', e], .c 0x10 buf]).lastWin
      = some (word a a' / 8 * 8, word c c', word b b' / 8 * 8 + 7, word d d') ∧
    (u.run [Blk.c 0x91 [], .c 0x90 [a, a', b, b', c, c', d, d', e], .c 0x10 buf]).partialOn = true := by
  simp (config := {decide := true}) only [Uc.run, List.foldl, Uc.feed, Uc.regStep, hu, hf, h14, Uc.dtm, Uc.lastWin, ↓reduceIte,
    Bool.false_eq_true, false_and, List.head?_cons, Option.map_some]

/-- windowed clear: resolution block, then both planes inside the window -/
theorem uc9_partial_seq_clear (u : Uc) (r : List UInt8) (a a' b b' c c' d d' e : UInt8) (b1 b2 : List UInt8)
    (hu : u.asleep = false) (hf : u.winFmt = 9) (h14 : u.has14 = false) :
    ((u.run [Blk.c 0x61 r, .c 0x91 [], .c 0x90 [a, a', b, b', c, c', d, d', e], .c 0x10 b1, .c 0x13 b2, .c 0x92 []]).epis.take 2).map (·.win)
      = [(word a a' / 8 * 8, word c c', word b b' / 8 * 8 + 7, word d d'), (word a a' / 8 * 8, word c c', word b b' / 8 * 8 + 7, word d d')] ∧
    (u.run [Blk.c 0x61 r, .c 0x91 [], .c 0x90 [a, a', b, b', c, c', d, d', e], .c 0x10 b1, .c 0x13 b2, .c 0x92 []]).partialOn = false := by
  simp (config := {decide := true}) only [Uc.run, List.foldl, Uc.feed, Uc.regStep, hu, hf, h14, Uc.dtm, ↓reduceIte,
    Bool.false_eq_true, false_and, List.take, List.map]

open Drivers.Epd4in2 in
theorem epd4in2_pold_blocks (f : Feat) (d : DState) (b : Bytes) (x y w h : Nat) (hw0 : 0 < w) (hh0 : 0 < h) :
    blocksOf ((prog f d (.pold b x y w h)).getD []) =
      [.c 0x91 [], .c 0x90 [shr8 x 8, u8 (x &&& 0xf8), shr8 ((x &&& 0xf8) + w - 1) 8, u8 (((x &&& 0xf8) + w - 1) ||| 0x07),
         shr8 y 8, u8 y, shr8 (y + h - 1) 8, u8 (y + h - 1), 0x01], .c 0x10 (b ++ [])] := by
  have a1 : decide ((x &&& 0xf8) + w ≥ 1) = true := by simp only [decide_eq_true_eq]; omega
  have a2 : decide (y + h ≥ 1) = true := by simp only [decide_eq_true_eq]; omega
  simp only [prog, shiftDisplay, assertA, a1, a2, Option.getD_some, if_true]
  rfl

open Drivers.Epd4in2 in
/-- `update_partial_old_frame`: same window, the controller stays in partial mode for `update_partial_new_frame` -/
theorem epd4in2_pold_window_partial (f : Feat) (d : DState) (b : Bytes) (x y w h : Nat)
    (hx : x % 8 = 0) (hw : w % 8 = 0) (hw0 : 0 < w) (hh0 : 0 < h)
    (hxw : x + w ≤ 400) (hyh : y + h ≤ 300) (hx256 : x < 256)
    (u : Uc) (hu : u.asleep = false) (hf : u.winFmt = 9) (h14 : u.has14 = false) :
    (u.run (blocksOf ((prog f d (.pold b x y w h)).getD []))).lastWin = some (x, y, x + w - 1, y + h - 1) ∧
    (u.run (blocksOf ((prog f d (.pold b x y w h)).getD []))).partialOn = true := by
  have o := or7_id (x + w - 1) (by omega) (by omega)
  rw [epd4in2_pold_blocks f d b x y w h hw0 hh0, and248_id x hx256 hx, o]
  have k := uc9_partial_seq_open u (shr8 x 8) (u8 x) (shr8 (x + w - 1) 8) (u8 (x + w - 1))
    (shr8 y 8) (u8 y) (shr8 (y + h - 1) 8) (u8 (y + h - 1)) 0x01 (b ++ []) hu hf h14
  rw [word_split x (by omega), word_split (x + w - 1) (by omega), word_split y (by omega),
    word_split (y + h - 1) (by omega)] at k
  have e1 : x / 8 * 8 = x := by omega
  have e2 : (x + w - 1) / 8 * 8 + 7 = x + w - 1 := by omega
  rw [e1, e2] at k
  exact k

open Drivers.Epd4in2 in
theorem epd4in2_pclear_blocks (f : Feat) (d : DState) (x y w h : Nat) (hw0 : 0 < w) (hh0 : 0 < h) :
    blocksOf ((prog f d (.pclear x y w h)).getD []) =
      [.c 0x61 [shr8 Gen.Epd4in2.WIDTH 8, u8 Gen.Epd4in2.WIDTH, shr8 Gen.Epd4in2.HEIGHT 8, u8 Gen.Epd4in2.HEIGHT],
       .c 0x91 [], .c 0x90 [shr8 x 8, u8 (x &&& 0xf8), shr8 ((x &&& 0xf8) + w - 1) 8, u8 (((x &&& 0xf8) + w - 1) ||| 0x07),
         shr8 y 8, u8 y, shr8 (y + h - 1) 8, u8 (y + h - 1), 0x01],
       .c 0x10 (List.replicate (w / 8 * h) (byteValue d.bg) ++ []), .c 0x13 (List.replicate (w / 8 * h) (byteValue d.bg) ++ []), .c 0x92 []] := by
  have a1 : decide ((x &&& 0xf8) + w ≥ 1) = true := by simp only [decide_eq_true_eq]; omega
  have a2 : decide (y + h ≥ 1) = true := by simp only [decide_eq_true_eq]; omega
  simp only [prog, shiftDisplay, sendResolution, assertA, a1, a2, Option.getD_some, if_true]
  rfl

open Drivers.Epd4in2 in
/-- `clear_partial_frame`: both planes are filled inside the requested window with `w/8*h` bytes each -/
theorem epd4in2_pclear_window_partial (f : Feat) (d : DState) (x y w h : Nat)
    (hx : x % 8 = 0) (hw : w % 8 = 0) (hw0 : 0 < w) (hh0 : 0 < h)
    (hxw : x + w ≤ 400) (hyh : y + h ≤ 300) (hx256 : x < 256)
    (u : Uc) (hu : u.asleep = false) (hf : u.winFmt = 9) (h14 : u.has14 = false) :
    ((u.run (blocksOf ((prog f d (.pclear x y w h)).getD []))).epis.take 2).map (·.win)
      = [(x, y, x + w - 1, y + h - 1), (x, y, x + w - 1, y + h - 1)] ∧
    (u.run (blocksOf ((prog f d (.pclear x y w h)).getD []))).partialOn = false := by
  have o := or7_id (x + w - 1) (by omega) (by omega)
  rw [epd4in2_pclear_blocks f d x y w h hw0 hh0, and248_id x hx256 hx, o]
  have k := uc9_partial_seq_clear u [shr8 Gen.Epd4in2.WIDTH 8, u8 Gen.Epd4in2.WIDTH, shr8 Gen.Epd4in2.HEIGHT 8, u8 Gen.Epd4in2.HEIGHT]
    (shr8 x 8) (u8 x) (shr8 (x + w - 1) 8) (u8 (x + w - 1))
    (shr8 y 8) (u8 y) (shr8 (y + h - 1) 8) (u8 (y + h - 1)) 0x01
    (List.replicate (w / 8 * h) (byteValue d.bg) ++ []) (List.replicate (w / 8 * h) (byteValue d.bg) ++ []) hu hf h14
  rw [word_split x (by omega), word_split (x + w - 1) (by omega), word_split y (by omega),
    word_split (y + h - 1) (by omega)] at k
  have e1 : x / 8 * 8 = x := by omega
  have e2 : (x + w - 1) / 8 * 8 + 7 = x + w - 1 := by omega
  rw [e1, e2] at k
  exact k


/-- the planes after the partial-update sequence: DTM2 is the window store, DTM1 untouched -/
theorem uc9_partial_seq_planes (u : Uc) (a a' b b' c c' d d' e : UInt8) (buf : List UInt8)
    (hu : u.asleep = false) (hf : u.winFmt = 9) (h14 : u.has14 = false) :
    (u.run [Blk.c 0x91 [], .c 0x90 [a, a', b, b', c, c', d, d', e], .c 0x13 buf, .c 0x92 []]).p2
      = (storeAt (winPos u.stride2 (word a a' / 8) (word b b' / 8 + 1 - word a a' / 8) (word c c') (word d d' + 1 - word c c'))
          u.p2 buf 0 0).1 ∧
    (u.run [Blk.c 0x91 [], .c 0x90 [a, a', b, b', c, c', d, d', e], .c 0x13 buf, .c 0x92 []]).p1 = u.p1 ∧
    ((u.run [Blk.c 0x91 [], .c 0x90 [a, a', b, b', c, c', d, d', e], .c 0x13 buf, .c 0x92 []]).epis.head?.map fun ep => (ep.plane, ep.count, ep.stored))
      = some (1, buf.length, (storeAt (winPos u.stride2 (word a a' / 8) (word b b' / 8 + 1 - word a a' / 8) (word c c') (word d d' + 1 - word c c'))
          u.p2 buf 0 0).2) := by
  simp (config := {decide := true}) only [Uc.run, List.foldl, Uc.feed, Uc.regStep, hu, hf, h14, Uc.dtm, ↓reduceIte,
    Bool.false_eq_true, List.head?_cons, Option.map_some, Uc.stride2, and_self]

open Drivers.Epd4in2 in
/-- **C06 (ii), (iii) for epd4in2 `update_partial_frame`, every window**: the buffer's byte `k` is at row
    `y + k / (w/8)`, byte column `x/8 + k % (w/8)` of the new-image plane, all `w/8*h` bytes are stored
    exactly once (`count = stored = w/8*h`), every cell outside the window and the whole old-image plane
    are unchanged -/
theorem epd4in2_part_content_partial (f : Feat) (d : DState) (b : Bytes) (x y w h : Nat)
    (hx : x % 8 = 0) (hw : w % 8 = 0) (hw0 : 0 < w) (hh0 : 0 < h)
    (hxw : x + w ≤ 400) (hyh : y + h ≤ 300) (hx256 : x < 256) (hl : b.length = w / 8 * h)
    (u : Uc) (hu : u.asleep = false) (hf : u.winFmt = 9) (h14 : u.has14 = false)
    (hwd : u.width = 400) (hsz : u.p2.size = 50 * 300) :
    let u' := u.run (blocksOf ((prog f d (.part b x y w h)).getD []))
    (∀ k (hk : k < b.length), u'.p2[winIdx 50 (x / 8) (w / 8) y k]? = some b[k]) ∧
    (∀ j, (∀ k, k < w / 8 * h → winIdx 50 (x / 8) (w / 8) y k ≠ j) → u'.p2[j]? = u.p2[j]?) ∧
    u'.p1 = u.p1 ∧
    (u'.epis.head?.map fun ep => (ep.plane, ep.count, ep.stored)) = some (1, w / 8 * h, w / 8 * h) := by
  intro u'
  have o := or7_id (x + w - 1) (by omega) (by omega)
  have hb : blocksOf ((prog f d (.part b x y w h)).getD []) = _ := epd4in2_part_blocks f d b x y w h hw0 hh0
  rw [and248_id x hx256 hx, o, List.append_nil] at hb
  have k := uc9_partial_seq_planes u (shr8 x 8) (u8 x) (shr8 (x + w - 1) 8) (u8 (x + w - 1))
    (shr8 y 8) (u8 y) (shr8 (y + h - 1) 8) (u8 (y + h - 1)) 0x01 b hu hf h14
  rw [word_split x (by omega), word_split (x + w - 1) (by omega), word_split y (by omega),
    word_split (y + h - 1) (by omega)] at k
  have s2 : u.stride2 = 50 := by unfold Uc.stride2; rw [hwd]
  have e1 : (x + w - 1) / 8 + 1 - x / 8 = w / 8 := by omega
  have e2 : y + h - 1 + 1 - y = h := by omega
  rw [s2, e1, e2] at k
  have st := storeAt_window 50 (x / 8) (w / 8) y h u.p2 b (by omega) (by omega) (by rw [hsz]; omega) hl
  have hu' : u' = u.run [Blk.c 0x91 [], .c 0x90 [shr8 x 8, u8 x, shr8 (x + w - 1) 8, u8 (x + w - 1),
      shr8 y 8, u8 y, shr8 (y + h - 1) 8, u8 (y + h - 1), 0x01], .c 0x13 b, .c 0x92 []] := by
    show u.run _ = _
    rw [hb]
  rw [hu', k.1, k.2.1, k.2.2, st.1]
  exact ⟨fun k hk => st.2.2.1 k hk, st.2.2.2, rfl, by rw [hl]⟩

/-! ## epd7in5b_v2 -/

theorem hr_word : ∀ q, q < 256 → Uc.word (u8 q >>> 5) (u8 (q <<< 3)) = q * 8 := by decide +kernel
theorem hr_word_end : ∀ e, e < 256 → Uc.word (u8 e >>> 5) (u8 (e <<< 3) ||| 0b111) = e * 8 + 7 := by decide +kernel

/-- both planes inside the window, refresh, leave partial mode (7in5b_v2 `update_partial_frame2`) -/
theorem uc9_partial_seq_two (u : Uc) (a a' b b' c c' d d' e : UInt8) (b1 b2 : List UInt8)
    (hu : u.asleep = false) (hf : u.winFmt = 9) (h14 : u.has14 = false) :
    ((u.run [Blk.c 0x91 [], .c 0x90 [a, a', b, b', c, c', d, d', e], .c 0x10 b1, .c 0x13 b2, .c 0x12 [], .c 0x92 []]).epis.take 2).map
        (fun ep => (ep.plane, ep.win))
      = [(1, word a a' / 8 * 8, word c c', word b b' / 8 * 8 + 7, word d d'), (0, word a a' / 8 * 8, word c c', word b b' / 8 * 8 + 7, word d d')] ∧
    (u.run [Blk.c 0x91 [], .c 0x90 [a, a', b, b', c, c', d, d', e], .c 0x10 b1, .c 0x13 b2, .c 0x12 [], .c 0x92 []]).partialOn = false := by
  simp (config := {decide := true}) only [Uc.run, List.foldl, Uc.feed, Uc.regStep, hu, hf, h14, Uc.dtm, ↓reduceIte,
    Bool.false_eq_true, List.take, List.map, and_self]

open Drivers.Epd7in5b_v2 in
theorem epd7in5b_v2_part2_blocks (f : Feat) (d : DState) (b : Bytes) (x y w h : Nat) (hw0 : 8 ≤ w) (hh0 : 0 < h) :
    blocksOf ((prog f d (.part2 b x y w h)).getD []) =
      [.c 0x91 [], .c 0x90 [u8 (x / 8) >>> 5, u8 ((x / 8) <<< 3), u8 ((x + w) / 8 - 1) >>> 5, u8 (((x + w) / 8 - 1) <<< 3) ||| 0b111,
         shr8 y 8, u8 y, shr8 (y + h - 1) 8, u8 (y + h - 1), 0x01],
       .c 0x10 (b.take (b.length / 2) ++ []), .c 0x13 (b.drop (b.length / 2) ++ []), .c 0x12 [], .c 0x92 []] := by
  have a1 : decide ((x + w) / 8 ≥ 1) = true := by simp only [decide_eq_true_eq]; omega
  have a2 : decide (y + h ≥ 1) = true := by simp only [decide_eq_true_eq]; omega
  simp only [prog, updatePartial2, assertA, a1, a2, Option.getD_some, if_true]
  rfl

open Drivers.Epd7in5b_v2 in
/-- **epd7in5b_v2 `update_partial_frame2`, EVERY byte-aligned window inside the 800 x 480 panel** (full
    strength: no restriction on `x`): both data blocks arrive while the controller's window is
    `(x, y, x + w - 1, y + h - 1)`, B/W half to DTM1 then chromatic half to DTM2, and partial mode is left -/
theorem epd7in5b_v2_part2_window (f : Feat) (d : DState) (b : Bytes) (x y w h : Nat)
    (hx : x % 8 = 0) (hw : w % 8 = 0) (hw0 : 0 < w) (hh0 : 0 < h)
    (hxw : x + w ≤ 800) (hyh : y + h ≤ 480)
    (u : Uc) (hu : u.asleep = false) (hf : u.winFmt = 9) (h14 : u.has14 = false) :
    ((u.run (blocksOf ((prog f d (.part2 b x y w h)).getD []))).epis.take 2).map (fun ep => (ep.plane, ep.win))
      = [(1, x, y, x + w - 1, y + h - 1), (0, x, y, x + w - 1, y + h - 1)] ∧
    (u.run (blocksOf ((prog f d (.part2 b x y w h)).getD []))).partialOn = false := by
  rw [epd7in5b_v2_part2_blocks f d b x y w h (by omega) hh0]
  have k := uc9_partial_seq_two u (u8 (x / 8) >>> 5) (u8 ((x / 8) <<< 3)) (u8 ((x + w) / 8 - 1) >>> 5)
    (u8 (((x + w) / 8 - 1) <<< 3) ||| 0b111) (shr8 y 8) (u8 y) (shr8 (y + h - 1) 8) (u8 (y + h - 1)) 0x01
    (b.take (b.length / 2) ++ []) (b.drop (b.length / 2) ++ []) hu hf h14
  rw [hr_word (x / 8) (by omega), hr_word_end ((x + w) / 8 - 1) (by omega), word_split y (by omega),
    word_split (y + h - 1) (by omega)] at k
  have e1 : x / 8 * 8 / 8 * 8 = x := by omega
  have e2 : (((x + w) / 8 - 1) * 8 + 7) / 8 * 8 + 7 = x + w - 1 := by omega
  rw [e1, e2] at k
  exact k

example : (392 % 8 = 0 ∧ 408 % 8 = 0 ∧ 392 + 408 ≤ 800 ∧ 470 + 10 ≤ 480) := by decide

/-! ## SSD16xx: epd2in9b_v4 -/

def _root_.EpdVerif.Ssd.run (s : Ssd) (bs : List Blk) : Ssd := bs.foldl Ssd.feed s

/-- the four addressing blocks of an SSD16xx (byte-unit X) partial update, from ANY awake state -/
theorem ssd_addr_seq (s : Ssd) (a b : UInt8) (c c' d d' : UInt8) (hu : s.asleep = false) (hx : s.xPix = false) :
    let s' := s.run [Blk.c 0x44 [a, b], .c 0x45 [c, c', d, d'], .c 0x4E [a], .c 0x4F [c, c']]
    s'.xs = a.toNat % 64 ∧ s'.xe = b.toNat % 64 ∧ s'.ys = Ssd.word c c' % 1024 ∧ s'.ye = Ssd.word d d' % 1024 ∧
    s'.cx = a.toNat % 64 ∧ s'.cy = Ssd.word c c' % 1024 ∧
    s'.asleep = false ∧ s'.entry = s.entry ∧ s'.stride = s.stride ∧ s'.rows = s.rows ∧ s'.bw = s.bw ∧ s'.red = s.red ∧
    s'.epis = s.epis := by
  simp (config := {decide := true}) only [Ssd.run, List.foldl, Ssd.feed, Ssd.regStep, hu, hx, ↓reduceIte,
    Bool.false_eq_true, and_self]

theorem ssd_word_split (n : Nat) (h : n < 65536) : Ssd.word (u8 n) (shr8 n 8) = n := by
  simp only [Ssd.word, shr8, u8_toNat, Nat.shiftRight_eq_div_pow]
  omega

open Drivers.Epd2in9b_v4 in
theorem epd2in9b_v4_part_blocks (f : Feat) (d : DState) (b : Bytes) (x y w h : Nat)
    (hx : x % 8 = 0) (hw : w % 8 = 0) (hw0 : 0 < w) (hh0 : 0 < h) :
    blocksOf ((prog f d (.part b x y w h)).getD []) =
      [.c 0x44 [u8 (x / 8), u8 ((x + w) / 8 - 1)], .c 0x45 [u8 y, shr8 y 8, u8 (y + h - 1), shr8 (y + h - 1) 8],
       .c 0x4E [u8 (x / 8)], .c 0x4F [u8 y, shr8 y 8], .c 0x24 (b ++ [])] := by
  have h2 : (x + w) % 8 = 0 := by omega
  have a0 : (w % 8 == 0) = true := by simp [hw]
  have a1 : decide ((x + w) / 8 ≥ 1) = true := by simp only [decide_eq_true_eq]; omega
  have a2 : decide (y + h ≥ 1) = true := by simp only [decide_eq_true_eq]; omega
  simp only [prog, updatePartialFrame, hx, h2, assertA, a0, a1, a2, Option.getD_some, if_true,
    Nat.add_zero, beq_self_eq_true, Bool.or_true, Bool.true_or]
  rfl

open Drivers.Epd2in9b_v4 in
/-- **epd2in9b_v4 `update_partial_frame`, EVERY byte-aligned window inside the 128 x 296 panel, every
    buffer of the window's size, from ANY awake controller state in data-entry mode 3** (full strength):
    window registers, counter at the window origin, the window filled exactly once row by row,
    everything outside it and the whole RED plane unchanged -/
theorem epd2in9b_v4_part_window (f : Feat) (d : DState) (b : Bytes) (x y w h : Nat)
    (hx : x % 8 = 0) (hw : w % 8 = 0) (hw0 : 0 < w) (hh0 : 0 < h) (hxw : x + w ≤ 128) (hyh : y + h ≤ 296)
    (hl : b.length = w / 8 * h)
    (s : Ssd) (hu : s.asleep = false) (hxp : s.xPix = false) (h3 : s.entry = 3) (hst : s.stride = 22) (hro : s.rows = 296)
    (hbw : s.bw.size = 22 * 296) (hred : s.red.size = 22 * 296) :
    let s' := s.run (blocksOf ((prog f d (.part b x y w h)).getD []))
    (∀ (k : Nat) (hk : k < b.length), s'.bw[(y + k / (w / 8)) * 22 + (x / 8 + k % (w / 8))]? = some b[k]) ∧
    (∀ j : Nat, (∀ k, k < b.length → (y + k / (w / 8)) * 22 + (x / 8 + k % (w / 8)) ≠ j) → s'.bw[j]? = s.bw[j]?) ∧
    s'.red = s.red ∧
    s'.epis.head? = some (Episode.mk 0 (w / 8 * h) (w / 8 * h) true false (x, y, x + w - 1, y + h - 1)) := by
  intro s'
  have hb := epd2in9b_v4_part_blocks f d b x y w h hx hw hw0 hh0
  rw [List.append_nil] at hb
  have q := ssd_addr_seq s (u8 (x / 8)) (u8 ((x + w) / 8 - 1)) (u8 y) (shr8 y 8) (u8 (y + h - 1)) (shr8 (y + h - 1) 8) hu hxp
  simp only [] at q
  generalize hs1 : s.run [Blk.c 0x44 [u8 (x / 8), u8 ((x + w) / 8 - 1)], .c 0x45 [u8 y, shr8 y 8, u8 (y + h - 1), shr8 (y + h - 1) 8],
       .c 0x4E [u8 (x / 8)], .c 0x4F [u8 y, shr8 y 8]] = s1 at q
  obtain ⟨qxs, qxe, qys, qye, qcx, qcy, qa, qe, qst, qro, qbw, qred, qep⟩ := q
  rw [ssd_word_split y (by omega)] at qys qcy
  rw [ssd_word_split (y + h - 1) (by omega)] at qye
  simp only [u8_toNat] at qxs qxe qcx
  have v1 : x / 8 % 256 % 64 = x / 8 := by omega
  have v2 : ((x + w) / 8 - 1) % 256 % 64 = (x + w) / 8 - 1 := by omega
  have v3 : y % 1024 = y := by omega
  have v4 : (y + h - 1) % 1024 = y + h - 1 := by omega
  rw [v1] at qxs qcx; rw [v2] at qxe; rw [v3] at qys qcy; rw [v4] at qye
  have es' : s' = s1.feed (.c 0x24 b) := by
    show s.run _ = _
    rw [hb, ← hs1]
    simp only [Ssd.run, List.foldl]
  have wb : s1.xe - s1.xs + 1 = w / 8 := by rw [qxe, qxs]; omega
  have wh : s1.ye - s1.ys + 1 = h := by rw [qye, qys]; omega
  have key := ssd_partial_window s1 b qa (by rw [qe, h3]) (by rw [qxs, qxe]; omega) (by rw [qys, qye]; omega)
    (by rw [qxe, qst, hst]; omega) (by rw [qye, qro, hro]; omega) (by rw [qbw, qst, qro, hst, hro]; exact hbw)
    (by rw [qred, qst, qro, hst, hro]; exact hred) (by rw [qcx, qxs]) (by rw [qcy, qys]) (by rw [wb, wh]; exact hl)
  rw [wb, qys, qxs, qst, hst, qbw, qred, qxe, qye] at key
  rw [es']
  refine ⟨key.1, key.2.1, key.2.2.1, ?_⟩
  rw [key.2.2.2, hl]
  have e1 : x / 8 * 8 = x := by omega
  have e2 : ((x + w) / 8 - 1) * 8 + 7 = x + w - 1 := by omega
  rw [e1, e2]

example : (16 % 8 = 0 ∧ 112 % 8 = 0 ∧ 16 + 112 ≤ 128 ∧ 290 + 6 ≤ 296) := by decide

/-! ## epd1in02 (UC8175, 5-byte window block; the window is correct exactly under the coupling
   "driver believes Quick ⇒ controller in partial mode") -/

/-- UC8175 (5-byte window block): window then old-image data, controller already in partial mode -/
theorem uc5_window_data (u : Uc) (a b c d e : UInt8) (buf : List UInt8)
    (hu : u.asleep = false) (hf : u.winFmt = 5) (h14 : u.has14 = false) (hp : u.partialOn = true) :
    (u.run [Blk.c 0x90 [a, b, c, d, e], .c 0x10 buf]).lastWin
      = some (a.toNat / 8 * 8, c.toNat, b.toNat / 8 * 8 + 7, d.toNat) ∧
    (u.run [Blk.c 0x90 [a, b, c, d, e], .c 0x10 buf]).partialOn = true := by
  simp (config := {decide := true}) only [Uc.run, List.foldl, Uc.feed, Uc.regStep, hu, hf, h14, hp, Uc.dtm, Uc.lastWin, ↓reduceIte,
    Bool.false_eq_true, List.head?_cons, Option.map_some, and_self]

/-- … entering partial mode first (PartialIn, the two quick waveform tables) -/
theorem uc5_enter_window_data (u : Uc) (l1 l2 : List UInt8) (a b c d e : UInt8) (buf : List UInt8)
    (hu : u.asleep = false) (hf : u.winFmt = 5) (h14 : u.has14 = false) :
    (u.run [Blk.c 0x91 [], .c 0x23 l1, .c 0x24 l2, .c 0x90 [a, b, c, d, e], .c 0x10 buf]).lastWin
      = some (a.toNat / 8 * 8, c.toNat, b.toNat / 8 * 8 + 7, d.toNat) ∧
    (u.run [Blk.c 0x91 [], .c 0x23 l1, .c 0x24 l2, .c 0x90 [a, b, c, d, e], .c 0x10 buf]).partialOn = true := by
  simp (config := {decide := true}) only [Uc.run, List.foldl, Uc.feed, Uc.regStep, hu, hf, h14, Uc.dtm, Uc.lastWin, ↓reduceIte,
    Bool.false_eq_true, List.head?_cons, Option.map_some, and_self]

open Drivers.Epd1in02 in
/-- **epd1in02 `update_partial_old_frame`, EVERY byte-aligned window inside the 80 x 128 panel**: the old-
    image data arrives under the requested window, in partial mode — from any awake controller that
    is in partial mode whenever the driver believes it is (`refresh = Quick`; the coupling whose
    breakage by `wake_up` without `sleep` is the listed finding KF-C06-epd1in02) -/
theorem epd1in02_pold_window (f : Feat) (d : DState) (b : Bytes) (x y w h : Nat)
    (hx : x % 8 = 0) (hw : w % 8 = 0) (hw0 : 0 < w) (hh0 : 0 < h) (hxw : x + w ≤ 80) (hyh : y + h ≤ 128)
    (hl : b.length = w / 8 * h)
    (u : Uc) (hu : u.asleep = false) (hf : u.winFmt = 5) (h14 : u.has14 = false)
    (hc : d.refresh = .quick → u.partialOn = true) :
    (u.run (blocksOf ((prog f d (.pold b x y w h)).getD []))).lastWin = some (x, y, x + w - 1, y + h - 1) ∧
    (u.run (blocksOf ((prog f d (.pold b x y w h)).getD []))).partialOn = true := by
  have a0 : isBufferSizeOk b w h = true := by
    simp only [isBufferSizeOk, bufferLen, beq_iff_eq]; rw [hl]; congr 1; omega
  have a1 : isWindowSizeOk x y w h = true := by
    simp only [isWindowSizeOk, Bool.and_eq_true, decide_eq_true_eq, beq_iff_eq]
    exact ⟨⟨⟨hxw, hyh⟩, hx⟩, hw⟩
  have a2 : decide (x + w ≥ 1) = true := by simp only [decide_eq_true_eq]; omega
  have a3 : decide (y + h ≥ 1) = true := by simp only [decide_eq_true_eq]; omega
  have e1 : (u8 x).toNat / 8 * 8 = x := by rw [u8_toNat]; omega
  have e2 : (u8 (x + w - 1)).toNat / 8 * 8 + 7 = x + w - 1 := by rw [u8_toNat]; omega
  have e3 : (u8 y).toNat = y := by rw [u8_toNat]; omega
  have e4 : (u8 (y + h - 1)).toNat = y + h - 1 := by rw [u8_toNat]; omega
  cases hr : d.refresh with
  | quick =>
    have hb : blocksOf ((prog f d (.pold b x y w h)).getD []) =
        [.c 0x90 [u8 x, u8 (x + w - 1), u8 y, u8 (y + h - 1), 0x00], .c 0x10 (b ++ [])] := by
      simp only [prog, setPartialMode, setPartialWindow, assertA, a0, a1, a2, a3, hr, Option.getD_some, if_true, ne_eq,
        not_true_eq_false, if_false, List.nil_append]
      rfl
    rw [hb]
    have k := uc5_window_data u (u8 x) (u8 (x + w - 1)) (u8 y) (u8 (y + h - 1)) 0x00 (b ++ []) hu hf h14 (hc hr)
    rw [e1, e2, e3, e4] at k
    exact k
  | full =>
    have hb : blocksOf ((prog f d (.pold b x y w h)).getD []) =
        [.c 0x91 [], .c 0x23 (Gen.Epd1in02.LUT_PARTIAL_UPDATE_WHITE ++ []), .c 0x24 (Gen.Epd1in02.LUT_PARTIAL_UPDATE_BLACK ++ []),
         .c 0x90 [u8 x, u8 (x + w - 1), u8 y, u8 (y + h - 1), 0x00], .c 0x10 (b ++ [])] := by
      simp only [prog, setPartialMode, setPartialWindow, setLut, assertA, a0, a1, a2, a3, hr, Option.getD_some, if_true, ne_eq,
        reduceCtorEq, not_false_eq_true, List.nil_append]
      rfl
    rw [hb]
    have k := uc5_enter_window_data u (Gen.Epd1in02.LUT_PARTIAL_UPDATE_WHITE ++ []) (Gen.Epd1in02.LUT_PARTIAL_UPDATE_BLACK ++ []) (u8 x) (u8 (x + w - 1)) (u8 y) (u8 (y + h - 1)) 0x00 (b ++ []) hu hf h14
    rw [e1, e2, e3, e4] at k
    exact k

/-! ## epd2in7 (windowed data command 0x14 with its 8-byte header) -/

theorem andff : ∀ n, n < 512 → n &&& 0xff = n % 256 := by decide +kernel

/-- 2.7in windowed data command 0x14 on an awake controller: header decoded, data stored through the window -/
theorem uc14_feed (u : Uc) (xh xl yh yl wh wl hh hl : UInt8) (rest : List UInt8) (hu : u.asleep = false) (h14 : u.has14 = true) :
    (u.feed (.c 0x14 (xh :: xl :: yh :: yl :: wh :: wl :: hh :: hl :: rest))).p1
      = (storeAt (winPos u.stride2 (word xh xl / 8) (word wh wl / 8) (word yh yl) (word hh hl)) u.p1 rest 0 0).1 ∧
    (u.feed (.c 0x14 (xh :: xl :: yh :: yl :: wh :: wl :: hh :: hl :: rest))).p2 = u.p2 ∧
    ((u.feed (.c 0x14 (xh :: xl :: yh :: yl :: wh :: wl :: hh :: hl :: rest))).epis.head?.map fun e => (e.plane, e.count, e.stored, e.win))
      = some (0, rest.length, (storeAt (winPos u.stride2 (word xh xl / 8) (word wh wl / 8) (word yh yl) (word hh hl)) u.p1 rest 0 0).2,
          (word xh xl / 8 * 8, word yh yl, word xh xl + word wh wl - 1, word yh yl + word hh hl - 1)) := by
  simp (config := {decide := true}) only [Uc.feed, Uc.dtmWin, hu, h14, ↓reduceIte, Bool.false_eq_true,
    List.head?_cons, Option.map_some, and_self]

open Drivers.Epd2in7 in
theorem epd2in7_part_blocks (f : Feat) (d : DState) (b : Bytes) (x y w h : Nat) :
    blocksOf ((prog f d (.part b x y w h)).getD []) =
      [.c 0x14 ([shr8 x 8, u8 (x &&& 0xf8), shr8 y 8, u8 (y &&& 0xff), shr8 w 8, u8 (w &&& 0xf8), shr8 h 8, u8 (h &&& 0xff)] ++ (b ++ []))] := rfl

open Drivers.Epd2in7 in
/-- **epd2in7 `update_partial_frame`, EVERY byte-aligned window inside the 176 x 264 panel, every buffer of
    the window's size, any awake controller state** (full strength, all clauses): header = the requested
    window, buffer byte `k` at row `y + k/(w/8)`, byte column `x/8 + k%(w/8)`, stored exactly once,
    everything outside and the other plane unchanged -/
theorem epd2in7_part_window (f : Feat) (d : DState) (b : Bytes) (x y w h : Nat)
    (hx : x % 8 = 0) (hw : w % 8 = 0) (hw0 : 0 < w) (hh0 : 0 < h) (hxw : x + w ≤ 176) (hyh : y + h ≤ 264)
    (hl : b.length = w / 8 * h)
    (u : Uc) (hu : u.asleep = false) (h14 : u.has14 = true) (hwd : u.width = 176) (hsz : u.p1.size = 22 * 264) :
    let u' := u.run (blocksOf ((prog f d (.part b x y w h)).getD []))
    (∀ k (hk : k < b.length), u'.p1[winIdx 22 (x / 8) (w / 8) y k]? = some b[k]) ∧
    (∀ j, (∀ k, k < w / 8 * h → winIdx 22 (x / 8) (w / 8) y k ≠ j) → u'.p1[j]? = u.p1[j]?) ∧
    u'.p2 = u.p2 ∧
    (u'.epis.head?.map fun e => (e.plane, e.count, e.stored, e.win)) = some (0, w / 8 * h, w / 8 * h, (x, y, x + w - 1, y + h - 1)) := by
  intro u'
  have hu' : u' = u.feed (.c 0x14 (shr8 x 8 :: u8 (x &&& 0xf8) :: shr8 y 8 :: u8 (y &&& 0xff) :: shr8 w 8 :: u8 (w &&& 0xf8)
      :: shr8 h 8 :: u8 (h &&& 0xff) :: b)) := by
    show u.run _ = _
    rw [epd2in7_part_blocks, List.append_nil]
    rfl
  rw [and248_id x (by omega) hx, and248_id w (by omega) hw, andff y (by omega), andff h (by omega)] at hu'
  have k := uc14_feed u (shr8 x 8) (u8 (x &&& 0xf8)) (shr8 y 8) (u8 (y &&& 0xff)) (shr8 w 8) (u8 (w &&& 0xf8))
    (shr8 h 8) (u8 (h &&& 0xff)) b hu h14
  rw [and248_id x (by omega) hx, and248_id w (by omega) hw, andff y (by omega), andff h (by omega)] at k
  have wy : word (shr8 y 8) (u8 (y % 256)) = y := by
    simp only [Uc.word, shr8, u8_toNat, Nat.shiftRight_eq_div_pow]; omega
  have wh' : word (shr8 h 8) (u8 (h % 256)) = h := by
    simp only [Uc.word, shr8, u8_toNat, Nat.shiftRight_eq_div_pow]; omega
  rw [word_split x (by omega), word_split w (by omega), wy, wh'] at k
  have s2 : u.stride2 = 22 := by unfold Uc.stride2; rw [hwd]
  rw [s2] at k
  have st := storeAt_window 22 (x / 8) (w / 8) y h u.p1 b (by omega) (by omega) (by rw [hsz]; omega) hl
  rw [hu', k.1, k.2.1, k.2.2, st.1]
  have e1 : x / 8 * 8 = x := by omega
  refine ⟨fun k hk => st.2.2.1 k hk, st.2.2.2, rfl, ?_⟩
  rw [hl, e1]

/-! ## epd7in5b_v2: content of both planes -/

theorem uc9_partial_seq_two_planes (u : Uc) (a a' b b' c c' d d' e : UInt8) (b1 b2 : List UInt8)
    (hu : u.asleep = false) (hf : u.winFmt = 9) (h14 : u.has14 = false) (hb : u.bpp1 = 1) :
    (u.run [Blk.c 0x91 [], .c 0x90 [a, a', b, b', c, c', d, d', e], .c 0x10 b1, .c 0x13 b2, .c 0x12 [], .c 0x92 []]).p1
      = (storeAt (winPos u.stride2 (word a a' / 8) (word b b' / 8 + 1 - word a a' / 8) (word c c') (word d d' + 1 - word c c')) u.p1 b1 0 0).1 ∧
    (u.run [Blk.c 0x91 [], .c 0x90 [a, a', b, b', c, c', d, d', e], .c 0x10 b1, .c 0x13 b2, .c 0x12 [], .c 0x92 []]).p2
      = (storeAt (winPos u.stride2 (word a a' / 8) (word b b' / 8 + 1 - word a a' / 8) (word c c') (word d d' + 1 - word c c')) u.p2 b2 0 0).1 := by
  simp (config := {decide := true}) only [Uc.run, List.foldl, Uc.feed, Uc.regStep, hu, hf, h14, Uc.dtm, ↓reduceIte,
    Bool.false_eq_true, and_self, Uc.stride1, Uc.stride2, hb, Nat.mul_one]

open Drivers.Epd7in5b_v2 in
/-- **C06 (ii), (iii) for epd7in5b_v2 `update_partial_frame2`, every window**: the first half of the buffer
    fills the window of the B/W plane, the second half the window of the chromatic plane, row by row;
    every cell outside the window keeps its content in both planes -/
theorem epd7in5b_v2_part2_content (f : Feat) (d : DState) (b : Bytes) (x y w h : Nat)
    (hx : x % 8 = 0) (hw : w % 8 = 0) (hw0 : 0 < w) (hh0 : 0 < h) (hxw : x + w ≤ 800) (hyh : y + h ≤ 480)
    (hl : b.length = 2 * (w / 8 * h))
    (u : Uc) (hu : u.asleep = false) (hf : u.winFmt = 9) (h14 : u.has14 = false) (hb : u.bpp1 = 1)
    (hwd : u.width = 800) (hs1 : u.p1.size = 100 * 480) (hs2 : u.p2.size = 100 * 480) :
    let u' := u.run (blocksOf ((prog f d (.part2 b x y w h)).getD []))
    (∀ k (hk : k < w / 8 * h), u'.p1[winIdx 100 (x / 8) (w / 8) y k]? = some (b[k]'(by omega))) ∧
    (∀ k (hk : k < w / 8 * h), u'.p2[winIdx 100 (x / 8) (w / 8) y k]? = some (b[w / 8 * h + k]'(by omega))) ∧
    (∀ j, (∀ k, k < w / 8 * h → winIdx 100 (x / 8) (w / 8) y k ≠ j) → u'.p1[j]? = u.p1[j]? ∧ u'.p2[j]? = u.p2[j]?) := by
  intro u'
  have half : b.length / 2 = w / 8 * h := by omega
  have hblk := epd7in5b_v2_part2_blocks f d b x y w h (by omega) hh0
  simp only [List.append_nil, half] at hblk
  have k := uc9_partial_seq_two_planes u (u8 (x / 8) >>> 5) (u8 ((x / 8) <<< 3)) (u8 ((x + w) / 8 - 1) >>> 5)
    (u8 (((x + w) / 8 - 1) <<< 3) ||| 0b111) (shr8 y 8) (u8 y) (shr8 (y + h - 1) 8) (u8 (y + h - 1)) 0x01
    (b.take (w / 8 * h)) (b.drop (w / 8 * h)) hu hf h14 hb
  rw [hr_word (x / 8) (by omega), hr_word_end ((x + w) / 8 - 1) (by omega), word_split y (by omega),
    word_split (y + h - 1) (by omega)] at k
  have s2 : u.stride2 = 100 := by unfold Uc.stride2; rw [hwd]
  have e1 : x / 8 * 8 / 8 = x / 8 := by omega
  have e2 : (((x + w) / 8 - 1) * 8 + 7) / 8 + 1 - x / 8 = w / 8 := by omega
  have e3 : y + h - 1 + 1 - y = h := by omega
  rw [s2, e1, e2, e3] at k
  have l1 : (b.take (w / 8 * h)).length = w / 8 * h := by rw [List.length_take]; omega
  have l2 : (b.drop (w / 8 * h)).length = w / 8 * h := by rw [List.length_drop]; omega
  have st1 := storeAt_window 100 (x / 8) (w / 8) y h u.p1 (b.take (w / 8 * h)) (by omega) (by omega) (by rw [hs1]; omega) l1
  have st2 := storeAt_window 100 (x / 8) (w / 8) y h u.p2 (b.drop (w / 8 * h)) (by omega) (by omega) (by rw [hs2]; omega) l2
  have hu' : u' = u.run [Blk.c 0x91 [], .c 0x90 [u8 (x / 8) >>> 5, u8 ((x / 8) <<< 3), u8 ((x + w) / 8 - 1) >>> 5,
      u8 (((x + w) / 8 - 1) <<< 3) ||| 0b111, shr8 y 8, u8 y, shr8 (y + h - 1) 8, u8 (y + h - 1), 0x01],
      .c 0x10 (b.take (w / 8 * h)), .c 0x13 (b.drop (w / 8 * h)), .c 0x12 [], .c 0x92 []] := by
    show u.run _ = _
    rw [hblk]
  rw [hu', k.1, k.2]
  refine ⟨?_, ?_, ?_⟩
  · intro k' hk'
    have := st1.2.2.1 k' (by rw [l1]; exact hk')
    rw [this]; simp [List.getElem_take]
  · intro k' hk'
    have := st2.2.2.1 k' (by rw [l2]; exact hk')
    rw [this]; simp [List.getElem_drop]
  · intro j hj
    exact ⟨st1.2.2.2 j hj, st2.2.2.2 j hj⟩

end EpdVerif.Props.C06
