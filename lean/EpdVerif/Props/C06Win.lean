import EpdVerif.Ctrl.Uc
import EpdVerif.Drivers.Epd4in2
/-!
# C06 (i), (iv) for SYMBOLIC windows — the window the controller decodes is the requested one

For every byte-aligned window inside the panel (any `x, y, w, h`, not a sample), every buffer,
every driver state and every awake controller of the panel's kind (any RAM, registers, window
left by earlier calls): the partial-update program's blocks are `PartialIn, PartialWindow[9],
data…, PartialOut` with no stray bytes, the window snapshot taken by the simulator when the data
arrives (`Episode.win`, what the run-time oracle's clause (i) reads) is
`(x, y, x + w - 1, y + h - 1)`, and the controller is left outside partial mode.

epd4in2: proved for `x < 256`; for `x ≥ 256` the statement is FALSE of the code (known finding
KF-C06-epd4in2: `x & 0xf8` drops bit 8) — `epd4in2_part_window_fails_at_256` is the witness, the
hypothesis `x < 256` is exactly what the proof forced.
-/
namespace EpdVerif.Props.C06
open EpdVerif Uc

def _root_.EpdVerif.Uc.run (u : Uc) (bs : List Blk) : Uc := bs.foldl Uc.feed u
def _root_.EpdVerif.Uc.lastWin (u : Uc) : Option (Nat × Nat × Nat × Nat) := u.epis.head?.map (·.win)

theorem and248 : ∀ n, n < 256 → n &&& 248 = n / 8 * 8 := by decide +kernel
theorem or7 : ∀ n, n < 256 → n ||| 7 = n / 8 * 8 + 7 := by decide +kernel

theorem word_split (n : Nat) (h : n < 65536) : Uc.word (shr8 n 8) (u8 n) = n := by
  simp only [Uc.word, shr8, u8_toNat, Nat.shiftRight_eq_div_pow]
  omega

open Drivers.Epd4in2 in
theorem epd4in2_part_blocks (f : Feat) (d : DState) (b : Bytes) (x y w h : Nat) (hw0 : 0 < w) (hh0 : 0 < h) :
    blocksOf ((prog f d (.part b x y w h)).getD []) =
      [.c 0x91 [], .c 0x90 [shr8 x 8, u8 (x &&& 0xf8), shr8 ((x &&& 0xf8) + w - 1) 8, u8 (((x &&& 0xf8) + w - 1) ||| 0x07),
         shr8 y 8, u8 y, shr8 (y + h - 1) 8, u8 (y + h - 1), 0x01], .c 0x13 (b ++ []), .c 0x92 []] := by
  have a1 : decide ((x &&& 0xf8) + w ≥ 1) = true := by simp only [decide_eq_true_eq]; omega
  have a2 : decide (y + h ≥ 1) = true := by simp only [decide_eq_true_eq]; omega
  simp only [prog, shiftDisplay, assertA, a1, a2, Option.getD_some, if_true]
  rfl

theorem or7_id : ∀ n, n < 1024 → n % 8 = 7 → n ||| 7 = n := by decide +kernel
theorem and248_id (n : Nat) (h : n < 256) (h8 : n % 8 = 0) : n &&& 0xf8 = n := by
  rw [show (0xf8 : Nat) = 248 from rfl, and248 n h]; omega

theorem uc9_partial_seq (u : Uc) (a a' b b' c c' d d' e : UInt8) (buf : List UInt8)
    (hu : u.asleep = false) (hf : u.winFmt = 9) (h14 : u.has14 = false) :
    (u.run [Blk.c 0x91 [], .c 0x90 [a, a', b, b', c, c', d, d', e], .c 0x13 buf, .c 0x92 []]).lastWin
      = some (word a a' / 8 * 8, word c c', word b b' / 8 * 8 + 7, word d d') ∧
    (u.run [Blk.c 0x91 [], .c 0x90 [a, a', b, b', c, c', d, d', e], .c 0x13 buf, .c 0x92 []]).partialOn = false := by
  simp (config := {decide := true}) only [Uc.run, List.foldl, Uc.feed, Uc.regStep, hu, hf, h14, Uc.dtm, Uc.lastWin, ↓reduceIte,
    Bool.false_eq_true, false_and, List.head?_cons, Option.map_some]

open Drivers.Epd4in2 in
theorem epd4in2_part_window (f : Feat) (d : DState) (b : Bytes) (x y w h : Nat)
    (hx : x % 8 = 0) (hw : w % 8 = 0) (hw0 : 0 < w) (hh0 : 0 < h)
    (hxw : x + w ≤ 400) (hyh : y + h ≤ 300) (hx256 : x < 256)
    (u : Uc) (hu : u.asleep = false) (hf : u.winFmt = 9) (h14 : u.has14 = false) :
    (u.run (blocksOf ((prog f d (.part b x y w h)).getD []))).lastWin = some (x, y, x + w - 1, y + h - 1) ∧
    (u.run (blocksOf ((prog f d (.part b x y w h)).getD []))).partialOn = false := by
  have o := or7_id (x + w - 1) (by omega) (by omega)
  rw [epd4in2_part_blocks f d b x y w h hw0 hh0, and248_id x hx256 hx, o]
  have k := uc9_partial_seq u (shr8 x 8) (u8 x) (shr8 (x + w - 1) 8) (u8 (x + w - 1))
    (shr8 y 8) (u8 y) (shr8 (y + h - 1) 8) (u8 (y + h - 1)) 0x01 (b ++ []) hu hf h14
  rw [word_split x (by omega), word_split (x + w - 1) (by omega), word_split y (by omega),
    word_split (y + h - 1) (by omega)] at k
  have e1 : x / 8 * 8 = x := by omega
  have e2 : (x + w - 1) / 8 * 8 + 7 = x + w - 1 := by omega
  rw [e1, e2] at k
  exact k

/-- what the proof's hypothesis `x < 256` excludes is a real failure: at x = 256, w = 8 the decoded
    window ends at column 7 although it starts at column 256 -/
theorem epd4in2_part_window_fails_at_256 :
    ((Uc.por 400 300 1 9 false).run (blocksOf ((Drivers.Epd4in2.prog {} {} (.part [] 256 0 8 1)).getD []))).lastWin
      = some (256, 0, 7, 0) := by decide +kernel

/-- non-vacuity of the hypotheses: a window in the middle of the panel -/
example : (136 % 8 = 0 ∧ 64 % 8 = 0 ∧ 0 < 64 ∧ 0 < 10 ∧ 136 + 64 ≤ 400 ∧ 290 + 10 ≤ 300 ∧ 136 < 256) ∧
    (Uc.por 400 300 1 9 false).asleep = false ∧ (Uc.por 400 300 1 9 false).winFmt = 9 := by decide

end EpdVerif.Props.C06
