import EpdVerif.Props.Structural
/-!
# C09 — every refresh of every history reaches an initialised, powered, awake controller
(UC81xx / ACeP drivers; the property's named mechanisms: PowerOn inside init for panels that
stay powered, the PowerOn / refresh / PowerOff bracket per display call)

`Lemmas/UcPower.lean`: the fields (asleep, powered, initialised, resetSeen) of the controller
simulator evolve as a function of themselves and the block (`Uc.pw_feed`), and `Uc.powerRun`
decides, for EVERY controller state with given fields, whether a program logs only good refresh
snapshots (`Uc.powerRun_sound`, against the simulator's own `refreshes` log).  `powerSafeP` /
`powerEstablishP` (`Props/Structural`) apply it to an operation's program from an awake,
initialised controller; per panel and operation they are decided for ALL feature flags, driver
states, buffers and colours in `Props/Panels/*` (namespace `C09`):

* panels that stay powered (1in54b, 1in54c, 2in13bc, 2in7, 2in7b, 2in9bc, 2in9d, 4in2, 5in83_v2,
  5in83b_v2, 7in5, 7in5_v2, 7in5b_v2): `<panel>_<op>_power_on` for every operation (powered before
  ⇒ every refresh good, powered after) and `<panel>_new/wake_power_establishes_on`;
* panels that power per refresh (5in65f, 7in3f): `<panel>_<op>_power_any` for every operation
  (powered or not before ⇒ every refresh good) and `<panel>_new/wake_power_establishes`.

`history_power_on` / `history_power_any` are the inductions over histories of any length: the
refresh log of the simulator contains only good snapshots, whatever the RAM, window and register
contents.  Not covered: `sleep` (ends the protocol until `wake_up`), the partial-update calls
(assertions on symbolic windows), 1in02 (its power-on is driven by the driver's cached flag: the
coupling flag = controller power is decided by the run-time oracle, which found and now guards
the repaired defect there), the SSD16xx drivers (no power-on command: their snapshots are
powered by definition; awake / initialised are decided by the oracle and, for "awake",
by `C02.history_ready`).
-/
namespace EpdVerif.Props.C09
open EpdVerif

/-- the fields of a settled controller of the panel's kind: awake, initialised, no reset pending -/
def settled (u0 : Uc) (powered : Bool) : Uc.PW := ⟨false, powered, true, false, u0.has14⟩

theorem pw_eta (r : Uc.PW) (a b c d e : Bool) (h1 : r.asleep = a) (h2 : r.powered = b) (h3 : r.initialised = c)
    (h4 : r.resetSeen = d) (h5 : r.has14 = e) : r = ⟨a, b, c, d, e⟩ := by
  cases r; simp only at h1 h2 h3 h4 h5; rw [h1, h2, h3, h4, h5]

/-- one operation from a settled controller with power `start`: `powerSafeP … = some fin` gives only
    good refreshes and a settled controller with power `fin` at the end of the operation -/
theorem op_power (p : Panel) (u0 : Uc) (hp : p.ctrl = .uc u0) (acts : List Act) (u : Uc) (start fin : Bool)
    (hs : Uc.pw u = settled u0 start) (hg : Uc.GoodLog u) (h : powerSafeP p acts start = some fin) :
    Uc.GoodLog (((blocksOf acts).foldl Uc.feed u).opEnd true) ∧
    Uc.pw (((blocksOf acts).foldl Uc.feed u).opEnd true) = settled u0 fin := by
  unfold powerSafeP at h
  rw [hp] at h
  simp only at h
  cases hr : Uc.powerRun ⟨false, start, true, false, u0.has14⟩ (blocksOf acts) with
  | none => rw [hr] at h; cases h
  | some r =>
    rw [hr] at h
    simp only at h
    have snd := Uc.powerRun_sound (blocksOf acts) u r hg (by rw [hs]; exact hr)
    by_cases hc : (!r.opEnd.asleep && r.opEnd.initialised && !r.opEnd.resetSeen) = true
    · rw [if_pos hc] at h
      simp only [Option.some.injEq] at h
      simp only [Bool.and_eq_true, Bool.not_eq_true'] at hc
      refine ⟨Uc.goodLog_opEnd _ snd.1, ?_⟩
      rw [Uc.pw_opEnd, snd.2]
      have h14 : r.opEnd.has14 = u0.has14 := (Uc.PW.opEnd_has14 r).trans (Uc.powerRun_has14 _ _ r hr)
      exact pw_eta _ _ _ _ _ _ hc.1.1 h hc.1.2 hc.2 h14
    · rw [if_neg hc] at h; cases h

/-- construction / wake-up from ANY state of the panel's kind -/
theorem op_power_establish (p : Panel) (u0 : Uc) (hp : p.ctrl = .uc u0) (acts : List Act) (u : Uc) (fin : Bool)
    (h14 : u.has14 = u0.has14) (hg : Uc.GoodLog u) (h : powerEstablishP p acts = some fin) :
    Uc.GoodLog (((blocksOf acts).foldl Uc.feed u).opEnd true) ∧
    Uc.pw (((blocksOf acts).foldl Uc.feed u).opEnd true) = settled u0 fin := by
  unfold powerEstablishP at h
  rw [hp] at h
  cases hb : blocksOf acts with
  | nil => rw [hb] at h; cases h
  | cons b rest =>
    rw [hb] at h
    cases b with
    | stray _ => cases h
    | c _ _ => cases h
    | rst =>
      simp only at h
      cases hr : Uc.powerRun ⟨false, false, false, true, u0.has14⟩ rest with
      | none => rw [hr] at h; cases h
      | some r =>
        rw [hr] at h
        simp only at h
        have e0 : Uc.pw (u.feed .rst) = ⟨false, false, false, true, u0.has14⟩ := by
          rw [Uc.pw_feed]; simp only [Uc.feedP, Uc.pw, h14]
        have snd := Uc.powerRun_sound rest (u.feed .rst) r (Uc.feed_goodLog u .rst hg rfl) (by rw [e0]; exact hr)
        simp only [List.foldl_cons]
        by_cases hc : (!r.opEnd.asleep && r.opEnd.initialised && !r.opEnd.resetSeen) = true
        · rw [if_pos hc] at h
          simp only [Option.some.injEq] at h
          simp only [Bool.and_eq_true, Bool.not_eq_true'] at hc
          refine ⟨Uc.goodLog_opEnd _ snd.1, ?_⟩
          rw [Uc.pw_opEnd, snd.2]
          have h14' : r.opEnd.has14 = u0.has14 := (Uc.PW.opEnd_has14 r).trans (Uc.powerRun_has14 _ _ r hr)
          exact pw_eta _ _ _ _ _ _ hc.1.1 h hc.1.2 hc.2 h14'
        · rw [if_neg hc] at h; cases h

/-- **every history of a panel that stays powered**: only good refreshes are ever logged -/
theorem history_power_on (p : Panel) (u0 : Uc) (hp : p.ctrl = .uc u0) : ∀ (progs : List (List Act)) (u : Uc),
    Uc.pw u = settled u0 true → Uc.GoodLog u → (∀ a, a ∈ progs → powerSafeP p a true = some true) →
    Uc.GoodLog (progs.foldl (fun u a => ((blocksOf a).foldl Uc.feed u).opEnd true) u)
  | [], _, _, hg, _ => hg
  | a :: r, u, hs, hg, h => by
    simp only [List.foldl_cons]
    have st := op_power p u0 hp a u true true hs hg (h a List.mem_cons_self)
    exact history_power_on p u0 hp r _ st.2 st.1 (fun x hx => h x (List.mem_cons_of_mem _ hx))

/-- **every history of a panel that powers per refresh**: whatever the power state between calls -/
theorem history_power_any (p : Panel) (u0 : Uc) (hp : p.ctrl = .uc u0) : ∀ (progs : List (List Act)) (u : Uc) (start : Bool),
    Uc.pw u = settled u0 start → Uc.GoodLog u →
    (∀ a, a ∈ progs → ((powerSafeP p a true).isSome && (powerSafeP p a false).isSome) = true) →
    Uc.GoodLog (progs.foldl (fun u a => ((blocksOf a).foldl Uc.feed u).opEnd true) u)
  | [], _, _, _, hg, _ => hg
  | a :: r, u, start, hs, hg, h => by
    simp only [List.foldl_cons]
    have ha := h a List.mem_cons_self
    simp only [Bool.and_eq_true, Option.isSome_iff_exists] at ha
    have : ∃ fin, powerSafeP p a start = some fin := by
      cases start
      · exact ha.2
      · exact ha.1
    obtain ⟨fin, hf⟩ := this
    have st := op_power p u0 hp a u start fin hs hg hf
    exact history_power_any p u0 hp r _ fin st.2 st.1 (fun x hx => h x (List.mem_cons_of_mem _ hx))

end EpdVerif.Props.C09
