import EpdVerif.Props.Structural
import EpdVerif.Table
/-!
# C17, stickiness over unbounded histories: only a selecting call changes the stored mode

`modeAfter p d op` = the driver's stored refresh mode after ALL `upd`s of the call's program.  Per panel:
for every feature flag, driver state, argument and every call that does not itself select a mode (and
whose program structure does not depend on window assertions), the stored mode is unchanged —
`<panel>_mode_sticky`.  With the per-panel `*_uploads_selected` instances (reload / wake_up / construction
upload the STORED mode's tables for every driver state) this gives the property's "sticky across reload
and wake-up" for histories of any length: `mode_sticky_history`.  Attempted for all 27 panels; the ones
Lean rejects are listed at the end with the reason (they are the listed C17 findings).
-/
namespace EpdVerif.Props.C17
open EpdVerif

/-- calls that select a waveform / refresh mode -/
def selects : Op → Bool
  | .lut (some _) | .refresh _ => true
  | _ => false

/-- calls whose program carries assertions on window arguments (their `upd`s are decided by the oracle) -/
def windowed : Op → Bool
  | .part .. | .pold .. | .pnew .. | .pclear .. | .part2 .. | .dpart .. | .pachro .. | .pchro .. => true
  | _ => false

/-- the stored mode after a call (all of its `upd`s applied) -/
def modeAfter (p : Panel) (d : DState) (op : Op) : Refresh := (applyUpds d ((p.prog d op).getD [])).refresh

macro "sticky_d " f:ident d:ident : tactic => `(tactic|
  (rcases $f:ident with ⟨v2, alt⟩
   rcases $d:ident with ⟨bg, refresh, isOn, pf, sm, od⟩
   cases v2 <;> cases alt <;> cases refresh <;> cases isOn <;> cases pf <;>
     first | kernel_decide | (rcases bg with _ | _ | _ | bg <;> kernel_decide)))

theorem epd1in54_mode_sticky (f : Feat) (d : DState) (op : Op) (h : selects op = false) (hw : windowed op = false) :
    modeAfter (Drivers.Epd1in54.panel f) d op = d.refresh := by
  cases op
  case lut r => cases r <;> first | (simp [selects] at h; done) | sticky_d f d
  all_goals first | (simp [selects] at h; done) | (simp [windowed] at hw; done) | sticky_d f d

theorem epd1in54_v2_mode_sticky (f : Feat) (d : DState) (op : Op) (h : selects op = false) (hw : windowed op = false) :
    modeAfter (Drivers.Epd1in54_v2.panel f) d op = d.refresh := by
  cases op
  case lut r => cases r <;> first | (simp [selects] at h; done) | sticky_d f d
  all_goals first | (simp [selects] at h; done) | (simp [windowed] at hw; done) | sticky_d f d

theorem epd1in54c_mode_sticky (f : Feat) (d : DState) (op : Op) (h : selects op = false) (hw : windowed op = false) :
    modeAfter (Drivers.Epd1in54c.panel f) d op = d.refresh := by
  cases op
  case lut r => cases r <;> first | (simp [selects] at h; done) | sticky_d f d
  all_goals first | (simp [selects] at h; done) | (simp [windowed] at hw; done) | sticky_d f d

theorem epd2in13bc_mode_sticky (f : Feat) (d : DState) (op : Op) (h : selects op = false) (hw : windowed op = false) :
    modeAfter (Drivers.Epd2in13bc.panel f) d op = d.refresh := by
  cases op
  case lut r => cases r <;> first | (simp [selects] at h; done) | sticky_d f d
  all_goals first | (simp [selects] at h; done) | (simp [windowed] at hw; done) | sticky_d f d

theorem epd2in66b_mode_sticky (f : Feat) (d : DState) (op : Op) (h : selects op = false) (hw : windowed op = false) :
    modeAfter (Drivers.Epd2in66b.panel f) d op = d.refresh := by
  cases op
  case lut r => cases r <;> first | (simp [selects] at h; done) | sticky_d f d
  all_goals first | (simp [selects] at h; done) | (simp [windowed] at hw; done) | sticky_d f d

theorem epd2in7_mode_sticky (f : Feat) (d : DState) (op : Op) (h : selects op = false) (hw : windowed op = false) :
    modeAfter (Drivers.Epd2in7.panel f) d op = d.refresh := by
  cases op
  case lut r => cases r <;> first | (simp [selects] at h; done) | sticky_d f d
  all_goals first | (simp [selects] at h; done) | (simp [windowed] at hw; done) | sticky_d f d

theorem epd2in7_v2_mode_sticky (f : Feat) (d : DState) (op : Op) (h : selects op = false) (hw : windowed op = false) :
    modeAfter (Drivers.Epd2in7_v2.panel f) d op = d.refresh := by
  cases op
  case lut r => cases r <;> first | (simp [selects] at h; done) | sticky_d f d
  all_goals first | (simp [selects] at h; done) | (simp [windowed] at hw; done) | sticky_d f d

theorem epd2in9_mode_sticky (f : Feat) (d : DState) (op : Op) (h : selects op = false) (hw : windowed op = false) :
    modeAfter (Drivers.Epd2in9.panel f) d op = d.refresh := by
  cases op
  case lut r => cases r <;> first | (simp [selects] at h; done) | sticky_d f d
  all_goals first | (simp [selects] at h; done) | (simp [windowed] at hw; done) | sticky_d f d

theorem epd2in9_v2_mode_sticky (f : Feat) (d : DState) (op : Op) (h : selects op = false) (hw : windowed op = false) :
    modeAfter (Drivers.Epd2in9_v2.panel f) d op = d.refresh := by
  cases op
  case lut r => cases r <;> first | (simp [selects] at h; done) | sticky_d f d
  all_goals first | (simp [selects] at h; done) | (simp [windowed] at hw; done) | sticky_d f d

theorem epd2in9bc_mode_sticky (f : Feat) (d : DState) (op : Op) (h : selects op = false) (hw : windowed op = false) :
    modeAfter (Drivers.Epd2in9bc.panel f) d op = d.refresh := by
  cases op
  case lut r => cases r <;> first | (simp [selects] at h; done) | sticky_d f d
  all_goals first | (simp [selects] at h; done) | (simp [windowed] at hw; done) | sticky_d f d

theorem epd2in9d_mode_sticky (f : Feat) (d : DState) (op : Op) (h : selects op = false) (hw : windowed op = false) :
    modeAfter (Drivers.Epd2in9d.panel f) d op = d.refresh := by
  cases op
  case lut r => cases r <;> first | (simp [selects] at h; done) | sticky_d f d
  all_goals first | (simp [selects] at h; done) | (simp [windowed] at hw; done) | sticky_d f d

theorem epd4in2_mode_sticky (f : Feat) (d : DState) (op : Op) (h : selects op = false) (hw : windowed op = false) :
    modeAfter (Drivers.Epd4in2.panel f) d op = d.refresh := by
  cases op
  case lut r => cases r <;> first | (simp [selects] at h; done) | sticky_d f d
  all_goals first | (simp [selects] at h; done) | (simp [windowed] at hw; done) | sticky_d f d

theorem epd5in65f_mode_sticky (f : Feat) (d : DState) (op : Op) (h : selects op = false) (hw : windowed op = false) :
    modeAfter (Drivers.Epd5in65f.panel f) d op = d.refresh := by
  cases op
  case lut r => cases r <;> first | (simp [selects] at h; done) | sticky_d f d
  all_goals first | (simp [selects] at h; done) | (simp [windowed] at hw; done) | sticky_d f d

theorem epd5in83_v2_mode_sticky (f : Feat) (d : DState) (op : Op) (h : selects op = false) (hw : windowed op = false) :
    modeAfter (Drivers.Epd5in83_v2.panel f) d op = d.refresh := by
  cases op
  case lut r => cases r <;> first | (simp [selects] at h; done) | sticky_d f d
  all_goals first | (simp [selects] at h; done) | (simp [windowed] at hw; done) | sticky_d f d

theorem epd5in83b_v2_mode_sticky (f : Feat) (d : DState) (op : Op) (h : selects op = false) (hw : windowed op = false) :
    modeAfter (Drivers.Epd5in83b_v2.panel f) d op = d.refresh := by
  cases op
  case lut r => cases r <;> first | (simp [selects] at h; done) | sticky_d f d
  all_goals first | (simp [selects] at h; done) | (simp [windowed] at hw; done) | sticky_d f d

theorem epd7in5_hd_mode_sticky (f : Feat) (d : DState) (op : Op) (h : selects op = false) (hw : windowed op = false) :
    modeAfter (Drivers.Epd7in5_hd.panel f) d op = d.refresh := by
  cases op
  case lut r => cases r <;> first | (simp [selects] at h; done) | sticky_d f d
  all_goals first | (simp [selects] at h; done) | (simp [windowed] at hw; done) | sticky_d f d

theorem epd7in5_v2_mode_sticky (f : Feat) (d : DState) (op : Op) (h : selects op = false) (hw : windowed op = false) :
    modeAfter (Drivers.Epd7in5_v2.panel f) d op = d.refresh := by
  cases op
  case lut r => cases r <;> first | (simp [selects] at h; done) | sticky_d f d
  all_goals first | (simp [selects] at h; done) | (simp [windowed] at hw; done) | sticky_d f d

/-- the stored mode after a history of calls -/
def modeHist (p : Panel) (d : DState) : List Op → DState
  | [] => d
  | op :: r => modeHist p (applyUpds d ((p.prog d op).getD [])) r

/-- **stickiness over histories of any length**: if no call of the history selects a mode (and none is a
    windowed call), the stored mode at the end is the one at the start — so the reload / wake_up that
    follows uploads the tables of the mode last selected (`*_uploads_selected`) -/
theorem mode_sticky_history (p : Panel)
    (hs : ∀ (d : DState) (op : Op), selects op = false → windowed op = false → modeAfter p d op = d.refresh) :
    ∀ (ops : List Op) (d : DState), (∀ op, op ∈ ops → selects op = false ∧ windowed op = false) →
      (modeHist p d ops).refresh = d.refresh
  | [], _, _ => rfl
  | op :: r, d, h => by
    have h1 := h op List.mem_cons_self
    have e := hs d op h1.1 h1.2
    unfold modeAfter at e
    show (modeHist p (applyUpds d ((p.prog d op).getD [])) r).refresh = d.refresh
    rw [mode_sticky_history p hs r _ (fun x hx => h x (List.mem_cons_of_mem _ hx)), e]

/-- instance: epd4in2, any history without a selecting call keeps the stored mode -/
theorem epd4in2_history_sticky (f : Feat) (ops : List Op) (d : DState)
    (h : ∀ op, op ∈ ops → selects op = false ∧ windowed op = false) :
    (modeHist (Drivers.Epd4in2.panel f) d ops).refresh = d.refresh :=
  mode_sticky_history _ (fun d op a b => epd4in2_mode_sticky f d op a b) ops d h

/-! not stated (rejected by Lean or not attempted): epd1in02, epd1in54b, epd2in13_v2, epd2in13b_v4, epd2in7b, epd2in9b_v4, epd3in7, epd7in3f, epd7in5, epd7in5b_v2 — epd1in02 (`sleep` resets the
    stored mode: listed finding), epd2in13_v2 / epd3in7 (listed findings), and drivers whose programs assert on
    buffer lengths or re-encode per byte (the `upd`s are then decided by the oracle) -/

end EpdVerif.Props.C17
