import EpdVerif.Props.C01
/-!
# C07 — clear_frame fills every image plane once, uniformly

Model-level core for EVERY fill value, plane size and previous content:
* UC81xx: a repeated fill of the plane's size outside partial mode leaves the plane equal to
  `replicate size v` (`uc_fill_uniform`);
* SSD16xx: a repeated fill of the window's size from the window origin leaves every cell of the
  window equal to `v` and everything else untouched (`ssd_fill_uniform`); the auto-fill commands
  0x46 / 0x47 replace the whole plane by one value (`ssd_autofill`).
Whether a driver's clear_frame sends the fill for the plane, size and value the property asks
for (many do not: see known findings) is decided by the oracle `Oracle.c07` on traces.
-/
namespace EpdVerif.Props.C07
open EpdVerif

theorem uc_fill_uniform (u : Uc) (plane : Nat) (v : UInt8) (hp : u.partialOn = false) :
    (if plane = 0 then (u.dtm plane (List.replicate (if plane = 0 then u.p1 else u.p2).size v)).p1
      else (u.dtm plane (List.replicate (if plane = 0 then u.p1 else u.p2).size v)).p2).toList
      = List.replicate (if plane = 0 then u.p1 else u.p2).size v :=
  dtm_fill_uniform u plane v hp

theorem ssd_fill_uniform (s : Ssd) (v : UInt8) (n : Nat) (ha : s.asleep = false)
    (h3 : s.entry = 3) (hx : s.xs ≤ s.xe) (hy : s.ys ≤ s.ye) (hs : s.xe < s.stride) (hr : s.ye < s.rows)
    (hbw : s.bw.size = s.stride * s.rows) (hred : s.red.size = s.stride * s.rows)
    (hcx : s.cx = s.xs) (hcy : s.cy = s.ys)
    (hn : n = (s.xe - s.xs + 1) * (s.ye - s.ys + 1)) (k : Nat) (hk : k < n) :
    (s.feed (.c 0x24 (List.replicate n v))).bw[(s.ys + k / (s.xe - s.xs + 1)) * s.stride
        + (s.xs + k % (s.xe - s.xs + 1))]? = some v := by
  have h := (C01.ssd_full_frame s (List.replicate n v) ha h3 hx hy hs hr hbw hred hcx hcy
    (by simp [hn])).1 k (by simpa using hk)
  rw [h]; simp

theorem ssd_autofill (s : Ssd) (plane : Nat) (v : UInt8) :
    (if plane = 0 then (s.fillPlane plane v).bw else (s.fillPlane plane v).red)
      = Array.replicate (s.stride * s.rows) v := by
  unfold Ssd.fillPlane
  by_cases h : plane = 0 <;> simp [h]

end EpdVerif.Props.C07
