import EpdVerif.Wire
/-!
# C04 — SPI failures are reported fail-stop

Theorems about `runActs` (the model of `interface.rs` + the `?` operator) for EVERY program and
EVERY fault index: when the k-th transfer fails the run returns `err`, the failed transfer is
the last event of the trace (no further SPI traffic, no further pin or delay activity), and an
`ok` result means no transfer failed.  A panic is never caused by a fault (`res ≠ panic` unless
the program itself contains a panic action before the fault point).

The recovery clause (wake-up + full update + display after a failure restores memory and power
state) is decided by the run-time oracle on fault/twin pairs (fault_enumeration over every
transfer index class) and by the correspondence check; in the model it follows from C02/C08 for
the panels covered there.
-/
namespace EpdVerif.Props.C04
open EpdVerif

def isFail : Ev → Bool
  | .fail .. => true
  | _ => false

/-- a burst either succeeds with no `fail` event, or ends with exactly one `fail` event as its
    last event -/
theorem burst_failstop (e : Env) (dc : Bool) (c : Nat) (bs : List UInt8) :
    ((burst e dc c bs).2.2 = true ∧ ∀ ev ∈ (burst e dc c bs).1, isFail ev = false) ∨
    ((burst e dc c bs).2.2 = false ∧ ∃ pre n, (burst e dc c bs).1 = pre ++ [Ev.fail dc n] ∧
        ∀ ev ∈ pre, isFail ev = false) := by
  unfold burst
  cases hf : e.fault with
  | none => left; simp [isFail]
  | some k =>
    simp only []
    split
    · left; simp [isFail]
    · right
      refine ⟨rfl, _, _, rfl, ?_⟩
      intro ev hev
      split at hev <;> simp at hev
      subst hev; rfl

theorem waitLoop_noFail (e : Env) (bl : Bool) (n : Nat) : ∀ ev ∈ (waitLoop e bl n).1, isFail ev = false := by
  induction n with
  | zero => intro ev hev; simp [waitLoop] at hev; subst hev; rfl
  | succ n ih =>
    intro ev hev
    simp only [waitLoop] at hev
    split at hev
    · rcases List.mem_cons.1 hev with rfl | hev
      · rfl
      · rcases List.mem_append.1 hev with h | h
        · unfold delayEvs at h; split at h <;> simp at h; subst h; rfl
        · exact ih ev h
    · simp at hev; subst hev; rfl

/-- shape of a trace: either no failed transfer at all, or exactly one and it is the last event -/
def FailStop (evs : List Ev) (r : Res) : Prop :=
  (r ≠ .err ∧ ∀ ev ∈ evs, isFail ev = false) ∨
  (r = .err ∧ ∃ pre dc n, evs = pre ++ [Ev.fail dc n] ∧ ∀ ev ∈ pre, isFail ev = false)

theorem waitCmdLoop_failstop (bl : Bool) (c : UInt8) (n : Nat) :
    ∀ e : Env, FailStop (waitCmdLoop bl c n e).1 (waitCmdLoop bl c n e).2.2 := by
  induction n with
  | zero =>
    intro e; left
    simp only [waitCmdLoop]
    refine ⟨by split <;> simp, ?_⟩
    intro ev hev; simp at hev; subst hev; rfl
  | succ n ih =>
    intro e
    simp only [waitCmdLoop]
    split
    · rcases burst_failstop e false 1 [c] with ⟨hok, hnf⟩ | ⟨hbad, pre, m, hpre, hnf⟩
      · rw [if_pos hok]
        rcases ih (burst e false 1 [c]).2.1 with ⟨hne, hall⟩ | ⟨herr, pre, dc, m, hpre, hall⟩
        · left
          refine ⟨hne, ?_⟩
          intro ev hev
          rcases List.mem_cons.1 hev with rfl | hev
          · rfl
          · rcases List.mem_append.1 hev with h | h
            · rcases List.mem_append.1 h with h | h
              · exact hnf ev h
              · unfold delayEvs at h; split at h <;> simp at h; subst h; rfl
            · exact hall ev h
        · right
          refine ⟨herr, Ev.busy e.busyLvl :: ((burst e false 1 [c]).1 ++ delayEvs e ++ pre), dc, m, ?_, ?_⟩
          · simp only [hpre, List.cons_append, List.append_assoc]
          · intro ev hev
            rcases List.mem_cons.1 hev with rfl | hev
            · rfl
            · rcases List.mem_append.1 hev with h | h
              · rcases List.mem_append.1 h with h | h
                · exact hnf ev h
                · unfold delayEvs at h; split at h <;> simp at h; subst h; rfl
              · exact hall ev h
      · have : (burst e false 1 [c]).2.2 = false := hbad
        rw [if_neg (by simp [this])]
        right
        refine ⟨rfl, Ev.busy e.busyLvl :: pre, false, m, by simp [hpre], ?_⟩
        intro ev hev
        rcases List.mem_cons.1 hev with rfl | hev
        · rfl
        · exact hnf ev hev
    · left
      refine ⟨by simp, ?_⟩
      intro ev hev; simp at hev; subst hev; rfl

/-- one action is fail-stop -/
theorem step_failstop (e : Env) (d : DState) (a : Act) :
    FailStop (stepAct e d a).1 (stepAct e d a).2.2.2 := by
  cases a with
  | cmd c =>
    simp only [stepAct, doCmd]
    rcases burst_failstop e false 1 [c] with ⟨hok, hnf⟩ | ⟨hbad, pre, m, hpre, hnf⟩
    · left; exact ⟨by simp [hok], hnf⟩
    · right; exact ⟨by simp [hbad], pre, false, m, hpre, hnf⟩
  | data bs =>
    simp only [stepAct]
    rcases burst_failstop e true e.chunk bs with ⟨hok, hnf⟩ | ⟨hbad, pre, m, hpre, hnf⟩
    · left; exact ⟨by simp [hok], hnf⟩
    · right; exact ⟨by simp [hbad], pre, true, m, hpre, hnf⟩
  | rep v n =>
    simp only [stepAct]
    rcases burst_failstop e true 1 (List.replicate n v) with ⟨hok, hnf⟩ | ⟨hbad, pre, m, hpre, hnf⟩
    · left; exact ⟨by simp [hok], hnf⟩
    · right; exact ⟨by simp [hbad], pre, true, m, hpre, hnf⟩
  | wait bl =>
    left
    simp only [stepAct]
    exact ⟨by split <;> simp, waitLoop_noFail e bl e.busy⟩
  | waitCmd bl c =>
    simp only [stepAct]
    rcases burst_failstop e false 1 [c] with ⟨hok, hnf⟩ | ⟨hbad, pre, m, hpre, hnf⟩
    · rw [if_pos hok]
      rcases waitCmdLoop_failstop bl c (burst e false 1 [c]).2.1.busy (burst e false 1 [c]).2.1 with
        ⟨hne, hall⟩ | ⟨herr, pre, dc, m, hpre, hall⟩
      · left
        refine ⟨hne, ?_⟩
        intro ev hev
        rcases List.mem_append.1 hev with h | h
        · rcases List.mem_append.1 h with h | h
          · exact hnf ev h
          · unfold delayEvs at h; split at h <;> simp at h; subst h; rfl
        · exact hall ev h
      · right
        refine ⟨herr, (burst e false 1 [c]).1 ++ delayEvs e ++ pre, dc, m, by simp [hpre], ?_⟩
        intro ev hev
        rcases List.mem_append.1 hev with h | h
        · rcases List.mem_append.1 h with h | h
          · exact hnf ev h
          · unfold delayEvs at h; split at h <;> simp at h; subst h; rfl
        · exact hall ev h
    · rw [if_neg (by simp [hbad])]
      right; exact ⟨rfl, pre, false, m, hpre, hnf⟩
  | reset a b => left; exact ⟨by simp [stepAct], by intro ev hev; simp [stepAct, resetEvs] at hev; rcases hev with rfl | rfl | rfl | rfl | rfl | rfl <;> rfl⟩
  | delayUs n => left; exact ⟨by simp [stepAct], by intro ev hev; simp [stepAct] at hev; subst hev; rfl⟩
  | delayMs n => left; exact ⟨by simp [stepAct], by intro ev hev; simp [stepAct] at hev; subst hev; rfl⟩
  | upd f => left; exact ⟨by simp [stepAct], by intro ev hev; simp [stepAct] at hev⟩
  | panic => left; exact ⟨by simp [stepAct], by intro ev hev; simp [stepAct] at hev⟩

/-- MAIN: every program, every environment (any fault index, any busy schedule): the whole run
    is fail-stop — if it returns `err` the failed transfer is the LAST event of the trace, and if
    it returns anything else no transfer failed -/
theorem runActs_failstop (acts : List Act) : ∀ (e : Env) (d : DState),
    FailStop (runActs e d acts).1 (runActs e d acts).2.2.2 := by
  induction acts with
  | nil => intro e d; left; exact ⟨by simp [runActs], by simp [runActs]⟩
  | cons a as ih =>
    intro e d
    have hs := step_failstop e d a
    simp only [runActs]
    split
    · rename_i hok
      rcases hs with ⟨_, hnf⟩ | ⟨herr, _⟩
      · rcases ih (stepAct e d a).2.1 (stepAct e d a).2.2.1 with ⟨hne, hall⟩ | ⟨herr, pre, dc, m, hpre, hall⟩
        · left
          refine ⟨hne, ?_⟩
          intro ev hev
          rcases List.mem_append.1 hev with h | h
          · exact hnf ev h
          · exact hall ev h
        · right
          refine ⟨herr, (stepAct e d a).1 ++ pre, dc, m, by simp [hpre], ?_⟩
          intro ev hev
          rcases List.mem_append.1 hev with h | h
          · exact hnf ev h
          · exact hall ev h
      · rw [hok] at herr; cases herr
    · exact hs

/-- an injected fault never turns into a panic: the result is `panic` only if the program
    itself reaches a panic action -/
theorem no_panic_without_panic_act (acts : List Act) (hnp : ∀ a ∈ acts, a ≠ Act.panic) :
    ∀ (e : Env) (d : DState), (runActs e d acts).2.2.2 ≠ .panic := by
  induction acts with
  | nil => intro e d; simp [runActs]
  | cons a as ih =>
    intro e d
    have hstep : (stepAct e d a).2.2.2 ≠ .panic := by
      cases a with
      | panic => exact absurd rfl (hnp .panic (List.mem_cons_self ..))
      | cmd c => simp only [stepAct]; split <;> simp
      | data bs => simp only [stepAct]; split <;> simp
      | rep v n => simp only [stepAct]; split <;> simp
      | wait bl => simp only [stepAct]; split <;> simp
      | waitCmd bl c =>
        simp only [stepAct]
        split
        · -- the polling loop returns ok / err / hang
          have : ∀ n e', (waitCmdLoop bl c n e').2.2 ≠ .panic := by
            intro n
            induction n with
            | zero => intro e'; simp only [waitCmdLoop]; split <;> simp
            | succ n ihn =>
              intro e'
              simp only [waitCmdLoop]
              split
              · split
                · exact ihn _
                · simp
              · simp
          exact this _ _
        · simp
      | reset a b => simp [stepAct]
      | delayUs n => simp [stepAct]
      | delayMs n => simp [stepAct]
      | upd f => simp [stepAct]
    simp only [runActs]
    split
    · exact ih (fun a' ha' => hnp a' (List.mem_cons_of_mem _ ha')) _ _
    · exact hstep

end EpdVerif.Props.C04
