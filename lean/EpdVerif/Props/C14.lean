import EpdVerif.Lemmas.Bits
/-!
# C14 — colour encodings and conversions

Finite domains (all 256 bytes, all colours, 8 pixel positions, both `bwrbit` values, all raw
values) are decided completely — the table *is* the quantifier.  RGB conversions are proved
for every channel value (unbounded `Nat` for the seven-colour palette, every value of the
depth for the two-level type).

Two clauses of the property are FALSE of the tree; for those the negation is proved with a
concrete witness (replayed on the real crate by the check, see `known_findings.json`) and the
part that does hold is the `_partial` theorem:
* `Color` ↔ `RawU1` does not round-trip (White → 1 → Black);
* `OctColor::from(RawU4)` panics for 8..15.
A third one (`Color::from(Rgb565 / Rgb555)` compared the raw channel sum with `255*3/2`) was a
genuine defect found by this development and is repaired in /repo (fix b180c08); the theorem
`color_fromRgb_nearest` now holds for all three depths.
-/
namespace EpdVerif.Props.C14
open EpdVerif

/-! ## encodings round-trip -/

theorem color_bit_roundtrip : ∀ c : Color, Color.fromU8 c.getBitValue = some c := by
  intro c; cases c <;> decide

/-- `From<u8>` rejects exactly the bytes other than 0 and 1 (the documented panic) -/
theorem color_fromU8_none_iff : ∀ v : UInt8, Color.fromU8 v = none ↔ (v ≠ 0 ∧ v ≠ 1) := by
  apply all_bytes
  decide +kernel

theorem color_byte_injective : ∀ a b : Color, a.getByteValue = b.getByteValue → a = b := by
  intro a b; cases a <;> cases b <;> decide

theorem color_inverse_involutive : ∀ c : Color, c.inverse.inverse = c ∧ c.inverse ≠ c := by
  intro c; cases c <;> decide

theorem oct_nibble_roundtrip : ∀ c : OctColor, OctColor.fromNibble c.getNibble = some c := by
  intro c; cases c <;> decide

/-- `from_nibble` looks at the low four bits only and fails exactly for 8..15 -/
theorem oct_fromNibble_spec : ∀ v : UInt8,
    (OctColor.fromNibble v).isSome = decide ((v &&& 0xF).toNat < 8) ∧
    ∀ c, OctColor.fromNibble v = some c → c.getNibble = v &&& 0xF := by
  apply all_bytes
  decide +kernel

theorem oct_pair_roundtrip : ∀ a b : OctColor, OctColor.splitByte (OctColor.colorsByte a b) = some (a, b) := by
  intro a b; cases a <;> cases b <;> decide

/-- `split_byte` succeeds exactly when both nibbles are colours, and re-packs to the byte -/
theorem oct_splitByte_repack : ∀ v : UInt8, ∀ hi lo, OctColor.splitByte v = some (hi, lo) →
    OctColor.colorsByte hi lo = v := by
  apply all_bytes
  intro b hi lo
  cases hi <;> cases lo <;> revert b <;> decide +kernel

theorem tri_raw_total : ∀ v : Nat, v < 4 →
    (TriColor.fromRawU2 v = .white ↔ v = 0) ∧ (TriColor.fromRawU2 v = .black ↔ v = 1) ∧
    (TriColor.fromRawU2 v = .chromatic ↔ (v = 2 ∨ v = 3)) := by
  decide

theorem oct_raw_roundtrip : ∀ c : OctColor, OctColor.fromRawU4 c.getNibble.toNat = some c := by
  intro c; cases c <;> decide

/-- FULL statement (false): every raw value converts without panic.  Negation witnessed. -/
theorem oct_raw_panics : OctColor.fromRawU4 9 = none := by decide
theorem oct_raw_total_partial : ∀ v : Nat, v < 8 → (OctColor.fromRawU4 v).isSome = true := by decide
theorem oct_raw_none_iff : ∀ v : Nat, v < 16 → (OctColor.fromRawU4 v = none ↔ 8 ≤ v) := by decide

/-- FULL statement (false): `Color → RawU1 → Color` is the identity.  What the code does: -/
theorem color_raw_roundtrip_fails : ∀ c : Color, Color.fromRawU1 c.toRawU1 = c.inverse := by
  intro c; cases c <;> decide
theorem color_raw_roundtrip_witness : Color.fromRawU1 (Color.toRawU1 .white) ≠ .white := by decide

/-! ## bit masks select exactly the pixel's bits and agree with the whole-byte values -/

/-- two-level colour: the write `b & mask | bits` sets bit `pos % 8` to the colour's bit value
    and keeps every other bit — for every byte, position, observed bit -/
theorem color_mask_pixel (c : Color) (bwr : Bool) (pos : Nat) (b : UInt8) (j : Nat) (hj : j < 8) :
    bitAt ((b &&& (c.bitmask bwr pos).1) ||| UInt8.ofNat ((c.bitmask bwr pos).2 % 256)) j
      = if j = pos % 8 then c.getBitValue == 1 else bitAt b j := by
  have h := setBit_spec b pos j hj (c.getBitValue == 1)
  cases c <;> simp only [Color.bitmask, Color.getBitValue, lowByte_a, zeroByte] <;>
    simpa [maskBit, Color.getBitValue] using h

/-- tri-colour, black/white plane: White sets the bit; Black clears it; Chromatic sets it iff
    `bwrbit = false` -/
theorem tri_mask_bw_plane (c : TriColor) (bwr : Bool) (pos : Nat) (b : UInt8) (j : Nat) (hj : j < 8) :
    bitAt ((b &&& (c.bitmask bwr pos).1) ||| UInt8.ofNat ((c.bitmask bwr pos).2 % 256)) j
      = if j = pos % 8 then (c == .white || (c == .chromatic && !bwr)) else bitAt b j := by
  have h := setBit_spec b pos j hj (c == .white || (c == .chromatic && !bwr))
  cases c <;> cases bwr <;>
    simp only [TriColor.bitmask, lowByte_a, lowByte_b, lowByte_c, zeroByte, ↓reduceIte,
      Bool.false_eq_true] <;>
    simpa [maskBit] using h

/-- tri-colour, chromatic plane (the high byte of `bits`): set exactly for Chromatic -/
theorem tri_mask_chromatic_plane (c : TriColor) (bwr : Bool) (pos : Nat) (b : UInt8) (j : Nat) (hj : j < 8) :
    bitAt ((b &&& (c.bitmask bwr pos).1) ||| UInt8.ofNat ((c.bitmask bwr pos).2 / 256 % 256)) j
      = if j = pos % 8 then (c == .chromatic) else bitAt b j := by
  have h := setBit_spec b pos j hj (c == .chromatic)
  cases c <;> cases bwr <;>
    simp only [TriColor.bitmask, hiByte_a, hiByte_b, hiByte_c, zeroByte', ↓reduceIte,
      Bool.false_eq_true] <;>
    simpa [maskBit] using h

/-- seven-colour: the write sets nibble `pos % 2` to the colour's nibble and keeps the other -/
theorem oct_mask_pixel (c : OctColor) (bwr : Bool) (pos : Nat) (b : UInt8) (j : Nat) (hj : j < 2) :
    nibAt ((b &&& (c.bitmask bwr pos).1) ||| UInt8.ofNat ((c.bitmask bwr pos).2 % 256)) j
      = if j = pos % 2 then c.getNibble else nibAt b j := by
  have h := setNib_spec b pos j hj c.getNibble.toNat (by cases c <;> decide)
  simpa [OctColor.bitmask, maskNib] using h

/-- writing a colour at all eight positions of any byte gives the whole-byte fill value -/
theorem color_mask_fill : ∀ (c : Color) (bwr : Bool), ∀ b : UInt8,
    (List.range 8).foldl (fun acc p => (acc &&& (c.bitmask bwr p).1) ||| UInt8.ofNat ((c.bitmask bwr p).2 % 256)) b
      = c.getByteValue := by
  intro c bwr
  apply all_bytes
  cases c <;> cases bwr <;> decide +kernel

theorem tri_mask_fill_bw : ∀ (c : TriColor), c ≠ .chromatic → ∀ (bwr : Bool), ∀ b : UInt8,
    (List.range 8).foldl (fun acc p => (acc &&& (c.bitmask bwr p).1) ||| UInt8.ofNat ((c.bitmask bwr p).2 % 256)) b
      = c.getByteValue := by
  intro c hc bwr
  apply all_bytes
  cases c <;> cases bwr <;> first | (exact absurd rfl hc) | decide +kernel

theorem oct_mask_fill : ∀ (c : OctColor) (bwr : Bool), ∀ b : UInt8,
    (List.range 2).foldl (fun acc p => (acc &&& (c.bitmask bwr p).1) ||| UInt8.ofNat ((c.bitmask bwr p).2 % 256)) b
      = OctColor.colorsByte c c := by
  intro c bwr
  apply all_bytes
  cases c <;> cases bwr <;> decide +kernel

/-! ## RGB conversions -/

theorem minBy_mem (key : OctColor → Nat) (l : List OctColor) (best : OctColor) :
    OctColor.minBy key l best = best ∨ OctColor.minBy key l best ∈ l := by
  induction l generalizing best with
  | nil => exact Or.inl rfl
  | cons c cs ih =>
    simp only [OctColor.minBy]
    rcases ih (if key c < key best then c else best) with h | h
    · rw [h]; split
      · exact Or.inr (List.mem_cons_self ..)
      · exact Or.inl rfl
    · exact Or.inr (List.mem_cons_of_mem _ h)

theorem minBy_le (key : OctColor → Nat) (l : List OctColor) (best : OctColor) :
    key (OctColor.minBy key l best) ≤ key best ∧ ∀ c ∈ l, key (OctColor.minBy key l best) ≤ key c := by
  induction l generalizing best with
  | nil => exact ⟨Nat.le_refl _, fun c hc => by cases hc⟩
  | cons c cs ih =>
    simp only [OctColor.minBy]
    by_cases hlt : key c < key best
    · rw [if_pos hlt]
      have := ih c
      refine ⟨by omega, ?_⟩
      intro c' hc'
      rcases List.mem_cons.1 hc' with rfl | h
      · exact this.1
      · exact this.2 c' h
    · rw [if_neg hlt]
      have := ih best
      refine ⟨this.1, ?_⟩
      intro c' hc'
      rcases List.mem_cons.1 hc' with rfl | h
      · omega
      · exact this.2 c' h

theorem oct_all_complete : ∀ c : OctColor, c ∈ OctColor.all := by
  intro c; cases c <;> decide

/-- exact palette colours map to themselves (in particular black ↦ Black, white ↦ White) -/
theorem oct_fromRgb_exact : ∀ c : OctColor,
    OctColor.fromRgb888 c.rgb.1 c.rgb.2.1 c.rgb.2.2 = c := by
  intro c; cases c <;> decide

/-- every RGB value (unbounded) maps to a palette colour of minimal squared distance -/
theorem oct_fromRgb_nearest (r g b : Nat) (c : OctColor) :
    (OctColor.fromRgb888 r g b).dist r g b ≤ c.dist r g b := by
  unfold OctColor.fromRgb888
  split
  · rename_i c0 hfind
    have hm := List.find?_some hfind
    have : c0.rgb = (r, g, b) := by simpa using hm
    have : c0.dist r g b = 0 := by simp [OctColor.dist, this]
    omega
  · have h := minBy_le (fun c => c.dist r g b) OctColor.all.tail .black
    have hc := oct_all_complete c
    have : c = .black ∨ c ∈ OctColor.all.tail := by
      cases c <;> simp [OctColor.all]
    rcases this with rfl | h'
    · exact h.1
    · exact h.2 c h'

/-- an exact match wins even when another palette entry is equally near (there is none, but the
    code's first branch guarantees it) -/
theorem oct_fromRgb_exact_iff (r g b : Nat) (c : OctColor) (h : c.rgb = (r, g, b)) :
    OctColor.fromRgb888 r g b = c := by
  have := oct_fromRgb_exact c
  rw [h] at this
  exact this

theorem color_fromRgb_black_white : ∀ dp ∈ [rgb888, rgb565, rgb555],
    Color.fromRgb dp 0 0 0 = .black ∧ Color.fromRgb dp dp.mr dp.mg dp.mb = .white := by decide

theorem tri_fromRgb_black_white :
    TriColor.fromRgb888 0 0 0 = .black ∧ TriColor.fromRgb888 255 255 255 = .white := by decide

theorem binary_consistent : ∀ on : Bool,
    (Color.fromBinary on = .black ↔ on = true) ∧ (TriColor.fromBinary on = .black ↔ on = true) ∧
    (OctColor.fromBinary on = .black ↔ on = true) ∧
    (Color.fromBinary on = .white ↔ on = false) ∧ (TriColor.fromBinary on = .white ↔ on = false) ∧
    (OctColor.fromBinary on = .white ↔ on = false) := by decide

theorem nearest_aux (mr mg mb thr : Nat) (hthr : thr = (mr + mg + mb) / 2)
    (hodd : (mr + mg + mb) % 2 = 1) (r g b : Nat) (hr : r ≤ mr) (hg : g ≤ mg) (hb : b ≤ mb) :
    (if (r, g, b) = (0, 0, 0) then Color.black
      else if (r, g, b) = (mr, mg, mb) then Color.white
      else if r + g + b > thr then Color.white else Color.black)
    = if 2 * (r + g + b) > mr + mg + mb then Color.white else Color.black := by
  by_cases h0 : (r, g, b) = (0, 0, 0)
  · rw [if_pos h0]
    have := Prod.mk.inj h0
    have h2 := Prod.mk.inj this.2
    rw [if_neg (by omega)]
  · rw [if_neg h0]
    by_cases h1 : (r, g, b) = (mr, mg, mb)
    · rw [if_pos h1]
      have := Prod.mk.inj h1
      have h2 := Prod.mk.inj this.2
      rw [if_pos (by omega)]
    · rw [if_neg h1]
      by_cases h2 : r + g + b > thr
      · rw [if_pos h2, if_pos (by omega)]
      · rw [if_neg h2, if_neg (by omega)]

/-- brightness-nearest of black and white for EVERY value of EVERY depth (Rgb888, Rgb565,
    Rgb555) -/
theorem color_fromRgb_nearest (dp : RgbDepth) (hd : dp = rgb888 ∨ dp = rgb565 ∨ dp = rgb555)
    (r g b : Nat) (hr : r ≤ dp.mr) (hg : g ≤ dp.mg) (hb : b ≤ dp.mb) :
    Color.fromRgb dp r g b = nearestBW dp r g b := by
  rcases hd with rfl | rfl | rfl
  · exact nearest_aux 255 255 255 (Color.threshold rgb888) (by decide) (by decide) r g b hr hg hb
  · exact nearest_aux 31 63 31 (Color.threshold rgb565) (by decide) (by decide) r g b hr hg hb
  · exact nearest_aux 31 31 31 (Color.threshold rgb555) (by decide) (by decide) r g b hr hg hb

/-- to-RGB conversions are right inverses on the palette -/
theorem color_toRgb_roundtrip : ∀ dp ∈ [rgb888, rgb565, rgb555], ∀ c : Color,
    Color.fromRgb dp (c.toRgb dp).1 (c.toRgb dp).2.1 (c.toRgb dp).2.2 = c := by
  intro dp hdp c
  simp only [List.mem_cons, List.not_mem_nil, or_false] at hdp
  rcases hdp with rfl | rfl | rfl <;> cases c <;> decide
theorem tri_toRgb_roundtrip : ∀ c : TriColor,
    TriColor.fromRgb888 c.toRgb888.1 c.toRgb888.2.1 c.toRgb888.2.2 = c := by
  intro c; cases c <;> decide

/-- non-vacuity -/
example : OctColor.fromRgb888 250 130 10 = .orange := by decide
example : Color.fromRgb rgb888 200 100 83 = .white ∧ Color.fromRgb rgb888 200 100 82 = .black := by decide

end EpdVerif.Props.C14
