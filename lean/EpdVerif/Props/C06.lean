import EpdVerif.Props.C01
/-!
# C06 — partial updates: the controller side, for every window

* SSD16xx: `ssd_partial_window` — a block of exactly `wb * h` bytes written from the origin of ANY
  window (inside the RAM) in entry mode 3 fills that window row by row, exactly once, and every
  RAM cell outside the window keeps its previous content (Lemmas/SsdFill, induction over the
  block; window, stride and RAM size universally quantified);
* UC81xx: `winPos_rowmajor` — in partial mode the k-th data byte goes to row `r0 + k / wb`,
  byte column `c0 + k % wb` of the window, for every window geometry.
Whether a driver programs the REQUESTED window (window-register arithmetic, many findings) is
decided by the oracle `Oracle.c06` on traces for boundary and random windows.
-/
namespace EpdVerif.Props.C06
open EpdVerif

theorem ssd_partial_window (s : Ssd) (bs : List UInt8) (ha : s.asleep = false)
    (h3 : s.entry = 3) (hx : s.xs ≤ s.xe) (hy : s.ys ≤ s.ye) (hs : s.xe < s.stride) (hr : s.ye < s.rows)
    (hbw : s.bw.size = s.stride * s.rows) (hred : s.red.size = s.stride * s.rows)
    (hcx : s.cx = s.xs) (hcy : s.cy = s.ys)
    (hl : bs.length = (s.xe - s.xs + 1) * (s.ye - s.ys + 1)) :
    -- (ii) the window holds the buffer row by row
    (∀ (k : Nat) (hk : k < bs.length),
      (s.feed (.c 0x24 bs)).bw[(s.ys + k / (s.xe - s.xs + 1)) * s.stride + (s.xs + k % (s.xe - s.xs + 1))]?
        = some bs[k]) ∧
    -- (iii) everything outside the window is unchanged, in both planes
    (∀ j : Nat, (∀ k, k < bs.length →
        (s.ys + k / (s.xe - s.xs + 1)) * s.stride + (s.xs + k % (s.xe - s.xs + 1)) ≠ j) →
        (s.feed (.c 0x24 bs)).bw[j]? = s.bw[j]?) ∧
    (s.feed (.c 0x24 bs)).red = s.red ∧
    -- exactly once: one episode, every byte stored
    (s.feed (.c 0x24 bs)).epis.head? =
      some (Episode.mk 0 bs.length bs.length true false (s.xs * 8, s.ys, s.xe * 8 + 7, s.ye)) := by
  have h := Ssd.feed_c24_window_fill s bs ha h3 hx hy hs hr hbw hred hcx hcy hl
  refine ⟨h.2.2.1, h.2.2.2.1.1, h.2.2.2.1.2.2, ?_⟩
  rw [h.1]; rfl

theorem winPos_rowmajor (stride c0 wb r0 h k : Nat) (hwb : 0 < wb) (hk : k < wb * h) (hc : c0 + wb ≤ stride) :
    Uc.winPos stride c0 wb r0 h k = some ((r0 + k / wb) * stride + (c0 + k % wb)) := by
  unfold Uc.winPos
  rw [if_neg (by omega)]
  have h1 : k / wb < h := (Nat.div_lt_iff_lt_mul hwb).2 (by rwa [Nat.mul_comm] at hk)
  have h2 : k % wb < wb := Nat.mod_lt _ hwb
  rw [if_pos ⟨h1, by omega⟩]

/-- beyond the window nothing is stored (stray bytes are dropped and counted) -/
theorem winPos_outside (stride c0 wb r0 h k : Nat) (hwb : 0 < wb) (hk : wb * h ≤ k) :
    Uc.winPos stride c0 wb r0 h k = none := by
  unfold Uc.winPos
  rw [if_neg (by omega)]
  have h1 : ¬ (k / wb < h) := by
    intro hh
    have := (Nat.div_lt_iff_lt_mul hwb).1 hh
    rw [Nat.mul_comm] at this; omega
  rw [if_neg (fun hh => h1 hh.1)]

end EpdVerif.Props.C06
