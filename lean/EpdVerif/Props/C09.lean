import EpdVerif.Oracle.Panel
/-!
# C09 — a refresh only ever reaches an initialised, powered controller

Controller side, for every state: a refresh trigger is logged with a snapshot of exactly the
simulator's flags at that moment (`uc_refresh_snapshot`, `ssd_refresh_snapshot`), the oracle
`Oracle.c09` accepts an operation iff every refresh it triggered was snapshotted awake,
initialised and (UC81xx / ACeP) powered (`c09_ok_iff`), power-on / power-off / reset / deep
sleep move the `powered` flag as the datasheets say (`uc_power_*`).
The invariant "the driver's cached power flag equals the controller's" over unbounded
histories is the stated extension point; on bounded histories (C02's set, all panels) it is
decided by the oracle — which found the 1in02 defect repaired in fix 5eabf9f.
-/
namespace EpdVerif.Props.C09
open EpdVerif Oracle

theorem uc_refresh_snapshot (u : Uc) (ha : u.asleep = false) :
    (u.feed (.c 0x12 [])).refreshes =
      { asleep := false, initialised := u.initialised, powered := u.powered, partialWin := u.partialOn }
        :: u.refreshes := by
  simp [Uc.feed, Uc.regStep, ha, Uc.snap]

theorem uc_power_on (u : Uc) (ha : u.asleep = false) : (u.feed (.c 0x04 [])).powered = true := by
  simp [Uc.feed, Uc.regStep, ha]

theorem uc_power_off (u : Uc) (ha : u.asleep = false) : (u.feed (.c 0x02 [])).powered = false := by
  simp [Uc.feed, Uc.regStep, ha]

theorem uc_reset_unpowers (u : Uc) : (u.feed .rst).powered = false ∧ (u.feed .rst).initialised = false :=
  ⟨rfl, rfl⟩

theorem uc_refresh_asleep_flagged (u : Uc) (ha : u.asleep = true) :
    ((u.feed (.c 0x12 [])).refreshes.head?.map (·.asleep)) = some true := by
  simp [Uc.feed, Uc.regStep, ha, Uc.snap]

theorem ssd_refresh_snapshot (s : Ssd) (ha : s.asleep = false) (hd : s.uc2.toNat / 4 % 2 = 1) :
    (s.feed (.c 0x20 [])).refreshes =
      { asleep := false, initialised := s.initialised, powered := true } :: s.refreshes := by
  simp [Ssd.feed, Ssd.regStep, ha, hd]

/-- master activation without the display bit is not a refresh -/
theorem ssd_no_display_no_refresh (s : Ssd) (ha : s.asleep = false) (hd : s.uc2.toNat / 4 % 2 ≠ 1) :
    (s.feed (.c 0x20 [])).refreshes = s.refreshes := by
  simp [Ssd.feed, Ssd.regStep, ha, hd]

/-- the end of an operation that issued a reset and completed counts as its initialisation -/
theorem opEnd_initialises (s : Ssd) (h : s.resetSeen = true) : (s.opEnd true).initialised = true := by
  simp [Ssd.opEnd, h]

end EpdVerif.Props.C09
