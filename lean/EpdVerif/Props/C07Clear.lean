import EpdVerif.Props.C07
import EpdVerif.Props.C06Win
import EpdVerif.Drivers.Epd2in7
import EpdVerif.Drivers.Epd4in2
/-!
# C07 per panel: `clear_frame` for EVERY background colour from ANY controller state (session 4)

`uc_two_fills`: two complete fills outside partial mode leave both planes uniform, each written by
exactly one block of the plane's size, whatever the planes held before (from `dtm_full`).
Per panel the program's block list is obtained for a symbolic driver state (`rfl`), so the
statement holds for every background colour, not for the sampled ones: epd2in7, epd4in2.
The drivers with listed C07 findings cannot have such a theorem; the remaining drivers are
decided by the oracle on every colour × history class.
-/
namespace EpdVerif.Props.C07
open EpdVerif Uc

theorem dtm_epis_tail (u : Uc) (p : Nat) (bs : List UInt8) : (u.dtm p bs).epis.tail = u.epis := by
  unfold Uc.dtm
  by_cases h : p = 0 <;> simp [h]

theorem head_tail_take2 {α : Type} (l t : List α) (a b : α) (h1 : l.head? = some a) (h2 : l.tail = t) (h3 : t.head? = some b) :
    l.take 2 = [a, b] := by
  cases l with
  | nil => cases h1
  | cons x xs =>
    simp only [List.head?_cons, Option.some.injEq] at h1
    simp only [List.tail_cons] at h2
    subst h1 h2
    cases xs with
    | nil => cases h3
    | cons y ys =>
      simp only [List.head?_cons, Option.some.injEq] at h3
      subst h3
      rfl

/-- two complete fills outside partial mode: both planes uniform, each filled by exactly one block
    of the plane's size, whatever they held before -/
theorem uc_two_fills (u : Uc) (v1 v2 : UInt8) (n1 n2 : Nat) (hu : u.asleep = false) (hp : u.partialOn = false)
    (hn1 : n1 = u.p1.size) (hn2 : n2 = u.p2.size) :
    (u.run [Blk.c 0x10 (List.replicate n1 v1), .c 0x13 (List.replicate n2 v2)]).p1.toList = List.replicate n1 v1 ∧
    (u.run [Blk.c 0x10 (List.replicate n1 v1), .c 0x13 (List.replicate n2 v2)]).p2.toList = List.replicate n2 v2 ∧
    ((u.run [Blk.c 0x10 (List.replicate n1 v1), .c 0x13 (List.replicate n2 v2)]).epis.take 2).map (fun e => (e.plane, e.count, e.stored))
      = [(1, n2, n2), (0, n1, n1)] := by
  have e : u.run [Blk.c 0x10 (List.replicate n1 v1), .c 0x13 (List.replicate n2 v2)]
      = (u.dtm 0 (List.replicate n1 v1)).dtm 1 (List.replicate n2 v2) := by
    have a1 := (dtm_full u 0 (List.replicate n1 v1) hp (by simp [hn1])).2.2.2.2.2.1
    simp (config := {decide := true}) only [Uc.run, List.foldl, Uc.feed, hu, a1, ↓reduceIte, Bool.false_eq_true]
  have d1 := dtm_full u 0 (List.replicate n1 v1) hp (by simp [hn1])
  simp only [↓reduceIte] at d1
  have d2 := dtm_full (u.dtm 0 (List.replicate n1 v1)) 1 (List.replicate n2 v2) d1.2.2.2.1
    (by simp only [Nat.one_ne_zero, ↓reduceIte, List.length_replicate]; rw [d1.2.1]; exact hn2)
  simp only [Nat.one_ne_zero, ↓reduceIte] at d2
  rw [e]
  refine ⟨by rw [d2.2.1]; exact d1.1, d2.1, ?_⟩
  rw [head_tail_take2 _ _ _ _ d2.2.2.1 (dtm_epis_tail _ _ _) d1.2.2.1]
  simp only [List.map, List.length_replicate]

open Drivers.Epd2in7 in
theorem epd2in7_clear_blocks (f : Feat) (d : DState) :
    blocksOf ((prog f d .clear).getD []) =
      [.c 0x10 (List.replicate (Gen.Epd2in7.WIDTH * Gen.Epd2in7.HEIGHT / 8) (byteValue d.bg) ++ []),
       .c 0x13 (List.replicate (Gen.Epd2in7.WIDTH * Gen.Epd2in7.HEIGHT / 8) (byteValue d.bg) ++ [])] := rfl

open Drivers.Epd2in7 in
/-- **epd2in7 `clear_frame`, every background colour, any awake controller outside partial mode with
    any plane contents**: both planes end uniformly equal to the background's byte value, each filled
    by exactly one block of the plane's size -/
theorem epd2in7_clear_uniform (f : Feat) (d : DState) (u : Uc) (hu : u.asleep = false) (hp : u.partialOn = false)
    (h1 : u.p1.size = 5808) (h2 : u.p2.size = 5808) :
    (u.run (blocksOf ((prog f d .clear).getD []))).p1.toList = List.replicate 5808 (byteValue d.bg) ∧
    (u.run (blocksOf ((prog f d .clear).getD []))).p2.toList = List.replicate 5808 (byteValue d.bg) ∧
    ((u.run (blocksOf ((prog f d .clear).getD []))).epis.take 2).map (fun e => (e.plane, e.count, e.stored))
      = [(1, 5808, 5808), (0, 5808, 5808)] := by
  rw [epd2in7_clear_blocks, List.append_nil]
  have e : Gen.Epd2in7.WIDTH * Gen.Epd2in7.HEIGHT / 8 = 5808 := by decide
  rw [e]
  exact uc_two_fills u _ _ 5808 5808 hu hp (by omega) (by omega)

/-- a resolution block changes no plane, no mode -/
theorem feed_61 (u : Uc) (r : List UInt8) (hu : u.asleep = false) :
    (u.feed (.c 0x61 r)).asleep = false ∧ (u.feed (.c 0x61 r)).partialOn = u.partialOn ∧
    (u.feed (.c 0x61 r)).p1 = u.p1 ∧ (u.feed (.c 0x61 r)).p2 = u.p2 ∧ (u.feed (.c 0x61 r)).epis = u.epis := by
  simp (config := {decide := true}) only [Uc.feed, Uc.regStep, hu, ↓reduceIte, Bool.false_eq_true, and_false, and_self]

open Drivers.Epd4in2 in
theorem epd4in2_clear_blocks (f : Feat) (d : DState) :
    blocksOf ((prog f d .clear).getD []) =
      [.c 0x61 [shr8 Gen.Epd4in2.WIDTH 8, u8 Gen.Epd4in2.WIDTH, shr8 Gen.Epd4in2.HEIGHT 8, u8 Gen.Epd4in2.HEIGHT],
       .c 0x10 (List.replicate (Gen.Epd4in2.WIDTH / 8 * Gen.Epd4in2.HEIGHT) (byteValue d.bg) ++ []),
       .c 0x13 (List.replicate (Gen.Epd4in2.WIDTH / 8 * Gen.Epd4in2.HEIGHT) (byteValue d.bg) ++ [])] := rfl

open Drivers.Epd4in2 in
/-- **epd4in2 `clear_frame`, every background colour, any awake controller outside partial mode** -/
theorem epd4in2_clear_uniform (f : Feat) (d : DState) (u : Uc) (hu : u.asleep = false) (hp : u.partialOn = false)
    (h1 : u.p1.size = 15000) (h2 : u.p2.size = 15000) :
    (u.run (blocksOf ((prog f d .clear).getD []))).p1.toList = List.replicate 15000 (byteValue d.bg) ∧
    (u.run (blocksOf ((prog f d .clear).getD []))).p2.toList = List.replicate 15000 (byteValue d.bg) ∧
    ((u.run (blocksOf ((prog f d .clear).getD []))).epis.take 2).map (fun e => (e.plane, e.count, e.stored))
      = [(1, 15000, 15000), (0, 15000, 15000)] := by
  rw [epd4in2_clear_blocks, List.append_nil]
  have e : Gen.Epd4in2.WIDTH / 8 * Gen.Epd4in2.HEIGHT = 15000 := by decide
  rw [e]
  have q := feed_61 u [shr8 Gen.Epd4in2.WIDTH 8, u8 Gen.Epd4in2.WIDTH, shr8 Gen.Epd4in2.HEIGHT 8, u8 Gen.Epd4in2.HEIGHT] hu
  have r : ∀ (b1 b2 : Blk), u.run [.c 0x61 [shr8 Gen.Epd4in2.WIDTH 8, u8 Gen.Epd4in2.WIDTH, shr8 Gen.Epd4in2.HEIGHT 8, u8 Gen.Epd4in2.HEIGHT], b1, b2]
      = (u.feed (.c 0x61 [shr8 Gen.Epd4in2.WIDTH 8, u8 Gen.Epd4in2.WIDTH, shr8 Gen.Epd4in2.HEIGHT 8, u8 Gen.Epd4in2.HEIGHT])).run [b1, b2] := fun _ _ => rfl
  rw [r]
  exact uc_two_fills _ _ _ 15000 15000 q.1 (by rw [q.2.1, hp]) (by rw [q.2.2.1, h1]) (by rw [q.2.2.2.1, h2])

/-- non-vacuity: the controller as constructed meets the hypotheses -/
example : (Uc.por 400 300 1 9 false).asleep = false ∧ (Uc.por 400 300 1 9 false).partialOn = false ∧
    (Uc.por 400 300 1 9 false).p1.size = 15000 := by decide +kernel
end EpdVerif.Props.C07
