import EpdVerif.Props.C07
import EpdVerif.Props.C06Win
import EpdVerif.Drivers.Epd2in7
import EpdVerif.Drivers.Epd4in2
import EpdVerif.Drivers.Epd1in54
import EpdVerif.Drivers.Epd2in9
import EpdVerif.Drivers.Epd2in7_v2
import EpdVerif.Drivers.Epd1in54_v2
import EpdVerif.Drivers.Epd7in3f
import EpdVerif.Drivers.Epd5in65f
import EpdVerif.Drivers.Epd1in02
/-!
# C07 per panel: `clear_frame` for EVERY background colour from ANY controller state (session 4)

`uc_two_fills`: two complete fills outside partial mode leave both planes uniform, each written by
exactly one block of the plane's size, whatever the planes held before (from `dtm_full`).
Per panel the program's block list is obtained for a symbolic driver state (`rfl`), so the
statement holds for every background colour, not for the sampled ones: epd2in7, epd4in2 (UC81xx)
and — from ANY awake controller state in data-entry mode 3, whatever window and counters an earlier
partial update left — epd1in54, epd2in9, epd2in7_v2, epd1in54_v2 (both planes; SSD16xx, `ssd_window_then_fill`).
The drivers with listed C07 findings cannot have such a theorem; the remaining drivers are
decided by the oracle on every colour × history class.
-/
namespace EpdVerif.Props.C07
open EpdVerif Uc

theorem dtm_epis_tail (u : Uc) (p : Nat) (bs : List UInt8) : (u.dtm p bs).epis.tail = u.epis := by
  unfold Uc.dtm
  by_cases h : p = 0 <;> simp [h]

theorem head_tail_take2 {α : Type} (l t : List α) (a b : α) (h1 : l.head? = some a) (h2 : l.tail = t) (h3 : t.head? = some b) :
    l.take 2 = [a, b] := by
  cases l with
  | nil => cases h1
  | cons x xs =>
    simp only [List.head?_cons, Option.some.injEq] at h1
    simp only [List.tail_cons] at h2
    subst h1 h2
    cases xs with
    | nil => cases h3
    | cons y ys =>
      simp only [List.head?_cons, Option.some.injEq] at h3
      subst h3
      rfl

/-- two complete fills outside partial mode: both planes uniform, each filled by exactly one block
    of the plane's size, whatever they held before -/
theorem uc_two_fills (u : Uc) (v1 v2 : UInt8) (n1 n2 : Nat) (hu : u.asleep = false) (hp : u.partialOn = false)
    (hn1 : n1 = u.p1.size) (hn2 : n2 = u.p2.size) :
    (u.run [Blk.c 0x10 (List.replicate n1 v1), .c 0x13 (List.replicate n2 v2)]).p1.toList = List.replicate n1 v1 ∧
    (u.run [Blk.c 0x10 (List.replicate n1 v1), .c 0x13 (List.replicate n2 v2)]).p2.toList = List.replicate n2 v2 ∧
    ((u.run [Blk.c 0x10 (List.replicate n1 v1), .c 0x13 (List.replicate n2 v2)]).epis.take 2).map (fun e => (e.plane, e.count, e.stored))
      = [(1, n2, n2), (0, n1, n1)] := by
  have e : u.run [Blk.c 0x10 (List.replicate n1 v1), .c 0x13 (List.replicate n2 v2)]
      = (u.dtm 0 (List.replicate n1 v1)).dtm 1 (List.replicate n2 v2) := by
    have a1 := (dtm_full u 0 (List.replicate n1 v1) hp (by simp [hn1])).2.2.2.2.2.1
    simp (config := {decide := true}) only [Uc.run, List.foldl, Uc.feed, hu, a1, ↓reduceIte, Bool.false_eq_true]
  have d1 := dtm_full u 0 (List.replicate n1 v1) hp (by simp [hn1])
  simp only [↓reduceIte] at d1
  have d2 := dtm_full (u.dtm 0 (List.replicate n1 v1)) 1 (List.replicate n2 v2) d1.2.2.2.1
    (by simp only [Nat.one_ne_zero, ↓reduceIte, List.length_replicate]; rw [d1.2.1]; exact hn2)
  simp only [Nat.one_ne_zero, ↓reduceIte] at d2
  rw [e]
  refine ⟨by rw [d2.2.1]; exact d1.1, d2.1, ?_⟩
  rw [head_tail_take2 _ _ _ _ d2.2.2.1 (dtm_epis_tail _ _ _) d1.2.2.1]
  simp only [List.map, List.length_replicate]

open Drivers.Epd2in7 in
theorem epd2in7_clear_blocks (f : Feat) (d : DState) :
    blocksOf ((prog f d .clear).getD []) =
      [.c 0x10 (List.replicate (Gen.Epd2in7.WIDTH * Gen.Epd2in7.HEIGHT / 8) (byteValue d.bg) ++ []),
       .c 0x13 (List.replicate (Gen.Epd2in7.WIDTH * Gen.Epd2in7.HEIGHT / 8) (byteValue d.bg) ++ [])] := rfl

open Drivers.Epd2in7 in
/-- **epd2in7 `clear_frame`, every background colour, any awake controller outside partial mode with
    any plane contents**: both planes end uniformly equal to the background's byte value, each filled
    by exactly one block of the plane's size -/
theorem epd2in7_clear_uniform (f : Feat) (d : DState) (u : Uc) (hu : u.asleep = false) (hp : u.partialOn = false)
    (h1 : u.p1.size = 5808) (h2 : u.p2.size = 5808) :
    (u.run (blocksOf ((prog f d .clear).getD []))).p1.toList = List.replicate 5808 (byteValue d.bg) ∧
    (u.run (blocksOf ((prog f d .clear).getD []))).p2.toList = List.replicate 5808 (byteValue d.bg) ∧
    ((u.run (blocksOf ((prog f d .clear).getD []))).epis.take 2).map (fun e => (e.plane, e.count, e.stored))
      = [(1, 5808, 5808), (0, 5808, 5808)] := by
  rw [epd2in7_clear_blocks, List.append_nil]
  have e : Gen.Epd2in7.WIDTH * Gen.Epd2in7.HEIGHT / 8 = 5808 := by decide
  rw [e]
  exact uc_two_fills u _ _ 5808 5808 hu hp (by omega) (by omega)

/-- a resolution block changes no plane, no mode -/
theorem feed_61 (u : Uc) (r : List UInt8) (hu : u.asleep = false) :
    (u.feed (.c 0x61 r)).asleep = false ∧ (u.feed (.c 0x61 r)).partialOn = u.partialOn ∧
    (u.feed (.c 0x61 r)).p1 = u.p1 ∧ (u.feed (.c 0x61 r)).p2 = u.p2 ∧ (u.feed (.c 0x61 r)).epis = u.epis := by
  simp (config := {decide := true}) only [Uc.feed, Uc.regStep, hu, ↓reduceIte, Bool.false_eq_true, and_false, and_self]

open Drivers.Epd4in2 in
theorem epd4in2_clear_blocks (f : Feat) (d : DState) :
    blocksOf ((prog f d .clear).getD []) =
      [.c 0x61 [shr8 Gen.Epd4in2.WIDTH 8, u8 Gen.Epd4in2.WIDTH, shr8 Gen.Epd4in2.HEIGHT 8, u8 Gen.Epd4in2.HEIGHT],
       .c 0x10 (List.replicate (Gen.Epd4in2.WIDTH / 8 * Gen.Epd4in2.HEIGHT) (byteValue d.bg) ++ []),
       .c 0x13 (List.replicate (Gen.Epd4in2.WIDTH / 8 * Gen.Epd4in2.HEIGHT) (byteValue d.bg) ++ [])] := rfl

open Drivers.Epd4in2 in
/-- **epd4in2 `clear_frame`, every background colour, any awake controller outside partial mode** -/
theorem epd4in2_clear_uniform (f : Feat) (d : DState) (u : Uc) (hu : u.asleep = false) (hp : u.partialOn = false)
    (h1 : u.p1.size = 15000) (h2 : u.p2.size = 15000) :
    (u.run (blocksOf ((prog f d .clear).getD []))).p1.toList = List.replicate 15000 (byteValue d.bg) ∧
    (u.run (blocksOf ((prog f d .clear).getD []))).p2.toList = List.replicate 15000 (byteValue d.bg) ∧
    ((u.run (blocksOf ((prog f d .clear).getD []))).epis.take 2).map (fun e => (e.plane, e.count, e.stored))
      = [(1, 15000, 15000), (0, 15000, 15000)] := by
  rw [epd4in2_clear_blocks, List.append_nil]
  have e : Gen.Epd4in2.WIDTH / 8 * Gen.Epd4in2.HEIGHT = 15000 := by decide
  rw [e]
  have q := feed_61 u [shr8 Gen.Epd4in2.WIDTH 8, u8 Gen.Epd4in2.WIDTH, shr8 Gen.Epd4in2.HEIGHT 8, u8 Gen.Epd4in2.HEIGHT] hu
  have r : ∀ (b1 b2 : Blk), u.run [.c 0x61 [shr8 Gen.Epd4in2.WIDTH 8, u8 Gen.Epd4in2.WIDTH, shr8 Gen.Epd4in2.HEIGHT 8, u8 Gen.Epd4in2.HEIGHT], b1, b2]
      = (u.feed (.c 0x61 [shr8 Gen.Epd4in2.WIDTH 8, u8 Gen.Epd4in2.WIDTH, shr8 Gen.Epd4in2.HEIGHT 8, u8 Gen.Epd4in2.HEIGHT])).run [b1, b2] := fun _ _ => rfl
  rw [r]
  exact uc_two_fills _ _ _ 15000 15000 q.1 (by rw [q.2.1, hp]) (by rw [q.2.2.1, h1]) (by rw [q.2.2.2.1, h2])

/-- non-vacuity: the controller as constructed meets the hypotheses -/
example : (Uc.por 400 300 1 9 false).asleep = false ∧ (Uc.por 400 300 1 9 false).partialOn = false ∧
    (Uc.por 400 300 1 9 false).p1.size = 15000 := by decide +kernel
/-! ## SSD16xx -/

/-- SSD16xx (byte-unit X): window + counter blocks, then a fill of exactly the window's size, from ANY
    awake state in data-entry mode 3: every cell of the window holds the fill value, the RED plane and
    everything outside the window are unchanged, one episode with `count = stored = size` -/
theorem ssd_window_then_fill (s : Ssd) (a b c c' d d' : UInt8) (v : UInt8) (n : Nat)
    (hu : s.asleep = false) (hxp : s.xPix = false) (h3 : s.entry = 3)
    (hbw : s.bw.size = s.stride * s.rows) (hred : s.red.size = s.stride * s.rows)
    (hx : a.toNat % 64 ≤ b.toNat % 64) (hy : Ssd.word c c' % 1024 ≤ Ssd.word d d' % 1024)
    (hs : b.toNat % 64 < s.stride) (hr : Ssd.word d d' % 1024 < s.rows)
    (hn : n = (b.toNat % 64 - a.toNat % 64 + 1) * (Ssd.word d d' % 1024 - Ssd.word c c' % 1024 + 1))
    (s' : Ssd) (hs' : s' = s.run [Blk.c 0x44 [a, b], .c 0x45 [c, c', d, d'], .c 0x4E [a], .c 0x4F [c, c'], .c 0x24 (List.replicate n v)]) :
    (∀ k, k < n → s'.bw[(Ssd.word c c' % 1024 + k / (b.toNat % 64 - a.toNat % 64 + 1)) * s.stride
        + (a.toNat % 64 + k % (b.toNat % 64 - a.toNat % 64 + 1))]? = some v) ∧
    s'.red = s.red ∧
    (s'.epis.head?.map fun e => (e.plane, e.count, e.stored)) = some (0, n, n) := by
  have q := C06.ssd_addr_seq s a b c c' d d' hu hxp
  simp only [] at q
  generalize hs1 : s.run [Blk.c 0x44 [a, b], .c 0x45 [c, c', d, d'], .c 0x4E [a], .c 0x4F [c, c']] = s1 at q
  obtain ⟨qxs, qxe, qys, qye, qcx, qcy, qa, qe, qst, qro, qbw, qred, qep⟩ := q
  have es' : s' = s1.feed (.c 0x24 (List.replicate n v)) := by
    rw [hs', ← hs1]
    simp only [Ssd.run, List.foldl]
  have key := C06.ssd_partial_window s1 (List.replicate n v) qa (by rw [qe, h3]) (by rw [qxs, qxe]; exact hx)
    (by rw [qys, qye]; exact hy) (by rw [qxe, qst]; exact hs) (by rw [qye, qro]; exact hr)
    (by rw [qbw, qst, qro]; exact hbw) (by rw [qred, qst, qro]; exact hred) (by rw [qcx, qxs]) (by rw [qcy, qys])
    (by rw [qxe, qxs, qye, qys, List.length_replicate]; exact hn)
  rw [qxe, qxs, qys, qst, qred, qye] at key
  rw [es']
  refine ⟨?_, key.2.2.1, ?_⟩
  · intro k hk
    have := key.1 k (by rw [List.length_replicate]; exact hk)
    rw [this]
    simp
  · rw [key.2.2.2]
    simp

open Drivers.Epd1in54 in
theorem epd1in54_clear_blocks (f : Feat) (d : DState) :
    blocksOf ((prog f d .clear).getD []) =
      [.c 0x44 [shr8 0 3, shr8 (Gen.Epd1in54.WIDTH - 1) 3],
       .c 0x45 [u8 0, shr8 0 8, u8 (Gen.Epd1in54.HEIGHT - 1), shr8 (Gen.Epd1in54.HEIGHT - 1) 8],
       .c 0x4E [shr8 0 3], .c 0x4F [u8 0, shr8 0 8],
       .c 0x24 (List.replicate (Gen.Epd1in54.WIDTH / 8 * Gen.Epd1in54.HEIGHT) (byteValue d.bg) ++ [])] := rfl

open Drivers.Epd1in54 in
/-- **epd1in54 `clear_frame`, every background colour, ANY awake controller state in data-entry mode 3**
    (any window / counters left by a partial update, any RAM): the 25 x 200-byte panel area of the B/W
    RAM ends equal to the colour's byte value, written exactly once; the other plane is untouched -/
theorem epd1in54_clear_uniform (f : Feat) (d : DState) (s : Ssd) (hu : s.asleep = false) (hxp : s.xPix = false)
    (h3 : s.entry = 3) (hst : s.stride = 30) (hro : s.rows = 320) (hbw : s.bw.size = 30 * 320) (hred : s.red.size = 30 * 320) :
    let s' := s.run (blocksOf ((prog f d .clear).getD []))
    (∀ k, k < 5000 → s'.bw[(k / 25) * 30 + k % 25]? = some (byteValue d.bg)) ∧ s'.red = s.red ∧
    (s'.epis.head?.map fun e => (e.plane, e.count, e.stored)) = some (0, 5000, 5000) := by
  intro s'
  have e : Gen.Epd1in54.WIDTH / 8 * Gen.Epd1in54.HEIGHT = 5000 := by decide
  have hs' : s' = s.run [Blk.c 0x44 [shr8 0 3, shr8 (Gen.Epd1in54.WIDTH - 1) 3],
       .c 0x45 [u8 0, shr8 0 8, u8 (Gen.Epd1in54.HEIGHT - 1), shr8 (Gen.Epd1in54.HEIGHT - 1) 8],
       .c 0x4E [shr8 0 3], .c 0x4F [u8 0, shr8 0 8], .c 0x24 (List.replicate 5000 (byteValue d.bg))] := by
    show s.run _ = _
    rw [epd1in54_clear_blocks, List.append_nil, e]
  have a1 : (shr8 0 3).toNat % 64 = 0 := by decide
  have a2 : (shr8 (Gen.Epd1in54.WIDTH - 1) 3).toNat % 64 = 24 := by decide
  have a3 : Ssd.word (u8 0) (shr8 0 8) % 1024 = 0 := by decide
  have a4 : Ssd.word (u8 (Gen.Epd1in54.HEIGHT - 1)) (shr8 (Gen.Epd1in54.HEIGHT - 1) 8) % 1024 = 199 := by decide
  have k := ssd_window_then_fill s (shr8 0 3) (shr8 (Gen.Epd1in54.WIDTH - 1) 3) (u8 0) (shr8 0 8)
    (u8 (Gen.Epd1in54.HEIGHT - 1)) (shr8 (Gen.Epd1in54.HEIGHT - 1) 8) (byteValue d.bg) 5000 hu hxp h3
    (by rw [hst, hro]; exact hbw) (by rw [hst, hro]; exact hred) (by rw [a1, a2]; omega) (by rw [a3, a4]; omega)
    (by rw [a2, hst]; omega) (by rw [a4, hro]; omega) (by rw [a1, a2, a3, a4]) s' hs'
  rw [a1, a2, a3, hst] at k
  refine ⟨fun k' hk' => ?_, k.2.1, k.2.2⟩
  have := k.1 k' hk'
  have e1 : 24 - 0 + 1 = 25 := rfl
  rw [e1, Nat.zero_add, Nat.zero_add] at this
  exact this
open Drivers.Epd2in9 in
theorem epd2in9_clear_blocks (f : Feat) (d : DState) :
    blocksOf ((prog f d .clear).getD []) =
      [.c 0x44 [shr8 0 3, shr8 (Gen.Epd2in9.WIDTH - 1) 3],
       .c 0x45 [u8 0, shr8 0 8, u8 (Gen.Epd2in9.HEIGHT - 1), shr8 (Gen.Epd2in9.HEIGHT - 1) 8],
       .c 0x4E [shr8 0 3], .c 0x4F [u8 0, shr8 0 8],
       .c 0x24 (List.replicate (Gen.Epd2in9.WIDTH / 8 * Gen.Epd2in9.HEIGHT) (byteValue d.bg) ++ [])] := rfl

open Drivers.Epd2in9 in
/-- **epd2in9 `clear_frame`, every background colour, ANY awake controller state in data-entry mode 3**
    (any window / counters left by a partial update, any RAM): the 16 x 296-byte panel area of the B/W
    RAM ends equal to the colour's byte value, written exactly once; the other plane is untouched -/
theorem epd2in9_clear_uniform (f : Feat) (d : DState) (s : Ssd) (hu : s.asleep = false) (hxp : s.xPix = false)
    (h3 : s.entry = 3) (hst : s.stride = 30) (hro : s.rows = 320) (hbw : s.bw.size = 30 * 320) (hred : s.red.size = 30 * 320) :
    let s' := s.run (blocksOf ((prog f d .clear).getD []))
    (∀ k, k < 4736 → s'.bw[(k / 16) * 30 + k % 16]? = some (byteValue d.bg)) ∧ s'.red = s.red ∧
    (s'.epis.head?.map fun e => (e.plane, e.count, e.stored)) = some (0, 4736, 4736) := by
  intro s'
  have e : Gen.Epd2in9.WIDTH / 8 * Gen.Epd2in9.HEIGHT = 4736 := by decide
  have hs' : s' = s.run [Blk.c 0x44 [shr8 0 3, shr8 (Gen.Epd2in9.WIDTH - 1) 3],
       .c 0x45 [u8 0, shr8 0 8, u8 (Gen.Epd2in9.HEIGHT - 1), shr8 (Gen.Epd2in9.HEIGHT - 1) 8],
       .c 0x4E [shr8 0 3], .c 0x4F [u8 0, shr8 0 8], .c 0x24 (List.replicate 4736 (byteValue d.bg))] := by
    show s.run _ = _
    rw [epd2in9_clear_blocks, List.append_nil, e]
  have a1 : (shr8 0 3).toNat % 64 = 0 := by decide
  have a2 : (shr8 (Gen.Epd2in9.WIDTH - 1) 3).toNat % 64 = 15 := by decide
  have a3 : Ssd.word (u8 0) (shr8 0 8) % 1024 = 0 := by decide
  have a4 : Ssd.word (u8 (Gen.Epd2in9.HEIGHT - 1)) (shr8 (Gen.Epd2in9.HEIGHT - 1) 8) % 1024 = 295 := by decide
  have k := ssd_window_then_fill s (shr8 0 3) (shr8 (Gen.Epd2in9.WIDTH - 1) 3) (u8 0) (shr8 0 8)
    (u8 (Gen.Epd2in9.HEIGHT - 1)) (shr8 (Gen.Epd2in9.HEIGHT - 1) 8) (byteValue d.bg) 4736 hu hxp h3
    (by rw [hst, hro]; exact hbw) (by rw [hst, hro]; exact hred) (by rw [a1, a2]; omega) (by rw [a3, a4]; omega)
    (by rw [a2, hst]; omega) (by rw [a4, hro]; omega) (by rw [a1, a2, a3, a4]) s' hs'
  rw [a1, a2, a3, hst] at k
  refine ⟨fun k' hk' => ?_, k.2.1, k.2.2⟩
  have := k.1 k' hk'
  have e1 : 15 - 0 + 1 = 16 := rfl
  rw [e1, Nat.zero_add, Nat.zero_add] at this
  exact this


open Drivers.Epd2in7_v2 in
theorem epd2in7_v2_clear_blocks (f : Feat) (d : DState) :
    blocksOf ((prog f d .clear).getD []) =
      [.c 0x44 [0, 21], .c 0x45 [0, 0, 7, 1], .c 0x4E [0], .c 0x4F [0, 0],
       .c 0x24 (List.replicate (Gen.Epd2in7_v2.WIDTH / 8 * Gen.Epd2in7_v2.HEIGHT) (byteValue d.bg) ++ [])] := rfl

open Drivers.Epd2in7_v2 in
/-- **epd2in7_v2 `clear_frame`, every background colour, ANY awake controller state in data-entry mode 3** -/
theorem epd2in7_v2_clear_uniform (f : Feat) (d : DState) (s : Ssd) (hu : s.asleep = false) (hxp : s.xPix = false)
    (h3 : s.entry = 3) (hst : s.stride = 22) (hro : s.rows = 296) (hbw : s.bw.size = 22 * 296) (hred : s.red.size = 22 * 296) :
    let s' := s.run (blocksOf ((prog f d .clear).getD []))
    (∀ k, k < 5808 → s'.bw[(k / 22) * 22 + k % 22]? = some (byteValue d.bg)) ∧ s'.red = s.red ∧
    (s'.epis.head?.map fun e => (e.plane, e.count, e.stored)) = some (0, 5808, 5808) := by
  intro s'
  have e : Gen.Epd2in7_v2.WIDTH / 8 * Gen.Epd2in7_v2.HEIGHT = 5808 := by decide
  have hs' : s' = s.run [Blk.c 0x44 [0, 21], .c 0x45 [0, 0, 7, 1], .c 0x4E [0], .c 0x4F [0, 0],
      .c 0x24 (List.replicate 5808 (byteValue d.bg))] := by
    show s.run _ = _
    rw [epd2in7_v2_clear_blocks, List.append_nil, e]
  have a1 : (0 : UInt8).toNat % 64 = 0 := by decide
  have a2 : (21 : UInt8).toNat % 64 = 21 := by decide
  have a3 : Ssd.word 0 0 % 1024 = 0 := by decide
  have a4 : Ssd.word 7 1 % 1024 = 263 := by decide
  have k := ssd_window_then_fill s 0 21 0 0 7 1 (byteValue d.bg) 5808 hu hxp h3
    (by rw [hst, hro]; exact hbw) (by rw [hst, hro]; exact hred) (by rw [a1, a2]; omega) (by rw [a3, a4]; omega)
    (by rw [a2, hst]; omega) (by rw [a4, hro]; omega) (by rw [a1, a2, a3, a4]) s' hs'
  rw [a1, a2, a3, hst] at k
  refine ⟨fun k' hk' => ?_, k.2.1, k.2.2⟩
  have := k.1 k' hk'
  have e1 : 21 - 0 + 1 = 22 := rfl
  rw [e1, Nat.zero_add, Nat.zero_add] at this
  exact this

/-- window + counter blocks, then a fill of BOTH planes with the window's size each (the first fill
    returns the address counter to the window origin): both windows uniform, two episodes `count = stored` -/
theorem ssd_window_then_two_fills (s : Ssd) (a b c c' d d' : UInt8) (v1 v2 : UInt8) (n : Nat)
    (hu : s.asleep = false) (hxp : s.xPix = false) (h3 : s.entry = 3)
    (hbw : s.bw.size = s.stride * s.rows) (hred : s.red.size = s.stride * s.rows)
    (hx : a.toNat % 64 ≤ b.toNat % 64) (hy : Ssd.word c c' % 1024 ≤ Ssd.word d d' % 1024)
    (hs : b.toNat % 64 < s.stride) (hr : Ssd.word d d' % 1024 < s.rows)
    (hn : n = (b.toNat % 64 - a.toNat % 64 + 1) * (Ssd.word d d' % 1024 - Ssd.word c c' % 1024 + 1))
    (s' : Ssd) (hs' : s' = s.run [Blk.c 0x44 [a, b], .c 0x45 [c, c', d, d'], .c 0x4E [a], .c 0x4F [c, c'],
      .c 0x24 (List.replicate n v1), .c 0x26 (List.replicate n v2)]) :
    (∀ k, k < n → s'.bw[(Ssd.word c c' % 1024 + k / (b.toNat % 64 - a.toNat % 64 + 1)) * s.stride
        + (a.toNat % 64 + k % (b.toNat % 64 - a.toNat % 64 + 1))]? = some v1) ∧
    (∀ k, k < n → s'.red[(Ssd.word c c' % 1024 + k / (b.toNat % 64 - a.toNat % 64 + 1)) * s.stride
        + (a.toNat % 64 + k % (b.toNat % 64 - a.toNat % 64 + 1))]? = some v2) ∧
    ((s'.epis.take 2).map fun e => (e.plane, e.count, e.stored)) = [(1, n, n), (0, n, n)] := by
  have q := C06.ssd_addr_seq s a b c c' d d' hu hxp
  simp only [] at q
  generalize hs1 : s.run [Blk.c 0x44 [a, b], .c 0x45 [c, c', d, d'], .c 0x4E [a], .c 0x4F [c, c']] = s1 at q
  obtain ⟨qxs, qxe, qys, qye, qcx, qcy, qa, qe, qst, qro, qbw, qred, qep⟩ := q
  have es' : s' = (s1.feed (.c 0x24 (List.replicate n v1))).feed (.c 0x26 (List.replicate n v2)) := by
    rw [hs', ← hs1]
    simp only [Ssd.run, List.foldl]
  have hl : (List.replicate n v1).length = (s1.xe - s1.xs + 1) * (s1.ye - s1.ys + 1) := by
    rw [qxe, qxs, qye, qys, List.length_replicate]; exact hn
  have k1 := Ssd.feed_c24_window_fill s1 (List.replicate n v1) qa (by rw [qe, h3]) (by rw [qxs, qxe]; exact hx)
    (by rw [qys, qye]; exact hy) (by rw [qxe, qst]; exact hs) (by rw [qye, qro]; exact hr)
    (by rw [qbw, qst, qro]; exact hbw) (by rw [qred, qst, qro]; exact hred) (by rw [qcx, qxs]) (by rw [qcy, qys]) hl
  generalize hs2 : s1.feed (.c 0x24 (List.replicate n v1)) = s2 at k1 es'
  obtain ⟨e1, ⟨c1x, c1y⟩, w1, ⟨o1, z1, r1⟩, cfg⟩ := k1
  have hl2 : (List.replicate n v2).length = (s2.xe - s2.xs + 1) * (s2.ye - s2.ys + 1) := by
    rw [cfg.xe, cfg.xs, cfg.ye, cfg.ys, List.length_replicate, ← List.length_replicate (n := n) (a := v1)]; exact hl
  have k2 := Ssd.feed_c26_window_fill s2 (List.replicate n v2) (by rw [cfg.asleep]; exact qa) (by rw [cfg.entry, qe, h3])
    (by rw [cfg.xs, cfg.xe, qxs, qxe]; exact hx) (by rw [cfg.ys, cfg.ye, qys, qye]; exact hy)
    (by rw [cfg.xe, cfg.stride, qxe, qst]; exact hs) (by rw [cfg.ye, cfg.rows, qye, qro]; exact hr)
    (by rw [z1, cfg.stride, cfg.rows, qbw, qst, qro]; exact hbw) (by rw [r1, cfg.stride, cfg.rows, qred, qst, qro]; exact hred)
    (by rw [c1x, cfg.xs]) (by rw [c1y, cfg.ys]) hl2
  obtain ⟨e2, _, w2, ⟨_, _, b2⟩, _⟩ := k2
  rw [es']
  refine ⟨?_, ?_, ?_⟩
  · intro k hk
    rw [b2]
    have := w1 k (by rw [List.length_replicate]; exact hk)
    rw [qxe, qxs, qys, qst] at this
    rw [this]; simp
  · intro k hk
    have := w2 k (by rw [List.length_replicate]; exact hk)
    rw [cfg.xe, cfg.xs, cfg.ys, cfg.stride, qxe, qxs, qys, qst] at this
    rw [this]; simp
  · rw [e2, e1]
    simp

open Drivers.Epd1in54_v2 in
theorem epd1in54_v2_clear_blocks (f : Feat) (d : DState) :
    blocksOf ((prog f d .clear).getD []) =
      [.c 0x44 [0, 24], .c 0x45 [0, 0, 199, 0], .c 0x4E [0], .c 0x4F [0, 0],
       .c 0x24 (List.replicate (Gen.Epd1in54_v2.WIDTH / 8 * Gen.Epd1in54_v2.HEIGHT) (byteValue d.bg) ++ []),
       .c 0x26 (List.replicate (Gen.Epd1in54_v2.WIDTH / 8 * Gen.Epd1in54_v2.HEIGHT) (byteValue d.bg) ++ [])] := rfl

open Drivers.Epd1in54_v2 in
/-- **epd1in54_v2 `clear_frame`, every background colour, ANY awake controller state in data-entry mode 3**:
    BOTH RAM planes end uniformly equal to the colour's byte value, each written exactly once -/
theorem epd1in54_v2_clear_uniform (f : Feat) (d : DState) (s : Ssd) (hu : s.asleep = false) (hxp : s.xPix = false)
    (h3 : s.entry = 3) (hst : s.stride = 25) (hro : s.rows = 200) (hbw : s.bw.size = 25 * 200) (hred : s.red.size = 25 * 200) :
    let s' := s.run (blocksOf ((prog f d .clear).getD []))
    (∀ k, k < 5000 → s'.bw[(k / 25) * 25 + k % 25]? = some (byteValue d.bg)) ∧
    (∀ k, k < 5000 → s'.red[(k / 25) * 25 + k % 25]? = some (byteValue d.bg)) ∧
    ((s'.epis.take 2).map fun e => (e.plane, e.count, e.stored)) = [(1, 5000, 5000), (0, 5000, 5000)] := by
  intro s'
  have e : Gen.Epd1in54_v2.WIDTH / 8 * Gen.Epd1in54_v2.HEIGHT = 5000 := by decide
  have hs' : s' = s.run [Blk.c 0x44 [0, 24], .c 0x45 [0, 0, 199, 0], .c 0x4E [0], .c 0x4F [0, 0],
      .c 0x24 (List.replicate 5000 (byteValue d.bg)), .c 0x26 (List.replicate 5000 (byteValue d.bg))] := by
    show s.run _ = _
    rw [epd1in54_v2_clear_blocks, List.append_nil, e]
  have a1 : (0 : UInt8).toNat % 64 = 0 := by decide
  have a2 : (24 : UInt8).toNat % 64 = 24 := by decide
  have a3 : Ssd.word 0 0 % 1024 = 0 := by decide
  have a4 : Ssd.word 199 0 % 1024 = 199 := by decide
  have k := ssd_window_then_two_fills s 0 24 0 0 199 0 (byteValue d.bg) (byteValue d.bg) 5000 hu hxp h3
    (by rw [hst, hro]; exact hbw) (by rw [hst, hro]; exact hred) (by rw [a1, a2]; omega) (by rw [a3, a4]; omega)
    (by rw [a2, hst]; omega) (by rw [a4, hro]; omega) (by rw [a1, a2, a3, a4]) s' hs'
  rw [a1, a2, a3, hst] at k
  have e1 : 24 - 0 + 1 = 25 := rfl
  refine ⟨fun k' hk' => ?_, fun k' hk' => ?_, k.2.2⟩
  · have := k.1 k' hk'
    rw [e1, Nat.zero_add, Nat.zero_add] at this
    exact this
  · have := k.2.1 k' hk'
    rw [e1, Nat.zero_add, Nat.zero_add] at this
    exact this

/-! ## ACeP (one 4-bpp plane, refresh bracket inside clear_frame) -/

/-- power on, refresh, power off after a data block: no plane is touched -/
theorem uc_refresh_bracket_keeps_planes (x : Uc) (r o : List UInt8) (hx : x.asleep = false) :
    (x.run [Blk.c 0x04 [], .c 0x12 r, .c 0x02 o]).p1 = x.p1 ∧ (x.run [Blk.c 0x04 [], .c 0x12 r, .c 0x02 o]).p2 = x.p2 ∧
    (x.run [Blk.c 0x04 [], .c 0x12 r, .c 0x02 o]).epis = x.epis := by
  simp (config := {decide := true}) only [Uc.run, List.foldl, Uc.feed, Uc.regStep, hx, ↓reduceIte, Bool.false_eq_true, and_false, and_self]

/-- one complete fill of the first plane, then the refresh bracket -/
theorem uc_fill_then_bracket (u : Uc) (v : UInt8) (n : Nat) (r o : List UInt8) (hu : u.asleep = false) (hp : u.partialOn = false)
    (hn : n = u.p1.size) :
    (u.run [Blk.c 0x10 (List.replicate n v), .c 0x04 [], .c 0x12 r, .c 0x02 o]).p1.toList = List.replicate n v ∧
    ((u.run [Blk.c 0x10 (List.replicate n v), .c 0x04 [], .c 0x12 r, .c 0x02 o]).epis.head?.map fun e => (e.plane, e.count, e.stored))
      = some (0, n, n) := by
  have d1 := dtm_full u 0 (List.replicate n v) hp (by rw [List.length_replicate]; exact hn)
  simp only [↓reduceIte] at d1
  have st : u.run [Blk.c 0x10 (List.replicate n v), .c 0x04 [], .c 0x12 r, .c 0x02 o]
      = (u.dtm 0 (List.replicate n v)).run [Blk.c 0x04 [], .c 0x12 r, .c 0x02 o] := by
    simp (config := {decide := true}) only [Uc.run, List.foldl, Uc.feed, hu, ↓reduceIte, Bool.false_eq_true]
  have k := uc_refresh_bracket_keeps_planes (u.dtm 0 (List.replicate n v)) r o (by rw [d1.2.2.2.2.2.1]; exact hu)
  rw [st, k.1, k.2.2, d1.1, d1.2.2.1]
  refine ⟨rfl, ?_⟩
  simp only [Option.map_some, List.length_replicate]

open Drivers.Epd7in3f in
theorem epd7in3f_clear_blocks (f : Feat) (d : DState) :
    blocksOf ((prog f d .clear).getD []) =
      [.c 0x10 (List.replicate (Gen.Epd7in3f.WIDTH * Gen.Epd7in3f.HEIGHT / 2) (colorsByte d.bg d.bg) ++ []),
       .c 0x04 [], .c 0x12 [0x00], .c 0x02 [0x00]] := rfl

open Drivers.Epd7in3f in
/-- **epd7in3f `clear_frame`, EVERY background colour (all eight, and any other index), any awake controller
    outside partial mode**: the 4-bpp plane ends uniformly equal to the colour's packed nibble pair, written
    by exactly one block of the plane's size -/
theorem epd7in3f_clear_uniform (f : Feat) (d : DState) (u : Uc) (hu : u.asleep = false) (hp : u.partialOn = false)
    (h1 : u.p1.size = Gen.Epd7in3f.WIDTH * Gen.Epd7in3f.HEIGHT / 2) :
    (u.run (blocksOf ((prog f d .clear).getD []))).p1.toList
      = List.replicate (Gen.Epd7in3f.WIDTH * Gen.Epd7in3f.HEIGHT / 2) (colorsByte d.bg d.bg) ∧
    ((u.run (blocksOf ((prog f d .clear).getD []))).epis.head?.map fun e => (e.plane, e.count, e.stored))
      = some (0, Gen.Epd7in3f.WIDTH * Gen.Epd7in3f.HEIGHT / 2, Gen.Epd7in3f.WIDTH * Gen.Epd7in3f.HEIGHT / 2) := by
  rw [epd7in3f_clear_blocks, List.append_nil]
  exact uc_fill_then_bracket u _ _ [0x00] [0x00] hu hp h1.symm

/-- the plane size in the hypothesis is the panel's: 800 x 480 at 4 bpp -/
example : Gen.Epd7in3f.WIDTH * Gen.Epd7in3f.HEIGHT / 2 = 192000 := by decide

/-- the VCOM / data-interval block and the resolution block change no plane, no mode -/
theorem feed_50_61 (u : Uc) (a r : List UInt8) (hu : u.asleep = false) :
    (u.run [Blk.c 0x50 a, .c 0x61 r]).asleep = false ∧ (u.run [Blk.c 0x50 a, .c 0x61 r]).partialOn = u.partialOn ∧
    (u.run [Blk.c 0x50 a, .c 0x61 r]).p1 = u.p1 ∧ (u.run [Blk.c 0x50 a, .c 0x61 r]).epis = u.epis := by
  simp (config := {decide := true}) only [Uc.run, List.foldl, Uc.feed, Uc.regStep, hu, ↓reduceIte, Bool.false_eq_true, and_false, and_self]

open Drivers.Epd5in65f in
theorem epd5in65f_clear_blocks (f : Feat) (d : DState) :
    blocksOf ((prog f d .clear).getD []) =
      [.c 0x50 [(0x17 : UInt8) ||| u8 ((d.bg &&& 0b111) <<< 5)],
       .c 0x61 [shr8 Gen.Epd5in65f.WIDTH 8, u8 Gen.Epd5in65f.WIDTH, shr8 Gen.Epd5in65f.HEIGHT 8, u8 Gen.Epd5in65f.HEIGHT],
       .c 0x10 (List.replicate (Gen.Epd5in65f.WIDTH * Gen.Epd5in65f.HEIGHT / 2) (colorsByte d.bg d.bg) ++ []),
       .c 0x04 [], .c 0x12 [], .c 0x02 []] := rfl

open Drivers.Epd5in65f in
/-- **epd5in65f `clear_frame`, every background colour, any awake controller outside partial mode** -/
theorem epd5in65f_clear_uniform (f : Feat) (d : DState) (u : Uc) (hu : u.asleep = false) (hp : u.partialOn = false)
    (h1 : u.p1.size = Gen.Epd5in65f.WIDTH * Gen.Epd5in65f.HEIGHT / 2) :
    (u.run (blocksOf ((prog f d .clear).getD []))).p1.toList
      = List.replicate (Gen.Epd5in65f.WIDTH * Gen.Epd5in65f.HEIGHT / 2) (colorsByte d.bg d.bg) ∧
    ((u.run (blocksOf ((prog f d .clear).getD []))).epis.head?.map fun e => (e.plane, e.count, e.stored))
      = some (0, Gen.Epd5in65f.WIDTH * Gen.Epd5in65f.HEIGHT / 2, Gen.Epd5in65f.WIDTH * Gen.Epd5in65f.HEIGHT / 2) := by
  rw [epd5in65f_clear_blocks, List.append_nil]
  have q := feed_50_61 u [(0x17 : UInt8) ||| u8 ((d.bg &&& 0b111) <<< 5)]
    [shr8 Gen.Epd5in65f.WIDTH 8, u8 Gen.Epd5in65f.WIDTH, shr8 Gen.Epd5in65f.HEIGHT 8, u8 Gen.Epd5in65f.HEIGHT] hu
  have r : ∀ (a b : Blk) (rest : List Blk), u.run (a :: b :: rest) = (u.run [a, b]).run rest := fun _ _ _ => rfl
  rw [r]
  exact uc_fill_then_bracket _ _ _ [] [] q.1 (by rw [q.2.1, hp]) (by rw [q.2.2.1, h1])

/-- PartialOut and the two waveform tables: partial mode is left, no plane is touched -/
theorem feed_92_luts (u : Uc) (l1 l2 : List UInt8) (hu : u.asleep = false) :
    (u.run [Blk.c 0x92 [], .c 0x23 l1, .c 0x24 l2]).asleep = false ∧ (u.run [Blk.c 0x92 [], .c 0x23 l1, .c 0x24 l2]).partialOn = false ∧
    (u.run [Blk.c 0x92 [], .c 0x23 l1, .c 0x24 l2]).p1 = u.p1 ∧ (u.run [Blk.c 0x92 [], .c 0x23 l1, .c 0x24 l2]).p2 = u.p2 := by
  simp (config := {decide := true}) only [Uc.run, List.foldl, Uc.feed, Uc.regStep, hu, ↓reduceIte, Bool.false_eq_true, and_false, and_self]

set_option maxRecDepth 8000 in
open Drivers.Epd1in02 in
/-- **epd1in02 `clear_frame`, every background colour**, from any awake controller that is outside partial mode
    whenever the driver believes it is (`refresh = Full`; in `Quick` the call itself leaves partial mode):
    the new-image plane ends uniformly the colour's byte, the old-image plane its complement, each
    written by exactly one block of the plane's size -/
theorem epd1in02_clear_uniform (f : Feat) (d : DState) (u : Uc) (hu : u.asleep = false)
    (hc : d.refresh = .full → u.partialOn = false)
    (h1 : u.p1.size = Gen.Epd1in02.NUMBER_OF_BYTES) (h2 : u.p2.size = Gen.Epd1in02.NUMBER_OF_BYTES) :
    (u.run (blocksOf ((prog f d .clear).getD []))).p1.toList = List.replicate Gen.Epd1in02.NUMBER_OF_BYTES (~~~ byteValue d.bg) ∧
    (u.run (blocksOf ((prog f d .clear).getD []))).p2.toList = List.replicate Gen.Epd1in02.NUMBER_OF_BYTES (byteValue d.bg) := by
  cases hr : d.refresh with
  | full =>
    have hb : blocksOf ((prog f d .clear).getD []) =
        [.c 0x10 (List.replicate Gen.Epd1in02.NUMBER_OF_BYTES (~~~ byteValue d.bg) ++ []),
         .c 0x13 (List.replicate Gen.Epd1in02.NUMBER_OF_BYTES (byteValue d.bg) ++ [])] := by
      simp only [prog, clearFrame, setFullMode, hr, ne_eq, not_true_eq_false, if_false, Option.getD_some, List.append_nil]
      rfl
    rw [hb]
    simp only [List.append_nil]
    have k := uc_two_fills u (~~~ byteValue d.bg) (byteValue d.bg) Gen.Epd1in02.NUMBER_OF_BYTES Gen.Epd1in02.NUMBER_OF_BYTES hu (hc hr) h1.symm h2.symm
    exact ⟨k.1, k.2.1⟩
  | quick =>
    have hb : blocksOf ((prog f d .clear).getD []) =
        [.c 0x92 [], .c 0x23 (Gen.Epd1in02.LUT_FULL_UPDATE_WHITE ++ []), .c 0x24 (Gen.Epd1in02.LUT_FULL_UPDATE_BLACK ++ []),
         .c 0x10 (List.replicate Gen.Epd1in02.NUMBER_OF_BYTES (~~~ byteValue d.bg) ++ []),
         .c 0x13 (List.replicate Gen.Epd1in02.NUMBER_OF_BYTES (byteValue d.bg) ++ [])] := by
      simp only [prog, clearFrame, setFullMode, setLut, hr, ne_eq, reduceCtorEq, not_false_eq_true, if_true, Option.getD_some]
      rfl
    rw [hb]
    simp only [List.append_nil]
    have q := feed_92_luts u Gen.Epd1in02.LUT_FULL_UPDATE_WHITE Gen.Epd1in02.LUT_FULL_UPDATE_BLACK hu
    have r : ∀ (a b c : Blk) (rest : List Blk), u.run (a :: b :: c :: rest) = (u.run [a, b, c]).run rest := fun _ _ _ _ => rfl
    rw [r]
    have k := uc_two_fills _ (~~~ byteValue d.bg) (byteValue d.bg) Gen.Epd1in02.NUMBER_OF_BYTES Gen.Epd1in02.NUMBER_OF_BYTES q.1 q.2.1 (by rw [q.2.2.1]; exact h1.symm) (by rw [q.2.2.2]; exact h2.symm)
    exact ⟨k.1, k.2.1⟩

end EpdVerif.Props.C07
