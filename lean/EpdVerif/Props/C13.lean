import EpdVerif.Aliases
import EpdVerif.Props.C03
/-!
# C13 — buffer sizing

* `buffer_len` is rows × padded bytes per row, for every width and height.
* The 27 shipped `Display*` aliases (a GENERATED table — re-checked against the alias
  declarations and the drivers' `WIDTH`/`HEIGHT` of the current source on every run): dimensions
  equal the driver's, byte length = planes × rows × padded bytes per row, the two halves of a
  tri-colour buffer have equal length.
* `VarDisplay::new` accepts a slice exactly when it is at least `buffer_size()` long and
  exposes exactly that many bytes.  For the single-plane colour types `buffer_size()` is what
  every plane needs and every pixel of an accepted buffer can be drawn (unbounded, from C03).

A genuine defect found by this development is repaired in /repo (fix 9b3cce6): for `TriColor`
the accepted size was `h * lineBytes(w, 2)`, smaller than the two planes `2 * h * lineBytes(w, 1)`
whenever `w % 8 ∈ 1..=4`; such a buffer was accepted, its halves had different lengths for odd
sizes, and drawing on its lower rows panicked.  All statements below are now unconditional.
-/
namespace EpdVerif.Props.C13
open EpdVerif

theorem bufferLen_rows_times_padded (w h : Nat) : bufferLen w h = h * lineBytes w 1 := by
  unfold bufferLen lineBytes; rw [Nat.mul_one, Nat.mul_comm]

/-- the padded row holds all `w` pixels and wastes fewer than 8 -/
theorem lineBytes_tight (w : Nat) : w ≤ 8 * lineBytes w 1 ∧ 8 * lineBytes w 1 < w + 8 := by
  unfold lineBytes; omega

/-- every shipped alias: driver dimensions, exact byte count, equal halves -/
theorem aliases_sized : ∀ a ∈ aliases,
    a.w = a.drvW ∧ a.h = a.drvH ∧ a.bytecount = requiredLen a.w a.h a.ck ∧
    (a.ck.planes = 2 → a.bytecount % 2 = 0 ∧ a.bytecount / 2 = a.h * lineBytes a.w 1) := by
  decide

theorem aliases_count : aliases.length = 27 := by decide

/-- consequently every in-bounds pixel of every shipped buffer type can be drawn, in every
    rotation, without panic (instances of C03's main theorems) -/
theorem aliases_drawable : ∀ a ∈ aliases, a.bytecount = requiredLen a.w a.h a.ck ∧
    (a.ck.bpp = 1 ∨ a.ck.bpp = 4) ∧ (a.ck.planes = 1 ∨ a.ck = kindTri) := by
  decide

/-- `VarDisplay::new` accepts exactly the slices of at least `buffer_size()` bytes -/
theorem varNew_iff (w h : Nat) (k : ColorKind) (len : Nat) :
    varNewOk w h k len = true ↔ varBufferSize w h k ≤ len := by
  unfold varNewOk; simp [Nat.not_lt]

/-- `buffer_size()` is exactly what every plane of the geometry needs — every colour type,
    every width and height (after fix 9b3cce6; before it this failed for `TriColor` with
    `w % 8 ∈ 1..=4`: 12x3 was accepted with 9 bytes instead of 12, halves 4 and 5) -/
theorem varSize_exact (w h : Nat) (k : ColorKind) : varBufferSize w h k = requiredLen w h k := by
  unfold varBufferSize requiredLen; rw [Nat.mul_comm]

/-- so: accepted exactly when the supplied slice can hold every plane -/
theorem varNew_iff_required (w h : Nat) (k : ColorKind) (len : Nat) :
    varNewOk w h k len = true ↔ requiredLen w h k ≤ len := by
  rw [varNew_iff, varSize_exact]

/-- the two halves `bw_buffer()` / `chromatic_buffer()` of a tri-colour buffer have equal length -/
theorem var_tri_halves (w h : Nat) :
    varBufferSize w h kindTri / 2 = varBufferSize w h kindTri - varBufferSize w h kindTri / 2 ∧
    varBufferSize w h kindTri / 2 = h * lineBytes w 1 := by
  have : varBufferSize w h kindTri = (h * lineBytes w 1) * 2 := rfl
  omega

/-- every pixel of an accepted buffer can be drawn, in every rotation, from every point of the
    plane, for every colour type (no panic): the slice `buffer()` handed to `set_pixel` has
    exactly `requiredLen` bytes -/
theorem var_drawable_single (buf : Array UInt8) (w h : Nat) (rot : Rotation) (k : ColorKind)
    (hb : k.bpp = 1 ∨ k.bpp = 4) (hp : k.planes = 1) (bm : Nat → UInt8 × Nat) (px py : Int)
    (hw : w < 2147483648) (hh : h < 2147483648) (hl : buf.size = varBufferSize w h k) :
    (setPixel buf w h rot k bm px py).2 = false :=
  (C03.setPixel_single buf w h rot k hb hp bm px py hw hh (by rw [hl, varSize_exact])).1

theorem var_drawable_tri (buf : Array UInt8) (w h : Nat) (rot : Rotation)
    (bm : Nat → UInt8 × Nat) (px py : Int)
    (hw : w < 2147483648) (hh : h < 2147483648) (hl : buf.size = varBufferSize w h kindTri) :
    (setPixel buf w h rot kindTri bm px py).2 = false :=
  (C03.setPixel_tri buf w h rot bm px py hw hh (by rw [hl, varSize_exact])).1

example : (aliases.find? (·.panel == "epd2in13b_v4")).map (·.bytecount) = some 8000 := by decide

end EpdVerif.Props.C13
