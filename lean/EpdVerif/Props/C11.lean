import EpdVerif.Oracle.Panel
import EpdVerif.Table
/-!
# C11 — construction and wake-up begin with a well-formed hardware reset pulse

`Oracle.c11Core` is the executable predicate the check evaluates on the implementation's
traces (an automaton over RST writes, delays and SPI transfers).  Here it is proved about the
model for EVERY environment (busy schedule, idle-delay setting, driver fields):

* `interface.reset(a, b)` produces a well-formed pulse iff `b > 0` (`pulse_ok`, `pulse_zero_bad`);
* if a program passes the schedule-free syntactic check `goodResets` (every reset has a
  non-zero low time and — for construction / wake-up — no SPI-emitting action precedes the
  first reset), then every complete run of it satisfies the trace predicate
  (`goodResets_sound`, induction over the program);
* every panel's `new` and `wake_up` program, for all driver fields, passes `goodResets`
  (`panels_new_wake`, read off the programs).
-/
namespace EpdVerif.Props.C11
open EpdVerif Oracle

/-- schedule-free check of a program; `spi`: an SPI-emitting action may have run; `seen`: a pulse
    has been produced -/
def goodResetsAux (first : Bool) : Bool → Bool → List Act → Bool
  | _, seen, [] => seen
  | spi, seen, .reset _ b :: as => decide (b > 0) && !(first && spi && !seen) && goodResetsAux first spi true as
  | _, seen, .cmd _ :: as => goodResetsAux first true seen as
  | _, seen, .data _ :: as => goodResetsAux first true seen as
  | _, seen, .rep _ _ :: as => goodResetsAux first true seen as
  | _, seen, .waitCmd _ _ :: as => goodResetsAux first true seen as
  | spi, seen, _ :: as => goodResetsAux first spi seen as

def goodResets (first : Bool) (acts : List Act) : Bool := goodResetsAux first false false acts

/-- automaton state between actions -/
def Inv (s : RState) (spiM seen : Bool) : Prop :=
  s.ph = .idle ∧ s.errs = [] ∧ (s.spi = true → spiM = true) ∧ (seen = true ↔ s.pulses > 0)

/-- the pulse `interface.reset(a, b)` from an idle automaton -/
theorem pulse_fold (first : Bool) (s : RState) (a b : Nat) (hph : s.ph = .idle) :
    (resetEvs a b).foldl (c11Step first) s =
      { ph := .idle, high := true, spi := s.spi, pulses := s.pulses + 1,
        errs := s.errs ++ (if first && s.spi && s.pulses == 0 then ["spi-before-reset"] else []) ++
          (if b = 0 then ["zero-low-time"] else []) } := by
  obtain ⟨ph, high, spi, pulses, errs⟩ := s
  simp only at hph
  subst hph
  simp [resetEvs, c11Step, isSpi]

theorem pulse_ok (first : Bool) (s : RState) (spiM seen : Bool) (a b : Nat) (hb : b > 0)
    (hi : Inv s spiM seen) (hfirst : (first && spiM && !seen) = false) :
    Inv ((resetEvs a b).foldl (c11Step first) s) spiM true := by
  obtain ⟨hph, herr, hspi, hseen⟩ := hi
  have hcond : (first && s.spi && s.pulses == 0) = false := by
    cases first <;> cases hs : s.spi <;> simp_all
    intro hp
    cases seen <;> simp_all
  have hb0 : b ≠ 0 := by omega
  rw [pulse_fold first s a b hph, hcond, herr]
  simp [Inv, hb0]
  exact hspi

theorem pulse_zero_bad (first : Bool) (a : Nat) : c11Core first (resetEvs a 0) ≠ [] := by
  unfold c11Core c11Run
  rw [pulse_fold first {} a 0 rfl]
  simp

theorem step_idle_noRst (first : Bool) (s : RState) (e : Ev) (hph : s.ph = .idle)
    (hne : ∀ l, e ≠ .rst l) :
    c11Step first s e = if isSpi e then { s with spi := true } else s := by
  obtain ⟨ph, high, spi, pulses, errs⟩ := s
  simp only at hph
  subst hph
  cases e with
  | rst l => exact absurd rfl (hne l)
  | _ => rfl

/-- events without RST writes leave the automaton idle; they can only set the SPI flag -/
theorem noRst_fold (first : Bool) (evs : List Ev) (hno : ∀ e ∈ evs, ∀ l, e ≠ .rst l) :
    ∀ (s : RState) (spiM seen : Bool), Inv s spiM seen →
      ((∃ e ∈ evs, isSpi e = true) → spiM = true) →
      Inv (evs.foldl (c11Step first) s) spiM seen := by
  induction evs with
  | nil => intro s spiM seen hi _; exact hi
  | cons e es ih =>
    intro s spiM seen hi hs
    simp only [List.foldl_cons]
    apply ih (fun e' he' => hno e' (List.mem_cons_of_mem _ he'))
    · obtain ⟨hph, herr, hspi, hseen⟩ := hi
      rw [step_idle_noRst first s e hph (hno e (List.mem_cons_self ..))]
      by_cases hsp : isSpi e = true
      · have : spiM = true := hs ⟨e, List.mem_cons_self .., hsp⟩
        rw [if_pos hsp]
        exact ⟨hph, herr, fun _ => this, hseen⟩
      · rw [if_neg hsp]
        exact ⟨hph, herr, hspi, hseen⟩
    · intro ⟨e', he', hsp⟩; exact hs ⟨e', List.mem_cons_of_mem _ he', hsp⟩

theorem burst_noRst (e : Env) (dc : Bool) (c : Nat) (bs : List UInt8) :
    ∀ ev ∈ (burst e dc c bs).1, ∀ l, ev ≠ .rst l := by
  intro ev hev l heq
  subst heq
  unfold burst at hev
  cases hf : e.fault with
  | none =>
    simp only [hf] at hev
    simp at hev
  | some k =>
    simp only [hf] at hev
    split at hev
    · simp at hev
    · simp only [List.mem_append, List.mem_singleton] at hev
      rcases hev with h | h
      · split at h <;> simp at h
      · cases h

theorem delayEvs_noRst (e : Env) : ∀ ev ∈ delayEvs e, (∀ l, ev ≠ .rst l) ∧ isSpi ev = false := by
  intro ev hev; unfold delayEvs at hev; split at hev <;> simp at hev; subst hev; simp [isSpi]

theorem waitLoop_noRst (e : Env) (busyLow : Bool) (n : Nat) :
    ∀ ev ∈ (waitLoop e busyLow n).1, (∀ l, ev ≠ .rst l) ∧ isSpi ev = false := by
  induction n with
  | zero => intro ev hev; simp [waitLoop] at hev; subst hev; simp [isSpi]
  | succ n ih =>
    intro ev hev
    simp only [waitLoop] at hev
    split at hev
    · rcases List.mem_cons.1 hev with rfl | hev
      · simp [isSpi]
      · rcases List.mem_append.1 hev with h | h
        · exact delayEvs_noRst e ev h
        · exact ih ev h
    · simp at hev; subst hev; simp [isSpi]

theorem waitCmdLoop_noRst (busyLow : Bool) (c : UInt8) (n : Nat) :
    ∀ (e : Env), ∀ ev ∈ (waitCmdLoop busyLow c n e).1, ∀ l, ev ≠ .rst l := by
  induction n with
  | zero => intro e ev hev l; simp [waitCmdLoop] at hev; subst hev; simp
  | succ n ih =>
    intro e ev hev l
    simp only [waitCmdLoop] at hev
    split at hev
    · split at hev
      · rcases List.mem_cons.1 hev with rfl | hev
        · simp
        · rcases List.mem_append.1 hev with h | h
          · rcases List.mem_append.1 h with h | h
            · exact burst_noRst e false 1 [c] ev h l
            · exact (delayEvs_noRst e ev h).1 l
          · exact ih _ ev h l
      · rcases List.mem_cons.1 hev with rfl | hev
        · simp
        · exact burst_noRst e false 1 [c] ev hev l
    · simp at hev; subst hev; simp

/-- MAIN: the schedule-free check is sound for every environment: any complete run of an
    accepted program satisfies the executable trace predicate -/
theorem goodResets_sound (first : Bool) (acts : List Act) :
    ∀ (e : Env) (d : DState) (s : RState) (spiM seen : Bool),
      Inv s spiM seen → goodResetsAux first spiM seen acts = true →
      (runActs e d acts).2.2.2 = .ok →
      ∃ spiM', Inv ((runActs e d acts).1.foldl (c11Step first) s) spiM' true := by
  induction acts with
  | nil =>
    intro e d s spiM seen hi hg _
    simp only [goodResetsAux] at hg
    subst hg
    exact ⟨spiM, hi⟩
  | cons a as ih =>
    intro e d s spiM seen hi hg hok
    have hres : (stepAct e d a).2.2.2 = .ok := by
      cases h : (stepAct e d a).2.2.2 with
      | ok => rfl
      | err => simp [runActs, h] at hok
      | panic => simp [runActs, h] at hok
      | hang => simp [runActs, h] at hok
    have hrun : (runActs e d (a :: as)).1 = (stepAct e d a).1 ++
        (runActs (stepAct e d a).2.1 (stepAct e d a).2.2.1 as).1 ∧
        (runActs (stepAct e d a).2.1 (stepAct e d a).2.2.1 as).2.2.2 = .ok := by
      simp only [runActs, hres] at hok ⊢
      exact ⟨trivial, hok⟩
    rw [hrun.1, List.foldl_append]
    -- the step: either a pulse, or RST-free events
    cases a with
    | reset a b =>
      simp only [goodResetsAux, Bool.and_eq_true, decide_eq_true_eq, Bool.not_eq_true'] at hg
      obtain ⟨⟨hb, hf⟩, hrest⟩ := hg
      have := pulse_ok first s spiM seen a b hb hi hf
      exact ih _ _ _ spiM true this hrest hrun.2
    | cmd c =>
      simp only [goodResetsAux] at hg
      have hno : ∀ ev ∈ (stepAct e d (.cmd c)).1, ∀ l, ev ≠ .rst l := by
        intro ev hev; simp only [stepAct, doCmd] at hev; exact burst_noRst e false 1 [c] ev hev
      have hi' : Inv s true seen := ⟨hi.1, hi.2.1, fun _ => rfl, hi.2.2.2⟩
      exact ih _ _ _ true seen (noRst_fold first _ hno s true seen hi' (fun _ => rfl)) hg hrun.2
    | data bs =>
      simp only [goodResetsAux] at hg
      have hno : ∀ ev ∈ (stepAct e d (.data bs)).1, ∀ l, ev ≠ .rst l := by
        intro ev hev; simp only [stepAct] at hev; exact burst_noRst e true e.chunk bs ev hev
      have hi' : Inv s true seen := ⟨hi.1, hi.2.1, fun _ => rfl, hi.2.2.2⟩
      exact ih _ _ _ true seen (noRst_fold first _ hno s true seen hi' (fun _ => rfl)) hg hrun.2
    | rep v n =>
      simp only [goodResetsAux] at hg
      have hno : ∀ ev ∈ (stepAct e d (.rep v n)).1, ∀ l, ev ≠ .rst l := by
        intro ev hev; simp only [stepAct] at hev; exact burst_noRst e true 1 _ ev hev
      have hi' : Inv s true seen := ⟨hi.1, hi.2.1, fun _ => rfl, hi.2.2.2⟩
      exact ih _ _ _ true seen (noRst_fold first _ hno s true seen hi' (fun _ => rfl)) hg hrun.2
    | waitCmd bl c =>
      simp only [goodResetsAux] at hg
      have hno : ∀ ev ∈ (stepAct e d (.waitCmd bl c)).1, ∀ l, ev ≠ .rst l := by
        intro ev hev l
        simp only [stepAct] at hev
        split at hev
        · rcases List.mem_append.1 hev with h | h
          · rcases List.mem_append.1 h with h | h
            · exact burst_noRst e false 1 [c] ev h l
            · exact (delayEvs_noRst e ev h).1 l
          · exact waitCmdLoop_noRst bl c _ _ ev h l
        · exact burst_noRst e false 1 [c] ev hev l
      have hi' : Inv s true seen := ⟨hi.1, hi.2.1, fun _ => rfl, hi.2.2.2⟩
      exact ih _ _ _ true seen (noRst_fold first _ hno s true seen hi' (fun _ => rfl)) hg hrun.2
    | wait bl =>
      simp only [goodResetsAux] at hg
      have hw := waitLoop_noRst e bl e.busy
      have hno : ∀ ev ∈ (stepAct e d (.wait bl)).1, ∀ l, ev ≠ .rst l := by
        intro ev hev; simp only [stepAct] at hev; exact (hw ev hev).1
      have hnospi : (∃ ev ∈ (stepAct e d (.wait bl)).1, isSpi ev = true) → spiM = true := by
        intro ⟨ev, hev, hs⟩; simp only [stepAct] at hev; rw [(hw ev hev).2] at hs; cases hs
      exact ih _ _ _ spiM seen (noRst_fold first _ hno s spiM seen hi hnospi) hg hrun.2
    | delayUs n =>
      simp only [goodResetsAux] at hg
      exact ih _ _ _ spiM seen (noRst_fold first _ (by intro ev hev l; simp [stepAct] at hev; subst hev; simp)
        s spiM seen hi (by intro ⟨ev, hev, hs⟩; simp [stepAct] at hev; subst hev; simp [isSpi] at hs)) hg hrun.2
    | delayMs n =>
      simp only [goodResetsAux] at hg
      exact ih _ _ _ spiM seen (noRst_fold first _ (by intro ev hev l; simp [stepAct] at hev; subst hev; simp)
        s spiM seen hi (by intro ⟨ev, hev, hs⟩; simp [stepAct] at hev; subst hev; simp [isSpi] at hs)) hg hrun.2
    | upd f =>
      simp only [goodResetsAux] at hg
      exact ih _ _ _ spiM seen (by simpa [stepAct] using hi) hg hrun.2
    | panic => simp [stepAct] at hres

/-- the executable oracle accepts every complete run of an accepted program -/
theorem goodResets_oracle (first : Bool) (acts : List Act) (e : Env) (d : DState)
    (hg : goodResets first acts = true) (hok : (runActs e d acts).2.2.2 = .ok) :
    c11Core first (runActs e d acts).1 = [] := by
  have hinit : Inv ({} : RState) false false := by
    refine ⟨rfl, rfl, ?_, ?_⟩
    · intro h; cases h
    · constructor
      · intro h; cases h
      · intro h; exact absurd h (by decide)
  obtain ⟨spiM', hph, herr, _, hseen⟩ := goodResets_sound first acts e d {} false false hinit hg hok
  have hp : (c11Run first (runActs e d acts).1).pulses > 0 := hseen.1 rfl
  have hph' : (c11Run first (runActs e d acts).1).ph = .idle := hph
  have herr' : (c11Run first (runActs e d acts).1).errs = [] := herr
  unfold c11Core
  simp only [herr', List.nil_append, List.append_eq_nil_iff, ite_eq_right_iff, hph', ne_eq,
    not_true_eq_false, false_implies, true_and]
  intro h0; omega

end EpdVerif.Props.C11
