import EpdVerif.Big
/-!
# C05 on the 12.48in driver — `wait_ready` returns only when all four controllers are idle

About the model of `src/epd12in48b_v2/mod.rs` in `EpdVerif/Big.lean` (tied to the source by the
correspondence runs of `./vcheck C05`, which contain that driver with every controller in turn as
the slow one).  The panel's BUSY pins are low while busy; an episode of `busy` polls is pending
in the environment; with `slow = some k` only controller k's pin follows it, otherwise all do.
For EVERY pending duration and every choice of the slow controller:

* `busyChips_idle` — `busy_chips(CS_ALL)` reports "nobody busy" only if no poll is pending;
* `busyChips_progress` — a round that reports somebody busy consumed at least one pending poll;
* `waitReady_idle` — when `wait_ready` returns (does not run out of fuel) nothing is pending;
* `waitReady_terminates` — with fuel `busy + 1` or more it returns: the loop is bounded by the
  episode's length (it never spins on an idle panel: `waitReady_idle_once` — on an idle panel it
  is exactly one round of four reads and no delay);
* `waitReady_delays` — every round that found a controller busy is followed by the 200 ms delay.
-/
namespace EpdVerif.Props.C05
open EpdVerif EpdVerif.Big

/-- the slow controller, if any, is one of the four -/
def SlowOk (e : BEnv) : Prop := e.slow = none ∨ e.slow = some 0 ∨ e.slow = some 1 ∨ e.slow = some 2 ∨ e.slow = some 3

theorem pollOnce_env (e : BEnv) (pin : Nat) :
    (pollOnce e pin).2.slow = e.slow ∧ (pollOnce e pin).2.busyLvl = e.busyLvl ∧ (pollOnce e pin).2.busy ≤ e.busy := by
  unfold pollOnce
  split
  · exact ⟨rfl, rfl, Nat.le_refl _⟩
  · split
    · exact ⟨rfl, rfl, Nat.sub_le _ _⟩
    · exact ⟨rfl, rfl, Nat.le_refl _⟩

/-- a read that sees "busy" (pin low) consumed one pending poll -/
theorem pollOnce_busy (e : BEnv) (pin : Nat) (hl : e.busyLvl = false) (h : (pollOnce e pin).1 = false) :
    (pollOnce e pin).2.busy + 1 = e.busy := by
  unfold pollOnce at h ⊢
  split
  · rename_i hc; rw [if_pos hc] at h; simp [hl] at h
  · rename_i hc
    rw [if_neg hc] at h
    split
    · rename_i hb; simp only; omega
    · rename_i hb; rw [if_neg hb] at h; simp [hl] at h

/-- a read that sees "idle" left the environment alone; and if this pin follows the episode, nothing is pending -/
theorem pollOnce_idle (e : BEnv) (pin : Nat) (hl : e.busyLvl = false) (h : (pollOnce e pin).1 = true) :
    (pollOnce e pin).2 = e ∧ ((e.slow = none ∨ e.slow = some pin) → e.busy = 0) := by
  unfold pollOnce at h ⊢
  split
  · rename_i hc
    refine ⟨rfl, ?_⟩
    intro hs
    rcases hs with hs | hs
    · rw [hs] at hc; simp at hc
    · exact absurd hs hc.2
  · rename_i hc
    rw [if_neg hc] at h
    split
    · rename_i hb; rw [if_pos hb] at h; simp [hl] at h
    · rename_i hb; exact ⟨rfl, fun _ => by omega⟩

theorem busyChips_env (e : BEnv) :
    (busyChips e).2.2.slow = e.slow ∧ (busyChips e).2.2.busyLvl = e.busyLvl ∧ (busyChips e).2.2.busy ≤ e.busy := by
  unfold busyChips
  simp only
  have h1 := pollOnce_env e 0
  have h2 := pollOnce_env (pollOnce e 0).2 1
  have h3 := pollOnce_env (pollOnce (pollOnce e 0).2 1).2 2
  have h4 := pollOnce_env (pollOnce (pollOnce (pollOnce e 0).2 1).2 2).2 3
  refine ⟨by rw [h4.1, h3.1, h2.1, h1.1], by rw [h4.2.1, h3.2.1, h2.2.1, h1.2.1], ?_⟩
  exact Nat.le_trans h4.2.2 (Nat.le_trans h3.2.2 (Nat.le_trans h2.2.2 h1.2.2))

/-- "nobody busy" is reported only when no poll is pending -/
theorem busyChips_idle (e : BEnv) (hl : e.busyLvl = false) (hs : SlowOk e) (h : (busyChips e).2.1 = false) :
    e.busy = 0 ∧ (busyChips e).2.2 = e := by
  unfold busyChips at h ⊢
  simp only [Bool.or_eq_false_iff, Bool.not_eq_false'] at h ⊢
  obtain ⟨⟨⟨a1, a2⟩, a3⟩, a4⟩ := h
  have i1 := pollOnce_idle e 0 hl a1
  rw [i1.1] at a2 a3 a4 ⊢
  have i2 := pollOnce_idle e 1 hl a2
  rw [i2.1] at a3 a4 ⊢
  have i3 := pollOnce_idle e 2 hl a3
  rw [i3.1] at a4 ⊢
  have i4 := pollOnce_idle e 3 hl a4
  rw [i4.1]
  refine ⟨?_, rfl⟩
  rcases hs with h0 | h0 | h0 | h0 | h0
  · exact i1.2 (Or.inl h0)
  · exact i1.2 (Or.inr h0)
  · exact i2.2 (Or.inr h0)
  · exact i3.2 (Or.inr h0)
  · exact i4.2 (Or.inr h0)

/-- a round that reports somebody busy consumed at least one pending poll -/
theorem busyChips_progress (e : BEnv) (hl : e.busyLvl = false) (h : (busyChips e).2.1 = true) :
    (busyChips e).2.2.busy < e.busy := by
  unfold busyChips at h ⊢
  simp only at h ⊢
  have e1 := pollOnce_env e 0
  have e2 := pollOnce_env (pollOnce e 0).2 1
  have e3 := pollOnce_env (pollOnce (pollOnce e 0).2 1).2 2
  have e4 := pollOnce_env (pollOnce (pollOnce (pollOnce e 0).2 1).2 2).2 3
  have l1 : (pollOnce e 0).2.busyLvl = false := by rw [e1.2.1]; exact hl
  have l2 : (pollOnce (pollOnce e 0).2 1).2.busyLvl = false := by rw [e2.2.1]; exact l1
  have l3 : (pollOnce (pollOnce (pollOnce e 0).2 1).2 2).2.busyLvl = false := by rw [e3.2.1]; exact l2
  by_cases a1 : (pollOnce e 0).1 = false
  · have := pollOnce_busy e 0 hl a1; omega
  · by_cases a2 : (pollOnce (pollOnce e 0).2 1).1 = false
    · have := pollOnce_busy _ 1 l1 a2; omega
    · by_cases a3 : (pollOnce (pollOnce (pollOnce e 0).2 1).2 2).1 = false
      · have := pollOnce_busy _ 2 l2 a3; omega
      · by_cases a4 : (pollOnce (pollOnce (pollOnce (pollOnce e 0).2 1).2 2).2 3).1 = false
        · have := pollOnce_busy _ 3 l3 a4; omega
        · simp only [Bool.not_eq_false] at a1 a2 a3 a4
          rw [a1, a2, a3, a4] at h
          simp at h

/-- when `wait_ready` returns, nothing is pending -/
theorem waitReady_idle : ∀ (fuel : Nat) (e : BEnv), e.busyLvl = false → SlowOk e →
    (waitReady fuel e).2.2 = false → (waitReady fuel e).2.1.busy = 0
  | 0, e, _, _, h => by simp [waitReady] at h
  | fuel + 1, e, hl, hs, h => by
    unfold waitReady at h ⊢
    simp only at h ⊢
    have env := busyChips_env e
    split
    · rename_i hb
      rw [if_pos hb] at h
      exact waitReady_idle fuel (busyChips e).2.2 (by rw [env.2.1]; exact hl)
        (by unfold SlowOk; rw [env.1]; exact hs) h
    · rename_i hb
      have := busyChips_idle e hl hs (by simpa using hb)
      rw [this.2]; exact this.1

/-- enough fuel for the episode: it returns -/
theorem waitReady_terminates : ∀ (fuel : Nat) (e : BEnv), e.busyLvl = false → e.busy < fuel →
    (waitReady fuel e).2.2 = false
  | 0, e, _, h => by omega
  | fuel + 1, e, hl, h => by
    unfold waitReady
    simp only
    have env := busyChips_env e
    split
    · rename_i hb
      have := busyChips_progress e hl hb
      exact waitReady_terminates fuel (busyChips e).2.2 (by rw [env.2.1]; exact hl) (by omega)
    · rfl

/-- the driver's own call: fuel `busy + 2` -/
theorem waitReady_act (e : BEnv) (hl : e.busyLvl = false) (hs : SlowOk e) :
    (stepB e .waitReady).2.2 = .ok ∧ (stepB e .waitReady).2.1.busy = 0 := by
  have ht := waitReady_terminates (e.busy + 2) e hl (by omega)
  have hi := waitReady_idle (e.busy + 2) e hl hs ht
  simp only [stepB, ht]
  exact ⟨by simp, hi⟩

/-- on an idle panel: one round of four reads, no delay, no spinning -/
theorem waitReady_idle_once (fuel : Nat) (e : BEnv) (hl : e.busyLvl = false) (h0 : e.busy = 0) :
    (waitReady (fuel + 1) e).1 = [.busy true 0, .busy true 1, .busy true 2, .busy true 3] := by
  have p : ∀ pin, pollOnce e pin = (true, e) := by
    intro pin
    unfold pollOnce
    split
    · simp [hl]
    · rw [if_neg (by omega)]; simp [hl]
  unfold waitReady busyChips
  simp [p]

/-- every round that found a controller busy is followed by the 200 ms delay -/
theorem waitReady_delays (fuel : Nat) (e : BEnv) (hb : (busyChips e).2.1 = true) :
    (waitReady (fuel + 1) e).1 = (busyChips e).1 ++ [BEv.delay .ms 200] ++ (waitReady fuel (busyChips e).2.2).1 := by
  rw [waitReady]
  simp only [hb, if_true]

/-! ## non-vacuity -/

example : SlowOk ({ busy := 5, slow := some 2 } : BEnv) ∧ ({ busy := 5, slow := some 2 } : BEnv).busyLvl = false := by
  refine ⟨Or.inr (Or.inr (Or.inr (Or.inl rfl))), rfl⟩

/-- with controller M2 slow for 3 polls the wait makes four rounds and three delays -/
example : ((waitReady 5 { busy := 3, slow := some 2 }).1.filter (fun ev => match ev with | .delay .. => true | _ => false)).length = 3 := by
  decide

end EpdVerif.Props.C05
