import EpdVerif.Props.Structural
/-!
# C17 — the selected refresh waveform is sticky across reload and wake-up

`Spec.lutRef` pairs every waveform register with the GENERATED table of each mode.  Per panel
and for all driver fields (`Props/Panels/*.lean`, namespace `C17`): selecting a mode uploads
that mode's tables (`*_select_full`, `*_select_quick`); a reload without a mode and `wake_up` /
construction upload the tables of the mode the driver has stored (`*_uploads_selected`).
`full_ne_quick`: wherever both sets are shipped they differ (decided on the generated tables).
Panels without an instance (2in13_v2 and 3in7 reload / wake-up, 1in02 reload) are known findings.
-/
namespace EpdVerif.Props.C17
open EpdVerif

theorem full_ne_quick : ∀ f : Feat, f ∈ [⟨false, false⟩, ⟨true, false⟩, ⟨false, true⟩] →
    ∀ name ∈ ["epd1in54", "epd2in9", "epd1in54_v2", "epd2in13_v2", "epd3in7", "epd4in2", "epd1in02"],
      Spec.lutRef f name .full ≠ Spec.lutRef f name .quick := by
  decide +kernel

/-- the reference tables have the lengths the controllers' registers take -/
theorem ref_lengths : ∀ f : Feat, f ∈ [⟨false, false⟩, ⟨true, false⟩, ⟨false, true⟩] →
    ((Spec.lutRef f "epd1in54" .full).map fun l => l.map fun x => x.2.length) = some [30] ∧
    ((Spec.lutRef f "epd4in2" .quick).map fun l => l.map fun x => x.2.length) = some [44, 42, 42, 42, 42] ∧
    ((Spec.lutRef f "epd1in54_v2" .full).map fun l => l.map fun x => x.2.length) = some [153] := by
  decide +kernel

end EpdVerif.Props.C17
