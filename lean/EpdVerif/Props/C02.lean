import EpdVerif.Props.C01
/-!
# C02 — a full-frame update is independent of the call history that preceded it

Model-level core, for EVERY previous memory content and EVERY buffer:
* UC81xx: outside partial mode the plane after a full-size data block is the block — it does not
  depend on the state the history left (`uc_history_independent`);
* SSD16xx: two controller states that agree on window, entry mode and counter position (whatever
  else the history did: RAM contents, logs, LUTs) hold the same image in the window after the
  same data block (`ssd_history_independent`);
* a hardware reset restores the addressing registers to their power-on values whatever the
  history was (`ssd_reset_restores`, `uc_reset_restores`) — so every driver whose full-frame
  path re-programs window + counter, or runs after `wake_up`, starts from a known state.
Which drivers do re-program the window (and which do not: 2in9_v2, 2in9b_v4, 2in66b, 2in9d — known
findings) is decided on bounded histories by the oracle; the per-panel invariant proof is
the stated extension point (DESIGN §6 C02).
-/
namespace EpdVerif.Props.C02
open EpdVerif

theorem uc_history_independent (u u' : Uc) (plane : Nat) (bs : List UInt8)
    (hp : u.partialOn = false) (hp' : u'.partialOn = false)
    (hl : bs.length = (if plane = 0 then u.p1 else u.p2).size)
    (hl' : bs.length = (if plane = 0 then u'.p1 else u'.p2).size) :
    (if plane = 0 then (u.dtm plane bs).p1 else (u.dtm plane bs).p2).toList =
    (if plane = 0 then (u'.dtm plane bs).p1 else (u'.dtm plane bs).p2).toList :=
  dtm_full_independent u u' plane bs hp hp' hl hl'

theorem ssd_history_independent (s s' : Ssd) (bs : List UInt8)
    (ha : s.asleep = false) (ha' : s'.asleep = false)
    (h3 : s.entry = 3) (hx : s.xs ≤ s.xe) (hy : s.ys ≤ s.ye) (hs : s.xe < s.stride) (hr : s.ye < s.rows)
    (hbw : s.bw.size = s.stride * s.rows) (hred : s.red.size = s.stride * s.rows)
    (hbw' : s'.bw.size = s'.stride * s'.rows) (hred' : s'.red.size = s'.stride * s'.rows)
    (hcx : s.cx = s.xs) (hcy : s.cy = s.ys)
    (e1 : s'.entry = s.entry) (e2 : s'.xs = s.xs) (e3 : s'.xe = s.xe) (e4 : s'.ys = s.ys) (e5 : s'.ye = s.ye)
    (e6 : s'.stride = s.stride) (e7 : s'.rows = s.rows) (e8 : s'.cx = s.cx) (e9 : s'.cy = s.cy)
    (hl : bs.length = (s.xe - s.xs + 1) * (s.ye - s.ys + 1)) (k : Nat) (hk : k < bs.length) :
    (s.feed (.c 0x24 bs)).bw[(s.ys + k / (s.xe - s.xs + 1)) * s.stride + (s.xs + k % (s.xe - s.xs + 1))]? =
    (s'.feed (.c 0x24 bs)).bw[(s.ys + k / (s.xe - s.xs + 1)) * s.stride + (s.xs + k % (s.xe - s.xs + 1))]? := by
  have h := (C01.ssd_full_frame s bs ha h3 hx hy hs hr hbw hred hcx hcy hl).1 k hk
  have h' := (C01.ssd_full_frame s' bs ha' (by rw [e1]; exact h3) (by rw [e2, e3]; exact hx)
    (by rw [e4, e5]; exact hy) (by rw [e3, e6]; exact hs) (by rw [e5, e7]; exact hr) hbw' hred'
    (by rw [e8, e2]; exact hcx) (by rw [e9, e4]; exact hcy) (by rw [e2, e3, e4, e5]; exact hl)).1 k hk
  rw [e2, e3, e4, e6] at h'
  rw [h, h']

theorem ssd_reset_restores (s : Ssd) :
    (s.feed .rst).entry = 3 ∧ (s.feed .rst).xs = 0 ∧ (s.feed .rst).xe = s.stride - 1 ∧
    (s.feed .rst).ys = 0 ∧ (s.feed .rst).ye = s.rows - 1 ∧ (s.feed .rst).cx = 0 ∧ (s.feed .rst).cy = 0 ∧
    (s.feed .rst).asleep = false ∧ (s.feed .rst).bw = s.bw ∧ (s.feed .rst).red = s.red :=
  ⟨rfl, rfl, rfl, rfl, rfl, rfl, rfl, rfl, rfl, rfl⟩

theorem uc_reset_restores (u : Uc) :
    (u.feed .rst).partialOn = false ∧ (u.feed .rst).asleep = false ∧ (u.feed .rst).powered = false ∧
    (u.feed .rst).p1 = u.p1 ∧ (u.feed .rst).p2 = u.p2 :=
  ⟨rfl, rfl, rfl, rfl, rfl⟩

end EpdVerif.Props.C02
