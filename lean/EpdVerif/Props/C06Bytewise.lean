import EpdVerif.Props.C06Win
import EpdVerif.Props.C01Bytewise
import EpdVerif.Drivers.Epd2in7b
/-!
# C06 for epd2in7b with symbolic windows (session 4)

The driver sends the 8-byte window header AND the inverted data one byte per transfer; with
`blocksOf_cmd_dataEach` (Props/C01Bytewise) the controller sees one block, and the theorem of epd2in7
carries over with the data inverted: `epd2in7b_part_window` (every window, every buffer, all clauses).
-/
namespace EpdVerif.Props.C06
open EpdVerif Uc

theorem dataEach_append (a b : List UInt8) : dataEach a ++ dataEach b = dataEach (a ++ b) := by
  unfold dataEach; rw [List.map_append]

open Drivers.Epd2in7b in
theorem epd2in7b_part_blocks (f : Feat) (d : DState) (b : Bytes) (x y w h : Nat) :
    blocksOf ((prog f d (.part b x y w h)).getD []) =
      [.c 0x14 (([shr8 x 8, u8 (x &&& 0xf8), shr8 y 8, u8 (y &&& 0xff), shr8 w 8, u8 (w &&& 0xf8), shr8 h 8, u8 (h &&& 0xff)]
          ++ b.map (fun v => ~~~v)) ++ []), .c 0x11 []] := by
  -- the wait between header and data is no wire event
  have e0 : blocksOf ((prog f d (.part b x y w h)).getD []) =
      blocksOf ([] ++ Act.cmd 0x14 :: (dataEach ([shr8 x 8, u8 (x &&& 0xf8), shr8 y 8, u8 (y &&& 0xff), shr8 w 8, u8 (w &&& 0xf8), shr8 h 8, u8 (h &&& 0xff)]
          ++ b.map (fun v => ~~~v)) ++ Act.cmd 0x11 :: [])) := by
    rw [← dataEach_append]
    unfold blocksOf
    congr 1
  rw [e0, blocksOf_cmd_dataEach]
  rfl

/-- the windowed data command followed by DataStop -/
theorem uc14_feed_stop (u : Uc) (xh xl yh yl wh wl hh hl : UInt8) (rest : List UInt8) (hu : u.asleep = false) (h14 : u.has14 = true) :
    (u.run [Blk.c 0x14 (xh :: xl :: yh :: yl :: wh :: wl :: hh :: hl :: rest), .c 0x11 []]).p1
      = (storeAt (winPos u.stride2 (word xh xl / 8) (word wh wl / 8) (word yh yl) (word hh hl)) u.p1 rest 0 0).1 ∧
    (u.run [Blk.c 0x14 (xh :: xl :: yh :: yl :: wh :: wl :: hh :: hl :: rest), .c 0x11 []]).p2 = u.p2 ∧
    ((u.run [Blk.c 0x14 (xh :: xl :: yh :: yl :: wh :: wl :: hh :: hl :: rest), .c 0x11 []]).epis.head?.map fun e => (e.plane, e.count, e.stored, e.win))
      = some (0, rest.length, (storeAt (winPos u.stride2 (word xh xl / 8) (word wh wl / 8) (word yh yl) (word hh hl)) u.p1 rest 0 0).2,
          (word xh xl / 8 * 8, word yh yl, word xh xl + word wh wl - 1, word yh yl + word hh hl - 1)) := by
  simp (config := {decide := true}) only [Uc.run, List.foldl, Uc.feed, Uc.regStep, Uc.dtmWin, hu, h14, ↓reduceIte, Bool.false_eq_true,
    List.head?_cons, Option.map_some, and_self, true_and, and_false]

open Drivers.Epd2in7b in
/-- **epd2in7b `update_partial_frame`, EVERY byte-aligned window inside the 176 x 264 panel, every buffer**: header =
    the requested window, the INVERTED buffer byte `k` at row `y + k/(w/8)`, byte column `x/8 + k%(w/8)`, stored
    exactly once, everything outside and the other plane unchanged -/
theorem epd2in7b_part_window (f : Feat) (d : DState) (b : Bytes) (x y w h : Nat)
    (hx : x % 8 = 0) (hw : w % 8 = 0) (hw0 : 0 < w) (hh0 : 0 < h) (hxw : x + w ≤ 176) (hyh : y + h ≤ 264)
    (hl : b.length = w / 8 * h)
    (u : Uc) (hu : u.asleep = false) (h14 : u.has14 = true) (hwd : u.width = 176) (hsz : u.p1.size = 22 * 264) :
    let u' := u.run (blocksOf ((prog f d (.part b x y w h)).getD []))
    (∀ k (hk : k < b.length), u'.p1[winIdx 22 (x / 8) (w / 8) y k]? = some (~~~ b[k])) ∧
    (∀ j, (∀ k, k < w / 8 * h → winIdx 22 (x / 8) (w / 8) y k ≠ j) → u'.p1[j]? = u.p1[j]?) ∧
    u'.p2 = u.p2 ∧
    (u'.epis.head?.map fun e => (e.plane, e.count, e.stored, e.win)) = some (0, w / 8 * h, w / 8 * h, (x, y, x + w - 1, y + h - 1)) := by
  intro u'
  have hu' : u' = u.run [Blk.c 0x14 (shr8 x 8 :: u8 (x &&& 0xf8) :: shr8 y 8 :: u8 (y &&& 0xff) :: shr8 w 8 :: u8 (w &&& 0xf8)
      :: shr8 h 8 :: u8 (h &&& 0xff) :: b.map (fun v => ~~~v)), .c 0x11 []] := by
    show u.run _ = _
    rw [epd2in7b_part_blocks, List.append_nil]
    rfl
  rw [and248_id x (by omega) hx, and248_id w (by omega) hw, andff y (by omega), andff h (by omega)] at hu'
  have k := uc14_feed_stop u (shr8 x 8) (u8 x) (shr8 y 8) (u8 (y % 256)) (shr8 w 8) (u8 w)
    (shr8 h 8) (u8 (h % 256)) (b.map (fun v => ~~~v)) hu h14
  have wy : word (shr8 y 8) (u8 (y % 256)) = y := by
    simp only [Uc.word, shr8, u8_toNat, Nat.shiftRight_eq_div_pow]; omega
  have wh' : word (shr8 h 8) (u8 (h % 256)) = h := by
    simp only [Uc.word, shr8, u8_toNat, Nat.shiftRight_eq_div_pow]; omega
  rw [word_split x (by omega), word_split w (by omega), wy, wh'] at k
  have s2 : u.stride2 = 22 := by unfold Uc.stride2; rw [hwd]
  rw [s2] at k
  have hl' : (b.map (fun v => ~~~v)).length = w / 8 * h := by rw [List.length_map]; exact hl
  have st := storeAt_window 22 (x / 8) (w / 8) y h u.p1 (b.map (fun v => ~~~v)) (by omega) (by omega) (by rw [hsz]; omega) hl'
  rw [hu', k.1, k.2.1, k.2.2, st.1]
  have e1 : x / 8 * 8 = x := by omega
  refine ⟨fun k' hk' => ?_, st.2.2.2, rfl, ?_⟩
  · have := st.2.2.1 k' (by rw [List.length_map]; exact hk')
    rw [this]; simp
  · rw [hl', e1]
end EpdVerif.Props.C06
