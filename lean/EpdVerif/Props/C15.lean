import EpdVerif.Big
import EpdVerif.Props.C16
/-!
# C15 — 12.48in tiling: each window byte reaches exactly the sub-display that owns it

About the model of `src/epd12in48b_v2/mod.rs` in `EpdVerif/Big.lean` (tied to the source by the
correspondence check of `./vcheck C15`), for EVERY window inside the panel with 8-aligned `x`
and `w`, every pixel buffer of `k ≥ 1` whole rows, both data commands:

* `wwd_no_panic`, `writePartial_no_panic` — such a call does not panic;
* `wwd_controls` — every transfer of `write_window_data` is either the data command to ONE chip or
  data with exactly one chip selected (`chip + CS_DATA`): no byte is on the bus with two selects;
* `tile_S2 / tile_M2 / tile_M1 / tile_S1` — the data stream a sub-display receives is, row-major,
  exactly the bytes of the window that lie in its rectangle: byte `j` of local row `yy` is the
  caller's byte `((i.x - win.x)/8 + j)` of window row `(i.y - win.y + yy)` (rows wrap around a short
  buffer), where `i` is the intersection of the window with the sub-display;
* `tile_lengths` — the four streams together have exactly `win.h * win.w/8` bytes (each window
  byte is delivered once: positions are distinct by the `tile_*` theorems, the count matches);
* `windows_programmed` — the 0x90 blocks are the intersection in local coordinates, mirrored
  horizontally for S2 and M2, and the off-screen window for an empty intersection;
* `transport` / `released_*` — `spi_write` puts on the bus exactly the program's transfers with
  the pins its control word says, and every public call that returns Ok leaves every chip select
  and both D/C lines released (`control_state = 0`), so that holds between all public calls.
-/
namespace EpdVerif.Props.C15
open EpdVerif EpdVerif.Big EpdVerif.Gen.Epd12in48b_v2

/-! ## list facts -/

theorem flatMap_chunks_get {α} (f : Nat → List α) (len : Nat) :
    ∀ (count : Nat), (∀ yy, yy < count → (f yy).length = len) →
    ((List.range count).flatMap f).length = count * len ∧
    ∀ yy j, yy < count → j < len → ((List.range count).flatMap f)[yy * len + j]? = (f yy)[j]? := by
  intro count
  induction count with
  | zero => intro _; simp
  | succ c ih =>
    intro hlen
    have ih' := ih (fun yy h => hlen yy (Nat.lt_succ_of_lt h))
    have hc := hlen c (Nat.lt_succ_self c)
    rw [List.range_succ, List.flatMap_append]
    simp only [List.flatMap_cons, List.flatMap_nil, List.append_nil, List.length_append]
    refine ⟨by rw [ih'.1, hc, Nat.succ_mul], ?_⟩
    intro yy j hyy hj
    by_cases hlt : yy < c
    · have hb : yy * len + j < ((List.range c).flatMap f).length := by
        rw [ih'.1]
        calc yy * len + j < yy * len + len := by omega
          _ = (yy + 1) * len := by rw [Nat.succ_mul]
          _ ≤ c * len := Nat.mul_le_mul_right _ hlt
      rw [List.getElem?_append_left hb]
      exact ih'.2 yy j hlt hj
    · have : yy = c := by omega
      subst this
      have hb : ((List.range yy).flatMap f).length ≤ yy * len + j := by rw [ih'.1]; omega
      rw [List.getElem?_append_right hb, ih'.1]
      congr 1
      omega

theorem slice_get (px : Bytes) (b len j : Nat) (hj : j < len) :
    ((px.drop b).take len)[j]? = px[b + j]? := by
  rw [List.getElem?_take_of_lt hj, List.getElem?_drop]

theorem slice_length (px : Bytes) (b len : Nat) (h : b + len ≤ px.length) :
    ((px.drop b).take len).length = len := by
  rw [List.length_take, List.length_drop]; omega

/-! ## streams: the data a chip receives while it alone is selected -/

/-- the data bytes of transfers whose control word is exactly `chip | CS_DATA` -/
def streamOf (chip : Nat) : List BAct → Bytes
  | [] => []
  | .sw c d :: as => if c = chip + CS_DATA then d ++ streamOf chip as else streamOf chip as
  | _ :: as => streamOf chip as

theorem streamOf_append (chip : Nat) (a b : List BAct) :
    streamOf chip (a ++ b) = streamOf chip a ++ streamOf chip b := by
  induction a with
  | nil => rfl
  | cons x xs ih =>
    cases x <;> simp only [List.cons_append, streamOf, ih]
    split <;> simp

theorem streamOf_cmd (chip c : Nat) (tc : UInt8) (h : c < 16) : streamOf chip (cmd c tc) = [] := by
  simp only [cmd, streamOf]
  rw [if_neg (by simp only [CS_DATA]; omega)]

/-- the window byte the caller's buffer holds for byte column `bx` of window row `y`
    (“`pixels` may contain a lesser number of rows …, in which case it will be treated as
    circular”) -/
def winByte (stride : Nat) (px : Bytes) (bx y : Nat) : Option UInt8 :=
  px[rowOffset px.length stride y + bx]?

/-- rows never leave a buffer of `k ≥ 1` whole rows -/
theorem rowOffset_bound (k stride row off len : Nat) (hk : 0 < k) (hol : off + len ≤ stride) :
    rowOffset (k * stride) stride row + off + len ≤ k * stride := by
  unfold rowOffset
  simp only
  split
  · rename_i h
    have : row < k := by
      rcases Nat.lt_or_ge row k with h' | h'
      · exact h'
      · exact absurd (Nat.mul_le_mul_right stride h') (by omega)
    have := Nat.mul_le_mul_right stride (Nat.succ_le_of_lt this)
    rw [Nat.succ_mul] at this
    omega
  · rw [Nat.mul_mod_mul_right]
    have : row % k < k := Nat.mod_lt _ hk
    have := Nat.mul_le_mul_right stride (Nat.succ_le_of_lt this)
    rw [Nat.succ_mul] at this
    omega

theorem flatMap_eq_map {α β} (f : α → List β) (g : α → β) :
    ∀ (l : List α), (∀ a, a ∈ l → f a = [g a]) → l.flatMap f = l.map g
  | [], _ => rfl
  | a :: as, h => by
    rw [List.flatMap_cons, List.map_cons, h a (List.mem_cons_self ..),
      flatMap_eq_map f g as (fun b hb => h b (List.mem_cons_of_mem _ hb))]
    rfl

/-- no-panic form of one row loop -/
theorem rowsOf_ok (px : Bytes) (stride chip count first off len : Nat)
    (h : ∀ yy, yy < count → rowOffset px.length stride (first + yy) + off + len ≤ px.length) :
    rowsOf px stride chip count first off len =
      (List.range count).map fun yy =>
        BAct.sw (chip + DATA) ((px.drop (rowOffset px.length stride (first + yy) + off)).take len) := by
  unfold rowsOf
  apply flatMap_eq_map
  intro yy hyy
  simp only [List.mem_range] at hyy
  simp only
  rw [if_pos (h yy hyy)]

theorem streamOf_map_same (chip : Nat) (g : Nat → Bytes) (l : List Nat) :
    streamOf chip (l.map fun yy => BAct.sw (chip + DATA) (g yy)) = l.flatMap g := by
  induction l with
  | nil => rfl
  | cons a as ih =>
    simp only [DATA] at ih ⊢
    simp only [List.map_cons, streamOf, List.flatMap_cons, if_pos, ih]

theorem streamOf_map_other (chip chip' : Nat) (hne : chip' ≠ chip) (g : Nat → Bytes) (l : List Nat) :
    streamOf chip (l.map fun yy => BAct.sw (chip' + DATA) (g yy)) = [] := by
  induction l with
  | nil => rfl
  | cons a as ih =>
    simp only [DATA] at ih ⊢
    simp only [List.map_cons, streamOf]
    rw [if_neg (by omega), ih]

/-! ## the windows the property quantifies over -/

/-- an 8-aligned, non-degenerate window inside the panel and a buffer of `k ≥ 1` whole rows -/
structure Good (win : Rect) (px : Bytes) (k : Nat) : Prop where
  ax : win.x % 8 = 0
  aw : win.w % 8 = 0
  inx : win.x + win.w ≤ WIDTH
  iny : win.y + win.h ≤ HEIGHT
  hk : 0 < k
  hw : 0 < win.w
  len : px.length = k * (win.w / 8)

theorem isect_eq (win r : Rect) (h : win.x + win.w < Rect.U32 ∧ r.x + r.w < Rect.U32 ∧
    win.y + win.h < Rect.U32 ∧ r.y + r.h < Rect.U32) :
    isect win r = ⟨max win.x r.x, max win.y r.y, min (win.x + win.w) (r.x + r.w) - max win.x r.x,
      min (win.y + win.h) (r.y + r.h) - max win.y r.y⟩ := by
  unfold isect Rect.intersect
  rw [if_pos h]
  rfl

section
variable {win : Rect} {px : Bytes} {k : Nat} (g : Good win px k)
include g

theorem Good.i_s2 : isect win s2Rect = ⟨max win.x 0, max win.y 0, min (win.x + win.w) 648 - max win.x 0,
    min (win.y + win.h) 492 - max win.y 0⟩ := by
  have := g.inx; have := g.iny
  rw [isect_eq win s2Rect (by simp only [s2Rect, rect, S2_RECT, Rect.U32, WIDTH, HEIGHT] at *; omega)]
  rfl
theorem Good.i_m2 : isect win m2Rect = ⟨max win.x 648, max win.y 0, min (win.x + win.w) 1304 - max win.x 648,
    min (win.y + win.h) 492 - max win.y 0⟩ := by
  have := g.inx; have := g.iny
  rw [isect_eq win m2Rect (by simp only [m2Rect, rect, M2_RECT, Rect.U32, WIDTH, HEIGHT] at *; omega)]
  rfl
theorem Good.i_m1 : isect win m1Rect = ⟨max win.x 0, max win.y 492, min (win.x + win.w) 648 - max win.x 0,
    min (win.y + win.h) 984 - max win.y 492⟩ := by
  have := g.inx; have := g.iny
  rw [isect_eq win m1Rect (by simp only [m1Rect, rect, M1_RECT, Rect.U32, WIDTH, HEIGHT] at *; omega)]
  rfl
theorem Good.i_s1 : isect win s1Rect = ⟨max win.x 648, max win.y 492, min (win.x + win.w) 1304 - max win.x 648,
    min (win.y + win.h) 984 - max win.y 492⟩ := by
  have := g.inx; have := g.iny
  rw [isect_eq win s1Rect (by simp only [s1Rect, rect, S1_RECT, Rect.U32, WIDTH, HEIGHT] at *; omega)]
  rfl

/-- the row stride the driver uses is the window's -/
theorem Good.stride : (isect win s2Rect).w / 8 + (isect win s1Rect).w / 8 = win.w / 8 := by
  have := g.inx; have := g.ax; have := g.aw
  rw [g.i_s2, g.i_s1]
  simp only [WIDTH] at *
  omega

theorem Good.ne : px.isEmpty = false := by
  have := g.len; have := g.hk; have := g.hw; have := g.aw
  have h8 : 0 < win.w / 8 := by omega
  have : 0 < px.length := by rw [g.len]; exact Nat.mul_pos g.hk h8
  cases px with
  | nil => simp at this
  | cons _ _ => rfl

/-- every slice of every row loop stays inside the buffer -/
theorem Good.rows_in (first off len : Nat) (h : off + len ≤ win.w / 8) (yy : Nat) :
    rowOffset px.length (win.w / 8) (first + yy) + off + len ≤ px.length := by
  rw [g.len]
  exact rowOffset_bound k (win.w / 8) (first + yy) off len g.hk h

end

/-- the rows a chip receives: `count` rows of `len` bytes starting at window row `first`,
    byte column `off` -/
def rowsData (px : Bytes) (stride count first off len : Nat) : Bytes :=
  (List.range count).flatMap fun yy => (px.drop (rowOffset px.length stride (first + yy) + off)).take len

theorem rowsData_spec (px : Bytes) (stride count first off len : Nat)
    (h : ∀ yy, yy < count → rowOffset px.length stride (first + yy) + off + len ≤ px.length) :
    (rowsData px stride count first off len).length = count * len ∧
    ∀ yy j, yy < count → j < len →
      (rowsData px stride count first off len)[yy * len + j]? = winByte stride px (off + j) (first + yy) := by
  have := flatMap_chunks_get
    (fun yy => (px.drop (rowOffset px.length stride (first + yy) + off)).take len) len count
    (fun yy hyy => slice_length px _ len (h yy hyy))
  refine ⟨this.1, ?_⟩
  intro yy j hyy hj
  unfold rowsData winByte
  rw [this.2 yy j hyy hj, slice_get px _ len j hj, Nat.add_assoc]

theorem rowsData_nil_of_count (px : Bytes) (stride first off len : Nat) : rowsData px stride 0 first off len = [] := rfl

theorem rowsData_nil_of_len (px : Bytes) (stride count first off : Nat) : rowsData px stride count first off 0 = [] := by
  unfold rowsData
  induction count with
  | zero => rfl
  | succ c ih => rw [List.range_succ, List.flatMap_append, ih]; simp

/-- what each chip receives from `write_window_data`, as a function of the four loop bounds -/
theorem wwd_stream {win : Rect} {px : Bytes} {k : Nat} (g : Good win px k) (tc : UInt8) :
    let top := (isect win s2Rect).h
    let bottom := (isect win s1Rect).h
    let left := (isect win s2Rect).w / 8
    let right := (isect win s1Rect).w / 8
    streamOf CS_S2 (writeWindowData tc win px) = rowsData px (win.w / 8) top 0 0 left ∧
    streamOf CS_M2 (writeWindowData tc win px) = rowsData px (win.w / 8) top 0 left right ∧
    streamOf CS_M1 (writeWindowData tc win px) = rowsData px (win.w / 8) bottom top 0 left ∧
    streamOf CS_S1 (writeWindowData tc win px) = rowsData px (win.w / 8) bottom top left right := by
  intro top bottom left right
  have hs : left + right = win.w / 8 := g.stride
  have hr (chip count first off len : Nat) (h : off + len ≤ win.w / 8) :
      rowsOf px (left + right) chip count first off len =
        (List.range count).map fun yy =>
          BAct.sw (chip + DATA) ((px.drop (rowOffset px.length (win.w / 8) (first + yy) + off)).take len) := by
    rw [hs]
    exact rowsOf_ok px _ chip count first off len (fun yy _ => g.rows_in first off len h yy)
  have e : writeWindowData tc win px =
      (if top > 0 then
        (if left > 0 then cmd CS_S2 tc ++ rowsOf px (left + right) CS_S2 top 0 0 left else []) ++
        (if right > 0 then cmd CS_M2 tc ++ rowsOf px (left + right) CS_M2 top 0 left right else [])
       else []) ++
      (if bottom > 0 then
        (if left > 0 then cmd CS_M1 tc ++ rowsOf px (left + right) CS_M1 bottom top 0 left else []) ++
        (if right > 0 then cmd CS_S1 tc ++ rowsOf px (left + right) CS_S1 bottom top left right else [])
       else []) := by
    unfold writeWindowData
    rw [g.ne]
    rfl
  rw [e, hr CS_S2 top 0 0 left (by omega), hr CS_M2 top 0 left right (by omega),
    hr CS_M1 bottom top 0 left (by omega), hr CS_S1 bottom top left right (by omega)]
  have z1 : top = 0 → ∀ f o l, rowsData px (win.w / 8) top f o l = [] := by
    intro h f o l; rw [h]; rfl
  have z2 : bottom = 0 → ∀ f o l, rowsData px (win.w / 8) bottom f o l = [] := by
    intro h f o l; rw [h]; rfl
  have zl : left = 0 → ∀ c f o, rowsData px (win.w / 8) c f o left = [] := by
    intro h c f o; rw [h]; exact rowsData_nil_of_len ..
  have zr : right = 0 → ∀ c f o, rowsData px (win.w / 8) c f o right = [] := by
    intro h c f o; rw [h]; exact rowsData_nil_of_len ..
  refine ⟨?_, ?_, ?_, ?_⟩ <;>
  · by_cases ht : top > 0 <;> by_cases hb : bottom > 0 <;> by_cases hl : left > 0 <;> by_cases hrr : right > 0 <;>
    simp only [ht, hb, hl, hrr, if_true, if_false, streamOf_append, List.append_nil, List.nil_append, streamOf,
      streamOf_cmd _ _ _ (by decide : CS_S2 < 16), streamOf_cmd _ _ _ (by decide : CS_M2 < 16),
      streamOf_cmd _ _ _ (by decide : CS_M1 < 16), streamOf_cmd _ _ _ (by decide : CS_S1 < 16),
      streamOf_map_same, streamOf_map_other _ _ (by decide : CS_S2 ≠ CS_M2), streamOf_map_other _ _ (by decide : CS_S2 ≠ CS_M1),
      streamOf_map_other _ _ (by decide : CS_S2 ≠ CS_S1), streamOf_map_other _ _ (by decide : CS_M2 ≠ CS_S2),
      streamOf_map_other _ _ (by decide : CS_M2 ≠ CS_M1), streamOf_map_other _ _ (by decide : CS_M2 ≠ CS_S1),
      streamOf_map_other _ _ (by decide : CS_M1 ≠ CS_S2), streamOf_map_other _ _ (by decide : CS_M1 ≠ CS_M2),
      streamOf_map_other _ _ (by decide : CS_M1 ≠ CS_S1), streamOf_map_other _ _ (by decide : CS_S1 ≠ CS_S2),
      streamOf_map_other _ _ (by decide : CS_S1 ≠ CS_M2), streamOf_map_other _ _ (by decide : CS_S1 ≠ CS_M1)] <;>
    first
    | rfl
    | (simp only [rowsData]; done)
    | (rw [z1 (by omega)]; done) | (rw [z2 (by omega)]; done) | (rw [zl (by omega)]; done) | (rw [zr (by omega)]; done)

/-! ## the tiling theorems -/

/-- the statement for one sub-display `r` reached through chip select `chip`: its stream is the
    window ∩ `r`, row-major, each byte at its local position -/
def Tiled (chip : Nat) (r : Rect) (tc : UInt8) (win : Rect) (px : Bytes) : Prop :=
  let i := isect win r
  let S := streamOf chip (writeWindowData tc win px)
  S.length = i.h * (i.w / 8) ∧
  ∀ yy j, yy < i.h → j < i.w / 8 →
    S[yy * (i.w / 8) + j]? = winByte (win.w / 8) px ((i.x - win.x) / 8 + j) (i.y - win.y + yy)

section
variable {win : Rect} {px : Bytes} {k : Nat} (g : Good win px k) (tc : UInt8)
include g

theorem tile_S2 : Tiled CS_S2 s2Rect tc win px := by
  have hx := g.inx; have hy := g.iny; have hax := g.ax; have haw := g.aw
  simp only [WIDTH, HEIGHT] at hx hy
  unfold Tiled
  simp only
  rw [(wwd_stream g tc).1]
  have sp := rowsData_spec px (win.w / 8) (isect win s2Rect).h 0 0 ((isect win s2Rect).w / 8)
    (fun yy _ => g.rows_in 0 0 _ (by rw [g.i_s2]; simp only; omega) yy)
  refine ⟨sp.1, ?_⟩
  intro yy j hyy hj
  rw [sp.2 yy j hyy hj]
  rw [g.i_s2] at hyy hj ⊢
  simp only at hyy hj ⊢
  congr 1 <;> omega

theorem tile_M2 : Tiled CS_M2 m2Rect tc win px := by
  have hx := g.inx; have hy := g.iny; have hax := g.ax; have haw := g.aw
  simp only [WIDTH, HEIGHT] at hx hy
  unfold Tiled
  simp only
  rw [(wwd_stream g tc).2.1]
  have sp := rowsData_spec px (win.w / 8) (isect win s2Rect).h 0 ((isect win s2Rect).w / 8) ((isect win s1Rect).w / 8)
    (fun yy _ => g.rows_in 0 _ _ (by rw [g.i_s2, g.i_s1]; simp only; omega) yy)
  have e1 : (isect win m2Rect).h = (isect win s2Rect).h := by rw [g.i_m2, g.i_s2]
  have e2 : (isect win m2Rect).w = (isect win s1Rect).w := by rw [g.i_m2, g.i_s1]
  rw [e1, e2]
  refine ⟨sp.1, ?_⟩
  intro yy j hyy hj
  rw [sp.2 yy j hyy hj]
  rw [g.i_s2] at hyy
  rw [g.i_s1] at hj
  rw [g.i_s2, g.i_m2]
  simp only at hyy hj ⊢
  congr 1 <;> omega

theorem tile_M1 : Tiled CS_M1 m1Rect tc win px := by
  have hx := g.inx; have hy := g.iny; have hax := g.ax; have haw := g.aw
  simp only [WIDTH, HEIGHT] at hx hy
  unfold Tiled
  simp only
  rw [(wwd_stream g tc).2.2.1]
  have sp := rowsData_spec px (win.w / 8) (isect win s1Rect).h (isect win s2Rect).h 0 ((isect win s2Rect).w / 8)
    (fun yy _ => g.rows_in _ 0 _ (by rw [g.i_s2]; simp only; omega) yy)
  have e1 : (isect win m1Rect).h = (isect win s1Rect).h := by rw [g.i_m1, g.i_s1]
  have e2 : (isect win m1Rect).w = (isect win s2Rect).w := by rw [g.i_m1, g.i_s2]
  rw [e1, e2]
  refine ⟨sp.1, ?_⟩
  intro yy j hyy hj
  rw [sp.2 yy j hyy hj]
  rw [g.i_s1] at hyy
  rw [g.i_s2] at hj
  rw [g.i_s2, g.i_m1]
  simp only at hyy hj ⊢
  congr 1 <;> omega

theorem tile_S1 : Tiled CS_S1 s1Rect tc win px := by
  have hx := g.inx; have hy := g.iny; have hax := g.ax; have haw := g.aw
  simp only [WIDTH, HEIGHT] at hx hy
  unfold Tiled
  simp only
  rw [(wwd_stream g tc).2.2.2]
  have sp := rowsData_spec px (win.w / 8) (isect win s1Rect).h (isect win s2Rect).h ((isect win s2Rect).w / 8)
    ((isect win s1Rect).w / 8)
    (fun yy _ => g.rows_in _ _ _ (by rw [g.i_s2, g.i_s1]; simp only; omega) yy)
  refine ⟨sp.1, ?_⟩
  intro yy j hyy hj
  rw [sp.2 yy j hyy hj]
  rw [g.i_s1] at hyy hj
  rw [g.i_s2, g.i_s1]
  simp only at hyy hj ⊢
  congr 1 <;> omega

/-- together the four streams carry exactly one byte per window byte -/
theorem tile_lengths :
    (streamOf CS_S2 (writeWindowData tc win px)).length + (streamOf CS_M2 (writeWindowData tc win px)).length +
    (streamOf CS_M1 (writeWindowData tc win px)).length + (streamOf CS_S1 (writeWindowData tc win px)).length =
      win.h * (win.w / 8) := by
  have hx := g.inx; have hy := g.iny; have hax := g.ax; have haw := g.aw
  simp only [WIDTH, HEIGHT] at hx hy
  rw [(tile_S2 g tc).1, (tile_M2 g tc).1, (tile_M1 g tc).1, (tile_S1 g tc).1, g.i_s2, g.i_m2, g.i_m1, g.i_s1]
  simp only
  -- (t + b) * (l + r) with t + b = h, l + r = w/8
  have ht : (min (win.y + win.h) 492 - max win.y 0) + (min (win.y + win.h) 984 - max win.y 492) = win.h := by omega
  have hl : (min (win.x + win.w) 648 - max win.x 0) / 8 + (min (win.x + win.w) 1304 - max win.x 648) / 8 = win.w / 8 := by omega
  have key : ∀ T B L R H W : Nat, T + B = H → L + R = W → T * L + T * R + B * L + B * R = H * W := by
    intro T B L R H W h1 h2
    subst h1; subst h2
    rw [Nat.add_mul, Nat.mul_add, Nat.mul_add]
    omega
  exact key _ _ _ _ _ _ ht hl

/-- ownership is exclusive: a pixel of the window lies in exactly one sub-display rectangle -/
theorem owner_unique (pxx pyy : Nat) (h : win.covers pxx pyy) :
    (s2Rect.covers pxx pyy ∧ ¬ m2Rect.covers pxx pyy ∧ ¬ m1Rect.covers pxx pyy ∧ ¬ s1Rect.covers pxx pyy) ∨
    (¬ s2Rect.covers pxx pyy ∧ m2Rect.covers pxx pyy ∧ ¬ m1Rect.covers pxx pyy ∧ ¬ s1Rect.covers pxx pyy) ∨
    (¬ s2Rect.covers pxx pyy ∧ ¬ m2Rect.covers pxx pyy ∧ m1Rect.covers pxx pyy ∧ ¬ s1Rect.covers pxx pyy) ∨
    (¬ s2Rect.covers pxx pyy ∧ ¬ m2Rect.covers pxx pyy ∧ ¬ m1Rect.covers pxx pyy ∧ s1Rect.covers pxx pyy) := by
  have hx := g.inx; have hy := g.iny
  simp only [WIDTH, HEIGHT] at hx hy
  simp only [Rect.covers, s2Rect, m2Rect, m1Rect, s1Rect, rect, S2_RECT, M2_RECT, M1_RECT, S1_RECT] at *
  omega

end

/-! ## one chip at a time, and no panic -/

theorem mem_rowsOf (px : Bytes) (stride chip count first off len : Nat) (a : BAct)
    (h : a ∈ rowsOf px stride chip count first off len) : a = .panic ∨ ∃ d, a = .sw (chip + CS_DATA) d := by
  unfold rowsOf at h
  rw [List.mem_flatMap] at h
  obtain ⟨yy, _, hyy⟩ := h
  simp only at hyy
  split at hyy
  · rw [List.mem_singleton] at hyy; exact Or.inr ⟨_, hyy⟩
  · rw [List.mem_singleton] at hyy; exact Or.inl hyy

/-- every transfer of `write_window_data` (ANY window, any buffer) is the data command to one
    chip, or data with exactly that one chip selected -/
theorem wwd_controls (tc : UInt8) (win : Rect) (px : Bytes) (a : BAct) (h : a ∈ writeWindowData tc win px) :
    a = .panic ∨ ∃ chip, chip ∈ [CS_S2, CS_M2, CS_M1, CS_S1] ∧ (a = .sw chip [tc] ∨ ∃ d, a = .sw (chip + CS_DATA) d) := by
  unfold writeWindowData at h
  split at h
  · rw [List.mem_singleton] at h; exact Or.inl h
  · simp only [cmd] at h
    have key : ∀ chip, chip ∈ [CS_S2, CS_M2, CS_M1, CS_S1] → ∀ c f o l,
        a ∈ BAct.sw chip [tc] :: rowsOf px ((isect win s2Rect).w / 8 + (isect win s1Rect).w / 8) chip c f o l →
        a = .panic ∨ ∃ chip, chip ∈ [CS_S2, CS_M2, CS_M1, CS_S1] ∧ (a = .sw chip [tc] ∨ ∃ d, a = .sw (chip + CS_DATA) d) := by
      intro chip hc c f o l hm
      rcases List.mem_cons.1 hm with h1 | h1
      · exact Or.inr ⟨chip, hc, Or.inl h1⟩
      · rcases mem_rowsOf _ _ _ _ _ _ _ _ h1 with h2 | h2
        · exact Or.inl h2
        · exact Or.inr ⟨chip, hc, Or.inr h2⟩
    rcases List.mem_append.1 h with h | h
    · split at h
      · rcases List.mem_append.1 h with h | h
        · split at h
          · exact key CS_S2 (by simp) _ _ _ _ h
          · cases h
        · split at h
          · exact key CS_M2 (by simp) _ _ _ _ h
          · cases h
      · cases h
    · split at h
      · rcases List.mem_append.1 h with h | h
        · split at h
          · exact key CS_M1 (by simp) _ _ _ _ h
          · cases h
        · split at h
          · exact key CS_S1 (by simp) _ _ _ _ h
          · cases h
      · cases h

theorem not_panic_rowsOf {win : Rect} {px : Bytes} {k : Nat} (g : Good win px k) (chip count first off len : Nat)
    (h : off + len ≤ win.w / 8) : BAct.panic ∉ rowsOf px (win.w / 8) chip count first off len := by
  rw [rowsOf_ok px _ chip count first off len (fun yy _ => g.rows_in first off len h yy)]
  intro hm
  rw [List.mem_map] at hm
  obtain ⟨_, _, h⟩ := hm
  cases h

/-- a window of the property's domain never makes `write_window_data` panic -/
theorem wwd_no_panic {win : Rect} {px : Bytes} {k : Nat} (g : Good win px k) (tc : UInt8) :
    BAct.panic ∉ writeWindowData tc win px := by
  have hx := g.inx; have hax := g.ax; have haw := g.aw
  simp only [WIDTH] at hx
  intro h
  unfold writeWindowData at h
  rw [g.ne] at h
  simp only [Bool.false_eq_true, if_false, cmd, g.stride] at h
  have l1 : 0 + (isect win s2Rect).w / 8 ≤ win.w / 8 := by rw [g.i_s2]; simp only; omega
  have l2 : (isect win s2Rect).w / 8 + (isect win s1Rect).w / 8 ≤ win.w / 8 := by rw [g.i_s2, g.i_s1]; simp only; omega
  have np := fun chip count first off len hh => not_panic_rowsOf g chip count first off len hh
  have nc : ∀ chip l, BAct.panic ∈ BAct.sw chip [tc] :: l → BAct.panic ∈ l := by
    intro chip l hm
    rcases List.mem_cons.1 hm with h1 | h1
    · cases h1
    · exact h1
  rcases List.mem_append.1 h with h | h
  · split at h
    · rcases List.mem_append.1 h with h | h
      · split at h
        · exact np _ _ _ _ _ l1 (nc _ _ h)
        · cases h
      · split at h
        · exact np _ _ _ _ _ l2 (nc _ _ h)
        · cases h
    · cases h
  · split at h
    · rcases List.mem_append.1 h with h | h
      · split at h
        · exact np _ _ _ _ _ l1 (nc _ _ h)
        · cases h
      · split at h
        · exact np _ _ _ _ _ l2 (nc _ _ h)
        · cases h
    · cases h

/-! ## the partial windows -/

/-- the 0x90 parameter block the property asks for: the intersection in the sub-display's own
    coordinates, X mirrored for the upper two, and the off-screen window when empty -/
def wantWindow (win r : Rect) (mirror : Bool) : Bytes :=
  let i := isect win r
  if i.w = 0 ∨ i.h = 0 then [0x00, 0x00, 0xFF, 0xFF, 0x00, 0x00, 0xFF, 0xFF, 0x01] else
  let lx := i.x - r.x
  let ly := i.y - r.y
  let sx := if mirror then r.w - (lx + i.w) else lx
  let ex := sx + i.w - 1
  let ey := ly + i.h - 1
  [u8 (sx / 256), u8 (sx % 256), u8 (ex / 256), u8 (ex % 256), u8 (ly / 256), u8 (ly % 256),
   u8 (ey / 256), u8 (ey % 256), 0x01]

/-- the oracle's `expectedWindow` (used on the implementation's trace) is this specification -/
theorem expectedWindow_eq (win r : Rect) (m : Bool) : expectedWindow win r m = wantWindow win r m := by
  unfold expectedWindow wantWindow
  simp only [Rect.isEmpty, Bool.or_eq_true, beq_iff_eq]
  split
  · rfl
  · cases m <;> simp only [Bool.false_eq_true, if_false, if_true, Nat.sub_sub]

theorem localPart_ok (win r : Rect) (h : win.x + win.w < Rect.U32 ∧ r.x + r.w < Rect.U32 ∧
    win.y + win.h < Rect.U32 ∧ r.y + r.h < Rect.U32) :
    localPart win r = ([], ⟨(isect win r).x - r.x, (isect win r).y - r.y, (isect win r).w, (isect win r).h⟩) := by
  unfold localPart Rect.subOffset
  simp only
  rw [if_pos (by rw [isect_eq win r h]; simp only; omega)]

/-- for EVERY window inside the panel the four 0x90 blocks are the specified ones, each sent to
    its own chip only -/
theorem windows_programmed (win : Rect) (hx : win.x + win.w ≤ WIDTH) (hy : win.y + win.h ≤ HEIGHT) :
    setupPartialWindows win =
      Big.cmdData CS_S2 Command.PartialWindow (wantWindow win s2Rect true) ++
      Big.cmdData CS_M2 Command.PartialWindow (wantWindow win m2Rect true) ++
      Big.cmdData CS_M1 Command.PartialWindow (wantWindow win m1Rect false) ++
      Big.cmdData CS_S1 Command.PartialWindow (wantWindow win s1Rect false) := by
  simp only [WIDTH, HEIGHT] at hx hy
  have h2 : win.x + win.w < Rect.U32 ∧ s2Rect.x + s2Rect.w < Rect.U32 ∧ win.y + win.h < Rect.U32 ∧ s2Rect.y + s2Rect.h < Rect.U32 := by
    simp only [s2Rect, rect, S2_RECT, Rect.U32]; omega
  have h4 : win.x + win.w < Rect.U32 ∧ m2Rect.x + m2Rect.w < Rect.U32 ∧ win.y + win.h < Rect.U32 ∧ m2Rect.y + m2Rect.h < Rect.U32 := by
    simp only [m2Rect, rect, M2_RECT, Rect.U32]; omega
  have h1 : win.x + win.w < Rect.U32 ∧ m1Rect.x + m1Rect.w < Rect.U32 ∧ win.y + win.h < Rect.U32 ∧ m1Rect.y + m1Rect.h < Rect.U32 := by
    simp only [m1Rect, rect, M1_RECT, Rect.U32]; omega
  have h3 : win.x + win.w < Rect.U32 ∧ s1Rect.x + s1Rect.w < Rect.U32 ∧ win.y + win.h < Rect.U32 ∧ s1Rect.y + s1Rect.h < Rect.U32 := by
    simp only [s1Rect, rect, S1_RECT, Rect.U32]; omega
  unfold setupPartialWindows
  rw [if_neg (by simp only [Rect.U32]; omega)]
  simp only [localPart_ok win _ h2, localPart_ok win _ h4, localPart_ok win _ h1, localPart_ok win _ h3,
    List.nil_append]
  have pw (r : Rect) (hr : win.x + win.w < Rect.U32 ∧ r.x + r.w < Rect.U32 ∧ win.y + win.h < Rect.U32 ∧ r.y + r.h < Rect.U32)
      (hin : r.x + r.w ≤ 1304) :
      partialWindowData ⟨(isect win r).x - r.x, (isect win r).y - r.y, (isect win r).w, (isect win r).h⟩ (some r.w) =
        ([], wantWindow win r true) ∧
      partialWindowData ⟨(isect win r).x - r.x, (isect win r).y - r.y, (isect win r).w, (isect win r).h⟩ none =
        ([], wantWindow win r false) := by
    unfold partialWindowData wantWindow
    simp only [Rect.isEmpty, Bool.or_eq_true, beq_iff_eq]
    by_cases he : (isect win r).w = 0 ∨ (isect win r).h = 0
    · simp only [if_pos he, and_self]
    · have hge : r.w ≥ (isect win r).x - r.x + (isect win r).w := by
        rw [isect_eq win r hr] at he ⊢; simp only at he ⊢; omega
      simp only [if_neg he, if_pos hge, if_true, Bool.false_eq_true, if_false, Nat.sub_sub, and_self]
  rw [(pw s2Rect h2 (by simp only [s2Rect, rect, S2_RECT]; omega)).1, (pw m2Rect h4 (by simp only [m2Rect, rect, M2_RECT]; omega)).1,
    (pw m1Rect h1 (by simp only [m1Rect, rect, M1_RECT]; omega)).2, (pw s1Rect h3 (by simp only [s1Rect, rect, S1_RECT]; omega)).2]
  simp only [List.nil_append, List.append_assoc]

/-- and a whole `write_data{1,2}_partial` on such a window does not panic -/
theorem writePartial_no_panic {win : Rect} {px : Bytes} {k : Nat} (g : Good win px k) (tc : UInt8) :
    BAct.panic ∉ writePartial tc win px := by
  have hax := g.ax; have haw := g.aw
  unfold writePartial
  rw [if_neg (by omega), windows_programmed win g.inx g.iny]
  intro h
  simp only [List.nil_append, List.mem_append, cmd, Big.cmdData, List.mem_cons, List.mem_nil_iff, or_false, reduceCtorEq,
    false_or, or_self] at h
  exact wwd_no_panic g tc h

/-! ## transport: what `spi_write` / `flush` put on the bus, and the pins -/

/-- the pins stand as `control_state` says -/
def PinsInv (e : BEnv) : Prop := e.cs = e.ctl % 16 ∧ e.dc = (if e.ctl / 16 % 2 = 1 then 3 else 0)

/-- (selected chips, D/C lines, bytes) of every transfer of a trace -/
def wEvs : List BEv → List (Nat × Nat × Bytes)
  | [] => []
  | .w cs dc _ b :: es => (cs, dc, b) :: wEvs es
  | _ :: es => wEvs es

/-- the transfers a program asks for: chips = low four bits of the control word, both D/C lines
    high iff `CS_DATA` is set -/
def wireOf : List BAct → List (Nat × Nat × Bytes)
  | [] => []
  | .sw c d :: as => (c % 16, (if c / 16 % 2 = 1 then 3 else 0), d) :: wireOf as
  | _ :: as => wireOf as

theorem wEvs_append (a b : List BEv) : wEvs (a ++ b) = wEvs a ++ wEvs b := by
  induction a with
  | nil => rfl
  | cons x xs ih => cases x <;> simp only [List.cons_append, wEvs, ih]

/-- programs made of `spi_write` and `flush` only -/
def SwOnly : List BAct → Prop
  | [] => True
  | .sw _ _ :: as => SwOnly as
  | .flush :: as => SwOnly as
  | _ :: _ => False

theorem select_inv (e : BEnv) (c : Nat) (hi : PinsInv e) :
    PinsInv (e.select c) ∧ (e.select c).cs = c % 16 ∧ (e.select c).dc = (if c / 16 % 2 = 1 then 3 else 0) := by
  unfold BEnv.select
  by_cases hc : e.ctl = c
  · rw [if_neg (by simpa using hc)]
    exact ⟨hi, by rw [hi.1, hc], by rw [hi.2, hc]⟩
  · rw [if_pos (by simpa using hc)]
    exact ⟨⟨rfl, rfl⟩, rfl, rfl⟩

theorem raiseBusy_pins (e : BEnv) : e.raiseBusy.ctl = e.ctl ∧ e.raiseBusy.cs = e.cs ∧ e.raiseBusy.dc = e.dc := by
  unfold BEnv.raiseBusy; split <;> exact ⟨rfl, rfl, rfl⟩

theorem sent_pins (e : BEnv) (d : Bytes) : (e.sent d).ctl = e.ctl ∧ (e.sent d).cs = e.cs ∧ (e.sent d).dc = e.dc := by
  unfold BEnv.sent
  split
  · split
    · exact raiseBusy_pins e
    · exact ⟨rfl, rfl, rfl⟩
  · exact ⟨rfl, rfl, rfl⟩

theorem sent_inv (e : BEnv) (d : Bytes) (hi : PinsInv e) : PinsInv (e.sent d) := by
  have h := sent_pins e d
  unfold PinsInv at *
  rw [h.1, h.2.1, h.2.2]; exact hi

/-- on such a program the bus carries exactly the program's transfers, each with the chip selects
    and D/C levels of its control word (whatever the pins were cached as before), it cannot fail,
    and the pins keep agreeing with `control_state` -/
theorem transport (acts : List BAct) : ∀ (e : BEnv), SwOnly acts → PinsInv e →
    wEvs (runB e acts).1 = wireOf acts ∧ (runB e acts).2.2 = .ok ∧ PinsInv (runB e acts).2.1 := by
  induction acts with
  | nil => intro e _ hi; exact ⟨rfl, rfl, hi⟩
  | cons a as ih =>
    intro e hs hi
    cases a with
    | sw c d =>
      have hs' : SwOnly as := hs
      have hsel := select_inv e c hi
      have ih' := ih ((e.select c).sent d) hs' (sent_inv _ d hsel.1)
      unfold runB
      simp only [stepB]
      refine ⟨?_, ih'.2.1, ih'.2.2⟩
      rw [wEvs_append, ih'.1, wEvs_append, hsel.2.1, hsel.2.2]
      have : wEvs (if e.ctl ≠ c then [BEv.flush, .delay .ns 100, .delay .ns 100] else []) = [] := by
        split <;> rfl
      rw [this]
      rfl
    | flush =>
      have hs' : SwOnly as := hs
      have ih' := ih { e with ctl := 0, cs := 0, dc := 0 } hs' ⟨rfl, by simp⟩
      unfold runB
      simp only [stepB]
      refine ⟨?_, ih'.2.1, ih'.2.2⟩
      rw [wEvs_append, ih'.1]
      rfl
    | waitReady => exact absurd hs (by simp [SwOnly])
    | delayMs _ => exact absurd hs (by simp [SwOnly])
    | delayUs _ => exact absurd hs (by simp [SwOnly])
    | resetSeq => exact absurd hs (by simp [SwOnly])
    | getStatus => exact absurd hs (by simp [SwOnly])
    | busyQuery => exact absurd hs (by simp [SwOnly])
    | panic => exact absurd hs (by simp [SwOnly])

/-! ## every public call releases the lines -/

/-- all four chip selects high, both D/C lines low, `control_state = 0` -/
def Released (e : BEnv) : Prop := e.ctl = 0 ∧ e.cs = 0 ∧ e.dc = 0

/-- abstract effect of a program on "the lines are released" -/
def relAfter : Bool → List BAct → Bool
  | b, [] => b
  | _, .sw _ _ :: as => relAfter false as
  | _, .flush :: as => relAfter true as
  | _, .resetSeq :: as => relAfter true as
  | _, .getStatus :: as => relAfter true as
  | b, _ :: as => relAfter b as

theorem relAfter_append (b : Bool) (xs ys : List BAct) : relAfter b (xs ++ ys) = relAfter (relAfter b xs) ys := by
  induction xs generalizing b with
  | nil => rfl
  | cons a as ih => cases a <;> simp only [List.cons_append, relAfter, ih]

@[simp] theorem relAfter_flush (b : Bool) : relAfter b [.flush] = true := rfl

theorem pollOnce_pins (e : BEnv) (pin : Nat) : (pollOnce e pin).2.ctl = e.ctl ∧ (pollOnce e pin).2.cs = e.cs ∧ (pollOnce e pin).2.dc = e.dc := by
  unfold pollOnce; split
  · exact ⟨rfl, rfl, rfl⟩
  · split <;> exact ⟨rfl, rfl, rfl⟩

theorem busyChips_pins (e : BEnv) : (busyChips e).2.2.ctl = e.ctl ∧ (busyChips e).2.2.cs = e.cs ∧ (busyChips e).2.2.dc = e.dc := by
  unfold busyChips
  simp only
  have h1 := pollOnce_pins e 0
  have h2 := pollOnce_pins (pollOnce e 0).2 1
  have h3 := pollOnce_pins (pollOnce (pollOnce e 0).2 1).2 2
  have h4 := pollOnce_pins (pollOnce (pollOnce (pollOnce e 0).2 1).2 2).2 3
  exact ⟨by rw [h4.1, h3.1, h2.1, h1.1], by rw [h4.2.1, h3.2.1, h2.2.1, h1.2.1], by rw [h4.2.2, h3.2.2, h2.2.2, h1.2.2]⟩

theorem waitReady_pins : ∀ (fuel : Nat) (e : BEnv),
    (waitReady fuel e).2.1.ctl = e.ctl ∧ (waitReady fuel e).2.1.cs = e.cs ∧ (waitReady fuel e).2.1.dc = e.dc
  | 0, _ => ⟨rfl, rfl, rfl⟩
  | fuel + 1, e => by
    unfold waitReady
    simp only
    have hb := busyChips_pins e
    split
    · have ih := waitReady_pins fuel (busyChips e).2.2
      exact ⟨by rw [ih.1, hb.1], by rw [ih.2.1, hb.2.1], by rw [ih.2.2, hb.2.2]⟩
    · exact hb

/-- one step: if the abstract flag says "released" the pins are -/
theorem step_released (e : BEnv) (a : BAct) (b : Bool) (hb : b = true → Released e) :
    relAfter b [a] = true → Released (stepB e a).2.1 := by
  intro h
  cases a with
  | sw c d => simp [relAfter] at h
  | flush => exact ⟨rfl, rfl, rfl⟩
  | waitReady =>
    have hp := waitReady_pins (e.busy + 2) e
    have hr := hb (by simpa [relAfter] using h)
    simp only [stepB]
    exact ⟨by rw [hp.1]; exact hr.1, by rw [hp.2.1]; exact hr.2.1, by rw [hp.2.2]; exact hr.2.2⟩
  | delayMs _ => exact hb (by simpa [relAfter] using h)
  | delayUs _ => exact hb (by simpa [relAfter] using h)
  | resetSeq => exact ⟨rfl, rfl, rfl⟩
  | getStatus => exact ⟨rfl, rfl, rfl⟩
  | busyQuery =>
    have hp := busyChips_pins e
    have hr := hb (by simpa [relAfter] using h)
    simp only [stepB]
    exact ⟨by rw [hp.1]; exact hr.1, by rw [hp.2.1]; exact hr.2.1, by rw [hp.2.2]; exact hr.2.2⟩
  | panic => exact hb (by simpa [relAfter] using h)

theorem relAfter_cons (b : Bool) (a : BAct) (as : List BAct) : relAfter b (a :: as) = relAfter (relAfter b [a]) as := by
  cases a <;> rfl

/-- a program whose abstract flag ends "released" leaves the pins released whenever it returns -/
theorem run_released (acts : List BAct) : ∀ (e : BEnv) (b : Bool), (b = true → Released e) →
    relAfter b acts = true → (runB e acts).2.2 = .ok → Released (runB e acts).2.1 := by
  induction acts with
  | nil => intro e b hb h _; exact hb h
  | cons a as ih =>
    intro e b hb h hok
    rw [relAfter_cons] at h
    unfold runB at hok ⊢
    simp only at hok ⊢
    split
    · rename_i hres
      rw [hres] at hok
      simp only at hok
      exact ih (stepB e a).2.1 (relAfter b [a]) (step_released e a b hb) h hok
    · rename_i hne
      split at hok
      · rename_i hres; exact absurd hres (hne)
      · simp only at hok
        exact absurd hok (by intro hh; exact hne hh)

theorem relAfter_setMode (b : Bool) (c : Cfg) : relAfter b (setMode c) = true := by
  unfold setMode
  simp only [relAfter_append, relAfter_flush]

theorem relAfter_beginRefresh (b : Bool) : relAfter b beginRefresh = true := by
  unfold beginRefresh
  simp only [relAfter_append, relAfter_flush]

theorem relAfter_beginRefreshPartial (b : Bool) (w : Rect) : relAfter b (beginRefreshPartial w) = true := by
  unfold beginRefreshPartial
  simp only [relAfter_append, relAfter_flush]

/-- the program of EVERY public call (any arguments) ends with the lines released -/
theorem prog_releases (op : PubOp) : relAfter true (progOf op) = true := by
  cases op <;> unfold progOf
  case reset => rfl
  case init c => simp only [initP, relAfter_append, relAfter_flush]
  case mode c => exact relAfter_setMode _ _
  case d1 px => simp only [relAfter_append, relAfter_flush]
  case d2 px => simp only [relAfter_append, relAfter_flush]
  case d1p w px => simp only [relAfter_append, relAfter_flush]
  case d2p w px => simp only [relAfter_append, relAfter_flush]
  case refresh => simp only [relAfter_append, relAfter_beginRefresh]; rfl
  case brefresh => exact relAfter_beginRefresh _
  case refreshp w => simp only [relAfter_append, relAfter_beginRefreshPartial]; rfl
  case brefreshp w => exact relAfter_beginRefreshPartial _ _
  case poweroff => rfl
  case hibernate => simp only [relAfter_append, relAfter_flush]
  case lut c n d => simp only [setLut, relAfter_append, relAfter_flush]
  case status => rfl
  case busy => rfl

/-- C15, last clause: a public call entered with the lines released that returns Ok leaves every
    chip select and both D/C lines released — so they are released between all public calls -/
theorem released_public (op : PubOp) (e : BEnv) (he : Released e) (hok : (runB e (progOf op)).2.2 = .ok) :
    Released (runB e (progOf op)).2.1 :=
  run_released (progOf op) e true (fun _ => he) (prog_releases op) hok

/-- a sequence of public calls, all returning Ok -/
def runCalls (e : BEnv) : List PubOp → Option BEnv
  | [] => some e
  | o :: os => if (runB e (progOf o)).2.2 = .ok then runCalls (runB e (progOf o)).2.1 os else none

/-- hence over every sequence of public calls that all return Ok, from the state `new()` /
    `reset()` leave -/
theorem released_always : ∀ (ops : List PubOp) (e e' : BEnv), Released e → runCalls e ops = some e' → Released e'
  | [], e, e', he, h => by
    simp only [runCalls, Option.some.injEq] at h
    exact h ▸ he
  | o :: os, e, e', he, h => by
    unfold runCalls at h
    split at h
    · rename_i hok
      exact released_always os _ e' (released_public o e he hok) h
    · cases h

/-! ## putting it together: the public write calls on the bus -/

theorem SwOnly_append (a b : List BAct) (ha : SwOnly a) (hb : SwOnly b) : SwOnly (a ++ b) := by
  induction a with
  | nil => exact hb
  | cons x xs ih => cases x <;> first | exact ih ha | exact absurd ha (by simp [SwOnly])

theorem SwOnly_of_mem (l : List BAct) (h : ∀ a, a ∈ l → ∃ c d, a = .sw c d) : SwOnly l := by
  induction l with
  | nil => trivial
  | cons x xs ih =>
    obtain ⟨c, d, hx⟩ := h x (List.mem_cons_self ..)
    subst hx
    exact ih (fun a ha => h a (List.mem_cons_of_mem _ ha))

theorem wwd_SwOnly {win : Rect} {px : Bytes} {k : Nat} (g : Good win px k) (tc : UInt8) :
    SwOnly (writeWindowData tc win px) := by
  apply SwOnly_of_mem
  intro a ha
  rcases wwd_controls tc win px a ha with h | ⟨chip, _, h | ⟨d, h⟩⟩
  · exact absurd (h ▸ ha) (wwd_no_panic g tc)
  · exact ⟨_, _, h⟩
  · exact ⟨_, _, h⟩

/-- bytes on the bus while exactly `chip` is selected and D/C is high -/
def busStream (chip : Nat) : List (Nat × Nat × Bytes) → Bytes
  | [] => []
  | (cs, dc, b) :: ws => if cs = chip ∧ dc = 3 then b ++ busStream chip ws else busStream chip ws

/-- for control words below 32 (all the driver uses) the act-level stream IS the bus-level one -/
theorem stream_on_bus (chip : Nat) (hchip : chip < 16) : ∀ (acts : List BAct),
    (∀ c d, BAct.sw c d ∈ acts → c < 32) → streamOf chip acts = busStream chip (wireOf acts)
  | [], _ => rfl
  | a :: as, h => by
    have ih := stream_on_bus chip hchip as (fun c d hm => h c d (List.mem_cons_of_mem _ hm))
    cases a with
    | sw c d =>
      have hc := h c d (List.mem_cons_self ..)
      simp only [streamOf, wireOf, busStream, CS_DATA, ih]
      by_cases h1 : c = chip + 16
      · have e1 : c % 16 = chip := by omega
        have e2 : c / 16 % 2 = 1 := by omega
        rw [if_pos h1, if_pos e2, if_pos ⟨e1, rfl⟩]
      · rw [if_neg h1]
        by_cases h4 : c / 16 % 2 = 1
        · rw [if_pos h4, if_neg (by intro ⟨h2, _⟩; exact h1 (by omega))]
        · rw [if_neg h4, if_neg (by intro ⟨_, h3⟩; cases h3)]
    | flush => simpa only [streamOf, wireOf] using ih
    | waitReady => simpa only [streamOf, wireOf] using ih
    | delayMs _ => simpa only [streamOf, wireOf] using ih
    | delayUs _ => simpa only [streamOf, wireOf] using ih
    | resetSeq => simpa only [streamOf, wireOf] using ih
    | getStatus => simpa only [streamOf, wireOf] using ih
    | busyQuery => simpa only [streamOf, wireOf] using ih
    | panic => simpa only [streamOf, wireOf] using ih

theorem wwd_lt32 (tc : UInt8) (win : Rect) (px : Bytes) (c : Nat) (d : Bytes)
    (h : BAct.sw c d ∈ writeWindowData tc win px) : c < 32 := by
  rcases wwd_controls tc win px _ h with h | ⟨chip, hm, h | ⟨d', h⟩⟩
  · cases h
  · injection h with h1 _
    simp only [List.mem_cons, List.mem_nil_iff, or_false, CS_S2, CS_M2, CS_M1, CS_S1] at hm
    omega
  · injection h with h1 _
    simp only [List.mem_cons, List.mem_nil_iff, or_false, CS_S2, CS_M2, CS_M1, CS_S1, CS_DATA] at hm h1
    omega

/-- `write_data{1,2}_partial(window, pixels)` on a window of the property's domain, entered with
    the lines released: returns Ok, the lines are released again, and the bus carried exactly
    PartialIn to all, the four specified 0x90 blocks each to its own chip, the tiled data of
    `write_window_data` (see `tile_*`: the bus-level stream per chip is `streamOf`), PartialOut to
    all. -/
theorem write_partial_on_bus {win : Rect} {px : Bytes} {k : Nat} (g : Good win px k) (tc : UInt8) (e : BEnv)
    (he : Released e) :
    let acts := writePartial tc win px ++ [.flush]
    acts = Big.cmd CS_ALL Command.PartialIn ++
      (Big.cmdData CS_S2 Command.PartialWindow (wantWindow win s2Rect true) ++
       Big.cmdData CS_M2 Command.PartialWindow (wantWindow win m2Rect true) ++
       Big.cmdData CS_M1 Command.PartialWindow (wantWindow win m1Rect false) ++
       Big.cmdData CS_S1 Command.PartialWindow (wantWindow win s1Rect false)) ++
      writeWindowData tc win px ++ Big.cmd CS_ALL Command.PartialOut ++ [.flush] ∧
    (runB e acts).2.2 = .ok ∧ Released (runB e acts).2.1 ∧ wEvs (runB e acts).1 = wireOf acts ∧
    ∀ chip, chip < 16 →
      busStream chip (wireOf (writeWindowData tc win px)) = streamOf chip (writeWindowData tc win px) := by
  have hax := g.ax; have haw := g.aw
  intro acts
  have hform : acts = Big.cmd CS_ALL Command.PartialIn ++
      (Big.cmdData CS_S2 Command.PartialWindow (wantWindow win s2Rect true) ++
       Big.cmdData CS_M2 Command.PartialWindow (wantWindow win m2Rect true) ++
       Big.cmdData CS_M1 Command.PartialWindow (wantWindow win m1Rect false) ++
       Big.cmdData CS_S1 Command.PartialWindow (wantWindow win s1Rect false)) ++
      writeWindowData tc win px ++ Big.cmd CS_ALL Command.PartialOut ++ [.flush] := by
    simp only [acts, writePartial]
    rw [if_neg (by omega), windows_programmed win g.inx g.iny]
    simp only [List.nil_append, CS_ALLm]
  have hsw : SwOnly acts := by
    rw [hform]
    refine SwOnly_append _ _ (SwOnly_append _ _ (SwOnly_append _ _ (SwOnly_append _ _ ?_ ?_) (wwd_SwOnly g tc)) ?_) ?_
    · simp [Big.cmd, SwOnly]
    · simp [Big.cmdData, SwOnly]
    · simp [Big.cmd, SwOnly]
    · simp [SwOnly]
  have hi : PinsInv e := by
    unfold PinsInv; rw [he.1, he.2.1, he.2.2]; simp
  have tr := transport acts e hsw hi
  refine ⟨hform, tr.2.1, ?_, tr.1, ?_⟩
  · have hrel : relAfter true acts = true := by simp only [acts, relAfter_append, relAfter_flush]
    exact run_released acts e true (fun _ => he) hrel tr.2.1
  · intro chip hchip
    exact (stream_on_bus chip hchip _ (wwd_lt32 tc win px)).symm

/-- the full frame is a window of the domain for every buffer of `k ≥ 1` whole 163-byte rows -/
theorem full_good (px : Bytes) (k : Nat) (hk : 0 < k) (h : px.length = k * 163) : Good fullRect px k :=
  { ax := by decide, aw := by decide, inx := by decide, iny := by decide, hk := hk, hw := by decide, len := h }

/-- `write_data{1,2}(pixels)`: same for the whole panel (no window programming) -/
theorem write_full_on_bus (px : Bytes) (k : Nat) (hk : 0 < k) (h : px.length = k * 163) (tc : UInt8) (e : BEnv)
    (he : Released e) :
    let acts := writeWindowData tc fullRect px ++ [.flush]
    (runB e acts).2.2 = .ok ∧ Released (runB e acts).2.1 ∧ wEvs (runB e acts).1 = wireOf acts ∧
    Tiled CS_S2 s2Rect tc fullRect px ∧ Tiled CS_M2 m2Rect tc fullRect px ∧
    Tiled CS_M1 m1Rect tc fullRect px ∧ Tiled CS_S1 s1Rect tc fullRect px := by
  intro acts
  have g := full_good px k hk h
  have hsw : SwOnly acts := SwOnly_append _ _ (wwd_SwOnly g tc) (by simp [SwOnly])
  have hi : PinsInv e := by
    unfold PinsInv; rw [he.1, he.2.1, he.2.2]; simp
  have tr := transport acts e hsw hi
  have hrel : relAfter true acts = true := by simp only [acts, relAfter_append, relAfter_flush]
  exact ⟨tr.2.1, run_released acts e true (fun _ => he) hrel tr.2.1, tr.1, tile_S2 g tc, tile_M2 g tc,
    tile_M1 g tc, tile_S1 g tc⟩

/-! ## the mode register -/

/-- all 16 polarity/border configurations: DDX = (inverted_r, !inverted_kw) in bits 1:0, the border
    selector in bits 5:4 and nothing else set … -/
theorem modeReg_bits : ∀ kw r : Bool, ∀ b : Fin 4, ∀ x : Bool,
    modeReg ⟨kw, r, b.val, x⟩ % 4 = (if r then 2 else 0) + (if kw then 0 else 1) ∧
    modeReg ⟨kw, r, b.val, x⟩ / 64 = 0 ∧ modeReg ⟨kw, r, b.val, x⟩ / 4 % 4 = 0 := by
  decide

/-- … and they are 16 distinct register values -/
theorem modeReg_injective : ∀ kw r kw' r' : Bool, ∀ b b' : Fin 4,
    modeReg ⟨kw, r, b.val, false⟩ = modeReg ⟨kw', r', b'.val, false⟩ → kw = kw' ∧ r = r' ∧ b = b' := by
  decide

/-! ## framing on this transport (C10's clause for the 12.48in driver) -/

/-- every transfer a program asks for: a control word below 32; without `CS_DATA` (both D/C lines
    low) exactly ONE byte — a command -/
def Framed (acts : List BAct) : Prop :=
  ∀ a, a ∈ acts → ∀ c d, a = BAct.sw c d → c < 32 ∧ (c < 16 → d.length = 1)

theorem Framed_append {a b : List BAct} (ha : Framed a) (hb : Framed b) : Framed (a ++ b) := by
  intro x hx c d he
  rcases List.mem_append.1 hx with h | h
  · exact ha x h c d he
  · exact hb x h c d he

theorem Framed_nil : Framed [] := by intro x hx; cases hx

theorem Framed_cmd (chips : Nat) (h : chips < 16) (tc : UInt8) : Framed (Big.cmd chips tc) := by
  intro x hx c d he
  simp only [Big.cmd, List.mem_singleton] at hx
  subst hx
  injection he with h1 h2
  subst h1; subst h2
  exact ⟨by omega, fun _ => rfl⟩

theorem Framed_cmdData (chips : Nat) (h : chips < 16) (tc : UInt8) (ds : Bytes) : Framed (Big.cmdData chips tc ds) := by
  intro x hx c d he
  simp only [Big.cmdData, List.mem_cons, List.mem_nil_iff, or_false] at hx
  rcases hx with hx | hx
  · subst hx
    injection he with h1 h2
    subst h1; subst h2
    exact ⟨by omega, fun _ => rfl⟩
  · subst hx
    injection he with h1 h2
    subst h1
    simp only [DATA, CS_DATA]
    exact ⟨by omega, fun hh => by omega⟩

theorem Framed_other (a : BAct) (h : ∀ c d, a ≠ BAct.sw c d) : Framed [a] := by
  intro x hx c d he
  simp only [List.mem_singleton] at hx
  subst hx
  exact absurd he (h c d)

theorem Framed_wwd (tc : UInt8) (win : Rect) (px : Bytes) : Framed (writeWindowData tc win px) := by
  intro x hx c d he
  rcases wwd_controls tc win px x hx with h | ⟨chip, hm, h | ⟨d', h⟩⟩
  · rw [h] at he; cases he
  · rw [h] at he
    injection he with h1 h2
    subst h1; subst h2
    simp only [List.mem_cons, List.mem_nil_iff, or_false, CS_S2, CS_M2, CS_M1, CS_S1] at hm
    exact ⟨by omega, fun _ => rfl⟩
  · rw [h] at he
    injection he with h1 h2
    subst h1
    simp only [List.mem_cons, List.mem_nil_iff, or_false, CS_S2, CS_M2, CS_M1, CS_S1, CS_DATA] at hm ⊢
    exact ⟨by omega, fun hh => by omega⟩

theorem Framed_guard (g : List BAct) (h : g = [] ∨ g = [.panic]) : Framed g := by
  rcases h with h | h
  · rw [h]; exact Framed_nil
  · rw [h]; exact Framed_other _ (by intro c d hh; cases hh)

theorem partialWindowData_guard (w : Rect) (r : Option Nat) :
    (partialWindowData w r).1 = [] ∨ (partialWindowData w r).1 = [.panic] := by
  unfold partialWindowData
  split
  · exact Or.inl rfl
  · cases r with
    | none => exact Or.inl rfl
    | some width =>
      simp only
      split
      · exact Or.inl rfl
      · exact Or.inr rfl

theorem localPart_guard (win r : Rect) : (localPart win r).1 = [] ∨ (localPart win r).1 = [.panic] := by
  unfold localPart
  simp only
  split
  · exact Or.inl rfl
  · exact Or.inr rfl

theorem Framed_setup (win : Rect) : Framed (setupPartialWindows win) := by
  unfold setupPartialWindows
  split
  · exact Framed_other _ (by intro c d hh; cases hh)
  · simp only
    refine Framed_append (Framed_append (Framed_append (Framed_append (Framed_append (Framed_append (Framed_append
      (Framed_append (Framed_append (Framed_append (Framed_append ?_ ?_) ?_) ?_) ?_) ?_) ?_) ?_) ?_) ?_) ?_) ?_
    all_goals first
      | exact Framed_guard _ (localPart_guard _ _)
      | exact Framed_guard _ (partialWindowData_guard _ _)
      | exact Framed_cmdData _ (by decide) _ _

theorem Framed_setMode (c : Cfg) : Framed (setMode c) := by
  unfold setMode
  simp only
  refine Framed_append (Framed_append (Framed_append (Framed_append (Framed_append ?_ ?_) ?_) ?_) ?_) ?_
  all_goals first
    | exact Framed_cmdData _ (by decide) _ _
    | exact Framed_other _ (by intro c d hh; cases hh)

theorem Framed_beginRefresh : Framed beginRefresh := by
  unfold beginRefresh
  refine Framed_append (Framed_append (Framed_append (Framed_cmd _ (by decide) _) ?_) (Framed_cmd _ (by decide) _)) ?_
  · intro x hx c d he
    simp only [List.mem_cons, List.mem_nil_iff, or_false] at hx
    rcases hx with h | h <;> (rw [h] at he; cases he)
  · exact Framed_other _ (by intro c d hh; cases hh)

theorem Framed_beginRefreshPartial (w : Rect) : Framed (beginRefreshPartial w) := by
  unfold beginRefreshPartial
  refine Framed_append (Framed_append (Framed_append (Framed_append (Framed_append (Framed_append (Framed_setup w)
    (Framed_cmd _ (by decide) _)) ?_) (Framed_cmd _ (by decide) _)) (Framed_cmd _ (by decide) _)) (Framed_cmd _ (by decide) _)) ?_
  · intro x hx c d he
    simp only [List.mem_cons, List.mem_nil_iff, or_false] at hx
    rcases hx with h | h <;> (rw [h] at he; cases he)
  · exact Framed_other _ (by intro c d hh; cases hh)

theorem Framed_writePartial (tc : UInt8) (win : Rect) (px : Bytes) : Framed (writePartial tc win px) := by
  unfold writePartial
  refine Framed_append (Framed_append (Framed_append (Framed_append ?_ (Framed_cmd _ (by decide) _)) (Framed_setup win))
    (Framed_wwd tc win px)) (Framed_cmd _ (by decide) _)
  split
  · exact Framed_other _ (by intro c d hh; cases hh)
  · exact Framed_nil

/-- C10 for the 12.48in driver's model: the program of EVERY public call, for every argument, asks
    only for single-byte command transfers and data transfers with `CS_DATA` set (with `transport`:
    that is what reaches the bus, with both D/C lines at the level of the control word) -/
theorem prog_framed (op : PubOp) : Framed (progOf op) := by
  have fl : Framed [BAct.flush] := Framed_other _ (by intro c d hh; cases hh)
  have wr : Framed [BAct.waitReady] := Framed_other _ (by intro c d hh; cases hh)
  cases op <;> unfold progOf
  case reset => exact Framed_other _ (by intro c d hh; cases hh)
  case init c =>
    unfold initP
    refine Framed_append (Framed_append (Framed_append (Framed_append (Framed_append (Framed_append (Framed_append (Framed_append
      (Framed_append (Framed_append (Framed_append ?_ ?_) ?_) ?_) ?_) ?_) ?_) ?_) ?_) ?_) (Framed_setMode c)) fl
    all_goals exact Framed_cmdData _ (by decide) _ _
  case mode c => exact Framed_setMode c
  case d1 px => exact Framed_append (Framed_wwd _ _ _) fl
  case d2 px => exact Framed_append (Framed_wwd _ _ _) fl
  case d1p w px => exact Framed_append (Framed_writePartial _ _ _) fl
  case d2p w px => exact Framed_append (Framed_writePartial _ _ _) fl
  case refresh => exact Framed_append Framed_beginRefresh wr
  case brefresh => exact Framed_beginRefresh
  case refreshp w => exact Framed_append (Framed_beginRefreshPartial w) wr
  case brefreshp w => exact Framed_beginRefreshPartial w
  case poweroff =>
    refine Framed_append (Framed_cmd _ (by decide) _) ?_
    intro x hx c d he
    simp only [List.mem_cons, List.mem_nil_iff, or_false] at hx
    rcases hx with h | h <;> (rw [h] at he; cases he)
  case hibernate =>
    exact Framed_append (Framed_append (Framed_append (Framed_cmd _ (by decide) _) wr) (Framed_cmdData _ (by decide) _ _)) fl
  case lut c n d =>
    unfold setLut
    refine Framed_append (Framed_append (Framed_cmdData _ (by decide) _ _) ?_) fl
    split
    · intro x hx c' d' he
      simp only [List.mem_singleton] at hx
      subst hx
      injection he with h1 h2
      subst h1
      simp only [CS_ALLm, CS_ALL, DATA, CS_DATA]
      exact ⟨by omega, fun hh => by omega⟩
    · exact Framed_nil
  case status => exact Framed_other _ (by intro c d hh; cases hh)
  case busy => exact Framed_other _ (by intro c d hh; cases hh)

/-! ## non-vacuity -/

/-- a seam-straddling window with a two-row buffer meets the hypotheses -/
example : Good ⟨640, 490, 16, 4⟩ (List.replicate 4 0xAB) 2 :=
  { ax := by decide, aw := by decide, inx := by decide, iny := by decide, hk := by decide, hw := by decide, len := by decide }

example : Released ({} : BEnv) := ⟨rfl, rfl, rfl⟩

end EpdVerif.Props.C15
