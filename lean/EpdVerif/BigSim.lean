import EpdVerif.Big
import EpdVerif.Ctrl.Uc
/-!
# The 12.48in panel as four simulated controllers

The trace of the 12.48in driver (implementation's or model's) is split per sub-controller — a
chip listens while its chip select is low, takes a byte as a command when its pair's D/C line is
low, and is reset by a low-then-high pulse of its pair's reset line — and fed to four instances
of the UC81xx simulator of `Ctrl/Uc.lean` (the same specification the trait drivers are judged
with: image planes, partial mode and window, power, deep sleep, register log).  The oracles
here judge controller STATE, so they see what a history leaves behind (a chip still in partial
mode, a stale window, registers lost in deep sleep):

* `C02` — after ANY history, a full-frame write leaves every chip's plane equal to the tiling of
  the caller's buffer (all of it: full-frame writes cover every byte of all four planes);
* `C06` — after a partial write, each chip's plane is its previous content with exactly the
  window ∩ sub-display replaced (mirrored chips: at the mirrored column);
* `C08` — `hibernate` leaves all four chips in deep sleep with nothing sent afterwards; every
  `init` after a reset leaves each chip's registers equal to those of the model's fresh
  `reset; init` with the same configuration;
* `C18` — every register block has a defined opcode and the block length the controller expects,
  TconResolution is the chip's own geometry, no data block carries more than its target holds.
-/
namespace EpdVerif.BigSim
open EpdVerif EpdVerif.Big EpdVerif.Gen.Epd12in48b_v2

structure QChip where
  u : Uc
  cur : Option UInt8 := none
  acc : List Bytes := []        -- reversed pieces of the open block's data
  deriving Inhabited

def QChip.close (c : QChip) : QChip :=
  match c.cur with
  | none => c
  | some cmd => { c with u := c.u.feed (.c cmd c.acc.reverse.flatten), cur := none, acc := [] }

def QChip.command (c : QChip) (b : UInt8) : QChip := { c.close with cur := some b }

def QChip.data (c : QChip) (bs : Bytes) : QChip :=
  match c.cur with
  | none => { c with u := c.u.feed (.stray bs) }
  | some _ => { c with acc := bs :: c.acc }

/-- chips indexed by the bit of the control word: 0 = M1, 1 = S1, 2 = M2, 3 = S2 -/
def chipRect (k : Nat) : Rect := if k = 0 then m1Rect else if k = 1 then s1Rect else if k = 2 then m2Rect else s2Rect
def chipName (k : Nat) : String := if k = 0 then "M1" else if k = 1 then "S1" else if k = 2 then "M2" else "S2"
def chipMirror (k : Nat) : Bool := k ≥ 2

structure Quad where
  chips : Array QChip
  low : Array Bool := #[false, false]
  deriving Inhabited

def Quad.init : Quad :=
  { chips := (Array.range 4).map fun k => { u := Uc.por (chipRect k).w (chipRect k).h 1 9 false } }

def Quad.ev (q : Quad) : BEv → Quad
  | .w cs dc _ bytes =>
    { q with chips := (Array.range 4).map fun k =>
        let c := q.chips[k]!
        if cs / 2 ^ k % 2 = 1 then
          let d := if k < 2 then dc % 2 else dc / 2 % 2
          if d = 0 then bytes.foldl (fun c b => c.command b) c else c.data bytes
        else c }
  | .rst line lvl =>
    if !lvl then { q with low := q.low.set! line true }
    else if q.low[line]! then
      { q with low := q.low.set! line false,
               chips := (Array.range 4).map fun k =>
                 let c := q.chips[k]!
                 -- (the register log restarts: what was programmed before the pulse is lost)
                 if k / 2 = line then { c.close with u := { c.close.u.feed .rst with regs := [], epis := [] } } else c }
    else q
  | _ => q

def Quad.opEnd (q : Quad) : Quad := { q with chips := q.chips.map QChip.close }

def Quad.runOp (q : Quad) (o : BOp) : Quad := ((canonB o.evs).foldl Quad.ev q).opEnd

/-- the latest value of every register of a chip (data commands excluded), sorted by opcode -/
def regMap (u : Uc) : List (UInt8 × List UInt8) :=
  let rec go : List (UInt8 × List UInt8) → List (UInt8 × List UInt8) → List (UInt8 × List UInt8)
    | [], acc => acc
    | (c, p) :: r, acc => if acc.any (·.1 == c) then go r acc else go r ((c, p) :: acc)
  -- `regs` is newest first: the first occurrence of an opcode is its latest value
  let m := go u.regs []
  let keep := m.filter fun (c, _) => c ≠ 0x12 ∧ c ≠ 0x04 ∧ c ≠ 0x02 ∧ c ≠ 0x91 ∧ c ≠ 0x92 ∧ c ≠ 0x90 ∧ c ≠ 0x71 ∧ c ≠ 0x07
  keep.mergeSort fun a b => a.1.toNat ≤ b.1.toNat

def showRegs (m : List (UInt8 × List UInt8)) : String :=
  ",".intercalate (m.map fun (c, p) => s!"{hexOf [c]}:{hexOf p}")

/-- block lengths the controllers expect (the driver's own documentation of the LUT sizes; the
    UC81xx register map for the rest); `none` = not a defined register command -/
def blockLen (c : UInt8) : Option Nat :=
  if c = 0x00 then some 1 else if c = 0x02 then some 0 else if c = 0x04 then some 0 else if c = 0x06 then some 4
  else if c = 0x07 then some 1 else if c = 0x12 then some 0 else if c = 0x15 then some 1
  else if c = 0x20 then some 60 else if c = 0x21 then some 42 else if c = 0x22 then some 60 else if c = 0x23 then some 60
  else if c = 0x24 then some 60 else if c = 0x25 then some 42 else if c = 0x2B then some 1 else if c = 0x50 then some 2
  else if c = 0x60 then some 1 else if c = 0x61 then some 4 else if c = 0x71 then some 0 else if c = 0x90 then some 9
  else if c = 0x91 then some 0 else if c = 0x92 then some 0 else if c = 0xE0 then some 1 else if c = 0xE3 then some 1
  else if c = 0xE5 then some 1 else none

def firstDiff (a b : List UInt8) : Nat :=
  let rec go : List UInt8 → List UInt8 → Nat → Nat
    | x :: xs, y :: ys, k => if x = y then go xs ys (k + 1) else k
    | _, _, k => k
  go a b 0

/-- the plane a chip must hold after a partial write of `px` into `win`: previous content with
    the window ∩ sub-display replaced -/
def expectedPartial (prev : Array UInt8) (k : Nat) (win : Rect) (px : Bytes) : Array UInt8 :=
  let r := chipRect k
  let i := isect win r
  if i.isEmpty then prev else
  let stride := r.w / 8
  let lx := i.x - r.x
  let sx := if chipMirror k then r.w - lx - i.w else lx
  let ly := i.y - r.y
  let wb := i.w / 8
  let data := expectedFor win r px
  let rec put : List UInt8 → Nat → Array UInt8 → Array UInt8
    | [], _, a => a
    | b :: bs, j, a => put bs (j + 1) (a.setIfInBounds ((ly + j / wb) * stride + sx / 8 + j % wb) b)
  if wb = 0 then prev else put data 0 prev

/-- all state-based verdicts of one scenario; `fresh cfg` = the model's four chips after `reset; init cfg` -/
def verdicts (props : List String) (sc : Scenario) (t : List BOp) (fresh : String → Option Quad) :
    List (String × Nat × List String) := Id.run do
  let mut q := Quad.init
  let mut f02 : List String := []
  let mut f06 : List String := []
  let mut f08 : List String := []
  let mut f18 : List String := []
  let mut n02 := 0
  let mut n06 := 0
  let mut n08 := 0
  let mut n18 := 0
  let mut k := 0
  let mut sinceReset := false
  for o in t do
    let a := sc.ops.getD k []
    let name := a.headD "?"
    let site := s!"epd12in48b_v2/{name}"
    let before := q
    q := q.runOp o
    if name == "reset" then sinceReset := true
    if o.res == .ok then
      -- C02: a full-frame write after any history
      if props.contains "C02" ∧ (name == "d1" ∨ name == "d2") then
        match a with
        | [_, b] =>
          match makeBuf b with
          | some px =>
            n02 := n02 + 1
            for j in List.range 4 do
              let u := q.chips[j]!.u
              let got := (if name == "d1" then u.p1 else u.p2).toList
              let want := expectedFor fullRect (chipRect j) px
              if got ≠ want ∧ ¬ (before.chips[j]!.u.asleep) then
                f02 := f02 ++ [s!"site={site} reason=plane-differs-after-history got={chipName j}:{String.ofList (Nat.toDigits 16 (fnv1a got).toNat)}@{firstDiff got want} want={chipName j}:{String.ofList (Nat.toDigits 16 (fnv1a want).toNat)} op={k}"]
          | none => pure ()
        | _ => pure ()
      -- C06: a partial write replaces exactly window ∩ sub-display
      if props.contains "C06" ∧ (name == "d1p" ∨ name == "d2p") then
        match a with
        | [_, x, y, w, h, b] =>
          match parseWin [x, y, w, h], makeBuf b with
          | some win, some px =>
            if inPanel win ∧ win.x % 8 = 0 ∧ win.w % 8 = 0 ∧ px.length % (win.w / 8) = 0 ∧ ¬ win.isEmpty then
              n06 := n06 + 1
              for j in List.range 4 do
                let u := q.chips[j]!.u
                let ub := before.chips[j]!.u
                let got := if name == "d1p" then u.p1 else u.p2
                let want := expectedPartial (if name == "d1p" then ub.p1 else ub.p2) j win px
                if got.toList ≠ want.toList ∧ ¬ ub.asleep then
                  f06 := f06 ++ [s!"site={site} reason=plane-differs-after-partial got={chipName j}:{String.ofList (Nat.toDigits 16 (fnv1a got.toList).toNat)}@{firstDiff got.toList want.toList} want={chipName j}:{String.ofList (Nat.toDigits 16 (fnv1a want.toList).toNat)} win={win.x},{win.y},{win.w},{win.h} op={k}"]
                if u.partialOn then
                  f06 := f06 ++ [s!"site={site} reason=left-in-partial-mode got={chipName j}:partial-in want=partial-out op={k}"]
          | _, _ => pure ()
        | _ => pure ()
      -- C08: sleep ends deep, wake restores the registers
      if props.contains "C08" ∧ name == "hibernate" then
        n08 := n08 + 1
        for j in List.range 4 do
          let u := q.chips[j]!.u
          let ub := before.chips[j]!.u
          if ¬ u.asleep then
            f08 := f08 ++ [s!"site={site} reason=not-in-deep-sleep got={chipName j}:awake want=deep-sleep op={k}"]
          else if ¬ ub.asleep ∧ u.ignored ≠ ub.ignored then
            f08 := f08 ++ [s!"site={site} reason=traffic-after-deep-sleep got={chipName j}:{u.ignored - ub.ignored}blocks want=none op={k}"]
      if props.contains "C08" ∧ name == "init" ∧ sinceReset then
        match a with
        | [_, cfg] =>
          match fresh cfg with
          | some fq =>
            n08 := n08 + 1
            for j in List.range 4 do
              let got := regMap q.chips[j]!.u
              let want := regMap fq.chips[j]!.u
              if got ≠ want then
                f08 := f08 ++ [s!"site={site} reason=wake-registers-differ got={chipName j}:{showRegs (got.filter fun g => ¬ want.contains g)} want={chipName j}:{showRegs (want.filter fun g => ¬ got.contains g)} op={k}"]
          | none => pure ()
        | _ => pure ()
    -- C18: every new register block / data episode of this operation
    if props.contains "C18" then
      n18 := n18 + 1
      for j in List.range 4 do
        let u := q.chips[j]!.u
        let ub := before.chips[j]!.u
        if ub.asleep then continue
        let newRegs := if name == "reset" then [] else u.regs.take (u.regs.length - ub.regs.length)
        for (c, p) in newRegs.reverse do
          match blockLen c with
          | none => f18 := f18 ++ [s!"site={site} reason=undefined-command got={chipName j}:{hexOf [c]} want=defined op={k}"]
          | some len =>
            -- (a caller's LUT table longer than the register is sent as it is: outside the quantifier)
            let callerLong : Bool := name == "lut" && (match a with | [_, _, b] => decide (((makeBuf b).map (·.length)).getD 0 > len) | _ => false)
            if p.length ≠ len ∧ o.res == .ok ∧ callerLong = false then
              f18 := f18 ++ [s!"site={site} reason=block-length got={chipName j}:{hexOf [c]}:{p.length} want={len} op={k}"]
            else if c = 0x61 ∧ p.length = 4 then
              let r := chipRect j
              if p ≠ [u8 (r.w / 256), u8 (r.w % 256), u8 (r.h / 256), u8 (r.h % 256)] then
                f18 := f18 ++ [s!"site={site} reason=geometry got={chipName j}:{hexOf p} want={hexOf [u8 (r.w / 256), u8 (r.w % 256), u8 (r.h / 256), u8 (r.h % 256)]} op={k}"]
        let newEps := if name == "reset" then [] else u.epis.take (u.epis.length - ub.epis.length)
        for e in newEps do
          if e.stored < e.count then
            f18 := f18 ++ [s!"site={site} reason=data-exceeds-target got={chipName j}:{e.count} want=<={e.stored} op={k}"]
        if u.ignored ≠ ub.ignored ∧ ¬ ub.asleep ∧ name ≠ "hibernate" then
          f18 := f18 ++ [s!"site={site} reason=traffic-to-sleeping-chip got={chipName j} want=none op={k}"]
    if name == "hibernate" then sinceReset := false
    k := k + 1
  return [("C02", n02, f02.eraseDups), ("C06", n06, f06.eraseDups), ("C08", n08, f08.eraseDups), ("C18", n18, f18.eraseDups)]

/-- the model's four chips after `reset; init cfg` on a fresh driver -/
def freshInit (cfg : String) : Option Quad :=
  let sc : Scenario := { id := "fresh", panel := "epd12in48b_v2", delay := none, sched := [], raise := [], busyLvl := false,
                         fault := none, scribble := false, ops := [["reset"], ["init", cfg]] }
  let t := runOpsB sc sc.ops (mkBEnv sc)
  if t.length = 2 ∧ t.all (·.res == .ok) then some (t.foldl Quad.runOp Quad.init) else none

end EpdVerif.BigSim
