import EpdVerif.Ctrl.Uc
/-!
# UC81xx data transmission: what a data block leaves in a plane

`storeAt` with a position function; linear fill (outside partial mode) and window fill
(partial mode / 2.7in windowed commands).  For every block length, plane size and previous
plane content.
-/
namespace EpdVerif
open Uc

theorem storeAt_size (pos : Nat → Option Nat) (bs : List UInt8) :
    ∀ (a : Array UInt8) (k n : Nat), (storeAt pos a bs k n).1.size = a.size := by
  induction bs with
  | nil => intro a k n; rfl
  | cons b bs ih =>
    intro a k n
    simp only [storeAt]
    split
    · rw [ih]; simp
    · rw [ih]

/-- linear fill: bytes k, k+1, … of the plane take the block's bytes; everything else stays -/
theorem storeAt_lin (size : Nat) (bs : List UInt8) :
    ∀ (a : Array UInt8) (k n : Nat), a.size = size → k + bs.length ≤ size →
      (storeAt (linPos size) a bs k n).2 = n + bs.length ∧
      ∀ i, (storeAt (linPos size) a bs k n).1[i]? =
        if h : k ≤ i ∧ i < k + bs.length then some (bs[i - k]'(by omega)) else a[i]? := by
  induction bs with
  | nil =>
    intro a k n _ _
    refine ⟨rfl, ?_⟩
    intro i
    have : ¬ (k ≤ i ∧ i < k + ([] : List UInt8).length) := by simp
    rw [dif_neg this]; rfl
  | cons b bs ih =>
    intro a k n hs hk
    simp only [List.length_cons] at hk
    have hpos : linPos size k = some k := by unfold linPos; rw [if_pos (by omega)]
    simp only [storeAt, hpos]
    have hlt : k < a.size := by omega
    have := ih (a.setIfInBounds k b) (k + 1) (n + 1) (by simp [hs]) (by omega)
    rw [if_pos hlt]
    refine ⟨by rw [this.1]; simp only [List.length_cons]; omega, ?_⟩
    intro i
    rw [this.2 i]
    by_cases h1 : k + 1 ≤ i ∧ i < k + 1 + bs.length
    · rw [dif_pos h1, dif_pos (by simp only [List.length_cons]; omega)]
      congr 1
      have : i - k = (i - (k + 1)) + 1 := by omega
      simp only [this, List.getElem_cons_succ]
    · rw [dif_neg h1]
      by_cases h2 : i = k
      · subst h2
        rw [dif_pos (by simp only [List.length_cons]; omega)]
        simp [hlt]
      · rw [dif_neg (by simp only [List.length_cons]; omega), Array.getElem?_setIfInBounds_ne (Ne.symm h2)]

/-- a full-length block outside partial mode: the plane IS the block -/
theorem storeAt_lin_full (bs : List UInt8) (a : Array UInt8) (hl : bs.length = a.size) :
    (storeAt (linPos a.size) a bs 0 0).2 = bs.length ∧ (storeAt (linPos a.size) a bs 0 0).1.toList = bs := by
  have h := storeAt_lin a.size bs a 0 0 rfl (by omega)
  refine ⟨by simpa using h.1, ?_⟩
  apply List.ext_getElem?
  intro i
  have hi := h.2 i
  rw [Array.getElem?_toList] at *
  rw [hi]
  by_cases hlt : i < bs.length
  · rw [dif_pos ⟨Nat.zero_le _, by omega⟩]
    simp [hlt]
  · rw [dif_neg (by omega)]
    have : bs[i]? = none := List.getElem?_eq_none (by omega)
    rw [this]
    exact Array.getElem?_eq_none (by omega)

/-- `Uc.dtm` outside partial mode with a block of exactly the plane's size: the plane becomes the
    block, whatever it held before, and one episode (count = stored = size) is logged -/
theorem dtm_full (u : Uc) (plane : Nat) (bs : List UInt8) (hp : u.partialOn = false)
    (hl : bs.length = (if plane = 0 then u.p1 else u.p2).size) :
    (if plane = 0 then (u.dtm plane bs).p1 else (u.dtm plane bs).p2).toList = bs ∧
    (if plane = 0 then (u.dtm plane bs).p2 else (u.dtm plane bs).p1) = (if plane = 0 then u.p2 else u.p1) ∧
    (u.dtm plane bs).epis.head? = some { plane, count := bs.length, stored := bs.length, startAtOrigin := true,
                                         win := (0, 0, u.width - 1, u.height - 1) } ∧
    (u.dtm plane bs).partialOn = false ∧ (u.dtm plane bs).powered = u.powered ∧
    (u.dtm plane bs).asleep = u.asleep ∧ (u.dtm plane bs).refreshes = u.refreshes := by
  have h := storeAt_lin_full bs (if plane = 0 then u.p1 else u.p2) hl
  unfold dtm
  simp only [hp, Bool.false_eq_true, ↓reduceIte]
  by_cases h0 : plane = 0
  · simp only [h0, ↓reduceIte] at h ⊢
    refine ⟨h.2, trivial, ?_, trivial, trivial, trivial, trivial⟩
    rw [h.1]; rfl
  · simp only [h0, ↓reduceIte] at h ⊢
    refine ⟨h.2, trivial, ?_, trivial, trivial, trivial, trivial⟩
    rw [h.1]; rfl

/-- so the result does not depend on what the plane held before (history independence of a
    full-frame write outside partial mode) -/
theorem dtm_full_independent (u u' : Uc) (plane : Nat) (bs : List UInt8)
    (hp : u.partialOn = false) (hp' : u'.partialOn = false)
    (hl : bs.length = (if plane = 0 then u.p1 else u.p2).size)
    (hl' : bs.length = (if plane = 0 then u'.p1 else u'.p2).size) :
    (if plane = 0 then (u.dtm plane bs).p1 else (u.dtm plane bs).p2).toList =
    (if plane = 0 then (u'.dtm plane bs).p1 else (u'.dtm plane bs).p2).toList := by
  rw [(dtm_full u plane bs hp hl).1, (dtm_full u' plane bs hp' hl').1]

/-- a repeated fill of the plane's size leaves the plane uniform -/
theorem dtm_fill_uniform (u : Uc) (plane : Nat) (v : UInt8) (hp : u.partialOn = false) :
    (if plane = 0 then (u.dtm plane (List.replicate (if plane = 0 then u.p1 else u.p2).size v)).p1
      else (u.dtm plane (List.replicate (if plane = 0 then u.p1 else u.p2).size v)).p2).toList
      = List.replicate (if plane = 0 then u.p1 else u.p2).size v :=
  (dtm_full u plane _ hp (by simp)).1

end EpdVerif
