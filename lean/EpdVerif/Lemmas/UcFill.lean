import EpdVerif.Ctrl.Uc
/-!
# UC81xx data transmission: what a data block leaves in a plane

`storeAt` with a position function; linear fill (outside partial mode) and window fill
(partial mode / 2.7in windowed commands).  For every block length, plane size and previous
plane content.
-/
namespace EpdVerif
open Uc

theorem storeAt_size (pos : Nat → Option Nat) (bs : List UInt8) :
    ∀ (a : Array UInt8) (k n : Nat), (storeAt pos a bs k n).1.size = a.size := by
  induction bs with
  | nil => intro a k n; rfl
  | cons b bs ih =>
    intro a k n
    simp only [storeAt]
    split
    · rw [ih]; simp
    · rw [ih]

/-- linear fill: bytes k, k+1, … of the plane take the block's bytes; everything else stays -/
theorem storeAt_lin (size : Nat) (bs : List UInt8) :
    ∀ (a : Array UInt8) (k n : Nat), a.size = size → k + bs.length ≤ size →
      (storeAt (linPos size) a bs k n).2 = n + bs.length ∧
      ∀ i, (storeAt (linPos size) a bs k n).1[i]? =
        if h : k ≤ i ∧ i < k + bs.length then some (bs[i - k]'(by omega)) else a[i]? := by
  induction bs with
  | nil =>
    intro a k n _ _
    refine ⟨rfl, ?_⟩
    intro i
    have : ¬ (k ≤ i ∧ i < k + ([] : List UInt8).length) := by simp
    rw [dif_neg this]; rfl
  | cons b bs ih =>
    intro a k n hs hk
    simp only [List.length_cons] at hk
    have hpos : linPos size k = some k := by unfold linPos; rw [if_pos (by omega)]
    simp only [storeAt, hpos]
    have hlt : k < a.size := by omega
    have := ih (a.setIfInBounds k b) (k + 1) (n + 1) (by simp [hs]) (by omega)
    rw [if_pos hlt]
    refine ⟨by rw [this.1]; simp only [List.length_cons]; omega, ?_⟩
    intro i
    rw [this.2 i]
    by_cases h1 : k + 1 ≤ i ∧ i < k + 1 + bs.length
    · rw [dif_pos h1, dif_pos (by simp only [List.length_cons]; omega)]
      congr 1
      have : i - k = (i - (k + 1)) + 1 := by omega
      simp only [this, List.getElem_cons_succ]
    · rw [dif_neg h1]
      by_cases h2 : i = k
      · subst h2
        rw [dif_pos (by simp only [List.length_cons]; omega)]
        simp [hlt]
      · rw [dif_neg (by simp only [List.length_cons]; omega), Array.getElem?_setIfInBounds_ne (Ne.symm h2)]

/-- a full-length block outside partial mode: the plane IS the block -/
theorem storeAt_lin_full (bs : List UInt8) (a : Array UInt8) (hl : bs.length = a.size) :
    (storeAt (linPos a.size) a bs 0 0).2 = bs.length ∧ (storeAt (linPos a.size) a bs 0 0).1.toList = bs := by
  have h := storeAt_lin a.size bs a 0 0 rfl (by omega)
  refine ⟨by simpa using h.1, ?_⟩
  apply List.ext_getElem?
  intro i
  have hi := h.2 i
  rw [Array.getElem?_toList] at *
  rw [hi]
  by_cases hlt : i < bs.length
  · rw [dif_pos ⟨Nat.zero_le _, by omega⟩]
    simp [hlt]
  · rw [dif_neg (by omega)]
    have : bs[i]? = none := List.getElem?_eq_none (by omega)
    rw [this]
    exact Array.getElem?_eq_none (by omega)

/-- `Uc.dtm` outside partial mode with a block of exactly the plane's size: the plane becomes the
    block, whatever it held before, and one episode (count = stored = size) is logged -/
theorem dtm_full (u : Uc) (plane : Nat) (bs : List UInt8) (hp : u.partialOn = false)
    (hl : bs.length = (if plane = 0 then u.p1 else u.p2).size) :
    (if plane = 0 then (u.dtm plane bs).p1 else (u.dtm plane bs).p2).toList = bs ∧
    (if plane = 0 then (u.dtm plane bs).p2 else (u.dtm plane bs).p1) = (if plane = 0 then u.p2 else u.p1) ∧
    (u.dtm plane bs).epis.head? = some { plane, count := bs.length, stored := bs.length, startAtOrigin := true,
                                         win := (0, 0, u.width - 1, u.height - 1) } ∧
    (u.dtm plane bs).partialOn = false ∧ (u.dtm plane bs).powered = u.powered ∧
    (u.dtm plane bs).asleep = u.asleep ∧ (u.dtm plane bs).refreshes = u.refreshes := by
  have h := storeAt_lin_full bs (if plane = 0 then u.p1 else u.p2) hl
  unfold dtm
  simp only [hp, Bool.false_eq_true, ↓reduceIte]
  by_cases h0 : plane = 0
  · simp only [h0, ↓reduceIte] at h ⊢
    refine ⟨h.2, trivial, ?_, trivial, trivial, trivial, trivial⟩
    rw [h.1]; rfl
  · simp only [h0, ↓reduceIte] at h ⊢
    refine ⟨h.2, trivial, ?_, trivial, trivial, trivial, trivial⟩
    rw [h.1]; rfl

/-- so the result does not depend on what the plane held before (history independence of a
    full-frame write outside partial mode) -/
theorem dtm_full_independent (u u' : Uc) (plane : Nat) (bs : List UInt8)
    (hp : u.partialOn = false) (hp' : u'.partialOn = false)
    (hl : bs.length = (if plane = 0 then u.p1 else u.p2).size)
    (hl' : bs.length = (if plane = 0 then u'.p1 else u'.p2).size) :
    (if plane = 0 then (u.dtm plane bs).p1 else (u.dtm plane bs).p2).toList =
    (if plane = 0 then (u'.dtm plane bs).p1 else (u'.dtm plane bs).p2).toList := by
  rw [(dtm_full u plane bs hp hl).1, (dtm_full u' plane bs hp' hl').1]

/-- a repeated fill of the plane's size leaves the plane uniform -/
theorem dtm_fill_uniform (u : Uc) (plane : Nat) (v : UInt8) (hp : u.partialOn = false) :
    (if plane = 0 then (u.dtm plane (List.replicate (if plane = 0 then u.p1 else u.p2).size v)).p1
      else (u.dtm plane (List.replicate (if plane = 0 then u.p1 else u.p2).size v)).p2).toList
      = List.replicate (if plane = 0 then u.p1 else u.p2).size v :=
  (dtm_full u plane _ hp (by simp)).1

/-! ## window fill (session 4) -/

/-- generic: a position function that is `some (idx k)` with pairwise different, in-range indices on
    `[0, N)` — bytes `k0, k0+1, …` of the block land at `idx k0, idx (k0+1), …`, nothing else moves,
    every byte is stored -/
theorem storeAt_inj (pos : Nat → Option Nat) (idx : Nat → Nat) (N : Nat)
    (hpos : ∀ k, k < N → pos k = some (idx k))
    (hinj : ∀ k k', k < N → k' < N → idx k = idx k' → k = k') (bs : List UInt8) :
    ∀ (a : Array UInt8) (k0 n : Nat), (∀ k, k < N → idx k < a.size) → k0 + bs.length ≤ N →
      (storeAt pos a bs k0 n).2 = n + bs.length ∧
      (∀ i (hi : i < bs.length), (storeAt pos a bs k0 n).1[idx (k0 + i)]? = some bs[i]) ∧
      (∀ j, (∀ i, i < bs.length → idx (k0 + i) ≠ j) → (storeAt pos a bs k0 n).1[j]? = a[j]?) := by
  induction bs with
  | nil =>
    intro a k0 n _ _
    exact ⟨rfl, fun i hi => absurd hi (Nat.not_lt_zero _), fun j _ => rfl⟩
  | cons b bs ih =>
    intro a k0 n hr hk
    simp only [List.length_cons] at hk
    have hp : pos k0 = some (idx k0) := hpos k0 (by omega)
    have hlt : idx k0 < a.size := hr k0 (by omega)
    simp only [storeAt, hp, if_pos hlt]
    have hr' : ∀ k, k < N → idx k < (a.setIfInBounds (idx k0) b).size := by
      intro k hk'; simpa using hr k hk'
    have := ih (a.setIfInBounds (idx k0) b) (k0 + 1) (n + 1) hr' (by omega)
    refine ⟨by rw [this.1]; simp only [List.length_cons]; omega, ?_, ?_⟩
    · intro i hi
      cases i with
      | zero =>
        have h0 := this.2.2 (idx k0) (by
          intro i hi' he
          have := hinj (k0 + 1 + i) k0 (by omega) (by omega) he
          omega)
        simp only [Nat.add_zero, List.getElem_cons_zero]
        rw [h0]
        simp [hlt]
      | succ i =>
        have h1 := this.2.1 i (by simpa using hi)
        have e : k0 + (i + 1) = k0 + 1 + i := by omega
        simp only [List.getElem_cons_succ, e]
        exact h1
    · intro j hj
      have h2 := this.2.2 j (by
        intro i hi
        have := hj (i + 1) (by simp only [List.length_cons]; omega)
        have e : k0 + (i + 1) = k0 + 1 + i := by omega
        rwa [e] at this)
      rw [h2]
      have hne : idx k0 ≠ j := by simpa using hj 0 (by simp)
      exact Array.getElem?_setIfInBounds_ne hne

/-- index of the k-th byte of a window write -/
def winIdx (stride c0 wb r0 k : Nat) : Nat := (r0 + k / wb) * stride + (c0 + k % wb)

theorem winPos_some (stride c0 wb r0 h k : Nat) (hwb : 0 < wb) (hc : c0 + wb ≤ stride) (hk : k < wb * h) :
    winPos stride c0 wb r0 h k = some (winIdx stride c0 wb r0 k) := by
  unfold winPos winIdx
  have h1 : k / wb < h := (Nat.div_lt_iff_lt_mul hwb).2 (by rw [Nat.mul_comm]; exact hk)
  have h2 : k % wb < wb := Nat.mod_lt _ hwb
  rw [if_neg (by omega), if_pos ⟨h1, by omega⟩]

theorem winIdx_inj (stride c0 wb r0 k k' : Nat) (hwb : 0 < wb) (hc : c0 + wb ≤ stride)
    (he : winIdx stride c0 wb r0 k = winIdx stride c0 wb r0 k') : k = k' := by
  unfold winIdx at he
  have h2 : k % wb < wb := Nat.mod_lt _ hwb
  have h2' : k' % wb < wb := Nat.mod_lt _ hwb
  have m1 : ((r0 + k / wb) * stride + (c0 + k % wb)) % stride = c0 + k % wb := by
    rw [Nat.mul_comm, Nat.mul_add_mod]; exact Nat.mod_eq_of_lt (by omega)
  have m2 : ((r0 + k' / wb) * stride + (c0 + k' % wb)) % stride = c0 + k' % wb := by
    rw [Nat.mul_comm, Nat.mul_add_mod]; exact Nat.mod_eq_of_lt (by omega)
  have er : k % wb = k' % wb := by rw [he] at m1; omega
  have eq : (r0 + k / wb) * stride = (r0 + k' / wb) * stride := by omega
  have hs : 0 < stride := by omega
  have eq' : r0 + k / wb = r0 + k' / wb := Nat.eq_of_mul_eq_mul_right hs eq
  have d1 := Nat.div_add_mod k wb
  have d2 := Nat.div_add_mod k' wb
  have e3 : k / wb = k' / wb := by omega
  calc k = wb * (k / wb) + k % wb := d1.symm
    _ = wb * (k' / wb) + k' % wb := by rw [e3, er]
    _ = k' := d2

theorem winIdx_lt (stride c0 wb r0 h k size : Nat) (hwb : 0 < wb) (hc : c0 + wb ≤ stride)
    (hs : (r0 + h) * stride ≤ size) (hk : k < wb * h) : winIdx stride c0 wb r0 k < size := by
  unfold winIdx
  have h1 : k / wb < h := (Nat.div_lt_iff_lt_mul hwb).2 (by rw [Nat.mul_comm]; exact hk)
  have h2 : k % wb < wb := Nat.mod_lt _ hwb
  have : (r0 + k / wb + 1) * stride ≤ (r0 + h) * stride := Nat.mul_le_mul_right _ (by omega)
  rw [Nat.add_mul, Nat.one_mul] at this
  omega

/-- **window fill (UC81xx partial mode / 2.7in windowed data)**: a block of exactly `wb * h` bytes
    fills the window row by row — byte `k` at row `r0 + k / wb`, byte column `c0 + k % wb` — every
    byte is stored (none dropped), and every cell outside the window keeps its content.  Any window
    inside the plane, any stride, any previous content. -/
theorem storeAt_window (stride c0 wb r0 h : Nat) (a : Array UInt8) (bs : List UInt8)
    (hwb : 0 < wb) (hc : c0 + wb ≤ stride) (hs : (r0 + h) * stride ≤ a.size) (hl : bs.length = wb * h) :
    (storeAt (winPos stride c0 wb r0 h) a bs 0 0).2 = wb * h ∧
    (storeAt (winPos stride c0 wb r0 h) a bs 0 0).1.size = a.size ∧
    (∀ k (hk : k < bs.length), (storeAt (winPos stride c0 wb r0 h) a bs 0 0).1[winIdx stride c0 wb r0 k]? = some bs[k]) ∧
    (∀ j, (∀ k, k < wb * h → winIdx stride c0 wb r0 k ≠ j) →
      (storeAt (winPos stride c0 wb r0 h) a bs 0 0).1[j]? = a[j]?) := by
  have g := storeAt_inj (winPos stride c0 wb r0 h) (winIdx stride c0 wb r0) (wb * h)
    (fun k hk => winPos_some stride c0 wb r0 h k hwb hc hk)
    (fun k k' _ _ he => winIdx_inj stride c0 wb r0 k k' hwb hc he) bs a 0 0
    (fun k hk => winIdx_lt stride c0 wb r0 h k a.size hwb hc hs hk) (by omega)
  refine ⟨by rw [g.1, hl]; omega, storeAt_size _ _ _ _ _, ?_, ?_⟩
  · intro k hk
    have := g.2.1 k hk
    rwa [Nat.zero_add] at this
  · intro j hj
    apply g.2.2 j
    intro i hi
    rw [Nat.zero_add]
    exact hj i (by omega)

end EpdVerif
