import EpdVerif.Props.C10
import EpdVerif.Ctrl.Common
/-!
# The controller's view of a complete run is the program's block list

For every program without status-polling waits, every environment without an injected fault:
if the run completes, regrouping the trace's events into controller blocks gives exactly
`blocksOf acts` — whatever the busy schedule, the idle delay or the chunking were.
This is what lets the data-plane theorems speak about `blocksOf (program)`.
-/
namespace EpdVerif
open Props.C10

/-- events the block grouping ignores -/
def inert : Ev → Prop
  | .busy _ => True
  | .delay _ _ => True
  | _ => False

theorem fold_inert (evs : List Ev) (h : ∀ e ∈ evs, inert e) (g : GState) :
    evs.foldl GState.step g = g := by
  induction evs generalizing g with
  | nil => rfl
  | cons e es ih =>
    have he := h e (List.mem_cons_self ..)
    have : GState.step g e = g := by cases e <;> simp [inert] at he <;> rfl
    simp only [List.foldl_cons, this]
    exact ih (fun e' he' => h e' (List.mem_cons_of_mem _ he')) g

theorem waitLoop_inert (e : Env) (busyLow : Bool) (n : Nat) :
    ∀ ev ∈ (waitLoop e busyLow n).1, inert ev := by
  induction n with
  | zero => intro ev hev; simp [waitLoop] at hev; subst hev; trivial
  | succ n ih =>
    intro ev hev
    simp only [waitLoop] at hev
    split at hev
    · rcases List.mem_cons.1 hev with rfl | hev
      · trivial
      · rcases List.mem_append.1 hev with h | h
        · unfold delayEvs at h; split at h <;> simp at h; subst h; trivial
        · exact ih ev h
    · simp at hev; subst hev; trivial

/-- the grouping state never looks at the chunk size of a burst -/
theorem step_chunk (g : GState) (dc : Bool) (c c' : Nat) (bs : List UInt8) :
    GState.step g (.w dc c bs) = GState.step g (.w dc c' bs) := by
  cases dc <;> rfl

/-- a reset pulse and the two-event abstraction of it act alike on a grouping state -/
theorem fold_reset (g : GState) (a b : Nat) (hl : g.rstLow = false) :
    (resetEvs a b).foldl GState.step g = [Ev.rst false, Ev.rst true].foldl GState.step g ∧
    ([Ev.rst false, Ev.rst true].foldl GState.step g).rstLow = false := by
  simp only [resetEvs, List.foldl_cons, List.foldl_nil]
  have h1 : ∀ g : GState, ∀ u n, GState.step g (.delay u n) = g := fun _ _ _ => rfl
  simp only [h1]
  have : GState.step g (.rst true) = g := by simp [GState.step, hl]
  rw [this]
  simp [GState.step]

theorem cmds_rstLow (bs : List UInt8) : ∀ g : GState, (g.cmds bs).rstLow = g.rstLow := by
  induction bs with
  | nil => intro g; rfl
  | cons c cs ih =>
    intro g
    simp only [GState.cmds]
    rw [ih]
    unfold GState.close
    split
    · rfl
    · split <;> rfl

theorem step_w_rstLow (g : GState) (dc : Bool) (c : Nat) (bs : List UInt8) :
    (GState.step g (.w dc c bs)).rstLow = g.rstLow := by
  cases dc
  · exact cmds_rstLow bs g
  · rfl

/-- MAIN -/
theorem fold_runActs (acts : List Act) :
    ∀ (e : Env) (d : DState) (g : GState), e.fault = none → plain acts → g.rstLow = false →
      (runActs e d acts).2.2.2 = .ok →
      (runActs e d acts).1.foldl GState.step g = (actsToEvs acts).foldl GState.step g ∧
      ((actsToEvs acts).foldl GState.step g).rstLow = false := by
  induction acts with
  | nil => intro e d g _ _ hl _; exact ⟨rfl, hl⟩
  | cons a as ih =>
    intro e d g hf hp hl hok
    have hres : (stepAct e d a).2.2.2 = .ok := by
      cases h : (stepAct e d a).2.2.2 with
      | ok => rfl
      | err => simp [runActs, h] at hok
      | panic => simp [runActs, h] at hok
      | hang => simp [runActs, h] at hok
    -- generic step: the act's events and its abstraction act alike on `g`
    have key : ∀ (evs : List Ev) (e' : Env) (d' : DState) (abs : List Ev),
        stepAct e d a = (evs, e', d', .ok) → e'.fault = none → plain as →
        actsToEvs (a :: as) = abs ++ actsToEvs as →
        evs.foldl GState.step g = abs.foldl GState.step g →
        (abs.foldl GState.step g).rstLow = false →
        (runActs e d (a :: as)).1.foldl GState.step g = (actsToEvs (a :: as)).foldl GState.step g ∧
        ((actsToEvs (a :: as)).foldl GState.step g).rstLow = false := by
      intro evs e' d' abs hs hf' hpl habs hfold hrl
      have hrun : runActs e d (a :: as) =
          (evs ++ (runActs e' d' as).1, (runActs e' d' as).2.1, (runActs e' d' as).2.2.1,
            (runActs e' d' as).2.2.2) := by
        simp only [runActs, hs]
      have hok' : (runActs e' d' as).2.2.2 = .ok := by rw [hrun] at hok; exact hok
      have := ih e' d' (abs.foldl GState.step g) hf' hpl hrl hok'
      rw [hrun, habs]
      simp only [List.foldl_append, hfold]
      exact this
    cases a with
    | cmd c =>
      have hb := burst_evs e false 1 [c] hf
      apply key (evs := [Ev.w false 1 [c]])
        (e' := if e.raise.contains c then e.raiseBusy else e) (d' := d) (abs := [Ev.w false 1 [c]])
      · simp only [stepAct, doCmd, hb.1, hb.2.1, hb.2.2, ↓reduceIte, Bool.true_and]
      · split <;> simp [Env.raiseBusy, hf] <;> split <;> simp [hf]
      · exact hp
      · rfl
      · rfl
      · simp only [List.foldl_cons, List.foldl_nil, step_w_rstLow, hl]
    | data bs =>
      have hb := burst_evs e true e.chunk bs hf
      apply key (evs := [Ev.w true e.chunk bs]) (e' := e) (d' := d) (abs := [Ev.w true 1 bs])
      · simp only [stepAct, hb.1, hb.2.1, hb.2.2, ↓reduceIte]
      · exact hf
      · exact hp
      · rfl
      · simp only [List.foldl_cons, List.foldl_nil]; exact step_chunk g true _ _ bs
      · simp only [List.foldl_cons, List.foldl_nil, step_w_rstLow, hl]
    | rep v n =>
      have hb := burst_evs e true 1 (List.replicate n v) hf
      apply key (evs := [Ev.w true 1 (List.replicate n v)]) (e' := e) (d' := d)
        (abs := [Ev.w true 1 (List.replicate n v)])
      · simp only [stepAct, hb.1, hb.2.1, hb.2.2, ↓reduceIte]
      · exact hf
      · exact hp
      · rfl
      · rfl
      · simp only [List.foldl_cons, List.foldl_nil, step_w_rstLow, hl]
    | wait busyLow =>
      apply key (evs := (waitLoop e busyLow e.busy).1)
        (e' := { e with busy := (waitLoop e busyLow e.busy).2.1 }) (d' := d) (abs := [])
      · simp only [stepAct] at hres ⊢
        split at hres
        · cases hres
        · rename_i h; simp only [stepAct, h]; rfl
      · exact hf
      · exact hp
      · rfl
      · exact fold_inert _ (waitLoop_inert e busyLow e.busy) g
      · exact hl
    | waitCmd b c => exact absurd hp (by simp [plain])
    | reset a b =>
      have hr := fold_reset g a b hl
      apply key (evs := resetEvs a b) (e' := e.raiseBusy) (d' := d) (abs := [Ev.rst false, Ev.rst true])
      · rfl
      · simp [Env.raiseBusy]; split <;> simp [hf]
      · exact hp
      · rfl
      · exact hr.1
      · exact hr.2
    | delayUs n =>
      exact key [Ev.delay .us n] e d [] rfl hf hp rfl rfl hl
    | delayMs n =>
      exact key [Ev.delay .ms n] e d [] rfl hf hp rfl rfl hl
    | upd f =>
      exact key [] e (f d) [] rfl hf hp rfl rfl hl
    | panic => simp [stepAct] at hres

/-- the controller blocks of any complete fault-free run of a plain program -/
theorem blocksOfEvs_runActs (acts : List Act) (e : Env) (d : DState) (hf : e.fault = none)
    (hp : plain acts) (hok : (runActs e d acts).2.2.2 = .ok) :
    blocksOfEvs (runActs e d acts).1 = blocksOf acts := by
  unfold blocksOf blocksOfEvs
  rw [(fold_runActs acts e d {} hf hp rfl hok).1]

end EpdVerif
