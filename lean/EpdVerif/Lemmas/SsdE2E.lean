import EpdVerif.Lemmas.SsdCtl
/-!
# SSD16xx end to end: what a full-frame data block leaves in the RAM, whatever the buffer

`ssd_e2e`: let `blocks` be ANY block list that is shape-equal (same commands and parameters;
data blocks of the same length) to a closed list `blocks0`, let block `k` be a RAM data block
`(c, data)`.  If on the companion run of `blocks0` from the plane-less power-on state the
controller is awake, in entry mode 3, the window lies in the RAM, the counter sits at the window
origin when block `k` arrives and the window holds exactly `data.length` bytes, and no later
block writes or fills that plane — all of which the kernel evaluates on closed terms — then after
the whole real run byte `j` of `data` is at window position `j` (row-major) of the plane, for
every `data`.
-/
namespace EpdVerif
namespace Ssd

theorem ite_prop {c : Prop} [Decidable c] {P : Ssd → Prop} {A B : Ssd} (h1 : P A) (h2 : P B) :
    P (if c then A else B) := by
  by_cases h : c
  · rw [if_pos h]; exact h1
  · rw [if_neg h]; exact h2

/-- `regStep` leaves geometry alone and touches a plane only through its auto-fill command -/
theorem regStep_frame (cmd : UInt8) (ps : List UInt8) (s : Ssd) :
    (regStep cmd ps s).stride = s.stride ∧ (regStep cmd ps s).rows = s.rows ∧
    (cmd ≠ 0x47 → (regStep cmd ps s).bw = s.bw) ∧ (cmd ≠ 0x46 → (regStep cmd ps s).red = s.red) := by
  unfold regStep
  by_cases h0 : cmd = 0x12
  · rw [if_pos h0]
    exact ⟨rfl, rfl, fun _ => rfl, fun _ => rfl⟩
  · rw [if_neg h0]
    by_cases h1 : cmd = 0x11
    · rw [if_pos h1]
      rcases ps with _ | ⟨p0, _ | ⟨p1, t⟩⟩
      all_goals exact ⟨rfl, rfl, fun _ => rfl, fun _ => rfl⟩
    · rw [if_neg h1]
      by_cases h2 : cmd = 0x44
      · rw [if_pos h2]
        rcases hxp : s.xPix with _ | _ <;> (rcases ps with _ | ⟨p0, _ | ⟨p1, _ | ⟨p2, _ | ⟨p3, _ | ⟨p4, t⟩⟩⟩⟩⟩) <;> exact ⟨rfl, rfl, fun _ => rfl, fun _ => rfl⟩
      · rw [if_neg h2]
        by_cases h3 : cmd = 0x45
        · rw [if_pos h3]
          rcases ps with _ | ⟨p0, _ | ⟨p1, _ | ⟨p2, _ | ⟨p3, _ | ⟨p4, t⟩⟩⟩⟩⟩
          all_goals exact ⟨rfl, rfl, fun _ => rfl, fun _ => rfl⟩
        · rw [if_neg h3]
          by_cases h4 : cmd = 0x4E
          · rw [if_pos h4]
            rcases hxp : s.xPix with _ | _ <;> (rcases ps with _ | ⟨p0, _ | ⟨p1, _ | ⟨p2, t⟩⟩⟩) <;> exact ⟨rfl, rfl, fun _ => rfl, fun _ => rfl⟩
          · rw [if_neg h4]
            by_cases h5 : cmd = 0x4F
            · rw [if_pos h5]
              rcases ps with _ | ⟨p0, _ | ⟨p1, _ | ⟨p2, t⟩⟩⟩
              all_goals exact ⟨rfl, rfl, fun _ => rfl, fun _ => rfl⟩
            · rw [if_neg h5]
              by_cases h6 : cmd = 0x22
              · rw [if_pos h6]
                rcases ps with _ | ⟨p0, _ | ⟨p1, t⟩⟩
                all_goals exact ⟨rfl, rfl, fun _ => rfl, fun _ => rfl⟩
              · rw [if_neg h6]
                by_cases h7 : cmd = 0x20
                · rw [if_pos h7]
                  by_cases hd : s.uc2.toNat / 4 % 2 = 1
                  · rw [if_pos hd]; exact ⟨rfl, rfl, fun _ => rfl, fun _ => rfl⟩
                  · rw [if_neg hd]; exact ⟨rfl, rfl, fun _ => rfl, fun _ => rfl⟩
                · rw [if_neg h7]
                  by_cases h8 : cmd = 0x46
                  · rw [if_pos h8]
                    subst h8
                    rcases ps with _ | ⟨p0, _ | ⟨p1, t⟩⟩
                    all_goals (first | exact ⟨rfl, rfl, fun _ => rfl, fun _ => rfl⟩ | (refine ⟨rfl, rfl, fun _ => ?_, fun h => absurd rfl h⟩; simp only [fillPlane]; rfl))
                  · rw [if_neg h8]
                    by_cases h9 : cmd = 0x47
                    · rw [if_pos h9]
                      subst h9
                      rcases ps with _ | ⟨p0, _ | ⟨p1, t⟩⟩
                      all_goals (first | exact ⟨rfl, rfl, fun _ => rfl, fun _ => rfl⟩ | (refine ⟨rfl, rfl, fun h => absurd rfl h, fun _ => ?_⟩; simp only [fillPlane]; rfl))
                    · rw [if_neg h9]
                      by_cases h10 : cmd = 0x10
                      · rw [if_pos h10]
                        rcases ps with _ | ⟨p0, _ | ⟨p1, t⟩⟩
                        all_goals (first | exact ⟨rfl, rfl, fun _ => rfl, fun _ => rfl⟩ | exact ite_prop (P := fun r => r.stride = s.stride ∧ r.rows = s.rows ∧ (cmd ≠ 0x47 → r.bw = s.bw) ∧ (cmd ≠ 0x46 → r.red = s.red)) ⟨rfl, rfl, fun _ => rfl, fun _ => rfl⟩ ⟨rfl, rfl, fun _ => rfl, fun _ => rfl⟩)
                      · rw [if_neg h10]
                        by_cases h11 : cmd = 0x07
                        · rw [if_pos h11]
                          rcases ps with _ | ⟨p0, _ | ⟨p1, t⟩⟩
                          all_goals (first | exact ⟨rfl, rfl, fun _ => rfl, fun _ => rfl⟩ | exact ite_prop (P := fun r => r.stride = s.stride ∧ r.rows = s.rows ∧ (cmd ≠ 0x47 → r.bw = s.bw) ∧ (cmd ≠ 0x46 → r.red = s.red)) ⟨rfl, rfl, fun _ => rfl, fun _ => rfl⟩ ⟨rfl, rfl, fun _ => rfl, fun _ => rfl⟩)
                        · rw [if_neg h11]
                          exact ⟨rfl, rfl, fun _ => rfl, fun _ => rfl⟩

/-! ## size invariant -/

/-- both planes have the RAM's size -/
def WfSize (s : Ssd) : Prop := s.bw.size = s.stride * s.rows ∧ s.red.size = s.stride * s.rows

theorem por_wf (xPix : Bool) (stride rows : Nat) : WfSize (por xPix stride rows) := by
  simp [WfSize, por]

theorem regStep_wf (cmd : UInt8) (ps : List UInt8) (s : Ssd) (h : WfSize s) : WfSize (regStep cmd ps s) := by
  have f := regStep_frame cmd ps s
  unfold WfSize at *
  rw [f.1, f.2.1]
  by_cases h46 : cmd = 0x46
  · subst h46
    rw [f.2.2.1 (by decide)]
    refine ⟨h.1, ?_⟩
    rcases ps with _ | ⟨v, _ | ⟨w, t⟩⟩
    · exact h.2
    · simp [regStep, fillPlane]
    · exact h.2
  · by_cases h47 : cmd = 0x47
    · subst h47
      rw [f.2.2.2 (by decide)]
      refine ⟨?_, h.2⟩
      rcases ps with _ | ⟨v, _ | ⟨w, t⟩⟩
      · exact h.1
      · simp [regStep, fillPlane]
      · exact h.1
    · rw [f.2.2.1 h47, f.2.2.2 h46]; exact h

theorem feed_wf (s : Ssd) (b : Blk) (h : WfSize s) : WfSize (s.feed b) := by
  cases b with
  | rst => exact h
  | stray _ => exact h
  | c cmd ps =>
    unfold feed
    by_cases h0 : s.asleep
    · simp only [h0, if_true]; exact h
    · simp only [h0, Bool.false_eq_true, if_false]
      by_cases hr : cmd = 0x24 ∨ cmd = 0x26
      · rw [if_pos hr]
        have e := writeRam_sameRegs (if cmd = 0x24 then 0 else 1) ps s 0
        unfold WfSize at *
        simp only
        rw [writeRam_bw_size, writeRam_red_size, e.stride, e.rows]
        exact h
      · rw [if_neg hr]
        exact regStep_wf cmd ps _ h

theorem run_wf : ∀ (bs : List Blk) (s : Ssd), WfSize s → WfSize (bs.foldl feed s)
  | [], _, h => h
  | b :: bs, s, h => by simp only [List.foldl_cons]; exact run_wf bs _ (feed_wf s b h)

/-! ## blocks that leave a plane alone -/

/-- the plane a RAM data command addresses -/
def planeOfCmd (c : UInt8) : Nat := if c = 0x24 then 0 else 1

/-- RAM data for plane `p`, or its auto-fill -/
def touches (p : Nat) : Blk → Bool
  | .c c _ => if p = 0 then c == 0x24 || c == 0x47 else c == 0x26 || c == 0x46
  | _ => false

theorem feed_untouched (s : Ssd) (b : Blk) (p : Nat) (h : touches p b = false) :
    planeOf p (s.feed b) = planeOf p s := by
  cases b with
  | rst => unfold planeOf; split <;> rfl
  | stray _ => rfl
  | c cmd ps =>
    unfold feed
    by_cases h0 : s.asleep
    · simp only [h0, if_true]; unfold planeOf; split <;> rfl
    · simp only [h0, Bool.false_eq_true, if_false]
      by_cases hp : p = 0
      · subst hp
        simp only [touches, if_true, Bool.or_eq_false_iff, beq_eq_false_iff_ne, ne_eq] at h
        by_cases hr : cmd = 0x24 ∨ cmd = 0x26
        · rw [if_pos hr]
          have h26 : cmd = 0x26 := by rcases hr with h1 | h1; exact absurd h1 h.1; exact h1
          subst h26
          have := writeRam_otherOf 1 ps s 0
          simp only [otherOf, if_neg (by decide : (1 : Nat) ≠ 0)] at this
          simp only [planeOf_zero, if_neg (by decide : ¬ ((0x26 : UInt8) = 0x24))]
          exact this
        · rw [if_neg hr]
          exact (regStep_frame cmd ps _).2.2.1 h.2
      · simp only [touches, if_neg hp, Bool.or_eq_false_iff, beq_eq_false_iff_ne, ne_eq] at h
        have e : ∀ t : Ssd, planeOf p t = t.red := by intro t; unfold planeOf; rw [if_neg hp]
        rw [e, e]
        by_cases hr : cmd = 0x24 ∨ cmd = 0x26
        · rw [if_pos hr]
          have h24 : cmd = 0x24 := by rcases hr with h1 | h1; exact h1; exact absurd h1 h.1
          subst h24
          have := writeRam_otherOf 0 ps s 0
          simp only [otherOf_zero] at this
          simp only [if_true]
          exact this
        · rw [if_neg hr]
          exact (regStep_frame cmd ps _).2.2.2 h.2

theorem run_untouched (p : Nat) : ∀ (bs : List Blk) (s : Ssd), bs.all (fun b => !touches p b) = true →
    planeOf p (bs.foldl feed s) = planeOf p s
  | [], _, _ => rfl
  | b :: bs, s, h => by
    simp only [List.all_cons, Bool.and_eq_true, Bool.not_eq_true'] at h
    simp only [List.foldl_cons]
    rw [run_untouched p bs _ h.2, feed_untouched s b p h.1]

theorem touches_shape {a b : Blk} (h : ShapeEq a b) (p : Nat) : touches p a = touches p b := by
  cases a <;> cases b <;> simp only [ShapeEq] at h <;> first | rfl | (obtain ⟨h1, _⟩ := h; subst h1; rfl) | exact absurd h id

theorem ShapesEq.take : ∀ {xs ys : List Blk} (n : Nat), ShapesEq xs ys → ShapesEq (xs.take n) (ys.take n)
  | [], [], _, _ => by simp [ShapesEq]
  | _ :: _, _ :: _, 0, _ => by simp [ShapesEq]
  | x :: xs, y :: ys, n + 1, h => by
    simp only [List.take_succ_cons]
    exact ⟨h.1, ShapesEq.take n h.2⟩
  | [], _ :: _, _, h => absurd h (by simp [ShapesEq])
  | _ :: _, [], _, h => absurd h (by simp [ShapesEq])

theorem ShapesEq.drop : ∀ {xs ys : List Blk} (n : Nat), ShapesEq xs ys → ShapesEq (xs.drop n) (ys.drop n)
  | [], [], _, _ => by simp [ShapesEq]
  | x :: xs, y :: ys, 0, h => h
  | x :: xs, y :: ys, n + 1, h => by
    simp only [List.drop_succ_cons]
    exact ShapesEq.drop n h.2
  | [], _ :: _, _, h => absurd h (by simp [ShapesEq])
  | _ :: _, [], _, h => absurd h (by simp [ShapesEq])

theorem all_untouched_shape (p : Nat) : ∀ {xs ys : List Blk}, ShapesEq xs ys →
    xs.all (fun b => !touches p b) = ys.all (fun b => !touches p b)
  | [], [], _ => rfl
  | x :: xs, y :: ys, h => by
    simp only [List.all_cons, touches_shape h.1 p, all_untouched_shape p h.2]
  | [], _ :: _, h => absurd h (by simp [ShapesEq])
  | _ :: _, [], h => absurd h (by simp [ShapesEq])

/-! ## the end-to-end theorem -/

/-- what the kernel checks on the companion state when the data block arrives -/
def ready (comp : Ssd) (n : Nat) : Bool :=
  !comp.asleep && comp.entry == 3 && decide (comp.xs ≤ comp.xe) && decide (comp.ys ≤ comp.ye) &&
  decide (comp.xe < comp.stride) && decide (comp.ye < comp.rows) && comp.cx == comp.xs && comp.cy == comp.ys &&
  n == (comp.xe - comp.xs + 1) * (comp.ye - comp.ys + 1)

theorem ssd_e2e (blocks blocks0 : List Blk) (hs : ShapesEq blocks blocks0) (s0 e0 : Ssd) (h0 : CtlEq s0 e0)
    (hwf : WfSize s0) (k : Nat) (c : UInt8) (data : List UInt8) (hk : blocks[k]? = some (.c c data))
    (hc : c = 0x24 ∨ c = 0x26)
    (hready : ready ((blocks0.take k).foldl feed e0) data.length = true)
    (hpost : (blocks0.drop (k + 1)).all (fun b => !touches (planeOfCmd c) b) = true) :
    let comp := (blocks0.take k).foldl feed e0
    ∀ (j : Nat) (hj : j < data.length),
      (planeOf (planeOfCmd c) (blocks.foldl feed s0))[(comp.ys + j / (comp.xe - comp.xs + 1)) * comp.stride
        + (comp.xs + j % (comp.xe - comp.xs + 1))]? = some data[j] := by
  intro comp j hj
  have hklt : k < blocks.length := by
    rcases Nat.lt_or_ge k blocks.length with h | h
    · exact h
    · rw [List.getElem?_eq_none h] at hk; cases hk
  have hget : blocks[k] = .c c data := by
    have := List.getElem?_eq_getElem hklt
    rw [this] at hk
    exact Option.some.inj hk
  have hsplit : blocks = blocks.take k ++ (.c c data) :: blocks.drop (k + 1) := by
    rw [← hget]
    exact (List.take_append_drop k blocks).symm.trans (by rw [List.drop_eq_getElem_cons hklt])
  -- the state when the data block arrives
  have hc1 : CtlEq ((blocks.take k).foldl feed s0) comp := run_ctlEq _ _ (ShapesEq.take k hs) _ _ h0
  have hw1 : WfSize ((blocks.take k).foldl feed s0) := run_wf _ _ hwf
  generalize hr1 : (blocks.take k).foldl feed s0 = r1 at hc1 hw1
  have hrun : blocks.foldl feed s0 = (blocks.drop (k + 1)).foldl feed (r1.feed (.c c data)) := by
    rw [hsplit, List.foldl_append, List.foldl_cons, hr1, ← hsplit]
  rw [hrun]
  have hpost' : (blocks.drop (k + 1)).all (fun b => !touches (planeOfCmd c) b) = true := by
    rw [all_untouched_shape _ (ShapesEq.drop (k + 1) hs)]; exact hpost
  rw [run_untouched _ _ _ hpost']
  -- the companion's facts, transported
  simp only [ready, Bool.and_eq_true, Bool.not_eq_true', beq_iff_eq, decide_eq_true_eq] at hready
  obtain ⟨⟨⟨⟨⟨⟨⟨⟨ha, h3⟩, hx⟩, hy⟩, hxs⟩, hrw⟩, hcx⟩, hcy⟩, hl⟩ := hready
  have e := hc1.regs
  have ha' : r1.asleep = false := by rw [e.asleep]; exact ha
  have h3' : r1.entry = 3 := by rw [e.entry]; exact h3
  have key : ∀ (j : Nat) (hj : j < data.length),
      (planeOf (planeOfCmd c) (r1.feed (.c c data)))[(r1.ys + j / (r1.xe - r1.xs + 1)) * r1.stride
        + (r1.xs + j % (r1.xe - r1.xs + 1))]? = some data[j] := by
    rcases hc with h24 | h26
    · subst h24
      have := feed_c24_window_fill r1 data ha' h3' (by rw [e.xs, e.xe]; exact hx) (by rw [e.ys, e.ye]; exact hy)
        (by rw [e.xe, e.stride]; exact hxs) (by rw [e.ye, e.rows]; exact hrw) hw1.1 hw1.2
        (by rw [hc1.cx, e.xs]; exact hcx) (by rw [hc1.cy, e.ys]; exact hcy)
        (by rw [e.xs, e.xe, e.ys, e.ye]; exact hl)
      exact this.2.2.1
    · subst h26
      have := feed_c26_window_fill r1 data ha' h3' (by rw [e.xs, e.xe]; exact hx) (by rw [e.ys, e.ye]; exact hy)
        (by rw [e.xe, e.stride]; exact hxs) (by rw [e.ye, e.rows]; exact hrw) hw1.1 hw1.2
        (by rw [hc1.cx, e.xs]; exact hcx) (by rw [hc1.cy, e.ys]; exact hcy)
        (by rw [e.xs, e.xe, e.ys, e.ye]; exact hl)
      exact this.2.2.1
  have := key j hj
  rw [e.xs, e.xe, e.ys, e.stride] at this
  exact this

/-- `ssd_e2e` with the companion's window read off as numerals (each equation is a closed
    statement the kernel decides) -/
theorem ssd_e2e' (blocks blocks0 : List Blk) (hs : ShapesEq blocks blocks0) (s0 e0 : Ssd) (h0 : CtlEq s0 e0)
    (hwf : WfSize s0) (k : Nat) (c : UInt8) (data : List UInt8) (hk : blocks[k]? = some (.c c data))
    (hc : c = 0x24 ∨ c = 0x26) (n wb stride : Nat) (hn : data.length = n)
    (hready : ready ((blocks0.take k).foldl feed e0) n = true)
    (hpost : (blocks0.drop (k + 1)).all (fun b => !touches (planeOfCmd c) b) = true)
    (hxs : ((blocks0.take k).foldl feed e0).xs = 0) (hys : ((blocks0.take k).foldl feed e0).ys = 0)
    (hxe : ((blocks0.take k).foldl feed e0).xe + 1 = wb) (hst : ((blocks0.take k).foldl feed e0).stride = stride) :
    ∀ (j : Nat) (hj : j < data.length),
      (planeOf (planeOfCmd c) (blocks.foldl feed s0))[(j / wb) * stride + j % wb]? = some data[j] := by
  intro j hj
  have := ssd_e2e blocks blocks0 hs s0 e0 h0 hwf k c data hk hc (by rw [hn]; exact hready) hpost j hj
  rw [hxs, hys, hst] at this
  have e : ((blocks0.take k).foldl feed e0).xe - 0 + 1 = wb := by rw [← hxe]; omega
  rw [e] at this
  simpa using this

/-! ## assembling `ShapesEq` from positionwise facts (each provable by `rfl` with a free buffer) -/

theorem shapesEq_refl : ∀ (xs : List Blk), ShapesEq xs xs
  | [] => trivial
  | x :: xs => ⟨ShapeEq.refl x, shapesEq_refl xs⟩

theorem shapesEq_of_eq {xs ys : List Blk} (h : xs = ys) : ShapesEq xs ys := h ▸ shapesEq_refl xs

theorem shapesEq_append : ∀ {a b c d : List Blk}, ShapesEq a b → ShapesEq c d → ShapesEq (a ++ c) (b ++ d)
  | [], [], _, _, _, h => h
  | x :: xs, y :: ys, _, _, h1, h2 => ⟨h1.1, shapesEq_append h1.2 h2⟩
  | [], _ :: _, _, _, h, _ => absurd h (by simp [ShapesEq])
  | _ :: _, [], _, _, h, _ => absurd h (by simp [ShapesEq])

theorem split_at {α} (xs : List α) (k : Nat) (x : α) (h : xs[k]? = some x) :
    xs = xs.take k ++ x :: xs.drop (k + 1) := by
  have hk : k < xs.length := by
    rcases Nat.lt_or_ge k xs.length with h' | h'
    · exact h'
    · rw [List.getElem?_eq_none h'] at h; cases h
  have : xs[k] = x := by rw [List.getElem?_eq_getElem hk] at h; exact Option.some.inj h
  rw [← this]
  exact (List.take_append_drop k xs).symm.trans (by rw [List.drop_eq_getElem_cons hk])

/-- one hole: the lists agree before position `k`, both hold a RAM data block of the same command
    and length there, and the rests are shape-equal -/
theorem shapesEq_hole (X Y : List Blk) (k : Nat) (c : UInt8) (hc : c = 0x24 ∨ c = 0x26)
    (h1 : X.take k = Y.take k)
    (hh : ∃ dx dy, X[k]? = some (.c c dx) ∧ Y[k]? = some (.c c dy) ∧ dx.length = dy.length)
    (h2 : ShapesEq (X.drop (k + 1)) (Y.drop (k + 1))) : ShapesEq X Y := by
  obtain ⟨dx, dy, hx, hy, hl⟩ := hh
  rw [split_at X k _ hx, split_at Y k _ hy, h1]
  exact shapesEq_append (shapesEq_refl _) ⟨⟨rfl, by rw [if_pos hc]; exact hl⟩, h2⟩

/-! ## a companion run that does not execute data blocks -/

theorem ready_ctlEq {a b : Ssd} (h : CtlEq a b) (n : Nat) : ready a n = ready b n := by
  unfold ready
  rw [h.regs.asleep, h.regs.entry, h.regs.xs, h.regs.xe, h.regs.ys, h.regs.ye, h.regs.stride, h.regs.rows, h.cx, h.cy]

/-- a data block that fills exactly the window from its origin leaves the control state as it was -/
theorem feed_fill_ctlEq (s : Ssd) (c : UInt8) (hc : c = 0x24 ∨ c = 0x26) (data : List UInt8) (hw : WfSize s)
    (hr : ready s data.length = true) : CtlEq (s.feed (.c c data)) s := by
  simp only [ready, Bool.and_eq_true, Bool.not_eq_true', beq_iff_eq, decide_eq_true_eq] at hr
  obtain ⟨⟨⟨⟨⟨⟨⟨⟨ha, h3⟩, hx⟩, hy⟩, hxs⟩, hrw⟩, hcx⟩, hcy⟩, hl⟩ := hr
  rcases hc with h | h
  · subst h
    have := feed_c24_window_fill s data ha h3 hx hy hxs hrw hw.1 hw.2 hcx hcy hl
    exact ⟨this.2.2.2.2, by rw [this.2.1.1, hcx], by rw [this.2.1.2, hcy]⟩
  · subst h
    have := feed_c26_window_fill s data ha h3 hx hy hxs hrw hw.1 hw.2 hcx hcy hl
    exact ⟨this.2.2.2.2, by rw [this.2.1.1, hcx], by rw [this.2.1.2, hcy]⟩

/-- the companion run: a RAM data block that is `ready` (fills its window from the origin) is
    skipped — the control state after it is the state before it; any other block is fed -/
def compRun : Ssd → List Blk → Ssd
  | e, [] => e
  | e, .c c ps :: bs =>
    if (c = 0x24 ∨ c = 0x26) ∧ ready e ps.length = true then compRun e bs
    else compRun (e.feed (.c c ps)) bs
  | e, b :: bs => compRun (e.feed b) bs

theorem compRun_sound : ∀ (bs bs0 : List Blk), ShapesEq bs bs0 → ∀ (r e : Ssd), CtlEq r e → WfSize r →
    CtlEq (bs.foldl feed r) (compRun e bs0) ∧ WfSize (bs.foldl feed r)
  | [], [], _, r, e, h, hw => ⟨h, hw⟩
  | x :: xs, y :: ys, hs, r, e, h, hw => by
    simp only [List.foldl_cons]
    have hw' := feed_wf r x hw
    cases y with
    | rst =>
      simp only [compRun]
      exact compRun_sound xs ys hs.2 _ _ (feed_ctlEq h hs.1) hw'
    | stray _ =>
      simp only [compRun]
      exact compRun_sound xs ys hs.2 _ _ (feed_ctlEq h hs.1) hw'
    | c c ps0 =>
      cases x with
      | rst => exact absurd hs.1 (by simp [ShapeEq])
      | stray _ => exact absurd hs.1 (by simp [ShapeEq])
      | c c' ps =>
        obtain ⟨hcc, hp⟩ := hs.1
        subst hcc
        simp only [compRun]
        by_cases hk : (c' = 0x24 ∨ c' = 0x26) ∧ ready e ps0.length = true
        · rw [if_pos hk]
          rw [if_pos hk.1] at hp
          have hrd' : ready r ps.length = true := by rw [ready_ctlEq h, hp]; exact hk.2
          exact compRun_sound xs ys hs.2 _ e ((feed_fill_ctlEq r c' hk.1 ps hw hrd').trans h) hw'
        · rw [if_neg hk]
          exact compRun_sound xs ys hs.2 _ _ (feed_ctlEq h hs.1) hw'
  | [], _ :: _, hs, _, _, _, _ => absurd hs (by simp [ShapesEq])
  | _ :: _, [], hs, _, _, _, _ => absurd hs (by simp [ShapesEq])

/-- the core of the end-to-end argument, for ANY companion state in `CtlEq` with the real state
    at the moment the data block arrives -/
theorem ssd_e2e_core (blocks : List Blk) (s0 : Ssd) (k : Nat) (c : UInt8) (data : List UInt8)
    (hk : blocks[k]? = some (.c c data)) (hc : c = 0x24 ∨ c = 0x26) (comp : Ssd)
    (hc1 : CtlEq ((blocks.take k).foldl feed s0) comp) (hw1 : WfSize ((blocks.take k).foldl feed s0))
    (hready : ready comp data.length = true)
    (hpost : (blocks.drop (k + 1)).all (fun b => !touches (planeOfCmd c) b) = true) :
    ∀ (j : Nat) (hj : j < data.length),
      (planeOf (planeOfCmd c) (blocks.foldl feed s0))[(comp.ys + j / (comp.xe - comp.xs + 1)) * comp.stride
        + (comp.xs + j % (comp.xe - comp.xs + 1))]? = some data[j] := by
  intro j hj
  have hsplit := split_at blocks k _ hk
  generalize hr1 : (blocks.take k).foldl feed s0 = r1 at hc1 hw1
  have hrun : blocks.foldl feed s0 = (blocks.drop (k + 1)).foldl feed (r1.feed (.c c data)) := by
    rw [hsplit, List.foldl_append, List.foldl_cons, hr1, ← hsplit]
  rw [hrun, run_untouched _ _ _ hpost]
  simp only [ready, Bool.and_eq_true, Bool.not_eq_true', beq_iff_eq, decide_eq_true_eq] at hready
  obtain ⟨⟨⟨⟨⟨⟨⟨⟨ha, h3⟩, hx⟩, hy⟩, hxs⟩, hrw⟩, hcx⟩, hcy⟩, hl⟩ := hready
  have e := hc1.regs
  have ha' : r1.asleep = false := by rw [e.asleep]; exact ha
  have h3' : r1.entry = 3 := by rw [e.entry]; exact h3
  have key : ∀ (j : Nat) (hj : j < data.length),
      (planeOf (planeOfCmd c) (r1.feed (.c c data)))[(r1.ys + j / (r1.xe - r1.xs + 1)) * r1.stride
        + (r1.xs + j % (r1.xe - r1.xs + 1))]? = some data[j] := by
    rcases hc with h24 | h26
    · subst h24
      have := feed_c24_window_fill r1 data ha' h3' (by rw [e.xs, e.xe]; exact hx) (by rw [e.ys, e.ye]; exact hy)
        (by rw [e.xe, e.stride]; exact hxs) (by rw [e.ye, e.rows]; exact hrw) hw1.1 hw1.2
        (by rw [hc1.cx, e.xs]; exact hcx) (by rw [hc1.cy, e.ys]; exact hcy)
        (by rw [e.xs, e.xe, e.ys, e.ye]; exact hl)
      exact this.2.2.1
    · subst h26
      have := feed_c26_window_fill r1 data ha' h3' (by rw [e.xs, e.xe]; exact hx) (by rw [e.ys, e.ye]; exact hy)
        (by rw [e.xe, e.stride]; exact hxs) (by rw [e.ye, e.rows]; exact hrw) hw1.1 hw1.2
        (by rw [hc1.cx, e.xs]; exact hcx) (by rw [hc1.cy, e.ys]; exact hcy)
        (by rw [e.xs, e.xe, e.ys, e.ye]; exact hl)
      exact this.2.2.1
  have := key j hj
  rw [e.xs, e.xe, e.ys, e.stride] at this
  exact this

/-- everything the kernel checks on the skipping companion, in one Boolean -/
def skipReady (e0 : Ssd) (pre : List Blk) (n wb stride : Nat) : Bool :=
  let c := compRun e0 pre
  ready c n && c.xs == 0 && c.ys == 0 && c.xe + 1 == wb && c.stride == stride

/-- the end-to-end theorem with the skipping companion and the window read off as numerals -/
theorem ssd_e2e_skip (blocks blocks0 : List Blk) (hs : ShapesEq blocks blocks0) (s0 e0 : Ssd) (h0 : CtlEq s0 e0)
    (hwf : WfSize s0) (k : Nat) (c : UInt8) (data : List UInt8) (hk : blocks[k]? = some (.c c data))
    (hc : c = 0x24 ∨ c = 0x26) (n wb stride : Nat) (hn : data.length = n)
    (hchk : skipReady e0 (blocks0.take k) n wb stride = true)
    (hpost : (blocks0.drop (k + 1)).all (fun b => !touches (planeOfCmd c) b) = true) :
    ∀ (j : Nat) (hj : j < data.length),
      (planeOf (planeOfCmd c) (blocks.foldl feed s0))[(j / wb) * stride + j % wb]? = some data[j] := by
  intro j hj
  unfold skipReady at hchk
  simp only [Bool.and_eq_true, beq_iff_eq] at hchk
  obtain ⟨⟨⟨⟨hrd, hxs⟩, hys⟩, hxe⟩, hst⟩ := hchk
  have snd := compRun_sound _ _ (ShapesEq.take k hs) s0 e0 h0 hwf
  generalize compRun e0 (blocks0.take k) = comp at hrd hxs hys hxe hst snd
  have hpost' : (blocks.drop (k + 1)).all (fun b => !touches (planeOfCmd c) b) = true := by
    rw [all_untouched_shape _ (ShapesEq.drop (k + 1) hs)]; exact hpost
  have := ssd_e2e_core blocks s0 k c data hk hc comp snd.1 snd.2 (by rw [hn]; exact hrd) hpost' j hj
  rw [hxs, hys, hst] at this
  have e : comp.xe - 0 + 1 = wb := by rw [← hxe]; omega
  rw [e] at this
  simpa using this

end Ssd
end EpdVerif
