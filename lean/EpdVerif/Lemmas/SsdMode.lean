import EpdVerif.Lemmas.SsdAddr
import EpdVerif.Lemmas.UcFlags
/-!
# The mode of a controller evolves on its own — the reachability half of history independence

`Props/E2EA` proves: from ANY controller state that is awake, in data-entry mode 3 and of the
panel's geometry (UC81xx: awake, outside partial mode), a full-frame update delivers the buffer.
What is left for the unbounded-history claim is that every protocol-respecting history keeps the
controller in such a state.  The part of the state this is about — `Mode` = geometry, entry mode,
sleep flag (SSD16xx) / `Uc.Flags` (UC81xx) — evolves under `feed` as a function of itself and the
block alone (`mode_feed`, `Uc.flags_feed`), and does not look at data: so `keepsMode` /
`Uc.keepsFlags`, a Bool computed from a program's blocks, decides for EVERY controller state
whether running the program keeps the mode (`keepsMode_sound`), and `establishesMode` whether it
reaches it from ANY mode (wake-up, construction).  The per-panel, per-operation instances (for all
feature flags, driver states, buffers and colours) are generated into `Props/Panels/*` (namespace
`C02`); `history_keeps_mode` is the induction over histories.
-/
namespace EpdVerif
namespace Ssd

structure Mode where
  xPix : Bool
  stride : Nat
  rows : Nat
  entry : Nat
  asleep : Bool
  deriving DecidableEq, Repr

def modeA (a : Addr) : Mode := ⟨a.xPix, a.stride, a.rows, a.entry, a.asleep⟩
def mode (s : Ssd) : Mode := modeA (addr s)

/-- `regStepA` on the mode: same command chain, window / counter commands do nothing -/
def regStepM (cmd : UInt8) (ps : List UInt8) (m : Mode) : Mode :=
  if cmd = 0x12 then { m with entry := 3 }
  else if cmd = 0x11 then
    match ps with
    | [x] => { m with entry := x.toNat % 4 }
    | _ => m
  else if cmd = 0x44 then m
  else if cmd = 0x45 then m
  else if cmd = 0x4E then m
  else if cmd = 0x4F then m
  else if cmd = 0x22 then m
  else if cmd = 0x20 then m
  else if cmd = 0x46 then m
  else if cmd = 0x47 then m
  else if cmd = 0x10 then
    match ps with
    | [x] => if x.toNat % 4 ≠ 0 then { m with asleep := true } else m
    | _ => m
  else if cmd = 0x07 then
    match ps with
    | [v] => if v = 0xA5 then { m with asleep := true } else m
    | _ => m
  else m

theorem mode_regStepA (cmd : UInt8) (ps : List UInt8) (a : Addr) :
    modeA (regStepA cmd ps a) = regStepM cmd ps (modeA a) := by
  unfold regStepA regStepM
  by_cases h0 : cmd = 0x12
  · rw [if_pos h0, if_pos h0]; rfl
  rw [if_neg h0, if_neg h0]
  by_cases h1 : cmd = 0x11
  · rw [if_pos h1, if_pos h1]
    rcases ps with _ | ⟨p0, _ | ⟨p1, t⟩⟩
    all_goals rfl
  rw [if_neg h1, if_neg h1]
  by_cases h2 : cmd = 0x44
  · rw [if_pos h2, if_pos h2]
    rcases hxp : a.xPix with _ | _ <;> (rcases ps with _ | ⟨p0, _ | ⟨p1, _ | ⟨p2, _ | ⟨p3, _ | ⟨p4, t⟩⟩⟩⟩⟩) <;> simp only [modeA, hxp]
  rw [if_neg h2, if_neg h2]
  by_cases h3 : cmd = 0x45
  · rw [if_pos h3, if_pos h3]
    rcases ps with _ | ⟨p0, _ | ⟨p1, _ | ⟨p2, _ | ⟨p3, _ | ⟨p4, t⟩⟩⟩⟩⟩
    all_goals rfl
  rw [if_neg h3, if_neg h3]
  by_cases h4 : cmd = 0x4E
  · rw [if_pos h4, if_pos h4]
    rcases hxp : a.xPix with _ | _ <;> (rcases ps with _ | ⟨p0, _ | ⟨p1, _ | ⟨p2, t⟩⟩⟩) <;> simp only [modeA, hxp]
  rw [if_neg h4, if_neg h4]
  by_cases h5 : cmd = 0x4F
  · rw [if_pos h5, if_pos h5]
    rcases ps with _ | ⟨p0, _ | ⟨p1, _ | ⟨p2, t⟩⟩⟩
    all_goals rfl
  rw [if_neg h5, if_neg h5]
  by_cases h6 : cmd = 0x22
  · rw [if_pos h6, if_pos h6]
  rw [if_neg h6, if_neg h6]
  by_cases h7 : cmd = 0x20
  · rw [if_pos h7, if_pos h7]
  rw [if_neg h7, if_neg h7]
  by_cases h8 : cmd = 0x46
  · rw [if_pos h8, if_pos h8]
  rw [if_neg h8, if_neg h8]
  by_cases h9 : cmd = 0x47
  · rw [if_pos h9, if_pos h9]
  rw [if_neg h9, if_neg h9]
  by_cases h10 : cmd = 0x10
  · rw [if_pos h10, if_pos h10]
    rcases ps with _ | ⟨p0, _ | ⟨p1, t⟩⟩
    all_goals (first | rfl | (by_cases hm : p0.toNat % 4 ≠ 0 <;> simp only [hm, if_true, if_false, ne_eq, not_true_eq_false, not_false_eq_true] <;> rfl))
  rw [if_neg h10, if_neg h10]
  by_cases h11 : cmd = 0x07
  · rw [if_pos h11, if_pos h11]
    rcases ps with _ | ⟨p0, _ | ⟨p1, t⟩⟩
    all_goals (first | rfl | (by_cases hm : p0 = 0xA5 <;> simp only [hm, if_true, if_false] <;> rfl))
  rw [if_neg h11, if_neg h11]

theorem mode_advance (a : Addr) : modeA a.advance = modeA a := by
  unfold Addr.advance
  split <;> rfl

theorem mode_advN : ∀ (n : Nat) (a : Addr), modeA (Addr.advN n a) = modeA a
  | 0, _ => rfl
  | n + 1, a => by rw [Addr.advN, mode_advN n, mode_advance]

def feedM (m : Mode) : Blk → Mode
  | .rst => { m with entry := 3, asleep := false }
  | .stray _ => m
  | .c cmd ps =>
    if m.asleep then m else
    if cmd = 0x24 ∨ cmd = 0x26 then m
    else regStepM cmd ps m

theorem mode_feedA (a : Addr) (b : Blk) : modeA (feedA a b) = feedM (modeA a) b := by
  cases b with
  | rst => rfl
  | stray _ => rfl
  | c cmd ps =>
    unfold feedA feedM
    simp only []
    have e : (modeA a).asleep = a.asleep := rfl
    rw [e]
    by_cases h0 : a.asleep = true
    · rw [if_pos h0, if_pos h0]
    · rw [if_neg h0, if_neg h0]
      by_cases hr : cmd = 0x24 ∨ cmd = 0x26
      · rw [if_pos hr, if_pos hr]; exact mode_advN _ a
      · rw [if_neg hr, if_neg hr]; exact mode_regStepA cmd ps a

/-- the mode of the controller after a block is a function of its mode before and the block -/
theorem mode_feed (s : Ssd) (b : Blk) : mode (s.feed b) = feedM (mode s) b := by
  unfold mode; rw [addr_feed, mode_feedA]

theorem mode_run : ∀ (bs : List Blk) (s : Ssd), mode (bs.foldl feed s) = bs.foldl feedM (mode s)
  | [], _ => rfl
  | b :: bs, s => by simp only [List.foldl_cons]; rw [mode_run bs, mode_feed]

theorem regStepM_geom (cmd : UInt8) (ps : List UInt8) (m : Mode) :
    (regStepM cmd ps m).xPix = m.xPix ∧ (regStepM cmd ps m).stride = m.stride ∧ (regStepM cmd ps m).rows = m.rows := by
  unfold regStepM
  by_cases h0 : cmd = 0x12
  · rw [if_pos h0]; exact ⟨rfl, rfl, rfl⟩
  rw [if_neg h0]
  by_cases h1 : cmd = 0x11
  · rw [if_pos h1]; rcases ps with _ | ⟨p0, _ | ⟨p1, t⟩⟩ <;> exact ⟨rfl, rfl, rfl⟩
  rw [if_neg h1]
  by_cases h2 : cmd = 0x44
  · rw [if_pos h2]; exact ⟨rfl, rfl, rfl⟩
  rw [if_neg h2]
  by_cases h3 : cmd = 0x45
  · rw [if_pos h3]; exact ⟨rfl, rfl, rfl⟩
  rw [if_neg h3]
  by_cases h4 : cmd = 0x4E
  · rw [if_pos h4]; exact ⟨rfl, rfl, rfl⟩
  rw [if_neg h4]
  by_cases h5 : cmd = 0x4F
  · rw [if_pos h5]; exact ⟨rfl, rfl, rfl⟩
  rw [if_neg h5]
  by_cases h6 : cmd = 0x22
  · rw [if_pos h6]; exact ⟨rfl, rfl, rfl⟩
  rw [if_neg h6]
  by_cases h7 : cmd = 0x20
  · rw [if_pos h7]; exact ⟨rfl, rfl, rfl⟩
  rw [if_neg h7]
  by_cases h8 : cmd = 0x46
  · rw [if_pos h8]; exact ⟨rfl, rfl, rfl⟩
  rw [if_neg h8]
  by_cases h9 : cmd = 0x47
  · rw [if_pos h9]; exact ⟨rfl, rfl, rfl⟩
  rw [if_neg h9]
  by_cases h10 : cmd = 0x10
  · rw [if_pos h10]; rcases ps with _ | ⟨p0, _ | ⟨p1, t⟩⟩
    · exact ⟨rfl, rfl, rfl⟩
    · simp only []; split <;> exact ⟨rfl, rfl, rfl⟩
    · exact ⟨rfl, rfl, rfl⟩
  rw [if_neg h10]
  by_cases h11 : cmd = 0x07
  · rw [if_pos h11]; rcases ps with _ | ⟨p0, _ | ⟨p1, t⟩⟩
    · exact ⟨rfl, rfl, rfl⟩
    · simp only []; split <;> exact ⟨rfl, rfl, rfl⟩
    · exact ⟨rfl, rfl, rfl⟩
  rw [if_neg h11]
  exact ⟨rfl, rfl, rfl⟩

/-- geometry never changes -/
theorem feedM_geom (m : Mode) (b : Blk) : (feedM m b).xPix = m.xPix ∧ (feedM m b).stride = m.stride ∧ (feedM m b).rows = m.rows := by
  cases b with
  | rst => exact ⟨rfl, rfl, rfl⟩
  | stray _ => exact ⟨rfl, rfl, rfl⟩
  | c cmd ps =>
    unfold feedM
    simp only []
    by_cases h0 : m.asleep = true
    · rw [if_pos h0]; exact ⟨rfl, rfl, rfl⟩
    rw [if_neg h0]
    by_cases hr : cmd = 0x24 ∨ cmd = 0x26
    · rw [if_pos hr]; exact ⟨rfl, rfl, rfl⟩
    rw [if_neg hr]
    exact regStepM_geom cmd ps m

/-- ready for a full-frame update: awake, entry mode 3 -/
def Mode.good (m : Mode) : Bool := !m.asleep && m.entry == 3

/-- the program keeps a good mode good (decided on the mode with the geometry given) -/
def keepsMode (xPix : Bool) (stride rows : Nat) (bs : List Blk) : Bool :=
  (bs.foldl feedM ⟨xPix, stride, rows, 3, false⟩).good

/-- the program reaches a good mode from an awake AND from a sleeping controller in any entry
    mode (it starts with a hardware reset before anything mode-relevant) -/
def establishesMode (xPix : Bool) (stride rows : Nat) (bs : List Blk) : Bool :=
  match bs with
  | .rst :: r => keepsMode xPix stride rows r
  | _ => false

theorem keepsMode_sound (bs : List Blk) (s : Ssd) (hg : (mode s).good = true)
    (h : keepsMode (mode s).xPix (mode s).stride (mode s).rows bs = true) : (mode (bs.foldl feed s)).good = true := by
  rw [mode_run]
  have e : mode s = ⟨(mode s).xPix, (mode s).stride, (mode s).rows, 3, false⟩ := by
    simp only [Mode.good, Bool.and_eq_true, Bool.not_eq_true', beq_iff_eq] at hg
    cases hm : mode s with
    | mk a b c d e => rw [hm] at hg; simp only at hg; rw [hg.1, hg.2]
  rw [e]; exact h

theorem establishesMode_sound (bs : List Blk) (s : Ssd)
    (h : establishesMode (mode s).xPix (mode s).stride (mode s).rows bs = true) : (mode (bs.foldl feed s)).good = true := by
  cases bs with
  | nil => cases h
  | cons b r =>
    cases b with
    | rst =>
      simp only [establishesMode] at h
      rw [mode_run, List.foldl_cons]
      exact h
    | stray _ => cases h
    | c _ _ => cases h

/-- geometry of the state after a run -/
theorem mode_run_geom (bs : List Blk) (s : Ssd) :
    (mode (bs.foldl feed s)).xPix = (mode s).xPix ∧ (mode (bs.foldl feed s)).stride = (mode s).stride ∧
    (mode (bs.foldl feed s)).rows = (mode s).rows := by
  rw [mode_run]
  generalize mode s = m
  induction bs generalizing m with
  | nil => exact ⟨rfl, rfl, rfl⟩
  | cons b r ih =>
    simp only [List.foldl_cons]
    have g := feedM_geom m b
    have i := ih (feedM m b)
    exact ⟨i.1.trans g.1, i.2.1.trans g.2.1, i.2.2.trans g.2.2⟩

/-- **history**: programs that each keep the mode, one after the other, from a good state: good -/
theorem history_keeps_mode : ∀ (progs : List (List Blk)) (s : Ssd), (mode s).good = true →
    (∀ bs, bs ∈ progs → keepsMode (mode s).xPix (mode s).stride (mode s).rows bs = true) →
    (mode (progs.flatten.foldl feed s)).good = true
  | [], _, hg, _ => hg
  | p :: ps, s, hg, h => by
    simp only [List.flatten_cons, List.foldl_append]
    have g := mode_run_geom p s
    refine history_keeps_mode ps _ (keepsMode_sound p s hg (h p List.mem_cons_self)) ?_
    intro bs hbs
    rw [g.1, g.2.1, g.2.2]
    exact h bs (List.mem_cons_of_mem _ hbs)

end Ssd

namespace Uc

/-- ready for a full-frame update: awake, outside partial mode -/
def Flags.good (f : Flags) : Bool := !f.asleep && !f.partialOn

def keepsFlags (has14 : Bool) (bs : List Blk) : Bool := (bs.foldl feedF ⟨false, false, has14⟩).good

def establishesFlags (has14 : Bool) (bs : List Blk) : Bool :=
  match bs with
  | .rst :: r => keepsFlags has14 r
  | _ => false

theorem flags_run' : ∀ (bs : List Blk) (u : Uc), flags (bs.foldl feed u) = bs.foldl feedF (flags u)
  | [], _ => rfl
  | b :: bs, u => by simp only [List.foldl_cons]; rw [flags_run' bs, flags_feed]

theorem keepsFlags_sound (bs : List Blk) (u : Uc) (hg : (flags u).good = true)
    (h : keepsFlags u.has14 bs = true) : (flags (bs.foldl feed u)).good = true := by
  rw [flags_run']
  have e : flags u = ⟨false, false, u.has14⟩ := by
    simp only [Flags.good, Bool.and_eq_true, Bool.not_eq_true'] at hg
    cases hm : flags u with
    | mk a b c =>
      rw [hm] at hg; simp only at hg
      have hc : c = u.has14 := by
        have : (flags u).has14 = u.has14 := rfl
        rw [hm] at this; exact this
      rw [hg.1, hg.2, hc]
  rw [e]; exact h

theorem establishesFlags_sound (bs : List Blk) (u : Uc) (h : establishesFlags u.has14 bs = true) :
    (flags (bs.foldl feed u)).good = true := by
  cases bs with
  | nil => cases h
  | cons b r =>
    cases b with
    | rst =>
      simp only [establishesFlags] at h
      rw [flags_run', List.foldl_cons]
      exact h
    | stray _ => cases h
    | c _ _ => cases h

end Uc
end EpdVerif
