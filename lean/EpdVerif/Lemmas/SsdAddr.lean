import EpdVerif.Lemmas.SsdE2E
/-!
# SSD16xx: the addressing state evolves on its own

`Addr` = the eleven fields that decide where a data byte lands (geometry, entry mode, window,
counter, sleep flag).  `feedA` is `feed` restricted to them: `addr (s.feed b) = feedA (addr s) b`
for EVERY state and block.  So what a program does to the addressing state can be computed from
the addressing state alone — with the window and counter it starts from left as free variables —
and `ssd_from_any_state` turns that into: from ANY controller state (any RAM contents, any logs,
any LUT / update-control registers, any window and counter) that is awake and in entry mode 3, a
program that re-programs window and counter before its data block delivers the block exactly —
history independence (C02) in its strongest per-operation form.
-/
namespace EpdVerif
namespace Ssd

structure Addr where
  xPix : Bool
  stride : Nat
  rows : Nat
  entry : Nat
  xs : Nat
  xe : Nat
  ys : Nat
  ye : Nat
  cx : Nat
  cy : Nat
  asleep : Bool
  deriving DecidableEq, Repr

def addr (s : Ssd) : Addr :=
  ⟨s.xPix, s.stride, s.rows, s.entry, s.xs, s.xe, s.ys, s.ye, s.cx, s.cy, s.asleep⟩

namespace Addr
def xInc (a : Addr) : Bool := a.entry % 2 = 1
def yInc (a : Addr) : Bool := (a.entry / 2) % 2 = 1
def stepY (a : Addr) : Nat :=
  if a.cy = a.ye then a.ys else if a.yInc then a.cy + 1 else a.cy - 1
def advance (a : Addr) : Addr :=
  if a.cx = a.xe then { a with cx := a.xs, cy := a.stepY }
  else { a with cx := if a.xInc then a.cx + 1 else a.cx - 1 }
def advN : Nat → Addr → Addr
  | 0, a => a
  | n + 1, a => advN n a.advance
def resetRegs (a : Addr) : Addr :=
  { a with entry := 3, xs := 0, xe := a.stride - 1, ys := 0, ye := a.rows - 1, cx := 0, cy := 0 }
end Addr

theorem addr_advance (s : Ssd) : addr s.advance = (addr s).advance := by
  unfold advance Addr.advance stepY Addr.stepY xInc yInc Addr.xInc Addr.yInc addr
  simp only
  split
  · rfl
  · rfl

theorem addr_store (p : Nat) (s : Ssd) (b : UInt8) : addr (store p s b) = addr s := by
  unfold store; split
  · split <;> rfl
  · rfl

theorem addr_writeRam (p : Nat) : ∀ (bs : List UInt8) (s : Ssd) (n : Nat),
    addr (writeRam p s bs n).1 = Addr.advN bs.length (addr s)
  | [], _, _ => rfl
  | b :: bs, s, n => by
    rw [writeRam_cons, addr_writeRam p bs]
    simp only [List.length_cons, Addr.advN, addr_advance, addr_store]

/-- `regStep` on the addressing state -/
def regStepA (cmd : UInt8) (ps : List UInt8) (a : Addr) : Addr :=
  if cmd = 0x12 then a.resetRegs
  else if cmd = 0x11 then
    match ps with
    | [m] => { a with entry := m.toNat % 4 }
    | _ => a
  else if cmd = 0x44 then
    match a.xPix, ps with
    | false, [x, y] => { a with xs := x.toNat % 64, xe := y.toNat % 64 }
    | true, [x, x', y, y'] => { a with xs := (word x x' % 1024) / 8, xe := (word y y' % 1024) / 8 }
    | _, _ => a
  else if cmd = 0x45 then
    match ps with
    | [x, x', y, y'] => { a with ys := word x x' % 1024, ye := word y y' % 1024 }
    | _ => a
  else if cmd = 0x4E then
    match a.xPix, ps with
    | false, [x] => { a with cx := x.toNat % 64 }
    | true, [x, x'] => { a with cx := (word x x' % 1024) / 8 }
    | _, _ => a
  else if cmd = 0x4F then
    match ps with
    | [x, x'] => { a with cy := word x x' % 1024 }
    | _ => a
  else if cmd = 0x22 then a
  else if cmd = 0x20 then a
  else if cmd = 0x46 then a
  else if cmd = 0x47 then a
  else if cmd = 0x10 then
    match ps with
    | [m] => if m.toNat % 4 ≠ 0 then { a with asleep := true } else a
    | _ => a
  else if cmd = 0x07 then
    match ps with
    | [v] => if v = 0xA5 then { a with asleep := true } else a
    | _ => a
  else a

theorem addr_regStep (cmd : UInt8) (ps : List UInt8) (s : Ssd) :
    addr (regStep cmd ps s) = regStepA cmd ps (addr s) := by
  unfold regStep regStepA
  by_cases h0 : cmd = 0x12
  · rw [if_pos h0, if_pos h0]
    rfl
  · rw [if_neg h0, if_neg h0]
    by_cases h1 : cmd = 0x11
    · rw [if_pos h1, if_pos h1]
      rcases ps with _ | ⟨p0, _ | ⟨p1, t⟩⟩
      all_goals rfl
    · rw [if_neg h1, if_neg h1]
      by_cases h2 : cmd = 0x44
      · rw [if_pos h2, if_pos h2]
        rcases hxp : s.xPix with _ | _ <;> (rcases ps with _ | ⟨p0, _ | ⟨p1, _ | ⟨p2, _ | ⟨p3, _ | ⟨p4, t⟩⟩⟩⟩⟩) <;> simp only [addr, hxp] <;> rfl
      · rw [if_neg h2, if_neg h2]
        by_cases h3 : cmd = 0x45
        · rw [if_pos h3, if_pos h3]
          rcases ps with _ | ⟨p0, _ | ⟨p1, _ | ⟨p2, _ | ⟨p3, _ | ⟨p4, t⟩⟩⟩⟩⟩
          all_goals rfl
        · rw [if_neg h3, if_neg h3]
          by_cases h4 : cmd = 0x4E
          · rw [if_pos h4, if_pos h4]
            rcases hxp : s.xPix with _ | _ <;> (rcases ps with _ | ⟨p0, _ | ⟨p1, _ | ⟨p2, t⟩⟩⟩) <;> simp only [addr, hxp] <;> rfl
          · rw [if_neg h4, if_neg h4]
            by_cases h5 : cmd = 0x4F
            · rw [if_pos h5, if_pos h5]
              rcases ps with _ | ⟨p0, _ | ⟨p1, _ | ⟨p2, t⟩⟩⟩
              all_goals rfl
            · rw [if_neg h5, if_neg h5]
              by_cases h6 : cmd = 0x22
              · rw [if_pos h6, if_pos h6]
                rcases ps with _ | ⟨p0, _ | ⟨p1, t⟩⟩
                all_goals rfl
              · rw [if_neg h6, if_neg h6]
                by_cases h7 : cmd = 0x20
                · rw [if_pos h7, if_pos h7]
                  by_cases hd : s.uc2.toNat / 4 % 2 = 1
                  · rw [if_pos hd]; rfl
                  · rw [if_neg hd]
                · rw [if_neg h7, if_neg h7]
                  by_cases h8 : cmd = 0x46
                  · rw [if_pos h8, if_pos h8]
                    rcases ps with _ | ⟨p0, _ | ⟨p1, t⟩⟩
                    all_goals (first | rfl | (simp only [fillPlane]; rfl))
                  · rw [if_neg h8, if_neg h8]
                    by_cases h9 : cmd = 0x47
                    · rw [if_pos h9, if_pos h9]
                      rcases ps with _ | ⟨p0, _ | ⟨p1, t⟩⟩
                      all_goals (first | rfl | (simp only [fillPlane]; rfl))
                    · rw [if_neg h9, if_neg h9]
                      by_cases h10 : cmd = 0x10
                      · rw [if_pos h10, if_pos h10]
                        rcases ps with _ | ⟨p0, _ | ⟨p1, t⟩⟩
                        all_goals (first | rfl | (by_cases hm : p0.toNat % 4 ≠ 0 <;> simp only [hm, if_true, if_false, ne_eq, not_true_eq_false, not_false_eq_true] <;> rfl))
                      · rw [if_neg h10, if_neg h10]
                        by_cases h11 : cmd = 0x07
                        · rw [if_pos h11, if_pos h11]
                          rcases ps with _ | ⟨p0, _ | ⟨p1, t⟩⟩
                          all_goals (first | rfl | (by_cases hm : p0 = 0xA5 <;> simp only [hm, if_true, if_false] <;> rfl))
                        · rw [if_neg h11, if_neg h11]

/-- `feed` on the addressing state: a RAM data block only advances the counter by its length -/
def feedA (a : Addr) : Blk → Addr
  | .rst => { a.resetRegs with asleep := false }
  | .stray _ => a
  | .c cmd ps =>
    if a.asleep then a else
    if cmd = 0x24 ∨ cmd = 0x26 then Addr.advN ps.length a
    else regStepA cmd ps a

theorem addr_feed (s : Ssd) (b : Blk) : addr (s.feed b) = feedA (addr s) b := by
  cases b with
  | rst => rfl
  | stray _ => rfl
  | c cmd ps =>
    unfold feed feedA
    simp only []
    have e : (addr s).asleep = s.asleep := rfl
    rw [e]
    by_cases h0 : s.asleep = true
    · rw [if_pos h0, if_pos h0]; rfl
    · rw [if_neg h0, if_neg h0]
      by_cases hr : cmd = 0x24 ∨ cmd = 0x26
      · rw [if_pos hr, if_pos hr]
        exact addr_writeRam _ ps s 0
      · rw [if_neg hr, if_neg hr]
        exact addr_regStep cmd ps { s with regs := (cmd, ps) :: s.regs }

theorem addr_run : ∀ (bs : List Blk) (s : Ssd), addr (bs.foldl feed s) = bs.foldl feedA (addr s)
  | [], _ => rfl
  | b :: bs, s => by simp only [List.foldl_cons]; rw [addr_run bs, addr_feed]

/-- `ready` as a function of the addressing state -/
def readyA (a : Addr) (n : Nat) : Bool :=
  !a.asleep && a.entry == 3 && decide (a.xs ≤ a.xe) && decide (a.ys ≤ a.ye) &&
  decide (a.xe < a.stride) && decide (a.ye < a.rows) && a.cx == a.xs && a.cy == a.ys &&
  n == (a.xe - a.xs + 1) * (a.ye - a.ys + 1)

theorem ready_addr (s : Ssd) (n : Nat) : ready s n = readyA (addr s) n := rfl

/-- **from any state**: a block list whose data block `k` finds the addressing state ready —
    computed from the addressing state of the START state alone — delivers the block. -/
theorem ssd_from_any_state (blocks : List Blk) (s : Ssd) (hw : WfSize s) (k : Nat) (c : UInt8)
    (data : List UInt8) (hk : blocks[k]? = some (.c c data)) (hc : c = 0x24 ∨ c = 0x26)
    (n wb stride : Nat) (hn : data.length = n)
    (hready : readyA ((blocks.take k).foldl feedA (addr s)) n = true)
    (hxs : ((blocks.take k).foldl feedA (addr s)).xs = 0) (hys : ((blocks.take k).foldl feedA (addr s)).ys = 0)
    (hxe : ((blocks.take k).foldl feedA (addr s)).xe + 1 = wb)
    (hst : ((blocks.take k).foldl feedA (addr s)).stride = stride)
    (hpost : (blocks.drop (k + 1)).all (fun b => !touches (planeOfCmd c) b) = true) :
    ∀ (j : Nat) (hj : j < data.length),
      (planeOf (planeOfCmd c) (blocks.foldl feed s))[(j / wb) * stride + j % wb]? = some data[j] := by
  intro j hj
  have hrun := addr_run (blocks.take k) s
  have core := ssd_e2e_core blocks s k c data hk hc ((blocks.take k).foldl feed s) (CtlEq.refl _)
    (run_wf _ _ hw) (by rw [ready_addr, hrun, hn]; exact hready) hpost j hj
  have f1 : ((blocks.take k).foldl feed s).xs = 0 := by
    have : (addr ((blocks.take k).foldl feed s)).xs = 0 := by rw [hrun]; exact hxs
    exact this
  have f2 : ((blocks.take k).foldl feed s).ys = 0 := by
    have : (addr ((blocks.take k).foldl feed s)).ys = 0 := by rw [hrun]; exact hys
    exact this
  have f3 : ((blocks.take k).foldl feed s).xe + 1 = wb := by
    have : (addr ((blocks.take k).foldl feed s)).xe + 1 = wb := by rw [hrun]; exact hxe
    exact this
  have f4 : ((blocks.take k).foldl feed s).stride = stride := by
    have : (addr ((blocks.take k).foldl feed s)).stride = stride := by rw [hrun]; exact hst
    exact this
  rw [f1, f2, f4] at core
  have e : ((blocks.take k).foldl feed s).xe - 0 + 1 = wb := by rw [← f3]; omega
  rw [e] at core
  simpa using core

end Ssd
end EpdVerif
