import EpdVerif.Color
/-!
# Byte-domain facts (complete `decide +kernel` over the 256 byte values)

`bitAt b j` is pixel `j` (0 = leftmost, MSB first) of a 1 bpp byte; `nibAt b j` is pixel `j`
(0 = high nibble) of a 4 bpp byte.
-/
namespace EpdVerif

def bitAt (b : UInt8) (j : Nat) : Bool := (b >>> (UInt8.ofNat (7 - j))) &&& 1 == 1
def nibAt (b : UInt8) (j : Nat) : UInt8 := if j % 2 = 0 then b >>> 4 else b &&& 0xF

theorem all_bytes (P : UInt8 → Prop) (h : ∀ b : Fin 256, P (UInt8.ofNat b)) : ∀ b : UInt8, P b := by
  intro b
  have := h ⟨b.toNat, b.toNat_lt⟩
  simpa using this

/-- the 1 bpp mask write used by `Color` and `TriColor`: clears the pixel's bit, keeps the rest -/
def maskBit (pos : Nat) : UInt8 := ~~~(oneBit pos)

theorem setBit_fin : ∀ (b : Fin 256) (p j : Fin 8) (v : Bool),
    bitAt ((UInt8.ofNat b &&& maskBit p) ||| (if v then oneBit p else 0)) j
      = (if j = p then v else bitAt (UInt8.ofNat b) j) := by
  decide +kernel

theorem setBit_spec (b : UInt8) (pos j : Nat) (hj : j < 8) (v : Bool) :
    bitAt ((b &&& maskBit pos) ||| (if v then oneBit pos else 0)) j
      = (if j = pos % 8 then v else bitAt b j) := by
  have hp : pos % 8 < 8 := Nat.mod_lt _ (by decide)
  have h := setBit_fin ⟨b.toNat, b.toNat_lt⟩ ⟨pos % 8, hp⟩ ⟨j, hj⟩ v
  have e2 : oneBit (pos % 8) = oneBit pos := by simp [oneBit]
  have e1 : maskBit (pos % 8) = maskBit pos := by simp [maskBit, e2]
  simp only [UInt8.ofNat_toNat, Fin.mk.injEq, e1, e2] at h
  exact h

/-- the 4 bpp mask write used by `OctColor` -/
def maskNib (pos : Nat) : UInt8 := ~~~((0xF0 : UInt8) >>> UInt8.ofNat ((pos % 2) * 4))

theorem setNib_fin : ∀ (b : Fin 256) (p j : Fin 2) (n : Fin 8),
    nibAt ((UInt8.ofNat b &&& maskNib p) |||
        UInt8.ofNat ((if p.val % 2 = 1 then n.val else n.val * 16) % 256)) j
      = (if j = p then UInt8.ofNat n else nibAt (UInt8.ofNat b) j) := by
  decide +kernel

theorem setNib_spec (b : UInt8) (pos j : Nat) (hj : j < 2) (n : Nat) (hn : n < 8) :
    nibAt ((b &&& maskNib pos) ||| UInt8.ofNat ((if pos % 2 = 1 then n else n * 16) % 256)) j
      = (if j = pos % 2 then UInt8.ofNat n else nibAt b j) := by
  have hp : pos % 2 < 2 := Nat.mod_lt _ (by decide)
  have h := setNib_fin ⟨b.toNat, b.toNat_lt⟩ ⟨pos % 2, hp⟩ ⟨j, hj⟩ ⟨n, hn⟩
  have e1 : maskNib (pos % 2) = maskNib pos := by simp [maskNib]
  simp only [UInt8.ofNat_toNat, Fin.mk.injEq, e1, Nat.mod_mod] at h
  exact h

/-! low / high byte of the `u16` "bits" value the bitmask functions return -/
theorem lowByte_a (x : UInt8) : UInt8.ofNat (x.toNat % 256) = x := by
  have := x.toNat_lt
  rw [Nat.mod_eq_of_lt (by omega)]; exact UInt8.ofNat_toNat
theorem lowByte_b (x : UInt8) : UInt8.ofNat ((x.toNat * 256 + x.toNat) % 256) = x := by
  have := x.toNat_lt
  have : (x.toNat * 256 + x.toNat) % 256 = x.toNat := by omega
  rw [this]; exact UInt8.ofNat_toNat
theorem lowByte_c (x : UInt8) : UInt8.ofNat ((x.toNat * 256) % 256) = 0 := by
  have : (x.toNat * 256) % 256 = 0 := by omega
  rw [this]; rfl
theorem hiByte_a (x : UInt8) : UInt8.ofNat (x.toNat / 256 % 256) = 0 := by
  have := x.toNat_lt
  have : x.toNat / 256 % 256 = 0 := by omega
  rw [this]; rfl
theorem hiByte_b (x : UInt8) : UInt8.ofNat ((x.toNat * 256 + x.toNat) / 256 % 256) = x := by
  have := x.toNat_lt
  have h1 : (x.toNat * 256 + x.toNat) / 256 = x.toNat := by
    rw [Nat.mul_comm, Nat.mul_add_div (by decide), Nat.div_eq_of_lt this, Nat.add_zero]
  have : (x.toNat * 256 + x.toNat) / 256 % 256 = x.toNat := by rw [h1]; omega
  rw [this]; exact UInt8.ofNat_toNat
theorem hiByte_c (x : UInt8) : UInt8.ofNat ((x.toNat * 256) / 256 % 256) = x := by
  have := x.toNat_lt
  have h1 : (x.toNat * 256) / 256 = x.toNat := Nat.mul_div_cancel _ (by decide)
  have : (x.toNat * 256) / 256 % 256 = x.toNat := by rw [h1]; omega
  rw [this]; exact UInt8.ofNat_toNat
theorem zeroByte : UInt8.ofNat (0 % 256) = 0 := rfl
theorem zeroByte' : UInt8.ofNat (0 / 256 % 256) = 0 := rfl

end EpdVerif
