import EpdVerif.Lemmas.SsdFill
/-!
# SSD16xx simulator: the control state never depends on the RAM contents or on data values

`CtlEq a b`: the two simulator states agree on everything except the contents of the two RAM
planes.  `feed` preserves it, and for a RAM data block only the LENGTH of the block matters
(`ShapeEq`).  Consequence (`run_ctlEq`): the registers, window, address counter, sleep flag and
logs after any block list can be computed on a companion run in which every image buffer is
replaced by any buffer of the same length and the planes are empty — which is a closed term the
kernel can evaluate, while the real run carries a universally quantified buffer.
-/
namespace EpdVerif
namespace Ssd

/-- everything but the contents of the two planes agrees -/
structure CtlEq (a b : Ssd) : Prop where
  regs : SameCfg a b
  cx : a.cx = b.cx
  cy : a.cy = b.cy

theorem CtlEq.refl (a : Ssd) : CtlEq a a := ⟨(SameRegs.refl a).toCfg, rfl, rfl⟩

theorem CtlEq.symm {a b : Ssd} (h : CtlEq a b) : CtlEq b a :=
  ⟨⟨h.regs.xPix.symm, h.regs.stride.symm, h.regs.rows.symm, h.regs.entry.symm, h.regs.xs.symm, h.regs.xe.symm,
    h.regs.ys.symm, h.regs.ye.symm, h.regs.uc2.symm, h.regs.asleep.symm, h.regs.initialised.symm,
    h.regs.resetSeen.symm, h.regs.unsupported.symm, h.regs.ignored.symm,
    h.regs.refreshes.symm, h.regs.regs.symm⟩, h.cx.symm, h.cy.symm⟩

theorem CtlEq.trans {a b c : Ssd} (h1 : CtlEq a b) (h2 : CtlEq b c) : CtlEq a c :=
  ⟨⟨h1.regs.xPix.trans h2.regs.xPix, h1.regs.stride.trans h2.regs.stride, h1.regs.rows.trans h2.regs.rows,
    h1.regs.entry.trans h2.regs.entry, h1.regs.xs.trans h2.regs.xs, h1.regs.xe.trans h2.regs.xe,
    h1.regs.ys.trans h2.regs.ys, h1.regs.ye.trans h2.regs.ye, h1.regs.uc2.trans h2.regs.uc2,
    h1.regs.asleep.trans h2.regs.asleep, h1.regs.initialised.trans h2.regs.initialised,
    h1.regs.resetSeen.trans h2.regs.resetSeen, h1.regs.unsupported.trans h2.regs.unsupported,
    h1.regs.ignored.trans h2.regs.ignored, h1.regs.refreshes.trans h2.regs.refreshes,
    h1.regs.regs.trans h2.regs.regs⟩, h1.cx.trans h2.cx, h1.cy.trans h2.cy⟩

/-- replace the planes -/
def withData (s : Ssd) (bw red : Array UInt8) (e : List Episode) : Ssd := { s with bw := bw, red := red, epis := e }

/-- replace the planes only -/
def withPlanes (s : Ssd) (bw red : Array UInt8) : Ssd := s.withData bw red s.epis

theorem CtlEq.eq_withData {a b : Ssd} (h : CtlEq a b) : b = a.withData b.bw b.red b.epis := by
  cases a; cases b
  have h1 := h.regs; have h2 := h.cx; have h3 := h.cy
  cases h1
  simp only [withData] at *
  subst_vars
  rfl

theorem withData_ctlEq (a : Ssd) (x y : Array UInt8) (e : List Episode) : CtlEq a (a.withData x y e) :=
  ⟨⟨rfl, rfl, rfl, rfl, rfl, rfl, rfl, rfl, rfl, rfl, rfl, rfl, rfl, rfl, rfl, rfl⟩, rfl, rfl⟩

theorem withPlanes_ctlEq (a : Ssd) (x y : Array UInt8) : CtlEq a (a.withPlanes x y) :=
  ⟨⟨rfl, rfl, rfl, rfl, rfl, rfl, rfl, rfl, rfl, rfl, rfl, rfl, rfl, rfl, rfl, rfl⟩, rfl, rfl⟩

theorem advance_ctlEq {a b : Ssd} (h : CtlEq a b) : CtlEq a.advance b.advance := by
  rw [h.eq_withData]
  generalize b.bw = x; generalize b.red = y; generalize b.epis = e
  unfold advance stepY xInc yInc withData
  simp only
  split
  · split
    · exact ⟨⟨rfl, rfl, rfl, rfl, rfl, rfl, rfl, rfl, rfl, rfl, rfl, rfl, rfl, rfl, rfl, rfl⟩, rfl, rfl⟩
    · split <;> exact ⟨⟨rfl, rfl, rfl, rfl, rfl, rfl, rfl, rfl, rfl, rfl, rfl, rfl, rfl, rfl, rfl, rfl⟩, rfl, rfl⟩
  · split <;> exact ⟨⟨rfl, rfl, rfl, rfl, rfl, rfl, rfl, rfl, rfl, rfl, rfl, rfl, rfl, rfl, rfl, rfl⟩, rfl, rfl⟩

theorem store_ctlEq (p : Nat) (s : Ssd) (b : UInt8) : CtlEq (store p s b) s :=
  ⟨(store_sameRegs p s b).toCfg, store_cx p s b, store_cy p s b⟩

theorem inRam_ctlEq {a b : Ssd} (h : CtlEq a b) : a.inRam = b.inRam := by
  unfold inRam; rw [h.cx, h.cy, h.regs.stride, h.regs.rows]

/-- `writeRam`: control state and stored-byte count depend only on the LENGTH of the data -/
theorem writeRam_ctlEq (p q : Nat) : ∀ (bs bs' : List UInt8), bs.length = bs'.length →
    ∀ (a b : Ssd) (n : Nat), CtlEq a b →
      CtlEq (writeRam p a bs n).1 (writeRam q b bs' n).1 ∧ (writeRam p a bs n).2 = (writeRam q b bs' n).2
  | [], [], _, a, b, n, h => ⟨h, rfl⟩
  | x :: xs, y :: ys, hl, a, b, n, h => by
    rw [writeRam_cons, writeRam_cons, inRam_ctlEq h]
    have h1 : CtlEq (store p a x).advance (store q b y).advance :=
      advance_ctlEq (((store_ctlEq p a x).trans h).trans (store_ctlEq q b y).symm)
    exact writeRam_ctlEq p q xs ys (by simpa using hl) _ _ _ h1
  | [], _ :: _, hl, _, _, _, _ => by simp at hl
  | _ :: _, [], hl, _, _, _, _ => by simp at hl

/-- blocks with the same effect on the control state: equal, or RAM data blocks of equal length -/
def ShapeEq : Blk → Blk → Prop
  | .c c ps, .c c' ps' => c = c' ∧ (if c = 0x24 ∨ c = 0x26 then ps.length = ps'.length else ps = ps')
  | .rst, .rst => True
  | .stray _, .stray _ => True
  | _, _ => False

theorem ShapeEq.refl (b : Blk) : ShapeEq b b := by
  cases b with
  | c c ps => exact ⟨rfl, by split <;> rfl⟩
  | rst => trivial
  | stray _ => trivial

theorem atOrigin_ctlEq {a b : Ssd} (h : CtlEq a b) : a.atOrigin = b.atOrigin := by
  unfold atOrigin; rw [h.cx, h.cy, h.regs.xs, h.regs.ys]

theorem ite_ctl (c : Prop) [Decidable c] {A B A' B' : Ssd} (h1 : CtlEq A A') (h2 : CtlEq B B') :
    CtlEq (if c then A else B) (if c then A' else B') := by
  by_cases h : c
  · rw [if_pos h, if_pos h]; exact h1
  · rw [if_neg h, if_neg h]; exact h2

theorem regStep_ctlEq (cmd : UInt8) (ps : List UInt8) (s : Ssd) (x y : Array UInt8) (e : List Episode) :
    CtlEq (regStep cmd ps s) (regStep cmd ps (s.withData x y e)) := by
  have L : ∀ {a b : Ssd}, a.xPix = b.xPix → a.stride = b.stride → a.rows = b.rows → a.entry = b.entry → a.xs = b.xs →
      a.xe = b.xe → a.ys = b.ys → a.ye = b.ye → a.uc2 = b.uc2 → a.asleep = b.asleep → a.initialised = b.initialised →
      a.resetSeen = b.resetSeen → a.unsupported = b.unsupported → a.ignored = b.ignored →
      a.refreshes = b.refreshes → a.regs = b.regs → a.cx = b.cx → a.cy = b.cy → CtlEq a b :=
    fun h1 h2 h3 h4 h5 h6 h7 h8 h9 h10 h11 h12 h13 h14 h16 h17 h18 h19 =>
      ⟨⟨h1, h2, h3, h4, h5, h6, h7, h8, h9, h10, h11, h12, h13, h14, h16, h17⟩, h18, h19⟩
  have e1 : (s.withData x y e).xPix = s.xPix := rfl
  have e2 : (s.withData x y e).uc2 = s.uc2 := rfl
  unfold regStep
  rw [e1, e2]
  by_cases h0 : cmd = 0x12
  · rw [if_pos h0, if_pos h0]
    exact L rfl rfl rfl rfl rfl rfl rfl rfl rfl rfl rfl rfl rfl rfl rfl rfl rfl rfl
  · rw [if_neg h0, if_neg h0]
    by_cases h1 : cmd = 0x11
    · rw [if_pos h1, if_pos h1]
      rcases ps with _ | ⟨p0, _ | ⟨p1, t⟩⟩
      all_goals exact L rfl rfl rfl rfl rfl rfl rfl rfl rfl rfl rfl rfl rfl rfl rfl rfl rfl rfl
    · rw [if_neg h1, if_neg h1]
      by_cases h2 : cmd = 0x44
      · rw [if_pos h2, if_pos h2]
        rcases hxp : s.xPix with _ | _ <;> (rcases ps with _ | ⟨p0, _ | ⟨p1, _ | ⟨p2, _ | ⟨p3, _ | ⟨p4, t⟩⟩⟩⟩⟩) <;> exact L rfl rfl rfl rfl rfl rfl rfl rfl rfl rfl rfl rfl rfl rfl rfl rfl rfl rfl
      · rw [if_neg h2, if_neg h2]
        by_cases h3 : cmd = 0x45
        · rw [if_pos h3, if_pos h3]
          rcases ps with _ | ⟨p0, _ | ⟨p1, _ | ⟨p2, _ | ⟨p3, _ | ⟨p4, t⟩⟩⟩⟩⟩
          all_goals exact L rfl rfl rfl rfl rfl rfl rfl rfl rfl rfl rfl rfl rfl rfl rfl rfl rfl rfl
        · rw [if_neg h3, if_neg h3]
          by_cases h4 : cmd = 0x4E
          · rw [if_pos h4, if_pos h4]
            rcases hxp : s.xPix with _ | _ <;> (rcases ps with _ | ⟨p0, _ | ⟨p1, _ | ⟨p2, t⟩⟩⟩) <;> exact L rfl rfl rfl rfl rfl rfl rfl rfl rfl rfl rfl rfl rfl rfl rfl rfl rfl rfl
          · rw [if_neg h4, if_neg h4]
            by_cases h5 : cmd = 0x4F
            · rw [if_pos h5, if_pos h5]
              rcases ps with _ | ⟨p0, _ | ⟨p1, _ | ⟨p2, t⟩⟩⟩
              all_goals exact L rfl rfl rfl rfl rfl rfl rfl rfl rfl rfl rfl rfl rfl rfl rfl rfl rfl rfl
            · rw [if_neg h5, if_neg h5]
              by_cases h6 : cmd = 0x22
              · rw [if_pos h6, if_pos h6]
                rcases ps with _ | ⟨p0, _ | ⟨p1, t⟩⟩
                all_goals exact L rfl rfl rfl rfl rfl rfl rfl rfl rfl rfl rfl rfl rfl rfl rfl rfl rfl rfl
              · rw [if_neg h6, if_neg h6]
                by_cases h7 : cmd = 0x20
                · rw [if_pos h7, if_pos h7]
                  by_cases hd : s.uc2.toNat / 4 % 2 = 1
                  · rw [if_pos hd, if_pos hd]; exact L rfl rfl rfl rfl rfl rfl rfl rfl rfl rfl rfl rfl rfl rfl rfl rfl rfl rfl
                  · rw [if_neg hd, if_neg hd]; exact L rfl rfl rfl rfl rfl rfl rfl rfl rfl rfl rfl rfl rfl rfl rfl rfl rfl rfl
                · rw [if_neg h7, if_neg h7]
                  by_cases h8 : cmd = 0x46
                  · rw [if_pos h8, if_pos h8]
                    rcases ps with _ | ⟨p0, _ | ⟨p1, t⟩⟩
                    all_goals (first | exact L rfl rfl rfl rfl rfl rfl rfl rfl rfl rfl rfl rfl rfl rfl rfl rfl rfl rfl | (simp only [fillPlane, withData]; split <;> exact L rfl rfl rfl rfl rfl rfl rfl rfl rfl rfl rfl rfl rfl rfl rfl rfl rfl rfl))
                  · rw [if_neg h8, if_neg h8]
                    by_cases h9 : cmd = 0x47
                    · rw [if_pos h9, if_pos h9]
                      rcases ps with _ | ⟨p0, _ | ⟨p1, t⟩⟩
                      all_goals (first | exact L rfl rfl rfl rfl rfl rfl rfl rfl rfl rfl rfl rfl rfl rfl rfl rfl rfl rfl | (simp only [fillPlane, withData]; split <;> exact L rfl rfl rfl rfl rfl rfl rfl rfl rfl rfl rfl rfl rfl rfl rfl rfl rfl rfl))
                    · rw [if_neg h9, if_neg h9]
                      by_cases h10 : cmd = 0x10
                      · rw [if_pos h10, if_pos h10]
                        rcases ps with _ | ⟨p0, _ | ⟨p1, t⟩⟩
                        all_goals (first | exact L rfl rfl rfl rfl rfl rfl rfl rfl rfl rfl rfl rfl rfl rfl rfl rfl rfl rfl | exact ite_ctl _ (L rfl rfl rfl rfl rfl rfl rfl rfl rfl rfl rfl rfl rfl rfl rfl rfl rfl rfl) (L rfl rfl rfl rfl rfl rfl rfl rfl rfl rfl rfl rfl rfl rfl rfl rfl rfl rfl))
                      · rw [if_neg h10, if_neg h10]
                        by_cases h11 : cmd = 0x07
                        · rw [if_pos h11, if_pos h11]
                          rcases ps with _ | ⟨p0, _ | ⟨p1, t⟩⟩
                          all_goals (first | exact L rfl rfl rfl rfl rfl rfl rfl rfl rfl rfl rfl rfl rfl rfl rfl rfl rfl rfl | exact ite_ctl _ (L rfl rfl rfl rfl rfl rfl rfl rfl rfl rfl rfl rfl rfl rfl rfl rfl rfl rfl) (L rfl rfl rfl rfl rfl rfl rfl rfl rfl rfl rfl rfl rfl rfl rfl rfl rfl rfl))
                        · rw [if_neg h11, if_neg h11]
                          exact L rfl rfl rfl rfl rfl rfl rfl rfl rfl rfl rfl rfl rfl rfl rfl rfl rfl rfl

/-- `feed` on one and the same non-RAM block -/
theorem feed_ctlEq_same (a : Ssd) (x y : Array UInt8) (e : List Episode) (blk : Blk)
    (hn : ∀ c ps, blk = .c c ps → ¬ (c = 0x24 ∨ c = 0x26)) :
    CtlEq (a.feed blk) ((a.withData x y e).feed blk) := by
  cases blk with
  | rst => exact ⟨⟨rfl, rfl, rfl, rfl, rfl, rfl, rfl, rfl, rfl, rfl, rfl, rfl, rfl, rfl, rfl, rfl⟩, rfl, rfl⟩
  | stray _ => exact withData_ctlEq a x y e
  | c cmd ps =>
    have hn' := hn cmd ps rfl
    unfold feed
    have e0 : (a.withData x y e).asleep = a.asleep := rfl
    rw [e0]
    by_cases h0 : a.asleep
    · simp only [h0, if_true]
      exact ⟨⟨rfl, rfl, rfl, rfl, rfl, rfl, rfl, rfl, rfl, rfl, rfl, rfl, rfl, rfl, rfl, rfl⟩, rfl, rfl⟩
    · simp only [h0, Bool.false_eq_true, if_false, if_neg hn']
      exact regStep_ctlEq cmd ps { a with regs := (cmd, ps) :: a.regs, asleep := false } x y e

/-- `feed` preserves `CtlEq` across shape-equal blocks -/
theorem feed_ctlEq {a b : Ssd} (h : CtlEq a b) {blk blk' : Blk} (hs : ShapeEq blk blk') :
    CtlEq (a.feed blk) (b.feed blk') := by
  cases blk with
  | rst =>
    cases blk' with
    | rst =>
      rw [h.eq_withData]
      exact feed_ctlEq_same a _ _ _ .rst (by intro c ps hh; cases hh)
    | c _ _ => exact absurd hs (by simp [ShapeEq])
    | stray _ => exact absurd hs (by simp [ShapeEq])
  | stray s1 =>
    cases blk' with
    | stray s2 => exact h
    | c _ _ => exact absurd hs (by simp [ShapeEq])
    | rst => exact absurd hs (by simp [ShapeEq])
  | c cmd ps =>
    cases blk' with
    | rst => exact absurd hs (by simp [ShapeEq])
    | stray _ => exact absurd hs (by simp [ShapeEq])
    | c cmd' ps' =>
      obtain ⟨hc, hp⟩ := hs
      subst hc
      by_cases hr : cmd = 0x24 ∨ cmd = 0x26
      · rw [if_pos hr] at hp
        rw [h.eq_withData]
        generalize b.bw = x; generalize b.red = y; generalize b.epis = e
        unfold feed
        by_cases h0 : a.asleep
        · simp only [withData, h0, if_true]
          exact ⟨⟨rfl, rfl, rfl, rfl, rfl, rfl, rfl, rfl, rfl, rfl, rfl, rfl, rfl, rfl, rfl, rfl⟩, rfl, rfl⟩
        · have h0' : (a.withData x y e).asleep = false := by simpa [withData] using h0
          simp only [h0, h0', Bool.false_eq_true, if_false, if_pos hr]
          have hw := withData_ctlEq a x y e
          have w := writeRam_ctlEq (if cmd = 0x24 then 0 else 1) (if cmd = 0x24 then 0 else 1) ps ps' hp a
            (a.withData x y e) 0 hw
          have e1 := w.1.regs
          exact ⟨⟨e1.xPix, e1.stride, e1.rows, e1.entry, e1.xs, e1.xe, e1.ys, e1.ye, e1.uc2, e1.asleep, e1.initialised,
            e1.resetSeen, e1.unsupported, e1.ignored, e1.refreshes, e1.regs⟩, w.1.cx, w.1.cy⟩
      · rw [if_neg hr] at hp
        subst hp
        rw [h.eq_withData]
        exact feed_ctlEq_same a _ _ _ _ (by intro c ps hh; injection hh with h1 _; subst h1; exact hr)

/-- pointwise shape equality of block lists -/
def ShapesEq : List Blk → List Blk → Prop
  | [], [] => True
  | x :: xs, y :: ys => ShapeEq x y ∧ ShapesEq xs ys
  | _, _ => False

theorem run_ctlEq : ∀ (bs bs' : List Blk), ShapesEq bs bs' → ∀ (a b : Ssd), CtlEq a b →
    CtlEq (bs.foldl feed a) (bs'.foldl feed b)
  | [], [], _, _, _, h => h
  | x :: xs, y :: ys, hs, a, b, h => by
    simp only [List.foldl_cons]
    exact run_ctlEq xs ys hs.2 _ _ (feed_ctlEq h hs.1)
  | [], _ :: _, hs, _, _, _ => absurd hs (by simp [ShapesEq])
  | _ :: _, [], hs, _, _, _ => absurd hs (by simp [ShapesEq])

end Ssd
end EpdVerif
