import EpdVerif.Lemmas.UcFlags
/-!
# UC81xx / ACeP: power, sleep and initialisation evolve on their own (C09 for unbounded histories)

`PW` = (asleep, powered, initialised, resetSeen, has14) of the simulator.  `pw_feed`: these
fields after a block are a function of themselves and the block — no data, no RAM, no window.
`stepOk p b` says that feeding `b` in a state with fields `p` logs only GOOD refresh snapshots
(awake, initialised since the last reset, powered); `feed_goodLog` proves it against the
simulator's own `refreshes` log.  Hence `powerRun`, a fold over a program's blocks that returns
the final fields or `none` at the first bad refresh, decides for EVERY controller state with
those fields whether the program may run (`powerRun_sound`).
-/
namespace EpdVerif
namespace Uc

structure PW where
  asleep : Bool
  powered : Bool
  initialised : Bool
  resetSeen : Bool
  has14 : Bool
  deriving DecidableEq, Repr

def pw (u : Uc) : PW := ⟨u.asleep, u.powered, u.initialised, u.resetSeen, u.has14⟩

def regStepP (cmd : UInt8) (ps : List UInt8) (p : PW) : PW :=
  if cmd = 0x12 then p
  else if p.has14 ∧ cmd = 0x16 then p
  else if cmd = 0x04 then { p with powered := true }
  else if cmd = 0x02 then { p with powered := false }
  else if cmd = 0x07 then
    match ps with
    | [v] => if v = 0xA5 then { p with asleep := true, powered := false } else p
    | _ => p
  else if cmd = 0x91 then p
  else if cmd = 0x92 then p
  else p

theorem pw_regStep (cmd : UInt8) (ps : List UInt8) (u : Uc) :
    pw (regStep cmd ps u) = regStepP cmd ps (pw u) := by
  have e1 : (pw u).has14 = u.has14 := rfl
  unfold regStep regStepP
  rw [e1]
  by_cases h0 : cmd = 0x12
  · rw [if_pos h0, if_pos h0]; rfl
  · rw [if_neg h0, if_neg h0]
    by_cases h1 : u.has14 = true ∧ cmd = 0x16
    · rw [if_pos h1, if_pos h1]
      by_cases hl : ps.length = 8
      · rw [if_pos hl]; rfl
      · rw [if_neg hl]
    · rw [if_neg h1, if_neg h1]
      by_cases h2 : cmd = 0x04
      · rw [if_pos h2, if_pos h2]; rfl
      · rw [if_neg h2, if_neg h2]
        by_cases h3 : cmd = 0x02
        · rw [if_pos h3, if_pos h3]; rfl
        · rw [if_neg h3, if_neg h3]
          by_cases h4 : cmd = 0x07
          · rw [if_pos h4, if_pos h4]
            rcases ps with _ | ⟨v, _ | ⟨w, t⟩⟩
            · rfl
            · show pw (if v = 0xA5 then _ else _) = (if v = 0xA5 then _ else _)
              by_cases hv : v = 0xA5
              · rw [if_pos hv, if_pos hv]; rfl
              · rw [if_neg hv, if_neg hv]
            · rfl
          · rw [if_neg h4, if_neg h4]
            by_cases h5 : cmd = 0x91
            · rw [if_pos h5, if_pos h5]; rfl
            · rw [if_neg h5, if_neg h5]
              by_cases h6 : cmd = 0x92
              · rw [if_pos h6, if_pos h6]; rfl
              · rw [if_neg h6, if_neg h6]
                by_cases h7 : cmd = 0x90
                · rw [if_pos h7]
                  generalize u.winFmt = wf
                  split <;> rfl
                · rw [if_neg h7]

def feedP (p : PW) : Blk → PW
  | .rst => { p with asleep := false, powered := false, initialised := false, resetSeen := true }
  | .stray _ => p
  | .c cmd ps =>
    if p.asleep then p else
    if cmd = 0x10 then p
    else if cmd = 0x13 then p
    else if p.has14 ∧ cmd = 0x14 then p
    else if p.has14 ∧ cmd = 0x15 then p
    else regStepP cmd ps p

theorem pw_dtm (u : Uc) (plane : Nat) (bs : List UInt8) : pw (u.dtm plane bs) = pw u := by
  obtain ⟨p, q, r, h⟩ := dtm_eq u plane bs
  rw [h]; rfl

theorem pw_dtmWin (u : Uc) (plane : Nat) (bs : List UInt8) : pw (u.dtmWin plane bs) = pw u := by
  rcases bs with _ | ⟨b0, _ | ⟨b1, _ | ⟨b2, _ | ⟨b3, _ | ⟨b4, _ | ⟨b5, _ | ⟨b6, _ | ⟨b7, t⟩⟩⟩⟩⟩⟩⟩⟩
  case cons.cons.cons.cons.cons.cons.cons.cons =>
    unfold dtmWin
    by_cases hp : plane = 0
    · simp only [hp, if_true]; rfl
    · simp only [hp, if_false]; rfl
  all_goals rfl

theorem pw_feed (u : Uc) (b : Blk) : pw (u.feed b) = feedP (pw u) b := by
  cases b with
  | rst => rfl
  | stray _ => rfl
  | c cmd ps =>
    unfold feed feedP
    simp only []
    have e : (pw u).asleep = u.asleep := rfl
    have e1 : (pw u).has14 = u.has14 := rfl
    rw [e, e1]
    by_cases h0 : u.asleep = true
    · rw [if_pos h0, if_pos h0]; rfl
    · rw [if_neg h0, if_neg h0]
      by_cases h10 : cmd = 0x10
      · rw [if_pos h10, if_pos h10]; exact pw_dtm ..
      · rw [if_neg h10, if_neg h10]
        by_cases h13 : cmd = 0x13
        · rw [if_pos h13, if_pos h13]; exact pw_dtm ..
        · rw [if_neg h13, if_neg h13]
          by_cases h14 : u.has14 = true ∧ cmd = 0x14
          · rw [if_pos h14, if_pos h14]; exact pw_dtmWin ..
          · rw [if_neg h14, if_neg h14]
            by_cases h15 : u.has14 = true ∧ cmd = 0x15
            · rw [if_pos h15, if_pos h15]; exact pw_dtmWin ..
            · rw [if_neg h15, if_neg h15]
              exact pw_regStep cmd ps { u with regs := (cmd, ps) :: u.regs }

/-! ## the refresh log -/

def goodSnap (s : Snap) : Bool := !s.asleep && s.initialised && s.powered

def GoodLog (u : Uc) : Prop := u.refreshes.all goodSnap = true

/-- feeding `b` in a state with fields `p` logs only good snapshots -/
def stepOk (p : PW) : Blk → Bool
  | .rst => true
  | .stray _ => true
  | .c cmd ps =>
    if p.asleep then cmd != 0x12 else
    if cmd = 0x10 then true
    else if cmd = 0x13 then true
    else if p.has14 ∧ cmd = 0x14 then true
    else if p.has14 ∧ cmd = 0x15 then true
    else if cmd = 0x12 then p.initialised && p.powered
    else if p.has14 ∧ cmd = 0x16 then (if ps.length = 8 then p.initialised && p.powered else true)
    else true

theorem refreshes_dtm (u : Uc) (plane : Nat) (bs : List UInt8) : (u.dtm plane bs).refreshes = u.refreshes := by
  obtain ⟨p, q, r, h⟩ := dtm_eq u plane bs
  rw [h]; rfl

theorem refreshes_dtmWin (u : Uc) (plane : Nat) (bs : List UInt8) : (u.dtmWin plane bs).refreshes = u.refreshes := by
  rcases bs with _ | ⟨b0, _ | ⟨b1, _ | ⟨b2, _ | ⟨b3, _ | ⟨b4, _ | ⟨b5, _ | ⟨b6, _ | ⟨b7, t⟩⟩⟩⟩⟩⟩⟩⟩
  case cons.cons.cons.cons.cons.cons.cons.cons =>
    unfold dtmWin
    by_cases hp : plane = 0
    · simp only [hp, if_true]
    · simp only [hp, if_false]
  all_goals rfl

/-- the refresh log after a register command -/
theorem refreshes_regStep (cmd : UInt8) (ps : List UInt8) (u : Uc) :
    (regStep cmd ps u).refreshes =
      if cmd = 0x12 then u.snap :: u.refreshes
      else if u.has14 = true ∧ cmd = 0x16 then (if ps.length = 8 then u.snap :: u.refreshes else u.refreshes)
      else u.refreshes := by
  unfold regStep
  by_cases h0 : cmd = 0x12
  · rw [if_pos h0, if_pos h0]
  · rw [if_neg h0, if_neg h0]
    by_cases h1 : u.has14 = true ∧ cmd = 0x16
    · rw [if_pos h1, if_pos h1]
      by_cases hl : ps.length = 8
      · rw [if_pos hl, if_pos hl]
      · rw [if_neg hl, if_neg hl]
    · rw [if_neg h1, if_neg h1]
      by_cases h2 : cmd = 0x04
      · rw [if_pos h2]
      · rw [if_neg h2]
        by_cases h3 : cmd = 0x02
        · rw [if_pos h3]
        · rw [if_neg h3]
          by_cases h4 : cmd = 0x07
          · rw [if_pos h4]
            rcases ps with _ | ⟨v, _ | ⟨w, t⟩⟩
            · rfl
            · show (if v = 0xA5 then _ else _ : Uc).refreshes = _
              by_cases hv : v = 0xA5
              · rw [if_pos hv]
              · rw [if_neg hv]
            · rfl
          · rw [if_neg h4]
            by_cases h5 : cmd = 0x91
            · rw [if_pos h5]
            · rw [if_neg h5]
              by_cases h6 : cmd = 0x92
              · rw [if_pos h6]
              · rw [if_neg h6]
                by_cases h7 : cmd = 0x90
                · rw [if_pos h7]
                  generalize u.winFmt = wf
                  split <;> rfl
                · rw [if_neg h7]

theorem snap_good (u : Uc) (ha : u.asleep = false) (hi : u.initialised = true) (hp : u.powered = true) :
    goodSnap u.snap = true := by
  simp [goodSnap, snap, ha, hi, hp]

theorem feed_goodLog (u : Uc) (b : Blk) (hg : GoodLog u) (hs : stepOk (pw u) b = true) : GoodLog (u.feed b) := by
  cases b with
  | rst => exact hg
  | stray _ => exact hg
  | c cmd ps =>
    unfold stepOk at hs
    unfold feed GoodLog
    simp only [] at hs ⊢
    have e : (pw u).asleep = u.asleep := rfl
    have e1 : (pw u).has14 = u.has14 := rfl
    have e2 : (pw u).initialised = u.initialised := rfl
    have e3 : (pw u).powered = u.powered := rfl
    rw [e, e1, e2, e3] at hs
    by_cases h0 : u.asleep = true
    · rw [if_pos h0] at hs ⊢
      have hc : cmd ≠ 0x12 := by simpa using hs
      simp only [if_neg hc]
      exact hg
    · rw [if_neg h0] at hs ⊢
      have ha : u.asleep = false := by simpa using h0
      by_cases h10 : cmd = 0x10
      · rw [if_pos h10]; rw [refreshes_dtm]; exact hg
      · rw [if_neg h10] at hs ⊢
        by_cases h13 : cmd = 0x13
        · rw [if_pos h13]; rw [refreshes_dtm]; exact hg
        · rw [if_neg h13] at hs ⊢
          by_cases h14 : u.has14 = true ∧ cmd = 0x14
          · rw [if_pos h14]; rw [refreshes_dtmWin]; exact hg
          · rw [if_neg h14] at hs ⊢
            by_cases h15 : u.has14 = true ∧ cmd = 0x15
            · rw [if_pos h15]; rw [refreshes_dtmWin]; exact hg
            · rw [if_neg h15] at hs ⊢
              rw [refreshes_regStep]
              by_cases h12 : cmd = 0x12
              · rw [if_pos h12] at hs ⊢
                simp only [Bool.and_eq_true] at hs
                simp only [List.all_cons, Bool.and_eq_true]
                exact ⟨snap_good _ ha hs.1 hs.2, hg⟩
              · rw [if_neg h12] at hs ⊢
                by_cases h16 : u.has14 = true ∧ cmd = 0x16
                · rw [if_pos h16] at hs ⊢
                  by_cases hl : ps.length = 8
                  · rw [if_pos hl] at hs ⊢
                    simp only [Bool.and_eq_true] at hs
                    simp only [List.all_cons, Bool.and_eq_true]
                    exact ⟨snap_good _ ha hs.1 hs.2, hg⟩
                  · rw [if_neg hl]; exact hg
                · rw [if_neg h16]; exact hg

/-- run the fields through a program; `none` at the first refresh that would not be good -/
def powerRun (p : PW) : List Blk → Option PW
  | [] => some p
  | b :: r => if stepOk p b then powerRun (feedP p b) r else none

theorem powerRun_sound : ∀ (bs : List Blk) (u : Uc) (p' : PW), GoodLog u → powerRun (pw u) bs = some p' →
    GoodLog (bs.foldl feed u) ∧ pw (bs.foldl feed u) = p'
  | [], u, p', hg, h => by
    simp only [powerRun, Option.some.injEq] at h
    exact ⟨hg, h⟩
  | b :: r, u, p', hg, h => by
    simp only [powerRun] at h
    by_cases hs : stepOk (pw u) b = true
    · rw [if_pos hs] at h
      simp only [List.foldl_cons]
      refine powerRun_sound r (u.feed b) p' (feed_goodLog u b hg hs) ?_
      rw [pw_feed]; exact h
    · rw [if_neg hs] at h; cases h

theorem regStepP_has14 (cmd : UInt8) (ps : List UInt8) (p : PW) : (regStepP cmd ps p).has14 = p.has14 := by
  unfold regStepP
  by_cases h0 : cmd = 0x12
  · rw [if_pos h0]
  rw [if_neg h0]
  by_cases h1 : p.has14 ∧ cmd = 0x16
  · rw [if_pos h1]
  rw [if_neg h1]
  by_cases h2 : cmd = 0x04
  · rw [if_pos h2]
  rw [if_neg h2]
  by_cases h3 : cmd = 0x02
  · rw [if_pos h3]
  rw [if_neg h3]
  by_cases h4 : cmd = 0x07
  · rw [if_pos h4]
    rcases ps with _ | ⟨v, _ | ⟨w, t⟩⟩
    · rfl
    · simp only []; split <;> rfl
    · rfl
  rw [if_neg h4]
  by_cases h5 : cmd = 0x91
  · rw [if_pos h5]
  rw [if_neg h5]
  by_cases h6 : cmd = 0x92
  · rw [if_pos h6]
  rw [if_neg h6]

theorem feedP_has14 (p : PW) (b : Blk) : (feedP p b).has14 = p.has14 := by
  cases b with
  | rst => rfl
  | stray _ => rfl
  | c cmd ps =>
    unfold feedP
    simp only []
    by_cases h0 : p.asleep = true
    · rw [if_pos h0]
    rw [if_neg h0]
    by_cases h1 : cmd = 0x10
    · rw [if_pos h1]
    rw [if_neg h1]
    by_cases h2 : cmd = 0x13
    · rw [if_pos h2]
    rw [if_neg h2]
    by_cases h3 : p.has14 ∧ cmd = 0x14
    · rw [if_pos h3]
    rw [if_neg h3]
    by_cases h4 : p.has14 ∧ cmd = 0x15
    · rw [if_pos h4]
    rw [if_neg h4]
    exact regStepP_has14 cmd ps p

theorem powerRun_has14 : ∀ (bs : List Blk) (p r : PW), powerRun p bs = some r → r.has14 = p.has14
  | [], p, r, h => by simp only [powerRun, Option.some.injEq] at h; rw [← h]
  | b :: bs, p, r, h => by
    simp only [powerRun] at h
    by_cases hs : stepOk p b = true
    · rw [if_pos hs] at h
      exact (powerRun_has14 bs _ r h).trans (feedP_has14 p b)
    · rw [if_neg hs] at h; cases h

/-- the end of an operation (the simulator's `opEnd`): a reset seen during it counts as initialisation -/
def PW.opEnd (p : PW) : PW := if p.resetSeen then { p with initialised := true, resetSeen := false } else p

theorem pw_opEnd (u : Uc) : pw (u.opEnd true) = (pw u).opEnd := by
  unfold Uc.opEnd PW.opEnd
  have e : (pw u).resetSeen = u.resetSeen := rfl
  rw [e]
  split <;> rfl

theorem goodLog_opEnd (u : Uc) (h : GoodLog u) : GoodLog (u.opEnd true) := by
  unfold Uc.opEnd GoodLog
  split
  · exact h
  · exact h

theorem PW.opEnd_has14 (p : PW) : p.opEnd.has14 = p.has14 := by
  unfold PW.opEnd; split <;> rfl

end Uc
end EpdVerif
