import EpdVerif.Lemmas.UcE2E
/-!
# UC81xx / ACeP: the flags that decide where a linear data block lands evolve on their own

`Flags` = (asleep, partial mode, has the 2.7in windowed commands).  `flags (u.feed b) =
feedF (flags u) b` for every state and block, so `uc_from_any_state`: from ANY controller state
(any RAM contents, any registers, any partial window, any power state) a program whose data
block finds the controller awake and outside partial mode — computed from the three flags of the
START state alone — leaves the plane equal to the block.
-/
namespace EpdVerif
namespace Uc

structure Flags where
  asleep : Bool
  partialOn : Bool
  has14 : Bool
  deriving DecidableEq, Repr

def flags (u : Uc) : Flags := ⟨u.asleep, u.partialOn, u.has14⟩

def regStepF (cmd : UInt8) (ps : List UInt8) (f : Flags) : Flags :=
  if cmd = 0x12 then f
  else if f.has14 ∧ cmd = 0x16 then f
  else if cmd = 0x04 then f
  else if cmd = 0x02 then f
  else if cmd = 0x07 then
    match ps with
    | [v] => if v = 0xA5 then { f with asleep := true } else f
    | _ => f
  else if cmd = 0x91 then { f with partialOn := true }
  else if cmd = 0x92 then { f with partialOn := false }
  else f

theorem flags_regStep (cmd : UInt8) (ps : List UInt8) (u : Uc) :
    flags (regStep cmd ps u) = regStepF cmd ps (flags u) := by
  have e1 : (flags u).has14 = u.has14 := rfl
  unfold regStep regStepF
  rw [e1]
  by_cases h0 : cmd = 0x12
  · rw [if_pos h0, if_pos h0]; rfl
  · rw [if_neg h0, if_neg h0]
    by_cases h1 : u.has14 = true ∧ cmd = 0x16
    · rw [if_pos h1, if_pos h1]
      by_cases hl : ps.length = 8
      · rw [if_pos hl]; rfl
      · rw [if_neg hl]
    · rw [if_neg h1, if_neg h1]
      by_cases h2 : cmd = 0x04
      · rw [if_pos h2, if_pos h2]; rfl
      · rw [if_neg h2, if_neg h2]
        by_cases h3 : cmd = 0x02
        · rw [if_pos h3, if_pos h3]; rfl
        · rw [if_neg h3, if_neg h3]
          by_cases h4 : cmd = 0x07
          · rw [if_pos h4, if_pos h4]
            rcases ps with _ | ⟨v, _ | ⟨w, t⟩⟩
            · rfl
            · show flags (if v = 0xA5 then _ else _) = (if v = 0xA5 then _ else _)
              by_cases hv : v = 0xA5
              · rw [if_pos hv, if_pos hv]; rfl
              · rw [if_neg hv, if_neg hv]
            · rfl
          · rw [if_neg h4, if_neg h4]
            by_cases h5 : cmd = 0x91
            · rw [if_pos h5, if_pos h5]; rfl
            · rw [if_neg h5, if_neg h5]
              by_cases h6 : cmd = 0x92
              · rw [if_pos h6, if_pos h6]; rfl
              · rw [if_neg h6, if_neg h6]
                by_cases h7 : cmd = 0x90
                · rw [if_pos h7]
                  generalize u.winFmt = wf
                  split <;> rfl
                · rw [if_neg h7]

/-- `feed` on the flags -/
def feedF (f : Flags) : Blk → Flags
  | .rst => { f with asleep := false, partialOn := false }
  | .stray _ => f
  | .c cmd ps =>
    if f.asleep then f else
    if cmd = 0x10 then f
    else if cmd = 0x13 then f
    else if f.has14 ∧ cmd = 0x14 then f
    else if f.has14 ∧ cmd = 0x15 then f
    else regStepF cmd ps f

theorem flags_dtm (u : Uc) (plane : Nat) (bs : List UInt8) : flags (u.dtm plane bs) = flags u := by
  obtain ⟨p, q, r, h⟩ := dtm_eq u plane bs
  rw [h]; rfl

theorem flags_dtmWin (u : Uc) (plane : Nat) (bs : List UInt8) : flags (u.dtmWin plane bs) = flags u := by
  rcases bs with _ | ⟨b0, _ | ⟨b1, _ | ⟨b2, _ | ⟨b3, _ | ⟨b4, _ | ⟨b5, _ | ⟨b6, _ | ⟨b7, t⟩⟩⟩⟩⟩⟩⟩⟩
  case cons.cons.cons.cons.cons.cons.cons.cons =>
    unfold dtmWin
    by_cases hp : plane = 0
    · simp only [hp, if_true]; rfl
    · simp only [hp, if_false]; rfl
  all_goals rfl

theorem flags_feed (u : Uc) (b : Blk) : flags (u.feed b) = feedF (flags u) b := by
  cases b with
  | rst => rfl
  | stray _ => rfl
  | c cmd ps =>
    unfold feed feedF
    simp only []
    have e : (flags u).asleep = u.asleep := rfl
    have e1 : (flags u).has14 = u.has14 := rfl
    rw [e, e1]
    by_cases h0 : u.asleep = true
    · rw [if_pos h0, if_pos h0]; rfl
    · rw [if_neg h0, if_neg h0]
      by_cases h10 : cmd = 0x10
      · rw [if_pos h10, if_pos h10]; exact flags_dtm ..
      · rw [if_neg h10, if_neg h10]
        by_cases h13 : cmd = 0x13
        · rw [if_pos h13, if_pos h13]; exact flags_dtm ..
        · rw [if_neg h13, if_neg h13]
          by_cases h14 : u.has14 = true ∧ cmd = 0x14
          · rw [if_pos h14, if_pos h14]; exact flags_dtmWin ..
          · rw [if_neg h14, if_neg h14]
            by_cases h15 : u.has14 = true ∧ cmd = 0x15
            · rw [if_pos h15, if_pos h15]; exact flags_dtmWin ..
            · rw [if_neg h15, if_neg h15]
              exact flags_regStep cmd ps { u with regs := (cmd, ps) :: u.regs }

theorem flags_run : ∀ (bs : List Blk) (u : Uc), flags (bs.foldl feed u) = bs.foldl feedF (flags u)
  | [], _ => rfl
  | b :: bs, u => by simp only [List.foldl_cons]; rw [flags_run bs, flags_feed]

def readyF (f : Flags) : Bool := !f.asleep && !f.partialOn

/-- **from any state** -/
theorem uc_from_any_state (blocks : List Blk) (u : Uc) (k : Nat) (c : UInt8) (data : List UInt8)
    (hk : blocks[k]? = some (.c c data)) (hc : c = 0x10 ∨ c = 0x13)
    (hsz : data.length = (planeU (planeOfCmd c) u).size)
    (hready : readyF ((blocks.take k).foldl feedF (flags u)) = true)
    (hpost : (blocks.drop (k + 1)).all (fun b => !touches (planeOfCmd c) b) = true) :
    (planeU (planeOfCmd c) (blocks.foldl feed u)).toList = data := by
  have hrun := flags_run (blocks.take k) u
  have hsplit := split_at blocks k _ hk
  have hsz1 := run_sizes (blocks.take k) u
  generalize hr1 : (blocks.take k).foldl feed u = r1 at hrun hsz1
  have hrunall : blocks.foldl feed u = (blocks.drop (k + 1)).foldl feed (r1.feed (.c c data)) := by
    rw [hsplit, List.foldl_append, List.foldl_cons, hr1, ← hsplit]
  rw [hrunall, run_untouched _ _ _ hpost]
  rw [← hrun] at hready
  simp only [readyF, flags, Bool.and_eq_true, Bool.not_eq_true'] at hready
  have ha : r1.asleep = false := hready.1
  have hp : r1.partialOn = false := hready.2
  rcases hc with h10 | h13
  · subst h10
    have hfeed : r1.feed (.c 0x10 data) = r1.dtm 0 data := by
      unfold feed; simp [ha]
    rw [hfeed]
    have := (dtm_full r1 0 data hp (by
      simp only [planeOfCmd, planeU, if_true] at hsz
      simp only [if_true]; rw [hsz1.1]; exact hsz)).1
    simpa [planeOfCmd, planeU] using this
  · subst h13
    have hfeed : r1.feed (.c 0x13 data) = r1.dtm 1 data := by
      unfold feed; simp [ha]
    rw [hfeed]
    have := (dtm_full r1 1 data hp (by
      simp only [planeOfCmd, planeU, if_neg (by decide : ¬ ((0x13 : UInt8) = 0x10)), if_neg (by decide : ¬ ((1 : Nat) = 0))] at hsz
      simp only [if_neg (by decide : ¬ ((1 : Nat) = 0))]; rw [hsz1.2]; exact hsz)).1
    simpa [planeOfCmd, planeU] using this

end Uc
end EpdVerif
