import EpdVerif.Ctrl.Ssd
/-!
# SSD16xx: a data block written from the window origin fills the window row by row

Facts about `Ssd.writeRam` (entry mode 3: X increment, Y increment, X first) and about what
`Ssd.feed` does with a RAM data block (0x24 / 0x26).

* unconditional: `writeRam_sameRegs`, `writeRam_otherOf`, `writeRam_bw_size`,
  `writeRam_red_size` (only the counter and the addressed plane ever change);
* `writeRam_window_prefix`: at most one window's worth of bytes from the window origin;
* `writeRam_window_fill`: exactly one window's worth (counter back at the origin);
* `writeRam_full_fill`: the same for a window that starts at `xs = 0`, `ys = 0`;
* `writeRam_whole_fill`: window = whole RAM row range from row 0, byte `k` lands at index `k`;
* `feed_c24`, `feed_c26`, `feed_ram`: `feed` on a RAM data block;
* `feed_c24_window_fill`, `feed_c26_window_fill`: the two combined.
-/

namespace EpdVerif
namespace Ssd

/-! ## register fields -/

/-- every field except the address counter and the two RAM planes agrees -/
structure SameRegs (a b : Ssd) : Prop where
  xPix : a.xPix = b.xPix
  stride : a.stride = b.stride
  rows : a.rows = b.rows
  entry : a.entry = b.entry
  xs : a.xs = b.xs
  xe : a.xe = b.xe
  ys : a.ys = b.ys
  ye : a.ye = b.ye
  uc2 : a.uc2 = b.uc2
  asleep : a.asleep = b.asleep
  initialised : a.initialised = b.initialised
  resetSeen : a.resetSeen = b.resetSeen
  unsupported : a.unsupported = b.unsupported
  ignored : a.ignored = b.ignored
  epis : a.epis = b.epis
  refreshes : a.refreshes = b.refreshes
  regs : a.regs = b.regs

theorem SameRegs.refl (a : Ssd) : SameRegs a a := by
  constructor <;> rfl

theorem SameRegs.trans {a b c : Ssd} (h1 : SameRegs a b) (h2 : SameRegs b c) : SameRegs a c := by
  constructor
  · exact h1.xPix.trans h2.xPix
  · exact h1.stride.trans h2.stride
  · exact h1.rows.trans h2.rows
  · exact h1.entry.trans h2.entry
  · exact h1.xs.trans h2.xs
  · exact h1.xe.trans h2.xe
  · exact h1.ys.trans h2.ys
  · exact h1.ye.trans h2.ye
  · exact h1.uc2.trans h2.uc2
  · exact h1.asleep.trans h2.asleep
  · exact h1.initialised.trans h2.initialised
  · exact h1.resetSeen.trans h2.resetSeen
  · exact h1.unsupported.trans h2.unsupported
  · exact h1.ignored.trans h2.ignored
  · exact h1.epis.trans h2.epis
  · exact h1.refreshes.trans h2.refreshes
  · exact h1.regs.trans h2.regs

/-- every field except the address counter, the two RAM planes and the episode log agrees
    (what a RAM data block fed through `feed` preserves) -/
structure SameCfg (a b : Ssd) : Prop where
  xPix : a.xPix = b.xPix
  stride : a.stride = b.stride
  rows : a.rows = b.rows
  entry : a.entry = b.entry
  xs : a.xs = b.xs
  xe : a.xe = b.xe
  ys : a.ys = b.ys
  ye : a.ye = b.ye
  uc2 : a.uc2 = b.uc2
  asleep : a.asleep = b.asleep
  initialised : a.initialised = b.initialised
  resetSeen : a.resetSeen = b.resetSeen
  unsupported : a.unsupported = b.unsupported
  ignored : a.ignored = b.ignored
  refreshes : a.refreshes = b.refreshes
  regs : a.regs = b.regs

theorem SameRegs.toCfg {a b : Ssd} (h : SameRegs a b) : SameCfg a b :=
  ⟨h.xPix, h.stride, h.rows, h.entry, h.xs, h.xe, h.ys, h.ye, h.uc2, h.asleep, h.initialised,
   h.resetSeen, h.unsupported, h.ignored, h.refreshes, h.regs⟩

/-! ## the two planes -/

/-- the plane a `writeRam plane` writes: 0 = `bw`, anything else = `red` -/
def planeOf (p : Nat) (s : Ssd) : Array UInt8 := if p = 0 then s.bw else s.red

/-- the plane a `writeRam plane` leaves alone -/
def otherOf (p : Nat) (s : Ssd) : Array UInt8 := if p = 0 then s.red else s.bw

@[simp] theorem planeOf_zero (s : Ssd) : planeOf 0 s = s.bw := rfl
@[simp] theorem planeOf_one (s : Ssd) : planeOf 1 s = s.red := rfl
@[simp] theorem otherOf_zero (s : Ssd) : otherOf 0 s = s.red := rfl
@[simp] theorem otherOf_one (s : Ssd) : otherOf 1 s = s.bw := rfl

/-! ## one byte: `store` then `advance` -/

/-- the RAM update of one data byte (the counter is not moved) -/
def store (p : Nat) (s : Ssd) (b : UInt8) : Ssd :=
  if s.inRam then
    (if p = 0 then { s with bw := s.bw.setIfInBounds s.idx b }
     else { s with red := s.red.setIfInBounds s.idx b })
  else s

theorem writeRam_nil (p : Nat) (s : Ssd) (n : Nat) : writeRam p s [] n = (s, n) := rfl

theorem writeRam_cons (p : Nat) (s : Ssd) (b : UInt8) (bs : List UInt8) (n : Nat) :
    writeRam p s (b :: bs) n
      = writeRam p (store p s b).advance bs (if s.inRam then n + 1 else n) := rfl

theorem store_sameRegs (p : Nat) (s : Ssd) (b : UInt8) : SameRegs (store p s b) s := by
  unfold store
  split
  · split <;> exact ⟨rfl, rfl, rfl, rfl, rfl, rfl, rfl, rfl, rfl, rfl, rfl, rfl, rfl, rfl, rfl, rfl, rfl⟩
  · exact SameRegs.refl s

theorem store_cx (p : Nat) (s : Ssd) (b : UInt8) : (store p s b).cx = s.cx := by
  unfold store; split
  · split <;> rfl
  · rfl

theorem store_cy (p : Nat) (s : Ssd) (b : UInt8) : (store p s b).cy = s.cy := by
  unfold store; split
  · split <;> rfl
  · rfl

theorem store_planeOf (p : Nat) (s : Ssd) (b : UInt8) :
    planeOf p (store p s b)
      = if s.inRam then (planeOf p s).setIfInBounds s.idx b else planeOf p s := by
  unfold store planeOf
  by_cases hi : s.inRam = true
  · by_cases hp : p = 0
    · simp only [if_pos hi, if_pos hp]
    · simp only [if_pos hi, if_neg hp]
  · simp only [if_neg hi]

theorem store_otherOf (p : Nat) (s : Ssd) (b : UInt8) : otherOf p (store p s b) = otherOf p s := by
  unfold store otherOf
  by_cases hi : s.inRam = true
  · by_cases hp : p = 0
    · simp only [if_pos hi, if_pos hp]
    · simp only [if_pos hi, if_neg hp]
  · simp only [if_neg hi]

theorem store_bw_size (p : Nat) (s : Ssd) (b : UInt8) : (store p s b).bw.size = s.bw.size := by
  unfold store
  by_cases hi : s.inRam = true
  · by_cases hp : p = 0
    · simp only [if_pos hi, if_pos hp, Array.size_setIfInBounds]
    · simp only [if_pos hi, if_neg hp]
  · simp only [if_neg hi]

theorem store_red_size (p : Nat) (s : Ssd) (b : UInt8) : (store p s b).red.size = s.red.size := by
  unfold store
  by_cases hi : s.inRam = true
  · by_cases hp : p = 0
    · simp only [if_pos hi, if_pos hp]
    · simp only [if_pos hi, if_neg hp, Array.size_setIfInBounds]
  · simp only [if_neg hi]

theorem advance_sameRegs (s : Ssd) : SameRegs s.advance s := by
  unfold advance
  split <;> exact ⟨rfl, rfl, rfl, rfl, rfl, rfl, rfl, rfl, rfl, rfl, rfl, rfl, rfl, rfl, rfl, rfl, rfl⟩

theorem advance_bw (s : Ssd) : s.advance.bw = s.bw := by
  unfold advance; split <;> rfl

theorem advance_red (s : Ssd) : s.advance.red = s.red := by
  unfold advance; split <;> rfl

theorem advance_planeOf (p : Nat) (s : Ssd) : planeOf p s.advance = planeOf p s := by
  unfold planeOf; rw [advance_bw, advance_red]

theorem advance_otherOf (p : Nat) (s : Ssd) : otherOf p s.advance = otherOf p s := by
  unfold otherOf; rw [advance_bw, advance_red]

/-- entry mode 3: the X counter after one byte -/
theorem advance_cx (s : Ssd) (h3 : s.entry = 3) :
    s.advance.cx = if s.cx = s.xe then s.xs else s.cx + 1 := by
  have hxi : s.xInc = true := by simp [xInc, h3]
  unfold advance
  by_cases h : s.cx = s.xe
  · simp only [if_pos h]
  · simp only [if_neg h, hxi, if_true]

/-- entry mode 3: the Y counter after one byte -/
theorem advance_cy (s : Ssd) (h3 : s.entry = 3) :
    s.advance.cy
      = if s.cx = s.xe then (if s.cy = s.ye then s.ys else s.cy + 1) else s.cy := by
  have hyi : s.yInc = true := by simp [yInc, h3]
  unfold advance
  by_cases h : s.cx = s.xe
  · simp only [if_pos h, stepY, hyi, if_true]
  · simp only [if_neg h]

/-! ## unconditional facts about `writeRam` -/

theorem writeRam_sameRegs (p : Nat) (bs : List UInt8) :
    ∀ (s : Ssd) (n : Nat), SameRegs (writeRam p s bs n).1 s := by
  induction bs with
  | nil => intro s n; exact SameRegs.refl s
  | cons b bs ih =>
    intro s n
    rw [writeRam_cons]
    exact (ih _ _).trans ((advance_sameRegs _).trans (store_sameRegs p s b))

theorem writeRam_otherOf (p : Nat) (bs : List UInt8) :
    ∀ (s : Ssd) (n : Nat), otherOf p (writeRam p s bs n).1 = otherOf p s := by
  induction bs with
  | nil => intro s n; rfl
  | cons b bs ih =>
    intro s n
    rw [writeRam_cons, ih, advance_otherOf, store_otherOf]

theorem writeRam_bw_size (p : Nat) (bs : List UInt8) :
    ∀ (s : Ssd) (n : Nat), (writeRam p s bs n).1.bw.size = s.bw.size := by
  induction bs with
  | nil => intro s n; rfl
  | cons b bs ih =>
    intro s n
    rw [writeRam_cons, ih, advance_bw, store_bw_size]

theorem writeRam_red_size (p : Nat) (bs : List UInt8) :
    ∀ (s : Ssd) (n : Nat), (writeRam p s bs n).1.red.size = s.red.size := by
  induction bs with
  | nil => intro s n; rfl
  | cons b bs ih =>
    intro s n
    rw [writeRam_cons, ih, advance_red, store_red_size]

theorem writeRam_planeOf_size (p : Nat) (bs : List UInt8) (s : Ssd) (n : Nat) :
    (planeOf p (writeRam p s bs n).1).size = (planeOf p s).size := by
  unfold planeOf
  by_cases hp : p = 0
  · simp only [if_pos hp]; exact writeRam_bw_size p bs s n
  · simp only [if_neg hp]; exact writeRam_red_size p bs s n

/-- the stored-bytes counter never exceeds what was sent -/
theorem writeRam_count_le (p : Nat) (bs : List UInt8) :
    ∀ (s : Ssd) (n : Nat), (writeRam p s bs n).2 ≤ n + bs.length := by
  induction bs with
  | nil => intro s n; exact Nat.le_refl _
  | cons b bs ih =>
    intro s n
    rw [writeRam_cons]
    have := ih (store p s b).advance (if s.inRam then n + 1 else n)
    have hn : (if s.inRam then n + 1 else n) ≤ n + 1 := by split <;> omega
    simp only [List.length_cons]
    omega

/-! ## the traversal of the window (entry mode 3) -/

/-- window width in byte columns -/
def wb (s : Ssd) : Nat := s.xe - s.xs + 1
/-- window height in rows -/
def wh (s : Ssd) : Nat := s.ye - s.ys + 1
/-- X counter when the `k`-th byte of a block that began at the window origin arrives -/
def posX (s : Ssd) (k : Nat) : Nat := s.xs + k % s.wb
/-- Y counter when the `k`-th byte of a block that began at the window origin arrives -/
def posY (s : Ssd) (k : Nat) : Nat := s.ys + k / s.wb % s.wh
/-- RAM index the `k`-th byte of a block that began at the window origin goes to -/
def cell (s : Ssd) (k : Nat) : Nat := s.posY k * s.stride + s.posX k

theorem mod_succ_of_lt {k n : Nat} (h : k % n + 1 < n) : (k + 1) % n = k % n + 1 := by
  rw [Nat.add_mod]
  have h1 : 1 % n = 1 := Nat.mod_eq_of_lt (by omega)
  rw [h1]; exact Nat.mod_eq_of_lt h

theorem mod_succ_of_eq {k n : Nat} (h : k % n + 1 = n) : (k + 1) % n = 0 := by
  have := Nat.div_add_mod k n
  have e : k + 1 = n * (k / n + 1) := by rw [Nat.mul_add]; omega
  rw [e]; exact Nat.mul_mod_right _ _

theorem div_succ_of_lt {k n : Nat} (hn : 0 < n) (h : k % n + 1 < n) : (k + 1) / n = k / n := by
  have := Nat.div_add_mod k n
  have e : k + 1 = n * (k / n) + (k % n + 1) := by omega
  rw [e, Nat.mul_add_div hn, Nat.div_eq_of_lt h]; rfl

theorem div_succ_of_eq {k n : Nat} (hn : 0 < n) (h : k % n + 1 = n) :
    (k + 1) / n = k / n + 1 := by
  have := Nat.div_add_mod k n
  have e : k + 1 = n * (k / n + 1) := by rw [Nat.mul_add]; omega
  rw [e, Nat.mul_div_cancel_left _ hn]

theorem posX_zero (s : Ssd) : s.posX 0 = s.xs := by
  unfold posX; rw [Nat.zero_mod, Nat.add_zero]

theorem posY_zero (s : Ssd) : s.posY 0 = s.ys := by
  unfold posY; rw [Nat.zero_div, Nat.zero_mod, Nat.add_zero]

theorem posX_le (s : Ssd) (hx : s.xs ≤ s.xe) (k : Nat) : s.posX k ≤ s.xe := by
  have hwb : s.wb = s.xe - s.xs + 1 := rfl
  have h1 : k % s.wb < s.wb := Nat.mod_lt _ (by omega)
  have : s.posX k = s.xs + k % s.wb := rfl
  omega

theorem posY_le (s : Ssd) (hy : s.ys ≤ s.ye) (k : Nat) : s.posY k ≤ s.ye := by
  have hwh : s.wh = s.ye - s.ys + 1 := rfl
  have h1 : k / s.wb % s.wh < s.wh := Nat.mod_lt _ (by omega)
  have : s.posY k = s.ys + k / s.wb % s.wh := rfl
  omega

/-- the counter walks the window row by row -/
theorem next_posX (s : Ssd) (hx : s.xs ≤ s.xe) (k : Nat) :
    (if s.posX k = s.xe then s.xs else s.posX k + 1) = s.posX (k + 1) := by
  have hwbd : s.wb = s.xe - s.xs + 1 := rfl
  have hwb : 0 < s.wb := by omega
  have hm : k % s.wb < s.wb := Nat.mod_lt _ hwb
  unfold posX
  by_cases hlast : k % s.wb + 1 = s.wb
  · have h1 : s.xs + k % s.wb = s.xe := by omega
    rw [if_pos h1, mod_succ_of_eq hlast, Nat.add_zero]
  · have h1 : ¬ (s.xs + k % s.wb = s.xe) := by omega
    rw [if_neg h1, mod_succ_of_lt (by omega), Nat.add_assoc]

theorem next_posY (s : Ssd) (hx : s.xs ≤ s.xe) (hy : s.ys ≤ s.ye) (k : Nat) :
    (if s.posX k = s.xe then (if s.posY k = s.ye then s.ys else s.posY k + 1) else s.posY k)
      = s.posY (k + 1) := by
  have hwbd : s.wb = s.xe - s.xs + 1 := rfl
  have hwhd : s.wh = s.ye - s.ys + 1 := rfl
  have hwb : 0 < s.wb := by omega
  have hwh : 0 < s.wh := by omega
  have hm : k % s.wb < s.wb := Nat.mod_lt _ hwb
  have hm2 : k / s.wb % s.wh < s.wh := Nat.mod_lt _ hwh
  unfold posX posY
  by_cases hlast : k % s.wb + 1 = s.wb
  · have h1 : s.xs + k % s.wb = s.xe := by omega
    rw [if_pos h1, div_succ_of_eq hwb hlast]
    by_cases hl2 : k / s.wb % s.wh + 1 = s.wh
    · have h2 : s.ys + k / s.wb % s.wh = s.ye := by omega
      rw [if_pos h2, mod_succ_of_eq hl2, Nat.add_zero]
    · have h2 : ¬ (s.ys + k / s.wb % s.wh = s.ye) := by omega
      rw [if_neg h2, mod_succ_of_lt (by omega), Nat.add_assoc]
  · have h1 : ¬ (s.xs + k % s.wb = s.xe) := by omega
    rw [if_neg h1, div_succ_of_lt hwb (by omega)]

theorem cell_lt (s : Ssd) (hx : s.xs ≤ s.xe) (hy : s.ys ≤ s.ye) (hs : s.xe < s.stride)
    (hr : s.ye < s.rows) (k : Nat) : s.cell k < s.stride * s.rows := by
  have hX := posX_le s hx k
  have hY := posY_le s hy k
  unfold cell
  calc s.posY k * s.stride + s.posX k
      < s.posY k * s.stride + s.stride := by omega
    _ = (s.posY k + 1) * s.stride := by rw [Nat.add_mul, Nat.one_mul]
    _ ≤ s.rows * s.stride := Nat.mul_le_mul_right _ (by omega)
    _ = s.stride * s.rows := Nat.mul_comm _ _

/-- without a wrap the row index needs no `% wh` -/
theorem cell_eq (s : Ssd) {k : Nat} (hk : k < s.wb * s.wh) :
    s.cell k = (s.ys + k / (s.xe - s.xs + 1)) * s.stride + (s.xs + k % (s.xe - s.xs + 1)) := by
  have hwbd : s.wb = s.xe - s.xs + 1 := rfl
  have hwb : 0 < s.wb := by omega
  have hd : k / s.wb < s.wh := (Nat.div_lt_iff_lt_mul hwb).2 (by rwa [Nat.mul_comm] at hk)
  unfold cell posX posY
  rw [Nat.mod_eq_of_lt hd]; rfl

/-- inside one window's worth of bytes, distinct offsets hit distinct cells -/
theorem cell_inj (s : Ssd) (hx : s.xs ≤ s.xe) (hs : s.xe < s.stride)
    {a b : Nat} (ha : a < s.wb * s.wh) (hb : b < s.wb * s.wh)
    (e : s.cell a = s.cell b) : a = b := by
  have hwbd : s.wb = s.xe - s.xs + 1 := rfl
  have hwb : 0 < s.wb := by omega
  have hma : a % s.wb < s.wb := Nat.mod_lt _ hwb
  have hmb : b % s.wb < s.wb := Nat.mod_lt _ hwb
  rw [cell_eq s ha, cell_eq s hb, ← hwbd] at e
  have hxa : s.xs + a % s.wb < s.stride := by omega
  have hxb : s.xs + b % s.wb < s.stride := by omega
  have hy' : s.ys + a / s.wb = s.ys + b / s.wb := by
    have h1 : ((s.ys + a / s.wb) * s.stride + (s.xs + a % s.wb)) / s.stride
            = ((s.ys + b / s.wb) * s.stride + (s.xs + b % s.wb)) / s.stride := by rw [e]
    rw [Nat.mul_comm _ s.stride, Nat.mul_comm _ s.stride,
        Nat.mul_add_div (by omega), Nat.mul_add_div (by omega),
        Nat.div_eq_of_lt hxa, Nat.div_eq_of_lt hxb] at h1
    omega
  have hx' : s.xs + a % s.wb = s.xs + b % s.wb := by
    rw [hy'] at e; omega
  have ea := Nat.div_add_mod a s.wb
  have eb := Nat.div_add_mod b s.wb
  have e1 : a / s.wb = b / s.wb := by omega
  have e2 : a % s.wb = b % s.wb := by omega
  rw [e1, e2] at ea; omega

/-! ## the array side: storing a list along the traversal -/

/-- store `bs` into `ram` at the cells `cell s k`, `cell s (k+1)`, … -/
def fillFrom (s : Ssd) : Nat → Array UInt8 → List UInt8 → Array UInt8
  | _, ram, [] => ram
  | k, ram, b :: bs => fillFrom s (k + 1) (ram.setIfInBounds (s.cell k) b) bs

theorem fillFrom_other (s : Ssd) (bs : List UInt8) :
    ∀ (k : Nat) (ram : Array UInt8) (j : Nat),
      (∀ i, i < bs.length → s.cell (k + i) ≠ j) →
      (fillFrom s k ram bs)[j]? = ram[j]? := by
  induction bs with
  | nil => intro k ram j _; rfl
  | cons b bs ih =>
    intro k ram j hne
    simp only [fillFrom]
    rw [ih (k + 1) _ j (by
      intro i hi
      have := hne (i + 1) (by simp only [List.length_cons]; omega)
      rwa [show k + (i + 1) = k + 1 + i by omega] at this)]
    have h0 := hne 0 (by simp only [List.length_cons]; omega)
    rw [Nat.add_zero] at h0
    rw [Array.getElem?_setIfInBounds_ne h0]

theorem fillFrom_hit (s : Ssd) (hx : s.xs ≤ s.xe) (hs : s.xe < s.stride) (bs : List UInt8) :
    ∀ (k : Nat) (ram : Array UInt8), k + bs.length ≤ s.wb * s.wh →
      (∀ i, i < bs.length → s.cell (k + i) < ram.size) →
      ∀ i (hi : i < bs.length), (fillFrom s k ram bs)[s.cell (k + i)]? = some bs[i] := by
  induction bs with
  | nil => intro k ram _ _ i hi; exact absurd hi (Nat.not_lt_zero _)
  | cons b bs ih =>
    intro k ram hk hin i hi
    simp only [List.length_cons] at hk
    simp only [fillFrom]
    cases i with
    | zero =>
      simp only [Nat.add_zero, List.getElem_cons_zero]
      rw [fillFrom_other s bs (k + 1) _ _ (by
        intro i' hi' e
        have := cell_inj s hx hs (a := k + 1 + i') (b := k) (by omega) (by omega) e
        omega)]
      have := hin 0 (by simp only [List.length_cons]; omega)
      rw [Nat.add_zero] at this
      rw [Array.getElem?_setIfInBounds_self_of_lt this]
    | succ i =>
      simp only [List.getElem_cons_succ]
      have := ih (k + 1) (ram.setIfInBounds (s.cell k) b) (by omega)
        (by intro i' hi'
            have := hin (i' + 1) (by simp only [List.length_cons]; omega)
            rw [show k + (i' + 1) = k + 1 + i' by omega] at this
            rwa [Array.size_setIfInBounds])
        i (by simpa using hi)
      rwa [show k + 1 + i = k + (i + 1) by omega] at this

/-! ## `writeRam` follows the traversal -/

/-- from the `k`-th traversal position on, `writeRam` stores every byte, follows the
    traversal and writes the plane exactly as `fillFrom` does (any number of bytes) -/
theorem writeRam_run (p : Nat) (s0 : Ssd) (h3 : s0.entry = 3)
    (hx : s0.xs ≤ s0.xe) (hy : s0.ys ≤ s0.ye) (hs : s0.xe < s0.stride) (hr : s0.ye < s0.rows)
    (bs : List UInt8) :
    ∀ (k n : Nat) (t : Ssd), SameRegs t s0 → t.cx = s0.posX k → t.cy = s0.posY k →
      (writeRam p t bs n).2 = n + bs.length ∧
      (writeRam p t bs n).1.cx = s0.posX (k + bs.length) ∧
      (writeRam p t bs n).1.cy = s0.posY (k + bs.length) ∧
      planeOf p (writeRam p t bs n).1 = fillFrom s0 k (planeOf p t) bs := by
  induction bs with
  | nil => intro k n t _ hcx hcy; exact ⟨rfl, hcx, hcy, rfl⟩
  | cons b bs ih =>
    intro k n t hreg hcx hcy
    have hX := posX_le s0 hx k
    have hY := posY_le s0 hy k
    have hin : t.inRam = true := by
      have h1 : t.cx < t.stride := by rw [hcx, hreg.stride]; omega
      have h2 : t.cy < t.rows := by rw [hcy, hreg.rows]; omega
      simp [inRam, h1, h2]
    have hidx : t.idx = s0.cell k := by
      unfold idx cell; rw [hcx, hcy, hreg.stride]
    have hreg1 : SameRegs (store p t b) s0 := (store_sameRegs p t b).trans hreg
    have hreg' : SameRegs (store p t b).advance s0 := (advance_sameRegs _).trans hreg1
    have h3' : (store p t b).entry = 3 := hreg1.entry.trans h3
    have hcx' : (store p t b).advance.cx = s0.posX (k + 1) := by
      rw [advance_cx _ h3', store_cx, hreg1.xe, hreg1.xs, hcx, next_posX s0 hx k]
    have hcy' : (store p t b).advance.cy = s0.posY (k + 1) := by
      rw [advance_cy _ h3', store_cx, store_cy, hreg1.xe, hreg1.ye, hreg1.ys, hcx, hcy,
        next_posY s0 hx hy k]
    obtain ⟨i1, i2, i3, i4⟩ := ih (k + 1) (n + 1) (store p t b).advance hreg' hcx' hcy'
    rw [writeRam_cons, if_pos hin]
    have hl : k + (b :: bs).length = k + 1 + bs.length := by
      simp only [List.length_cons]; omega
    refine ⟨?_, ?_, ?_, ?_⟩
    · rw [i1]; simp only [List.length_cons]; omega
    · rw [i2, hl]
    · rw [i3, hl]
    · rw [i4, advance_planeOf, store_planeOf, if_pos hin, hidx]; rfl

/-! ## main results -/

/-- **At most one window's worth of bytes from the window origin** (entry mode 3):
    every byte is stored, the counter is where the traversal says, byte `k` sits in row
    `ys + k / wb`, column `xs + k % wb`, every other cell of the written plane keeps its value,
    the other plane, both sizes and all registers are untouched. -/
theorem writeRam_window_prefix (plane : Nat) (s : Ssd) (bs : List UInt8)
    (h3 : s.entry = 3) (hx : s.xs ≤ s.xe) (hy : s.ys ≤ s.ye)
    (hs : s.xe < s.stride) (hr : s.ye < s.rows)
    (hsz : (planeOf plane s).size = s.stride * s.rows)
    (hcx : s.cx = s.xs) (hcy : s.cy = s.ys)
    (hl : bs.length ≤ (s.xe - s.xs + 1) * (s.ye - s.ys + 1)) :
    (writeRam plane s bs 0).2 = bs.length ∧
    ((writeRam plane s bs 0).1.cx = s.xs + bs.length % (s.xe - s.xs + 1) ∧
     (writeRam plane s bs 0).1.cy
       = s.ys + bs.length / (s.xe - s.xs + 1) % (s.ye - s.ys + 1)) ∧
    (∀ (k : Nat) (hk : k < bs.length),
      (planeOf plane (writeRam plane s bs 0).1)[(s.ys + k / (s.xe - s.xs + 1)) * s.stride
          + (s.xs + k % (s.xe - s.xs + 1))]? = some bs[k]) ∧
    ((∀ j : Nat,
        (∀ k, k < bs.length →
          (s.ys + k / (s.xe - s.xs + 1)) * s.stride + (s.xs + k % (s.xe - s.xs + 1)) ≠ j) →
        (planeOf plane (writeRam plane s bs 0).1)[j]? = (planeOf plane s)[j]?) ∧
     (writeRam plane s bs 0).1.bw.size = s.bw.size ∧
     (writeRam plane s bs 0).1.red.size = s.red.size ∧
     otherOf plane (writeRam plane s bs 0).1 = otherOf plane s) ∧
    SameRegs (writeRam plane s bs 0).1 s := by
  have hl' : bs.length ≤ s.wb * s.wh := hl
  obtain ⟨r1, r2, r3, r4⟩ := writeRam_run plane s h3 hx hy hs hr bs 0 0 s (SameRegs.refl s)
    (by rw [posX_zero, hcx]) (by rw [posY_zero, hcy])
  rw [Nat.zero_add] at r1 r2 r3
  refine ⟨r1, ⟨r2, r3⟩, ?_, ⟨?_, writeRam_bw_size _ _ _ _, writeRam_red_size _ _ _ _,
    writeRam_otherOf _ _ _ _⟩, writeRam_sameRegs _ _ _ _⟩
  · intro k hk
    rw [r4, ← cell_eq s (Nat.lt_of_lt_of_le hk hl')]
    have := fillFrom_hit s hx hs bs 0 (planeOf plane s) (by omega)
      (by intro i _; rw [hsz]; exact cell_lt s hx hy hs hr _) k hk
    rwa [Nat.zero_add] at this
  · intro j hj
    rw [r4]
    apply fillFrom_other
    intro i hi
    rw [Nat.zero_add, cell_eq s (Nat.lt_of_lt_of_le hi hl')]
    exact hj i hi

/-- **Exactly one window's worth of bytes from the window origin** (entry mode 3, X and Y
    increment): (1) every byte is stored; (2) the counter is back at the origin; (3) byte `k`
    sits in row `ys + k / wb`, column `xs + k % wb`; (4) every other cell of the written plane
    keeps its value, both sizes and the other plane are unchanged; (5) no register changes. -/
theorem writeRam_window_fill (plane : Nat) (s : Ssd) (bs : List UInt8)
    (h3 : s.entry = 3) (hx : s.xs ≤ s.xe) (hy : s.ys ≤ s.ye)
    (hs : s.xe < s.stride) (hr : s.ye < s.rows)
    (hbw : s.bw.size = s.stride * s.rows) (hred : s.red.size = s.stride * s.rows)
    (hcx : s.cx = s.xs) (hcy : s.cy = s.ys)
    (hl : bs.length = (s.xe - s.xs + 1) * (s.ye - s.ys + 1)) :
    (writeRam plane s bs 0).2 = bs.length ∧
    ((writeRam plane s bs 0).1.cx = s.xs ∧ (writeRam plane s bs 0).1.cy = s.ys) ∧
    (∀ (k : Nat) (hk : k < bs.length),
      (planeOf plane (writeRam plane s bs 0).1)[(s.ys + k / (s.xe - s.xs + 1)) * s.stride
          + (s.xs + k % (s.xe - s.xs + 1))]? = some bs[k]) ∧
    ((∀ j : Nat,
        (∀ k, k < bs.length →
          (s.ys + k / (s.xe - s.xs + 1)) * s.stride + (s.xs + k % (s.xe - s.xs + 1)) ≠ j) →
        (planeOf plane (writeRam plane s bs 0).1)[j]? = (planeOf plane s)[j]?) ∧
     (writeRam plane s bs 0).1.bw.size = s.bw.size ∧
     (writeRam plane s bs 0).1.red.size = s.red.size ∧
     otherOf plane (writeRam plane s bs 0).1 = otherOf plane s) ∧
    SameRegs (writeRam plane s bs 0).1 s := by
  have hsz : (planeOf plane s).size = s.stride * s.rows := by
    unfold planeOf; split <;> assumption
  obtain ⟨a1, ⟨a2, a3⟩, a4, a5, a6⟩ :=
    writeRam_window_prefix plane s bs h3 hx hy hs hr hsz hcx hcy (Nat.le_of_eq hl)
  refine ⟨a1, ⟨?_, ?_⟩, a4, a5, a6⟩
  · rw [a2, hl, Nat.mul_mod_right, Nat.add_zero]
  · rw [a3, hl, Nat.mul_div_cancel_left _ (by omega), Nat.mod_self, Nat.add_zero]

/-- `writeRam_window_fill` for the B/W plane (0x24) -/
theorem writeRam_window_fill_bw (s : Ssd) (bs : List UInt8)
    (h3 : s.entry = 3) (hx : s.xs ≤ s.xe) (hy : s.ys ≤ s.ye)
    (hs : s.xe < s.stride) (hr : s.ye < s.rows)
    (hbw : s.bw.size = s.stride * s.rows) (hred : s.red.size = s.stride * s.rows)
    (hcx : s.cx = s.xs) (hcy : s.cy = s.ys)
    (hl : bs.length = (s.xe - s.xs + 1) * (s.ye - s.ys + 1)) :
    (writeRam 0 s bs 0).2 = bs.length ∧
    ((writeRam 0 s bs 0).1.cx = s.xs ∧ (writeRam 0 s bs 0).1.cy = s.ys) ∧
    (∀ (k : Nat) (hk : k < bs.length),
      (writeRam 0 s bs 0).1.bw[(s.ys + k / (s.xe - s.xs + 1)) * s.stride
          + (s.xs + k % (s.xe - s.xs + 1))]? = some bs[k]) ∧
    ((∀ j : Nat,
        (∀ k, k < bs.length →
          (s.ys + k / (s.xe - s.xs + 1)) * s.stride + (s.xs + k % (s.xe - s.xs + 1)) ≠ j) →
        (writeRam 0 s bs 0).1.bw[j]? = s.bw[j]?) ∧
     (writeRam 0 s bs 0).1.bw.size = s.bw.size ∧
     (writeRam 0 s bs 0).1.red.size = s.red.size ∧
     (writeRam 0 s bs 0).1.red = s.red) ∧
    SameRegs (writeRam 0 s bs 0).1 s :=
  writeRam_window_fill 0 s bs h3 hx hy hs hr hbw hred hcx hcy hl

/-- `writeRam_window_fill` for the RED plane (0x26) -/
theorem writeRam_window_fill_red (s : Ssd) (bs : List UInt8)
    (h3 : s.entry = 3) (hx : s.xs ≤ s.xe) (hy : s.ys ≤ s.ye)
    (hs : s.xe < s.stride) (hr : s.ye < s.rows)
    (hbw : s.bw.size = s.stride * s.rows) (hred : s.red.size = s.stride * s.rows)
    (hcx : s.cx = s.xs) (hcy : s.cy = s.ys)
    (hl : bs.length = (s.xe - s.xs + 1) * (s.ye - s.ys + 1)) :
    (writeRam 1 s bs 0).2 = bs.length ∧
    ((writeRam 1 s bs 0).1.cx = s.xs ∧ (writeRam 1 s bs 0).1.cy = s.ys) ∧
    (∀ (k : Nat) (hk : k < bs.length),
      (writeRam 1 s bs 0).1.red[(s.ys + k / (s.xe - s.xs + 1)) * s.stride
          + (s.xs + k % (s.xe - s.xs + 1))]? = some bs[k]) ∧
    ((∀ j : Nat,
        (∀ k, k < bs.length →
          (s.ys + k / (s.xe - s.xs + 1)) * s.stride + (s.xs + k % (s.xe - s.xs + 1)) ≠ j) →
        (writeRam 1 s bs 0).1.red[j]? = s.red[j]?) ∧
     (writeRam 1 s bs 0).1.bw.size = s.bw.size ∧
     (writeRam 1 s bs 0).1.red.size = s.red.size ∧
     (writeRam 1 s bs 0).1.bw = s.bw) ∧
    SameRegs (writeRam 1 s bs 0).1 s :=
  writeRam_window_fill 1 s bs h3 hx hy hs hr hbw hred hcx hcy hl

/-- **Full panel window** (`xs = 0`, `ys = 0`): byte `k` goes to index
    `k / wb * stride + k % wb` with `wb = xe + 1`. -/
theorem writeRam_full_fill (plane : Nat) (s : Ssd) (bs : List UInt8)
    (h3 : s.entry = 3) (hxs : s.xs = 0) (hys : s.ys = 0)
    (hs : s.xe < s.stride) (hr : s.ye < s.rows)
    (hbw : s.bw.size = s.stride * s.rows) (hred : s.red.size = s.stride * s.rows)
    (hcx : s.cx = 0) (hcy : s.cy = 0)
    (hl : bs.length = (s.xe + 1) * (s.ye + 1)) :
    (writeRam plane s bs 0).2 = bs.length ∧
    ((writeRam plane s bs 0).1.cx = 0 ∧ (writeRam plane s bs 0).1.cy = 0) ∧
    (∀ (k : Nat) (hk : k < bs.length),
      (planeOf plane (writeRam plane s bs 0).1)[k / (s.xe + 1) * s.stride + k % (s.xe + 1)]?
        = some bs[k]) ∧
    ((∀ j : Nat,
        (∀ k, k < bs.length → k / (s.xe + 1) * s.stride + k % (s.xe + 1) ≠ j) →
        (planeOf plane (writeRam plane s bs 0).1)[j]? = (planeOf plane s)[j]?) ∧
     (writeRam plane s bs 0).1.bw.size = s.bw.size ∧
     (writeRam plane s bs 0).1.red.size = s.red.size ∧
     otherOf plane (writeRam plane s bs 0).1 = otherOf plane s) ∧
    SameRegs (writeRam plane s bs 0).1 s := by
  have h := writeRam_window_fill plane s bs h3 (by omega) (by omega) hs hr hbw hred
    (by omega) (by omega) (by rw [hxs, hys]; exact hl)
  simp only [hxs, hys, Nat.sub_zero, Nat.zero_add] at h
  exact h

/-- when the window is the whole RAM (`xs = 0`, `xe = stride - 1`, `ys = 0`) the block lands
    contiguously: byte `k` goes to index `k` -/
theorem writeRam_whole_fill (plane : Nat) (s : Ssd) (bs : List UInt8)
    (h3 : s.entry = 3) (hxs : s.xs = 0) (hys : s.ys = 0)
    (hxe : s.xe + 1 = s.stride) (hr : s.ye < s.rows)
    (hbw : s.bw.size = s.stride * s.rows) (hred : s.red.size = s.stride * s.rows)
    (hcx : s.cx = 0) (hcy : s.cy = 0)
    (hl : bs.length = s.stride * (s.ye + 1)) :
    (writeRam plane s bs 0).2 = bs.length ∧
    ((writeRam plane s bs 0).1.cx = 0 ∧ (writeRam plane s bs 0).1.cy = 0) ∧
    (∀ (k : Nat) (hk : k < bs.length),
      (planeOf plane (writeRam plane s bs 0).1)[k]? = some bs[k]) ∧
    ((∀ j : Nat, bs.length ≤ j →
        (planeOf plane (writeRam plane s bs 0).1)[j]? = (planeOf plane s)[j]?) ∧
     (writeRam plane s bs 0).1.bw.size = s.bw.size ∧
     (writeRam plane s bs 0).1.red.size = s.red.size ∧
     otherOf plane (writeRam plane s bs 0).1 = otherOf plane s) ∧
    SameRegs (writeRam plane s bs 0).1 s := by
  obtain ⟨a1, a2, a3, ⟨a4, a5⟩, a6⟩ := writeRam_full_fill plane s bs h3 hxs hys (by omega) hr
    hbw hred hcx hcy (by rw [hxe]; exact hl)
  have hpos : ∀ k, k / (s.xe + 1) * s.stride + k % (s.xe + 1) = k := by
    intro k; rw [hxe, Nat.mul_comm]; exact Nat.div_add_mod k s.stride
  refine ⟨a1, a2, ?_, ⟨?_, a5⟩, a6⟩
  · intro k hk
    have := a3 k hk
    rwa [hpos] at this
  · intro j hj
    apply a4
    intro k hk
    rw [hpos]; omega

/-! ## what `feed` does with a RAM data block -/

theorem feed_c24 (s : Ssd) (bs : List UInt8) (ha : s.asleep = false) :
    s.feed (.c 0x24 bs)
      = { (writeRam 0 s bs 0).1 with
          epis := { plane := 0, count := bs.length, stored := (writeRam 0 s bs 0).2,
                    startAtOrigin := s.atOrigin,
                    win := (s.xs * 8, s.ys, s.xe * 8 + 7, s.ye) } :: s.epis } := by
  simp [feed, ha]

theorem feed_c26 (s : Ssd) (bs : List UInt8) (ha : s.asleep = false) :
    s.feed (.c 0x26 bs)
      = { (writeRam 1 s bs 0).1 with
          epis := { plane := 1, count := bs.length, stored := (writeRam 1 s bs 0).2,
                    startAtOrigin := s.atOrigin,
                    win := (s.xs * 8, s.ys, s.xe * 8 + 7, s.ye) } :: s.epis } := by
  simp [feed, ha]

/-- both RAM data commands at once -/
theorem feed_ram (s : Ssd) (cmd : UInt8) (bs : List UInt8) (ha : s.asleep = false)
    (hc : cmd = 0x24 ∨ cmd = 0x26) :
    s.feed (.c cmd bs)
      = { (writeRam (if cmd = 0x24 then 0 else 1) s bs 0).1 with
          epis := { plane := if cmd = 0x24 then 0 else 1, count := bs.length,
                    stored := (writeRam (if cmd = 0x24 then 0 else 1) s bs 0).2,
                    startAtOrigin := s.atOrigin,
                    win := (s.xs * 8, s.ys, s.xe * 8 + 7, s.ye) } :: s.epis } := by
  simp only [feed, ha, if_pos hc]
  rfl

theorem atOrigin_of_eq (s : Ssd) (hcx : s.cx = s.xs) (hcy : s.cy = s.ys) : s.atOrigin = true := by
  simp [atOrigin, hcx, hcy]

/-- **0x24 with exactly one window's worth of data, counter at the window origin**: the
    complete effect of the block on the controller state. -/
theorem feed_c24_window_fill (s : Ssd) (bs : List UInt8) (ha : s.asleep = false)
    (h3 : s.entry = 3) (hx : s.xs ≤ s.xe) (hy : s.ys ≤ s.ye)
    (hs : s.xe < s.stride) (hr : s.ye < s.rows)
    (hbw : s.bw.size = s.stride * s.rows) (hred : s.red.size = s.stride * s.rows)
    (hcx : s.cx = s.xs) (hcy : s.cy = s.ys)
    (hl : bs.length = (s.xe - s.xs + 1) * (s.ye - s.ys + 1)) :
    (s.feed (.c 0x24 bs)).epis
      = { plane := 0, count := bs.length, stored := bs.length, startAtOrigin := true,
          win := (s.xs * 8, s.ys, s.xe * 8 + 7, s.ye) } :: s.epis ∧
    ((s.feed (.c 0x24 bs)).cx = s.xs ∧ (s.feed (.c 0x24 bs)).cy = s.ys) ∧
    (∀ (k : Nat) (hk : k < bs.length),
      (s.feed (.c 0x24 bs)).bw[(s.ys + k / (s.xe - s.xs + 1)) * s.stride
          + (s.xs + k % (s.xe - s.xs + 1))]? = some bs[k]) ∧
    ((∀ j : Nat,
        (∀ k, k < bs.length →
          (s.ys + k / (s.xe - s.xs + 1)) * s.stride + (s.xs + k % (s.xe - s.xs + 1)) ≠ j) →
        (s.feed (.c 0x24 bs)).bw[j]? = s.bw[j]?) ∧
     (s.feed (.c 0x24 bs)).bw.size = s.bw.size ∧
     (s.feed (.c 0x24 bs)).red = s.red) ∧
    SameCfg (s.feed (.c 0x24 bs)) s := by
  obtain ⟨a1, a2, a3, ⟨a4, a5, _, a7⟩, a8⟩ :=
    writeRam_window_fill_bw s bs h3 hx hy hs hr hbw hred hcx hcy hl
  have ho := atOrigin_of_eq s hcx hcy
  rw [feed_c24 s bs ha]
  refine ⟨?_, a2, a3, ⟨a4, a5, a7⟩,
    ⟨a8.xPix, a8.stride, a8.rows, a8.entry, a8.xs, a8.xe, a8.ys, a8.ye, a8.uc2, a8.asleep,
     a8.initialised, a8.resetSeen, a8.unsupported, a8.ignored, a8.refreshes, a8.regs⟩⟩
  show _ :: _ = _
  rw [a1, ho]

/-- **0x26 with exactly one window's worth of data, counter at the window origin**: the
    complete effect of the block on the controller state. -/
theorem feed_c26_window_fill (s : Ssd) (bs : List UInt8) (ha : s.asleep = false)
    (h3 : s.entry = 3) (hx : s.xs ≤ s.xe) (hy : s.ys ≤ s.ye)
    (hs : s.xe < s.stride) (hr : s.ye < s.rows)
    (hbw : s.bw.size = s.stride * s.rows) (hred : s.red.size = s.stride * s.rows)
    (hcx : s.cx = s.xs) (hcy : s.cy = s.ys)
    (hl : bs.length = (s.xe - s.xs + 1) * (s.ye - s.ys + 1)) :
    (s.feed (.c 0x26 bs)).epis
      = { plane := 1, count := bs.length, stored := bs.length, startAtOrigin := true,
          win := (s.xs * 8, s.ys, s.xe * 8 + 7, s.ye) } :: s.epis ∧
    ((s.feed (.c 0x26 bs)).cx = s.xs ∧ (s.feed (.c 0x26 bs)).cy = s.ys) ∧
    (∀ (k : Nat) (hk : k < bs.length),
      (s.feed (.c 0x26 bs)).red[(s.ys + k / (s.xe - s.xs + 1)) * s.stride
          + (s.xs + k % (s.xe - s.xs + 1))]? = some bs[k]) ∧
    ((∀ j : Nat,
        (∀ k, k < bs.length →
          (s.ys + k / (s.xe - s.xs + 1)) * s.stride + (s.xs + k % (s.xe - s.xs + 1)) ≠ j) →
        (s.feed (.c 0x26 bs)).red[j]? = s.red[j]?) ∧
     (s.feed (.c 0x26 bs)).red.size = s.red.size ∧
     (s.feed (.c 0x26 bs)).bw = s.bw) ∧
    SameCfg (s.feed (.c 0x26 bs)) s := by
  obtain ⟨a1, a2, a3, ⟨a4, _, a6, a7⟩, a8⟩ :=
    writeRam_window_fill_red s bs h3 hx hy hs hr hbw hred hcx hcy hl
  have ho := atOrigin_of_eq s hcx hcy
  rw [feed_c26 s bs ha]
  refine ⟨?_, a2, a3, ⟨a4, a6, a7⟩,
    ⟨a8.xPix, a8.stride, a8.rows, a8.entry, a8.xs, a8.xe, a8.ys, a8.ye, a8.uc2, a8.asleep,
     a8.initialised, a8.resetSeen, a8.unsupported, a8.ignored, a8.refreshes, a8.regs⟩⟩
  show _ :: _ = _
  rw [a1, ho]

end Ssd
end EpdVerif
