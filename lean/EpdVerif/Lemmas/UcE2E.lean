import EpdVerif.Lemmas.UcFill
import EpdVerif.Lemmas.SsdE2E
/-!
# UC81xx / ACeP end to end: what a full-frame data block leaves in a plane, whatever the buffer

The control state of the simulator (flags, partial window, logs of register writes and refreshes)
never depends on the contents of the planes, on the data of a 0x10 / 0x13 block, or even on its
length (`feed_ctlEq`).  `uc_e2e`: if on a companion run (planes erased, data replaced) the
controller is awake and outside partial mode when data block `k` arrives, the block has the
plane's size and no later block addresses that plane, then after the real run the plane IS the
block's data — for every buffer.
-/
namespace EpdVerif
namespace Uc

/-- replace planes and episode log -/
def withData (u : Uc) (p1 p2 : Array UInt8) (e : List Episode) : Uc := { u with p1 := p1, p2 := p2, epis := e }

/-- everything but the planes and the episode log agrees -/
def CtlEq (a b : Uc) : Prop := b = a.withData b.p1 b.p2 b.epis

theorem CtlEq.refl (a : Uc) : CtlEq a a := rfl
theorem withData_ctlEq (a : Uc) (x y : Array UInt8) (e : List Episode) : CtlEq a (a.withData x y e) := rfl

theorem CtlEq.of_eq {a b : Uc} (x y : Array UInt8) (e : List Episode) (h : b = a.withData x y e) : CtlEq a b := by
  subst h; rfl

theorem regStep_withData (cmd : UInt8) (ps : List UInt8) (u : Uc) (x y : Array UInt8) (e : List Episode) :
    regStep cmd ps (u.withData x y e) = (regStep cmd ps u).withData x y e := by
  have e1 : (u.withData x y e).has14 = u.has14 := rfl
  have e2 : (u.withData x y e).winFmt = u.winFmt := rfl
  unfold regStep
  rw [e1, e2]
  by_cases h0 : cmd = 0x12
  · rw [if_pos h0, if_pos h0]; rfl
  · rw [if_neg h0, if_neg h0]
    by_cases h1 : u.has14 = true ∧ cmd = 0x16
    · rw [if_pos h1, if_pos h1]
      by_cases hl : ps.length = 8
      · rw [if_pos hl, if_pos hl]; rfl
      · rw [if_neg hl, if_neg hl]
    · rw [if_neg h1, if_neg h1]
      by_cases h2 : cmd = 0x04
      · rw [if_pos h2, if_pos h2]; rfl
      · rw [if_neg h2, if_neg h2]
        by_cases h3 : cmd = 0x02
        · rw [if_pos h3, if_pos h3]; rfl
        · rw [if_neg h3, if_neg h3]
          by_cases h4 : cmd = 0x07
          · rw [if_pos h4, if_pos h4]
            rcases ps with _ | ⟨v, _ | ⟨w, t⟩⟩
            · rfl
            · show (if v = 0xA5 then _ else _) = Uc.withData (if v = 0xA5 then _ else _) x y e
              by_cases hv : v = 0xA5
              · rw [if_pos hv, if_pos hv]; rfl
              · rw [if_neg hv, if_neg hv]
            · rfl
          · rw [if_neg h4, if_neg h4]
            by_cases h5 : cmd = 0x91
            · rw [if_pos h5, if_pos h5]; rfl
            · rw [if_neg h5, if_neg h5]
              by_cases h6 : cmd = 0x92
              · rw [if_pos h6, if_pos h6]; rfl
              · rw [if_neg h6, if_neg h6]
                by_cases h7 : cmd = 0x90
                · rw [if_pos h7, if_pos h7]
                  generalize u.winFmt = wf
                  split <;> first | rfl | (split <;> first | rfl | (exfalso; simp_all))
                · rw [if_neg h7, if_neg h7]

theorem withData_withData (u : Uc) (a b : Array UInt8) (e : List Episode) (a' b' : Array UInt8) (e' : List Episode) :
    (u.withData a b e).withData a' b' e' = u.withData a' b' e' := rfl

theorem withData_self (u : Uc) : u.withData u.p1 u.p2 u.epis = u := rfl

theorem dtm_eq (u : Uc) (plane : Nat) (bs : List UInt8) :
    ∃ p q e, u.dtm plane bs = u.withData p q e := by
  unfold dtm
  by_cases hp : plane = 0
  · simp only [hp, if_true]; exact ⟨_, _, _, rfl⟩
  · simp only [hp, if_false]; exact ⟨_, _, _, rfl⟩

theorem dtm_ctlEq (u : Uc) (x y : Array UInt8) (e : List Episode) (plane : Nat) (bs bs' : List UInt8) :
    CtlEq (u.dtm plane bs) ((u.withData x y e).dtm plane bs') := by
  obtain ⟨p, q, r, h1⟩ := dtm_eq u plane bs
  obtain ⟨p', q', r', h2⟩ := dtm_eq (u.withData x y e) plane bs'
  rw [h1, h2, withData_withData]
  exact CtlEq.of_eq p' q' r' rfl

theorem dtmWin_withData (u : Uc) (x y : Array UInt8) (e : List Episode) (plane : Nat) (bs : List UInt8) :
    ∃ p q r, (u.withData x y e).dtmWin plane bs = (u.dtmWin plane bs).withData p q r := by
  rcases bs with _ | ⟨b0, _ | ⟨b1, _ | ⟨b2, _ | ⟨b3, _ | ⟨b4, _ | ⟨b5, _ | ⟨b6, _ | ⟨b7, t⟩⟩⟩⟩⟩⟩⟩⟩
  case cons.cons.cons.cons.cons.cons.cons.cons =>
    unfold dtmWin
    by_cases hp : plane = 0
    · simp only [hp, if_true]; exact ⟨_, _, _, rfl⟩
    · simp only [hp, if_false]; exact ⟨_, _, _, rfl⟩
  all_goals exact ⟨x, y, e, rfl⟩

/-- blocks with the same effect on the control state: equal, or data blocks of the same command -/
def ShapeEq : Blk → Blk → Prop
  | .c c ps, .c c' ps' => c = c' ∧ (if c = 0x10 ∨ c = 0x13 then True else ps = ps')
  | .rst, .rst => True
  | .stray _, .stray _ => True
  | _, _ => False

theorem ShapeEq.refl (b : Blk) : ShapeEq b b := by
  cases b with
  | c c ps => exact ⟨rfl, by split <;> trivial⟩
  | rst => trivial
  | stray _ => trivial

theorem feed_ctlEq {a b : Uc} (h : CtlEq a b) {blk blk' : Blk} (hs : ShapeEq blk blk') :
    CtlEq (a.feed blk) (b.feed blk') := by
  unfold CtlEq at h
  rw [h]
  generalize b.p1 = x; generalize b.p2 = y; generalize b.epis = e
  cases blk with
  | rst =>
    cases blk' with
    | rst => exact CtlEq.of_eq x y e rfl
    | c _ _ => exact absurd hs (by simp [ShapeEq])
    | stray _ => exact absurd hs (by simp [ShapeEq])
  | stray _ =>
    cases blk' with
    | stray _ => exact CtlEq.of_eq x y e rfl
    | c _ _ => exact absurd hs (by simp [ShapeEq])
    | rst => exact absurd hs (by simp [ShapeEq])
  | c cmd ps =>
    cases blk' with
    | rst => exact absurd hs (by simp [ShapeEq])
    | stray _ => exact absurd hs (by simp [ShapeEq])
    | c cmd' ps' =>
      obtain ⟨hc, hp⟩ := hs
      subst hc
      unfold feed
      have e0 : (a.withData x y e).asleep = a.asleep := rfl
      have e1 : (a.withData x y e).has14 = a.has14 := rfl
      rw [e0, e1]
      by_cases h0 : a.asleep
      · simp only [h0, if_true]
        exact CtlEq.of_eq x y e rfl
      · simp only [h0, Bool.false_eq_true, if_false]
        by_cases h10 : cmd = 0x10
        · rw [if_pos h10, if_pos h10]; exact dtm_ctlEq a x y e 0 ps ps'
        · rw [if_neg h10, if_neg h10]
          by_cases h13 : cmd = 0x13
          · rw [if_pos h13, if_pos h13]; exact dtm_ctlEq a x y e 1 ps ps'
          · rw [if_neg h13, if_neg h13]
            rw [if_neg (by intro hh; rcases hh with hh | hh; exact h10 hh; exact h13 hh)] at hp
            subst hp
            by_cases h14 : a.has14 = true ∧ cmd = 0x14
            · rw [if_pos h14, if_pos h14]
              obtain ⟨p, q, r, hh⟩ := dtmWin_withData a x y e 0 ps
              rw [hh]; exact CtlEq.of_eq p q r rfl
            · rw [if_neg h14, if_neg h14]
              by_cases h15 : a.has14 = true ∧ cmd = 0x15
              · rw [if_pos h15, if_pos h15]
                obtain ⟨p, q, r, hh⟩ := dtmWin_withData a x y e 1 ps
                rw [hh]; exact CtlEq.of_eq p q r rfl
              · rw [if_neg h15, if_neg h15]
                exact CtlEq.of_eq x y e (regStep_withData cmd ps { a with regs := (cmd, ps) :: a.regs, asleep := false } x y e)

def ShapesEq : List Blk → List Blk → Prop
  | [], [] => True
  | x :: xs, y :: ys => ShapeEq x y ∧ ShapesEq xs ys
  | _, _ => False

theorem run_ctlEq : ∀ (bs bs' : List Blk), ShapesEq bs bs' → ∀ (a b : Uc), CtlEq a b →
    CtlEq (bs.foldl feed a) (bs'.foldl feed b)
  | [], [], _, _, _, h => h
  | x :: xs, y :: ys, hs, a, b, h => by
    simp only [List.foldl_cons]
    exact run_ctlEq xs ys hs.2 _ _ (feed_ctlEq h hs.1)
  | [], _ :: _, hs, _, _, _ => absurd hs (by simp [ShapesEq])
  | _ :: _, [], hs, _, _, _ => absurd hs (by simp [ShapesEq])

/-! ## planes: sizes, and blocks that leave a plane alone -/

def planeU (p : Nat) (u : Uc) : Array UInt8 := if p = 0 then u.p1 else u.p2

theorem regStep_planes (cmd : UInt8) (ps : List UInt8) (u : Uc) :
    (regStep cmd ps u).p1 = u.p1 ∧ (regStep cmd ps u).p2 = u.p2 := by
  have h := regStep_withData cmd ps u u.p1 u.p2 u.epis
  rw [withData_self] at h
  constructor
  · rw [h]; rfl
  · rw [h]; rfl

theorem dtm_sizes (u : Uc) (plane : Nat) (bs : List UInt8) :
    (u.dtm plane bs).p1.size = u.p1.size ∧ (u.dtm plane bs).p2.size = u.p2.size := by
  unfold dtm
  by_cases hp : plane = 0
  · simp only [hp, if_true, and_true]; exact storeAt_size _ _ _ _ _
  · simp only [hp, if_false, true_and]; exact storeAt_size _ _ _ _ _

theorem dtm_other (u : Uc) (plane : Nat) (bs : List UInt8) :
    (if plane = 0 then (u.dtm plane bs).p2 else (u.dtm plane bs).p1) = (if plane = 0 then u.p2 else u.p1) := by
  unfold dtm
  by_cases hp : plane = 0
  · simp only [hp, if_true]
  · simp only [hp, if_false]

theorem dtmWin_sizes (u : Uc) (plane : Nat) (bs : List UInt8) :
    (u.dtmWin plane bs).p1.size = u.p1.size ∧ (u.dtmWin plane bs).p2.size = u.p2.size := by
  rcases bs with _ | ⟨b0, _ | ⟨b1, _ | ⟨b2, _ | ⟨b3, _ | ⟨b4, _ | ⟨b5, _ | ⟨b6, _ | ⟨b7, t⟩⟩⟩⟩⟩⟩⟩⟩
  case cons.cons.cons.cons.cons.cons.cons.cons =>
    unfold dtmWin
    by_cases hp : plane = 0
    · simp only [hp, if_true, and_true]; exact storeAt_size _ _ _ _ _
    · simp only [hp, if_false, true_and]; exact storeAt_size _ _ _ _ _
  all_goals exact ⟨rfl, rfl⟩

theorem dtmWin_other (u : Uc) (plane : Nat) (bs : List UInt8) :
    (if plane = 0 then (u.dtmWin plane bs).p2 else (u.dtmWin plane bs).p1) = (if plane = 0 then u.p2 else u.p1) := by
  rcases bs with _ | ⟨b0, _ | ⟨b1, _ | ⟨b2, _ | ⟨b3, _ | ⟨b4, _ | ⟨b5, _ | ⟨b6, _ | ⟨b7, t⟩⟩⟩⟩⟩⟩⟩⟩
  case cons.cons.cons.cons.cons.cons.cons.cons =>
    unfold dtmWin
    by_cases hp : plane = 0
    · simp only [hp, if_true]
    · simp only [hp, if_false]
  all_goals rfl

theorem feed_sizes (u : Uc) (b : Blk) : (u.feed b).p1.size = u.p1.size ∧ (u.feed b).p2.size = u.p2.size := by
  cases b with
  | rst => exact ⟨rfl, rfl⟩
  | stray _ => exact ⟨rfl, rfl⟩
  | c cmd ps =>
    unfold feed
    by_cases h0 : u.asleep
    · simp only [h0, if_true, and_self]
    · simp only [h0, Bool.false_eq_true, if_false]
      by_cases h10 : cmd = 0x10
      · rw [if_pos h10]; exact dtm_sizes ..
      · rw [if_neg h10]
        by_cases h13 : cmd = 0x13
        · rw [if_pos h13]; exact dtm_sizes ..
        · rw [if_neg h13]
          by_cases h14 : u.has14 = true ∧ cmd = 0x14
          · rw [if_pos h14]; exact dtmWin_sizes ..
          · rw [if_neg h14]
            by_cases h15 : u.has14 = true ∧ cmd = 0x15
            · rw [if_pos h15]; exact dtmWin_sizes ..
            · rw [if_neg h15]
              have := regStep_planes cmd ps { u with regs := (cmd, ps) :: u.regs, asleep := false }
              exact ⟨by rw [this.1], by rw [this.2]⟩

theorem run_sizes : ∀ (bs : List Blk) (u : Uc),
    (bs.foldl feed u).p1.size = u.p1.size ∧ (bs.foldl feed u).p2.size = u.p2.size
  | [], _ => ⟨rfl, rfl⟩
  | b :: bs, u => by
    simp only [List.foldl_cons]
    have h1 := run_sizes bs (u.feed b)
    have h2 := feed_sizes u b
    exact ⟨h1.1.trans h2.1, h1.2.trans h2.2⟩

/-- a data block (linear or windowed) for plane `p` -/
def touches (p : Nat) : Blk → Bool
  | .c c _ => if p = 0 then c == 0x10 || c == 0x14 else c == 0x13 || c == 0x15
  | _ => false

theorem feed_untouched (u : Uc) (b : Blk) (p : Nat) (h : touches p b = false) :
    planeU p (u.feed b) = planeU p u := by
  cases b with
  | rst => unfold planeU; split <;> rfl
  | stray _ => rfl
  | c cmd ps =>
    unfold feed
    by_cases h0 : u.asleep
    · simp only [h0, if_true]; unfold planeU; split <;> rfl
    · simp only [h0, Bool.false_eq_true, if_false]
      by_cases hp : p = 0
      · subst hp
        simp only [touches, if_true, Bool.or_eq_false_iff, beq_eq_false_iff_ne, ne_eq] at h
        simp only [planeU, if_true]
        rw [if_neg h.1]
        by_cases h13 : cmd = 0x13
        · rw [if_pos h13]; have := dtm_other u 1 ps; simpa using this
        · rw [if_neg h13, if_neg (by intro hh; exact h.2 hh.2)]
          by_cases h15 : u.has14 = true ∧ cmd = 0x15
          · rw [if_pos h15]; have := dtmWin_other u 1 ps; simpa using this
          · rw [if_neg h15]
            exact (regStep_planes cmd ps _).1
      · simp only [touches, if_neg hp, Bool.or_eq_false_iff, beq_eq_false_iff_ne, ne_eq] at h
        simp only [planeU, if_neg hp]
        by_cases h10 : cmd = 0x10
        · rw [if_pos h10]; have := dtm_other u 0 ps; simpa using this
        · rw [if_neg h10, if_neg h.1]
          by_cases h14 : u.has14 = true ∧ cmd = 0x14
          · rw [if_pos h14]; have := dtmWin_other u 0 ps; simpa using this
          · rw [if_neg h14, if_neg (by intro hh; exact h.2 hh.2)]
            exact (regStep_planes cmd ps _).2

theorem run_untouched (p : Nat) : ∀ (bs : List Blk) (u : Uc), bs.all (fun b => !touches p b) = true →
    planeU p (bs.foldl feed u) = planeU p u
  | [], _, _ => rfl
  | b :: bs, u, h => by
    simp only [List.all_cons, Bool.and_eq_true, Bool.not_eq_true'] at h
    simp only [List.foldl_cons]
    rw [run_untouched p bs _ h.2, feed_untouched u b p h.1]

theorem touches_shape {a b : Blk} (h : ShapeEq a b) (p : Nat) : touches p a = touches p b := by
  cases a <;> cases b <;> simp only [ShapeEq] at h <;> first | rfl | (obtain ⟨h1, _⟩ := h; subst h1; rfl) | exact absurd h id

theorem ShapesEq.take : ∀ {xs ys : List Blk} (n : Nat), ShapesEq xs ys → ShapesEq (xs.take n) (ys.take n)
  | [], [], _, _ => by simp [ShapesEq]
  | _ :: _, _ :: _, 0, _ => by simp [ShapesEq]
  | x :: xs, y :: ys, n + 1, h => by
    simp only [List.take_succ_cons]
    exact ⟨h.1, ShapesEq.take n h.2⟩
  | [], _ :: _, _, h => absurd h (by simp [ShapesEq])
  | _ :: _, [], _, h => absurd h (by simp [ShapesEq])

theorem ShapesEq.drop : ∀ {xs ys : List Blk} (n : Nat), ShapesEq xs ys → ShapesEq (xs.drop n) (ys.drop n)
  | [], [], _, _ => by simp [ShapesEq]
  | x :: xs, y :: ys, 0, h => h
  | x :: xs, y :: ys, n + 1, h => by
    simp only [List.drop_succ_cons]
    exact ShapesEq.drop n h.2
  | [], _ :: _, _, h => absurd h (by simp [ShapesEq])
  | _ :: _, [], _, h => absurd h (by simp [ShapesEq])

theorem all_untouched_shape (p : Nat) : ∀ {xs ys : List Blk}, ShapesEq xs ys →
    xs.all (fun b => !touches p b) = ys.all (fun b => !touches p b)
  | [], [], _ => rfl
  | x :: xs, y :: ys, h => by
    simp only [List.all_cons, touches_shape h.1 p, all_untouched_shape p h.2]
  | [], _ :: _, h => absurd h (by simp [ShapesEq])
  | _ :: _, [], h => absurd h (by simp [ShapesEq])

/-! ## the end-to-end theorem -/

/-- the plane a linear data command addresses -/
def planeOfCmd (c : UInt8) : Nat := if c = 0x10 then 0 else 1

/-- what the kernel checks on the companion state when the data block arrives -/
def ready (comp : Uc) : Bool := !comp.asleep && !comp.partialOn

theorem uc_e2e (blocks blocks0 : List Blk) (hs : ShapesEq blocks blocks0) (s0 e0 : Uc) (h0 : CtlEq s0 e0)
    (k : Nat) (c : UInt8) (data : List UInt8) (hk : blocks[k]? = some (.c c data))
    (hc : c = 0x10 ∨ c = 0x13)
    (hsz : data.length = (planeU (planeOfCmd c) s0).size)
    (hready : ready ((blocks0.take k).foldl feed e0) = true)
    (hpost : (blocks0.drop (k + 1)).all (fun b => !touches (planeOfCmd c) b) = true) :
    (planeU (planeOfCmd c) (blocks.foldl feed s0)).toList = data := by
  have hklt : k < blocks.length := by
    rcases Nat.lt_or_ge k blocks.length with h | h
    · exact h
    · rw [List.getElem?_eq_none h] at hk; cases hk
  have hget : blocks[k] = .c c data := by
    have := List.getElem?_eq_getElem hklt
    rw [this] at hk
    exact Option.some.inj hk
  have hsplit : blocks = blocks.take k ++ (.c c data) :: blocks.drop (k + 1) := by
    rw [← hget]
    exact (List.take_append_drop k blocks).symm.trans (by rw [List.drop_eq_getElem_cons hklt])
  have hc1 : CtlEq ((blocks.take k).foldl feed s0) ((blocks0.take k).foldl feed e0) :=
    run_ctlEq _ _ (ShapesEq.take k hs) _ _ h0
  have hsz1 := run_sizes (blocks.take k) s0
  generalize hr1 : (blocks.take k).foldl feed s0 = r1 at hc1 hsz1
  generalize (blocks0.take k).foldl feed e0 = comp at hc1 hready
  have hrun : blocks.foldl feed s0 = (blocks.drop (k + 1)).foldl feed (r1.feed (.c c data)) := by
    rw [hsplit, List.foldl_append, List.foldl_cons, hr1, ← hsplit]
  rw [hrun]
  have hpost' : (blocks.drop (k + 1)).all (fun b => !touches (planeOfCmd c) b) = true := by
    rw [all_untouched_shape _ (ShapesEq.drop (k + 1) hs)]; exact hpost
  rw [run_untouched _ _ _ hpost']
  simp only [ready, Bool.and_eq_true, Bool.not_eq_true'] at hready
  unfold CtlEq at hc1
  have ha : r1.asleep = false := by
    have : comp.asleep = r1.asleep := by rw [hc1]; rfl
    rw [← this]; exact hready.1
  have hp : r1.partialOn = false := by
    have : comp.partialOn = r1.partialOn := by rw [hc1]; rfl
    rw [← this]; exact hready.2
  rcases hc with h10 | h13
  · subst h10
    have hfeed : r1.feed (.c 0x10 data) = r1.dtm 0 data := by
      unfold feed; simp [ha]
    rw [hfeed]
    have := (dtm_full r1 0 data hp (by
      simp only [planeOfCmd, planeU, if_true] at hsz
      simp only [if_true]; rw [hsz1.1]; exact hsz)).1
    simpa [planeOfCmd, planeU] using this
  · subst h13
    have hfeed : r1.feed (.c 0x13 data) = r1.dtm 1 data := by
      unfold feed; simp [ha]
    rw [hfeed]
    have := (dtm_full r1 1 data hp (by
      simp only [planeOfCmd, planeU, if_neg (by decide : ¬ ((0x13 : UInt8) = 0x10)), if_neg (by decide : ¬ ((1 : Nat) = 0))] at hsz
      simp only [if_neg (by decide : ¬ ((1 : Nat) = 0))]; rw [hsz1.2]; exact hsz)).1
    simpa [planeOfCmd, planeU] using this

/-! ## assembling `ShapesEq` from positionwise facts (each provable by `rfl` with a free buffer) -/

theorem shapesEq_refl : ∀ (xs : List Blk), ShapesEq xs xs
  | [] => trivial
  | x :: xs => ⟨ShapeEq.refl x, shapesEq_refl xs⟩

theorem shapesEq_of_eq {xs ys : List Blk} (h : xs = ys) : ShapesEq xs ys := h ▸ shapesEq_refl xs

theorem shapesEq_append : ∀ {a b c d : List Blk}, ShapesEq a b → ShapesEq c d → ShapesEq (a ++ c) (b ++ d)
  | [], [], _, _, _, h => h
  | x :: xs, y :: ys, _, _, h1, h2 => ⟨h1.1, shapesEq_append h1.2 h2⟩
  | [], _ :: _, _, _, h, _ => absurd h (by simp [ShapesEq])
  | _ :: _, [], _, _, h, _ => absurd h (by simp [ShapesEq])

theorem split_at {α} (xs : List α) (k : Nat) (x : α) (h : xs[k]? = some x) :
    xs = xs.take k ++ x :: xs.drop (k + 1) := by
  have hk : k < xs.length := by
    rcases Nat.lt_or_ge k xs.length with h' | h'
    · exact h'
    · rw [List.getElem?_eq_none h'] at h; cases h
  have : xs[k] = x := by rw [List.getElem?_eq_getElem hk] at h; exact Option.some.inj h
  rw [← this]
  exact (List.take_append_drop k xs).symm.trans (by rw [List.drop_eq_getElem_cons hk])

/-- one hole: the lists agree before position `k`, both hold a data block of the same command
    there, and the rests are shape-equal -/
theorem shapesEq_hole (X Y : List Blk) (k : Nat) (c : UInt8) (hc : c = 0x10 ∨ c = 0x13)
    (h1 : X.take k = Y.take k)
    (hh : ∃ dx dy, X[k]? = some (.c c dx) ∧ Y[k]? = some (.c c dy))
    (h2 : ShapesEq (X.drop (k + 1)) (Y.drop (k + 1))) : ShapesEq X Y := by
  obtain ⟨dx, dy, hx, hy⟩ := hh
  rw [split_at X k _ hx, split_at Y k _ hy, h1]
  exact shapesEq_append (shapesEq_refl _) ⟨⟨rfl, by rw [if_pos hc]; trivial⟩, h2⟩

/-! ## a companion run that does not execute linear data blocks -/

theorem ready_ctlEq {a b : Uc} (h : CtlEq a b) : ready a = ready b := by
  unfold CtlEq at h; rw [h]; rfl

theorem CtlEq.trans {a b c : Uc} (h1 : CtlEq a b) (h2 : CtlEq b c) : CtlEq a c := by
  unfold CtlEq at *
  rw [h2, h1]; rfl

/-- a 0x10 / 0x13 data block never changes the control state of an awake controller -/
theorem feed_dtm_ctlEq (u : Uc) (c : UInt8) (hc : c = 0x10 ∨ c = 0x13) (data : List UInt8) (ha : u.asleep = false) :
    CtlEq (u.feed (.c c data)) u := by
  rcases hc with h | h
  · subst h
    have : u.feed (.c 0x10 data) = u.dtm 0 data := by unfold feed; simp [ha]
    rw [this]
    obtain ⟨p, q, r, hh⟩ := dtm_eq u 0 data
    unfold CtlEq; rw [hh]; rfl
  · subst h
    have : u.feed (.c 0x13 data) = u.dtm 1 data := by unfold feed; simp [ha]
    rw [this]
    obtain ⟨p, q, r, hh⟩ := dtm_eq u 1 data
    unfold CtlEq; rw [hh]; rfl

/-- the companion run: a linear data block sent to an awake controller is skipped -/
def compRun : Uc → List Blk → Uc
  | e, [] => e
  | e, .c c ps :: bs =>
    if (c = 0x10 ∨ c = 0x13) ∧ e.asleep = false then compRun e bs else compRun (e.feed (.c c ps)) bs
  | e, b :: bs => compRun (e.feed b) bs

theorem compRun_sound : ∀ (bs bs0 : List Blk), ShapesEq bs bs0 → ∀ (r e : Uc), CtlEq r e →
    CtlEq (bs.foldl feed r) (compRun e bs0)
  | [], [], _, _, _, h => h
  | x :: xs, y :: ys, hs, r, e, h => by
    simp only [List.foldl_cons]
    cases y with
    | rst => simp only [compRun]; exact compRun_sound xs ys hs.2 _ _ (feed_ctlEq h hs.1)
    | stray _ => simp only [compRun]; exact compRun_sound xs ys hs.2 _ _ (feed_ctlEq h hs.1)
    | c c ps0 =>
      cases x with
      | rst => exact absurd hs.1 (by simp [ShapeEq])
      | stray _ => exact absurd hs.1 (by simp [ShapeEq])
      | c c' ps =>
        obtain ⟨hcc, _⟩ := hs.1
        subst hcc
        simp only [compRun]
        by_cases hk : (c' = 0x10 ∨ c' = 0x13) ∧ e.asleep = false
        · rw [if_pos hk]
          have ha : r.asleep = false := by
            have : e.asleep = r.asleep := by unfold CtlEq at h; rw [h]; rfl
            rw [← this]; exact hk.2
          exact compRun_sound xs ys hs.2 _ e ((feed_dtm_ctlEq r c' hk.1 ps ha).trans h)
        · rw [if_neg hk]
          exact compRun_sound xs ys hs.2 _ _ (feed_ctlEq h hs.1)
  | [], _ :: _, hs, _, _, _ => absurd hs (by simp [ShapesEq])
  | _ :: _, [], hs, _, _, _ => absurd hs (by simp [ShapesEq])

/-- `uc_e2e` with the skipping companion -/
theorem uc_e2e_skip (blocks blocks0 : List Blk) (hs : ShapesEq blocks blocks0) (s0 e0 : Uc) (h0 : CtlEq s0 e0)
    (k : Nat) (c : UInt8) (data : List UInt8) (hk : blocks[k]? = some (.c c data))
    (hc : c = 0x10 ∨ c = 0x13)
    (hsz : data.length = (planeU (planeOfCmd c) s0).size)
    (hready : ready (compRun e0 (blocks0.take k)) = true)
    (hpost : (blocks0.drop (k + 1)).all (fun b => !touches (planeOfCmd c) b) = true) :
    (planeU (planeOfCmd c) (blocks.foldl feed s0)).toList = data := by
  have hsplit := split_at blocks k _ hk
  have hc1 : CtlEq ((blocks.take k).foldl feed s0) (compRun e0 (blocks0.take k)) :=
    compRun_sound _ _ (ShapesEq.take k hs) _ _ h0
  have hsz1 := run_sizes (blocks.take k) s0
  generalize hr1 : (blocks.take k).foldl feed s0 = r1 at hc1 hsz1
  generalize compRun e0 (blocks0.take k) = comp at hc1 hready
  have hrun : blocks.foldl feed s0 = (blocks.drop (k + 1)).foldl feed (r1.feed (.c c data)) := by
    rw [hsplit, List.foldl_append, List.foldl_cons, hr1, ← hsplit]
  rw [hrun]
  have hpost' : (blocks.drop (k + 1)).all (fun b => !touches (planeOfCmd c) b) = true := by
    rw [all_untouched_shape _ (ShapesEq.drop (k + 1) hs)]; exact hpost
  rw [run_untouched _ _ _ hpost']
  simp only [ready, Bool.and_eq_true, Bool.not_eq_true'] at hready
  unfold CtlEq at hc1
  have ha : r1.asleep = false := by
    have : comp.asleep = r1.asleep := by rw [hc1]; rfl
    rw [← this]; exact hready.1
  have hp : r1.partialOn = false := by
    have : comp.partialOn = r1.partialOn := by rw [hc1]; rfl
    rw [← this]; exact hready.2
  rcases hc with h10 | h13
  · subst h10
    have hfeed : r1.feed (.c 0x10 data) = r1.dtm 0 data := by
      unfold feed; simp [ha]
    rw [hfeed]
    have := (dtm_full r1 0 data hp (by
      simp only [planeOfCmd, planeU, if_true] at hsz
      simp only [if_true]; rw [hsz1.1]; exact hsz)).1
    simpa [planeOfCmd, planeU] using this
  · subst h13
    have hfeed : r1.feed (.c 0x13 data) = r1.dtm 1 data := by
      unfold feed; simp [ha]
    rw [hfeed]
    have := (dtm_full r1 1 data hp (by
      simp only [planeOfCmd, planeU, if_neg (by decide : ¬ ((0x13 : UInt8) = 0x10)), if_neg (by decide : ¬ ((1 : Nat) = 0))] at hsz
      simp only [if_neg (by decide : ¬ ((1 : Nat) = 0))]; rw [hsz1.2]; exact hsz)).1
    simpa [planeOfCmd, planeU] using this

end Uc
end EpdVerif
