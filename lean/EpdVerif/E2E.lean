import EpdVerif.Drivers.Dsl
import EpdVerif.Spec
import EpdVerif.Lemmas.UcE2E
/-!
# End-to-end statements per panel: vocabulary

`Panel.progSeq` threads the driver fields through a sequence of operations exactly as the
scenario runner does (`applyUpds`); `Panel.blocks` is what the controller sees of it.
-/
namespace EpdVerif

def Panel.progSeq (p : Panel) : DState → List Op → List Act
  | _, [] => []
  | d, o :: os =>
    let a := (p.prog d o).getD [.panic]
    a ++ Panel.progSeq p (applyUpds d a) os

def Panel.blocks (p : Panel) (ops : List Op) : List Blk := blocksOf (p.progSeq p.init ops)

def Act.isPanic : Act → Bool
  | .panic => true
  | _ => false

/-- no assertion of the sequence fails -/
def Panel.noPanic (p : Panel) (ops : List Op) : Bool := (p.progSeq p.init ops).all (fun a => !a.isPanic)

theorem Ctrl.run_ssd (s : Ssd) (bs : List Blk) : Ctrl.run (.ssd s) bs = .ssd (bs.foldl Ssd.feed s) := by
  unfold Ctrl.run
  induction bs generalizing s with
  | nil => rfl
  | cons b bs ih => simp only [List.foldl_cons, Ctrl.feed]; exact ih _

theorem Ctrl.run_uc (u : Uc) (bs : List Blk) : Ctrl.run (.uc u) bs = .uc (bs.foldl Uc.feed u) := by
  unfold Ctrl.run
  induction bs generalizing u with
  | nil => rfl
  | cons b bs ih => simp only [List.foldl_cons, Ctrl.feed]; exact ih _

theorem flatten_single {α} (x : List α) : List.flatten [x] = x := by simp

end EpdVerif

namespace EpdVerif
/-- the SSD16xx simulator of a panel's controller (power-on state) -/
def Ctrl.ssd! : Ctrl → Ssd
  | .ssd s => s
  | .uc _ => Ssd.por false 0 0
/-- the UC81xx simulator of a panel's controller (power-on state) -/
def Ctrl.uc! : Ctrl → Uc
  | .uc u => u
  | .ssd _ => Uc.por 0 0 1 9 false
end EpdVerif
