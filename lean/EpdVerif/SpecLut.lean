import EpdVerif.Spec
import EpdVerif.GenAll
/-!
# Reference waveform uploads (C17): which register receives which GENERATED table in each mode

The pairing register ↔ table follows the controller datasheets' register names; the table
bytes are the generated constants, so editing a table in the source re-checks everything built
on this file.  `none` = the panel does not upload waveform tables from the host through
`set_lut` / initialisation.
-/
namespace EpdVerif.Spec
open EpdVerif

def lutRef (f : Feat) (panel : String) (m : Refresh) : Option (List (UInt8 × Bytes)) :=
  let q := m == .quick
  if panel == "epd1in54" ∨ panel == "epd2in9" then
    some [(0x32, if q then Gen.Type_a.LUT_PARTIAL_UPDATE
                 else if f.alt then Gen.Type_a.LUT_FULL_UPDATE_alt else Gen.Type_a.LUT_FULL_UPDATE_std)]
  else if panel == "epd1in54_v2" then
    some [(0x32, (if q then Gen.Epd1in54_v2.LUT_PARTIAL_UPDATE else Gen.Epd1in54_v2.LUT_FULL_UPDATE).take 153)]
  else if panel == "epd2in13_v2" then
    some [(0x32, if f.v2 then (if q then Gen.Epd2in13_v2.LUT_PARTIAL_UPDATE_v2 else Gen.Epd2in13_v2.LUT_FULL_UPDATE_v2)
                 else (if q then Gen.Epd2in13_v2.LUT_PARTIAL_UPDATE_v3 else Gen.Epd2in13_v2.LUT_FULL_UPDATE_v3))]
  else if panel == "epd3in7" then
    some [(0x32, if q then Gen.Epd3in7.LUT_1GRAY_DU else Gen.Epd3in7.LUT_1GRAY_GC)]
  else if panel == "epd4in2" then
    some (if q then
      [(0x20, Gen.Epd4in2.LUT_VCOM0_QUICK), (0x21, Gen.Epd4in2.LUT_WW_QUICK), (0x22, Gen.Epd4in2.LUT_BW_QUICK),
       (0x23, Gen.Epd4in2.LUT_WB_QUICK), (0x24, Gen.Epd4in2.LUT_BB_QUICK)]
    else
      [(0x20, Gen.Epd4in2.LUT_VCOM0), (0x21, Gen.Epd4in2.LUT_WW), (0x22, Gen.Epd4in2.LUT_BW),
       (0x23, Gen.Epd4in2.LUT_WB), (0x24, Gen.Epd4in2.LUT_BB)])
  else if panel == "epd1in02" then
    some (if q then [(0x23, Gen.Epd1in02.LUT_PARTIAL_UPDATE_WHITE), (0x24, Gen.Epd1in02.LUT_PARTIAL_UPDATE_BLACK)]
          else [(0x23, Gen.Epd1in02.LUT_FULL_UPDATE_WHITE), (0x24, Gen.Epd1in02.LUT_FULL_UPDATE_BLACK)])
  -- fixed-table panels: one set whatever the mode (reload clause)
  else if panel == "epd2in7" then
    some [(0x20, Gen.Epd2in7.LUT_VCOM_DC), (0x21, Gen.Epd2in7.LUT_WW), (0x22, Gen.Epd2in7.LUT_BW),
          (0x23, Gen.Epd2in7.LUT_WB), (0x24, Gen.Epd2in7.LUT_BB)]
  else if panel == "epd2in7b" then
    some [(0x20, Gen.Epd2in7b.LUT_VCOM_DC), (0x21, Gen.Epd2in7b.LUT_WW), (0x22, Gen.Epd2in7b.LUT_BW),
          (0x23, Gen.Epd2in7b.LUT_WB), (0x24, Gen.Epd2in7b.LUT_BB)]
  else if panel == "epd2in9d" then
    some [(0x20, Gen.Epd2in9d.LUT_VCOM1), (0x21, Gen.Epd2in9d.LUT_WW1), (0x22, Gen.Epd2in9d.LUT_BW1),
          (0x23, Gen.Epd2in9d.LUT_WB1), (0x24, Gen.Epd2in9d.LUT_BB1)]
  else if panel == "epd1in54b" then
    some [(0x20, Gen.Epd1in54b.LUT_VCOM0), (0x21, Gen.Epd1in54b.LUT_WHITE_TO_WHITE),
          (0x22, Gen.Epd1in54b.LUT_BLACK_TO_WHITE), (0x23, Gen.Epd1in54b.LUT_G1), (0x24, Gen.Epd1in54b.LUT_G2),
          (0x25, Gen.Epd1in54b.LUT_RED_VCOM), (0x26, Gen.Epd1in54b.LUT_RED0), (0x27, Gen.Epd1in54b.LUT_RED1)]
  else none

/-- panels that ship both a full and a quick set -/
def hasTwoModes (panel : String) : Bool :=
  ["epd1in54", "epd2in9", "epd1in54_v2", "epd2in13_v2", "epd3in7", "epd4in2", "epd1in02"].contains panel

/-- drivers whose initialisation uploads tables at all (wake-up clause) -/
def initUploads (panel : String) : Bool :=
  ["epd1in54", "epd2in9", "epd1in54_v2", "epd2in13_v2", "epd3in7", "epd4in2", "epd1in02", "epd2in7", "epd2in7b",
   "epd1in54b"].contains panel

end EpdVerif.Spec
