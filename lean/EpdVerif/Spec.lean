import EpdVerif.Drivers.Dsl
/-!
# Per-panel and per-family SPECIFICATION tables (hand-written, trusted base)

What the properties' anchors call "the plane the call is documented to fill", "the panel's
fixed pixel encoding", "the family's deep-sleep command", "busy-raising commands", "defined
commands", "block lengths".  Written from the crate's documentation, the controller datasheets
and the vendor reference code — NOT from the driver models.  notes/protocol_and_tables.md
explains the sources.  A table entry is corrected only when a check fires on the unchanged tree
AND the datasheet / vendor code shows the table was wrong.
-/
namespace EpdVerif.Spec
open EpdVerif

/-- the panel's fixed pixel encoding of a frame-buffer byte stream on its way to a plane -/
inductive Enc
  | id      -- bytes as they are
  | inv     -- every byte complemented (2in7b)
  | bpp2    -- every bit doubled, MSB first: 1 byte → 2 bytes (1in54b black/white plane)
  | bpp4    -- every bit → nibble 0b0011 / 0b0000: 1 byte → 4 bytes (7in5)
  | lo      -- first half of a double buffer (7in5b_v2)
  | hi      -- second half of a double buffer
  deriving DecidableEq, Repr, Inhabited

def bitOf (b : UInt8) (j : Nat) : Bool := (b.toNat >>> (7 - j)) % 2 = 1

def expand2 (b : UInt8) : Bytes :=
  let two (j : Nat) : Nat := if bitOf b j then 3 else 0
  [u8 (two 0 * 64 + two 1 * 16 + two 2 * 4 + two 3), u8 (two 4 * 64 + two 5 * 16 + two 6 * 4 + two 7)]

def expand4 (b : UInt8) : Bytes :=
  let nib (j : Nat) : Nat := if bitOf b j then 3 else 0
  [u8 (nib 0 * 16 + nib 1), u8 (nib 2 * 16 + nib 3), u8 (nib 4 * 16 + nib 5), u8 (nib 6 * 16 + nib 7)]

def Enc.apply : Enc → Bytes → Bytes
  | .id, b => b
  | .inv, b => b.map (~~~ ·)
  | .bpp2, b => b.flatMap expand2
  | .bpp4, b => b.flatMap expand4
  | .lo, b => b.take (b.length / 2)
  | .hi, b => b.drop (b.length / 2)

/-- bits per pixel a plane has after this encoding (relative to a 1 bpp source) -/
def Enc.mult : Enc → Nat
  | .bpp2 => 2 | .bpp4 => 4 | _ => 1

/-- a plane an entry point is documented to fill: (plane index, encoding, which buffer argument) -/
structure Target where
  plane : Nat
  enc : Enc
  arg : Nat := 0
  deriving DecidableEq, Repr, Inhabited

/-- colour-type group of the frame buffer a panel's driver consumes -/
def isOct (panel : String) : Bool := panel == "epd5in65f" || panel == "epd7in3f"

/-- planes of the full-frame entry points.  `update_and_display_frame` = `update_frame`. -/
def fullTargets (panel : String) (op : String) : List Target :=
  let ssdBw := ["epd1in54", "epd1in54_v2", "epd2in9", "epd2in7_v2", "epd3in7", "epd7in5_hd", "epd2in9_v2",
                "epd2in13_v2"]
  let ssdTri := ["epd2in13b_v4", "epd2in66b", "epd2in9b_v4"]
  let ucNew13 := ["epd1in02", "epd2in7", "epd2in9d", "epd4in2", "epd5in83_v2", "epd7in5_v2"]
  let ucTri := ["epd1in54c", "epd2in13bc", "epd2in9bc", "epd5in83b_v2"]
  let upd := op == "upd" || op == "updisp"
  if ssdBw.contains panel then
    if upd then [⟨0, .id, 0⟩]
    else if panel == "epd2in9_v2" ∧ op == "old" then [⟨1, .id, 0⟩]
    else if panel == "epd2in9_v2" ∧ (op == "newf" || op == "updispnew") then [⟨0, .id, 0⟩]
    else if panel == "epd2in13_v2" ∧ op == "base" then [⟨1, .id, 0⟩]
    else []
  else if ssdTri.contains panel ∨ ucTri.contains panel then
    if upd ∨ op == "achro" then [⟨0, .id, 0⟩]
    else if op == "chro" then [⟨1, .id, 0⟩]
    else if op == "color" then [⟨0, .id, 0⟩, ⟨1, .id, 1⟩]
    else []
  else if ucNew13.contains panel then
    if upd then [⟨1, .id, 0⟩]
    else if (panel == "epd1in02" ∨ panel == "epd4in2") ∧ op == "old" then [⟨0, .id, 0⟩]
    else if (panel == "epd1in02" ∨ panel == "epd4in2") ∧ op == "newf" then [⟨1, .id, 0⟩]
    else []
  else if panel == "epd1in54b" then
    if upd ∨ op == "achro" then [⟨0, .bpp2, 0⟩]
    else if op == "chro" then [⟨1, .id, 0⟩]
    else if op == "color" then [⟨0, .bpp2, 0⟩, ⟨1, .id, 1⟩]
    else []
  else if panel == "epd2in7b" then
    if upd ∨ op == "achro" then [⟨0, .inv, 0⟩]
    else if op == "chro" then [⟨1, .inv, 0⟩]
    else if op == "color" then [⟨0, .inv, 0⟩, ⟨1, .inv, 1⟩]
    else []
  else if panel == "epd7in5" then (if upd then [⟨0, .bpp4, 0⟩] else [])
  else if isOct panel then (if upd then [⟨0, .id, 0⟩] else [])
  else if panel == "epd7in5b_v2" then
    if upd then [⟨0, .lo, 0⟩, ⟨1, .hi, 0⟩]
    else if op == "achro" then [⟨0, .id, 0⟩]
    else if op == "chro" then [⟨1, .id, 0⟩]
    else if op == "color" then [⟨0, .id, 0⟩, ⟨1, .id, 1⟩]
    else []
  else []

/-- planes of the partial entry points (the window's data) -/
def partTargets (panel : String) (op : String) : List Target :=
  let ssd := ["epd1in54", "epd1in54_v2", "epd2in9", "epd2in9_v2", "epd2in7_v2", "epd2in13_v2", "epd2in66b",
              "epd2in9b_v4"]
  if ssd.contains panel then (if op == "part" then [⟨0, .id, 0⟩] else [])
  else if panel == "epd1in02" then
    if op == "pold" then [⟨0, .id, 0⟩] else if op == "pnew" then [⟨1, .id, 0⟩] else []
  else if panel == "epd4in2" then
    if op == "part" ∨ op == "pnew" then [⟨1, .id, 0⟩] else if op == "pold" then [⟨0, .id, 0⟩] else []
  else if panel == "epd2in7" then (if op == "part" then [⟨0, .id, 0⟩] else [])
  else if panel == "epd2in7b" then
    if op == "part" ∨ op == "pachro" then [⟨0, .inv, 0⟩] else if op == "pchro" then [⟨1, .inv, 0⟩] else []
  else if panel == "epd2in9d" then (if op == "part" then [⟨1, .id, 0⟩] else [])
  else if panel == "epd5in83b_v2" then (if op == "part" then [⟨0, .id, 0⟩] else [])
  else if panel == "epd7in5b_v2" then (if op == "part2" then [⟨0, .lo, 0⟩, ⟨1, .hi, 0⟩] else [])
  else []

/-- image row r of the panel lives in this RAM row (identity except for the 7in5_hd vendor
    sequence: Y decrement with the counter loaded with the window END, accepted as the vendor's) -/
def rowMap (panel : String) (r : Nat) : Nat :=
  if panel == "epd7in5_hd" then (if r = 0 then 0 else 688 - r) else r

/-- the byte a frame buffer uniformly painted in background colour `c` consists of
    (`Display::clear(c)`): two-level and tri-colour black/white plane 0xFF / 0x00, seven-colour
    both nibbles the colour -/
def uniformByte (panel : String) (c : Nat) : UInt8 :=
  if isOct panel then u8 (c * 16 + c) else if c = 1 then 0xFF else 0x00

/-! ## family tables -/

/-- pin level that means busy (DESIGN §3.4): SSD16xx `BUSY` high-active, UC81xx/ACeP `BUSY_N` -/
def busyLevel : Family → Bool
  | .ssd => true
  | _ => false

/-- commands that start a busy episode -/
def raiseSet (panel : String) : Family → List UInt8
  | .ssd => [0x12, 0x20, 0x46, 0x47]
  | _ => if panel == "epd2in7" ∨ panel == "epd2in7b" then [0x04, 0x02, 0x12, 0x16] else [0x04, 0x02, 0x12]

/-- refresh triggers / image-memory data commands (for the C05 monitor) -/
def refreshCmds (panel : String) : Family → List UInt8
  | .ssd => [0x20]
  | _ => if panel == "epd2in7" ∨ panel == "epd2in7b" then [0x12, 0x16] else [0x12]
/-- calls other than construction / wake_up that pulse the reset line and follow it with the
    VENDOR's reduced re-initialisation for that mode (Waveshare reference code: `EPD_2IN9_V2_Display_Partial`,
    `EPD_2IN9D_SetPartReg`, `EPD_2IN13_V2_Init(PART)`), which relies on power-on-reset defaults for the
    rest.  C09 accepts these sequences as the initialisation that follows their own reset; a reset
    pulse in any other call must be followed by everything construction programs. -/
def vendorReinit (panel op : String) : Bool :=
  (panel == "epd2in9_v2" && (op == "newf" || op == "updispnew" || op == "pnew")) ||
  (panel == "epd2in9d" && (op == "part" || op == "dpart")) ||
  (panel == "epd2in13_v2" && (op == "refresh" || op == "lut"))

def imageCmds (panel : String) : Family → List UInt8
  | .ssd => [0x24, 0x26, 0x46, 0x47]
  | _ => if panel == "epd2in7" ∨ panel == "epd2in7b" then [0x10, 0x13, 0x14, 0x15] else [0x10, 0x13]

/-- accepted final transfer of `sleep` (C08): (command, predicate on its parameter bytes) -/
def deepSleepOk (panel : String) (fam : Family) (cmd : UInt8) (ps : Bytes) : Bool :=
  match fam with
  | .ssd =>
    if panel == "epd3in7" then cmd == 0x07 && ps == [0xA5]     -- vendor's reference sequence
    else cmd == 0x10 && (match ps with | [m] => m.toNat % 4 ≠ 0 | _ => false)
  | _ => cmd == 0x07 && ps == [0xA5]

/-- waveform-table commands (excluded from C08's register comparison, subject of C17) -/
def lutCmds : Family → List UInt8
  | .ssd => [0x32]
  | _ => [0x20, 0x21, 0x22, 0x23, 0x24, 0x25, 0x26, 0x27]

/-- opcodes the family's datasheets define (union over the chips the crate drives) -/
def definedCmds (panel : String) : Family → List UInt8
  | .ssd =>
    [0x01, 0x03, 0x04, 0x08, 0x09, 0x0A, 0x0C, 0x0F, 0x10, 0x11, 0x12, 0x14, 0x15, 0x18, 0x1A, 0x1B, 0x1C,
     0x20, 0x21, 0x22, 0x24, 0x26, 0x27, 0x28, 0x29, 0x2A, 0x2B, 0x2C, 0x2D, 0x2E, 0x2F, 0x30, 0x31, 0x32,
     0x34, 0x35, 0x36, 0x37, 0x38, 0x39, 0x3A, 0x3B, 0x3C, 0x3F, 0x41, 0x44, 0x45, 0x46, 0x47, 0x4E, 0x4F,
     0x74, 0x7E, 0x7F, 0xFF] ++ (if panel == "epd3in7" then [0x50, 0x02, 0x07] else [])
  | f =>
    [0x00, 0x01, 0x02, 0x03, 0x04, 0x05, 0x06, 0x07, 0x10, 0x11, 0x12, 0x13, 0x14, 0x15, 0x16, 0x20, 0x21,
     0x22, 0x23, 0x24, 0x25, 0x26, 0x27, 0x28, 0x29, 0x2A, 0x2B, 0x30, 0x40, 0x41, 0x42, 0x43, 0x50, 0x51,
     0x60, 0x61, 0x62, 0x65, 0x70, 0x71, 0x72, 0x80, 0x81, 0x82, 0x90, 0x91, 0x92, 0xA0, 0xA1, 0xA2, 0xE0,
     0xE3, 0xE5, 0xF8] ++ (if f == .acep then [0x08, 0x84, 0x86, 0xAA, 0xE6] else [])

/-- exact parameter count of the block kinds C18 names; `none` = not a block command here -/
def blockLen (panel : String) (fam : Family) (xPix : Bool) (cmd : UInt8) : Option Nat :=
  match fam with
  | .ssd =>
    if panel == "epd3in7" ∧ cmd == 0x07 then some 1 else
    if cmd == 0x44 then some (if xPix then 4 else 2)
    else if cmd == 0x45 then some 4
    else if cmd == 0x4E then some (if xPix then 2 else 1)
    else if cmd == 0x4F then some 2
    else if cmd == 0x11 then some 1
    else if cmd == 0x22 then some 1
    else if cmd == 0x21 then some 2
    else if cmd == 0x01 then some 3
    else if cmd == 0x10 then some 1
    else none
  | _ =>
    if cmd == 0x07 then some 1
    else if cmd == 0x61 then
      some (if panel == "epd1in02" then 2
            else if ["epd1in54b", "epd1in54c", "epd2in13bc", "epd2in9bc", "epd2in9d"].contains panel then 3 else 4)
    else if cmd == 0x90 then
      some (if panel == "epd1in02" then 5 else if panel == "epd2in9d" then 7 else 9)
    else none

end EpdVerif.Spec
