/-!
# Model of `src/rect.rs`

`u32` arithmetic of the dev/test profile: `+` and `-` panic on overflow/underflow
(`none`), `saturating_sub` saturates, `max`/`min` are exact.
-/
namespace EpdVerif

structure Rect where
  x : Nat
  y : Nat
  w : Nat
  h : Nat
  deriving DecidableEq, Repr, Inhabited

namespace Rect

def U32 : Nat := 4294967296

/-- all fields are `u32` values -/
def wf (r : Rect) : Prop := r.x < U32 ∧ r.y < U32 ∧ r.w < U32 ∧ r.h < U32
instance (r : Rect) : Decidable r.wf := by unfold wf; infer_instance

/-- right and bottom edges representable: the property's precondition -/
def noOverflow (r : Rect) : Prop := r.x + r.w < U32 ∧ r.y + r.h < U32
instance (r : Rect) : Decidable r.noOverflow := by unfold noOverflow; infer_instance

/-- `Rect::intersect`; `none` = arithmetic-overflow panic -/
def intersect (a b : Rect) : Option Rect :=
  if a.x + a.w < U32 ∧ b.x + b.w < U32 ∧ a.y + a.h < U32 ∧ b.y + b.h < U32 then
    let x := max a.x b.x
    let y := max a.y b.y
    some { x, y, w := min (a.x + a.w) (b.x + b.w) - x, h := min (a.y + a.h) (b.y + b.h) - y }
  else none

/-- `Rect::sub_offset`; `none` = underflow panic -/
def subOffset (r : Rect) (dx dy : Nat) : Option Rect :=
  if dx ≤ r.x ∧ dy ≤ r.y then some { x := r.x - dx, y := r.y - dy, w := r.w, h := r.h } else none

/-- `Rect::is_empty` -/
def isEmpty (r : Rect) : Bool := r.w == 0 || r.h == 0

/-- the pixel set a rectangle stands for -/
def covers (r : Rect) (px py : Nat) : Prop :=
  r.x ≤ px ∧ px < r.x + r.w ∧ r.y ≤ py ∧ py < r.y + r.h
instance (r : Rect) (px py : Nat) : Decidable (r.covers px py) := by unfold covers; infer_instance

end Rect
end EpdVerif
