import EpdVerif.Rect
import EpdVerif.Aliases
import EpdVerif.Scenario
/-!
# Expected output of the pure-function scenarios

For every `panel=pure` op the harness prints `X <i> <text>` computed by the REAL Rust
functions; `pureOp` computes the same text from the Lean model.  Hashes are FNV-style folds
(`mix`) implemented identically on both sides.
-/
namespace EpdVerif

def rectStr : Option Rect → String
  | some r => s!"{r.x}.{r.y}.{r.w}.{r.h}"
  | none => "panic"

def b01 (b : Bool) : String := if b then "1" else "0"

def rectOp (v : List Nat) : String :=
  match v with
  | [ax, ay, aw, ah, bx, b_y, bw, bh, dx, dy] =>
    let a : Rect := ⟨ax, ay, aw, ah⟩
    let b : Rect := ⟨bx, b_y, bw, bh⟩
    let i1 := a.intersect b
    let e := match i1 with | some r => b01 r.isEmpty | none => "-"
    s!"I={rectStr i1} J={rectStr (b.intersect a)} S={rectStr (a.subOffset dx dy)} E={e} EA={b01 a.isEmpty}"
  | _ => "bad-args"

def rectGrid (n : Nat) : String := Id.run do
  let mut h := H0
  let mut cnt := 0
  for ax in [0:n+1] do
    for ay in [0:n+1] do
      for aw in [0:n+1] do
        for ah in [0:n+1] do
          for bx in [0:n+1] do
            for b_y in [0:n+1] do
              for bw in [0:n+1] do
                for bh in [0:n+1] do
                  match (Rect.mk ax ay aw ah).intersect ⟨bx, b_y, bw, bh⟩ with
                  | some r =>
                    h := mix h (UInt64.ofNat r.x)
                    h := mix h (UInt64.ofNat r.y)
                    h := mix h (UInt64.ofNat r.w)
                    h := mix h (UInt64.ofNat r.h)
                    h := mix h (if r.isEmpty then 1 else 0)
                  | none => h := mix h 0xdead
                  cnt := cnt + 1
  return s!"H={hex16 h} N={cnt}"

def octOf (i : Nat) : OctColor := OctColor.all.getD (i % 8) .black
def triOf (i : Nat) : TriColor := TriColor.all.getD (i % 3) .black
def colOf (i : Nat) : Color := Color.all.getD (i % 2) .black

def colorBytes : String := Id.run do
  let mut o := ""
  for v in [0:256] do
    let b := UInt8.ofNat v
    o := o ++ (match Color.fromU8 b with | some c => toString c.idx | none => "p")
    o := o ++ (match OctColor.fromNibble b with | some c => toString c.idx | none => "e")
    o := o ++ (match OctColor.splitByte b with | some (hi, lo) => s!"{hi.idx}{lo.idx}" | none => "ee")
    o := o ++ "."
  return o

def colorEnc : String := Id.run do
  let mut o := ""
  for c in Color.all do
    o := o ++ s!"C{c.idx}:{c.getBitValue}:{hexByte c.getByteValue}:{c.inverse.idx};"
  for c in TriColor.all do
    o := o ++ s!"T{c.idx}:{c.getBitValue}:{hexByte c.getByteValue};"
  for c in OctColor.all do
    let (r, g, b) := c.rgb
    o := o ++ s!"O{c.idx}:{c.getNibble}:{r}.{g}.{b};"
  for x in OctColor.all do
    for y in OctColor.all do
      o := o ++ hexByte (OctColor.colorsByte x y)
  return o

def maskStr (m : UInt8 × Nat) : String := hexByte m.1 ++ hexN m.2 4

def colorMask : String := Id.run do
  let mut o := ""
  for bwr in [false, true] do
    for pos in [0:16] do
      for c in Color.all do o := o ++ maskStr (c.bitmask bwr pos)
      for c in TriColor.all do o := o ++ maskStr (c.bitmask bwr pos)
      for c in OctColor.all do o := o ++ maskStr (c.bitmask bwr pos)
      o := o ++ "."
  return o

def rgbStr (t : Nat × Nat × Nat) : String := s!"{t.1}.{t.2.1}.{t.2.2}"

def colorRaw : String := Id.run do
  let mut o := ""
  for v in [0:2] do o := o ++ toString (Color.fromRawU1 v).idx
  o := o ++ ";"
  for c in Color.all do o := o ++ toString c.toRawU1
  o := o ++ ";"
  for v in [0:4] do o := o ++ toString (TriColor.fromRawU2 v).idx
  o := o ++ ";"
  for v in [0:16] do
    o := o ++ (match OctColor.fromRawU4 v with | some c => toString c.idx | none => "p")
  o := o ++ ";"
  for on in [false, true] do
    o := o ++ s!"{(Color.fromBinary on).idx}{(TriColor.fromBinary on).idx}{(OctColor.fromBinary on).idx}"
  o := o ++ ";"
  for c in Color.all do
    o := o ++ s!"{rgbStr (c.toRgb rgb888)},{rgbStr (c.toRgb rgb565)},{rgbStr (c.toRgb rgb555)};"
  for c in TriColor.all do o := o ++ rgbStr c.toRgb888 ++ ";"
  for c in OctColor.all do o := o ++ rgbStr c.rgb ++ ";"
  return o

def colorRgbSmall (dp : RgbDepth) : String := Id.run do
  let mut h := H0
  let mut whites := 0
  for r in [0:dp.mr+1] do
    for g in [0:dp.mg+1] do
      for b in [0:dp.mb+1] do
        let c := (Color.fromRgb dp r g b).idx
        h := mix h (UInt64.ofNat c)
        whites := whites + c
  return s!"H={hex16 h} W={whites}"

def colorRgb888 (stride offset : Nat) : String := Id.run do
  let mut hc := H0
  let mut ht := H0
  let mut ho := H0
  let mut n := 0
  let mut v := offset
  if stride = 0 then return "bad-stride"
  for _ in [0:(16777216 + stride - 1 - offset) / stride] do
    if v < 16777216 then
      let r := v / 65536
      let g := v / 256 % 256
      let b := v % 256
      hc := mix hc (UInt64.ofNat (Color.fromRgb rgb888 r g b).idx)
      ht := mix ht (UInt64.ofNat (TriColor.fromRgb888 r g b).idx)
      ho := mix ho (UInt64.ofNat (OctColor.fromRgb888 r g b).idx)
      n := n + 1
      v := v + stride
  return s!"N={n} C={hex16 hc} T={hex16 ht} O={hex16 ho}"

def colorOp (a : List String) : String :=
  match a with
  | ["color", "bytes"] => colorBytes
  | ["color", "enc"] => colorEnc
  | ["color", "mask"] => colorMask
  | ["color", "raw"] => colorRaw
  | ["color", "rgb565"] => colorRgbSmall rgb565
  | ["color", "rgb555"] => colorRgbSmall rgb555
  | ["color", "rgb888", s, o] =>
    match s.toNat?, o.toNat? with
    | some s, some o => colorRgb888 s o
    | _, _ => "bad-args"
  | ["color", "rgbone", d, r, g, b] =>
    match r.toNat?, g.toNat?, b.toNat? with
    | some r, some g, some b =>
      if d == "888" then
        s!"C={(Color.fromRgb rgb888 r g b).idx} T={(TriColor.fromRgb888 r g b).idx} O={(OctColor.fromRgb888 r g b).idx}"
      else if d == "565" then s!"C={(Color.fromRgb rgb565 r g b).idx}"
      else if d == "555" then s!"C={(Color.fromRgb rgb555 r g b).idx}"
      else "bad-depth"
    | _, _, _ => "bad-args"
  | _ => "bad-domain"

/-- the `bitmask(bwrbit, ·)` of colour number `col` of a colour type -/
def bmOf (tag : String) (col : Nat) (bwr : Bool) : Nat → UInt8 × Nat :=
  if tag == "tri" then (triOf col).bitmask bwr
  else if tag == "oct" then (octOf col).bitmask bwr
  else (colOf col).bitmask bwr

def ckOfTag (tag : String) : ColorKind :=
  if tag == "tri" then kindTri else if tag == "oct" then kindOct else kindBw

def aliasTable : String := Id.run do
  let mut o := ""
  for a in aliases do
    let tag := kindTag a.kind
    if tag == "tri" then
      o := o ++ s!"{a.panel}:{a.w}:{a.h}:{a.bytecount}:1:tri:{b01 a.bwr}:{a.bytecount / 2}:{a.bytecount - a.bytecount / 2}:1;"
    else
      o := o ++ s!"{a.panel}:{a.w}:{a.h}:{a.bytecount}:1:{tag}:-:-:-;"
  return o

def parseRot (s : String) : Option Rotation :=
  if s == "0" then some .r0 else if s == "90" then some .r90
  else if s == "180" then some .r180 else if s == "270" then some .r270 else none

def pointsOf (mode : String) (sw sh : Nat) : List (Int × Int) :=
  if mode == "grid" then
    (List.range (sh + 7)).flatMap fun (j : Nat) => (List.range (sw + 7)).map fun (i : Nat) => ((i : Int) - 3, (j : Int) - 3)
  else
    let xs : List Int := [-2147483648, -2147483647, -1, 0, (sw : Int) - 1, sw, 2147483646, 2147483647]
    let ys : List Int := [-2147483648, -2147483647, -1, 0, (sh : Int) - 1, sh, 2147483646, 2147483647]
    ys.flatMap fun y => xs.map fun x => (x, y)

def asU32 (v : Int) : UInt64 := UInt64.ofNat ((v % 4294967296).toNat)

/-- indices `set_pixel` may write for this point (ascending) -/
def touched (size w h : Nat) (rot : Rotation) (k : ColorKind) (px py : Int) : List Nat :=
  match rotate w h rot px py with
  | none => []
  | some (x, y) =>
    if x < 0 ∨ x ≥ w ∨ y < 0 ∨ y ≥ h then [] else
    let index := x.toNat * k.bpp / 8 + y.toNat * lineBytes w k.bpp
    if k.planes = 2 then [index, index + size / 2] else [index]

/-- the `setpx` batch on a buffer: returns the result text (without target-specific suffix) -/
def setpxBatch (buf0 : Array UInt8) (w h : Nat) (rot : Rotation) (k : ColorKind)
    (bm : Nat → UInt8 × Nat) (mode : String) : String := Id.run do
  let (sw, sh) := displaySize w h rot
  let mut buf := buf0
  let mut hsh := H0
  let mut changed := 0
  let mut n := 0
  let mut npan := 0
  let mut pan := "none"
  for (px, py) in pointsOf mode sw sh do
    -- read the old values first so that `buf` is uniquely referenced when it is updated
    let size := buf.size
    let ts := (touched size w h rot k px py).filter (· < size)
    let olds := ts.map (buf.getD · 0)
    let r := setPixel buf w h rot k bm px py
    buf := r.1
    if r.2 then
      if npan = 0 then pan := s!"{px}.{py}"
      npan := npan + 1
      hsh := mix hsh 0x70616e6963
    hsh := mix hsh (asU32 px)
    hsh := mix hsh (asU32 py)
    for (i, o) in ts.zip olds do
      let v := buf.getD i 0
      if o ≠ v then
        hsh := mix hsh (UInt64.ofNat i)
        hsh := mix hsh v.toUInt64
        changed := changed + 1
    n := n + 1
  return s!"H={hex16 hsh} N={n} C={changed} P={pan} NP={npan} S={sw}.{sh}"

def setpxOp (a : List String) : String :=
  match a with
  | ["setpx", target, rot, col, seed, mode] =>
    match parseRot rot, col.toNat?, seed.toNat? with
    | some rot, some col, some seed =>
      if target.startsWith "var:" then
        match (target.drop 4).toString.splitOn ":" with
        | [w, h, tag, bwr, extra] =>
          match w.toNat?, h.toNat?, extra.toNat? with
          | some w, some h, some _extra =>
            let k := ckOfTag tag
            let size := varBufferSize w h k
            if size ≥ 65536 + 1 then "R=err" else
            let buf := (prngBytes (UInt64.ofNat seed) size).toArray
            setpxBatch buf w h rot k (bmOf tag col (bwr == "1")) mode ++ s!" L={size} TAIL=1"
          | _, _, _ => "bad-args"
        | _ => "bad-args"
      else
        match aliases.find? (·.panel == target) with
        | some al =>
          let buf := (prngBytes (UInt64.ofNat seed) al.bytecount).toArray
          setpxBatch buf al.w al.h rot al.ck (bmOf (kindTag al.kind) col al.bwr) mode
        | none => "bad-alias"
    | _, _, _ => "bad-args"
  | _ => "bad-args"

def parseInt (s : String) : Option Int :=
  if s.startsWith "-" then (s.drop 1).toString.toNat?.map (fun n => -(n : Int)) else s.toNat?.map (fun n => (n : Int))

def vargridOp (maxw maxh : Nat) : String := Id.run do
  let mut hsh := H0
  let mut accepted := 0
  let mut panics := 0
  let mut first := "none"
  for w in [0:maxw+1] do
    for h in [0:maxh+1] do
      for (kind, tag) in [(0, "bw"), (1, "tri"), (2, "oct")] do
        let k := ckOfTag tag
        let req := varBufferSize w h k
        let lens := [req - 1, req, req + 1, 0]
        let mut li := 0
        for len in lens do
          if li = 0 ∧ req = 0 then
            hsh := mix hsh 7
          else if !varNewOk w h k len then
            hsh := mix hsh 0
          else
            accepted := accepted + 1
            hsh := mix hsh (UInt64.ofNat (1 + req))
            let mut buf : Array UInt8 := Array.replicate req 0
            let mut bad := false
            for y in [0:h] do
              for x in [0:w] do
                if !bad then
                  let r := setPixel buf w h .r0 k (bmOf tag 1 false) x y
                  buf := r.1
                  if r.2 then
                    bad := true
                    if first == "none" then first := s!"{kind}.{w}.{h}.{len}.{x}.{y}"
            if bad then
              panics := panics + 1
              hsh := mix hsh 99
          li := li + 1
  return s!"H={hex16 hsh} A={accepted} PANICS={panics} FIRST={first}"

def buflenOp (mw mh : Nat) : String := Id.run do
  let mut h := H0
  for w in [0:mw+1] do
    for hh in [0:mh+1] do
      h := mix h (UInt64.ofNat (bufferLen w hh))
  return s!"H={hex16 h}"

/-- expected text of one pure op -/
def pureOp (a : List String) : String :=
  match a with
  | "rect" :: rest =>
    match rest.mapM String.toNat? with
    | some v => rectOp v
    | none => "bad-args"
  | ["rectgrid", n] => match n.toNat? with | some n => rectGrid n | none => "bad-args"
  | "color" :: _ => colorOp a
  | ["alias"] => aliasTable
  | "setpx" :: _ => setpxOp a
  | ["setone", w, h, tag, bwr, rot, col, px, py, bufd] =>
    match w.toNat?, h.toNat?, parseRot rot, col.toNat?, parseInt px, parseInt py, makeBuf bufd with
    | some w, some h, some rot, some col, some px, some py, some store =>
      let k := ckOfTag tag
      let size := varBufferSize w h k
      if size > store.length then "R=err" else
      let r := setPixel (store.take size).toArray w h rot k (bmOf tag col (bwr == "1")) px py
      if r.2 then "R=panic" else s!"R=ok B={hexOf (r.1.toList ++ store.drop size)}"
    | _, _, _, _, _, _, _ => "bad-args"
  | ["vardisp", w, h, tag, len] =>
    match w.toNat?, h.toNat?, len.toNat? with
    | some w, some h, some len =>
      let k := ckOfTag tag
      if !varNewOk w h k len then "R=err" else
      let size := varBufferSize w h k
      if tag == "tri" then s!"R=ok L={size} BW={size / 2} CH={size - size / 2}" else s!"R=ok L={size}"
    | _, _, _ => "bad-args"
  | ["vargrid", mw, mh] =>
    match mw.toNat?, mh.toNat? with
    | some mw, some mh => vargridOp mw mh
    | _, _ => "bad-args"
  | ["buflen", mw, mh] =>
    match mw.toNat?, mh.toNat? with
    | some mw, some mh => buflenOp mw mh
    | _, _ => "bad-args"
  | _ => "unsup"

end EpdVerif
