import Lean
/-! `#audit_namespace NS` prints `AXIOMS <theorem> : [axioms]` for every theorem declared
    directly in namespace `NS`, and a final count. Used by the checks to fill `obligations` /
    `discharged` and to reject any axiom outside {propext, Classical.choice, Quot.sound}. -/
open Lean Elab Command

/-- the same for every namespace below `NS` as well (generated instance files use one
    sub-namespace per file) -/
elab "#audit_rec " ns:ident : command => do
  let env ← getEnv
  let nsName := ns.getId
  let mut names : Array Name := #[]
  for (n, ci) in env.constants.toList do
    if nsName.isPrefixOf n && n != nsName && !n.isInternal then
      if let .thmInfo _ := ci then names := names.push n
  for n in names.qsort (fun a b => a.toString < b.toString) do
    let axs ← liftCoreM <| Lean.collectAxioms n
    logInfo m!"AXIOMS {n} : {axs.qsort (fun a b => a.toString < b.toString)}"
  logInfo m!"AUDIT {nsName} theorems={names.size}"

elab "#audit_namespace " ns:ident : command => do
  let env ← getEnv
  let nsName := ns.getId
  let mut names : Array Name := #[]
  for (n, ci) in env.constants.toList do
    if n.getPrefix == nsName && !n.isInternal then
      if let .thmInfo _ := ci then names := names.push n
  for n in names.qsort (fun a b => a.toString < b.toString) do
    let axs ← liftCoreM <| Lean.collectAxioms n
    logInfo m!"AXIOMS {n} : {axs.qsort (fun a b => a.toString < b.toString)}"
  logInfo m!"AUDIT {nsName} theorems={names.size}"

/-- `#audit_names a b c …`: the same line per listed theorem (for theorems that live in another
    property's namespace but discharge an obligation of this one) -/
elab "#audit_names " ns:ident+ : command => do
  let env ← getEnv
  let mut k : Nat := 0
  for n in ns do
    let name := n.getId
    match env.find? name with
    | some (.thmInfo _) =>
      let axs ← liftCoreM <| Lean.collectAxioms name
      logInfo m!"AXIOMS {name} : {axs.qsort (fun a b => a.toString < b.toString)}"
      k := k + 1
    | _ => throwError "#audit_names: {name} is not a theorem"
  logInfo m!"AUDIT names theorems={k}"
