import EpdVerif.AuditCmd
import EpdVerif.Props.C16
#audit_namespace EpdVerif.Props.C16
