import EpdVerif.AuditCmd
import EpdVerif.Props.C07
import EpdVerif.Props.C07Clear
import EpdVerif.Props.Panels
#audit_namespace EpdVerif.Props.C07
