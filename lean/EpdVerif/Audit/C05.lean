import EpdVerif.AuditCmd
import EpdVerif.Props.C05
import EpdVerif.Props.C05Big
import EpdVerif.Props.Panels
#audit_namespace EpdVerif.Props.C05
