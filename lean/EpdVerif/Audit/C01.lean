import EpdVerif.AuditCmd
import EpdVerif.Props.C01
import EpdVerif.Props.Panels
#audit_namespace EpdVerif.Props.C01
