import EpdVerif.AuditCmd
import EpdVerif.Props.C01
import EpdVerif.Props.C01Bytewise
import EpdVerif.Props.E2EAll
import EpdVerif.Props.Panels
#audit_namespace EpdVerif.Props.C01
#audit_rec EpdVerif.Props.E2E
