import EpdVerif.AuditCmd
import EpdVerif.Props.C11
import EpdVerif.Props.C11Big
import EpdVerif.Props.Panels
#audit_namespace EpdVerif.Props.C11
