import EpdVerif.AuditCmd
import EpdVerif.Props.C04
import EpdVerif.Props.Panels
#audit_namespace EpdVerif.Props.C04
