import EpdVerif.AuditCmd
import EpdVerif.Props.C14
#audit_namespace EpdVerif.Props.C14
