import EpdVerif.AuditCmd
import EpdVerif.Props.C18
import EpdVerif.Props.C18Big
import EpdVerif.Props.Panels
#audit_namespace EpdVerif.Props.C18
