import EpdVerif.AuditCmd
import EpdVerif.Props.C12
import EpdVerif.Props.Panels
#audit_namespace EpdVerif.Props.C12
