import EpdVerif.AuditCmd
import EpdVerif.Props.C06
import EpdVerif.Props.C06Win
import EpdVerif.Props.C06Bytewise
import EpdVerif.Props.Panels
#audit_namespace EpdVerif.Props.C06
