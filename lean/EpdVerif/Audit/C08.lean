import EpdVerif.AuditCmd
import EpdVerif.Props.C08
import EpdVerif.Props.C08Big
import EpdVerif.Props.C08Sleep
import EpdVerif.Props.Panels
#audit_namespace EpdVerif.Props.C08
