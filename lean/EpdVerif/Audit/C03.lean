import EpdVerif.AuditCmd
import EpdVerif.Props.C03
#audit_namespace EpdVerif.Props.C03
