import EpdVerif.AuditCmd
import EpdVerif.Props.C17
import EpdVerif.Props.C17Sticky
import EpdVerif.Props.Panels
#audit_namespace EpdVerif.Props.C17
