import EpdVerif.AuditCmd
import EpdVerif.Props.C15
#audit_namespace EpdVerif.Props.C15
