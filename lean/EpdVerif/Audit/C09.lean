import EpdVerif.AuditCmd
import EpdVerif.Props.C09
import EpdVerif.Props.C09Big
import EpdVerif.Props.C09Mode
import EpdVerif.Props.C09Coupled
import EpdVerif.Props.Panels
#audit_namespace EpdVerif.Props.C09
