import EpdVerif.AuditCmd
import EpdVerif.Props.C10
import EpdVerif.Props.Panels
#audit_namespace EpdVerif.Props.C10
