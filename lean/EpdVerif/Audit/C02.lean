import EpdVerif.AuditCmd
import EpdVerif.Props.C02
import EpdVerif.Props.E2EHAll
import EpdVerif.Props.E2EAAll
import EpdVerif.Props.Panels
#audit_namespace EpdVerif.Props.C02
#audit_rec EpdVerif.Props.E2EH
#audit_rec EpdVerif.Props.E2EA
