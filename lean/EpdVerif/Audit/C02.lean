import EpdVerif.AuditCmd
import EpdVerif.Props.C02
import EpdVerif.Props.Panels
#audit_namespace EpdVerif.Props.C02
