import EpdVerif.AuditCmd
import EpdVerif.Props.C13
#audit_namespace EpdVerif.Props.C13
