#!/bin/sh
# offline setup after a fresh restore: regenerate constants, build the Lean project and the harness
set -e
cd "$(dirname "$0")"
python3 tools/gen_consts.py
(cd lean && lake build)
cp /repo/Cargo.lock harness/Cargo.lock
(cd harness && CARGO_NET_OFFLINE=true cargo build --offline)
echo setup-ok
