//! Mock HAL: every SPI transfer, pin write, busy-pin read and delay call of one scenario is
//! recorded as a canonical text trace.  The mock knows no controller semantics: the set of
//! busy-raising command bytes and the pin level meaning "busy" come from the scenario line.

use embedded_hal::delay::DelayNs;
use embedded_hal::digital::{ErrorType as DErrorType, InputPin, OutputPin};
use embedded_hal::spi::{ErrorKind, ErrorType as SErrorType, Operation, SpiBus, SpiDevice};
use std::cell::RefCell;
use std::collections::VecDeque;
use std::fmt::Write as _;
use std::rc::Rc;

pub const POLL_CAP: u32 = 3000;

#[derive(Debug)]
pub struct MockErr;
impl embedded_hal::spi::Error for MockErr {
    fn kind(&self) -> ErrorKind {
        ErrorKind::Other
    }
}
impl embedded_hal::digital::Error for MockErr {
    fn kind(&self) -> embedded_hal::digital::ErrorKind {
        embedded_hal::digital::ErrorKind::Other
    }
}

pub struct Group {
    tag: String,
    lens: Vec<(usize, usize)>,
    bytes: Vec<u8>,
}

pub struct Sim {
    pub out: String,
    pub dc: bool,
    pub rst_level: Option<bool>,
    pub busy: u32,
    pub sched: VecDeque<u32>,
    pub raise: Vec<u8>,
    pub busylvl: bool,
    pub fault: Option<u64>,
    pub polls: u32,
    pub group: Option<Group>,
    // 12.48in: chip-select levels (true = high = deselected) m1,s1,m2,s2 and dc m1s1,m2s2
    pub cs: [bool; 4],
    pub dc2: [bool; 2],
    pub big: bool,
    /// buffered bus (see `Scenario::fifo`): writes wait here until `flush` / a read / the end of the call
    pub fifo: bool,
    pub slow: Option<usize>,
    pub pending: Vec<Vec<u8>>,
    pub hung: bool,
}

pub type Shared = Rc<RefCell<Sim>>;

impl Sim {
    pub fn new() -> Sim {
        Sim {
            out: String::new(),
            dc: false,
            rst_level: None,
            busy: 0,
            sched: VecDeque::new(),
            raise: vec![],
            busylvl: false,
            fault: None,
            polls: 0,
            group: None,
            cs: [true; 4],
            dc2: [false; 2],
            big: false,
            fifo: false,
            slow: None,
            pending: vec![],
            hung: false,
        }
    }
    pub fn flush_group(&mut self) {
        if let Some(g) = self.group.take() {
            let mut rle = String::new();
            for (i, (l, c)) in g.lens.iter().enumerate() {
                if i > 0 {
                    rle.push(',');
                }
                let _ = write!(rle, "{}*{}", l, c);
            }
            let _ = write!(self.out, "W {} {} ", g.tag, rle);
            if g.bytes.is_empty() {
                self.out.push('-');
            } else {
                for b in &g.bytes {
                    let _ = write!(self.out, "{:02x}", b);
                }
            }
            self.out.push('\n');
        }
    }
    pub fn event(&mut self, line: &str) {
        self.flush_group();
        self.out.push_str(line);
        self.out.push('\n');
    }
    fn tag(&self) -> String {
        if self.big {
            // chip selects that are LOW (selected) as a mask m1=1,s1=2,m2=4,s2=8; dc lines as bits
            let mut m = 0;
            for i in 0..4 {
                if !self.cs[i] {
                    m |= 1 << i;
                }
            }
            let d = (self.dc2[0] as u8) | ((self.dc2[1] as u8) << 1);
            format!("c{:x}d{}", m, d)
        } else {
            (if self.dc { "1" } else { "0" }).to_string()
        }
    }
    pub fn raise_busy(&mut self) {
        self.busy = self.sched.pop_front().unwrap_or(0);
    }
    /// one SPI transfer
    pub fn write(&mut self, data: &[u8]) -> Result<(), MockErr> {
        let tag = self.tag();
        if let Some(k) = self.fault {
            if k == 0 {
                self.fault = None;
                self.event(&format!("F {} {}", tag, data.len()));
                return Err(MockErr);
            }
            self.fault = Some(k - 1);
        }
        if self.fifo {
            self.pending.push(data.to_vec());
            return Ok(());
        }
        self.deliver(data);
        Ok(())
    }
    /// the queued writes of a buffered bus reach the chips now, with the pins as they are now
    pub fn drain(&mut self) {
        let q = std::mem::take(&mut self.pending);
        for d in q {
            self.deliver(&d);
        }
    }
    fn deliver(&mut self, data: &[u8]) {
        let tag = self.tag();
        let same = matches!(&self.group, Some(g) if g.tag == tag);
        if !same {
            self.flush_group();
            self.group = Some(Group { tag: tag.clone(), lens: vec![], bytes: vec![] });
        }
        let g = self.group.as_mut().unwrap();
        match g.lens.last_mut() {
            Some((l, c)) if *l == data.len() => *c += 1,
            _ => g.lens.push((data.len(), 1)),
        }
        g.bytes.extend_from_slice(data);
        // busy-raising command: a single byte sent as a command
        let is_cmd = if self.big { self.dc2 == [false, false] } else { !self.dc };
        if is_cmd && data.len() == 1 && self.raise.contains(&data[0]) {
            self.raise_busy();
        }
    }
    pub fn read_busy(&mut self, pin: usize) -> bool {
        self.polls += 1;
        if self.polls > POLL_CAP {
            self.hung = true;
            self.flush_group();
            panic!("HANG");
        }
        let other = matches!(self.slow, Some(k) if k != pin);
        let lvl = if !other && self.busy > 0 {
            self.busy -= 1;
            self.busylvl
        } else {
            !self.busylvl
        };
        if self.big {
            self.event(&format!("B {} {}", lvl as u8, pin));
        } else {
            self.event(&format!("B {}", lvl as u8));
        }
        lvl
    }
}

pub struct MockSpi(pub Shared);
impl SErrorType for MockSpi {
    type Error = MockErr;
}
impl SpiDevice for MockSpi {
    fn transaction(&mut self, operations: &mut [Operation<'_, u8>]) -> Result<(), MockErr> {
        for op in operations {
            match op {
                Operation::Write(b) => self.0.borrow_mut().write(b)?,
                Operation::DelayNs(n) => self.0.borrow_mut().event(&format!("D spins {}", n)),
                Operation::Read(b) => {
                    self.0.borrow_mut().event(&format!("I {}", b.len()));
                    for x in b.iter_mut() {
                        *x = 0;
                    }
                }
                Operation::Transfer(r, w) => {
                    self.0.borrow_mut().write(w)?;
                    for x in r.iter_mut() {
                        *x = 0;
                    }
                }
                Operation::TransferInPlace(b) => {
                    let c = b.to_vec();
                    self.0.borrow_mut().write(&c)?;
                }
            }
        }
        Ok(())
    }
}

/// SpiBus for the 12.48in driver
pub struct MockBus(pub Shared);
impl SErrorType for MockBus {
    type Error = MockErr;
}
impl SpiBus for MockBus {
    fn read(&mut self, words: &mut [u8]) -> Result<(), MockErr> {
        let mut s = self.0.borrow_mut();
        s.drain();
        let tag = s.tag();
        s.event(&format!("I {} {}", tag, words.len()));
        for x in words.iter_mut() {
            *x = 0;
        }
        Ok(())
    }
    fn write(&mut self, words: &[u8]) -> Result<(), MockErr> {
        self.0.borrow_mut().write(words)
    }
    fn transfer(&mut self, read: &mut [u8], write: &[u8]) -> Result<(), MockErr> {
        self.0.borrow_mut().write(write)?;
        for x in read.iter_mut() {
            *x = 0;
        }
        Ok(())
    }
    fn transfer_in_place(&mut self, words: &mut [u8]) -> Result<(), MockErr> {
        let c = words.to_vec();
        self.0.borrow_mut().write(&c)
    }
    fn flush(&mut self) -> Result<(), MockErr> {
        let mut s = self.0.borrow_mut();
        // a flush can be the failing "transfer" too (it returns the bus error)
        if let Some(k) = s.fault {
            if k == 0 {
                s.fault = None;
                s.event("F flush 0");
                return Err(MockErr);
            }
            s.fault = Some(k - 1);
        }
        s.drain();
        s.event("L");
        Ok(())
    }
}

#[derive(Clone, Copy)]
pub enum PinKind {
    Dc,
    Rst,
    Cs(usize),
    Dc2(usize),
    Rst2(usize),
}
pub struct MockOut(pub Shared, pub PinKind);
impl DErrorType for MockOut {
    type Error = MockErr;
}
impl MockOut {
    fn set(&mut self, lvl: bool) {
        let mut s = self.0.borrow_mut();
        match self.1 {
            PinKind::Dc => s.dc = lvl,
            PinKind::Rst => {
                if lvl && s.rst_level == Some(false) {
                    s.raise_busy();
                }
                s.rst_level = Some(lvl);
                s.event(&format!("R {}", lvl as u8));
            }
            PinKind::Cs(i) => s.cs[i] = lvl,
            PinKind::Dc2(i) => s.dc2[i] = lvl,
            PinKind::Rst2(i) => {
                s.event(&format!("R{} {}", i, lvl as u8));
                if lvl {
                    s.raise_busy();
                }
            }
        }
    }
}
impl OutputPin for MockOut {
    fn set_low(&mut self) -> Result<(), MockErr> {
        self.set(false);
        Ok(())
    }
    fn set_high(&mut self) -> Result<(), MockErr> {
        self.set(true);
        Ok(())
    }
}

pub struct MockIn(pub Shared, pub usize);
impl DErrorType for MockIn {
    type Error = MockErr;
}
impl InputPin for MockIn {
    fn is_high(&mut self) -> Result<bool, MockErr> {
        Ok(self.0.borrow_mut().read_busy(self.1))
    }
    fn is_low(&mut self) -> Result<bool, MockErr> {
        Ok(!self.0.borrow_mut().read_busy(self.1))
    }
}

pub struct MockDelay(pub Shared);
impl DelayNs for MockDelay {
    fn delay_ns(&mut self, ns: u32) {
        self.0.borrow_mut().event(&format!("D ns {}", ns));
    }
    fn delay_us(&mut self, us: u32) {
        self.0.borrow_mut().event(&format!("D us {}", us));
    }
    fn delay_ms(&mut self, ms: u32) {
        self.0.borrow_mut().event(&format!("D ms {}", ms));
    }
}
