//! Dispatch from (panel, op) to the real driver method.  No controller knowledge here.

use crate::scen::make_buf;
use crate::sim::*;
use epd_waveshare::color::{Color, OctColor, TriColor};
use epd_waveshare::prelude::*;

pub enum OpOut {
    Ok,
    Err,
    Unsup,
}

fn r<T, E>(x: Result<T, E>) -> OpOut {
    match x {
        Ok(_) => OpOut::Ok,
        Err(_) => OpOut::Err,
    }
}

/// buffers of one scenario: kept alive (and at a stable address) until the scenario ends
pub struct BufPool {
    pub bufs: Vec<*mut [u8]>,
    pub used_by_op: Vec<usize>,
}
impl BufPool {
    pub fn new() -> Self {
        BufPool { bufs: vec![], used_by_op: vec![] }
    }
    pub fn get(&mut self, desc: &str) -> &'static [u8] {
        let v = make_buf(desc).unwrap_or_else(|e| {
            eprintln!("HARNESS-ERROR {}", e);
            std::process::exit(3)
        });
        let p: *mut [u8] = Box::into_raw(v.into_boxed_slice());
        self.bufs.push(p);
        self.used_by_op.push(self.bufs.len() - 1);
        unsafe { &*p }
    }
    pub fn scribble_used(&mut self) {
        for i in self.used_by_op.drain(..) {
            let s = unsafe { &mut *self.bufs[i] };
            for b in s.iter_mut() {
                *b = !*b;
            }
        }
    }
    pub fn op_done(&mut self) {
        self.used_by_op.clear();
    }
    pub fn free(&mut self) {
        for p in self.bufs.drain(..) {
            unsafe { drop(Box::from_raw(p)) };
        }
    }
}

pub trait Panel {
    fn op(&mut self, name: &str, a: &[String], bp: &mut BufPool, spi: &mut MockSpi, delay: &mut MockDelay) -> OpOut;
    fn bg(&self) -> u8;
}

fn color(i: &str) -> Color {
    match i {
        "0" => Color::Black,
        "1" => Color::White,
        _ => bad_arg("colour", i),
    }
}
fn tricolor(i: &str) -> TriColor {
    match i {
        "0" => TriColor::Black,
        "1" => TriColor::White,
        "2" => TriColor::Chromatic,
        _ => bad_arg("tricolour", i),
    }
}
fn octcolor(i: &str) -> OctColor {
    match i.parse::<u8>().ok().and_then(|n| OctColor::from_nibble(n).ok()) {
        Some(c) if i.parse::<u8>().unwrap() < 8 => c,
        _ => bad_arg("octcolour", i),
    }
}
fn color_idx(c: &Color) -> u8 {
    match c {
        Color::Black => 0,
        Color::White => 1,
    }
}
fn tricolor_idx(c: &TriColor) -> u8 {
    match c {
        TriColor::Black => 0,
        TriColor::White => 1,
        TriColor::Chromatic => 2,
    }
}
fn octcolor_idx(c: &OctColor) -> u8 {
    c.get_nibble()
}
fn bad_arg(what: &str, v: &str) -> ! {
    eprintln!("HARNESS-ERROR bad {} argument `{}`", what, v);
    std::process::exit(3)
}
fn num(s: &str) -> u32 {
    s.parse::<u32>().unwrap_or_else(|_| bad_arg("number", s))
}
fn lut(s: &str) -> Option<RefreshLut> {
    match s {
        "full" => Some(RefreshLut::Full),
        "quick" => Some(RefreshLut::Quick),
        "none" => None,
        _ => bad_arg("lut", s),
    }
}
fn need(a: &[String], n: usize) {
    if a.len() != n + 1 {
        eprintln!("HARNESS-ERROR op `{}` expects {} arguments, got {}", a[0], n, a.len() - 1);
        std::process::exit(3)
    }
}

/// ops of `WaveshareDisplay`
macro_rules! base_ops {
    ($e:expr, $name:expr, $a:expr, $bp:expr, $spi:expr, $delay:expr, $col:ident) => {
        match $name {
            "wake" => Some(r($e.wake_up($spi, $delay))),
            "sleep" => Some(r($e.sleep($spi, $delay))),
            "disp" => Some(r($e.display_frame($spi, $delay))),
            "clear" => Some(r($e.clear_frame($spi, $delay))),
            "wait" => Some(r($e.wait_until_idle($spi, $delay))),
            "bg" => {
                need($a, 1);
                $e.set_background_color($col(&$a[1]));
                Some(OpOut::Ok)
            }
            "lut" => {
                need($a, 1);
                Some(r($e.set_lut($spi, $delay, lut(&$a[1]))))
            }
            "upd" => {
                need($a, 1);
                let b = $bp.get(&$a[1]);
                Some(r($e.update_frame($spi, b, $delay)))
            }
            "updisp" => {
                need($a, 1);
                let b = $bp.get(&$a[1]);
                Some(r($e.update_and_display_frame($spi, b, $delay)))
            }
            "part" => {
                need($a, 5);
                let b = $bp.get(&$a[1]);
                Some(r($e.update_partial_frame($spi, $delay, b, num(&$a[2]), num(&$a[3]), num(&$a[4]), num(&$a[5]))))
            }
            "dims" => {
                // accessor values, printed by the caller through bg(); width/height checked here
                Some(OpOut::Ok)
            }
            _ => None,
        }
    };
}

macro_rules! quick_ops {
    ($e:expr, $name:expr, $a:expr, $bp:expr, $spi:expr, $delay:expr) => {
        match $name {
            "old" => {
                need($a, 1);
                let b = $bp.get(&$a[1]);
                Some(r($e.update_old_frame($spi, b, $delay)))
            }
            "newf" => {
                need($a, 1);
                let b = $bp.get(&$a[1]);
                Some(r($e.update_new_frame($spi, b, $delay)))
            }
            "dispnew" => Some(r($e.display_new_frame($spi, $delay))),
            "updispnew" => {
                need($a, 1);
                let b = $bp.get(&$a[1]);
                Some(r($e.update_and_display_new_frame($spi, b, $delay)))
            }
            "pold" => {
                need($a, 5);
                let b = $bp.get(&$a[1]);
                Some(r($e.update_partial_old_frame($spi, $delay, b, num(&$a[2]), num(&$a[3]), num(&$a[4]), num(&$a[5]))))
            }
            "pnew" => {
                need($a, 5);
                let b = $bp.get(&$a[1]);
                Some(r($e.update_partial_new_frame($spi, $delay, b, num(&$a[2]), num(&$a[3]), num(&$a[4]), num(&$a[5]))))
            }
            "pclear" => {
                need($a, 4);
                Some(r($e.clear_partial_frame($spi, $delay, num(&$a[1]), num(&$a[2]), num(&$a[3]), num(&$a[4]))))
            }
            _ => None,
        }
    };
}

macro_rules! three_ops {
    ($e:expr, $name:expr, $a:expr, $bp:expr, $spi:expr, $delay:expr) => {
        match $name {
            "color" => {
                need($a, 2);
                let b = $bp.get(&$a[1]);
                let c = $bp.get(&$a[2]);
                Some(r($e.update_color_frame($spi, $delay, b, c)))
            }
            "achro" => {
                need($a, 1);
                let b = $bp.get(&$a[1]);
                Some(r($e.update_achromatic_frame($spi, $delay, b)))
            }
            "chro" => {
                need($a, 1);
                let b = $bp.get(&$a[1]);
                Some(r($e.update_chromatic_frame($spi, $delay, b)))
            }
            _ => None,
        }
    };
}

type Std<'a, T> = T;

macro_rules! panel {
    ($wrap:ident, $ty:ty, $col:ident, $colidx:ident, quick=$q:tt, three=$t:tt, extra=|$e:ident, $n:ident, $a:ident, $bp:ident, $spi:ident, $delay:ident| $extra:expr) => {
        pub struct $wrap(pub Std<'static, $ty>);
        impl Panel for $wrap {
            #[allow(unused_variables)]
            fn op(&mut self, name: &str, a: &[String], bp: &mut BufPool, spi: &mut MockSpi, delay: &mut MockDelay) -> OpOut {
                let $e = &mut self.0;
                if let Some(x) = base_ops!($e, name, a, bp, spi, delay, $col) {
                    return x;
                }
                panel!(@quick $q, $e, name, a, bp, spi, delay);
                panel!(@three $t, $e, name, a, bp, spi, delay);
                let ($n, $a, $bp, $spi, $delay) = (name, a, bp, spi, delay);
                let ex: Option<OpOut> = $extra;
                ex.unwrap_or(OpOut::Unsup)
            }
            fn bg(&self) -> u8 {
                $colidx(self.0.background_color())
            }
        }
    };
    (@quick yes, $e:expr, $name:expr, $a:expr, $bp:expr, $spi:expr, $delay:expr) => {
        if let Some(x) = quick_ops!($e, $name, $a, $bp, $spi, $delay) { return x; }
    };
    (@quick no, $e:expr, $name:expr, $a:expr, $bp:expr, $spi:expr, $delay:expr) => {};
    (@three yes, $e:expr, $name:expr, $a:expr, $bp:expr, $spi:expr, $delay:expr) => {
        if let Some(x) = three_ops!($e, $name, $a, $bp, $spi, $delay) { return x; }
    };
    (@three no, $e:expr, $name:expr, $a:expr, $bp:expr, $spi:expr, $delay:expr) => {};
}

type M<'a> = (MockSpi, MockIn, MockOut, MockOut, MockDelay);

use epd_waveshare as ew;

panel!(P1in02, ew::epd1in02::Epd1in02<MockSpi, MockIn, MockOut, MockOut, MockDelay>, color, color_idx, quick=yes, three=no,
    extra=|e, n, a, bp, spi, delay| None);
panel!(P1in54, ew::epd1in54::Epd1in54<MockSpi, MockIn, MockOut, MockOut, MockDelay>, color, color_idx, quick=no, three=no,
    extra=|e, n, a, bp, spi, delay| None);
panel!(P1in54v2, ew::epd1in54_v2::Epd1in54<MockSpi, MockIn, MockOut, MockOut, MockDelay>, color, color_idx, quick=no, three=no,
    extra=|e, n, a, bp, spi, delay| None);
panel!(P1in54b, ew::epd1in54b::Epd1in54b<MockSpi, MockIn, MockOut, MockOut, MockDelay>, color, color_idx, quick=no, three=yes,
    extra=|e, n, a, bp, spi, delay| None);
panel!(P1in54c, ew::epd1in54c::Epd1in54c<MockSpi, MockIn, MockOut, MockOut, MockDelay>, color, color_idx, quick=no, three=yes,
    extra=|e, n, a, bp, spi, delay| None);
panel!(P2in13v2, ew::epd2in13_v2::Epd2in13<MockSpi, MockIn, MockOut, MockOut, MockDelay>, color, color_idx, quick=no, three=no,
    extra=|e, n, a, bp, spi, delay| match n {
        "base" => {
            need(a, 1);
            let b = bp.get(&a[1]);
            Some(r(e.set_partial_base_buffer(spi, delay, b)))
        }
        "refresh" => {
            need(a, 1);
            Some(r(e.set_refresh(spi, delay, lut(&a[1]).unwrap_or_else(|| bad_arg("refresh", &a[1])))))
        }
        _ => None,
    });
panel!(P2in13bv4, ew::epd2in13b_v4::Epd2in13b<MockSpi, MockIn, MockOut, MockOut, MockDelay>, tricolor, tricolor_idx, quick=no, three=yes,
    extra=|e, n, a, bp, spi, delay| None);
panel!(P2in13bc, ew::epd2in13bc::Epd2in13bc<MockSpi, MockIn, MockOut, MockOut, MockDelay>, tricolor, tricolor_idx, quick=no, three=yes,
    extra=|e, n, a, bp, spi, delay| match n {
        "border" => {
            need(a, 1);
            Some(r(e.set_border_color(spi, tricolor(&a[1]))))
        }
        _ => None,
    });
panel!(P2in66b, ew::epd2in66b::Epd2in66b<MockSpi, MockIn, MockOut, MockOut, MockDelay>, tricolor, tricolor_idx, quick=no, three=yes,
    extra=|e, n, a, bp, spi, delay| None);
panel!(P2in7, ew::epd2in7::Epd2in7<MockSpi, MockIn, MockOut, MockOut, MockDelay>, color, color_idx, quick=no, three=no,
    extra=|e, n, a, bp, spi, delay| None);
panel!(P2in7v2, ew::epd2in7_v2::Epd2in7<MockSpi, MockIn, MockOut, MockOut, MockDelay>, color, color_idx, quick=no, three=no,
    extra=|e, n, a, bp, spi, delay| None);
panel!(P2in7b, ew::epd2in7b::Epd2in7b<MockSpi, MockIn, MockOut, MockOut, MockDelay>, color, color_idx, quick=no, three=yes,
    extra=|e, n, a, bp, spi, delay| match n {
        "dpart" => {
            need(a, 4);
            Some(r(e.display_partial_frame(spi, delay, num(&a[1]), num(&a[2]), num(&a[3]), num(&a[4]))))
        }
        "pachro" => {
            need(a, 5);
            let b = bp.get(&a[1]);
            Some(r(e.update_partial_achromatic_frame(spi, delay, b, num(&a[2]), num(&a[3]), num(&a[4]), num(&a[5]))))
        }
        "pchro" => {
            need(a, 5);
            let b = bp.get(&a[1]);
            Some(r(e.update_partial_chromatic_frame(spi, delay, b, num(&a[2]), num(&a[3]), num(&a[4]), num(&a[5]))))
        }
        _ => None,
    });
panel!(P2in9, ew::epd2in9::Epd2in9<MockSpi, MockIn, MockOut, MockOut, MockDelay>, color, color_idx, quick=no, three=no,
    extra=|e, n, a, bp, spi, delay| None);
panel!(P2in9v2, ew::epd2in9_v2::Epd2in9<MockSpi, MockIn, MockOut, MockOut, MockDelay>, color, color_idx, quick=yes, three=no,
    extra=|e, n, a, bp, spi, delay| None);
panel!(P2in9bv4, ew::epd2in9b_v4::Epd2in9b<MockSpi, MockIn, MockOut, MockOut, MockDelay>, tricolor, tricolor_idx, quick=no, three=yes,
    extra=|e, n, a, bp, spi, delay| match n {
        "basedisp" => {
            need(a, 2);
            let b = bp.get(&a[1]);
            let c = if a[2] == "-" { None } else { Some(bp.get(&a[2])) };
            Some(r(e.update_and_display_frame_base(spi, b, c, delay)))
        }
        "disppart" => Some(r(e.display_frame_partial(spi, delay))),
        _ => None,
    });
panel!(P2in9bc, ew::epd2in9bc::Epd2in9bc<MockSpi, MockIn, MockOut, MockOut, MockDelay>, color, color_idx, quick=no, three=yes,
    extra=|e, n, a, bp, spi, delay| match n {
        "border" => {
            need(a, 1);
            Some(r(e.set_border_color(spi, tricolor(&a[1]))))
        }
        _ => None,
    });
panel!(P2in9d, ew::epd2in9d::Epd2in9d<'static, MockSpi, MockIn, MockOut, MockOut, MockDelay>, color, color_idx, quick=no, three=no,
    extra=|e, n, a, bp, spi, delay| None);
panel!(P3in7, ew::epd3in7::EPD3in7<MockSpi, MockIn, MockOut, MockOut, MockDelay>, color, color_idx, quick=no, three=no,
    extra=|e, n, a, bp, spi, delay| None);
panel!(P4in2, ew::epd4in2::Epd4in2<MockSpi, MockIn, MockOut, MockOut, MockDelay>, color, color_idx, quick=yes, three=no,
    extra=|e, n, a, bp, spi, delay| None);
panel!(P5in65f, ew::epd5in65f::Epd5in65f<MockSpi, MockIn, MockOut, MockOut, MockDelay>, octcolor, octcolor_idx, quick=no, three=no,
    extra=|e, n, a, bp, spi, delay| None);
panel!(P5in83v2, ew::epd5in83_v2::Epd5in83<MockSpi, MockIn, MockOut, MockOut, MockDelay>, color, color_idx, quick=no, three=no,
    extra=|e, n, a, bp, spi, delay| None);
panel!(P5in83bv2, ew::epd5in83b_v2::Epd5in83<MockSpi, MockIn, MockOut, MockOut, MockDelay>, color, color_idx, quick=no, three=yes,
    extra=|e, n, a, bp, spi, delay| None);
panel!(P7in3f, ew::epd7in3f::Epd7in3f<MockSpi, MockIn, MockOut, MockOut, MockDelay>, octcolor, octcolor_idx, quick=no, three=no,
    extra=|e, n, a, bp, spi, delay| match n {
        "7block" => Some(r(e.show_7block(spi, delay))),
        _ => None,
    });
panel!(P7in5, ew::epd7in5::Epd7in5<MockSpi, MockIn, MockOut, MockOut, MockDelay>, color, color_idx, quick=no, three=no,
    extra=|e, n, a, bp, spi, delay| None);
panel!(P7in5hd, ew::epd7in5_hd::Epd7in5<MockSpi, MockIn, MockOut, MockOut, MockDelay>, color, color_idx, quick=no, three=no,
    extra=|e, n, a, bp, spi, delay| None);
panel!(P7in5v2, ew::epd7in5_v2::Epd7in5<MockSpi, MockIn, MockOut, MockOut, MockDelay>, color, color_idx, quick=no, three=no,
    extra=|e, n, a, bp, spi, delay| None);
panel!(P7in5bv2, ew::epd7in5b_v2::Epd7in5<MockSpi, MockIn, MockOut, MockOut, MockDelay>, tricolor, tricolor_idx, quick=no, three=yes,
    extra=|e, n, a, bp, spi, delay| match n {
        "part2" => {
            need(a, 5);
            let b = bp.get(&a[1]);
            Some(r(e.update_partial_frame2(spi, b, num(&a[2]), num(&a[3]), num(&a[4]), num(&a[5]), delay)))
        }
        _ => None,
    });

pub fn construct(
    panel: &str,
    sim: &Shared,
    spi: &mut MockSpi,
    delay: &mut MockDelay,
    delay_us: Option<u32>,
) -> Option<Result<Box<dyn Panel>, ()>> {
    let busy = MockIn(sim.clone(), 0);
    let dc = MockOut(sim.clone(), PinKind::Dc);
    let rst = MockOut(sim.clone(), PinKind::Rst);
    macro_rules! mk {
        ($wrap:ident, $ty:ty) => {
            Some(match <$ty>::new(spi, busy, dc, rst, delay, delay_us) {
                Ok(e) => Ok(Box::new($wrap(e)) as Box<dyn Panel>),
                Err(_) => Err(()),
            })
        };
    }
    match panel {
        "epd1in02" => mk!(P1in02, ew::epd1in02::Epd1in02<_, _, _, _, _>),
        "epd1in54" => mk!(P1in54, ew::epd1in54::Epd1in54<_, _, _, _, _>),
        "epd1in54_v2" => mk!(P1in54v2, ew::epd1in54_v2::Epd1in54<_, _, _, _, _>),
        "epd1in54b" => mk!(P1in54b, ew::epd1in54b::Epd1in54b<_, _, _, _, _>),
        "epd1in54c" => mk!(P1in54c, ew::epd1in54c::Epd1in54c<_, _, _, _, _>),
        "epd2in13_v2" => mk!(P2in13v2, ew::epd2in13_v2::Epd2in13<_, _, _, _, _>),
        "epd2in13b_v4" => mk!(P2in13bv4, ew::epd2in13b_v4::Epd2in13b<_, _, _, _, _>),
        "epd2in13bc" => mk!(P2in13bc, ew::epd2in13bc::Epd2in13bc<_, _, _, _, _>),
        "epd2in66b" => mk!(P2in66b, ew::epd2in66b::Epd2in66b<_, _, _, _, _>),
        "epd2in7" => mk!(P2in7, ew::epd2in7::Epd2in7<_, _, _, _, _>),
        "epd2in7_v2" => mk!(P2in7v2, ew::epd2in7_v2::Epd2in7<_, _, _, _, _>),
        "epd2in7b" => mk!(P2in7b, ew::epd2in7b::Epd2in7b<_, _, _, _, _>),
        "epd2in9" => mk!(P2in9, ew::epd2in9::Epd2in9<_, _, _, _, _>),
        "epd2in9_v2" => mk!(P2in9v2, ew::epd2in9_v2::Epd2in9<_, _, _, _, _>),
        "epd2in9b_v4" => mk!(P2in9bv4, ew::epd2in9b_v4::Epd2in9b<_, _, _, _, _>),
        "epd2in9bc" => mk!(P2in9bc, ew::epd2in9bc::Epd2in9bc<_, _, _, _, _>),
        "epd2in9d" => mk!(P2in9d, ew::epd2in9d::Epd2in9d<'static, _, _, _, _, _>),
        "epd3in7" => mk!(P3in7, ew::epd3in7::EPD3in7<_, _, _, _, _>),
        "epd4in2" => mk!(P4in2, ew::epd4in2::Epd4in2<_, _, _, _, _>),
        "epd5in65f" => mk!(P5in65f, ew::epd5in65f::Epd5in65f<_, _, _, _, _>),
        "epd5in83_v2" => mk!(P5in83v2, ew::epd5in83_v2::Epd5in83<_, _, _, _, _>),
        "epd5in83b_v2" => mk!(P5in83bv2, ew::epd5in83b_v2::Epd5in83<_, _, _, _, _>),
        "epd7in3f" => mk!(P7in3f, ew::epd7in3f::Epd7in3f<_, _, _, _, _>),
        "epd7in5" => mk!(P7in5, ew::epd7in5::Epd7in5<_, _, _, _, _>),
        "epd7in5_hd" => mk!(P7in5hd, ew::epd7in5_hd::Epd7in5<_, _, _, _, _>),
        "epd7in5_v2" => mk!(P7in5v2, ew::epd7in5_v2::Epd7in5<_, _, _, _, _>),
        "epd7in5b_v2" => mk!(P7in5bv2, ew::epd7in5b_v2::Epd7in5<_, _, _, _, _>),
        _ => None,
    }
}

#[allow(dead_code)]
fn _unused(_: M) {
    let _ = (octcolor("0"), tricolor("0"));
}
