//! the 12.48in driver (own SpiBus + four chip selects): same scenario/trace protocol, ops:
//! reset | init,<cfg> | mode,<cfg> | d1,<buf> | d2,<buf> | d1p,x,y,w,h,<buf> | d2p,… | refresh |
//! brefresh | refreshp,x,y,w,h | brefreshp,x,y,w,h | poweroff | hibernate | lut,<which>,<buf> |
//! status | busy.   <cfg> = four characters: inverted_kw inverted_r border(0..3) external_lut
use crate::scen::{make_buf, Scenario};
use crate::sim::*;
use epd_waveshare::epd12in48b_v2::{BorderLUT, Config, EpdDriver, Peripherals, Rect};
use std::panic::{catch_unwind, AssertUnwindSafe};

fn cfg(s: &str) -> Config {
    let c: Vec<char> = s.chars().collect();
    if c.len() != 4 {
        eprintln!("HARNESS-ERROR bad config `{}`", s);
        std::process::exit(3)
    }
    Config {
        inverted_kw: c[0] == '1',
        inverted_r: c[1] == '1',
        border_lut: match c[2] {
            '0' => BorderLUT::LUTBD,
            '1' => BorderLUT::LUTK,
            '2' => BorderLUT::LUTW,
            _ => BorderLUT::LUTR,
        },
        external_lut: c[3] == '1',
    }
}
fn num(s: &str) -> u32 {
    s.parse::<u32>().unwrap_or_else(|_| {
        eprintln!("HARNESS-ERROR bad number `{}`", s);
        std::process::exit(3)
    })
}

pub fn run(sc: &Scenario, sim: &Shared) {
    sim.borrow_mut().big = true;
    sim.borrow_mut().fifo = sc.fifo;
    sim.borrow_mut().slow = sc.slow;
    let mk_out = |k: PinKind| MockOut(sim.clone(), k);
    let peris = Peripherals {
        spi: MockBus(sim.clone()),
        m1_cs: mk_out(PinKind::Cs(0)),
        s1_cs: mk_out(PinKind::Cs(1)),
        m2_cs: mk_out(PinKind::Cs(2)),
        s2_cs: mk_out(PinKind::Cs(3)),
        m1s1_dc: mk_out(PinKind::Dc2(0)),
        m2s2_dc: mk_out(PinKind::Dc2(1)),
        m1s1_rst: mk_out(PinKind::Rst2(0)),
        m2s2_rst: mk_out(PinKind::Rst2(1)),
        m1_busy: MockIn(sim.clone(), 0),
        s1_busy: MockIn(sim.clone(), 1),
        m2_busy: MockIn(sim.clone(), 2),
        s2_busy: MockIn(sim.clone(), 3),
    };
    let mut drv = EpdDriver::new(peris, MockDelay(sim.clone()));
    for (i, a) in sc.ops.iter().enumerate() {
        sim.borrow_mut().polls = 0;
        let name = a[0].as_str();
        let res = catch_unwind(AssertUnwindSafe(|| -> Option<bool> {
            let win = |k: usize| Rect::new(num(&a[k]), num(&a[k + 1]), num(&a[k + 2]), num(&a[k + 3]));
            Some(match name {
                "reset" => drv.reset().is_ok(),
                "init" => drv.init(&cfg(&a[1])).is_ok(),
                "mode" => drv.set_mode(&cfg(&a[1])).is_ok(),
                "d1" => drv.write_data1(&make_buf(&a[1]).unwrap()).is_ok(),
                "d2" => drv.write_data2(&make_buf(&a[1]).unwrap()).is_ok(),
                "d1p" => drv.write_data1_partial(win(1), &make_buf(&a[5]).unwrap()).is_ok(),
                "d2p" => drv.write_data2_partial(win(1), &make_buf(&a[5]).unwrap()).is_ok(),
                "refresh" => drv.refresh_display().is_ok(),
                "brefresh" => drv.begin_refresh_display().is_ok(),
                "refreshp" => drv.refresh_display_partial(win(1)).is_ok(),
                "brefreshp" => drv.begin_refresh_display_partial(win(1)).is_ok(),
                "poweroff" => drv.power_off().is_ok(),
                "hibernate" => drv.hibernate().is_ok(),
                "lut" => {
                    let b = make_buf(&a[2]).unwrap();
                    match a[1].as_str() {
                        "c" => drv.set_lutc(&b).is_ok(),
                        "ww" => drv.set_lutww(&b).is_ok(),
                        "kw" => drv.set_lutkw_lutr(&b).is_ok(),
                        "wk" => drv.set_lutwk_lutw(&b).is_ok(),
                        "kk" => drv.set_lutkk_lutk(&b).is_ok(),
                        "bd" => drv.set_lutbd(&b).is_ok(),
                        _ => return None,
                    }
                }
                "status" => drv.get_status().is_ok(),
                "busy" => {
                    let _ = drv.is_busy();
                    true
                }
                _ => return None,
            })
        }));
        let mut s = sim.borrow_mut();
        s.drain();
        s.flush_group();
        // pin state the operation leaves behind: selected chips (mask of LOW chip selects), D/C bits
        let mut m = 0;
        for k in 0..4 {
            if !s.cs[k] {
                m |= 1 << k;
            }
        }
        let d = (s.dc2[0] as u8) | ((s.dc2[1] as u8) << 1);
        let (tag, stop) = match res {
            Ok(Some(true)) => ("ok", false),
            Ok(Some(false)) => ("err", false),
            Ok(None) => ("unsup", true),
            Err(_) => (if s.hung { "hang" } else { "panic" }, true),
        };
        s.out.push_str(&format!("E {} {} bg=c{:x}d{}\n", i, tag, m, d));
        if stop {
            break;
        }
    }
}
