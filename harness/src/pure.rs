//! pure-function scenarios (rect, colour, graphics) and the 12.48in driver — filled in later
use crate::scen::Scenario;
use crate::sim::Shared;

pub fn run(sc: &Scenario, sim: &Shared) {
    let mut s = sim.borrow_mut();
    for (i, _op) in sc.ops.iter().enumerate() {
        s.out.push_str(&format!("E {} unsup bg=-\n", i));
    }
}
pub fn run_big(sc: &Scenario, sim: &Shared) {
    run(sc, sim)
}
