//! pure-function scenarios: rect.rs, color.rs, graphics.rs, buffer_len — the REAL functions are
//! called and their results printed canonically (`X <op-index> <text>`).

use crate::scen::{prng_bytes, Scenario};
use crate::sim::Shared;
use embedded_graphics_core::pixelcolor::raw::{RawU1, RawU2, RawU4};
use embedded_graphics_core::pixelcolor::{BinaryColor, Rgb555, Rgb565, Rgb888};
use embedded_graphics_core::prelude::*;
use epd_waveshare::color::{Color, ColorType, OctColor, TriColor};
use epd_waveshare::graphics::{Display, DisplayRotation, VarDisplay};
use epd_waveshare::rect::Rect;
use std::fmt::Write as _;
use std::panic::{catch_unwind, AssertUnwindSafe};

fn mix(h: u64, v: u64) -> u64 {
    (h ^ v).wrapping_mul(0x100000001b3)
}
const H0: u64 = 0xcbf29ce484222325;

fn num(s: &str) -> u64 {
    s.parse::<u64>().unwrap_or_else(|_| {
        eprintln!("HARNESS-ERROR bad number `{}`", s);
        std::process::exit(3)
    })
}
fn inum(s: &str) -> i64 {
    s.parse::<i64>().unwrap_or_else(|_| {
        eprintln!("HARNESS-ERROR bad number `{}`", s);
        std::process::exit(3)
    })
}

fn rect_str(r: Result<Rect, ()>) -> String {
    match r {
        Ok(r) => format!("{}.{}.{}.{}", r.x, r.y, r.w, r.h),
        Err(()) => "panic".into(),
    }
}

fn cidx(c: Color) -> u8 {
    match c {
        Color::Black => 0,
        Color::White => 1,
    }
}
fn tidx(c: TriColor) -> u8 {
    match c {
        TriColor::Black => 0,
        TriColor::White => 1,
        TriColor::Chromatic => 2,
    }
}
fn oidx(c: OctColor) -> u8 {
    c.get_nibble()
}
const COLORS: [Color; 2] = [Color::Black, Color::White];
const TRIS: [TriColor; 3] = [TriColor::Black, TriColor::White, TriColor::Chromatic];
const OCTS: [OctColor; 8] = [
    OctColor::Black,
    OctColor::White,
    OctColor::Green,
    OctColor::Blue,
    OctColor::Red,
    OctColor::Yellow,
    OctColor::Orange,
    OctColor::HiZ,
];

fn color_domain(dom: &str, a: &[String]) -> String {
    let mut o = String::new();
    match dom {
        "bytes" => {
            for v in 0..=255u8 {
                match catch_unwind(|| Color::from(v)) {
                    Ok(c) => {
                        let _ = write!(o, "{}", cidx(c));
                    }
                    Err(_) => o.push('p'),
                }
                match OctColor::from_nibble(v) {
                    Ok(c) => {
                        let _ = write!(o, "{}", oidx(c));
                    }
                    Err(_) => o.push('e'),
                }
                match OctColor::split_byte(v) {
                    Ok((h, l)) => {
                        let _ = write!(o, "{}{}", oidx(h), oidx(l));
                    }
                    Err(_) => o.push_str("ee"),
                }
                o.push('.');
            }
        }
        "enc" => {
            for c in COLORS {
                let _ = write!(o, "C{}:{}:{:02x}:{};", cidx(c), c.get_bit_value(), c.get_byte_value(), cidx(c.inverse()));
            }
            for c in TRIS {
                let _ = write!(o, "T{}:{}:{:02x};", tidx(c), c.get_bit_value(), c.get_byte_value());
            }
            for c in OCTS {
                let (r, g, b) = c.rgb();
                let _ = write!(o, "O{}:{}:{}.{}.{};", oidx(c), c.get_nibble(), r, g, b);
            }
            for x in OCTS {
                for y in OCTS {
                    let _ = write!(o, "{:02x}", OctColor::colors_byte(x, y));
                }
            }
        }
        "mask" => {
            for bwr in [false, true] {
                for pos in 0..16u32 {
                    for c in COLORS {
                        let (m, b) = c.bitmask(bwr, pos);
                        let _ = write!(o, "{:02x}{:04x}", m, b);
                    }
                    for c in TRIS {
                        let (m, b) = c.bitmask(bwr, pos);
                        let _ = write!(o, "{:02x}{:04x}", m, b);
                    }
                    for c in OCTS {
                        let (m, b) = c.bitmask(bwr, pos);
                        let _ = write!(o, "{:02x}{:04x}", m, b);
                    }
                    o.push('.');
                }
            }
        }
        "raw" => {
            for v in 0..2u8 {
                let _ = write!(o, "{}", cidx(Color::from(RawU1::new(v))));
            }
            o.push(';');
            for c in COLORS {
                let r: RawU1 = c.into();
                let _ = write!(o, "{}", r.into_inner());
            }
            o.push(';');
            for v in 0..4u8 {
                let _ = write!(o, "{}", tidx(TriColor::from(RawU2::new(v))));
            }
            o.push(';');
            for v in 0..16u8 {
                match catch_unwind(|| OctColor::from(RawU4::new(v))) {
                    Ok(c) => {
                        let _ = write!(o, "{}", oidx(c));
                    }
                    Err(_) => o.push('p'),
                }
            }
            o.push(';');
            for b in [BinaryColor::Off, BinaryColor::On] {
                let _ = write!(o, "{}{}{}", cidx(Color::from(b)), tidx(TriColor::from(b)), oidx(OctColor::from(b)));
            }
            o.push(';');
            for c in COLORS {
                let a: Rgb888 = c.into();
                let b: Rgb565 = c.into();
                let d: Rgb555 = c.into();
                let _ = write!(o, "{}.{}.{},{}.{}.{},{}.{}.{};", a.r(), a.g(), a.b(), b.r(), b.g(), b.b(), d.r(), d.g(), d.b());
            }
            for c in TRIS {
                let a: Rgb888 = c.into();
                let _ = write!(o, "{}.{}.{};", a.r(), a.g(), a.b());
            }
            for c in OCTS {
                let a: Rgb888 = c.into();
                let _ = write!(o, "{}.{}.{};", a.r(), a.g(), a.b());
            }
        }
        "rgb565" => {
            let mut h = H0;
            let mut whites = 0u64;
            for r in 0..32u8 {
                for g in 0..64u8 {
                    for b in 0..32u8 {
                        let c = cidx(Color::from(Rgb565::new(r, g, b)));
                        h = mix(h, c as u64);
                        whites += c as u64;
                    }
                }
            }
            let _ = write!(o, "H={:016x} W={}", h, whites);
        }
        "rgb555" => {
            let mut h = H0;
            let mut whites = 0u64;
            for r in 0..32u8 {
                for g in 0..32u8 {
                    for b in 0..32u8 {
                        let c = cidx(Color::from(Rgb555::new(r, g, b)));
                        h = mix(h, c as u64);
                        whites += c as u64;
                    }
                }
            }
            let _ = write!(o, "H={:016x} W={}", h, whites);
        }
        "rgb888" => {
            // values offset, offset+stride, … below 2^24
            let stride = num(&a[2]);
            let mut v = num(&a[3]);
            let (mut hc, mut ht, mut ho) = (H0, H0, H0);
            let mut n = 0u64;
            while v < (1 << 24) {
                let (r, g, b) = ((v >> 16) as u8, (v >> 8) as u8, v as u8);
                let p = Rgb888::new(r, g, b);
                hc = mix(hc, cidx(Color::from(p)) as u64);
                ht = mix(ht, tidx(TriColor::from(p)) as u64);
                ho = mix(ho, oidx(OctColor::from(p)) as u64);
                n += 1;
                v += stride;
            }
            let _ = write!(o, "N={} C={:016x} T={:016x} O={:016x}", n, hc, ht, ho);
        }
        "rgbscan" => {
            // SEARCH AID, not an oracle: values (offset, offset+stride, …) whose OctColor is not at
            // minimal squared distance among the crate's own palette, or whose Color / TriColor do
            // not agree with each other on black-vs-not; the candidates are then judged one by one
            // by the model's oracle through `rgbone`
            let stride = num(&a[2]);
            let mut v = num(&a[3]);
            let pal: Vec<(i32, i32, i32)> = OCTS.iter().map(|c| { let (r, g, b) = c.rgb(); (r as i32, g as i32, b as i32) }).collect();
            let mut found = 0;
            while v < (1 << 24) && found < 48 {
                let (r, g, b) = ((v >> 16) as u8, (v >> 8) as u8, v as u8);
                let p = Rgb888::new(r, g, b);
                let oc = OctColor::from(p);
                let d = |q: (i32, i32, i32)| (q.0 - r as i32).pow(2) + (q.1 - g as i32).pow(2) + (q.2 - b as i32).pow(2);
                let (cr, cg, cb) = oc.rgb();
                let mine = d((cr as i32, cg as i32, cb as i32));
                let best = pal.iter().map(|q| d(*q)).min().unwrap();
                if mine > best {
                    let _ = write!(o, "{}{}.{}.{}", if found == 0 { "CAND=" } else { ";" }, r, g, b);
                    found += 1;
                }
                v += stride;
            }
            if found == 0 {
                o.push_str("CAND=-");
            }
        }
        "rgbone" => {
            // single value, all conversions: depth r g b
            let (r, g, b) = (num(&a[3]) as u8, num(&a[4]) as u8, num(&a[5]) as u8);
            match a[2].as_str() {
                "888" => {
                    let p = Rgb888::new(r, g, b);
                    let _ = write!(o, "C={} T={} O={}", cidx(Color::from(p)), tidx(TriColor::from(p)), oidx(OctColor::from(p)));
                }
                "565" => {
                    let _ = write!(o, "C={}", cidx(Color::from(Rgb565::new(r, g, b))));
                }
                "555" => {
                    let _ = write!(o, "C={}", cidx(Color::from(Rgb555::new(r, g, b))));
                }
                _ => o.push_str("bad-depth"),
            }
        }
        _ => o.push_str("bad-domain"),
    }
    o
}

fn rot(s: &str) -> DisplayRotation {
    match s {
        "0" => DisplayRotation::Rotate0,
        "90" => DisplayRotation::Rotate90,
        "180" => DisplayRotation::Rotate180,
        "270" => DisplayRotation::Rotate270,
        _ => {
            eprintln!("HARNESS-ERROR bad rotation `{}`", s);
            std::process::exit(3)
        }
    }
}

/// the points a `setpx` batch draws, in order: mode `grid` = [-3, W+3] x [-3, H+3] of the
/// rotated size; mode `ext` = coordinate extremes
fn points(mode: &str, sw: i64, sh: i64) -> Vec<(i32, i32)> {
    let mut v = vec![];
    match mode {
        "grid" => {
            for y in -3..=(sh + 3) {
                for x in -3..=(sw + 3) {
                    v.push((x as i32, y as i32));
                }
            }
        }
        "ext" => {
            let xs = [i32::MIN, i32::MIN + 1, -1, 0, sw as i32 - 1, sw as i32, i32::MAX - 1, i32::MAX];
            let ys = [i32::MIN, i32::MIN + 1, -1, 0, sh as i32 - 1, sh as i32, i32::MAX - 1, i32::MAX];
            for y in ys {
                for x in xs {
                    v.push((x, y));
                }
            }
        }
        _ => {
            eprintln!("HARNESS-ERROR bad setpx mode `{}`", mode);
            std::process::exit(3)
        }
    }
    v
}

/// after each draw compare the whole exposed buffer with the copy taken before it
fn track(h: &mut u64, changed: &mut u64, before: &mut Vec<u8>, now: &[u8], p: (i32, i32)) {
    *h = mix(*h, p.0 as u32 as u64);
    *h = mix(*h, p.1 as u32 as u64);
    // chunked comparison (slice equality is a memcmp): only chunks that differ are scanned
    const CH: usize = 2048;
    let n = now.len();
    let mut off = 0;
    while off < n {
        let end = (off + CH).min(n);
        if before[off..end] != now[off..end] {
            for i in off..end {
                if before[i] != now[i] {
                    *h = mix(*h, i as u64);
                    *h = mix(*h, now[i] as u64);
                    *changed += 1;
                    before[i] = now[i];
                }
            }
        }
        off = end;
    }
}

macro_rules! alias_list {
    ($m:ident) => {
        $m!("epd1in02", epd_waveshare::epd1in02::Display1in02, Color, bw);
        $m!("epd1in54", epd_waveshare::epd1in54::Display1in54, Color, bw);
        $m!("epd1in54_v2", epd_waveshare::epd1in54_v2::Display1in54, Color, bw);
        $m!("epd1in54b", epd_waveshare::epd1in54b::Display1in54b, Color, bw);
        $m!("epd1in54c", epd_waveshare::epd1in54c::Display1in54c, Color, bw);
        $m!("epd2in13_v2", epd_waveshare::epd2in13_v2::Display2in13, Color, bw);
        $m!("epd2in13b_v4", epd_waveshare::epd2in13b_v4::Display2in13b, TriColor, tri);
        $m!("epd2in13bc", epd_waveshare::epd2in13bc::Display2in13bc, TriColor, tri);
        $m!("epd2in66b", epd_waveshare::epd2in66b::Display2in66b, TriColor, tri);
        $m!("epd2in7", epd_waveshare::epd2in7::Display2in7, Color, bw);
        $m!("epd2in7_v2", epd_waveshare::epd2in7_v2::Display2in7, Color, bw);
        $m!("epd2in7b", epd_waveshare::epd2in7b::Display2in7b, Color, bw);
        $m!("epd2in9", epd_waveshare::epd2in9::Display2in9, Color, bw);
        $m!("epd2in9_v2", epd_waveshare::epd2in9_v2::Display2in9, Color, bw);
        $m!("epd2in9b_v4", epd_waveshare::epd2in9b_v4::Display2in9b, TriColor, tri);
        $m!("epd2in9bc", epd_waveshare::epd2in9bc::Display2in9bc, Color, bw);
        $m!("epd2in9d", epd_waveshare::epd2in9d::Display2in9d, Color, bw);
        $m!("epd3in7", epd_waveshare::epd3in7::Display3in7, Color, bw);
        $m!("epd4in2", epd_waveshare::epd4in2::Display4in2, Color, bw);
        $m!("epd5in65f", epd_waveshare::epd5in65f::Display5in65f, OctColor, oct);
        $m!("epd5in83_v2", epd_waveshare::epd5in83_v2::Display5in83, Color, bw);
        $m!("epd5in83b_v2", epd_waveshare::epd5in83b_v2::Display5in83, TriColor, tri);
        $m!("epd7in3f", epd_waveshare::epd7in3f::Display7in3f, OctColor, oct);
        $m!("epd7in5", epd_waveshare::epd7in5::Display7in5, Color, bw);
        $m!("epd7in5_hd", epd_waveshare::epd7in5_hd::Display7in5, Color, bw);
        $m!("epd7in5_v2", epd_waveshare::epd7in5_v2::Display7in5, Color, bw);
        $m!("epd7in5b_v2", epd_waveshare::epd7in5b_v2::Display7in5, TriColor, tri);
    };
}

trait ColIdx: Sized + Copy {
    fn of(i: u64) -> Self;
}
impl ColIdx for Color {
    fn of(i: u64) -> Self {
        COLORS[i as usize % 2]
    }
}
impl ColIdx for TriColor {
    fn of(i: u64) -> Self {
        TRIS[i as usize % 3]
    }
}
impl ColIdx for OctColor {
    fn of(i: u64) -> Self {
        OCTS[i as usize % 8]
    }
}

fn load<const W: u32, const H: u32, const B: bool, const N: usize, C: ColorType + PixelColor>(
    d: &mut Display<W, H, B, N, C>,
    bytes: &[u8],
) {
    // the buffer is private: fill it through the exposed slice pointer (same allocation, the
    // Display is exclusively borrowed here)
    let p = d.buffer().as_ptr() as *mut u8;
    for (i, b) in bytes.iter().enumerate() {
        unsafe { *p.add(i) = *b };
    }
}

fn alias_table() -> String {
    let mut o = String::new();
    macro_rules! row {
        ($name:expr, $ty:ty, $col:ty, bw) => {{
            let d = Box::new(<$ty>::default());
            let s = d.size();
            let zero = d.buffer().iter().all(|b| *b == 0);
            let _ = write!(o, "{}:{}:{}:{}:{}:bw:-:-:-;", $name, s.width, s.height, d.buffer().len(), zero as u8);
        }};
        ($name:expr, $ty:ty, $col:ty, oct) => {{
            let d = Box::new(<$ty>::default());
            let s = d.size();
            let zero = d.buffer().iter().all(|b| *b == 0);
            let _ = write!(o, "{}:{}:{}:{}:{}:oct:-:-:-;", $name, s.width, s.height, d.buffer().len(), zero as u8);
        }};
        ($name:expr, $ty:ty, $col:ty, tri) => {{
            let mut d = Box::new(<$ty>::default());
            let s = d.size();
            let zero = d.buffer().iter().all(|b| *b == 0);
            let (l1, l2) = (d.bw_buffer().len(), d.chromatic_buffer().len());
            // halves in that order: bw_buffer is the first half of buffer()
            let order = d.bw_buffer().as_ptr() == d.buffer().as_ptr()
                && d.chromatic_buffer().as_ptr() == unsafe { d.buffer().as_ptr().add(l1) };
            d.set_pixel(Pixel(Point::new(0, 0), TriColor::Chromatic));
            let bwr = d.bw_buffer()[0] & 0x80 == 0;
            let _ = write!(o, "{}:{}:{}:{}:{}:tri:{}:{}:{}:{};", $name, s.width, s.height, d.buffer().len(), zero as u8, bwr as u8, l1, l2, order as u8);
        }};
    }
    alias_list!(row);
    o
}

fn setpx_alias(name: &str, rotation: &str, col: u64, seed: u64, mode: &str) -> Option<String> {
    let mut out: Option<String> = None;
    macro_rules! go {
        ($n:expr, $ty:ty, $col:ty, $k:ident) => {
            if name == $n && out.is_none() {
                let mut d = Box::new(<$ty>::default());
                let len = d.buffer().len();
                load(&mut *d, &prng_bytes(seed, len));
                d.set_rotation(rot(rotation));
                let s = d.size();
                let pts = points(mode, s.width as i64, s.height as i64);
                let mut before = d.buffer().to_vec();
                let (mut h, mut changed, mut n) = (H0, 0u64, 0u64);
                let mut pan = "none".to_string();
                let mut npan = 0u64;
                let c = <$col as ColIdx>::of(col);
                for p in pts {
                    let r = catch_unwind(AssertUnwindSafe(|| {
                        if seed % 2 == 1 {
                            let _ = d.draw_iter([Pixel(Point::new(p.0, p.1), c)]);
                        } else {
                            d.set_pixel(Pixel(Point::new(p.0, p.1), c));
                        }
                    }));
                    if r.is_err() {
                        if npan == 0 {
                            pan = format!("{}.{}", p.0, p.1);
                        }
                        npan += 1;
                        h = mix(h, 0x70616e6963);
                    }
                    track(&mut h, &mut changed, &mut before, d.buffer(), p);
                    n += 1;
                }
                out = Some(format!("H={:016x} N={} C={} P={} NP={} S={}.{}", h, n, changed, pan, npan, s.width, s.height));
            }
        };
    }
    alias_list!(go);
    out
}

fn setpx_var<C: ColorType + PixelColor + ColIdx>(w: u32, h: u32, bwr: bool, rotation: &str, col: u64, seed: u64, mode: &str, extra: usize) -> String {
    // the slice handed to VarDisplay::new may be longer than needed; bytes beyond buffer() must stay untouched
    let probe_len = {
        let mut tmp = vec![0u8; 1 << 16];
        match VarDisplay::<C>::new(w, h, &mut tmp, bwr) {
            Ok(d) => d.buffer().len(),
            Err(_) => return "R=err".into(),
        }
    };
    let mut store = prng_bytes(seed, probe_len + extra);
    let tail_before = store[probe_len..].to_vec();
    let res = {
        let mut d = match VarDisplay::<C>::new(w, h, &mut store, bwr) {
            Ok(d) => d,
            Err(_) => return "R=err".into(),
        };
        d.set_rotation(rot(rotation));
        let s = d.size();
        let pts = points(mode, s.width as i64, s.height as i64);
        let mut before = d.buffer().to_vec();
        let (mut hh, mut changed, mut n) = (H0, 0u64, 0u64);
        let mut pan = "none".to_string();
        let mut npan = 0u64;
        let c = C::of(col);
        for p in pts {
            let r = catch_unwind(AssertUnwindSafe(|| {
                d.set_pixel(Pixel(Point::new(p.0, p.1), c));
            }));
            if r.is_err() {
                if npan == 0 {
                    pan = format!("{}.{}", p.0, p.1);
                }
                npan += 1;
                hh = mix(hh, 0x70616e6963);
            }
            track(&mut hh, &mut changed, &mut before, d.buffer(), p);
            n += 1;
        }
        format!("H={:016x} N={} C={} P={} NP={} S={}.{}", hh, n, changed, pan, npan, s.width, s.height)
    };
    let tail_ok = store[probe_len..] == tail_before[..];
    format!("{} L={} TAIL={}", res, probe_len, tail_ok as u8)
}

fn vardisp_one<C: ColorType + PixelColor>(w: u32, h: u32, len: usize, bwr: bool, tri: bool) -> String {
    let mut store = vec![0u8; len];
    match VarDisplay::<C>::new(w, h, &mut store, bwr) {
        Err(_) => "R=err".into(),
        Ok(d) => {
            let _ = tri;
            format!("R=ok L={}", d.buffer().len())
        }
    }
}

/// VarDisplay::new over a grid of geometries and supplied lengths; every pixel of every accepted
/// buffer is drawn (rotation 0) to see whether drawing panics
fn vargrid(maxw: u32, maxh: u32) -> String {
    let (mut hsh, mut accepted, mut panics) = (H0, 0u64, 0u64);
    let mut first = "none".to_string();
    fn one<C: ColorType + PixelColor + ColIdx>(w: u32, h: u32, kind: u64, hsh: &mut u64, accepted: &mut u64, panics: &mut u64, first: &mut String) {
        let req = {
            let mut tmp = vec![0u8; 1 << 16];
            VarDisplay::<C>::new(w, h, &mut tmp, false).map(|d| d.buffer().len()).unwrap_or(usize::MAX)
        };
        let lens = [req.saturating_sub(1), req, req + 1, 0];
        for (li, len) in lens.iter().enumerate() {
            if li == 0 && req == 0 {
                *hsh = mix(*hsh, 7);
                continue;
            }
            let mut store = vec![0u8; *len];
            match VarDisplay::<C>::new(w, h, &mut store, false) {
                Err(_) => *hsh = mix(*hsh, 0),
                Ok(mut d) => {
                    *accepted += 1;
                    *hsh = mix(*hsh, 1 + d.buffer().len() as u64);
                    let mut bad = false;
                    'outer: for y in 0..h {
                        for x in 0..w {
                            let r = catch_unwind(AssertUnwindSafe(|| {
                                d.set_pixel(Pixel(Point::new(x as i32, y as i32), C::of(1)));
                            }));
                            if r.is_err() {
                                bad = true;
                                if *first == "none" {
                                    *first = format!("{}.{}.{}.{}.{}.{}", kind, w, h, len, x, y);
                                }
                                break 'outer;
                            }
                        }
                    }
                    if bad {
                        *panics += 1;
                        *hsh = mix(*hsh, 99);
                    }
                }
            }
        }
    }
    for w in 0..=maxw {
        for h in 0..=maxh {
            one::<Color>(w, h, 0, &mut hsh, &mut accepted, &mut panics, &mut first);
            one::<TriColor>(w, h, 1, &mut hsh, &mut accepted, &mut panics, &mut first);
            one::<OctColor>(w, h, 2, &mut hsh, &mut accepted, &mut panics, &mut first);
        }
    }
    format!("H={:016x} A={} PANICS={} FIRST={}", hsh, accepted, panics, first)
}

pub fn run(sc: &Scenario, sim: &Shared) {
    for (i, a) in sc.ops.iter().enumerate() {
        // a panic anywhere inside an operation is a result ("R=panic"), never the end of the run
        let text: String = catch_unwind(AssertUnwindSafe(|| -> String { match a[0].as_str() {
            "rect" => {
                let v: Vec<u32> = a[1..].iter().map(|s| num(s) as u32).collect();
                let ra = Rect::new(v[0], v[1], v[2], v[3]);
                let rb = Rect::new(v[4], v[5], v[6], v[7]);
                let i1 = catch_unwind(|| ra.intersect(rb)).map_err(|_| ());
                let i2 = catch_unwind(|| rb.intersect(ra)).map_err(|_| ());
                let s = catch_unwind(|| ra.sub_offset(v[8], v[9])).map_err(|_| ());
                let e = match &i1 {
                    Ok(r) => (r.is_empty() as u8).to_string(),
                    Err(_) => "-".into(),
                };
                format!("I={} J={} S={} E={} EA={}", rect_str(i1), rect_str(i2), rect_str(s), e, ra.is_empty() as u8)
            }
            "rectgrid" => {
                let n = num(&a[1]) as u32;
                let mut h = H0;
                let mut cnt = 0u64;
                for ax in 0..=n {
                    for ay in 0..=n {
                        for aw in 0..=n {
                            for ah in 0..=n {
                                let ra = Rect::new(ax, ay, aw, ah);
                                for bx in 0..=n {
                                    for by in 0..=n {
                                        for bw in 0..=n {
                                            for bh in 0..=n {
                                                let r = ra.intersect(Rect::new(bx, by, bw, bh));
                                                h = mix(h, r.x as u64);
                                                h = mix(h, r.y as u64);
                                                h = mix(h, r.w as u64);
                                                h = mix(h, r.h as u64);
                                                h = mix(h, r.is_empty() as u64);
                                                cnt += 1;
                                            }
                                        }
                                    }
                                }
                            }
                        }
                    }
                }
                format!("H={:016x} N={}", h, cnt)
            }
            "color" => color_domain(&a[1], a),
            "alias" => alias_table(),
            "setpx" => {
                // setpx,<alias|var:w:h:kind:bwr:extra>,<rot>,<colour>,<seed>,<mode>
                let target = &a[1];
                if let Some(rest) = target.strip_prefix("var:") {
                    let p: Vec<&str> = rest.split(':').collect();
                    let (w, h) = (num(p[0]) as u32, num(p[1]) as u32);
                    let bwr = p[3] == "1";
                    let extra = num(p[4]) as usize;
                    match p[2] {
                        "bw" => setpx_var::<Color>(w, h, bwr, &a[2], num(&a[3]), num(&a[4]), &a[5], extra),
                        "tri" => setpx_var::<TriColor>(w, h, bwr, &a[2], num(&a[3]), num(&a[4]), &a[5], extra),
                        "oct" => setpx_var::<OctColor>(w, h, bwr, &a[2], num(&a[3]), num(&a[4]), &a[5], extra),
                        _ => "bad-kind".into(),
                    }
                } else {
                    setpx_alias(target, &a[2], num(&a[3]), num(&a[4]), &a[5]).unwrap_or_else(|| "bad-alias".into())
                }
            }
            "setone" => {
                // setone,<w>,<h>,<kind>,<bwr>,<rot>,<colour>,<px>,<py>,<buf>: one draw on a VarDisplay, full result
                let (w, h) = (num(&a[1]) as u32, num(&a[2]) as u32);
                let bwr = a[4] == "1";
                let (px, py) = (inum(&a[7]) as i32, inum(&a[8]) as i32);
                let mut store = crate::scen::make_buf(&a[9]).unwrap();
                fn go<C: ColorType + PixelColor + ColIdx>(w: u32, h: u32, bwr: bool, r: &str, col: u64, px: i32, py: i32, store: &mut Vec<u8>) -> String {
                    let res = {
                        let mut d = match VarDisplay::<C>::new(w, h, store, bwr) {
                            Ok(d) => d,
                            Err(_) => return "R=err".into(),
                        };
                        d.set_rotation(rot(r));
                        catch_unwind(AssertUnwindSafe(|| d.set_pixel(Pixel(Point::new(px, py), C::of(col))))).is_ok()
                    };
                    if res {
                        format!("R=ok B={}", store.iter().map(|b| format!("{:02x}", b)).collect::<String>())
                    } else {
                        "R=panic".into()
                    }
                }
                match a[3].as_str() {
                    "bw" => go::<Color>(w, h, bwr, &a[5], num(&a[6]), px, py, &mut store),
                    "tri" => go::<TriColor>(w, h, bwr, &a[5], num(&a[6]), px, py, &mut store),
                    "oct" => go::<OctColor>(w, h, bwr, &a[5], num(&a[6]), px, py, &mut store),
                    _ => "bad-kind".into(),
                }
            }
            "vardisp" => {
                let (w, h, len) = (num(&a[1]) as u32, num(&a[2]) as u32, num(&a[4]) as usize);
                match a[3].as_str() {
                    "bw" => vardisp_one::<Color>(w, h, len, false, false),
                    "tri" => {
                        let mut store = vec![0u8; len];
                        match VarDisplay::<TriColor>::new(w, h, &mut store, false) {
                            Err(_) => "R=err".into(),
                            Ok(d) => format!("R=ok L={} BW={} CH={}", d.buffer().len(), d.bw_buffer().len(), d.chromatic_buffer().len()),
                        }
                    }
                    "oct" => vardisp_one::<OctColor>(w, h, len, false, false),
                    _ => "bad-kind".into(),
                }
            }
            "vargrid" => vargrid(num(&a[1]) as u32, num(&a[2]) as u32),
            "buflen" => {
                let (mw, mh) = (num(&a[1]) as usize, num(&a[2]) as usize);
                let mut h = H0;
                for w in 0..=mw {
                    for hh in 0..=mh {
                        h = mix(h, epd_waveshare::buffer_len(w, hh) as u64);
                    }
                }
                format!("H={:016x}", h)
            }
            _ => "unsup".into(),
        } })).unwrap_or_else(|_| "R=panic".into());
        let mut s = sim.borrow_mut();
        s.out.push_str(&format!("X {} {}\n", i, text));
    }
}

