//! epdharness: runs the REAL epd-waveshare code on scenario lines (stdin) under a recording
//! mock HAL and prints canonical traces (stdout).  See /verif/notes/protocol_and_tables.md.

mod big;
mod panels;
mod pure;
mod scen;
mod sim;

use panels::*;
use sim::*;
use std::cell::RefCell;
use std::io::{BufRead, Write};
use std::panic::{catch_unwind, AssertUnwindSafe};
use std::rc::Rc;

fn feature_tag() -> &'static str {
    if cfg!(feature = "v2") {
        "v2"
    } else if cfg!(feature = "alt") {
        "alt"
    } else {
        "v3"
    }
}

fn run_scenario(sc: &scen::Scenario, out: &mut dyn Write) {
    let sim: Shared = Rc::new(RefCell::new(Sim::new()));
    {
        let mut s = sim.borrow_mut();
        s.sched = sc.sched.iter().copied().collect();
        s.raise = sc.raise.clone();
        s.busylvl = sc.busylvl;
        s.fault = sc.fault;
        s.out.push_str(&format!("S {}\n", sc.id));
    }
    if sc.panel == "pure" {
        pure::run(sc, &sim);
    } else if sc.panel == "epd12in48b_v2" {
        big::run(sc, &sim);
    } else {
        let mut spi = MockSpi(sim.clone());
        let mut delay = MockDelay(sim.clone());
        let mut bp = BufPool::new();
        let mut drv: Option<Box<dyn Panel>> = None;
        for (i, op) in sc.ops.iter().enumerate() {
            sim.borrow_mut().polls = 0;
            let name = op[0].as_str();
            let res: Result<OpOut, ()> = catch_unwind(AssertUnwindSafe(|| {
                if name == "new" {
                    match construct(&sc.panel, &sim, &mut spi, &mut delay, sc.delay) {
                        None => {
                            eprintln!("HARNESS-ERROR unknown panel `{}`", sc.panel);
                            std::process::exit(3)
                        }
                        Some(Ok(d)) => {
                            drv = Some(d);
                            OpOut::Ok
                        }
                        Some(Err(())) => OpOut::Err,
                    }
                } else {
                    match drv.as_mut() {
                        None => OpOut::Unsup,
                        Some(d) => d.op(name, op, &mut bp, &mut spi, &mut delay),
                    }
                }
            }))
            .map_err(|_| ());
            let mut s = sim.borrow_mut();
            s.flush_group();
            let bg = drv.as_ref().map(|d| d.bg().to_string()).unwrap_or_else(|| "-".into());
            let (tag, stop) = match res {
                Ok(OpOut::Ok) => ("ok", false),
                Ok(OpOut::Err) => ("err", false),
                Ok(OpOut::Unsup) => ("unsup", true),
                Err(()) => {
                    if s.hung {
                        ("hang", true)
                    } else {
                        ("panic", true)
                    }
                }
            };
            s.out.push_str(&format!("E {} {} bg={}\n", i, tag, bg));
            drop(s);
            if sc.scribble {
                bp.scribble_used();
            } else {
                bp.op_done();
            }
            if stop || (name == "new" && drv.is_none()) {
                break;
            }
        }
        drop(drv);
        bp.free();
    }
    let mut s = sim.borrow_mut();
    s.flush_group();
    s.out.push_str("T\n");
    let _ = out.write_all(s.out.as_bytes());
}

fn main() {
    // silence the default panic message: panics of the code under test are results
    std::panic::set_hook(Box::new(|_| {}));
    let args: Vec<String> = std::env::args().collect();
    if args.len() > 1 && args[1] == "--selftest" {
        println!("feat {}", feature_tag());
        println!("fnv {:016x}", scen::fnv1a(b"epd-waveshare"));
        println!("prng {}", scen::prng_bytes(42, 8).iter().map(|b| format!("{:02x}", b)).collect::<String>());
        println!("pos {}", (0..8).map(|i| format!("{:02x}", scen::pos_byte(i * 100))).collect::<String>());
        return;
    }
    let stdin = std::io::stdin();
    let stdout = std::io::stdout();
    let mut out = std::io::BufWriter::with_capacity(1 << 20, stdout.lock());
    for line in stdin.lock().lines() {
        let line = line.unwrap();
        let line = line.trim();
        if line.is_empty() || line.starts_with('#') {
            continue;
        }
        match scen::parse_line(line) {
            Ok(sc) => run_scenario(&sc, &mut out),
            Err(e) => {
                eprintln!("HARNESS-ERROR {}: {}", e, line);
                std::process::exit(3);
            }
        }
    }
    let _ = out.flush();
}
