//! Scenario lines: `key=value` pairs, last key is `ops=`; buffers are described, not shipped.

use std::collections::HashMap;

#[derive(Debug, Clone)]
pub struct Scenario {
    pub id: String,
    pub panel: String,
    pub delay: Option<u32>,
    pub sched: Vec<u32>,
    pub raise: Vec<u8>,
    pub busylvl: bool,
    pub fault: Option<u64>,
    pub scribble: bool,
    /// `bus=fifo`: the SpiBus returns from `write` before the bytes are on the wire (embedded-hal 1.0
    /// allows it); they reach the chips at the next `flush`, with the pin levels of that moment
    pub fifo: bool,
    /// `slow=<k>`: only controller k (0 = M1, 1 = S1, 2 = M2, 3 = S2) stays busy; the other BUSY pins read idle
    pub slow: Option<usize>,
    pub ops: Vec<Vec<String>>,
    pub raw: String,
}

pub fn parse_line(line: &str) -> Result<Scenario, String> {
    let mut kv: HashMap<&str, &str> = HashMap::new();
    for tok in line.split_whitespace() {
        let (k, v) = tok.split_once('=').ok_or_else(|| format!("bad token `{}`", tok))?;
        kv.insert(k, v);
    }
    let get = |k: &str| kv.get(k).copied().ok_or_else(|| format!("missing key `{}`", k));
    let list = |s: &str| -> Vec<String> {
        if s == "-" {
            vec![]
        } else {
            s.split(',').map(|x| x.to_string()).collect()
        }
    };
    let delay = match get("delay")? {
        "none" => None,
        v => Some(v.parse::<u32>().map_err(|e| format!("delay: {}", e))?),
    };
    let mut sched = vec![];
    for d in list(get("sched")?) {
        sched.push(d.parse::<u32>().map_err(|e| format!("sched: {}", e))?);
    }
    let mut raise = vec![];
    for d in list(get("raise")?) {
        raise.push(u8::from_str_radix(&d, 16).map_err(|e| format!("raise: {}", e))?);
    }
    let busylvl = get("busylvl")? == "1";
    let fault = match get("fault")? {
        "-" => None,
        v => Some(v.parse::<u64>().map_err(|e| format!("fault: {}", e))?),
    };
    let scribble = get("scribble")? == "1";
    let ops = get("ops")?
        .split(';')
        .filter(|s| !s.is_empty())
        .map(|o| o.split(',').map(|x| x.to_string()).collect::<Vec<_>>())
        .collect();
    Ok(Scenario {
        id: get("id")?.to_string(),
        panel: get("panel")?.to_string(),
        delay,
        sched,
        raise,
        busylvl,
        fault,
        scribble,
        fifo: kv.get("bus").copied() == Some("fifo"),
        slow: kv.get("slow").and_then(|v| v.parse::<usize>().ok()),
        ops,
        raw: line.to_string(),
    })
}

pub fn xorshift(mut s: u64) -> u64 {
    s ^= s >> 12;
    s ^= s << 25;
    s ^= s >> 27;
    s
}

pub fn prng_bytes(seed: u64, n: usize) -> Vec<u8> {
    let mut s = if seed == 0 { 0x9E3779B97F4A7C15 } else { seed };
    let mut v = Vec::with_capacity(n);
    for _ in 0..n {
        s = xorshift(s);
        v.push((s.wrapping_mul(0x2545F4914F6CDD1D) >> 56) as u8);
    }
    v
}

pub fn pos_byte(i: usize) -> u8 {
    ((i * 167 + i / 251 + 13) % 256) as u8
}

pub fn fnv1a(bs: &[u8]) -> u64 {
    let mut h: u64 = 0xcbf29ce484222325;
    for b in bs {
        h = (h ^ (*b as u64)).wrapping_mul(0x100000001b3);
    }
    h
}

/// buffer descriptor: z:<len> | c:<hex>:<len> | pos:<len> | r:<seed>:<len> | bit:<i>:<len> | h:<hex>
pub fn make_buf(desc: &str) -> Result<Vec<u8>, String> {
    let p: Vec<&str> = desc.split(':').collect();
    let num = |s: &str| s.parse::<usize>().map_err(|e| format!("buffer `{}`: {}", desc, e));
    match p.as_slice() {
        ["z", n] => Ok(vec![0u8; num(n)?]),
        ["c", v, n] => Ok(vec![u8::from_str_radix(v, 16).map_err(|e| e.to_string())?; num(n)?]),
        ["pos", n] => Ok((0..num(n)?).map(pos_byte).collect()),
        ["r", seed, n] => Ok(prng_bytes(seed.parse::<u64>().map_err(|e| e.to_string())?, num(n)?)),
        ["bit", i, n] => {
            let mut v = vec![0u8; num(n)?];
            let i = num(i)?;
            if i / 8 < v.len() {
                v[i / 8] = 0x80 >> (i % 8);
            }
            Ok(v)
        }
        ["h", hex] => {
            if *hex == "-" {
                return Ok(vec![]);
            }
            if hex.len() % 2 != 0 {
                return Err(format!("buffer `{}`: odd hex", desc));
            }
            (0..hex.len() / 2)
                .map(|i| u8::from_str_radix(&hex[2 * i..2 * i + 2], 16).map_err(|e| e.to_string()))
                .collect()
        }
        _ => Err(format!("unknown buffer descriptor `{}`", desc)),
    }
}
