#!/usr/bin/env python3
"""Generates lean/EpdVerif/Props/C02Composed.lean: per UC81xx / ACeP panel ONE theorem that composes
`C02.history_ready` (any history of programs that keep / establish the mode) with the eight `E2EA`
instances of `update_frame` (one per combination of driver fields): any history, any driver state, any
buffer -> the plane after update_frame holds the (encoded) buffer.  The output is Lean source checked by
the kernel on every build; nothing here is trusted.  Run by hand: python3 tools/gen_c02_composed.py"""
import os, re, glob
ROOT = os.path.dirname(os.path.dirname(os.path.abspath(__file__)))
E2EA = os.path.join(ROOT, "lean/EpdVerif/Props/E2EA")
PANELS = ["epd1in54c", "epd2in13bc", "epd2in9bc", "epd4in2", "epd5in65f", "epd5in83_v2", "epd5in83b_v2", "epd7in3f",
          "epd7in5_v2", "epd7in5b_v2", "epd2in7"]
COMBOS = [(r, o, p) for r in ("full", "quick") for o in ("off", "on") for p in ("nopf", "pf")]
inst = {}
for path in sorted(glob.glob(os.path.join(E2EA, "*.lean"))):
    mod = os.path.basename(path)[:-5]
    src = open(path).read()
    for m in re.finditer(r"^theorem (epd\w+?)_upd_from_any_state_(full|quick)_(off|on)_(nopf|pf)_plane(\d) \(u : Uc\) \(ha : u\.asleep = false\) \(hp : u\.partialOn = false\) \(h14 : u\.has14 = (true|false)\)\n\s*\(hsz : \(Uc\.planeU \d u\)\.size = (\d+)\) \(bg : Nat\) \(sm : UInt8\) \(od : List UInt8\) \(b0 : Bytes\) \(h0 : b0\.length = (\d+)\) :\n(.*?)\n(.*?) := by", src, re.M):
        pn, r, o, p, plane, h14, size, blen, _c1, c2 = m.groups()
        rhs = c2.split(".toList = ", 1)[1].strip()
        inst.setdefault((pn, plane), {})[(r, o, p)] = (mod, m.group(0).split(" ")[1], h14, size, blen, rhs)
L = ["import EpdVerif.Props.C02Partial"]
mods = sorted({v[0] for d in inst.values() for v in d.values() if True})
body = []
for (pn, plane), d in sorted(inst.items()):
    if pn not in PANELS or len(d) != 8:
        continue
    for v in d.values():
        L.append(f"import EpdVerif.Props.E2EA.{v[0]}")
    mod0, _, h14, size, blen, rhs = d[("full", "off", "nopf")]
    P = "Drivers.E" + pn[1:]
    pf = "p1" if plane == "0" else "p2"
    body.append(f"""
/-- {pn}, plane {plane}: any history of mode-keeping / mode-establishing programs, any driver state, any buffer -/
theorem {pn}_any_history_then_update_plane{plane} (progs : List (List Act)) (u : Uc)
    (ha : u.asleep = false) (hp : u.partialOn = false) (h14 : u.has14 = {h14}) (hsz : u.{pf}.size = {size})
    (h : ∀ a, a ∈ progs → keepsModeP ({P}.panel {{}}) a = true ∨ establishesModeP ({P}.panel {{}}) a = true)
    (d : DState) (b0 : Bytes) (h0 : b0.length = {blen}) :
    ∃ u' : Uc, progs.foldl (fun c a => c.run (blocksOf a)) (Ctrl.uc u) = .uc u' ∧
      (Uc.planeU {plane} ((blocksOf ((({P}.panel {{}}).prog d (.upd b0)).getD [.panic])).foldl Uc.feed u')).toList = {rhs} := by
  obtain ⟨u', e, s2, s1⟩ := uc_history progs u
  refine ⟨u', e, ?_⟩
  have hr := history_ready ({P}.panel {{}}) progs (.uc u) (by show u.has14 = _; rw [h14]; rfl)
    (by show (Uc.flags u).good = true; simp only [Uc.flags, ha, hp, h14]; rfl) h
  rw [e] at hr
  have g : (Uc.flags u').good = true := hr.1
  have l : u'.has14 = {h14} := hr.2
  have ha' : u'.asleep = false := by
    have := g; simp only [Uc.flags, Uc.Flags.good] at this; revert this; cases u'.asleep <;> simp
  have hp' : u'.partialOn = false := by
    have := g; simp only [Uc.flags, Uc.Flags.good] at this; revert this; cases u'.asleep <;> cases u'.partialOn <;> simp
  have hs' : (Uc.planeU {plane} u').size = {size} := by show u'.{pf}.size = _; rw [{'s1' if plane == '0' else 's2'}, hsz]
  rcases d with ⟨bg, refresh, isOn, pf, sm, od⟩
  cases refresh <;> cases isOn <;> cases pf""")
    for (r, o, p) in [(r, o, p) for r in ("full", "quick") for o in ("off", "on") for p in ("nopf", "pf")]:
        mod, name, *_ = d[(r, o, p)]
        body.append(f"  · exact (E2EA.{mod}.{name} u' ha' hp' l hs' bg sm od b0 h0).2")
    PAN = "Panels.E" + pn[1:]
    L.append(f"import EpdVerif.Props.{PAN}")
    body.append(f"""
/-- {pn}, plane {plane} — RECOVERY (C04 c, C08 iv): from ANY controller state of the panel's kind (asleep, in
    partial mode, whatever a failed or interrupted call left behind) `wake_up`, then any history, then
    `update_frame` delivers the buffer; every driver state at each step, every buffer -/
theorem {pn}_wake_from_any_state_then_update_plane{plane} (u : Uc) (h14 : u.has14 = {h14}) (hsz : u.{pf}.size = {size})
    (d0 : DState) (progs : List (List Act))
    (h : ∀ a, a ∈ progs → keepsModeP ({P}.panel {{}}) a = true ∨ establishesModeP ({P}.panel {{}}) a = true)
    (d : DState) (b0 : Bytes) (h0 : b0.length = {blen}) :
    ∃ u1 u' : Uc, (Ctrl.uc u).run (blocksOf (({P}.prog {{}} d0 .wake).getD [])) = .uc u1 ∧
      progs.foldl (fun c a => c.run (blocksOf a)) (Ctrl.uc u1) = .uc u' ∧
      (Uc.planeU {plane} ((blocksOf ((({P}.panel {{}}).prog d (.upd b0)).getD [.panic])).foldl Uc.feed u')).toList = {rhs} := by
  obtain ⟨u1, e1, a1, p1, f1, z1, z2⟩ := uc_recover ({P}.panel {{}}) _ rfl _ ({pn}_wake_establishes_mode {{}} d0) u (by rw [h14]; rfl)
  obtain ⟨u', e2, r⟩ := {pn}_any_history_then_update_plane{plane} progs u1 a1 p1 (by rw [f1]; rfl) (by rw [{'z1' if plane == '0' else 'z2'}, hsz]) h d b0 h0
  exact ⟨u1, u', e1, e2, r⟩""")
# ---- SSD16xx panels
SSD = ["epd1in54", "epd1in54_v2", "epd2in9", "epd2in13_v2", "epd2in7_v2"]
sinst = {}
for path in sorted(glob.glob(os.path.join(E2EA, "*.lean"))):
    mod = os.path.basename(path)[:-5]
    src = open(path).read()
    for m in re.finditer(r"^theorem (epd\w+?)_upd_from_any_state_(full|quick)_(off|on)_(nopf|pf)_plane(\d) \(s : Ssd\) \(hw : Ssd\.WfSize s\) \(ha : s\.asleep = false\) \(he : s\.entry = 3\) \(hx : s\.xPix = (true|false)\)\n\s*\(hs : s\.stride = (\d+)\) \(hr : s\.rows = (\d+)\) \(bg : Nat\) \(sm : UInt8\) \(od : List UInt8\) \(b0 : Bytes\) \(h0 : b0\.length = (\d+)\) :\n(.*?)\n(    ∀ \(j : Nat\).*?)\n(.*?) := by", src, re.M):
        pn, r, o, p, plane, xpix, stride, rows, blen, _c1, c2, c3 = m.groups()
        sinst.setdefault((pn, plane), {})[(r, o, p)] = (mod, m.group(0).split(" ")[1], xpix, stride, rows, blen, c2.strip(), c3.strip())
for (pn, plane), d in sorted(sinst.items()):
    if pn not in SSD or len(d) != 8:
        continue
    for v in d.values():
        L.append(f"import EpdVerif.Props.E2EA.{v[0]}")
    mod0, name0, xpix, stride, rows, blen, c2, c3 = d[("full", "off", "nopf")]
    P = "Drivers.E" + pn[1:]
    rec = "{ bg := bg, refresh := .full, isOn := false, partialFlag := false, sleepMode := sm, oldData := od }"
    concl = (c2 + "\n      " + c3).replace(rec, "d").replace("Ssd.feed s)", "Ssd.feed s')")
    body.append(f"""
/-- {pn}, plane {plane} (SSD16xx): any history of mode-keeping / mode-establishing programs, any driver state, any buffer -/
theorem {pn}_any_history_then_update_plane{plane} (progs : List (List Act)) (s : Ssd) (hw : Ssd.WfSize s)
    (ha : s.asleep = false) (he : s.entry = 3) (hx : s.xPix = {xpix}) (hs : s.stride = {stride}) (hr : s.rows = {rows})
    (h : ∀ a, a ∈ progs → keepsModeP ({P}.panel {{}}) a = true ∨ establishesModeP ({P}.panel {{}}) a = true)
    (d : DState) (b0 : Bytes) (h0 : b0.length = {blen}) :
    ∃ s' : Ssd, progs.foldl (fun c a => c.run (blocksOf a)) (Ctrl.ssd s) = .ssd s' ∧
      {concl} := by
  obtain ⟨s', e, hw'⟩ := ssd_history progs s hw
  refine ⟨s', e, ?_⟩
  have hrdy := history_ready ({P}.panel {{}}) progs (.ssd s)
    (by show (Ssd.mode s).xPix = _ ∧ (Ssd.mode s).stride = _ ∧ (Ssd.mode s).rows = _; exact ⟨by show s.xPix = _; rw [hx]; rfl, by show s.stride = _; rw [hs]; rfl, by show s.rows = _; rw [hr]; rfl⟩)
    (by show (Ssd.mode s).good = true; simp only [Ssd.Mode.good]; show (!s.asleep && s.entry == 3) = true; rw [ha, he]; rfl) h
  rw [e] at hrdy
  obtain ⟨ha', he'⟩ := ssd_ready_facts s' hrdy.1
  have hl : (Ssd.mode s').xPix = _ ∧ (Ssd.mode s').stride = _ ∧ (Ssd.mode s').rows = _ := hrdy.2
  have hx' : s'.xPix = {xpix} := hl.1
  have hs' : s'.stride = {stride} := hl.2.1
  have hr' : s'.rows = {rows} := hl.2.2
  rcases d with ⟨bg, refresh, isOn, pf, sm, od⟩
  cases refresh <;> cases isOn <;> cases pf""")
    for (r, o, p) in COMBOS:
        mod, name, *_ = d[(r, o, p)]
        body.append(f"  · exact (E2EA.{mod}.{name} s' hw' ha' he' hx' hs' hr' bg sm od b0 h0).2")
    PAN = "Panels.E" + pn[1:]
    L.append(f"import EpdVerif.Props.{PAN}")
    concl2 = concl.replace("s')", "s2)")
    body.append(f"""
/-- {pn}, plane {plane} (SSD16xx) — RECOVERY: from ANY controller state of the panel's kind `wake_up`, then any
    history, then `update_frame` delivers the buffer -/
theorem {pn}_wake_from_any_state_then_update_plane{plane} (s : Ssd) (hw : Ssd.WfSize s)
    (hx : s.xPix = {xpix}) (hs : s.stride = {stride}) (hr : s.rows = {rows})
    (d0 : DState) (progs : List (List Act))
    (h : ∀ a, a ∈ progs → keepsModeP ({P}.panel {{}}) a = true ∨ establishesModeP ({P}.panel {{}}) a = true)
    (d : DState) (b0 : Bytes) (h0 : b0.length = {blen}) :
    ∃ s1 s2 : Ssd, (Ctrl.ssd s).run (blocksOf (({P}.prog {{}} d0 .wake).getD [])) = .ssd s1 ∧
      progs.foldl (fun c a => c.run (blocksOf a)) (Ctrl.ssd s1) = .ssd s2 ∧
      {concl2} := by
  obtain ⟨s1, e1, w1, a1, n1, x1, t1, r1⟩ := ssd_recover ({P}.panel {{}}) _ rfl _ ({pn}_wake_establishes_mode {{}} d0) s hw (by rw [hx]; rfl) (by rw [hs]; rfl) (by rw [hr]; rfl)
  obtain ⟨s2, e2, r⟩ := {pn}_any_history_then_update_plane{plane} progs s1 w1 a1 n1 (by rw [x1]; rfl) (by rw [t1]; rfl) (by rw [r1]; rfl) h d b0 h0
  exact ⟨s1, s2, e1, e2, r⟩""")
L = sorted(set(L), key=lambda x: (x != "import EpdVerif.Props.C02Partial", x))
out = "\n".join(L) + """
/-!
# C02 composed per panel (generated by tools/gen_c02_composed.py; checked by Lean on every build)

`history_ready` + `uc_history` + the eight `E2EA` instances of `update_frame`: from any awake controller
of the panel's kind outside partial mode, after ANY list (any length) of programs that each keep or
establish the mode, for EVERY driver state and EVERY buffer of the frame's size, the plane after
`update_frame` holds the (encoded) buffer.
-/
namespace EpdVerif.Props.C02
open EpdVerif
""" + "\n".join(body) + "\n\nend EpdVerif.Props.C02\n"
open(os.path.join(ROOT, "lean/EpdVerif/Props/C02Composed.lean"), "w").write(out)
print("theorems:", sum(1 for b in body if b.startswith("\n/--")))
